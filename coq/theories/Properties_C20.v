(* C20  An interrupted run never corrupts later incremental results.
   Statements only; every proof is `exact <lemma>`. *)
From CV Require Import Base.Bytes Cache.Defs Cache.Proofs Cache.Xml Cache.XmlProofs.
Local Open Scope N_scope.

(* A cache file is written as: header (xml declaration, root start tag with the
   hash), one item per reportErr/setFileInfo, and the root end tag LAST (close()).
   Cutting it anywhere - inside the header, inside an item, inside the end tag -
   gives a file the loader (accept = tinyxml2 LoadFile + skipAnalysis, see Xml.v)
   does not use; the only cuts that are accepted are "nothing cut" and "only the
   final newline cut", both of which contain the complete document. *)
Theorem C20_proper_prefix_rejected k items p :
  key_ok k = true -> forallb item_ok items = true ->
  prefix_of p (writer k items) -> p <> writer k items -> p ++ [10] <> writer k items ->
  accept k p = false.
Proof. exact (proper_prefix_rejected k items p). Qed.
Print Assumptions C20_proper_prefix_rejected.

(* the same after AnalyzerInformation::reopen appended unmatchedSuppression findings *)
Theorem C20_reopen_prefix_rejected k items more p :
  key_ok k = true -> forallb item_ok (items ++ more) = true ->
  prefix_of p (reopened k items more) -> p <> reopened k items more -> p ++ [10] <> reopened k items more ->
  accept k p = false.
Proof. exact (reopen_prefix_rejected k items more p). Qed.
Print Assumptions C20_reopen_prefix_rejected.

(* a file (or any prefix of it) written for another hash is never used *)
Theorem C20_other_hash_rejected k k' items p :
  key_ok k = true -> key_ok k' = true -> k <> k' -> prefix_of p (writer k items) -> accept k' p = false.
Proof. exact (other_hash_rejected k k' items p). Qed.
Print Assumptions C20_other_hash_rejected.

(* and the complete file is used: accept is not trivially false *)
Theorem C20_complete_file_accepted k items :
  key_ok k = true -> forallb item_ok items = true -> accept k (writer k items) = true.
Proof. exact (complete_file_accepted k items). Qed.
Print Assumptions C20_complete_file_accepted.

(* A run is killed after it went through the files `done` (any subset in any order:
   -j1 and -j>1 alike); of the cache files it leaves, an arbitrary part is loadable
   (complete files), the rest is truncated (rejected by the theorems above) or
   missing: bdc has, per cache file, either nothing or what that partial run stored.
   Then the next complete run reports exactly what a run without a build dir reports
   (under the premises of C18: faithful key, no hash collision, unique lookup). *)
Theorem C20_crash_then_complete
  (opts msg summ content : Type) (lm : lookup_mode) (H : str -> N) (keydata : opts -> ustate -> str)
  (analyze : opts -> ustate -> list msg * summ) (is_internal : msg -> bool)
  (wp : opts -> list (str * summ) -> list msg) (view : opts -> fsys content -> str -> ustate)
  (D : str -> Prop) :
  (forall a b, D a -> D b -> H a = H b -> a = b) ->
  (forall o u o' u', keydata o u = keydata o' u' -> analyze o u = analyze o' u') ->
  forall o1 fs1 ftxt1 done bd bdc o fs files bd' rep,
    Inv opts msg summ H keydata analyze D bd ->
    Forall (fun p => D (keydata o1 (view o1 fs1 p))) done ->
    (forall af, bd_get msg summ bdc af = None \/
                bd_get msg summ bdc af =
                bd_get msg summ (fst (fold_left (run_file opts msg summ content lm H keydata analyze is_internal view o1 fs1 ftxt1) done (bd, []))) af) ->
    Forall (fun p => D (keydata o (view o fs p))) files -> lookup_okb lm files = true ->
    run opts msg summ content lm H keydata analyze is_internal wp view o fs files bdc = (bd', rep) ->
    rep = fresh opts msg summ content analyze wp view o fs files /\
    Inv opts msg summ H keydata analyze D bd'.
Proof.
  intros Hc Hf. exact (crash_then_complete opts msg summ content lm H keydata analyze is_internal wp view D Hc Hf).
Qed.
Print Assumptions C20_crash_then_complete.

(* non-vacuity: a real-looking item is an item, a key is a key *)
Example C20_item_example :
  item_ok [32;60;101;32;105;100;61;34;120;34;62;10;32;60;108;32;97;61;34;49;34;47;62;10;32;60;47;101;62;10] = true.
Proof. vm_compute. reflexivity. Qed.
Example C20_key_example : key_ok [49;50;51] = true.
Proof. vm_compute. reflexivity. Qed.
