(* C30  Library configuration semantics are applied as declared.
   Statements only; every proof is `exact <lemma>` (or vm_compute on a closed witness). *)
From CV Require Import Base.Bytes Lib.Defs Lib.Proofs Lib.WalkProofs Lib.CheckProofs Lib.Gen_Valids Lib.Shipped.
Local Open Scope N_scope.

(* Library::isIntArgValid, as the code walks the token list of the <valid> text, decides
   exactly the documented meaning  -- `!v` (all values except v) or  item(,item)*,
   item := v | a:b | a: | :b  -- for every expression of that language (any number of items,
   negative bounds), every argument value, provided the bounds are 64-bit values and ranges
   are not reversed; and it never throws *)
Theorem C30_int_arg_valid_spec s e z :
  parse_vexpr s = Some e -> vexpr_ok e = true ->
  (int_arg_valid s z = Some true <-> denote_v e z) /\ int_arg_valid s z <> None.
Proof. exact (int_arg_valid_vspec s e z). Qed.
Print Assumptions C30_int_arg_valid_spec.

(* the same as an equation with the executable denotation *)
Theorem C30_int_arg_valid_denote s e z :
  parse_vexpr s = Some e -> vexpr_ok e = true -> int_arg_valid s z = Some (denote_v_b e z).
Proof. exact (int_arg_valid_denote_v_b s e z). Qed.
Print Assumptions C30_int_arg_valid_denote.

Theorem C30_denote_b_spec e z : denote_v_b e z = true <-> denote_v e z.
Proof. exact (denote_v_b_spec e z). Qed.
Print Assumptions C30_denote_b_spec.

(* `!v` with an integer v: all values are accepted, except v (was a finding; fixed by b7bc34c) *)
Theorem C30_bang_int n v z :
  parse_num n = Some v -> in64 v = true -> int_arg_valid (cBANG :: n) z = Some (negb (z =? v)%Z).
Proof. exact (int_arg_valid_bang n v z). Qed.
Print Assumptions C30_bang_int.

(* every expression of the documented language passes isCompliantValidationExpression,
   i.e. the loader accepts it *)
Theorem C30_documented_expressions_load s e : parse_vexpr s = Some e -> compliant s = true.
Proof. exact (vparses_compliant s e). Qed.
Print Assumptions C30_documented_expressions_load.

(* invalidFunctionArg decision for a known constant: reported iff outside the declared ranges *)
Theorem C30_reports_invalid_arg_iff ac e z :
  ac_valid ac <> [] -> parse_vexpr (ac_valid ac) = Some e -> vexpr_ok e = true ->
  (reports_invalid_arg ac z = Some true <-> ~ denote_v e z).
Proof. exact (reports_invalid_arg_iff ac e z). Qed.
Print Assumptions C30_reports_invalid_arg_iff.

(* the loop over the children of <arg>: the restriction flags are exactly the declared
   elements, the last <valid> wins, loading is refused iff some <valid> is not compliant *)
Theorem C30_arg_children_spec cs :
  load_children cs ac0 =
  if all_valid_ok cs then
    Some (mkAC (existsb is_notnull cs) (existsb is_notbool cs) (existsb is_notuninit cs) (last_valid cs []))
  else None.
Proof. exact (load_children_spec cs ac0). Qed.
Print Assumptions C30_arg_children_spec.

(* not-null / not-bool: reported exactly when declared and violated by the constant *)
Theorem C30_reports_null_bool cs ac isnull isbool :
  load_children cs ac0 = Some ac ->
  (reports_null ac isnull = true <-> In CNotNull cs /\ isnull = true) /\
  (reports_bool ac isbool = true <-> In CNotBool cs /\ isbool = true).
Proof. exact (reports_null_bool cs ac isnull isbool). Qed.
Print Assumptions C30_reports_null_bool.

(* the regenerated table of all shipped <valid> texts (the bound is the table itself):
   each is accepted by the loader; each integer one is in the documented grammar and the
   model's verdict is its denotation for every argument value *)
Theorem C30_shipped_valids_ok :
  forallb shipped_ok valids = true /\
  forall s, In s valids ->
    compliant s = true /\
    (int_domain s = true ->
     exists e, parse_vexpr s = Some e /\ forall z, int_arg_valid s z = Some (denote_v_b e z)).
Proof. exact (conj shipped_table_ok shipped_valids_ok). Qed.
Print Assumptions C30_shipped_valids_ok.

(* ---- the converse of C30_documented_expressions_load does not hold: the loader accepts more
   than the documented language ("1,,2" ":" "," "+5" "1+2" "!0,1"); harmless laxness *)
Theorem C30_compliant_wider_than_grammar_refuted :
  Forall (fun s => compliant s = true /\ parse_vexpr s = None)
         [[49;44;44;50]; [58]; [44]; [43;53]; [49;43;50]; [33;48;44;49]].
Proof. repeat (apply Forall_cons; [split; vm_compute; reflexivity|]). apply Forall_nil. Qed.

(* "1:2:3" and "-:1" are refused at load time *)
Example C30_refused_examples : compliant [49;58;50;58;51] = false /\ compliant [45;58;49] = false.
Proof. split; reflexivity. Qed.

(* the side conditions of the main theorem are needed: a reversed range accepts its two
   end points, a bound from 2^63 on wraps around, a bound from 2^64 on throws *)
Theorem C30_side_conditions_needed :
  (* "5:3", z = 5 *)
  (exists e, parse_valid [53;58;51] = Some e /\ expr_ok e = false /\ denote_b e 5 = false /\ int_arg_valid [53;58;51] 5 = Some true) /\
  (* "9223372036854775808:", z = 0 *)
  (exists e, parse_valid [57;50;50;51;51;55;50;48;51;54;56;53;52;55;55;53;56;48;56;58] = Some e /\ expr_ok e = false /\
             denote_b e 0 = false /\ int_arg_valid [57;50;50;51;51;55;50;48;51;54;56;53;52;55;55;53;56;48;56;58] 0 = Some true) /\
  (* "18446744073709551616" *)
  int_arg_valid [49;56;52;52;54;55;52;52;48;55;51;55;48;57;53;53;49;54;49;54] 0 = None.
Proof.
  split; [|split].
  - eexists. repeat split; vm_compute; reflexivity.
  - eexists. repeat split; vm_compute; reflexivity.
  - vm_compute. reflexivity.
Qed.

(* premises are inhabited: "0,2:36" (the most used list in std.cfg), ":-1,1:" *)
Example C30_ex1 : exists e, parse_valid [48;44;50;58;51;54] = Some e /\ expr_ok e = true /\
                            int_arg_valid [48;44;50;58;51;54] 1 = Some false /\ int_arg_valid [48;44;50;58;51;54] 36 = Some true.
Proof. eexists. repeat split; vm_compute; reflexivity. Qed.
Example C30_ex2 : exists e, parse_valid [58;45;49;44;49;58] = Some e /\ expr_ok e = true /\
                            int_arg_valid [58;45;49;44;49;58] 0 = Some false /\ int_arg_valid [58;45;49;44;49;58] (-5) = Some true.
Proof. eexists. repeat split; vm_compute; reflexivity. Qed.
Example C30_ex_bang : parse_vexpr [33;48] = Some (VNot 0) /\ int_arg_valid [33;48] 0 = Some false /\ int_arg_valid [33;48] 1 = Some true
                      /\ int_arg_valid [33;45;53] (-5) = Some false.   (* "!0", "!-5" *)
Proof. repeat split; vm_compute; reflexivity. Qed.
Example C30_ex3 : exists ac, load_children [CNotNull; CValid [48;58]; CNotBool] ac0 = Some ac /\ ac_valid ac = [48;58].
Proof. eexists. split; vm_compute; reflexivity. Qed.
Example C30_table_size : valids_distinct = N.of_nat (length valids) /\ (0 < n_int_valids).
Proof. split; vm_compute; reflexivity. Qed.
