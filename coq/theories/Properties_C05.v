(* C05  Results are invariant under meaning-preserving rewrites -- the two places where layout and names
   enter the analysis: the raw lexer (layout) and the VariableMap (names).
   partial: the lexer theorems cover readfile for names/numbers and single-character punctuators (stage 1) and
   readfile + combineOperators for the two-character operators built from one adjacent pair (stage 2, maximal
   munch), with blank separators; shifts, ++ --, and-assign, ellipsis, float assembly, comments, literals and
   line splices are modelled (Names/LexDefs.v) and tied by runs only; that every later pass looks only at tokens and ids is carried by
   the end-to-end rewrite runs of tools/props/c05.py. *)
From Coq Require Import List NArith Bool.
From CV Require Import Base.Bytes Names.Defs Names.VmProofs Names.LexDefs Names.LexProofs Names.LexProofs2 Names.LexProofs3 Names.LexProofs4 Names.ReorderProofs.
Import ListNotations.
Local Open Scope N_scope.

(* identity is independent of spelling: for every injective renaming of names and every operation
   sequence the VariableMap hands out and answers exactly the same ids *)
Theorem C05_rename_invariant : forall (rho : str -> str),
  (forall a b, rho a = rho b -> a = b) ->
  forall ops, run_vm (map (rename_op rho) ops) = run_vm ops.
Proof. exact rename_invariant. Qed.
Print Assumptions C05_rename_invariant.

Example C05_rename_invariant_inhabited : forall a b : str, (95 :: a) = (95 :: b) -> a = b.
Proof. intros a b H. injection H as H. exact H. Qed.

(* layout: for every token list of the fragment and every family of blank separators that separates
   what would fuse (two names; `/` before `/` or `*`), phase 1 of the lexer returns exactly the tokens,
   each at the position the rewrite's location map (`positions`) computes, none marked as a comment *)
Theorem C05_lex_render_partial : forall toks ws,
  length ws = S (length toks) ->
  Forall (fun w => forallb is_blank w = true) ws ->
  forallb stok_ok toks = true ->
  sep_ok ws toks = true ->
  map tstr (lex1 (render ws toks)) = map stok_str toks /\
  map (fun t => (tline t, tcol t)) (lex1 (render ws toks)) = positions ws toks 1 1 /\
  forallb (fun t => negb (tcomment t)) (lex1 (render ws toks)) = true.
Proof.
  intros toks ws H1 H2 H3 H4. rewrite (lex_render_partial toks ws H1 H2 H3 H4).
  repeat split; [apply expect_strs | apply expect_positions | apply expect_nocomment]; assumption.
Qed.
Print Assumptions C05_lex_render_partial.

Example C05_lex_render_partial_inhabited :
  let toks := [SName [120]; SOp 47; SOp 47; SName [49; 50]; SName [121]; SOp 59] in
  let ws := [[32; 9]; []; [10]; []; [12; 10; 32]; []; [10]] in
  length ws = S (length toks) /\ forallb (forallb is_blank) ws = true /\ forallb stok_ok toks = true /\
  sep_ok ws toks = true /\
  map (fun t => (tstr t, tline t, tcol t)) (lex1 (render ws toks)) =
    [([120], 1, 3); ([47], 1, 4); ([47], 2, 1); ([49; 50], 2, 2); ([121], 3, 2); ([59], 3, 3)].
Proof. vm_compute. repeat split; reflexivity. Qed.

(* the separator condition is necessary *)
Theorem C05_lex_render_needs_sep_refuted :
  exists toks ws, length ws = S (length toks) /\ forallb stok_ok toks = true /\ sep_ok ws toks = false /\
                  map tstr (lex1 (render ws toks)) <> map stok_str toks.
Proof. exact lex_render_needs_sep. Qed.
Print Assumptions C05_lex_render_needs_sep_refuted.

(* stage 2, maximal munch: the full raw lexer (readfile + combineOperators) returns, for every token list that may
   also contain  == != <= >= += -= *= /= %= |= ^= || && :: -> << >> ++ -- <<= >>= ...  and every family of blank separators that keeps two
   names and two operators apart, exactly the tokens (the two characters read back as ONE token) at the positions
   of the rewrite's location map. no_exp keeps `1e + 5` out (assembled whatever separates the parts); ctx_ok states the
   context rules of combineOperators: a shift is not followed by a lone `=` (it would be read as shift-assign whatever
   separates them), `++`/`--` does not stand next to a number token (`1 ++ 2` stays `+ +`), a shift-assign is followed by a
   further token that is not a lone `=` (the code requires one), the ellipsis does not follow a number token. *)
Theorem C05_lex_render_munch_partial : forall toks ws,
  length ws = S (length toks) ->
  Forall (fun w => forallb is_blank w = true) ws ->
  forallb stok2_ok toks = true ->
  sep2_ok ws toks = true ->
  no_exp toks = true ->
  ctx_ok false toks = true ->
  map tstr (lex (render2 ws toks)) = map stok2_str toks /\
  map (fun t => (tline t, tcol t)) (lex (render2 ws toks)) = positions2 ws toks 1 1.
Proof.
  intros toks ws H1 H2 H3 H4 H5 H6. rewrite (lex_render_munch toks ws H1 H2 H3 H4 H5 H6).
  split; [apply merged_strs | apply merged_positions]; assumption.
Qed.
Print Assumptions C05_lex_render_munch_partial.

Example C05_lex_render_munch_partial_inhabited :
  let toks := [TName [97]; TOp2 60 61; TName [98]; TOp2 38 38; TOp 33; TName [99]; TOp2 45 62; TName [100]; TOp2 60 60;
               TName [49]; TOp 59; TName [105]; TOp2 43 43; TOp 59; TName [120]; TOp3 62 62 61; TName [51]; TOp 44; TOp3 46 46 46] in
  let ws := [[]; [32]; []; [10; 9]; [32]; []; []; []; []; []; []; [10]; []; [32]; [10]; []; []; []; [32]; []] in
  length ws = S (length toks) /\ forallb (forallb is_blank) ws = true /\ forallb stok2_ok toks = true /\
  sep2_ok ws toks = true /\ no_exp toks = true /\ ctx_ok false toks = true /\
  map (fun t => (tstr t, tline t, tcol t)) (lex (render2 ws toks)) =
    [([97], 1, 1); ([60; 61], 1, 3); ([98], 1, 5); ([38; 38], 2, 2); ([33], 2, 5); ([99], 2, 6); ([45; 62], 2, 7); ([100], 2, 9);
     ([60; 60], 2, 10); ([49], 2, 12); ([59], 2, 13); ([105], 3, 1); ([43; 43], 3, 2); ([59], 3, 5);
     ([120], 4, 1); ([62; 62; 61], 4, 2); ([51], 4, 5); ([44], 4, 6); ([46; 46; 46], 4, 8)].
Proof. vm_compute. repeat split; reflexivity. Qed.

Theorem C05_lex_munch_needs_sep_refuted :
  exists toks ws, length ws = S (length toks) /\ forallb stok2_ok toks = true /\ sep2_ok ws toks = false /\
                  map tstr (lex (render2 ws toks)) <> map stok2_str toks.
Proof. exact lex_munch_needs_sep. Qed.
Print Assumptions C05_lex_munch_needs_sep_refuted.

(* reordering: putting an independent, balanced top-level definition `ins` in front of a definition `d` changes d's ids
   only by the bijection `shift`: ids that existed before both definitions stay, d's own ids move up by the number of ids
   `ins` takes. (Swapping two adjacent independent definitions = this statement for each of the two.) Independent: d
   mentions no name that ins declares at top level. d's lookups are plain local lookups (no `::x`, no `type name (` site). *)
Theorem C05_reorder_invariant : forall pre ins d,
  bal 0 pre = true -> bal 0 ins = true -> indep ins d = true -> forallb simple_op d = true ->
  let s1 := fst (vm_run vm0 pre) in
  let s2 := fst (vm_run vm0 (pre ++ ins)) in
  snd (vm_run s2 d) = shift_outs (next s1) (count_new ins) d (snd (vm_run s1 d)).
Proof. exact reorder_invariant. Qed.
Print Assumptions C05_reorder_invariant.

Example C05_reorder_invariant_inhabited :
  let pre := [Add [103] true] in                                                      (* int g; *)
  let ins := [Add [104] true; Enter; Add [120] false; Use [120] false false; Use [103] false false; Leave] in   (* h, x *)
  let d := [Add [102] true; Enter; Add [120] false; Use [120] false false; Use [103] false false; Leave] in     (* f, x *)
  bal 0 pre = true /\ bal 0 ins = true /\ indep ins d = true /\ forallb simple_op d = true /\
  snd (vm_run (fst (vm_run vm0 pre)) d) = [2; 0; 3; 3; 1; 1] /\
  snd (vm_run (fst (vm_run vm0 (pre ++ ins))) d) = [4; 0; 5; 5; 1; 1].
Proof. vm_compute. repeat split; reflexivity. Qed.

(* stage 3, comments: separators are words over blanks, block comments and line comments (bodies without star, slash,
   backslash, CR resp. without LF, backslash, CR). The full lexer returns the tokens - every comment becomes a comment
   token, which is filtered out here as cppcheck's removeComments does - at the positions of the location map
   (positions3: Location::adjust over the whole separator text). A separator is needed between two names and between two
   operators, and a comment must not follow the operator slash directly (necessity: C05_lex_comment_after_slash_refuted). *)
Theorem C05_lex_render_comments_partial : forall toks ws,
  length ws = S (length toks) ->
  Forall (fun w => forallb sitem_ok w = true) ws ->
  forallb stok2_ok toks = true ->
  sep3_ok ws toks = true ->
  no_exp toks = true ->
  ctx_ok false toks = true ->
  map tstr (filter (fun t => negb (tcomment t)) (lex (render3 ws toks))) = map stok2_str toks /\
  map (fun t => (tline t, tcol t)) (filter (fun t => negb (tcomment t)) (lex (render3 ws toks))) = positions3 ws toks 1 1.
Proof.
  intros toks ws H1 H2 H3 H4 H5 H6. pose proof (lex_render_comments toks ws H1 H2 H3 H4 H5 H6) as H.
  unfold nc in H. rewrite H. split; [apply merged3_strs | apply merged3_positions]; assumption.
Qed.
Print Assumptions C05_lex_render_comments_partial.

Example C05_lex_render_comments_partial_inhabited :
  let toks := [TName [97]; TOp2 43 61; TName [98]; TOp 47; TName [99]; TOp 59] in
  let ws := [[SBlock [104; 10; 105]; SBlank 10]; [SBlock []]; [SBlank 32; SLine [110]]; [SBlank 32]; [SBlank 32; SBlock [120]]; []; [SLine []]] in
  length ws = S (length toks) /\ forallb (forallb sitem_ok) ws = true /\ forallb stok2_ok toks = true /\
  sep3_ok ws toks = true /\ no_exp toks = true /\ ctx_ok false toks = true /\
  map (fun t => (tstr t, tline t, tcol t)) (filter (fun t => negb (tcomment t)) (lex (render3 ws toks))) =
    [([97], 3, 1); ([43; 61], 3, 6); ([98], 4, 1); ([47], 4, 3); ([99], 4, 10); ([59], 4, 11)].
Proof. vm_compute. repeat split; reflexivity. Qed.

Theorem C05_lex_comment_after_slash_refuted :
  exists toks ws, length ws = S (length toks) /\ forallb stok2_ok toks = true /\ sep3_ok ws toks = false /\
                  map tstr (filter (fun t => negb (tcomment t)) (lex (render3 ws toks))) <> map stok2_str toks.
Proof. exact lex_comment_after_slash. Qed.
Print Assumptions C05_lex_comment_after_slash_refuted.

(* line splices: separators are words over blanks and backslash-blanks-newline. Phase 1 returns exactly the tokens; their
   positions follow readfile's multiline bookkeeping (positionsb / step_item: a splice keeps the line, lets the column run
   on and is paid back by the next real newline) - i.e. a token after a splice is reported on the line of the logical line's
   first physical line, which is what the rewrite's location map has to use for this family. *)
Theorem C05_lex_render_splice_partial : forall toks ws,
  length ws = S (length toks) ->
  Forall (fun w => forallb bitem_ok w = true) ws ->
  forallb stok_ok toks = true ->
  sepb_ok ws toks = true ->
  map tstr (lex1 (renderb ws toks)) = map stok_str toks /\
  map (fun t => (tline t, tcol t)) (lex1 (renderb ws toks)) = positionsb ws toks (1, 1, 0).
Proof.
  intros toks ws H1 H2 H3 H4. rewrite (lex_render_splice toks ws H1 H2 H3 H4).
  split; [apply expectb_strs | apply expectb_positions]; assumption.
Qed.
Print Assumptions C05_lex_render_splice_partial.

Example C05_lex_render_splice_partial_inhabited :
  let toks := [SName [97]; SName [98]; SOp 43; SName [99]; SOp 59; SName [100]] in
  let ws := [[]; [BSplice []]; [BBlank 32; BSplice [32; 9]; BBlank 32]; []; []; [BBlank 10]; []] in
  length ws = S (length toks) /\ forallb (forallb bitem_ok) ws = true /\ forallb stok_ok toks = true /\
  sepb_ok ws toks = true /\
  map (fun t => (tstr t, tline t, tcol t)) (lex1 (renderb ws toks)) =
    [([97], 1, 1); ([98], 1, 3); ([43], 1, 9); ([99], 1, 10); ([59], 1, 11); ([100], 4, 1)].
Proof. vm_compute. repeat split; reflexivity. Qed.
