(* C05  Results are invariant under meaning-preserving rewrites -- the two places where layout and names
   enter the analysis: the raw lexer (layout) and the VariableMap (names).
   partial: the lexer theorem covers phase 1 (TokenList::readfile) for names/numbers and single-character
   punctuators with blank separators; combineOperators, comments, literals and line splices are modelled
   (Names/LexDefs.v) and tied by runs only; that every later pass looks only at tokens and ids is carried by
   the end-to-end rewrite runs of tools/props/c05.py. *)
From Coq Require Import List NArith Bool.
From CV Require Import Base.Bytes Names.Defs Names.VmProofs Names.LexDefs Names.LexProofs.
Import ListNotations.
Local Open Scope N_scope.

(* identity is independent of spelling: for every injective renaming of names and every operation
   sequence the VariableMap hands out and answers exactly the same ids *)
Theorem C05_rename_invariant : forall (rho : str -> str),
  (forall a b, rho a = rho b -> a = b) ->
  forall ops, run_vm (map (rename_op rho) ops) = run_vm ops.
Proof. exact rename_invariant. Qed.
Print Assumptions C05_rename_invariant.

Example C05_rename_invariant_inhabited : forall a b : str, (95 :: a) = (95 :: b) -> a = b.
Proof. intros a b H. injection H as H. exact H. Qed.

(* layout: for every token list of the fragment and every family of blank separators that separates
   what would fuse (two names; `/` before `/` or `*`), phase 1 of the lexer returns exactly the tokens,
   each at the position the rewrite's location map (`positions`) computes, none marked as a comment *)
Theorem C05_lex_render_partial : forall toks ws,
  length ws = S (length toks) ->
  Forall (fun w => forallb is_blank w = true) ws ->
  forallb stok_ok toks = true ->
  sep_ok ws toks = true ->
  map tstr (lex1 (render ws toks)) = map stok_str toks /\
  map (fun t => (tline t, tcol t)) (lex1 (render ws toks)) = positions ws toks 1 1 /\
  forallb (fun t => negb (tcomment t)) (lex1 (render ws toks)) = true.
Proof.
  intros toks ws H1 H2 H3 H4. rewrite (lex_render_partial toks ws H1 H2 H3 H4).
  repeat split; [apply expect_strs | apply expect_positions | apply expect_nocomment]; assumption.
Qed.
Print Assumptions C05_lex_render_partial.

Example C05_lex_render_partial_inhabited :
  let toks := [SName [120]; SOp 47; SOp 47; SName [49; 50]; SName [121]; SOp 59] in
  let ws := [[32; 9]; []; [10]; []; [12; 10; 32]; []; [10]] in
  length ws = S (length toks) /\ forallb (forallb is_blank) ws = true /\ forallb stok_ok toks = true /\
  sep_ok ws toks = true /\
  map (fun t => (tstr t, tline t, tcol t)) (lex1 (render ws toks)) =
    [([120], 1, 3); ([47], 1, 4); ([47], 2, 1); ([49; 50], 2, 2); ([121], 3, 2); ([59], 3, 3)].
Proof. vm_compute. repeat split; reflexivity. Qed.

(* the separator condition is necessary *)
Theorem C05_lex_render_needs_sep_refuted :
  exists toks ws, length ws = S (length toks) /\ forallb stok_ok toks = true /\ sep_ok ws toks = false /\
                  map tstr (lex1 (render ws toks)) <> map stok_str toks.
Proof. exact lex_render_needs_sep. Qed.
Print Assumptions C05_lex_render_needs_sep_refuted.
