(* C04: (i) how the checkers choose error vs warning for a value-flow value
   (lib/settings.cpp Settings::isEnabled, lib/vfvalue.h Value::errorSeverity, the *Error
   functions of checknullpointer/checkother/checkbufferoverrun/checktype/checkfunctions);
   (ii) the per-variable state machine of CheckLeakAutoVar::checkScope on straight-line
   allocation programs, and a concrete heap semantics to judge it against.
   Executable definitions only. *)
From CV Require Import Base.Bytes.
Local Open Scope Z_scope.

(* ---------- (i) severity gating ---------- *)
Inductive vkind := VKnown | VPossible | VInconclusive.
Record value := mkV { v_kind : vkind; v_cond : bool; v_defarg : bool }.
Record settings := mkS { s_warning : bool; s_inconclusive : bool }.

Definition is_known (v : value) : bool := match v_kind v with VKnown => true | _ => false end.
Definition is_inconclusive (v : value) : bool := match v_kind v with VInconclusive => true | _ => false end.

(* Value::errorSeverity *)
Definition error_severity (v : value) : bool := negb (v_cond v) && negb (v_defarg v).

(* Settings::isEnabled(const Value*, bool inconclusiveCheck) *)
Definition is_enabled (s : settings) (v : value) (inconclusive_check : bool) : bool :=
  if negb (s_warning s) && (v_cond v || v_defarg v) then false
  else if negb (s_inconclusive s) && (inconclusive_check || is_inconclusive v) then false
  else true.

Inductive severity := SError | SWarning.
Inductive checker := CNullPointer | CZeroDiv | CArrayIndex | CShift | COverflow | CInvalidArg.

(* None = nothing reported *)
Definition severity_of (c : checker) (s : settings) (v : value) (inconclusive : bool) : option severity :=
  match c with
  | CNullPointer =>
      if is_enabled s v inconclusive then
        if v_cond v then Some SWarning else if v_defarg v then Some SWarning
        else if is_known v then Some SError
        else if s_warning s then Some SWarning else None   (* fix c8e124b: a warning is not reported when warnings are off *)
      else None
  | CZeroDiv | CShift | COverflow =>
      if is_enabled s v false then Some (if error_severity v then SError else SWarning) else None
  | CArrayIndex =>
      if negb (error_severity v) && negb (s_warning s) then None
      else Some (if error_severity v then SError else SWarning)
  | CInvalidArg =>
      (* Token::getInvalidValue drops values that are not enabled *)
      if is_enabled s v false then Some (if error_severity v && is_known v then SError else SWarning) else None
  end.

(* ---------- CheckType::checkTooBigBitwiseShift: the width the shift count is compared with ----------
   the left operand is promoted (C11 6.5.7): bool/char/short/int -> int_bit, long -> long_bit, long long -> long_long_bit;
   the same for `<<` `>>` `<<=` `>>=`.  A Known count >= that width is shiftTooManyBits (error). *)
Inductive ibase := IBool | IChar | IShort | IInt | ILong | ILLong.
Definition own_bits (char_bit short_bit int_bit long_bit llong_bit : Z) (b : ibase) : Z :=
  match b with IBool => 1 | IChar => char_bit | IShort => short_bit | IInt => int_bit | ILong => long_bit | ILLong => llong_bit end.
Definition shift_lhsbits (int_bit long_bit llong_bit : Z) (b : ibase) : Z :=
  match b with ILong => long_bit | ILLong => llong_bit | _ => int_bit end.
Definition shift_too_many (int_bit long_bit llong_bit : Z) (b : ibase) (count : Z) : bool :=
  shift_lhsbits int_bit long_bit llong_bit b <=? count.

(* ---------- (ii) the leak machine ---------- *)
Inductive var := P | Q.
Definition var_eqb (a b : var) : bool := match a, b with P, P | Q, Q => true | _, _ => false end.

(* VarInfo status of one variable, plus what value flow knows: N = Known null *)
Inductive ast := AU (* not in alloctype *) | AN (* not in alloctype, Known 0 *) | AA (* ALLOC *) | AD (* DEALLOC *).

Inductive stmt :=
  | SMalloc (v : var)          (* v = malloc(10); *)
  | SFree (v : var)            (* free(v); *)
  | SAssign (v w : var)        (* v = w;   (v <> w) *)
  | SNull (v : var)            (* v = 0; *)
  | SDeref (v : var)           (* *v = 1; *)
  | SRet (v : option var).     (* return v; / return; *)

Inductive finding := FLeak (v : var) | FDouble (v : var) | FUse (v : var) | FDeallocRet (v : var).

Definition astate := var -> ast.
Definition upd {A} (f : var -> A) (v : var) (a : A) : var -> A := fun w => if var_eqb w v then a else f w.
Definition init_astate : astate := fun _ => AN.

Definition is_alloc (a : ast) : bool := match a with AA => true | _ => false end.
Definition leak_if (st : astate) (v : var) : list finding := if is_alloc (st v) then [FLeak v] else [].
Definition forget (a : ast) : ast := match a with AN => AN | _ => AU end.
Definition other (v : var) : var := match v with P => Q | Q => P end.

(* one statement: new state, findings, terminated? *)
Definition leak_step (st : astate) (s : stmt) : astate * list finding * bool :=
  match s with
  | SMalloc v => (upd st v AA, leak_if st v, false)
  | SFree v =>
      match st v with
      | AN => (upd st v AU, [], false)              (* isnull: the argument is skipped; value flow forgets the Known 0 *)
      | AD => (st, [FDouble v], false)
      | _ => (upd st v AD, [], false)
      end
  | SAssign v w =>
      if var_eqb v w then (st, [], false)
      else (upd (upd st w (forget (st w))) v (forget (st w)), leak_if st v, false)
  | SNull v => (upd st v AN, leak_if st v, false)
  | SDeref v => (st, match st v with AD => [FUse v] | _ => [] end, false)
  | SRet None => (st, leak_if st P ++ leak_if st Q, true)
  | SRet (Some v) =>
      (st, (match st v with AD => [FDeallocRet v] | _ => [] end) ++ leak_if st (other v), true)
  end.

(* findings of a whole straight-line body, each tagged with the index of the statement that
   triggers it (index = length of the program: the closing brace) *)
Fixpoint leak_run (st : astate) (i : nat) (prog : list stmt) : list (nat * finding) :=
  match prog with
  | [] => map (fun f => (i, f)) (leak_if st P ++ leak_if st Q)
  | s :: r =>
      let '(st', fs, stop) := leak_step st s in
      map (fun f => (i, f)) fs ++ (if stop then [] else leak_run st' (S i) r)
  end.

(* ---------- concrete heap semantics ---------- *)
(* cells are numbered in allocation order; heap = liveness of each cell; malloc never fails *)
Definition env := var -> option nat.
Definition heap := list bool.
Definition init_env : env := fun _ => None.

Definition live (h : heap) (c : nat) : bool := nth c h false.
Fixpoint set_nth (h : heap) (c : nat) (b : bool) : heap :=
  match h, c with
  | [], _ => []
  | _ :: t, O => b :: t
  | x :: t, S c' => x :: set_nth t c' b
  end.

Inductive outcome :=
  | OK (e : env) (h : heap)
  | Done (e : env) (h : heap) (ret : option nat)    (* returned *)
  | UBDoubleFree | UBUseAfterFree | UBNullDeref.

Definition exec_step (e : env) (h : heap) (s : stmt) : outcome :=
  match s with
  | SMalloc v => OK (upd e v (Some (length h))) (h ++ [true])
  | SFree v =>
      match e v with
      | None => OK e h                                  (* free(NULL) *)
      | Some c => if live h c then OK e (set_nth h c false) else UBDoubleFree
      end
  | SAssign v w => OK (upd e v (e w)) h
  | SNull v => OK (upd e v None) h
  | SDeref v =>
      match e v with
      | None => UBNullDeref
      | Some c => if live h c then OK e h else UBUseAfterFree
      end
  | SRet None => Done e h None
  | SRet (Some v) => Done e h (e v)
  end.

(* a cell that is live and (after the function) unreachable: not the returned one *)
Definition leaked_at_exit (h : heap) (ret : option nat) : bool :=
  existsb (fun c => live h c && negb (match ret with Some r => Nat.eqb r c | None => false end)) (seq 0 (length h)).

Inductive verdict := VClean | VLeak | VUB (o : outcome).

Fixpoint exec (e : env) (h : heap) (prog : list stmt) : verdict :=
  match prog with
  | [] => if leaked_at_exit h None then VLeak else VClean
  | s :: r =>
      match exec_step e h s with
      | OK e' h' => exec e' h' r
      | Done _ h' ret => if leaked_at_exit h' ret then VLeak else VClean
      | o => VUB o
      end
  end.
