(* C04: proofs about severity gating and the straight-line leak machine. *)
From CV Require Import Base.Bytes Sev.Defs.
Require Import Lia.

(* ---------- severity gating ---------- *)
Theorem error_needs_definite c s v i :
  severity_of c s v i = Some SError ->
  v_cond v = false /\ v_defarg v = false /\
  ((c = CNullPointer \/ c = CInvalidArg) -> v_kind v = VKnown).
Proof.
  unfold severity_of, error_severity, is_known. intros H.
  destruct c, v as [k cd da]; cbn [v_cond v_defarg v_kind] in *;
    destruct cd, da, k; cbn in H;
    repeat match goal with
           | H : context [if ?b then _ else _] |- _ => destruct b; cbn in H
           end; try discriminate;
    (split; [reflexivity|split; [reflexivity|]]); intros [E|E]; try discriminate E; reflexivity.
Qed.

Theorem error_only_if_enabled c s v i :
  c <> CArrayIndex ->
  severity_of c s v i = Some SError -> is_enabled s v (match c with CNullPointer => i | _ => false end) = true.
Proof.
  intros N1. unfold severity_of. destruct c; try congruence;
    match goal with |- context [is_enabled ?a ?b ?c] => destruct (is_enabled a b c) end; congruence.
Qed.

(* shiftTooManyBits is reported only when the count reaches the width of the promoted left operand, which is
   at least the operand's own width and at least the width of int: the shift is undefined in C (6.5.7p3) *)
Theorem shift_too_many_is_promoted_width cb sb ib lb llb b count :
  (cb <= ib)%Z -> (sb <= ib)%Z -> (1 <= ib)%Z ->
  shift_too_many ib lb llb b count = true ->
  (shift_lhsbits ib lb llb b <= count)%Z /\
  (own_bits cb sb ib lb llb b <= shift_lhsbits ib lb llb b)%Z /\
  (match b with ILong | ILLong => True | _ => shift_lhsbits ib lb llb b = ib end).
Proof.
  unfold shift_too_many. intros H1 H2 H3 H. apply Z.leb_le in H. split; [exact H|].
  destruct b; cbn; split; auto; lia.
Qed.

(* ---------- the leak machine against the heap semantics ---------- *)
Lemma var_eqb_refl v : var_eqb v v = true. Proof. destruct v; reflexivity. Qed.
Lemma var_eqb_other v : var_eqb (other v) v = false /\ var_eqb v (other v) = false. Proof. destruct v; split; reflexivity. Qed.
Lemma upd_same {A} (f : var -> A) v a : upd f v a v = a. Proof. unfold upd. rewrite var_eqb_refl. reflexivity. Qed.
Lemma upd_other {A} (f : var -> A) v a : upd f v a (other v) = f (other v).
Proof. unfold upd. destruct (var_eqb_other v) as [E _]. rewrite E. reflexivity. Qed.
Lemma other_other v : other (other v) = v. Proof. destruct v; reflexivity. Qed.
Lemma var_cases v w : w = v \/ w = other v. Proof. destruct v, w; auto. Qed.

Definition wf (e : env) (h : heap) : Prop := forall v c, e v = Some c -> (c < length h)%nat.

(* what the abstract status of a variable says about the concrete state *)
Definition rel1 (a : ast) (e : env) (h : heap) (v : var) : Prop :=
  match a with
  | AA => exists c, e v = Some c /\ live h c = true /\ e (other v) <> Some c
  | AD => e v = None \/ exists c, e v = Some c /\ live h c = false
  | AN => e v = None
  | AU => True
  end.
Definition inv (st : astate) (e : env) (h : heap) : Prop := wf e h /\ forall v, rel1 (st v) e h v.

(* a live cell no variable points to *)
Definition lost (e : env) (h : heap) : Prop :=
  exists c, (c < length h)%nat /\ live h c = true /\ forall v, e v <> Some c.

Lemma live_app_old h c b : (c < length h)%nat -> live (h ++ [b]) c = live h c.
Proof. intros H. unfold live. apply app_nth1. exact H. Qed.
Lemma live_app_new h b : live (h ++ [b]) (length h) = b.
Proof. unfold live. rewrite app_nth2 by lia. rewrite Nat.sub_diag. reflexivity. Qed.
Lemma set_nth_length h c b : length (set_nth h c b) = length h.
Proof. revert c. induction h; intros [|c]; cbn; auto. Qed.
Lemma live_set_same h c b : (c < length h)%nat -> live (set_nth h c b) c = b.
Proof. revert c. induction h; intros [|c] H; cbn in *; try lia; auto. apply IHh. lia. Qed.
Lemma live_set_other h c c' b : c <> c' -> live (set_nth h c b) c' = live h c'.
Proof.
  revert c c'. induction h; intros [|c] [|c'] H; cbn; auto; try congruence.
  apply IHh. congruence.
Qed.

Lemma init_inv : inv init_astate init_env [].
Proof. split; [intros v c H; discriminate|intros v; reflexivity]. Qed.

Ltac vcases v w := destruct (var_cases v w) as [?|?]; subst w.

Lemma step_inv st e h s st' fs e' h' :
  inv st e h -> leak_step st s = (st', fs, false) -> exec_step e h s = OK e' h' -> inv st' e' h'.
Proof.
  intros [W R] L X. destruct s as [v|v|v w|v|v|[v|]]; cbn in L, X.
  - (* malloc *) inversion L; subst; inversion X; subst; clear L X. split.
    + intros w c H. rewrite app_length; cbn. vcases v w.
      * rewrite upd_same in H. inversion H. lia.
      * rewrite upd_other in H. apply W in H. lia.
    + intros w. vcases v w.
      * rewrite upd_same. cbn. exists (length h). rewrite upd_same, upd_other, live_app_new.
        split; [reflexivity|split; [reflexivity|]]. intros H. apply W in H. lia.
      * rewrite upd_other. specialize (R (other v)). destruct (st (other v)); cbn in *; auto.
        -- rewrite upd_other. exact R.
        -- destruct R as [c [E1 [E2 E3]]]. exists c. rewrite upd_other, other_other, upd_same.
           split; [exact E1|]. split; [rewrite live_app_old; [exact E2|apply (W _ _ E1)]|].
           intros H. inversion H. subst c. apply W in E1. lia.
        -- destruct R as [R|[c [E1 E2]]]; [left; rewrite upd_other; exact R|right].
           exists c. rewrite upd_other. split; [exact E1|]. rewrite live_app_old; [exact E2|apply (W _ _ E1)].
  - (* free *) pose proof (R v) as Rv.
    destruct (e v) as [c|] eqn:Ev.
    + destruct (live h c) eqn:Lc; [|discriminate]. inversion X; subst e' h'; clear X.
      assert (W' : wf e (set_nth h c false)) by (intros w c' H; rewrite set_nth_length; eapply W; eauto).
      destruct (st v) eqn:Sv; inversion L; subst; clear L; cbn in Rv.
      * split; [exact W'|]. intros w. vcases v w.
        -- rewrite upd_same. cbn. right. exists c. split; [exact Ev|]. apply live_set_same. eapply W; eauto.
        -- rewrite upd_other. specialize (R (other v)). destruct (st (other v)); cbn in *; auto.
           ++ destruct R as [c' [E1 [E2 E3]]]. exists c'. split; [exact E1|]. split; [|exact E3].
              rewrite live_set_other; [exact E2|]. rewrite other_other in E3. congruence.
           ++ destruct R as [R|[c' [E1 E2]]]; [left; exact R|right]. exists c'. split; [exact E1|].
              destruct (Nat.eq_dec c c'); [subst; apply live_set_same; eapply W; eauto|rewrite live_set_other; auto].
      * congruence.
      * split; [exact W'|]. intros w. vcases v w.
        -- rewrite upd_same. cbn. right. exists c. split; [exact Ev|]. apply live_set_same. eapply W; eauto.
        -- rewrite upd_other. specialize (R (other v)). destruct (st (other v)); cbn in *; auto.
           ++ destruct R as [c' [E1 [E2 E3]]]. exists c'. split; [exact E1|]. split; [|exact E3].
              rewrite live_set_other; [exact E2|].
              destruct Rv as [c2 [F1 [F2 F3]]]. rewrite Ev in F1. inversion F1; subst c2. congruence.
           ++ destruct R as [R|[c' [E1 E2]]]; [left; exact R|right]. exists c'. split; [exact E1|].
              destruct (Nat.eq_dec c c'); [subst; apply live_set_same; eapply W; eauto|rewrite live_set_other; auto].
      * destruct Rv as [Rv|[c2 [F1 F2]]]; [congruence|]. rewrite Ev in F1. inversion F1; subst c2. congruence.
    + inversion X; subst e' h'; clear X.
      destruct (st v) eqn:Sv; inversion L; subst; clear L; (split; [exact W|]); intros w.
      * vcases v w; [rewrite upd_same; cbn; left; exact Ev|rewrite upd_other; apply R].
      * vcases v w; [rewrite upd_same; exact I|rewrite upd_other; apply R].
      * vcases v w; [rewrite upd_same; cbn; left; exact Ev|rewrite upd_other; apply R].
      * apply R.
  - (* v = w *) destruct (var_eqb v w) eqn:Evw.
    + assert (v = w) by (destruct v, w; try discriminate; reflexivity). subst w.
      assert (S' : st' = st) by (inversion L; reflexivity).
      assert (E' : e' = upd e v (e v) /\ h' = h) by (inversion X; auto).
      destruct E'; subst st' e' h'.
      split; [|intros u; specialize (R u)].
      * intros u c H. unfold upd in H. destruct (var_eqb u v); eapply W; eauto.
      * assert (Eq : forall u', upd e v (e v) u' = e u') by (intros u'; unfold upd; destruct (var_eqb u' v) eqn:Q; [destruct u', v; try discriminate; reflexivity|reflexivity]).
        destruct (st u); cbn in *; rewrite ?Eq; auto.
    + assert (w = other v) by (destruct v, w; try discriminate; reflexivity). subst w.
      inversion L; subst; inversion X; subst; clear L X. split.
      * intros u c H. vcases v u; [rewrite upd_same in H|rewrite upd_other in H]; eapply W; eauto.
      * intros u. pose proof (R (other v)) as Ro. vcases v u.
        -- rewrite upd_same. destruct (st (other v)); cbn in *; auto. rewrite upd_same. exact Ro.
        -- rewrite upd_other, upd_same. destruct (st (other v)); cbn in *; auto. rewrite upd_other. exact Ro.
  - (* v = 0 *) inversion L; subst; inversion X; subst; clear L X. split.
    + intros w c H. vcases v w; [rewrite upd_same in H; discriminate|rewrite upd_other in H; eapply W; eauto].
    + intros w. vcases v w.
      * rewrite upd_same. cbn. apply upd_same.
      * rewrite upd_other. specialize (R (other v)). destruct (st (other v)); cbn in *; auto.
        -- rewrite upd_other. exact R.
        -- destruct R as [c [E1 [E2 E3]]]. exists c. rewrite upd_other, other_other, upd_same. split; [exact E1|]. split; [exact E2|discriminate].
        -- rewrite upd_other. exact R.
  - (* deref *) inversion L; subst. destruct (e v) as [c|]; [|discriminate]. destruct (live h c); [|discriminate].
    inversion X; subst. split; assumption.
  - discriminate.
  - discriminate.
Qed.

Lemma step_stop st s st' fs stop : leak_step st s = (st', fs, stop) ->
  stop = match s with SRet _ => true | _ => false end.
Proof.
  destruct s as [v|v|v w|v|v|[v|]]; cbn; intros H; try (inversion H; reflexivity).
  - destruct (st v); inversion H; reflexivity.
  - destruct (var_eqb v w); inversion H; reflexivity.
Qed.

Lemma exec_step_ret e h s : (exists v, s = SRet v) \/ (forall e' h' r, exec_step e h s <> Done e' h' r).
Proof.
  destruct s as [v|v|v w|v|v|o]; [right|right|right|right|right|left; eauto]; intros e' h' r; cbn; try discriminate.
  - destruct (e v); [destruct (live h n)|]; discriminate.
  - destruct (e v); [destruct (live h n)|]; discriminate.
Qed.

(* deallocuse: the dereference really is undefined (freed or null pointer) *)
Theorem use_after_free_sound prog : forall st e h i j v,
  inv st e h -> In (j, FUse v) (leak_run st i prog) -> exists o, exec e h prog = VUB o.
Proof.
  induction prog as [|s r IH]; intros st e h i j v I H.
  - cbn in H. apply in_map_iff in H. destruct H as [f [E F]]. inversion E; subst f.
    unfold leak_if in F. apply in_app_or in F.
    destruct F as [F|F]; [destruct (is_alloc (st P))|destruct (is_alloc (st Q))]; cbn in F; try tauto;
      destruct F as [F|[]]; discriminate.
  - cbn [leak_run] in H. destruct (leak_step st s) as [[st' fs] stop] eqn:L.
    pose proof (step_stop _ _ _ _ _ L) as Hs.
    apply in_app_or in H. destruct H as [H|H].
    + apply in_map_iff in H. destruct H as [f [E F]]. inversion E; subst f. clear E.
      destruct s as [u|u|u w|u|u|[u|]]; cbn in L.
      * inversion L; subst. unfold leak_if in F. destruct (is_alloc (st u)); cbn in F; try tauto. destruct F as [F|[]]; discriminate.
      * destruct (st u); inversion L; subst; cbn in F; try tauto. destruct F as [F|[]]; discriminate.
      * destruct (var_eqb u w); inversion L; subst; cbn in F; try tauto.
        unfold leak_if in F. destruct (is_alloc (st u)); cbn in F; try tauto. destruct F as [F|[]]; discriminate.
      * inversion L; subst. unfold leak_if in F. destruct (is_alloc (st u)); cbn in F; try tauto. destruct F as [F|[]]; discriminate.
      * inversion L; subst. destruct (st' u) eqn:Su; cbn in F; try tauto. destruct F as [F|[]]. inversion F; subst v.
        destruct I as [W R]. specialize (R u). rewrite Su in R. cbn in R. cbn [exec exec_step].
        destruct R as [R|[c [E1 E2]]]; [rewrite R|rewrite E1, E2]; eauto.
      * inversion L; subst. apply in_app_or in F. destruct F as [F|F].
        -- destruct (st' u); cbn in F; try tauto. destruct F as [F|[]]; discriminate.
        -- unfold leak_if in F. destruct (is_alloc (st' (other u))); cbn in F; try tauto. destruct F as [F|[]]; discriminate.
      * inversion L; subst. unfold leak_if in F. apply in_app_or in F.
        destruct F as [F|F]; [destruct (is_alloc (st' P))|destruct (is_alloc (st' Q))]; cbn in F; try tauto;
          destruct F as [F|[]]; discriminate.
    + destruct stop; [destruct H|]. cbn [exec].
      destruct (exec_step e h s) as [e' h'|e' h' rt| | | ] eqn:X; eauto.
      * eapply IH; [eapply step_inv; eauto|exact H].
      * destruct (exec_step_ret e h s) as [[o Eo]|Hn]; [subst s; discriminate|]. exfalso. eapply Hn; eauto.
Qed.

Lemma leaked_exit_intro h ret c :
  (c < length h)%nat -> live h c = true -> ret <> Some c -> leaked_at_exit h ret = true.
Proof.
  intros H1 H2 H3. unfold leaked_at_exit. apply existsb_exists. exists c. split.
  - apply in_seq. lia.
  - rewrite H2. cbn. destruct ret as [r|]; [|reflexivity].
    destruct (Nat.eqb r c) eqn:E; [apply Nat.eqb_eq in E; subst; congruence|reflexivity].
Qed.

Lemma lost_step e h s e' h' : wf e h -> lost e h -> exec_step e h s = OK e' h' -> lost e' h'.
Proof.
  intros W [c [C1 [C2 C3]]] X. destruct s as [v|v|v w|v|v|[v|]]; cbn in X.
  - inversion X; subst. exists c. rewrite app_length; cbn. split; [lia|]. split; [rewrite live_app_old; auto|].
    intros u. unfold upd. destruct (var_eqb u v); [intros H; inversion H; lia|apply C3].
  - destruct (e v) as [c'|] eqn:Ev.
    + destruct (live h c'); [|discriminate]. inversion X; subst. exists c. rewrite set_nth_length. split; [exact C1|].
      split; [|exact C3]. rewrite live_set_other; [exact C2|]. intros ->. apply (C3 v). exact Ev.
    + inversion X; subst. exists c. auto.
  - inversion X; subst. exists c. split; [exact C1|]. split; [exact C2|]. intros u. unfold upd. destruct (var_eqb u v); apply C3.
  - inversion X; subst. exists c. split; [exact C1|]. split; [exact C2|]. intros u. unfold upd. destruct (var_eqb u v); [discriminate|apply C3].
  - destruct (e v) as [c'|]; [|discriminate]. destruct (live h c'); [|discriminate]. inversion X; subst. exists c. auto.
  - discriminate.
  - discriminate.
Qed.

Lemma lost_exec prog : forall st e h, inv st e h -> lost e h -> exec e h prog <> VClean.
Proof.
  induction prog as [|s r IH]; intros st e h I Lo.
  - cbn. destruct Lo as [c [C1 [C2 C3]]]. rewrite (leaked_exit_intro h None c C1 C2); discriminate.
  - cbn [exec]. destruct (exec_step e h s) as [e' h'|e' h' rt| | | ] eqn:X; try discriminate.
    + destruct (leak_step st s) as [[st' fs] stop] eqn:L.
      pose proof (step_stop _ _ _ _ _ L) as Hs.
      destruct (exec_step_ret e h s) as [[o Eo]|Hn].
      * subst s. destruct o; discriminate.
      * assert (stop = false) by (destruct s as [u|u|u w|u|u|o]; try exact Hs; cbn in X; destruct o; discriminate). clear Hs. subst stop.
        eapply IH; [eapply step_inv; [exact I|exact L|exact X]|eapply lost_step; [apply I|exact Lo|exact X]].
    + destruct Lo as [c [C1 [C2 C3]]].
      destruct s as [v|v|v w|v|v|[v|]]; cbn in X; try discriminate.
      * destruct (e v); [destruct (live h n)|]; discriminate.
      * destruct (e v); [destruct (live h n)|]; discriminate.
      * inversion X; subst. rewrite (leaked_exit_intro h' (e' v) c C1 C2 (C3 v)). discriminate.
      * inversion X; subst. rewrite (leaked_exit_intro h' None c C1 C2); discriminate.
Qed.

(* overwriting the only pointer to a live cell loses it *)
Lemma overwrite_loses st e h v s e' h' :
  inv st e h -> st v = AA ->
  (s = SMalloc v \/ s = SAssign v (other v) \/ s = SNull v) ->
  exec_step e h s = OK e' h' -> lost e' h'.
Proof.
  intros [W R] Sv Hs X. pose proof (R v) as Rv. rewrite Sv in Rv. cbn in Rv. destruct Rv as [c [E1 [E2 E3]]].
  pose proof (W _ _ E1) as Wc.
  destruct Hs as [->|[->| ->]]; cbn in X; inversion X; subst; clear X; exists c.
  - rewrite app_length; cbn. split; [lia|]. split; [rewrite live_app_old; auto|].
    intros u. vcases v u; [rewrite upd_same; intros H; inversion H; lia|rewrite upd_other; exact E3].
  - split; [exact Wc|]. split; [exact E2|]. intros u. vcases v u; [rewrite upd_same|rewrite upd_other]; exact E3.
  - split; [exact Wc|]. split; [exact E2|]. intros u. vcases v u; [rewrite upd_same; discriminate|rewrite upd_other; exact E3].
Qed.

(* memleak: the execution is not clean (it leaks, or runs into undefined behaviour) *)
Theorem leak_sound prog : forall st e h i j v,
  inv st e h -> In (j, FLeak v) (leak_run st i prog) -> exec e h prog <> VClean.
Proof.
  induction prog as [|s r IH]; intros st e h i j v I H.
  - cbn in H. apply in_map_iff in H. destruct H as [f [E F]]. inversion E; subst f. clear E.
    assert (Sv : st v = AA).
    { unfold leak_if in F. apply in_app_or in F.
      destruct F as [F|F]; [destruct (st P) eqn:S|destruct (st Q) eqn:S]; cbn in F; try tauto;
        destruct F as [F|[]]; inversion F; subst; exact S. }
    destruct I as [W R]. specialize (R v). rewrite Sv in R. cbn in R. destruct R as [c [E1 [E2 E3]]].
    cbn. rewrite (leaked_exit_intro h None c (W _ _ E1) E2); discriminate.
  - cbn [leak_run] in H. destruct (leak_step st s) as [[st' fs] stop] eqn:L.
    pose proof (step_stop _ _ _ _ _ L) as Hs.
    apply in_app_or in H. destruct H as [H|H].
    + apply in_map_iff in H. destruct H as [f [E F]]. inversion E; subst f. clear E.
      cbn [exec]. destruct (exec_step e h s) as [e' h'|e' h' rt| | | ] eqn:X; try discriminate.
      * (* the step goes on: the cell is lost *)
        assert (Lo : lost e' h').
        { destruct s as [u|u|u w|u|u|[u|]]; cbn in L.
          - inversion L; subst. unfold leak_if in F. destruct (st u) eqn:Su; cbn in F; try tauto. destruct F as [F|[]]. inversion F; subst v.
            eapply (overwrite_loses st e h u (SMalloc u)); [exact I|exact Su|left; reflexivity|exact X].
          - destruct (st u); inversion L; subst; cbn in F; try tauto. destruct F as [F|[]]; discriminate.
          - destruct (var_eqb u w) eqn:Euw; inversion L; subst; cbn in F; try tauto.
            unfold leak_if in F. destruct (st u) eqn:Su; cbn in F; try tauto. destruct F as [F|[]]. inversion F; subst v.
            assert (w = other u) by (destruct u, w; try discriminate; reflexivity). subst w.
            eapply (overwrite_loses st e h u (SAssign u (other u))); [exact I|exact Su|right; left; reflexivity|exact X].
          - inversion L; subst. unfold leak_if in F. destruct (st u) eqn:Su; cbn in F; try tauto. destruct F as [F|[]]. inversion F; subst v.
            eapply (overwrite_loses st e h u (SNull u)); [exact I|exact Su|right; right; reflexivity|exact X].
          - inversion L; subst. destruct (st' u); cbn in F; try tauto. destruct F as [F|[]]; discriminate.
          - cbn in X. discriminate.
          - cbn in X. discriminate. }
        destruct stop.
        -- destruct s; try discriminate Hs. cbn in X. destruct v0; discriminate.
        -- eapply lost_exec; [eapply step_inv; eauto|exact Lo].
      * (* return: the allocated variable's cell is live and is not the returned one *)
        destruct s as [u|u|u w|u|u|[u|]]; cbn in X; try discriminate.
        -- destruct (e u); [destruct (live h n)|]; discriminate.
        -- destruct (e u); [destruct (live h n)|]; discriminate.
        -- inversion X; subst. cbn in L. inversion L; subst. apply in_app_or in F. destruct F as [F|F].
           ++ destruct (st' u); cbn in F; try tauto. destruct F as [F|[]]; discriminate.
           ++ unfold leak_if in F. destruct (st' (other u)) eqn:So; cbn in F; try tauto. destruct F as [F|[]]. inversion F; subst v.
              destruct I as [W R]. specialize (R (other u)). rewrite So in R. cbn in R. destruct R as [c [E1 [E2 E3]]].
              rewrite other_other in E3. rewrite (leaked_exit_intro h' (e' u) c (W _ _ E1) E2 E3). discriminate.
        -- inversion X; subst. cbn in L. inversion L; subst.
           assert (Sv : st' v = AA).
           { unfold leak_if in F. apply in_app_or in F.
             destruct F as [F|F]; [destruct (st' P) eqn:S|destruct (st' Q) eqn:S]; cbn in F; try tauto;
               destruct F as [F|[]]; inversion F; subst; exact S. }
           destruct I as [W R]. specialize (R v). rewrite Sv in R. cbn in R. destruct R as [c [E1 [E2 E3]]].
           rewrite (leaked_exit_intro h' None c (W _ _ E1) E2); discriminate.
    + destruct stop; [destruct H|]. cbn [exec].
      destruct (exec_step e h s) as [e' h'|e' h' rt| | | ] eqn:X; try discriminate.
      * eapply IH; [eapply step_inv; eauto|exact H].
      * destruct (exec_step_ret e h s) as [[o Eo]|Hn]; [subst s; discriminate|]. exfalso. eapply Hn; eauto.
Qed.

(* doubleFree is NOT sound: a null pointer may be freed any number of times *)
Theorem double_free_refuted :
  exists prog j v, In (j, FDouble v) (leak_run init_astate 0 prog) /\ exec init_env [] prog = VClean.
Proof. exists [SFree Q; SFree Q; SFree Q], 2%nat, Q. split; [cbn; auto|reflexivity]. Qed.
