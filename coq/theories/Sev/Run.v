(* Entry point of the extracted executable for C04. *)
From CV Require Import Base.Bytes Sev.Defs.
Local Open Scope Z_scope.

Definition BAD : list str := [[66%N; 65%N; 68%N]].
Definition tag_is (t name : str) : bool := str_eqb t name.

Definition checker_of (s : str) : option checker :=
  match s with
  | [110%N] => Some CNullPointer | [122%N] => Some CZeroDiv | [97%N] => Some CArrayIndex
  | [115%N] => Some CShift | [111%N] => Some COverflow | [105%N] => Some CInvalidArg
  | _ => None
  end.
Definition kind_of (s : str) : vkind :=
  match s with [75%N] => VKnown | [73%N] => VInconclusive | _ => VPossible end.

Definition var_of (c : N) : option var := if (c =? 112)%N then Some P else if (c =? 113)%N then Some Q else None.
Definition var_chr (v : var) : N := match v with P => 112%N | Q => 113%N end.

(* two bytes per statement: mp fp ap(p = q) aq(q = p) np dp rp r- *)
Fixpoint parse_prog (s : str) : option (list stmt) :=
  match s with
  | [] => Some []
  | k :: v :: r =>
      match parse_prog r with
      | None => None
      | Some rest =>
          let st :=
            if (k =? 114)%N then (if (v =? 45)%N then Some (SRet None) else option_map (fun x => SRet (Some x)) (var_of v))
            else match var_of v with
                 | None => None
                 | Some x =>
                     if (k =? 109)%N then Some (SMalloc x)
                     else if (k =? 102)%N then Some (SFree x)
                     else if (k =? 97)%N then Some (SAssign x (other x))
                     else if (k =? 110)%N then Some (SNull x)
                     else if (k =? 100)%N then Some (SDeref x)
                     else None
                 end in
          match st with Some x => Some (x :: rest) | None => None end
      end
  | _ => None
  end.

Definition finding_str (pf : nat * finding) : str :=
  let '(i, f) := pf in
  dec_of_N (N.of_nat i) ++ [58%N] ++
  match f with
  | FLeak v => [76%N; var_chr v] | FDouble v => [68%N; var_chr v]
  | FUse v => [85%N; var_chr v] | FDeallocRet v => [82%N; var_chr v]
  end.

Definition verdict_str (v : verdict) : str :=
  match v with
  | VClean => [99%N] | VLeak => [108%N]
  | VUB UBDoubleFree => [68%N] | VUB UBUseAfterFree => [85%N] | VUB UBNullDeref => [78%N]
  | VUB _ => [63%N]
  end.

(* tags: "sev" checker warning inconclusive kind cond defarg inconclusive_flag -> E | W | N
         "leak" prog -> findings "idx:Kv"...   (no finding: "-")
         "exec" prog -> c | l | D | U | N *)
Definition run (fields : list str) : list str :=
  match fields with
  | tag :: args =>
      if tag_is tag [115;101;118]%N then
        match args with
        | [c; w; i; k; cd; da; fl] =>
            match checker_of c with
            | Some c' =>
                match severity_of c' (mkS (bool_of_str w) (bool_of_str i))
                                  (mkV (kind_of k) (bool_of_str cd) (bool_of_str da)) (bool_of_str fl) with
                | Some SError => [[69%N]] | Some SWarning => [[87%N]] | None => [[78%N]]
                end
            | None => BAD
            end
        | _ => BAD
        end
      else if tag_is tag [115;104;105;102;116]%N then   (* "shift" int_bit long_bit llong_bit base count -> E | N *)
        match args with
        | [ib; lb; llb; b; c] =>
            let base := match b with
                        | [98%N] => IBool | [99%N] => IChar | [104%N] => IShort | [108%N] => ILong | [113%N] => ILLong | _ => IInt
                        end in
            let z := fun x => match Z_of_dec x with Some v => v | None => 0%Z end in
            [if shift_too_many (z ib) (z lb) (z llb) base (z c) then [69%N] else [78%N]]
        | _ => BAD
        end
      else if tag_is tag [108;101;97;107]%N then
        match args with
        | [p] => match parse_prog p with
                 | Some prog => match leak_run init_astate 0 prog with
                                | [] => [[45%N]]
                                | l => map finding_str l
                                end
                 | None => BAD
                 end
        | _ => BAD
        end
      else if tag_is tag [101;120;101;99]%N then
        match args with
        | [p] => match parse_prog p with
                 | Some prog => [verdict_str (exec init_env [] prog)]
                 | None => BAD
                 end
        | _ => BAD
        end
      else BAD
  | [] => BAD
  end.
