(* Entry point for the extracted executable of the HTML report model (C36). *)
From Coq Require Import Strings.String.
From CV Require Import Base.Bytes Report.Lit Html.Defs.
Import List ListNotations.
Local Open Scope N_scope.

Definition zd (s : str) : Z := match Z_of_dec s with Some z => z | None => 0%Z end.
Definition nd (s : str) : N := match N_of_dec s with Some z => z | None => 0 end.

Fixpoint take_strs (n : nat) (l : list str) : option (list str * list str) :=
  match n with
  | O => Some ([], l)
  | S n' => match l with
            | x :: r => match take_strs n' r with Some (xs, r') => Some (x :: xs, r') | None => None end
            | [] => None
            end
  end.

(* file line id severity msg inconclusive *)
Fixpoint take_errs (fuel : nat) (l : list str) : list herr :=
  match fuel with
  | O => []
  | S f => match l with
           | file :: line :: id :: sv :: msg :: inc :: r => mkE file (zd line) id sv msg (bool_of_str inc) :: take_errs f r
           | _ => []
           end
  end.

Definition row_out (r : row) : list str :=
  match r with (f, ln, id, sv, m) => [f; ln; id; sv; m] end.

Definition BAD : list str := [[66]].

Definition run (fields : list str) : list str :=
  match fields with
  | [] => BAD
  | tag :: args =>
      if str_eqb tag (L "esc") then
        match args with [s] => [html_escape s] | _ => BAD end
      else if str_eqb tag (L "unesc") then
        match args with [s] => [html_unescape s] | _ => BAD end
      else if str_eqb tag (L "index") then
        flat_map row_out (index_rows (take_errs (length args) args))
      else BAD
  end.
