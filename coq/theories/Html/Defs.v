(* C36 model: htmlreport/cppcheck-htmlreport -- html_escape (xml.sax.saxutils.escape + the
   script's table), grouping of the errors by file, the rows of index.html.
   Definitions only. *)
From Coq Require Import Strings.String.
From CV Require Import Base.Bytes Report.Lit.
Import List ListNotations.
Local Open Scope N_scope.

Definition html_escape_char (c : N) : str :=
  if c =? 38 then L "&amp;" else if c =? 60 then L "&lt;" else if c =? 62 then L "&gt;"
  else if c =? 34 then L "&quot;" else if c =? 39 then L "&apos;" else [c].
Definition html_escape (s : str) : str := flat_map html_escape_char s.

(* what an HTML reader does with the five references (anything else is kept) *)
Fixpoint html_unescape (s : str) : str :=
  match s with
  | 38 :: 97 :: 109 :: 112 :: 59 :: r => 38 :: html_unescape r
  | 38 :: 108 :: 116 :: 59 :: r => 60 :: html_unescape r
  | 38 :: 103 :: 116 :: 59 :: r => 62 :: html_unescape r
  | 38 :: 113 :: 117 :: 111 :: 116 :: 59 :: r => 34 :: html_unescape r
  | 38 :: 97 :: 112 :: 111 :: 115 :: 59 :: r => 39 :: html_unescape r
  | c :: r => c :: html_unescape r
  | [] => []
  end.

(* one <error> of the results file as CppCheckHandler.handleVersion2 stores it:
   file/line of the first <location> ('' / 0 without one) *)
Record herr := mkE { e_file : str; e_line : Z; e_id : str; e_sev : str; e_msg : str; e_inconcl : bool }.

(* sorted(..., key=line): stable *)
Fixpoint ins_line (x : herr) (l : list herr) : list herr :=
  match l with
  | [] => [x]
  | y :: l' => if (e_line x <=? e_line y)%Z then x :: l else y :: ins_line x l'
  end.
Definition sort_line (l : list herr) : list herr := fold_right ins_line [] l.

(* sorted(files.items()): by file name *)
Fixpoint str_leb (a b : str) : bool :=
  match a, b with
  | [], _ => true
  | _ :: _, [] => false
  | x :: a', y :: b' => if x <? y then true else if y <? x then false else str_leb a' b'
  end.
Fixpoint ins_str (x : str) (l : list str) : list str :=
  match l with
  | [] => [x]
  | y :: l' => if str_leb x y then x :: l else y :: ins_str x l'
  end.
Definition sort_str (l : list str) : list str := fold_right ins_str [] l.

Fixpoint mem (x : str) (l : list str) : bool :=
  match l with [] => false | y :: l' => str_eqb x y || mem x l' end.
Fixpoint nodup_str (l : list str) : list str :=
  match l with
  | [] => []
  | x :: l' => if mem x l' then nodup_str l' else x :: nodup_str l'
  end.

Definition ends_star (f : str) : bool := match rev f with 42 :: _ => true | _ => false end.

(* the cells of one index row: file (group header), line cell, id, severity cell, message cell;
   file, id and message go through html_escape; the line cell is blank only for findings
   without a file ('' = no location) or with a name ending in a star *)
Definition row := (str * str * str * str * str)%type.

Definition row_of (e : herr) : row :=
  let f := e_file e in
  (html_escape f, if negb (str_eqb f []) && negb (ends_star f) then dec_of_Z (e_line e) else [], html_escape (e_id e),
   if e_inconcl e then e_sev e ++ L ", inconcl." else e_sev e, html_escape (e_msg e)).

Definition group (f : str) (es : list herr) : list herr := filter (fun e => str_eqb (e_file e) f) es.

Definition index_rows (es : list herr) : list row :=
  flat_map (fun f => map row_of (sort_line (group f es))) (sort_str (nodup_str (map e_file es))).
