(* C36 proofs *)
From Coq Require Import Strings.String.
From CV Require Import Base.Bytes Report.Lit Html.Defs.
Import List ListNotations.
Require Import Lia ZifyBool Permutation Sorted.
Local Open Scope N_scope.

(* ---------- escaping ---------- *)
Definition special (c : N) : Prop := c = 60 \/ c = 62 \/ c = 34 \/ c = 39.

Lemma escape_no_special s : Forall (fun c => ~ special c) (html_escape s).
Proof.
  induction s as [|c s IH]; cbn [html_escape flat_map]; [constructor|].
  apply Forall_app; split; auto. unfold html_escape_char.
  repeat match goal with |- context [if ?b then _ else _] => destruct b eqn:? end;
    repeat constructor; unfold special; lia.
Qed.

Lemma unescape_escape s : html_unescape (html_escape s) = s.
Proof.
  induction s as [|c s IH]; auto.
  cbn [html_escape flat_map]. fold (html_escape s). unfold html_escape_char.
  destruct (c =? 38) eqn:E1; [apply N.eqb_eq in E1; subst; cbn; rewrite IH; reflexivity|].
  destruct (c =? 60) eqn:E2; [apply N.eqb_eq in E2; subst; cbn; rewrite IH; reflexivity|].
  destruct (c =? 62) eqn:E3; [apply N.eqb_eq in E3; subst; cbn; rewrite IH; reflexivity|].
  destruct (c =? 34) eqn:E4; [apply N.eqb_eq in E4; subst; cbn; rewrite IH; reflexivity|].
  destruct (c =? 39) eqn:E5; [apply N.eqb_eq in E5; subst; cbn; rewrite IH; reflexivity|].
  cbn [app]. change (html_unescape (c :: html_escape s)) with
    (match c :: html_escape s with
     | 38 :: 97 :: 109 :: 112 :: 59 :: r => 38 :: html_unescape r
     | 38 :: 108 :: 116 :: 59 :: r => 60 :: html_unescape r
     | 38 :: 103 :: 116 :: 59 :: r => 62 :: html_unescape r
     | 38 :: 113 :: 117 :: 111 :: 116 :: 59 :: r => 34 :: html_unescape r
     | 38 :: 97 :: 112 :: 111 :: 115 :: 59 :: r => 39 :: html_unescape r
     | c :: r => c :: html_unescape r
     | [] => []
     end).
  destruct c as [|p]; [rewrite IH; reflexivity|].
  assert (N.pos p <> 38) by lia.
  do 6 (destruct p as [p|p|]; try (rewrite IH; reflexivity); try lia).
Qed.

(* ---------- sorting by line: permutation, sorted, stable ---------- *)
Lemma ins_line_perm x l : Permutation (ins_line x l) (x :: l).
Proof.
  induction l as [|y l IH]; cbn; auto. destruct (e_line x <=? e_line y)%Z; auto.
  rewrite IH. apply perm_swap.
Qed.
Lemma sort_line_perm l : Permutation (sort_line l) l.
Proof. induction l; cbn; auto. rewrite ins_line_perm. auto. Qed.

Definition line_le (a b : herr) : Prop := (e_line a <= e_line b)%Z.

Lemma ins_line_sorted x l : Sorted line_le l -> Sorted line_le (ins_line x l).
Proof.
  induction 1 as [|y l Hs IH Hh]; cbn; [repeat constructor|].
  destruct (e_line x <=? e_line y)%Z eqn:E.
  - constructor; [constructor; auto|]. constructor. unfold line_le. lia.
  - constructor; auto. destruct l as [|z l]; cbn in *.
    + constructor. unfold line_le. lia.
    + destruct (e_line x <=? e_line z)%Z; constructor; unfold line_le; try lia. inversion Hh; auto.
Qed.
Lemma sort_line_sorted l : Sorted line_le (sort_line l).
Proof. induction l; cbn; [constructor|]. apply ins_line_sorted; auto. Qed.

Lemma ins_line_stable k x l :
  filter (fun e => (e_line e =? k)%Z) (ins_line x l) =
  if (e_line x =? k)%Z then x :: filter (fun e => (e_line e =? k)%Z) l else filter (fun e => (e_line e =? k)%Z) l.
Proof.
  induction l as [|y l IH]; cbn [ins_line filter]; auto.
  destruct (e_line x <=? e_line y)%Z eqn:E; cbn [filter]; auto.
  rewrite IH. destruct (e_line x =? k)%Z eqn:E1, (e_line y =? k)%Z eqn:E2; auto. lia.
Qed.
Lemma sort_line_stable k l :
  filter (fun e => (e_line e =? k)%Z) (sort_line l) = filter (fun e => (e_line e =? k)%Z) l.
Proof.
  induction l as [|x l IH]; auto. cbn [sort_line fold_right]. fold (sort_line l).
  rewrite ins_line_stable, IH. cbn [filter]. reflexivity.
Qed.

(* ---------- files: sorted list without duplicates covering every file ---------- *)
Lemma mem_In x l : mem x l = true <-> In x l.
Proof.
  induction l as [|y l IH]; cbn; [split; [discriminate|tauto]|].
  rewrite orb_true_iff, IH, str_eqb_eq. split; intros [H|H]; auto.
Qed.

Lemma nodup_str_In x l : In x (nodup_str l) <-> In x l.
Proof.
  induction l as [|y l IH]; cbn; [tauto|].
  destruct (mem y l) eqn:E.
  - rewrite IH. apply mem_In in E. split; auto. intros [->|H]; auto.
  - cbn. rewrite IH. tauto.
Qed.
Lemma nodup_str_NoDup l : NoDup (nodup_str l).
Proof.
  induction l as [|y l IH]; cbn; [constructor|]. destruct (mem y l) eqn:E; auto.
  constructor; auto. rewrite nodup_str_In, <- mem_In. congruence.
Qed.

Lemma ins_str_perm x l : Permutation (ins_str x l) (x :: l).
Proof.
  induction l as [|y l IH]; cbn; auto. destruct (str_leb x y); auto. rewrite IH. apply perm_swap.
Qed.
Lemma sort_str_perm l : Permutation (sort_str l) l.
Proof. induction l; cbn; auto. rewrite ins_str_perm. auto. Qed.

(* ---------- grouping is a partition ---------- *)
Lemma filter_or_perm {A} (p q : A -> bool) l :
  (forall x, In x l -> p x = true -> q x = false) ->
  Permutation (filter p l ++ filter q l) (filter (fun x => p x || q x) l).
Proof.
  induction l as [|a l IH]; intros H; cbn; auto.
  assert (IH' := IH (fun x Hx => H x (or_intror Hx))).
  destruct (p a) eqn:Ep; cbn.
  - rewrite (H a (or_introl eq_refl) Ep). cbn. constructor. exact IH'.
  - destruct (q a); cbn; auto. rewrite <- IH'. symmetry. apply Permutation_middle.
Qed.

Lemma groups_partition es fs : NoDup fs ->
  Permutation (flat_map (fun f => group f es) fs) (filter (fun e => mem (e_file e) fs) es).
Proof.
  induction 1 as [|f fs Hf Hn IH]; cbn [flat_map].
  - cbn. induction es; cbn; auto.
  - rewrite IH. unfold group. rewrite filter_or_perm.
    + apply Permutation_refl' . apply filter_ext. intros e. cbn [mem]. reflexivity.
    + intros e _ He. apply str_eqb_eq in He. rewrite He.
      destruct (mem f fs) eqn:E; auto. apply mem_In in E. contradiction.
Qed.

Lemma filter_all {A} (p : A -> bool) l : (forall x, In x l -> p x = true) -> filter p l = l.
Proof. induction l; cbn; intros H; auto. rewrite H by auto. f_equal. auto. Qed.

Theorem index_complete es : Permutation (index_rows es) (map row_of es).
Proof.
  unfold index_rows.
  set (fs := sort_str (nodup_str (map e_file es))).
  assert (Hnd : NoDup fs).
  { eapply Permutation_NoDup; [symmetry; apply sort_str_perm | apply nodup_str_NoDup]. }
  assert (Hin : forall e, In e es -> mem (e_file e) fs = true).
  { intros e He. apply mem_In. eapply Permutation_in; [symmetry; apply sort_str_perm|].
    apply nodup_str_In. apply in_map; auto. }
  transitivity (map row_of (flat_map (fun f => group f es) fs)).
  - clear. induction fs as [|f fs IH]; cbn [flat_map]; auto.
    rewrite map_app. apply Permutation_app; auto. apply Permutation_map, sort_line_perm.
  - apply Permutation_map. rewrite groups_partition by auto. rewrite filter_all; auto.
Qed.

(* what an HTML reader gets back from the cells of a row *)
Definition read_row (r : row) : row :=
  match r with (f, ln, id, sv, m) => (html_unescape f, ln, html_unescape id, sv, html_unescape m) end.

Theorem row_carries e :
  read_row (row_of e) =
  (e_file e, (if negb (str_eqb (e_file e) []) && negb (ends_star (e_file e)) then dec_of_Z (e_line e) else []),
   e_id e, (if e_inconcl e then e_sev e ++ L ", inconcl." else e_sev e), e_msg e).
Proof. unfold read_row, row_of. rewrite !unescape_escape. reflexivity. Qed.

Lemma row_cells_safe e :
  match row_of e with (f, _, id, _, m) =>
    Forall (fun c => ~ special c) f /\ Forall (fun c => ~ special c) id /\ Forall (fun c => ~ special c) m end.
Proof. unfold row_of. repeat split; apply escape_no_special. Qed.
