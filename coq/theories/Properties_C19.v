(* C19  Incremental analysis is transparent across option changes.
   Statements only; every proof is `exact <lemma>`. *)
From CV Require Import Base.Bytes Cache.Defs Cache.Proofs Cache.Gen_KeyFields Cache.KeyProofs.
Local Open Scope N_scope.

(* Every sequence of runs with arbitrary option sets (each SRun carries its own
   options; edits may be interleaved) over one build dir reports what runs without
   a build dir report, PROVIDED the key data determines the analysis (faithful_key:
   here this includes "every option the analysis depends on reaches the key"),
   std::hash does not collide on the key data that occur, and the files.txt lookup
   is unique.  Options are the record `options` (each Settings member as streamed). *)
Theorem C19_option_change_history
  (msg summ content : Type) (lm : lookup_mode) (H : str -> N)
  (analyze : options -> ustate -> list msg * summ) (is_internal : msg -> bool)
  (wp : options -> list (str * summ) -> list msg) (view : options -> fsys content -> str -> ustate)
  (D : str -> Prop) :
  (forall a b, D a -> D b -> H a = H b -> a = b) ->
  (forall o u o' u', code_keydata o u = code_keydata o' u' -> analyze o u = analyze o' u') ->
  forall h fs,
    Forall D (keys_of options content code_keydata view h fs) -> runs_ok options content lm h = true ->
    exec options msg summ content lm H code_keydata analyze is_internal wp view h fs [] =
    exec_fresh options msg summ content analyze wp view h fs.
Proof.
  intros Hc Hf h fs.
  exact (cache_transparent_from_empty options msg summ content lm H code_keydata analyze is_internal wp view D Hc Hf h fs).
Qed.
Print Assumptions C19_option_change_history.

(* THE OBLIGATION (fix 11700a7): every option of the property's list is streamed into
   the key of the current source.  key_fields is regenerated from CppCheck::calculateHash
   (+ the language appended by Preprocessor::calculateHash) on every run; the domain is
   the finite regenerated table, so this is decided by computation and breaks as soon as
   one of the 19 options is dropped again. *)
Theorem C19_key_covers_c19 : key_covers key_fields c19_options = true.
Proof. vm_compute. reflexivity. Qed.
Print Assumptions C19_key_covers_c19.

Theorem C19_no_listed_option_missing : missing_fields key_fields c19_options = [].
Proof. exact (proj1 (key_covers_no_missing key_fields c19_options) C19_key_covers_c19). Qed.
Print Assumptions C19_no_listed_option_missing.

(* the same as a status for any member list the translator can emit *)
Theorem C19_key_coverage_status : coverage_status key_fields.
Proof. exact (coverage_status_all key_fields). Qed.
Print Assumptions C19_key_coverage_status.

(* (vacuous today) every listed option that is absent from toolinfo can take any value without
   changing the key data of any unit: a cached result computed under the other
   value is reused (faithful_key fails for any analysis that depends on it) *)
Theorem C19_missing_option_invisible f v o u :
  In f (missing_fields key_fields c19_options) ->
  code_keydata (flip_field f v o) u = code_keydata o u.
Proof. exact (missing_option_invisible f v o u). Qed.
Print Assumptions C19_missing_option_invisible.

(* generally, for any list of streamed members *)
Theorem C19_omitted_field_invisible kf f v o :
  mem_field f kf = false -> toolinfo kf (flip_field f v o) = toolinfo kf o.
Proof. exact (omitted_field_invisible kf f v o). Qed.
Print Assumptions C19_omitted_field_invisible.

(* non-vacuity: the list of options is the one of the property text, and a
   covering key exists *)
Example C19_all_fields_cover : key_covers all_fields c19_options = true.
Proof. vm_compute. reflexivity. Qed.
Example C19_nineteen_options : length c19_options = 19%nat.
Proof. reflexivity. Qed.
