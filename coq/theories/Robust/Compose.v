(* createLinks, then validate: the list createLinks accepts, with the links it made, passes
   Tokenizer::validate (the first validate() call of simplifyTokenList1 never fires on its own). *)
From CV Require Import Robust.Links Robust.LinksProofs Robust.Validate.
Local Notation suc := Datatypes.S.

Definition vk_of_tk (t : tk) : vk :=
  match t with TOpen _ => VOpen | TClose _ => VClose | TOther => VOther end.

Fixpoint attach_from (L : list (nat * nat)) (i : nat) (r : list tk) : list vtok :=
  match r with
  | [] => []
  | t :: r' => (vk_of_tk t, partner L i) :: attach_from L (suc i) r'
  end.

Definition attach (toks : list tk) (L : list (nat * nat)) : list vtok := attach_from L 0 toks.

Lemma nth_attach_from L r : forall i k,
  nth_error (attach_from L i r) k = option_map (fun t => (vk_of_tk t, partner L (i + k))) (nth_error r k).
Proof.
  induction r as [|t r IH]; intros i k; simpl.
  - destruct k; reflexivity.
  - destruct k; simpl; [rewrite Nat.add_0_r; reflexivity|].
    rewrite IH. replace (suc i + k) with (i + suc k) by lia. reflexivity.
Qed.

Lemma link_at_attach toks L j : j < length toks -> link_at (attach toks L) j = partner L j.
Proof.
  intros Hj. unfold link_at, attach. rewrite nth_attach_from.
  destruct (nth_error toks j) eqn:E; [reflexivity|]. apply nth_error_None in E. lia.
Qed.

(* partner on a list without repeated indices *)
Lemma partner_none L i : ~ In i (map fst L ++ map snd L) -> partner L i = None.
Proof.
  induction L as [|[o c] L IH]; simpl; intros H; [reflexivity|].
  destruct (Nat.eqb_spec o i) as [->|Hoi]; [exfalso; apply H; left; reflexivity|].
  destruct (Nat.eqb_spec c i) as [->|Hci].
  - exfalso; apply H. right. apply in_or_app. right. left. reflexivity.
  - apply IH. intros Hin. apply H. right. apply in_app_or in Hin. apply in_or_app.
    destruct Hin; [left; assumption|right; right; assumption].
Qed.

Lemma partner_some L : NoDup (map fst L ++ map snd L) ->
  forall o c, In (o, c) L -> partner L o = Some c /\ partner L c = Some o.
Proof.
  induction L as [|[o0 c0] L IH]; simpl; intros Hnd o c Hin; [destruct Hin|].
  apply NoDup_cons_iff in Hnd. destruct Hnd as (Ho0 & Hnd).
  assert (Hnd' : NoDup (map fst L ++ map snd L)).
  { apply NoDup_remove_1 in Hnd. exact Hnd. }
  assert (Hc0 : ~ In c0 (map fst L ++ map snd L)) by (apply NoDup_remove_2 in Hnd; exact Hnd).
  assert (Hoc : o0 <> c0).
  { intros E. apply Ho0. apply in_or_app. right. left. symmetry; exact E. }
  destruct Hin as [E|Hin].
  - injection E as <- <-. rewrite Nat.eqb_refl. split; [reflexivity|].
    destruct (Nat.eqb_spec o0 c0); [contradiction|]. rewrite Nat.eqb_refl. reflexivity.
  - assert (Hio : In o (map fst L ++ map snd L)) by (apply in_or_app; left; apply (in_map fst _ _ Hin)).
    assert (Hic : In c (map fst L ++ map snd L)) by (apply in_or_app; right; apply (in_map snd _ _ Hin)).
    assert (o0 <> o).
    { intros ->. apply Ho0. apply in_app_or in Hio. apply in_or_app. destruct Hio; [left; assumption|right; right; assumption]. }
    assert (o0 <> c).
    { intros ->. apply Ho0. apply in_app_or in Hic. apply in_or_app. destruct Hic; [left; assumption|right; right; assumption]. }
    assert (c0 <> o) by (intros ->; exact (Hc0 Hio)).
    assert (c0 <> c) by (intros ->; exact (Hc0 Hic)).
    destruct (Nat.eqb_spec o0 o); [contradiction|]. destruct (Nat.eqb_spec c0 o); [contradiction|].
    destruct (Nat.eqb_spec o0 c); [contradiction|]. destruct (Nat.eqb_spec c0 c); [contradiction|].
    apply IH; assumption.
Qed.

(* the links of an accepted run only grow *)
Lemma run1_incl r : forall K ls i L, run1 K ls i r = Ok L -> incl ls L.
Proof.
  induction r as [|t r IH]; intros K ls i L H; cbn [run1] in H.
  - apply finish1_ok in H. destruct H as (_ & ->). apply incl_refl.
  - destruct t as [b|b|]; try (apply IH in H; exact H).
    destruct (has_kind b K); [|discriminate]. destruct K as [|[j c] K']; [discriminate|].
    destruct (br_eqb c b); [|discriminate]. apply IH in H. intros x Hx. apply H. right. exact Hx.
Qed.

Section Final.
  Variable toks : list tk.
  Variable L : list (nat * nat).
  Hypothesis Hok : simple_links toks = Ok L.

  Let Hlinks := proj1 (simple_links_links toks L Hok).
  Let Hcov := proj2 (simple_links_links toks L Hok).
  Let Hnd := simple_links_nodup toks L Hok.

  Lemma partner_of_bracket i t : nth_error toks i = Some t -> is_bracket t = true -> exists j, partner L i = Some j.
  Proof.
    intros Hn Hb. assert (Hi : i < length toks) by (apply nth_error_Some; congruence).
    destruct (Hcov i t Hi Hn Hb) as [[]|[Hin|Hin]].
    - apply in_map_iff in Hin. destruct Hin as ([o c] & E & Hin). simpl in E; subst o.
      exists c. apply (partner_some L Hnd i c Hin).
    - apply in_map_iff in Hin. destruct Hin as ([o c] & E & Hin). simpl in E; subst c.
      exists o. apply (partner_some L Hnd o i Hin).
  Qed.

  Lemma partner_of_other i : nth_error toks i = Some TOther -> partner L i = None.
  Proof.
    intros Hn. apply partner_none. intros Hin. apply in_app_or in Hin. destruct Hin as [Hin|Hin];
      apply in_map_iff in Hin; destruct Hin as ([o c] & E & Hin); simpl in E; subst;
      destruct (Hlinks _ _ Hin) as (_ & _ & b & Ho & Hc); congruence.
  Qed.

  Lemma simulate : forall r pre K ls,
    toks = pre ++ r -> (forall j c, In (j, c) K -> j < length pre) ->
    run1 K ls (length pre) r = Ok L ->
    vrun (attach toks L) (map fst K) (length pre) (attach_from L (length pre) r) = VOk.
  Proof.
    induction r as [|t r IH]; intros pre K ls Hall HK H.
    - cbn [run1] in H. apply finish1_ok in H. destruct H as (-> & _). reflexivity.
    - assert (Hnth : nth_error toks (length pre) = Some t).
      { rewrite Hall, nth_error_app2, Nat.sub_diag by lia. reflexivity. }
      assert (Hall' : toks = (pre ++ [t]) ++ r) by (rewrite <- app_assoc; exact Hall).
      assert (Hlen : length (pre ++ [t]) = suc (length pre)) by (rewrite app_length; simpl; lia).
      cbn [attach_from vrun]. destruct t as [b|b|]; cbn [run1] in H.
      + destruct (partner_of_bracket _ _ Hnth eq_refl) as (j & Ej). unfold is_open, is_close; cbn [vk_of_tk fst snd].
        rewrite Ej. rewrite <- Hlen.
        apply (IH (pre ++ [TOpen b]) ((length pre, b) :: K) ls Hall'); rewrite ?Hlen; [|exact H].
        intros j' c [E|Hin]; [injection E as <- <-; lia|]. specialize (HK j' c Hin). lia.
      + destruct (has_kind b K); [|discriminate]. destruct K as [|[j c] K']; [discriminate|].
        destruct (br_eqb c b); [|discriminate].
        assert (HinL : In (j, length pre) L) by (apply (run1_incl _ _ _ _ _ H); left; reflexivity).
        destruct (partner_some L Hnd _ _ HinL) as (Ej & Ei).
        unfold is_open, is_close; cbn [vk_of_tk fst snd map]. rewrite Ei. rewrite Nat.eqb_refl. cbn [negb].
        assert (Hjlt : j < length toks).
        { specialize (HK j c (or_introl eq_refl)). rewrite Hall, app_length. lia. }
        rewrite (link_at_attach toks L j Hjlt), Ej, Nat.eqb_refl. rewrite <- Hlen.
        apply (IH (pre ++ [TClose b]) K' ((j, length pre) :: ls) Hall'); rewrite ?Hlen; [|exact H].
        intros j' c' Hin. specialize (HK j' c' (or_intror Hin)). lia.
      + unfold is_open, is_close; cbn [vk_of_tk fst snd]. rewrite (partner_of_other _ Hnth). rewrite <- Hlen.
        apply (IH (pre ++ [TOther]) K ls Hall'); rewrite ?Hlen; [|exact H].
        intros j c Hin. specialize (HK j c Hin). lia.
  Qed.

  Lemma simple_links_then_validate : validate (attach toks L) = VOk.
  Proof.
    unfold validate. change (attach toks L) with (attach_from L 0 toks) at 2.
    apply (simulate toks [] [] [] eq_refl); [intros j c []|exact Hok].
  Qed.
End Final.

Lemma create_links_then_validate toks L : create_links toks = Ok L -> validate (attach toks L) = VOk.
Proof. rewrite create_links_simple. apply simple_links_then_validate. Qed.
