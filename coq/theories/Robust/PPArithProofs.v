From CV Require Import Robust.PPArith.
Local Open Scope Z_scope.
Ltac Zify.zify_post_hook ::= Z.div_mod_to_equations.

Lemma wrap_in_ll z : in_ll (wrap z) = true.
Proof.
  unfold wrap, in_ll, MINLL, MAXLL, TWO64.
  pose proof (Z.mod_pos_bound z 18446744073709551616 ltac:(lia)) as H.
  destruct (Z.leb_spec (z mod 18446744073709551616) 9223372036854775807); lia.
Qed.

Lemma wrap_id z : in_ll z = true -> wrap z = z.
Proof.
  unfold wrap, in_ll, MINLL, MAXLL, TWO64. intros H.
  destruct (Z.leb_spec (z mod 18446744073709551616) 9223372036854775807); lia.
Qed.

Lemma quot_range a b : -9223372036854775808 <= a <= 9223372036854775807 -> -9223372036854775808 <= b <= 9223372036854775807 ->
  b <> 0 -> ~ (b = -1 /\ a = -9223372036854775808) ->
  -9223372036854775808 <= Z.quot a b <= 9223372036854775807.
Proof.
  intros Ha Hb Hb0 Hne.
  pose proof (Z.quot_rem' a b) as E. pose proof (Z.rem_bound_abs a b Hb0) as Hr.
  pose proof (Z.rem_sign_mul a b Hb0) as Hs.
  set (q := Z.quot a b) in *. set (r := Z.rem a b) in *. clearbody q r.
  assert (H : b = -1 \/ b = 1 \/ b <= -2 \/ 2 <= b) by lia.
  destruct H as [->|[->|[H|H]]].
  - assert (a <> -9223372036854775808) by (intros ->; apply Hne; split; reflexivity). lia.
  - lia.
  - split; nia.
  - split; nia.
Qed.

Lemma quot_in_ll a b : in_ll a = true -> in_ll b = true -> b <> 0 -> ~ (b = -1 /\ a = MINLL) ->
  in_ll (Z.quot a b) = true.
Proof.
  unfold in_ll, MINLL, MAXLL. intros Ha Hb Hb0 Hne.
  pose proof (quot_range a b ltac:(lia) ltac:(lia) Hb0 Hne). lia.
Qed.

(* the guarded operators never reach undefined behaviour, and a value they produce is a long long *)
Lemma fold_guarded_no_ub o a b : guarded o = true -> in_ll a = true -> in_ll b = true ->
  fold o a b <> AUB /\ (forall r, fold o a b = AVal r -> in_ll r = true).
Proof.
  intros Hg Ha Hb. destruct o; try discriminate Hg; cbn [fold].
  - split; [discriminate|]. intros r E; injection E as <-; apply wrap_in_ll.
  - destruct (Z.eqb_spec b 0) as [->|Hb0]; [split; [discriminate|discriminate]|].
    destruct ((b =? -1) && (a =? MINLL)) eqn:Hm; [split; discriminate|].
    assert (Hq : in_ll (Z.quot a b) = true).
    { apply quot_in_ll; try assumption. intros (-> & ->). discriminate Hm. }
    unfold cxx. destruct (Z.eqb_spec b 0); [contradiction|]. rewrite Hq.
    split; [discriminate|]. intros r E; injection E as <-; exact Hq.
  - destruct (Z.eqb_spec b 0) as [->|Hb0]; [split; discriminate|].
    destruct ((b =? -1) && (a =? MINLL)) eqn:Hm; [split; discriminate|].
    assert (Hq : in_ll (Z.quot a b) = true).
    { apply quot_in_ll; try assumption. intros (-> & ->). discriminate Hm. }
    unfold cxx. destruct (Z.eqb_spec b 0); [contradiction|]. rewrite Hq.
    split; [discriminate|]. intros r E; injection E as <-.
    pose proof (Z.rem_bound_abs a b Hb0). unfold in_ll, MINLL, MAXLL in *. lia.
  - split; [discriminate|]. intros r E; injection E as <-; apply wrap_in_ll.
  - split; [discriminate|]. intros r E; injection E as <-; apply wrap_in_ll.
Qed.

(* and where the built-in operator is defined the folder computes it *)
Lemma fold_agrees_with_cxx o a b r : guarded o = true -> cxx o a b = AVal r -> fold o a b = AVal r.
Proof.
  intros Hg. destruct o; try discriminate Hg; cbn [fold cxx].
  - destruct (in_ll (a * b)) eqn:E; [|discriminate]. intros H; injection H as <-. rewrite wrap_id; auto.
  - destruct (Z.eqb_spec b 0); [discriminate|].
    destruct (in_ll (Z.quot a b)) eqn:E; [|discriminate]. intros H; injection H as <-.
    destruct ((b =? -1) && (a =? MINLL)) eqn:Hm; [|reflexivity].
    apply andb_prop in Hm. destruct Hm as (H1 & H2). apply Z.eqb_eq in H1, H2. subst. discriminate E.
  - destruct (Z.eqb_spec b 0); [discriminate|].
    destruct (in_ll (Z.quot a b)) eqn:E; [|discriminate]. intros H; injection H as <-.
    destruct ((b =? -1) && (a =? MINLL)) eqn:Hm; [|reflexivity].
    apply andb_prop in Hm. destruct Hm as (H1 & H2). apply Z.eqb_eq in H1, H2. subst. discriminate E.
  - destruct (in_ll (a + b)) eqn:E; [|discriminate]. intros H; injection H as <-. rewrite wrap_id; auto.
  - destruct (in_ll (a - b)) eqn:E; [|discriminate]. intros H; injection H as <-. rewrite wrap_id; auto.
Qed.

(* the two guards of the division are both needed: without either one a long long pair reaches UB *)
Lemma div_guards_needed :
  cxx ADiv 1 0 = AUB /\ cxx ARem 1 0 = AUB /\ cxx ADiv MINLL (-1) = AUB /\ cxx ARem MINLL (-1) = AUB.
Proof. vm_compute. repeat split. Qed.

(* the shifts have no guard *)
Lemma shift_ub_witness :
  in_ll 1 = true /\ in_ll 64 = true /\ fold AShl 1 64 = AUB /\ fold AShl (-1) 1 = AUB /\ fold AShr 1 70 = AUB.
Proof. vm_compute. repeat split. Qed.
