From CV Require Import Robust.Links.
From Coq Require Import Permutation.
Local Notation suc := Datatypes.S.

(* ---------- the four-stack loop is the one-stack algorithm, and never calls top() on an empty stack ---------- *)

Definition kinds (k : br) (K : list (nat * br)) : list nat :=
  map fst (filter (fun e => br_eqb (snd e) k) K).

Definition R (s : st) (K : list (nat * br)) (ls : list (nat * nat)) : Prop :=
  ty s = K /\ l1 s = kinds Brace K /\ l2 s = kinds Paren K /\ l3 s = kinds Brack K /\ lks s = ls.

Lemma br_eqb_refl b : br_eqb b b = true.
Proof. destruct b; reflexivity. Qed.

Lemma br_eqb_eq a b : br_eqb a b = true <-> a = b.
Proof. destruct a, b; simpl; split; intros H; try reflexivity; discriminate. Qed.

Lemma kinds_nil_has_kind k K : kinds k K = [] <-> has_kind k K = false.
Proof.
  induction K as [|[j c] K IH]; simpl; [tauto|].
  unfold kinds in *; simpl. destruct (br_eqb c k); simpl; [split; discriminate|exact IH].
Qed.

Lemma top_of_kind_kinds k K : top_of_kind k K = hd_error (kinds k K).
Proof.
  induction K as [|[j c] K IH]; simpl; [reflexivity|].
  unfold kinds in *; simpl. destruct (br_eqb c k); simpl; [reflexivity|exact IH].
Qed.

Lemma finish_refines s K ls : R s K ls -> finish s = finish1 K ls.
Proof.
  intros (Ht & H1 & H2 & H3 & Hl). unfold finish, finish1.
  rewrite !top_of_kind_kinds, H1, H2, H3, Hl.
  destruct (kinds Brace K); simpl; [|reflexivity].
  destruct (kinds Paren K); simpl; [|reflexivity].
  destruct (kinds Brack K); reflexivity.
Qed.

Lemma R_intro K ls : R (mkSt K (kinds Brace K) (kinds Paren K) (kinds Brack K) ls) K ls.
Proof. unfold R; simpl; auto. Qed.

Lemma R_elim s K ls : R s K ls -> s = mkSt K (kinds Brace K) (kinds Paren K) (kinds Brack K) ls.
Proof. destruct s; unfold R; simpl; intros (-> & -> & -> & -> & ->); reflexivity. Qed.

Lemma step_open s K ls i b : R s K ls -> exists s', step s i (TOpen b) = inl s' /\ R s' ((i, b) :: K) ls.
Proof.
  intros H; rewrite (R_elim _ _ _ H).
  destruct b; (eexists; split; [reflexivity|]); apply R_intro.
Qed.

Lemma step_other s i : step s i TOther = inl s.
Proof. reflexivity. Qed.

Lemma step_close_nokind s K ls i b :
  R s K ls -> has_kind b K = false -> step s i (TClose b) = inr (Unmatched i).
Proof.
  intros H Hk; rewrite (R_elim _ _ _ H). apply kinds_nil_has_kind in Hk.
  destruct b; unfold step, link_brackets, bind; simpl; rewrite Hk; reflexivity.
Qed.

Lemma step_close_other s K ls i b j c :
  R s ((j, c) :: K) ls -> has_kind b ((j, c) :: K) = true -> br_eqb c b = false ->
  step s i (TClose b) = inr (Unmatched j).
Proof.
  intros H Hk Hc; rewrite (R_elim _ _ _ H).
  destruct (kinds b ((j, c) :: K)) eqn:E; [apply kinds_nil_has_kind in E; congruence|].
  destruct b, c; try discriminate Hc; unfold step, link_brackets, bind; simpl;
    unfold kinds in *; simpl in *; rewrite E; reflexivity.
Qed.

Lemma step_close_same s K ls i b j :
  R s ((j, b) :: K) ls -> exists s', step s i (TClose b) = inl s' /\ R s' K ((j, i) :: ls).
Proof.
  intros H; rewrite (R_elim _ _ _ H).
  destruct b; (eexists; split; [reflexivity|]); apply R_intro.
Qed.

Lemma step_close_empty s ls i b : R s [] ls -> step s i (TClose b) = inr (Unmatched i).
Proof. intros H; apply (step_close_nokind s [] ls i b H); reflexivity. Qed.

Lemma run_refines toks : forall s K ls i, R s K ls -> run_from s i toks = run1 K ls i toks.
Proof.
  induction toks as [|t r IH]; intros s K ls i H; cbn [run_from run1].
  - apply finish_refines, H.
  - destruct t as [b|b|].
    + destruct (step_open s K ls i b H) as (s' & -> & H'). apply IH, H'.
    + destruct (has_kind b K) eqn:Hk.
      * destruct K as [|[j c] K']; [discriminate Hk|].
        destruct (br_eqb c b) eqn:Hc.
        -- apply br_eqb_eq in Hc; subst c.
           destruct (step_close_same s K' ls i b j H) as (s' & -> & H'). apply IH, H'.
        -- rewrite (step_close_other s K' ls i b j c H Hk Hc); reflexivity.
      * rewrite (step_close_nokind s K ls i b H Hk); reflexivity.
    + rewrite step_other. apply IH, H.
Qed.

Lemma create_links_simple toks : create_links toks = simple_links toks.
Proof. apply run_refines. unfold R; simpl; auto. Qed.

Lemma run1_not_ub toks : forall K ls i, run1 K ls i toks <> UB.
Proof.
  induction toks as [|t r IH]; intros K ls i; cbn [run1].
  - unfold finish1. destruct (top_of_kind Brace K); [discriminate|].
    destruct (top_of_kind Paren K); [discriminate|].
    destruct (top_of_kind Brack K); discriminate.
  - destruct t as [b|b|]; try apply IH.
    destruct (has_kind b K); [|discriminate].
    destruct K as [|[j c] K']; [discriminate|].
    destruct (br_eqb c b); [apply IH|discriminate].
Qed.

(* ---------- accepted = well-bracketed ---------- *)

Lemma bal_transparent w : bal w ->
  forall K ls i rest, exists ls', run1 K ls i (w ++ rest) = run1 K ls' (i + length w) rest.
Proof.
  induction 1 as [|w Hw IH|b w1 w2 H1 IH1 H2 IH2]; intros K ls i rest.
  - exists ls. simpl. rewrite Nat.add_0_r. reflexivity.
  - destruct (IH K ls (suc i) rest) as (ls' & E). exists ls'.
    cbn [app run1 length]. rewrite E. f_equal. lia.
  - cbn [app run1]. rewrite <- app_assoc. cbn [app].
    destruct (IH1 ((i, b) :: K) ls (suc i) (TClose b :: w2 ++ rest)) as (la & Ea). rewrite Ea.
    cbn [run1 has_kind existsb snd]. rewrite br_eqb_refl. cbn [orb].
    destruct (IH2 K ((i, suc i + length w1) :: la) (suc (suc i + length w1)) rest) as (lb & Eb).
    rewrite Eb. exists lb. f_equal. cbn [length]. rewrite app_length. cbn [length]. lia.
Qed.

Lemma finish1_ok K ls L : finish1 K ls = Ok L -> K = [] /\ L = ls.
Proof.
  unfold finish1. destruct K as [|[j c] K]; simpl.
  - intros H; injection H as <-; auto.
  - destruct c; simpl; try discriminate;
      destruct (top_of_kind Brace K); try discriminate;
      destruct (top_of_kind Paren K); discriminate.
Qed.

(* from a non-empty stack an accepted run first closes the innermost bracket *)
Lemma split_close n : forall w, length w <= n ->
  forall j b K ls i L, run1 ((j, b) :: K) ls i w = Ok L ->
  exists w1 w2 ls2 i2, w = w1 ++ TClose b :: w2 /\ bal w1 /\ run1 K ls2 i2 w2 = Ok L.
Proof.
  induction n as [|n IH]; intros w Hn j b K ls i L H.
  - destruct w; [|simpl in Hn; lia]. cbn [run1] in H. apply finish1_ok in H. destruct H; discriminate.
  - destruct w as [|t r]; [cbn [run1] in H; apply finish1_ok in H; destruct H; discriminate|].
    simpl in Hn. destruct t as [c|c|]; cbn [run1] in H.
    + (* open c: close it first, then close b *)
      destruct (IH r ltac:(lia) _ _ _ _ _ _ H) as (u1 & u2 & la & ia & -> & Hu1 & Ha).
      assert (Hlen : length u2 <= n) by (rewrite app_length in Hn; simpl in Hn; lia).
      destruct (IH u2 Hlen _ _ _ _ _ _ Ha) as (v1 & v2 & lb & ib & -> & Hv1 & Hb).
      exists (TOpen c :: u1 ++ TClose c :: v1), v2, lb, ib. split; [|split; [|exact Hb]].
      * cbn [app]. rewrite <- app_assoc. reflexivity.
      * apply bal_pair; assumption.
    + destruct (has_kind c ((j, b) :: K)); [|discriminate].
      destruct (br_eqb b c) eqn:Hc; [|discriminate].
      apply br_eqb_eq in Hc; subst c.
      exists [], r, ((j, i) :: ls), (suc i). split; [reflexivity|split; [constructor|exact H]].
    + destruct (IH r ltac:(lia) _ _ _ _ _ _ H) as (u1 & u2 & la & ia & -> & Hu1 & Ha).
      exists (TOther :: u1), u2, la, ia. split; [reflexivity|split; [constructor; exact Hu1|exact Ha]].
Qed.

Lemma ok_bal n : forall w, length w <= n -> forall ls i L, run1 [] ls i w = Ok L -> bal w.
Proof.
  induction n as [|n IH]; intros w Hn ls i L H.
  - destruct w; [constructor|simpl in Hn; lia].
  - destruct w as [|t r]; [constructor|]. simpl in Hn. destruct t as [c|c|]; cbn [run1] in H.
    + destruct (split_close (length r) r (le_n _) _ _ _ _ _ _ H) as (u1 & u2 & la & ia & -> & Hu1 & Ha).
      apply bal_pair; [exact Hu1|].
      apply (IH u2) with (ls := la) (i := ia) (L := L); [|exact Ha].
      rewrite app_length in Hn; simpl in Hn; lia.
    + simpl in H. discriminate.
    + constructor. apply (IH r ltac:(lia) _ _ _ H).
Qed.

Lemma simple_links_ok_iff_bal w : (exists L, simple_links w = Ok L) <-> bal w.
Proof.
  split.
  - intros (L & H). apply (ok_bal (length w) w (le_n _) _ _ _ H).
  - intros H. destruct (bal_transparent w H [] [] 0 []) as (ls' & E).
    rewrite app_nil_r in E. exists ls'. unfold simple_links. rewrite E. reflexivity.
Qed.

(* ---------- what an accepted run links ---------- *)

(* processed-prefix invariant of the one-stack machine over the whole token list `all` *)
Definition opens_ok (all : list tk) (n : nat) (K : list (nat * br)) : Prop :=
  forall j c, In (j, c) K -> j < n /\ nth_error all j = Some (TOpen c).

Definition links_ok (all : list tk) (n : nat) (ls : list (nat * nat)) : Prop :=
  forall o c, In (o, c) ls -> o < c /\ c < n /\
    exists b, nth_error all o = Some (TOpen b) /\ nth_error all c = Some (TClose b).

Definition covered (all : list tk) (n : nat) (K : list (nat * br)) (ls : list (nat * nat)) : Prop :=
  forall k t, k < n -> nth_error all k = Some t -> is_bracket t = true ->
    In k (map fst K) \/ In k (map fst ls) \/ In k (map snd ls).

Lemma run1_links all : forall r pre K ls L,
  all = pre ++ r ->
  opens_ok all (length pre) K -> links_ok all (length pre) ls -> covered all (length pre) K ls ->
  run1 K ls (length pre) r = Ok L ->
  links_ok all (length all) L /\ covered all (length all) [] L.
Proof.
  induction r as [|t r IH]; intros pre K ls L Hall Ho Hl Hc H.
  - cbn [run1] in H. apply finish1_ok in H. destruct H as (-> & ->).
    rewrite Hall, app_nil_r. rewrite Hall, app_nil_r in Hl, Hc. split; assumption.
  - assert (Hnth : nth_error all (length pre) = Some t).
    { rewrite Hall, nth_error_app2, Nat.sub_diag by lia. reflexivity. }
    assert (Hall' : all = (pre ++ [t]) ++ r) by (rewrite <- app_assoc; exact Hall).
    assert (Hlen : length (pre ++ [t]) = suc (length pre)) by (rewrite app_length; simpl; lia).
    destruct t as [b|b|]; cbn [run1] in H.
    + apply (IH (pre ++ [TOpen b]) ((length pre, b) :: K) ls L Hall'); rewrite ?Hlen; try exact H.
      * intros j c [E|Hin]; [injection E as <- <-; split; [lia|exact Hnth]|].
        destruct (Ho j c Hin); split; [lia|assumption].
      * intros o c Hin. destruct (Hl o c Hin) as (? & ? & ?). repeat split; try lia; assumption.
      * intros k t Hk Hn Hb. destruct (Nat.eq_dec k (length pre)) as [->|Hne]; [left; simpl; auto|].
        destruct (Hc k t ltac:(lia) Hn Hb) as [?|?]; [left; simpl; auto|right; assumption].
    + destruct (has_kind b K); [|discriminate].
      destruct K as [|[j c] K']; [discriminate|].
      destruct (br_eqb c b) eqn:Hcb; [|discriminate]. apply br_eqb_eq in Hcb; subst c.
      destruct (Ho j b (or_introl eq_refl)) as (Hj & Hjn).
      apply (IH (pre ++ [TClose b]) K' ((j, length pre) :: ls) L Hall'); rewrite ?Hlen; try exact H.
      * intros j' c Hin. destruct (Ho j' c (or_intror Hin)); split; [lia|assumption].
      * intros o c [E|Hin].
        -- injection E as <- <-. split; [exact Hj|split; [lia|]]. exists b; split; assumption.
        -- destruct (Hl o c Hin) as (? & ? & ?). repeat split; try lia; assumption.
      * intros k t Hk Hn Hb. destruct (Nat.eq_dec k (length pre)) as [->|Hne]; [right; right; simpl; auto|].
        destruct (Hc k t ltac:(lia) Hn Hb) as [[E|?]|[?|?]].
        -- simpl in E; subst k. right; left; simpl; auto.
        -- left; assumption.
        -- right; left; simpl; auto.
        -- right; right; simpl; auto.
    + apply (IH (pre ++ [TOther]) K ls L Hall'); rewrite ?Hlen; try exact H.
      * intros j c Hin. destruct (Ho j c Hin); split; [lia|assumption].
      * intros o c Hin. destruct (Hl o c Hin) as (? & ? & ?). repeat split; try lia; assumption.
      * intros k t Hk Hn Hb. destruct (Nat.eq_dec k (length pre)) as [->|Hne].
        -- rewrite Hnth in Hn; injection Hn as <-; discriminate.
        -- apply (Hc k t ltac:(lia) Hn Hb).
Qed.

Lemma simple_links_links w L : simple_links w = Ok L ->
  links_ok w (length w) L /\ covered w (length w) [] L.
Proof.
  intros H. apply (run1_links w w [] [] [] L eq_refl); try exact H.
  - intros j c [].
  - intros o c [].
  - intros k t Hk; simpl in Hk; lia.
Qed.

(* ---------- a rejected run names a token of the list ---------- *)

Lemma top_of_kind_in k K o : top_of_kind k K = Some o -> In o (map fst K).
Proof.
  induction K as [|[j c] K IH]; simpl; [discriminate|].
  destruct (br_eqb c k); [intros H; injection H as ->; auto|auto].
Qed.

Lemma run1_unmatched_range r : forall K ls i k,
  (forall j, In j (map fst K) -> j < i) -> run1 K ls i r = Unmatched k -> k < i + length r.
Proof.
  induction r as [|t r IH]; intros K ls i k HK H; cbn [run1] in H.
  - unfold finish1 in H. simpl. rewrite Nat.add_0_r.
    destruct (top_of_kind Brace K) eqn:E1; [injection H as <-; apply HK, (top_of_kind_in _ _ _ E1)|].
    destruct (top_of_kind Paren K) eqn:E2; [injection H as <-; apply HK, (top_of_kind_in _ _ _ E2)|].
    destruct (top_of_kind Brack K) eqn:E3; [injection H as <-; apply HK, (top_of_kind_in _ _ _ E3)|discriminate].
  - cbn [length]. destruct t as [b|b|].
    + apply IH in H; [lia|]. intros j Hj; simpl in Hj; destruct Hj as [<-|Hj]; [lia|]. apply HK in Hj; lia.
    + destruct (has_kind b K).
      * destruct K as [|[j c] K']; [injection H as <-; lia|].
        destruct (br_eqb c b).
        -- apply IH in H; [lia|]. intros j' Hj. specialize (HK j' (or_intror Hj)). lia.
        -- injection H as <-. specialize (HK j (or_introl eq_refl)). lia.
      * injection H as <-; lia.
    + apply IH in H; [lia|]. intros j Hj. apply HK in Hj; lia.
Qed.

Lemma simple_links_unmatched_range w k : simple_links w = Unmatched k -> k < length w.
Proof. intros H. apply (run1_unmatched_range w [] [] 0 k); [intros j []|exact H]. Qed.

(* every outcome is one of the two defined ones *)
Lemma simple_links_cases w :
  (exists L, simple_links w = Ok L) \/ (exists k, simple_links w = Unmatched k).
Proof.
  destruct (simple_links w) eqn:E; [left; eauto|right; eauto|].
  exfalso. exact (run1_not_ub w [] [] 0 E).
Qed.

(* ---------- no token is linked twice ---------- *)

Lemma run1_nodup all : forall r pre K ls L,
  all = pre ++ r ->
  (forall j, In j (map fst K) -> j < length pre) ->
  (forall j, In j (map fst ls ++ map snd ls) -> j < length pre) ->
  NoDup (map fst K ++ map fst ls ++ map snd ls) ->
  run1 K ls (length pre) r = Ok L ->
  NoDup (map fst L ++ map snd L).
Proof.
  induction r as [|t r IH]; intros pre K ls L Hall HK Hls Hnd H.
  - cbn [run1] in H. apply finish1_ok in H. destruct H as (-> & ->). exact Hnd.
  - assert (Hall' : all = (pre ++ [t]) ++ r) by (rewrite <- app_assoc; exact Hall).
    assert (Hlen : length (pre ++ [t]) = suc (length pre)) by (rewrite app_length; simpl; lia).
    destruct t as [b|b|]; cbn [run1] in H.
    + apply (IH (pre ++ [TOpen b]) ((length pre, b) :: K) ls L Hall'); rewrite ?Hlen; try exact H.
      * intros j Hj; simpl in Hj; destruct Hj as [<-|Hj]; [lia|]. apply HK in Hj; lia.
      * intros j Hj. apply Hls in Hj; lia.
      * simpl. constructor; [|exact Hnd]. intros Hin. apply in_app_or in Hin.
        destruct Hin as [Hin|Hin]; [apply HK in Hin|apply Hls in Hin]; lia.
    + destruct (has_kind b K); [|discriminate].
      destruct K as [|[j c] K']; [discriminate|].
      destruct (br_eqb c b); [|discriminate].
      apply (IH (pre ++ [TClose b]) K' ((j, length pre) :: ls) L Hall'); rewrite ?Hlen; try exact H.
      * intros j' Hj. specialize (HK j' (or_intror Hj)). lia.
      * simpl. intros j' [<-|Hj].
        -- specialize (HK j (or_introl eq_refl)). lia.
        -- apply in_app_or in Hj. destruct Hj as [Hj|[<-|Hj]]; [| lia |];
             (assert (j' < length pre); [apply Hls, in_or_app; auto|lia]).
      * (* j moves from the stack to the opens of ls, length pre joins the closes *)
        simpl in Hnd. apply NoDup_cons_iff in Hnd. destruct Hnd as (Hj & Hnd).
        assert (Hnew : ~ In (length pre) (map fst K' ++ map fst ls ++ map snd ls)).
        { intros Hin. apply in_app_or in Hin. destruct Hin as [Hin|Hin].
          - specialize (HK _ (or_intror Hin)). lia.
          - apply Hls in Hin. lia. }
        simpl.
        (* reorder: K' ++ j :: fst ls ++ (length pre) :: snd ls *)
        apply (Permutation.Permutation_NoDup (l := j :: length pre :: map fst K' ++ map fst ls ++ map snd ls)).
        -- apply Permutation.Permutation_trans with (l' := map fst K' ++ j :: length pre :: map fst ls ++ map snd ls).
           ++ change (j :: length pre :: map fst K' ++ map fst ls ++ map snd ls)
                with ([j; length pre] ++ map fst K' ++ map fst ls ++ map snd ls).
              change (map fst K' ++ j :: length pre :: map fst ls ++ map snd ls)
                with (map fst K' ++ [j; length pre] ++ map fst ls ++ map snd ls).
              apply Permutation.Permutation_app_swap_app.
           ++ apply Permutation.Permutation_app_head. constructor.
              change (length pre :: map fst ls ++ map snd ls) with ([length pre] ++ map fst ls ++ map snd ls).
              change (map fst ls ++ length pre :: map snd ls) with (map fst ls ++ [length pre] ++ map snd ls).
              apply Permutation.Permutation_app_swap_app.
        -- constructor; [|constructor; assumption].
           intros [E|Hin]; [specialize (HK j (or_introl eq_refl)); lia|exact (Hj Hin)].
    + apply (IH (pre ++ [TOther]) K ls L Hall'); rewrite ?Hlen; try exact H.
      * intros j Hj. apply HK in Hj; lia.
      * intros j Hj. apply Hls in Hj; lia.
      * exact Hnd.
Qed.

Lemma simple_links_nodup w L : simple_links w = Ok L -> NoDup (map fst L ++ map snd L).
Proof.
  intros H. apply (run1_nodup w w [] [] [] L eq_refl); try exact H.
  - intros j [].
  - intros j [].
  - constructor.
Qed.

(* ---------- the statements about Tokenizer::createLinks itself ---------- *)

Lemma create_links_not_ub toks : create_links toks <> UB.
Proof. rewrite create_links_simple. apply run1_not_ub. Qed.

Lemma create_links_ok_iff_bal toks : (exists L, create_links toks = Ok L) <-> bal toks.
Proof. rewrite create_links_simple. apply simple_links_ok_iff_bal. Qed.

Lemma create_links_links toks L : create_links toks = Ok L ->
  (forall o c, In (o, c) L -> o < c /\ c < length toks /\
     exists b, nth_error toks o = Some (TOpen b) /\ nth_error toks c = Some (TClose b)) /\
  (forall k t, nth_error toks k = Some t -> is_bracket t = true ->
     In k (map fst L) \/ In k (map snd L)) /\
  NoDup (map fst L ++ map snd L).
Proof.
  rewrite create_links_simple. intros H.
  destruct (simple_links_links _ _ H) as (Hl & Hc). split; [exact Hl|split].
  - intros k t Hn Hb.
    assert (Hk : k < length toks) by (apply nth_error_Some; congruence).
    destruct (Hc k t Hk Hn Hb) as [[]|Hin]; exact Hin.
  - apply (simple_links_nodup _ _ H).
Qed.

Lemma create_links_rejects toks : ~ bal toks -> exists k, create_links toks = Unmatched k /\ k < length toks.
Proof.
  rewrite create_links_simple. intros Hnb.
  destruct (simple_links_cases toks) as [HL|(k & Hk)].
  - exfalso. apply Hnb, simple_links_ok_iff_bal, HL.
  - exists k. split; [exact Hk|apply simple_links_unmatched_range, Hk].
Qed.
