From CV Require Import Robust.Funnel Robust.Gen_Funnel.

(* finite: fifteen classes; the handler lists are the generated ones *)
Definition all_cls : list cls :=
  [CInternalError; CTerminate; CStdException; CRuntimeError; COverflowError; CRangeError; CSystemError;
   CLogicError; COutOfRange; CInvalidArgument; CLengthError; CDomainError; CBadAlloc; CBadCast; CEllipsis].

Lemma all_cls_complete c : In c all_cls.
Proof. destruct c; simpl; tauto. Qed.

Definition fate_eqb (a b : fate) : bool :=
  match a, b with
  | Escapes, Escapes => true
  | Handled Report, Handled Report | Handled Internal, Handled Internal | Handled Silent, Handled Silent
  | Handled Rethrow, Handled Rethrow | Handled Other, Handled Other => true
  | _, _ => false
  end.

Lemma fate_eqb_eq a b : fate_eqb a b = true -> a = b.
Proof. destruct a as [[]|], b as [[]|]; simpl; intros H; try reflexivity; discriminate. Qed.

Definition funnel_ok (c : cls) : bool :=
  negb (documented c) ||
  (forallb (fun hs => fate_eqb (nested terminate_base internal_base [hs; file_handlers] c) (Handled (promised c))) config_handlers
   && fate_eqb (nested terminate_base internal_base [file_handlers] c) (Handled (promised c))
   && fate_eqb (nested terminate_base internal_base [clang_handlers] c) (Handled (promised c))).

Lemma funnel_sweep : forallb funnel_ok all_cls = true.
Proof. vm_compute. reflexivity. Qed.

Lemma funnel_documented c : documented c = true ->
  (forall hs, In hs config_handlers ->
     nested terminate_base internal_base [hs; file_handlers] c = Handled (promised c)) /\
  nested terminate_base internal_base [file_handlers] c = Handled (promised c) /\
  nested terminate_base internal_base [clang_handlers] c = Handled (promised c).
Proof.
  intros Hd. pose proof (proj1 (forallb_forall _ _) funnel_sweep c (all_cls_complete c)) as H.
  unfold funnel_ok in H. rewrite Hd in H. cbn [negb orb] in H.
  apply andb_prop in H. destruct H as (H & H3). apply andb_prop in H. destruct H as (H1 & H2).
  split; [|split; apply fate_eqb_eq; assumption].
  intros hs Hin. apply fate_eqb_eq. exact (proj1 (forallb_forall _ _) H1 hs Hin).
Qed.

(* dispatch is [except.handle]'s rule: the first handler, in order, that matches *)
Lemma dispatch_first_match tb ib hs c a :
  dispatch tb ib hs c = Handled a <->
  exists pre h post, hs = pre ++ (h, a) :: post /\ matches tb ib h c = true /\
                     forall h' a', In (h', a') pre -> matches tb ib h' c = false.
Proof.
  split.
  - induction hs as [|[h0 a0] hs IH]; simpl; [discriminate|].
    destruct (matches tb ib h0 c) eqn:E.
    + intros H; injection H as ->. exists [], h0, hs. split; [reflexivity|split; [exact E|intros ? ? []]].
    + intros H. destruct (IH H) as (pre & h & post & -> & Hm & Hpre).
      exists ((h0, a0) :: pre), h, post. split; [reflexivity|split; [exact Hm|]].
      intros h' a' [Heq|Hin]; [injection Heq as <- <-; exact E|exact (Hpre h' a' Hin)].
  - intros (pre & h & post & -> & Hm & Hpre).
    induction pre as [|[h0 a0] pre IH]; simpl.
    + rewrite Hm. reflexivity.
    + rewrite (Hpre h0 a0 (or_introl eq_refl)). apply IH. intros h' a' Hin. apply (Hpre h' a'). right; exact Hin.
Qed.

Lemma dispatch_escapes tb ib hs c :
  dispatch tb ib hs c = Escapes <-> forall h a, In (h, a) hs -> matches tb ib h c = false.
Proof.
  induction hs as [|[h0 a0] hs IH]; simpl.
  - split; [intros _ ? ? []|reflexivity].
  - destruct (matches tb ib h0 c) eqn:E.
    + split; [discriminate|]. intros H. rewrite (H h0 a0 (or_introl eq_refl)) in E. discriminate.
    + rewrite IH. split.
      * intros H h a [Heq|Hin]; [injection Heq as <- <-; exact E|exact (H h a Hin)].
      * intros H h a Hin. apply (H h a). right; exact Hin.
Qed.
