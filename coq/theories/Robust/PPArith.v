(* C13 (the part that is logic): arithmetic of the #if constant folder in its own code
   (simplecpp::TokenList::constFoldMulDivRem / constFoldAddSub / constFoldShift).

   The folder computes on `long long`.  A built-in operator whose mathematical result is not
   representable, a division by zero, LLONG_MIN / -1 (and % -1) and a shift by a negative or
   too large count are undefined behaviour in C++ ([expr]/4, [expr.mul]/4, [expr.shift]);
   the first ones trap on x86.  The model gives the folder's own arithmetic three outcomes --
   a value, the std::overflow_error it throws (reported as a finding), or UB -- so that the
   absence of UB is a theorem about the guards. *)
From Coq Require Export ZArith Bool Lia List.
Export ListNotations.
Local Open Scope Z_scope.

Definition MINLL : Z := - 9223372036854775808.
Definition MAXLL : Z := 9223372036854775807.
Definition TWO64 : Z := 18446744073709551616.
Definition in_ll (z : Z) : bool := (MINLL <=? z) && (z <=? MAXLL).

Inductive aop := AMul | ADiv | ARem | AAdd | ASub | AShl | AShr.
Inductive aout := AVal (z : Z) | AThrow | AUB.

(* static_cast<long long>(static_cast<unsigned long long>(a) OP static_cast<unsigned long long>(b)):
   arithmetic modulo 2^64, read back as two's complement *)
Definition wrap (z : Z) : Z :=
  let m := z mod TWO64 in if m <=? MAXLL then m else m - TWO64.

(* the built-in operator on long long operands *)
Definition cxx (o : aop) (a b : Z) : aout :=
  let chk r := if in_ll r then AVal r else AUB in
  match o with
  | AMul => chk (a * b)
  | AAdd => chk (a + b)
  | ASub => chk (a - b)
  | ADiv => if b =? 0 then AUB else chk (Z.quot a b)
  | ARem => if b =? 0 then AUB else if in_ll (Z.quot a b) then AVal (Z.rem a b) else AUB
  | AShl => if (b <? 0) || (64 <=? b) || (a <? 0) || (TWO64 <=? a * 2 ^ b) then AUB else AVal (wrap (a * 2 ^ b))
      (* C++11 [expr.shift]/2 (DR 1457): a non-negative value whose product fits the unsigned type is
         converted to the result type; anything else is undefined *)
  | AShr => if (b <? 0) || (64 <=? b) then AUB else AVal (Z.shiftr a b)
  end.

(* what the folder does with `a o b` *)
Definition fold (o : aop) (a b : Z) : aout :=
  match o with
  | AMul => AVal (wrap (a * b))
  | AAdd => AVal (wrap (a + b))
  | ASub => AVal (wrap (a - b))
  | ADiv | ARem =>
      if b =? 0 then AThrow                                    (* "division/modulo by zero" *)
      else if (b =? -1) && (a =? MINLL) then AThrow            (* "division overflow" *)
      else cxx o a b
  | AShl | AShr => cxx o a b                                    (* no guard *)
  end.

Definition guarded (o : aop) : bool :=
  match o with AShl | AShr => false | _ => true end.
