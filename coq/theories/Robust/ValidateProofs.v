From CV Require Import Robust.Validate.
Local Notation suc := Datatypes.S.

Lemma open_not_close t : is_open t = true -> is_close t = false.
Proof. destruct t as [[] l]; simpl; intros H; try discriminate; reflexivity. Qed.

(* invariant over the processed prefix of length n with the stack K *)
Record inv (all : list vtok) (n : nat) (K : list nat) : Prop := {
  inv_stack : forall o, In o K -> o < n /\ exists t, nth_error all o = Some t /\ is_open t = true;
  inv_open : forall i t, i < n -> nth_error all i = Some t -> is_open t = true -> ~ In i K ->
     exists j t', snd t = Some j /\ i < j /\ nth_error all j = Some t' /\ is_close t' = true /\ snd t' = Some i;
  inv_close : forall i t, i < n -> nth_error all i = Some t -> is_close t = true ->
     exists j t', snd t = Some j /\ j < i /\ nth_error all j = Some t' /\ is_open t' = true /\ snd t' = Some i;
  inv_other : forall i t, i < n -> nth_error all i = Some t -> is_open t = false -> is_close t = false -> snd t = None;
  inv_fresh : forall i, n <= i -> ~ In i K
}.

Lemma vrun_sound all : forall r pre K,
  all = pre ++ r -> inv all (length pre) K -> vrun all K (length pre) r = VOk -> inv all (length all) [].
Proof.
  induction r as [|t r IH]; intros pre K Hall Hinv H.
  - cbn [vrun] in H. destruct K; [|discriminate]. rewrite Hall, app_nil_r. rewrite Hall, app_nil_r in Hinv. exact Hinv.
  - assert (Hnth : nth_error all (length pre) = Some t).
    { rewrite Hall, nth_error_app2, Nat.sub_diag by lia. reflexivity. }
    assert (Hall' : all = (pre ++ [t]) ++ r) by (rewrite <- app_assoc; exact Hall).
    assert (Hlen : length (pre ++ [t]) = suc (length pre)) by (rewrite app_length; simpl; lia).
    destruct Hinv as [Hs Ho Hc Hx Hf].
    cbn [vrun] in H. destruct (is_open t) eqn:Eo.
    + destruct (snd t) as [j|] eqn:El; [|discriminate].
      apply (IH (pre ++ [t]) (length pre :: K) Hall'); rewrite ?Hlen; [|exact H]. constructor.
      * intros o [<-|Hin]; [split; [lia|exists t; auto]|]. destruct (Hs o Hin) as (? & ?). split; [lia|assumption].
      * intros i t0 Hi Hn Hop Hnin. apply (Ho i t0); try assumption.
        -- destruct (Nat.eq_dec i (length pre)) as [->|]; [exfalso; apply Hnin; left; reflexivity|lia].
        -- intros Hin; apply Hnin; right; exact Hin.
      * intros i t0 Hi Hn Hcl. destruct (Nat.eq_dec i (length pre)) as [->|].
        -- rewrite Hnth in Hn. injection Hn as <-. rewrite (open_not_close _ Eo) in Hcl. discriminate.
        -- apply (Hc i t0); try assumption; lia.
      * intros i t0 Hi Hn Hop Hcl. destruct (Nat.eq_dec i (length pre)) as [->|].
        -- rewrite Hnth in Hn. injection Hn as <-. congruence.
        -- apply (Hx i t0); try assumption; lia.
      * intros i Hi [<-|Hin]; [lia|]. apply (Hf i); [lia|exact Hin].
    + destruct (is_close t) eqn:Ec.
      * destruct (snd t) as [j|] eqn:El; [|discriminate].
        destruct K as [|o K']; [discriminate|].
        destruct (Nat.eqb j o) eqn:Ejo; [|discriminate]. apply Nat.eqb_eq in Ejo; subst j. cbn [negb] in H.
        destruct (link_at all o) as [b|] eqn:Elo; [|discriminate].
        destruct (Nat.eqb b (length pre)) eqn:Eb; [|discriminate]. apply Nat.eqb_eq in Eb; subst b.
        destruct (Hs o (or_introl eq_refl)) as (Holt & to & Hno & Hoo).
        assert (Hlo : snd to = Some (length pre)) by (unfold link_at in Elo; rewrite Hno in Elo; exact Elo).
        apply (IH (pre ++ [t]) K' Hall'); rewrite ?Hlen; [|exact H]. constructor.
        -- intros o' Hin. destruct (Hs o' (or_intror Hin)) as (? & ?). split; [lia|assumption].
        -- intros i t0 Hi Hn Hop Hnin. destruct (Nat.eq_dec i o) as [->|Hne].
           ++ rewrite Hno in Hn. injection Hn as <-. exists (length pre), t. repeat split; assumption.
           ++ destruct (Nat.eq_dec i (length pre)) as [->|].
              ** rewrite Hnth in Hn. injection Hn as <-. congruence.
              ** apply (Ho i t0); try assumption; [lia|]. intros [E|Hin]; [congruence|exact (Hnin Hin)].
        -- intros i t0 Hi Hn Hcl. destruct (Nat.eq_dec i (length pre)) as [->|].
           ++ rewrite Hnth in Hn. injection Hn as <-. exists o, to. repeat split; assumption.
           ++ apply (Hc i t0); try assumption; lia.
        -- intros i t0 Hi Hn Hop Hcl. destruct (Nat.eq_dec i (length pre)) as [->|].
           ++ rewrite Hnth in Hn. injection Hn as <-. congruence.
           ++ apply (Hx i t0); try assumption; lia.
        -- intros i Hi Hin. apply (Hf i); [lia|right; exact Hin].
      * destruct (snd t) eqn:El; [discriminate|].
        apply (IH (pre ++ [t]) K Hall'); rewrite ?Hlen; [|exact H]. constructor.
        -- intros o Hin. destruct (Hs o Hin) as (? & ?). split; [lia|assumption].
        -- intros i t0 Hi Hn Hop Hnin. destruct (Nat.eq_dec i (length pre)) as [->|].
           ++ rewrite Hnth in Hn. injection Hn as <-. congruence.
           ++ apply (Ho i t0); try assumption; lia.
        -- intros i t0 Hi Hn Hcl. destruct (Nat.eq_dec i (length pre)) as [->|].
           ++ rewrite Hnth in Hn. injection Hn as <-. congruence.
           ++ apply (Hc i t0); try assumption; lia.
        -- intros i t0 Hi Hn Hop Hcl. destruct (Nat.eq_dec i (length pre)) as [->|].
           ++ rewrite Hnth in Hn. injection Hn as <-. exact El.
           ++ apply (Hx i t0); try assumption; lia.
        -- intros i Hi Hin. apply (Hf i); [lia|exact Hin].
Qed.

Lemma validate_sound all : validate all = VOk -> intact all.
Proof.
  intros H. assert (Hi : inv all (length all) []).
  { apply (vrun_sound all all [] [] eq_refl); [|exact H]. constructor; simpl; try (intros; lia); try tauto. }
  destruct Hi as [Hs Ho Hc Hx Hf]. split; [|split].
  - intros i t Hn Hop. apply (Ho i t); try assumption; [apply nth_error_Some; congruence|tauto].
  - intros i t Hn Hcl. apply (Hc i t); try assumption. apply nth_error_Some; congruence.
  - intros i t Hn Hop Hcl. apply (Hx i t); try assumption. apply nth_error_Some; congruence.
Qed.

(* a rejected list is rejected at a token of the list *)
Lemma vrun_err_range all : forall r K i k,
  (forall o, In o K -> o < i) -> vrun all K i r = VErr k -> k < i + length r.
Proof.
  induction r as [|t r IH]; intros K i k HK H; cbn [vrun] in H.
  - destruct K as [|o K]; [discriminate|]. injection H as <-. simpl. specialize (HK o (or_introl eq_refl)). lia.
  - cbn [length]. destruct (is_open t).
    + destruct (snd t); [|injection H as <-; lia].
      apply IH in H; [lia|]. intros o [<-|Hin]; [lia|]. specialize (HK o Hin). lia.
    + destruct (is_close t).
      * destruct (snd t) as [j|]; [|injection H as <-; lia].
        destruct K as [|o K']; [injection H as <-; lia|].
        destruct (negb (Nat.eqb j o)); [injection H as <-; lia|].
        destruct (link_at all j) as [b|]; [|injection H as <-; lia].
        destruct (Nat.eqb b i); [|injection H as <-; lia].
        apply IH in H; [lia|]. intros o' Hin. specialize (HK o' (or_intror Hin)). lia.
      * destruct (snd t); [injection H as <-; lia|].
        apply IH in H; [lia|]. intros o Hin. specialize (HK o Hin). lia.
Qed.

Lemma validate_err_range all k : validate all = VErr k -> k < length all.
Proof. intros H. apply (vrun_err_range all all [] 0 k); [intros o []|exact H]. Qed.
