(* Entry point for the extracted executable of C13: decodes cases, runs the model. *)
From CV Require Import Base.Bytes Robust.Links.
Local Open Scope N_scope.

Definition BAD : list str := [[66]].    (* "B": malformed case *)

(* linkBrackets looks at token->str()[0] only *)
Definition tk_of (s : str) : tk :=
  match s with
  | 123 :: _ => TOpen Brace | 125 :: _ => TClose Brace
  | 40 :: _ => TOpen Paren | 41 :: _ => TClose Paren
  | 91 :: _ => TOpen Brack | 93 :: _ => TClose Brack
  | _ => TOther
  end.

Fixpoint partner (ls : list (nat * nat)) (i : nat) : option nat :=
  match ls with
  | [] => None
  | (o, c) :: r => if Nat.eqb o i then Some c else if Nat.eqb c i then Some o else partner r i
  end.

Definition show_nat (n : nat) : str := dec_of_N (N.of_nat n).

Definition show_outcome (n : nat) (o : outcome) : list str :=
  match o with
  | Ok ls => [111; 107] :: map (fun i => match partner ls i with Some j => show_nat j | None => [45] end) (seq 0 n)
  | Unmatched i => [[69]; show_nat i]
  | UB => [[85; 66]]
  end.

(* "links" tok... -> "ok" partner-or-"-" per token | "E" index | "UB"
   "simple" tok... -> the same through the one-stack algorithm
   "bal" tok...    -> "1" if accepted *)
Definition run (l : list str) : list str :=
  match l with
  | tag :: toks =>
      if str_eqb tag [108; 105; 110; 107; 115] then
        show_outcome (length toks) (create_links (map tk_of toks))
      else if str_eqb tag [115; 105; 109; 112; 108; 101] then
        show_outcome (length toks) (simple_links (map tk_of toks))
      else BAD
  | [] => BAD
  end.
