(* Entry point for the extracted executable of C13: decodes cases, runs the model. *)
From CV Require Import Base.Bytes Robust.Links Robust.Validate Robust.PPArith.
Local Open Scope N_scope.

Definition BAD : list str := [[66]].    (* "B": malformed case *)

(* linkBrackets looks at token->str()[0] only *)
Definition tk_of (s : str) : tk :=
  match s with
  | 123 :: _ => TOpen Brace | 125 :: _ => TClose Brace
  | 40 :: _ => TOpen Paren | 41 :: _ => TClose Paren
  | 91 :: _ => TOpen Brack | 93 :: _ => TClose Brack
  | _ => TOther
  end.

Definition show_nat (n : nat) : str := dec_of_N (N.of_nat n).

Definition show_outcome (n : nat) (o : outcome) : list str :=
  match o with
  | Ok ls => [111; 107] :: map (fun i => match partner ls i with Some j => show_nat j | None => [45] end) (seq 0 n)
  | Unmatched i => [[69]; show_nat i]
  | UB => [[85; 66]]
  end.

(* Token::Match(tok, "[{([]") etc. compare the whole string *)
Definition vk_of (s : str) : vk :=
  match s with
  | [123] | [40] | [91] => VOpen
  | [125] | [41] | [93] => VClose
  | [60] => VLt
  | [62] | [62; 62] => VGt
  | _ => VOther
  end.

Definition link_of (s : str) : option nat :=
  match N_of_dec s with Some n => Some (N.to_nat n) | None => None end.

Fixpoint vtoks (l : list str) : list vtok :=
  match l with
  | t :: k :: r => (vk_of t, link_of k) :: vtoks r
  | _ => []
  end.

Definition show_vres (r : vres) : list str :=
  match r with VOk => [[111; 107]] | VErr i => [[69]; show_nat i] end.

Definition aop_of (s : str) : option aop :=
  match s with
  | [42] => Some AMul | [47] => Some ADiv | [37] => Some ARem | [43] => Some AAdd | [45] => Some ASub
  | [60; 60] => Some AShl | [62; 62] => Some AShr
  | _ => None
  end.

Definition show_aout (o : aout) : list str :=
  match o with AVal z => [[86]; dec_of_Z z] | AThrow => [[88]] | AUB => [[85]] end.

(* "links" tok... -> "ok" partner-or-"-" per token | "E" index | "UB"
   "simple" tok... -> the same through the one-stack algorithm
   "ppfold" op a b -> "V" value | "X" (the folder throws) | "U" (undefined behaviour in the folder's own code)
   "validate" (tok link)... -> "ok" | "E" index   (link = index or "-") *)
Definition run (l : list str) : list str :=
  match l with
  | tag :: toks =>
      if str_eqb tag [108; 105; 110; 107; 115] then
        show_outcome (length toks) (create_links (map tk_of toks))
      else if str_eqb tag [115; 105; 109; 112; 108; 101] then
        show_outcome (length toks) (simple_links (map tk_of toks))
      else if str_eqb tag [118; 97; 108; 105; 100; 97; 116; 101] then
        show_vres (validate (vtoks toks))
      else if str_eqb tag [112; 112; 102; 111; 108; 100] then
        match toks with
        | [o; a; b] => match aop_of o, Z_of_dec a, Z_of_dec b with
                       | Some o', Some a', Some b' => show_aout (fold o' a' b')
                       | _, _, _ => BAD
                       end
        | _ => BAD
        end
      else BAD
  | [] => BAD
  end.
