(* C13 (the part that is logic): Tokenizer::createLinks / linkBrackets, lib/tokenize.cpp.

   The C++ walks the token list with four std::stack objects: `type` (every open bracket
   token seen and not yet closed, whatever its kind) and links1/2/3 (the open '{', '(' and
   '[' tokens).  For a closing bracket it throws unmatchedToken (an InternalError reported
   as the finding syntaxError) when the stack of its kind is empty or when the innermost
   open bracket has a different kind; otherwise it links the pair.  `type.top()` is called
   without an emptiness test: calling it on an empty std::stack is undefined behaviour, and
   the model makes that an outcome of its own (UB) so that its absence is a theorem.

   Every later pass dereferences tok->link() of a bracket token without a null test; that is
   memory-safe only because createLinks either throws or links every bracket. *)
From Coq Require Export List Arith Bool Lia.
Export ListNotations.

Inductive br := Brace | Paren | Brack.

Definition br_eqb (a b : br) : bool :=
  match a, b with
  | Brace, Brace | Paren, Paren | Brack, Brack => true
  | _, _ => false
  end.

(* a token, as far as linkBrackets looks at it: the first character of its string *)
Inductive tk := TOpen (b : br) | TClose (b : br) | TOther.

Inductive outcome :=
| Ok (links : list (nat * nat))      (* (open index, close index), most recent first *)
| Unmatched (i : nat)                (* unmatchedToken(token i): InternalError, SYNTAX *)
| UB.                                (* top() of an empty std::stack *)

Record st := mkSt {
  ty : list (nat * br);              (* std::stack<const Token*> type, top first *)
  l1 : list nat;                     (* links1: '{' *)
  l2 : list nat;                     (* links2: '(' *)
  l3 : list nat;                     (* links3: '[' *)
  lks : list (nat * nat)             (* Token::createMutualLinks calls so far *)
}.

Definition get (k : br) (s : st) : list nat :=
  match k with Brace => l1 s | Paren => l2 s | Brack => l3 s end.

Definition set (k : br) (v : list nat) (s : st) : st :=
  match k with
  | Brace => mkSt (ty s) v (l2 s) (l3 s) (lks s)
  | Paren => mkSt (ty s) (l1 s) v (l3 s) (lks s)
  | Brack => mkSt (ty s) (l1 s) (l2 s) v (lks s)
  end.

Definition with_ty (t : list (nat * br)) (s : st) : st := mkSt t (l1 s) (l2 s) (l3 s) (lks s).
Definition with_lks (l : list (nat * nat)) (s : st) : st := mkSt (ty s) (l1 s) (l2 s) (l3 s) l.

(* linkBrackets(tokenizer, type, links_k, token, open_k, close_k) on token number i *)
Definition link_brackets (s : st) (i : nat) (t : tk) (k : br) : st + outcome :=
  match t with
  | TOpen b =>
      if br_eqb b k then inl (with_ty ((i, b) :: ty s) (set k (i :: get k s) s)) else inl s
  | TClose b =>
      if br_eqb b k then
        match get k s with
        | [] => inr (Unmatched i)                       (* links.empty() *)
        | o :: rest =>
            match ty s with
            | [] => inr UB                                (* type.top() on an empty stack *)
            | (j, c) :: trest =>
                if br_eqb c k
                then inl (with_lks ((o, i) :: lks s) (with_ty trest (set k rest s)))
                else inr (Unmatched j)                    (* type.top()->str()[0] != open *)
            end
        end
      else inl s
  | TOther => inl s
  end.

Definition bind (r : st + outcome) (f : st -> st + outcome) : st + outcome :=
  match r with inl s => f s | inr o => inr o end.

(* the loop body: '{' '}' first, then '(' ')', then '[' ']' *)
Definition step (s : st) (i : nat) (t : tk) : st + outcome :=
  bind (link_brackets s i t Brace) (fun s1 =>
  bind (link_brackets s1 i t Paren) (fun s2 =>
  link_brackets s2 i t Brack)).

(* after the loop: links1, then links2, then links3 *)
Definition finish (s : st) : outcome :=
  match l1 s with
  | o :: _ => Unmatched o
  | [] => match l2 s with
          | o :: _ => Unmatched o
          | [] => match l3 s with
                  | o :: _ => Unmatched o
                  | [] => Ok (lks s)
                  end
          end
  end.

Fixpoint run_from (s : st) (i : nat) (toks : list tk) : outcome :=
  match toks with
  | [] => finish s
  | t :: r => match step s i t with
              | inl s' => run_from s' (S i) r
              | inr o => o
              end
  end.

Definition st0 : st := mkSt [] [] [] [] [].

Definition create_links (toks : list tk) : outcome := run_from st0 0 toks.

(* ---------- the obvious algorithm: one stack ---------- *)

Definition has_kind (k : br) (s : list (nat * br)) : bool :=
  existsb (fun e => br_eqb (snd e) k) s.

Fixpoint top_of_kind (k : br) (s : list (nat * br)) : option nat :=
  match s with
  | [] => None
  | (j, c) :: r => if br_eqb c k then Some j else top_of_kind k r
  end.

Definition finish1 (s : list (nat * br)) (ls : list (nat * nat)) : outcome :=
  match top_of_kind Brace s with
  | Some o => Unmatched o
  | None => match top_of_kind Paren s with
            | Some o => Unmatched o
            | None => match top_of_kind Brack s with
                      | Some o => Unmatched o
                      | None => Ok ls
                      end
            end
  end.

Fixpoint run1 (s : list (nat * br)) (ls : list (nat * nat)) (i : nat) (toks : list tk) : outcome :=
  match toks with
  | [] => finish1 s ls
  | TOther :: r => run1 s ls (S i) r
  | TOpen b :: r => run1 ((i, b) :: s) ls (S i) r
  | TClose b :: r =>
      if has_kind b s then
        match s with
        | (j, c) :: s' => if br_eqb c b then run1 s' ((j, i) :: ls) (S i) r else Unmatched j
        | [] => Unmatched i
        end
      else Unmatched i
  end.

Definition simple_links (toks : list tk) : outcome := run1 [] [] 0 toks.

(* ---------- the language of well-bracketed token sequences ---------- *)

Inductive bal : list tk -> Prop :=
| bal_nil : bal []
| bal_other w : bal w -> bal (TOther :: w)
| bal_pair b w1 w2 : bal w1 -> bal w2 -> bal (TOpen b :: w1 ++ TClose b :: w2).

Definition is_bracket (t : tk) : bool :=
  match t with TOther => false | _ => true end.

(* tok->link() of token i after the createMutualLinks calls ls *)
Fixpoint partner (ls : list (nat * nat)) (i : nat) : option nat :=
  match ls with
  | [] => None
  | (o, c) :: r => if Nat.eqb o i then Some c else if Nat.eqb c i then Some o else partner r i
  end.
