(* C13 (the part that is logic): Tokenizer::validate, lib/tokenize.cpp.

   After createLinks the simplification passes insert, delete and relink tokens; validate()
   is called between them (a dozen call sites) and throws cppcheckError unless the link
   structure is intact.  The model runs the same loop over tokens that carry an arbitrary
   link (an index into the list or none), so that what an accepted list guarantees is a
   theorem about every possible damage, not about the lists createLinks produces. *)
From Coq Require Export List Arith Bool Lia.
Export ListNotations.

Inductive vk := VOpen | VClose | VLt | VGt | VOther.   (* one of {([ | one of })] | "<" | ">" or ">>" | anything else *)

Definition vtok : Type := vk * option nat.              (* kind, tok->link() *)

Definition has_link (t : vtok) : bool := match snd t with Some _ => true | None => false end.

(* Token::Match(tok, "[{([]") || (tok->str() == "<" && tok->link()) *)
Definition is_open (t : vtok) : bool :=
  match fst t with VOpen => true | VLt => has_link t | _ => false end.

(* Token::Match(tok, "[})]]") || (Token::Match(tok, ">|>>") && tok->link()) *)
Definition is_close (t : vtok) : bool :=
  match fst t with VClose => true | VGt => has_link t | _ => false end.

Inductive vres := VOk | VErr (i : nat).                  (* cppcheckError(token i) *)

Definition link_at (all : list vtok) (j : nat) : option nat :=
  match nth_error all j with Some t => snd t | None => None end.

Fixpoint vrun (all : list vtok) (K : list nat) (i : nat) (r : list vtok) : vres :=
  match r with
  | [] => match K with [] => VOk | o :: _ => VErr o end
  | t :: r' =>
      if is_open t then
        match snd t with
        | None => VErr i
        | Some _ => vrun all (i :: K) (S i) r'
        end
      else if is_close t then
        match snd t with
        | None => VErr i
        | Some j =>
            match K with
            | [] => VErr i                                   (* linkTokens.empty() *)
            | o :: K' =>
                if negb (Nat.eqb j o) then VErr i            (* tok->link() != linkTokens.top() *)
                else match link_at all j with                (* tok != tok->link()->link() *)
                     | Some b => if Nat.eqb b i then vrun all K' (S i) r' else VErr i
                     | None => VErr i
                     end
            end
        end
      else
        match snd t with
        | None => vrun all K (S i) r'
        | Some _ => VErr i                                   (* a link on a token that is no bracket *)
        end
  end.

Definition validate (all : list vtok) : vres := vrun all [] 0 all.

(* what an intact link structure is *)
Definition intact (all : list vtok) : Prop :=
  (forall i t, nth_error all i = Some t -> is_open t = true ->
     exists j t', snd t = Some j /\ i < j /\ nth_error all j = Some t' /\ is_close t' = true /\ snd t' = Some i) /\
  (forall i t, nth_error all i = Some t -> is_close t = true ->
     exists j t', snd t = Some j /\ j < i /\ nth_error all j = Some t' /\ is_open t' = true /\ snd t' = Some i) /\
  (forall i t, nth_error all i = Some t -> is_open t = false -> is_close t = false -> snd t = None).
