(* C13 (the part that is logic): where an exception raised during the analysis of a file ends.

   CppCheck::checkInternal wraps the whole analysis of one file in a try block, and the
   analysis of each configuration in an inner one; CppCheck::checkClang has its own.  A C++
   exception that no handler of the enclosing blocks matches leaves the function, and since
   neither the executors nor main() catch anything it ends the process through
   std::terminate.  The handler lists are read from lib/cppcheck.cpp on every run
   (tools/translate/funnel.py -> Gen_Funnel.v); this file holds the dispatch rule of
   [except.handle]: the first handler, in order, whose type is the thrown class or one of
   its public bases. *)
From Coq Require Export List Bool.
Export ListNotations.

Inductive cls :=
| CInternalError      (* struct InternalError, lib/errortypes.h *)
| CTerminate          (* class TerminateException *)
| CStdException | CRuntimeError | COverflowError | CRangeError | CSystemError
| CLogicError | COutOfRange | CInvalidArgument | CLengthError | CDomainError
| CBadAlloc | CBadCast
| CEllipsis.          (* only as a handler: catch (...) *)

Definition cls_eqb (a b : cls) : bool :=
  match a, b with
  | CInternalError, CInternalError | CTerminate, CTerminate | CStdException, CStdException
  | CRuntimeError, CRuntimeError | COverflowError, COverflowError | CRangeError, CRangeError
  | CSystemError, CSystemError | CLogicError, CLogicError | COutOfRange, COutOfRange
  | CInvalidArgument, CInvalidArgument | CLengthError, CLengthError | CDomainError, CDomainError
  | CBadAlloc, CBadAlloc | CBadCast, CBadCast | CEllipsis, CEllipsis => true
  | _, _ => false
  end.

(* what a handler does with the exception *)
Inductive action :=
| Report      (* mErrorLogger.reportErr(ErrorMessage::fromInternalError(e, ...)): a finding with the exception's id *)
| Internal    (* internalError(file, ...): the finding internalError *)
| Silent      (* nothing reported (TerminateException: the analysis was stopped on request) *)
| Rethrow     (* throw; *)
| Other.      (* anything else: not understood by the translator's classification *)

Inductive fate := Handled (a : action) | Escapes.

Section Hierarchy.
  (* public bases of cppcheck's own classes, read from lib/errortypes.h *)
  Variable terminate_base : option cls.
  Variable internal_base : option cls.

  Definition base (c : cls) : option cls :=
    match c with
    | CInternalError => internal_base
    | CTerminate => terminate_base
    | CStdException => None
    | CRuntimeError | CLogicError | CBadAlloc | CBadCast => Some CStdException
    | COverflowError | CRangeError | CSystemError => Some CRuntimeError
    | COutOfRange | CInvalidArgument | CLengthError | CDomainError => Some CLogicError
    | CEllipsis => None
    end.

  (* c is h or derives from h; the hierarchy above has depth 3, user bases add one *)
  Fixpoint is_a (fuel : nat) (c h : cls) : bool :=
    cls_eqb c h ||
    match fuel with
    | O => false
    | S f => match base c with Some b => is_a f b h | None => false end
    end.

  Definition matches (h c : cls) : bool :=
    match h with CEllipsis => true | _ => is_a 6 c h end.

  Fixpoint dispatch (hs : list (cls * action)) (c : cls) : fate :=
    match hs with
    | [] => Escapes
    | (h, a) :: r => if matches h c then Handled a else dispatch r c
    end.

  (* an exception raised inside nested try blocks, innermost first; Rethrow passes it on *)
  Fixpoint nested (blocks : list (list (cls * action))) (c : cls) : fate :=
    match blocks with
    | [] => Escapes
    | hs :: outer => match dispatch hs c with
                     | Escapes | Handled Rethrow => nested outer c
                     | f => f
                     end
    end.
End Hierarchy.

(* the classes the analysis raises on purpose and documents as ending in a finding:
   InternalError (syntaxError, internalAstError, unknownMacro, cppcheckLimit, ...),
   TerminateException, std::runtime_error (simplecpp and library code; overflow_error is
   simplecpp's division by zero) and std::bad_alloc *)
Definition documented (c : cls) : bool :=
  match c with
  | CInternalError | CTerminate | CRuntimeError | COverflowError | CBadAlloc => true
  | _ => false
  end.

(* what the property promises for each of them *)
Definition promised (c : cls) : action :=
  match c with
  | CInternalError => Report
  | CTerminate => Silent
  | _ => Internal
  end.
