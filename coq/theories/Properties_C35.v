(* C35  Clang-AST import yields a consistent program model (partial: the declaration map).
   Statements only; every proof is `exact <lemma>`. *)
From CV Require Import Base.Bytes Clang.Defs Clang.Proofs Clang.SeqProofs.
Local Open Scope N_scope.

(* for every op sequence and address: mDeclMap holds the FIRST declaration of the address *)
Theorem C35_decl_first_wins ops a : lookup a (c_decls (run_cops ops)) = first_decl a ops.
Proof. exact (decl_first_wins ops a). Qed.
Print Assumptions C35_decl_first_wins.

(* mVarId counts the variable declarations: the k-th varDecl hands out id k *)
Theorem C35_varids_distinct_counter ops : c_vid (run_cops ops) = count_vars ops.
Proof. exact (varid_counter ops). Qed.
Print Assumptions C35_varids_distinct_counter.

Theorem C35_varids_distinct_next s a d :
  lookup a (c_pending s) = None -> ti_varid (c_tok (do_var a d s) d) = c_vid s + 1.
Proof. exact (var_decl_id s a d). Qed.
Print Assumptions C35_varids_distinct_next.

(* refs_resolved, step by step (partial: the stability of a bound token under the remaining
   ops of the sequence is not proved, it is exercised by the correspondence run):
   a reference after the declaration binds to the declaration the map holds (the first one) *)
Theorem C35_refs_resolved_after_partial a t s d :
  lookup a (c_decls s) = Some d ->
  bound d (c_tok (do_ref a t s)) t /\ c_pending (do_ref a t s) = c_pending s.
Proof. exact (ref_after_decl a t s d). Qed.
Print Assumptions C35_refs_resolved_after_partial.

(* a reference before any declaration stays pending and writes nothing *)
Theorem C35_refs_resolved_pending_partial a t s :
  lookup a (c_decls s) = None ->
  (exists toks, lookup a (c_pending (do_ref a t s)) = Some toks /\ In t toks) /\
  c_tok (do_ref a t s) = c_tok s.
Proof. exact (ref_before_decl a t s). Qed.
Print Assumptions C35_refs_resolved_pending_partial.

(* the declaration step binds every waiting reference of its address to the declaration the
   map then holds - the new one when the address was not declared before - and empties the queue *)
Theorem C35_refs_resolved_before_partial s o a d0 toks :
  decl_of o = Some (a, d0) -> d0 <> DScope ->
  lookup a (c_pending s) = Some toks ->
  exists d, lookup a (c_decls (step s o)) = Some d /\
            (lookup a (c_decls s) = None -> d = d0) /\
            (forall t, In t toks -> bound d (c_tok (step s o)) t) /\
            lookup a (c_pending (step s o)) = None.
Proof. exact (decl_step_resolves_waiting s o a d0 toks). Qed.
Print Assumptions C35_refs_resolved_before_partial.

(* refs_resolved for whole sequences: with a fresh token per op (as the import creates them), every
   reference of the sequence ends carrying the FIRST declaration of its address, whether that
   declaration stands before or after the reference (for a variable: the variable and the varId
   of its name token), and is still waiting in mNotFound when the address is never declared *)
Theorem C35_refs_resolved ops a t :
  fresh ops -> In (CRef a t) ops ->
  match first_decl a ops with
  | Some d => bound d (c_tok (run_cops ops)) t
  | None => pend a t (run_cops ops)
  end.
Proof. exact (refs_resolved ops a t). Qed.
Print Assumptions C35_refs_resolved.

Example C35_fresh_inhabited : fresh [CRef 7 0; CVar 7 1; CRef 7 2; CVar 7 3; CScope 8; CRef 9 4].
Proof. unfold fresh. cbn. repeat constructor; cbn; intuition discriminate. Qed.

(* non-vacuity: use before declaration, duplicate address, scope declaration in between *)
Example C35_use_before_decl :
  let s := run_cops [CRef 7 0; CVar 7 1; CRef 7 2; CVar 7 3] in
  ti_var (c_tok s 0) = Some 1 /\ ti_varid (c_tok s 0) = 1 /\ ti_var (c_tok s 2) = Some 1 /\
  ti_varid (c_tok s 3) = 2 /\ c_pending s = [].
Proof. vm_compute. repeat split; reflexivity. Qed.
(* the code as it is: scopeDecl does not flush, so a reference can wait for a declared address *)
Example C35_scope_does_not_flush :
  let s := run_cops [CRef 7 0; CScope 7] in
  lookup 7 (c_decls s) = Some DScope /\ lookup 7 (c_pending s) = Some [0].
Proof. vm_compute. split; reflexivity. Qed.
