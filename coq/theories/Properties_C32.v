(* C32  Compilation-database import reproduces the compiler's options.
   Statements only; the proofs are in Import/CollectProofs.v, ParseProofs.v, DefinesProofs.v.
   Model: Import/Defs.v (collect_args, parse_args, fs_set_defines, fs_set_includes, import_entry, cfg_macros).
   Specification: Import/Spec.v (sh_words, shlex_join, cmake_join, gcc_toks, gcc_macros). *)
From CV Require Import Base.Bytes Import.Defs Import.Spec Import.CollectProofs Import.ParseProofs Import.DefinesProofs.
Local Open Scope N_scope.

(* ---- command strings ---- *)

(* every argument vector without empty words survives shlex.join + collectArgs (all bytes, NUL included) *)
Theorem C32_collect_shlex_roundtrip : forall args,
  Forall (fun a => a <> []) args -> collect_args (shlex_join args) = Some args.
Proof. exact collect_shlex_roundtrip. Qed.
Print Assumptions C32_collect_shlex_roundtrip.

(* the same for CMake's quoting, provided no argument contains '$' or '`' *)
Theorem C32_collect_cmake_roundtrip : forall args,
  Forall cmake_ok args -> collect_args (cmake_join args) = Some args.
Proof. exact collect_cmake_roundtrip. Qed.
Print Assumptions C32_collect_cmake_roundtrip.

(* ... and that proviso is needed: CMake writes backslash-dollar inside double quotes, collectArgs keeps the backslash *)
Theorem C32_collect_cmake_dollar_refuted :
  exists args, Forall (fun a => a <> []) args /\ sh_words (cmake_join args) = ShOk args /\
               collect_args (cmake_join args) <> Some args.
Proof. exact collect_cmake_dollar_refuted. Qed.
Print Assumptions C32_collect_cmake_dollar_refuted.

(* the specification itself: a POSIX shell reads shlex.join's output back as the vector (all vectors) *)
Theorem C32_sh_words_shlex_join : forall args, sh_words (shlex_join args) = ShOk args.
Proof. exact sh_words_shlex_join. Qed.
Print Assumptions C32_sh_words_shlex_join.

(* collectArgs = POSIX word splitting (minus empty words) on every command in the expansion-free
   sublanguage whose blanks are spaces and whose backslashes stand before characters that both read alike *)
Theorem C32_collect_eq_sh_words_under : forall cmd ws,
  sh_words cmd = ShOk ws -> simple cmd QNone = true -> collect_args cmd = Some (filter nonempty ws).
Proof. exact collect_eq_sh_words_under. Qed.
Print Assumptions C32_collect_eq_sh_words_under.

Example C32_simple_inhabited :
  let cmd := lit "gcc ""-DS=\""a b\"""" '-Ix y' ""-DT=c:\dir"" a.c"%string in
  simple cmd QNone = true /\ exists ws, sh_words cmd = ShOk ws /\ length ws = 5%nat.
Proof. split; [vm_compute; reflexivity|eexists; split; vm_compute; reflexivity]. Qed.

Theorem C32_collect_tab_refuted : differs (lit "gcc" ++ [9] ++ lit "-DX")%string.
Proof. exact collect_tab_refuted. Qed.
Theorem C32_collect_backslash_plain_refuted : differs (lit "gcc -DA=a\nb")%string.
Proof. exact collect_backslash_plain_refuted. Qed.
Theorem C32_collect_backslash_dq_refuted : differs ([34] ++ lit "-DA=a\ b" ++ [34])%string.
Proof. exact collect_backslash_dq_refuted. Qed.
Theorem C32_collect_empty_word_refuted :
  exists cmd ws, sh_words cmd = ShOk ws /\ collect_args cmd <> Some ws.
Proof. exact collect_empty_word_refuted. Qed.
Print Assumptions C32_collect_tab_refuted.

(* ---- argument vectors ---- *)

(* when GCC accepts the vector and every word that GCC does not read as -I/-D/-U/-isystem/-std= is inert
   (starts with none of -I /I -isystem -D /D -U /U -std= /std:, is none of -f -m -fpic -fPIC -fpie -fPIE -municode),
   parseArgs yields exactly: the -I directories (first occurrences, in order), the -isystem directories,
   fsSetDefines of the -D macros, the set of -U names, the last -std= value *)
Theorem C32_parse_args_exact : forall argv toks,
  gcc_toks argv = Some toks -> forallb tok_ok toks = true ->
  exists s, parse_args argv = Some s /\
    p_incs s = dedup (tok_incs toks) /\
    p_sys s = tok_sys toks /\
    p_defs s = fs_set_defines (defs_string (tok_defs toks)) /\
    p_undefs s = sort_set (tok_undefs toks) /\
    p_std s = tok_std toks.
Proof. exact parse_args_exact. Qed.
Print Assumptions C32_parse_args_exact.

Example C32_parse_args_pic_outside_hypothesis :
  let argv := [lit "/usr/bin/cc"; lit "-DX=1"; lit "-D"; lit "Y"; lit "-Iinc"; lit "-I"; lit "inc2"; lit "-UZ";
               lit "-isystem"; lit "/s"; lit "-std=gnu11"; lit "-O2"; lit "-fPIC"%string; lit "-MD"; lit "-MF"; lit "a.d";
               lit "-o"; lit "a.o"; lit "-c"; lit "src/a.c"]%string in
  exists toks, gcc_toks argv = Some toks /\ forallb tok_ok toks = false.
Proof. eexists; split; vm_compute; reflexivity. Qed.

Example C32_parse_args_exact_inhabited :
  let argv := [lit "/usr/bin/cc"; lit "-DX=1"; lit "-D"; lit "Y"; lit "-Iinc"; lit "-I"; lit "inc2"; lit "-UZ";
               lit "-isystem"; lit "/s"; lit "-std=gnu11"; lit "-O2"; lit "-fno-common"; lit "-MD"; lit "-MF"; lit "a.d";
               lit "-o"; lit "a.o"; lit "-c"; lit "src/a.c"]%string in
  exists toks, gcc_toks argv = Some toks /\ forallb tok_ok toks = true.
Proof. eexists; split; vm_compute; reflexivity. Qed.

(* the table of two-word options itself satisfies the hypothesis *)
Example C32_two_word_inert : forallb inert two_word = true.
Proof. vm_compute. reflexivity. Qed.

(* the hypothesis is needed *)
Theorem C32_parse_args_output_operand_refuted : misread [lit "gcc"; lit "-o"; lit "-Dx.o"; lit "a.c"]%string.
Proof. exact parse_args_output_operand_refuted. Qed.
Theorem C32_parse_args_include_operand_refuted : misread [lit "gcc"; lit "-include"; lit "-Ifoo.h"; lit "a.c"]%string.
Proof. exact parse_args_include_operand_refuted. Qed.
Theorem C32_parse_args_abs_path_refuted : misread [lit "gcc"; lit "-c"; lit "/Data/src/a.c"]%string.
Proof. exact parse_args_abs_path_refuted. Qed.
Theorem C32_parse_args_abs_path_undef_refuted : misread [lit "/Users/me/bin/cc"; lit "-c"; lit "a.c"]%string.
Proof. exact parse_args_abs_path_undef_refuted. Qed.
Print Assumptions C32_parse_args_abs_path_refuted.

(* ---- the define list ---- *)

(* for every list of ordinary -D arguments (non-empty, no ';', not starting with ; = ( %):
   the ';'-joined list, with =1 appended to the macros that have neither '=' nor '(' *)
Theorem C32_defines_normal_form : forall l,
  Forall (fun d => def_ok d = true) l -> fs_set_defines (defs_string l) = join_semi (map norm_def l).
Proof. exact defines_normal_form. Qed.
Print Assumptions C32_defines_normal_form.

Example C32_defines_normal_form_inhabited :
  Forall (fun d => def_ok d = true) [lit "X"; lit "Y=2"; lit "F(a)=a+1"; lit "S=""a b"""]%string.
Proof. repeat constructor. Qed.

Theorem C32_defines_semicolon_refuted :
  exists argv toks s, gcc_toks argv = Some toks /\ forallb tok_ok toks = true /\ parse_args argv = Some s /\
    tbl_get (lit "b"%string) (cfg_macros (p_defs s) (p_undefs s)) <> None /\
    gs_get (lit "b"%string) (gcc_macros toks) = None.
Proof. exact defines_semicolon_refuted. Qed.

(* ---- the macro state that the analysis sees (cfg_macros) vs the one the options specify (gcc_macros) ---- *)

Theorem C32_macro_state_undef_then_define_refuted :
  exists argv toks s, gcc_toks argv = Some toks /\ forallb tok_ok toks = true /\ parse_args argv = Some s /\
    gs_get (lit "X"%string) (gcc_macros toks) = Some (lit "X", lit "1")%string /\
    tbl_get (lit "X"%string) (cfg_macros (p_defs s) (p_undefs s)) = None.
Proof. exact macro_state_undef_then_define_refuted. Qed.

Theorem C32_macro_state_redefine_refuted :
  exists argv toks s, gcc_toks argv = Some toks /\ forallb tok_ok toks = true /\ parse_args argv = Some s /\
    gs_get (lit "X"%string) (gcc_macros toks) = Some (lit "X", lit "2")%string /\
    tbl_get (lit "X"%string) (cfg_macros (p_defs s) (p_undefs s)) = Some (lit "X", lit "1")%string.
Proof. exact macro_state_redefine_refuted. Qed.
Print Assumptions C32_macro_state_redefine_refuted.

(* ---- command string vs argument array ---- *)

Theorem C32_import_command_eq_arguments_shlex : forall dir file args,
  Forall (fun a => a <> []) args ->
  import_entry dir file (Command (shlex_join args)) = import_entry dir file (Arguments args).
Proof. exact import_command_eq_arguments_shlex. Qed.

Theorem C32_import_command_eq_arguments_cmake : forall dir file args,
  Forall cmake_ok args ->
  import_entry dir file (Command (cmake_join args)) = import_entry dir file (Arguments args).
Proof. exact import_command_eq_arguments_cmake. Qed.
Print Assumptions C32_import_command_eq_arguments_cmake.
