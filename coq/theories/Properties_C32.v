(* C32: theorems (statements only; proofs are in Import/*.v). *)
From CV Require Import Base.Bytes Import.Defs Import.Spec.
Local Open Scope N_scope.

Theorem C32_collect_tab_refuted :
  exists cmd, sh_words cmd = ShOk [lit "gcc"; lit "-DX"]%string /\ collect_args cmd <> Some [lit "gcc"; lit "-DX"]%string.
Proof. exists (lit "gcc" ++ [9] ++ lit "-DX")%string. split; [reflexivity | discriminate]. Qed.
Print Assumptions C32_collect_tab_refuted.
