(* C28  generic lemmas (independent of the generated data) *)
From CV Require Import Base.Bytes Ids.Defs.
Local Open Scope N_scope.

Lemma mem_str_In x l : mem_str x l = true <-> In x l.
Proof.
  unfold mem_str. rewrite existsb_exists. split.
  - intros [y [Hy E]]. apply str_eqb_eq in E. subst. exact Hy.
  - intros H. exists x. split; [exact H|]. apply str_eqb_eq. reflexivity.
Qed.

Lemma pair_eqb_eq a b : pair_eqb a b = true <-> a = b.
Proof.
  unfold pair_eqb. destruct a as [a1 a2], b as [b1 b2]. cbn [fst snd].
  rewrite andb_true_iff, !str_eqb_eq. split.
  - intros [-> ->]. reflexivity.
  - intros E. inversion E. auto.
Qed.

Lemma mem_pair_In x l : mem_pair x l = true <-> In x l.
Proof.
  unfold mem_pair. rewrite existsb_exists. split.
  - intros [y [Hy E]]. apply pair_eqb_eq in E. subst. exact Hy.
  - intros H. exists x. split; [exact H|]. apply pair_eqb_eq. reflexivity.
Qed.

(* the finite check decides the declarative statement, for any tables *)
Lemma all_covered_sound emitted errorlist known :
  all_covered emitted errorlist known = true ->
  forall id site, In (id, site) emitted -> In id errorlist \/ In id known.
Proof.
  unfold all_covered. intros H id site Hin.
  rewrite forallb_forall in H. specialize (H _ Hin).
  unfold covered in H. cbn [fst] in H. apply orb_true_iff in H.
  destruct H as [H|H]; apply mem_str_In in H; auto.
Qed.

Lemma all_covered_complete emitted errorlist known :
  (forall id site, In (id, site) emitted -> In id errorlist \/ In id known) ->
  all_covered emitted errorlist known = true.
Proof.
  intros H. unfold all_covered. apply forallb_forall. intros [id site] Hin.
  unfold covered. cbn [fst]. apply orb_true_iff.
  destruct (H _ _ Hin) as [A|A]; [left|right]; apply mem_str_In; exact A.
Qed.

(* `uncovered` lists exactly the counterexamples *)
Lemma uncovered_spec emitted errorlist known e :
  In e (uncovered emitted errorlist known) <->
  In e emitted /\ ~ (In (fst e) errorlist \/ In (fst e) known).
Proof.
  unfold uncovered. rewrite filter_In. unfold covered.
  split; intros [A B]; split; auto.
  - intros [C|C]; apply mem_str_In in C; rewrite C in B; [|rewrite orb_true_r in B]; discriminate.
  - apply negb_true_iff. apply orb_false_iff. split.
    + destruct (mem_str (fst e) errorlist) eqn:E; auto. exfalso. apply B. left. apply mem_str_In. exact E.
    + destruct (mem_str (fst e) known) eqn:E; auto. exfalso. apply B. right. apply mem_str_In. exact E.
Qed.

(* getMessageId: the three shapes, for every base id *)
Lemma get_message_id_cases cond safe id :
  get_message_id cond safe id = id \/
  get_message_id cond safe id = id ++ sCond \/
  get_message_id cond safe id = sSafe ++ capitalise id.
Proof. unfold get_message_id. destruct cond, safe; auto. Qed.

Lemma get_message_id_plain id : get_message_id false false id = id.
Proof. reflexivity. Qed.

Lemma message_ids_closed_sound emitted sites :
  message_ids_closed emitted sites = true ->
  forall base site cond safe, In (base, site) sites ->
  In (get_message_id cond safe base, site) emitted.
Proof.
  unfold message_ids_closed. intros H base site cond safe Hin.
  rewrite forallb_forall in H. specialize (H _ Hin).
  unfold variants_listed in H. rewrite forallb_forall in H.
  specialize (H (cond, safe)). cbn [fst snd] in H.
  apply mem_pair_In. apply H.
  destruct cond, safe; cbn; auto.
Qed.
