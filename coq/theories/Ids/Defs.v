(* C28  model: finite tables of finding ids.  No proofs here.
   The data (emitted, errorlist, known_missing, message_id_sites) are regenerated from /repo and the
   freshly built binary on every run (Gen_Ids.v, tools/translate/emit_ids.py). *)
From CV Require Import Base.Bytes.
From Coq Require Import Strings.Byte.
Local Open Scope N_scope.

(* string literals of the generated tables: "..."%bstr is a chain of Byte.byte constructors
   (one node per character keeps the generated file fast to check) *)
Inductive bstr := BNil | BCons (b : Byte.byte) (r : bstr).
Fixpoint bstr_of_list (l : list Byte.byte) : bstr :=
  match l with nil => BNil | cons b r => BCons b (bstr_of_list r) end.
Fixpoint list_of_bstr (s : bstr) : list Byte.byte :=
  match s with BNil => nil | BCons b r => cons b (list_of_bstr r) end.
Declare Scope bstr_scope.
Delimit Scope bstr_scope with bstr.
String Notation bstr bstr_of_list list_of_bstr : bstr_scope.
Fixpoint of_bstr (s : bstr) : str :=
  match s with BNil => [] | BCons b r => Byte.to_N b :: of_bstr r end.

Definition mem_str (x : str) (l : list str) : bool := existsb (str_eqb x) l.

(* an emitted (id, site) is covered when --errorlist has the id or it is a recorded known finding *)
Definition covered (errorlist known : list str) (e : str * str) : bool :=
  mem_str (fst e) errorlist || mem_str (fst e) known.

Definition all_covered (emitted : list (str * str)) (errorlist known : list str) : bool :=
  forallb (covered errorlist known) emitted.

Definition uncovered (emitted : list (str * str)) (errorlist known : list str) : list (str * str) :=
  filter (fun e => negb (covered errorlist known e)) emitted.

(* lib/check.cpp Check::getMessageId(value, id):
     if (value.condition) return id + "Cond";
     if (value.safe)      return "safe" + toupper(id[0]) + (id + 1);
     return id;
   (id non-empty, as at every call site) *)
Definition sCond : str := [67;111;110;100].     (* "Cond" *)
Definition sSafe : str := [115;97;102;101].     (* "safe" *)

Definition capitalise (s : str) : str :=
  match s with [] => [] | c :: r => to_upper c :: r end.

Definition get_message_id (cond safe : bool) (id : str) : str :=
  if cond then id ++ sCond
  else if safe then sSafe ++ capitalise id
  else id.

Definition pair_eqb (a b : str * str) : bool := str_eqb (fst a) (fst b) && str_eqb (snd a) (snd b).
Definition mem_pair (x : str * str) (l : list (str * str)) : bool := existsb (pair_eqb x) l.

(* every variant getMessageId can produce for a base id used at `site` is listed for that site *)
Definition variants_listed (emitted : list (str * str)) (bs : str * str) : bool :=
  forallb (fun cs : bool * bool => mem_pair (get_message_id (fst cs) (snd cs) (fst bs), snd bs) emitted)
          [(false,false); (false,true); (true,false); (true,true)].

Definition message_ids_closed (emitted msgid_sites : list (str * str)) : bool :=
  forallb (variants_listed emitted) msgid_sites.
