(* Entry point of the extracted executable for C28 *)
From CV Require Import Base.Bytes Ids.Defs Ids.Gen_Ids.
Local Open Scope N_scope.

Definition BAD : list str := [[66]].

Definition tag_is (t name : str) : bool := str_eqb t name.

Definition flatten_pairs (l : list (str * str)) : list str :=
  flat_map (fun e => [fst e; snd e]) l.

(* tags:
     "msgid" cond safe base   -> get_message_id
     "uncovered"              -> id site id site ... of emitted entries neither in errorlist nor known
     "uncovered0"             -> same with an empty known list (the raw --errorlist gaps)
     "emits" id               -> is the id the id of some scanned site?
     "listed" id              -> is the id in errorlist?
     "stale"                  -> known_missing ids that ARE in errorlist (repaired defects still recorded)
     "counts"                 -> |emitted| |errorlist| |known_missing| |message_id_sites| *)
Definition run (fields : list str) : list str :=
  match fields with
  | [] => BAD
  | tag :: args =>
      if tag_is tag [109;115;103;105;100] then
        match args with
        | [c; s; b] => [get_message_id (bool_of_str c) (bool_of_str s) b]
        | _ => BAD
        end
      else if tag_is tag [117;110;99;111;118;101;114;101;100] then
        flatten_pairs (uncovered emitted errorlist known_missing)
      else if tag_is tag [117;110;99;111;118;101;114;101;100;48] then
        flatten_pairs (uncovered emitted errorlist [])
      else if tag_is tag [101;109;105;116;115] then
        match args with [i] => [str_of_bool (mem_str i (map fst emitted))] | _ => BAD end
      else if tag_is tag [108;105;115;116;101;100] then
        match args with [i] => [str_of_bool (mem_str i errorlist)] | _ => BAD end
      else if tag_is tag [115;116;97;108;101] then
        filter (fun i => mem_str i errorlist) known_missing
      else if tag_is tag [99;111;117;110;116;115] then
        [dec_of_N (N.of_nat (length emitted)); dec_of_N (N.of_nat (length errorlist));
         dec_of_N (N.of_nat (length known_missing)); dec_of_N (N.of_nat (length message_id_sites))]
      else BAD
  end.
