(* C28  the finite checks on the regenerated tables.  vm_compute over Gen_Ids (a finite,
   regenerated domain; the bound is the table itself), lifted by the generic lemmas. *)
From CV Require Import Base.Bytes Ids.Defs Ids.Lemmas Ids.Gen_Ids.

Lemma errorlist_complete :
  forall id site, In (id, site) emitted -> In id errorlist \/ In id known_missing.
Proof. apply all_covered_sound. vm_compute. reflexivity. Qed.

Lemma message_ids_listed :
  forall base site cond safe, In (base, site) message_id_sites ->
  In (get_message_id cond safe base, site) emitted.
Proof. apply message_ids_closed_sound. vm_compute. reflexivity. Qed.

(* with the previous two: every getMessageId variant is in --errorlist or a recorded finding *)
Lemma message_ids_complete :
  forall base site cond safe, In (base, site) message_id_sites ->
  In (get_message_id cond safe base) errorlist \/ In (get_message_id cond safe base) known_missing.
Proof.
  intros base site cond safe H.
  exact (errorlist_complete _ _ (message_ids_listed base site cond safe H)).
Qed.
