(* C36  The HTML report lists every reported finding.
   Statements only; every proof is `exact <lemma>`. *)
From Coq Require Import Strings.String.
From CV Require Import Base.Bytes Report.Lit Html.Defs Html.Proofs.
Import List ListNotations.
Require Import Permutation Sorted.
Local Open Scope N_scope.

(* html_escape leaves no raw less-than, greater-than, double or single quote, and an HTML reader gets the text back *)
Theorem C36_escape_safe s :
  Forall (fun c => ~ special c) (html_escape s) /\ html_unescape (html_escape s) = s.
Proof. exact (conj (escape_no_special s) (unescape_escape s)). Qed.
Print Assumptions C36_escape_safe.

(* the rows of index.html are a permutation of the findings of the results file: every
   finding exactly once, with its file, id, severity cell and escaped message -- whatever
   the files are (empty name means no location, unreadable, undecodable). The line cell is the
   line unless the file name is empty, ends in a star or is in the script's decode_errors list
   (then the script leaves it blank: see docs/C36.md, known finding) *)
Theorem C36_index_complete derr es : Permutation (index_rows derr es) (map (row_of derr) es).
Proof. exact (index_complete derr es). Qed.
Print Assumptions C36_index_complete.

(* within a file the findings are ordered by line, equal lines keep the order of the results file *)
Theorem C36_group_sorted l : Sorted line_le (sort_line l).
Proof. exact (sort_line_sorted l). Qed.
Print Assumptions C36_group_sorted.

Theorem C36_group_stable k l :
  filter (fun e => (e_line e =? k)%Z) (sort_line l) = filter (fun e => (e_line e =? k)%Z) l.
Proof. exact (sort_line_stable k l). Qed.
Print Assumptions C36_group_stable.

Example C36_index_example :
  index_rows [] [mkE (L "b.c") 2 (L "i1") (L "style") (L "a<b") true; mkE [] 0 (L "i2") (L "error") (L "m") false;
                 mkE (L "b.c") 1 (L "i3") (L "error") (L "x") false] =
  [([], [], L "i2", L "error", L "m"); (L "b.c", L "1", L "i3", L "error", L "x");
   (L "b.c", L "2", L "i1", L "style, inconcl.", L "a&lt;b")].
Proof. vm_compute. reflexivity. Qed.
