(* C36  The HTML report lists every reported finding.
   Statements only; every proof is `exact <lemma>`. *)
From Coq Require Import Strings.String.
From CV Require Import Base.Bytes Report.Lit Html.Defs Html.Proofs.
Import List ListNotations.
Require Import Permutation Sorted.
Local Open Scope N_scope.

(* html_escape leaves no raw less-than, greater-than, double or single quote, and an HTML reader gets the text back *)
Theorem C36_escape_safe s :
  Forall (fun c => ~ special c) (html_escape s) /\ html_unescape (html_escape s) = s.
Proof. exact (conj (escape_no_special s) (unescape_escape s)). Qed.
Print Assumptions C36_escape_safe.

(* the rows of index.html are a permutation of the findings of the results file: every
   finding exactly once -- whatever the files are (empty name means no location, unreadable,
   undecodable) *)
Theorem C36_index_complete es : Permutation (index_rows es) (map row_of es).
Proof. exact (index_complete es). Qed.
Print Assumptions C36_index_complete.

(* and each row gives an HTML reader back the file, id and message of its finding (all three
   cells are free of raw specials), the severity, and the line -- the line cell is blank only
   for a finding without location or with a file name ending in a star *)
Theorem C36_row_carries_finding e :
  read_row (row_of e) =
  (e_file e, (if negb (str_eqb (e_file e) []) && negb (ends_star (e_file e)) then dec_of_Z (e_line e) else []),
   e_id e, (if e_inconcl e then e_sev e ++ L ", inconcl." else e_sev e), e_msg e).
Proof. exact (row_carries e). Qed.
Print Assumptions C36_row_carries_finding.

Theorem C36_row_cells_safe e :
  match row_of e with (f, _, id, _, m) =>
    Forall (fun c => ~ special c) f /\ Forall (fun c => ~ special c) id /\ Forall (fun c => ~ special c) m end.
Proof. exact (row_cells_safe e). Qed.
Print Assumptions C36_row_cells_safe.

(* within a file the findings are ordered by line, equal lines keep the order of the results file *)
Theorem C36_group_sorted l : Sorted line_le (sort_line l).
Proof. exact (sort_line_sorted l). Qed.
Print Assumptions C36_group_sorted.

Theorem C36_group_stable k l :
  filter (fun e => (e_line e =? k)%Z) (sort_line l) = filter (fun e => (e_line e =? k)%Z) l.
Proof. exact (sort_line_stable k l). Qed.
Print Assumptions C36_group_stable.

Example C36_index_example :
  index_rows [mkE (L "b<.c") 2 (L "i&1") (L "style") (L "a<b") true; mkE [] 0 (L "i2") (L "error") (L "m") false;
                 mkE (L "b<.c") 1 (L "i3") (L "error") (L "x") false] =
  [([], [], L "i2", L "error", L "m"); (L "b&lt;.c", L "1", L "i3", L "error", L "x");
   (L "b&lt;.c", L "2", L "i&amp;1", L "style, inconcl.", L "a&lt;b")].
Proof. vm_compute. reflexivity. Qed.
