(* Entry point of the extracted executable for the alias-expansion model (C06).
   alias <program in prefix encoding>  ->  [text of P; text of expand_alias P; types]
   items:  T spec dtor | U name ty | D spec dtor
   ty:     b name | s tag | n name | p ty | a N ty | f K ty*K ret
   dtor:   I name | P dtor | A N dtor | F K ty*K dtor                              *)
From CV Require Import Base.Bytes Expand.Defs.
Local Open Scope N_scope.

Definition nd (s : str) : N := match N_of_dec s with Some n => n | None => 0 end.

Fixpoint parse_ty (fuel : nat) (l : list str) : option (ty * list str) :=
  match fuel with
  | O => None
  | S f =>
    match l with
    | [98] :: n :: r => Some (TBase n, r)
    | [115] :: n :: r => Some (TStruct n, r)
    | [110] :: n :: r => Some (TName n, r)
    | [112] :: r => match parse_ty f r with Some (t, r') => Some (TPtr t, r') | None => None end
    | [97] :: n :: r => match parse_ty f r with Some (t, r') => Some (TArr (nd n) t, r') | None => None end
    | [102] :: k :: r =>
        (fix ps (k : nat) (acc : list ty) (r : list str) : option (ty * list str) :=
           match k with
           | O => match parse_ty f r with Some (t, r') => Some (TFun t (rev acc), r') | None => None end
           | S k' => match parse_ty f r with Some (t, r') => ps k' (t :: acc) r' | None => None end
           end) (N.to_nat (nd k)) [] r
    | _ => None
    end
  end.

Fixpoint parse_tys (fuel : nat) (k : nat) (l : list str) : option (list ty * list str) :=
  match k with
  | O => Some ([], l)
  | S k' => match parse_ty fuel l with
            | Some (t, r) => match parse_tys fuel k' r with Some (ts, r') => Some (t :: ts, r') | None => None end
            | None => None
            end
  end.

Fixpoint parse_dtor (fuel : nat) (l : list str) : option (dtor * list str) :=
  match fuel with
  | O => None
  | S f =>
    match l with
    | [73] :: n :: r => Some (DId n, r)
    | [80] :: r => match parse_dtor f r with Some (d, r') => Some (DPtr d, r') | None => None end
    | [65] :: n :: r => match parse_dtor f r with Some (d, r') => Some (DArr d (nd n), r') | None => None end
    | [70] :: k :: r =>
        match parse_tys fuel (N.to_nat (nd k)) r with
        | Some (ts, r') => match parse_dtor f r' with Some (d, r'') => Some (DFun d ts, r'') | None => None end
        | None => None
        end
    | _ => None
    end
  end.

Fixpoint parse_prog (fuel : nat) (l : list str) : option (list item) :=
  match fuel with
  | O => None
  | S f =>
    match l with
    | [] => Some []
    | [84] :: r =>
        match parse_ty fuel r with
        | Some (s, r1) => match parse_dtor fuel r1 with
                          | Some (d, r2) => option_map (cons (ITypedef s d)) (parse_prog f r2)
                          | None => None end
        | None => None end
    | [85] :: n :: r =>
        match parse_ty fuel r with
        | Some (t, r1) => option_map (cons (IUsing n t)) (parse_prog f r1)
        | None => None end
    | [68] :: r =>
        match parse_ty fuel r with
        | Some (s, r1) => match parse_dtor fuel r1 with
                          | Some (d, r2) => option_map (cons (IDecl s d)) (parse_prog f r2)
                          | None => None end
        | None => None end
    | _ => None
    end
  end.

(* ---- printing ---- *)
Definition sp : str := [32].
Definition starts_star (s : str) : bool := match s with 42 :: _ => true | _ => false end.
Definition paren_ptr (s : str) : str := if starts_star s then [40] ++ s ++ [41] else s.
Fixpoint join (sep : str) (l : list str) : str :=
  match l with [] => [] | [x] => x | x :: r => x ++ sep ++ join sep r end.

Definition with_inner (base inner : str) : str :=
  match inner with [] => base | _ => base ++ sp ++ inner end.

Fixpoint ptype (t : ty) (inner : str) : str :=
  match t with
  | TBase n => with_inner n inner
  | TStruct n => with_inner ([115;116;114;117;99;116;32] ++ n) inner
  | TName n => with_inner n inner
  | TPtr t' => ptype t' (42 :: inner)
  | TArr n t' => ptype t' (paren_ptr inner ++ [91] ++ dec_of_N n ++ [93])
  | TFun r ps => ptype r (paren_ptr inner ++ [40] ++ join [44;32] (map (fun p => ptype p []) ps) ++ [41])
  end.

Fixpoint pdtor (d : dtor) : str :=
  match d with
  | DId x => x
  | DPtr d' => 42 :: pdtor d'
  | DArr d' n => paren_ptr (pdtor d') ++ [91] ++ dec_of_N n ++ [93]
  | DFun d' ps => paren_ptr (pdtor d') ++ [40] ++ join [44;32] (map (fun p => ptype p []) ps) ++ [41]
  end.

Definition semi : str := [59].
Definition pitem (i : item) : str :=
  match i with
  | ITypedef s d => [116;121;112;101;100;101;102;32] ++ ptype s (pdtor d) ++ semi
  | IUsing n t => [117;115;105;110;103;32] ++ n ++ [32;61;32] ++ ptype t [] ++ semi
  | IDecl s d => ptype s (pdtor d) ++ semi
  end.

Definition nl : str := [10].
Definition pprog (p : list item) : str := join nl (map pitem p).

Definition run (fields : list str) : list str :=
  match fields with
  | [97; 108; 105; 97; 115] :: r =>
      match parse_prog (S (length r)) r with
      | None => [[69]]
      | Some p =>
          if negb (prog_specs p && prog_closed [] p) then [[87]] else
          [pprog p; pprog (expand_alias [] p);
           join nl (map (fun xt : str * ty => fst xt ++ [58] ++ ptype (snd xt) []) (types [] p));
           str_of_bool (forallb item_plain (expand_alias [] p))]
      end
  | _ => [[69]]
  end.
