(* C06 model: a typed declaration language with typedef / using aliases, its static
   semantics (the type of every declared entity, aliases resolved by an environment),
   and alias expansion as a declarator-level substitution - the *result* of
   Tokenizer::simplifyTypedef / simplifyUsing (lib/tokenize.cpp), not their control flow.
   Plus macro instantiation over VF's expressions.  No proofs here. *)
From CV Require Import Base.Bytes VF.Defs.

(* types; TName is a reference to an alias *)
Inductive ty :=
| TBase (name : str)               (* int, unsigned long, char, ... spelled as written *)
| TStruct (tag : str)
| TName (n : str)
| TPtr (t : ty)
| TArr (n : N) (t : ty)
| TFun (ret : ty) (ps : list ty).

(* C declarators: the identifier, pointer-to, array-of, function-returning *)
Inductive dtor :=
| DId (x : str)
| DPtr (d : dtor)
| DArr (d : dtor) (n : N)
| DFun (d : dtor) (ps : list ty).

Inductive item :=
| ITypedef (spec : ty) (d : dtor)      (* typedef spec d;  spec is TBase/TStruct/TName *)
| IUsing (n : str) (t : ty)            (* using n = t; *)
| IDecl (spec : ty) (d : dtor).        (* spec d; *)

(* C 6.7.6: the type a declarator gives its identifier, built inside-out *)
Fixpoint build (d : dtor) (t : ty) : str * ty :=
  match d with
  | DId x => (x, t)
  | DPtr d' => build d' (TPtr t)
  | DArr d' n => build d' (TArr n t)
  | DFun d' ps => build d' (TFun t ps)
  end.

(* ---- reference semantics: aliases are resolved through an environment of types ---- *)
Definition env := list (str * ty).
Fixpoint lookup (n : str) (e : env) : option ty :=
  match e with
  | [] => None
  | (k, t) :: r => if str_eqb k n then Some t else lookup n r
  end.

Fixpoint resolve (e : env) (t : ty) : ty :=
  match t with
  | TBase _ | TStruct _ => t
  | TName n => match lookup n e with Some t' => t' | None => t end
  | TPtr t' => TPtr (resolve e t')
  | TArr n t' => TArr n (resolve e t')
  | TFun r ps => TFun (resolve e r) (map (resolve e) ps)
  end.

(* the declared entities of a program with their alias-free types *)
Fixpoint types (e : env) (p : list item) : list (str * ty) :=
  match p with
  | [] => []
  | ITypedef s d :: r => let (n, t) := build d s in types ((n, resolve e t) :: e) r
  | IUsing n t :: r => types ((n, resolve e t) :: e) r
  | IDecl s d :: r => let (x, t) := build d s in (x, resolve e t) :: types e r
  end.

(* ---- expansion: what the simplifiers produce ---- *)
(* put declarator `inner` where the identifier of `d` is *)
Fixpoint plug (d inner : dtor) : dtor :=
  match d with
  | DId _ => inner
  | DPtr d' => DPtr (plug d' inner)
  | DArr d' n => DArr (plug d' inner) n
  | DFun d' ps => DFun (plug d' inner) ps
  end.

(* a type as specifier + declarator around `d` (inverse of build) *)
Fixpoint unbuild (t : ty) (d : dtor) : ty * dtor :=
  match t with
  | TPtr t' => unbuild t' (DPtr d)
  | TArr n t' => unbuild t' (DArr d n)
  | TFun r ps => unbuild r (DFun d ps)
  | _ => (t, d)
  end.

(* expansion environment: alias name -> (alias-free specifier, declarator whose identifier is the alias name) *)
Definition xenv := list (str * (ty * dtor)).
Fixpoint xlookup (n : str) (e : xenv) : option (ty * dtor) :=
  match e with
  | [] => None
  | (k, v) :: r => if str_eqb k n then Some v else xlookup n r
  end.

(* the type an expansion entry stands for *)
Definition xty (v : ty * dtor) : ty := snd (build (snd v) (fst v)).
Definition env_of (e : xenv) : env := map (fun kv => (fst kv, xty (snd kv))) e.

(* parameter and alias-target types are expanded in place (no declarator to re-nest) *)
Definition xresolve (e : xenv) (t : ty) : ty := resolve (env_of e) t.

Fixpoint xparams (e : xenv) (d : dtor) : dtor :=
  match d with
  | DId x => DId x
  | DPtr d' => DPtr (xparams e d')
  | DArr d' n => DArr (xparams e d') n
  | DFun d' ps => DFun (xparams e d') (map (xresolve e) ps)
  end.

(* `spec d` with spec possibly an alias: the alias's declarator is wrapped around d *)
Definition expand_decl (e : xenv) (s : ty) (d : dtor) : ty * dtor :=
  let d1 := xparams e d in
  match s with
  | TName n => match xlookup n e with
               | Some (s0, d0) => (s0, plug d0 d1)
               | None => (s, d1)
               end
  | _ => (s, d1)
  end.

Definition dname (d : dtor) : str := fst (build d (TBase [])).

Fixpoint expand_alias (e : xenv) (p : list item) : list item :=
  match p with
  | [] => []
  | ITypedef s d :: r => let (s1, d1) := expand_decl e s d in expand_alias ((dname d, (s1, d1)) :: e) r
  | IUsing n t :: r => let (s1, d1) := unbuild (xresolve e t) (DId n) in expand_alias ((n, (s1, d1)) :: e) r
  | IDecl s d :: r => let (s1, d1) := expand_decl e s d in IDecl s1 d1 :: expand_alias e r
  end.

(* no alias left *)
Fixpoint ty_plain (t : ty) : bool :=
  match t with
  | TBase _ | TStruct _ => true
  | TName _ => false
  | TPtr t' | TArr _ t' => ty_plain t'
  | TFun r ps => ty_plain r && forallb ty_plain ps
  end.
Fixpoint dtor_plain (d : dtor) : bool :=
  match d with
  | DId _ => true
  | DPtr d' | DArr d' _ => dtor_plain d'
  | DFun d' ps => dtor_plain d' && forallb ty_plain ps
  end.
Definition item_plain (i : item) : bool :=
  match i with IDecl s d => ty_plain s && dtor_plain d | _ => false end.

(* well-formed program: every alias is defined before it is used, specifiers are not derived types *)
Fixpoint ty_closed (e : list str) (t : ty) : bool :=
  match t with
  | TBase _ | TStruct _ => true
  | TName n => existsb (str_eqb n) e
  | TPtr t' | TArr _ t' => ty_closed e t'
  | TFun r ps => ty_closed e r && forallb (ty_closed e) ps
  end.
Fixpoint dtor_closed (e : list str) (d : dtor) : bool :=
  match d with
  | DId _ => true
  | DPtr d' | DArr d' _ => dtor_closed e d'
  | DFun d' ps => dtor_closed e d' && forallb (ty_closed e) ps
  end.
Definition is_spec (t : ty) : bool := match t with TBase _ | TStruct _ | TName _ => true | _ => false end.
Fixpoint prog_closed (e : list str) (p : list item) : bool :=
  match p with
  | [] => true
  | ITypedef s d :: r => is_spec s && ty_closed e s && dtor_closed e d && prog_closed (dname d :: e) r
  | IUsing n t :: r => ty_closed e t && prog_closed (n :: e) r
  | IDecl s d :: r => is_spec s && ty_closed e s && dtor_closed e d && prog_closed e r
  end.

(* every specifier position holds a specifier (always true of parsed C) *)
Fixpoint prog_specs (p : list item) : bool :=
  match p with
  | [] => true
  | ITypedef s _ :: r | IDecl s _ :: r => is_spec s && prog_specs r
  | IUsing _ _ :: r => prog_specs r
  end.

(* ------------------------------------------------------------------ *)
(* macros over VF expressions: bodies are expressions over parameters   *)
(* ------------------------------------------------------------------ *)
Inductive mexpr :=
| MLit (t : ctype) (v : Z)
| MParam (i : nat)
| MCast (t : ctype) (e : mexpr)
| MUn (o : uop) (e : mexpr)
| MBin (o : bop) (a b : mexpr)
| MCond (c a b : mexpr).

(* expansion of an invocation: every parameter occurrence is replaced by the (parenthesised)
   argument expression - call by name *)
Fixpoint inst (args : list expr) (m : mexpr) : expr :=
  match m with
  | MLit t v => ELit t v
  | MParam i => nth i args (ELit tint 0)
  | MCast t e => ECast t (inst args e)
  | MUn o e => EUn o (inst args e)
  | MBin o a b => EBin o (inst args a) (inst args b)
  | MCond c a b => ECond (inst args c) (inst args a) (inst args b)
  end.

(* a macro body instantiated with macro-level arguments (nested invocation, expanded later) *)
Fixpoint msubst (margs : list mexpr) (m : mexpr) : mexpr :=
  match m with
  | MLit t v => MLit t v
  | MParam i => nth i margs (MLit tint 0)
  | MCast t e => MCast t (msubst margs e)
  | MUn o e => MUn o (msubst margs e)
  | MBin o a b => MBin o (msubst margs a) (msubst margs b)
  | MCond c a b => MCond (msubst margs c) (msubst margs a) (msubst margs b)
  end.
