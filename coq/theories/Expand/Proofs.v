(* C06 proofs: alias expansion preserves the type of every declared entity. *)
From CV Require Import Base.Bytes VF.Defs Expand.Defs.

Section ty_ind2.
  Variable P : ty -> Prop.
  Hypothesis Hb : forall n, P (TBase n).
  Hypothesis Hs : forall n, P (TStruct n).
  Hypothesis Hn : forall n, P (TName n).
  Hypothesis Hp : forall t, P t -> P (TPtr t).
  Hypothesis Ha : forall n t, P t -> P (TArr n t).
  Hypothesis Hf : forall r ps, P r -> Forall P ps -> P (TFun r ps).
  Fixpoint ty_ind2 (t : ty) : P t :=
    match t with
    | TBase n => Hb n
    | TStruct n => Hs n
    | TName n => Hn n
    | TPtr t' => Hp t' (ty_ind2 t')
    | TArr n t' => Ha n t' (ty_ind2 t')
    | TFun r ps => Hf r ps (ty_ind2 r)
                      ((fix go (l : list ty) : Forall P l :=
                          match l with
                          | [] => Forall_nil P
                          | x :: xs => Forall_cons x (ty_ind2 x) (go xs)
                          end) ps)
    end.
End ty_ind2.

Lemma resolve_nil t : resolve [] t = t.
Proof.
  induction t using ty_ind2; cbn; try congruence.
  f_equal; auto. induction H; cbn; congruence.
Qed.

(* the identifier of a declarator does not depend on the specifier *)
Lemma build_fst d : forall t t', fst (build d t) = fst (build d t').
Proof. induction d; intros; cbn; auto. Qed.

(* declarator composition: this is where `typedef int ( *F)(int); F a[3];` is decided *)
Lemma build_plug d0 : forall d t, build (plug d0 d) t = build d (snd (build d0 t)).
Proof. induction d0; intros; cbn; auto. Qed.

Lemma unbuild_build t : forall d, build (snd (unbuild t d)) (fst (unbuild t d)) = build d t.
Proof.
  induction t; intros d; cbn; auto.
  - rewrite IHt. reflexivity.
  - rewrite IHt. reflexivity.
  - rewrite IHt. reflexivity.
Qed.

Lemma resolve_build e d : forall s,
  build (xparams e d) (resolve (env_of e) s) =
  (fst (build d s), resolve (env_of e) (snd (build d s))).
Proof.
  induction d; intros s; cbn [xparams build].
  - reflexivity.
  - rewrite <- IHd. reflexivity.
  - rewrite <- IHd. reflexivity.
  - rewrite <- IHd. reflexivity.
Qed.

Lemma lookup_env_of n e : lookup n (env_of e) = option_map xty (xlookup n e).
Proof.
  induction e as [|[k v] r IH]; cbn; auto.
  destruct (str_eqb k n); auto.
Qed.

(* one declaration: the expanded specifier/declarator pair denotes the resolved type *)
Lemma expand_decl_sem e s d :
  is_spec s = true ->
  build (snd (expand_decl e s d)) (fst (expand_decl e s d)) =
  (fst (build d s), resolve (env_of e) (snd (build d s))).
Proof.
  intros Hs. unfold expand_decl.
  destruct s; try discriminate; cbn [fst snd].
  - rewrite <- resolve_build. reflexivity.
  - rewrite <- resolve_build. reflexivity.
  - destruct (xlookup n e) as [[s0 d0]|] eqn:E; cbn [fst snd].
    + rewrite build_plug. rewrite <- resolve_build. cbn [resolve].
      rewrite lookup_env_of, E. reflexivity.
    + rewrite <- resolve_build. cbn [resolve]. rewrite lookup_env_of, E. reflexivity.
Qed.

Theorem expand_alias_sem : forall p e,
  prog_specs p = true ->
  types [] (expand_alias e p) = types (env_of e) p.
Proof.
  induction p as [|i r IH]; intros e W; [reflexivity|].
  destruct i as [s d|n t|s d]; cbn [prog_specs] in W.
  - apply andb_prop in W. destruct W as [Hs W].
    cbn [expand_alias types].
    pose proof (expand_decl_sem e s d Hs) as H.
    destruct (expand_decl e s d) as [s1 d1]. cbn [fst snd] in H.
    destruct (build d s) as [x t] eqn:B. cbn [fst snd] in H.
    rewrite IH by exact W. f_equal.
    cbn [env_of map fst snd]. unfold xty. cbn [fst snd]. rewrite H. cbn [snd].
    unfold dname. rewrite (build_fst d (TBase []) s), B. reflexivity.
  - cbn [expand_alias types].
    pose proof (unbuild_build (xresolve e t) (DId n)) as H.
    destruct (unbuild (xresolve e t) (DId n)) as [s1 d1]. cbn [fst snd] in H.
    rewrite IH by exact W. f_equal.
    cbn [env_of map fst snd]. unfold xty. cbn [fst snd]. rewrite H. reflexivity.
  - apply andb_prop in W. destruct W as [Hs W].
    cbn [expand_alias types].
    pose proof (expand_decl_sem e s d Hs) as H.
    destruct (expand_decl e s d) as [s1 d1]. cbn [fst snd] in H.
    destruct (build d s) as [x t] eqn:B. cbn [fst snd] in H.
    cbn [types]. rewrite H. rewrite resolve_nil. rewrite IH by exact W. reflexivity.
Qed.

(* ---- the expansion leaves no alias behind ---- *)
Definition xenv_plain (e : xenv) : Prop :=
  forall n s d, xlookup n e = Some (s, d) -> ty_plain s = true /\ dtor_plain d = true.

Lemma build_plain d : forall t, dtor_plain d = true -> ty_plain t = true -> ty_plain (snd (build d t)) = true.
Proof.
  induction d; intros t Hd Ht; cbn in *; auto.
  apply andb_prop in Hd. destruct Hd as [H1 H2]. apply IHd; auto. cbn. rewrite Ht, H2. reflexivity.
Qed.

Lemma existsb_names n (e : xenv) : existsb (str_eqb n) (map fst e) = true -> exists v, xlookup n e = Some v.
Proof.
  induction e as [|[k v] r IH]; cbn; [discriminate|].
  destruct (str_eqb n k) eqn:E.
  - apply str_eqb_eq in E. subst. intros _. exists v.
    replace (str_eqb k k) with true; auto. symmetry. apply str_eqb_eq. reflexivity.
  - cbn. intros H. destruct (IH H) as [v' Hv]. destruct (str_eqb k n); eauto.
Qed.

Lemma resolve_plain e t :
  xenv_plain e -> ty_closed (map fst e) t = true -> ty_plain (resolve (env_of e) t) = true.
Proof.
  intros He. induction t using ty_ind2; cbn; intros Hc; auto.
  - rewrite lookup_env_of. destruct (existsb_names _ _ Hc) as [[s d] Hv]. rewrite Hv. cbn.
    destruct (He _ _ _ Hv). unfold xty. cbn. apply build_plain; auto.
  - apply andb_prop in Hc. destruct Hc as [H1 H2]. rewrite IHt by auto. cbn.
    rewrite forallb_forall in *. intros x Hx. apply in_map_iff in Hx. destruct Hx as (y & <- & Hy).
    rewrite Forall_forall in H. apply H; auto.
Qed.

Lemma xparams_plain e d :
  xenv_plain e -> dtor_closed (map fst e) d = true -> dtor_plain (xparams e d) = true.
Proof.
  intros He. induction d; cbn; intros Hc; auto.
  apply andb_prop in Hc. destruct Hc as [H1 H2]. rewrite IHd by auto. cbn.
  rewrite forallb_forall in *. intros x Hx. apply in_map_iff in Hx. destruct Hx as (y & <- & Hy).
  apply resolve_plain; auto.
Qed.

Lemma plug_plain d0 : forall d, dtor_plain d0 = true -> dtor_plain d = true -> dtor_plain (plug d0 d) = true.
Proof.
  induction d0; intros d H0 H; cbn in *; auto.
  apply andb_prop in H0. destruct H0 as [H1 H2]. rewrite IHd0; auto.
Qed.

Lemma expand_decl_plain e s d :
  xenv_plain e -> is_spec s = true -> ty_closed (map fst e) s = true -> dtor_closed (map fst e) d = true ->
  ty_plain (fst (expand_decl e s d)) = true /\ dtor_plain (snd (expand_decl e s d)) = true.
Proof.
  intros He Hs Hc Hd. pose proof (xparams_plain e d He Hd) as Hp.
  unfold expand_decl. destruct s; try discriminate; cbn [fst snd]; auto.
  cbn in Hc. destruct (existsb_names _ _ Hc) as [[s0 d0] Hv]. rewrite Hv. cbn [fst snd].
  destruct (He _ _ _ Hv). split; auto. apply plug_plain; auto.
Qed.

Lemma unbuild_plain t : forall d, ty_plain t = true -> dtor_plain d = true ->
  ty_plain (fst (unbuild t d)) = true /\ dtor_plain (snd (unbuild t d)) = true.
Proof.
  induction t; intros d Ht Hd; cbn in *; auto.
  apply andb_prop in Ht. destruct Ht as [H1 H2]. apply IHt; auto. cbn. rewrite Hd, H2. reflexivity.
Qed.

Lemma xenv_plain_cons e n s d :
  xenv_plain e -> ty_plain s = true -> dtor_plain d = true -> xenv_plain ((n, (s, d)) :: e).
Proof.
  intros He Hs Hd m s' d'. cbn. destruct (str_eqb n m); [intros [= <- <-]; auto|apply He].
Qed.

Theorem expand_alias_plain : forall p e,
  xenv_plain e -> prog_closed (map fst e) p = true -> forallb item_plain (expand_alias e p) = true.
Proof.
  induction p as [|i r IH]; intros e He W; [reflexivity|].
  destruct i as [s d|n t|s d]; cbn [prog_closed] in W.
  - repeat (apply andb_prop in W; destruct W as [W ?]).
    cbn [expand_alias]. destruct (expand_decl_plain e s d He W H1 H0) as [P1 P2].
    destruct (expand_decl e s d) as [s1 d1]. cbn [fst snd] in *.
    apply IH; [apply xenv_plain_cons; auto|exact H].
  - apply andb_prop in W. destruct W as [W1 W2].
    cbn [expand_alias].
    destruct (unbuild_plain (xresolve e t) (DId n) (resolve_plain e t He W1) eq_refl) as [P1 P2].
    destruct (unbuild (xresolve e t) (DId n)) as [s1 d1]. cbn [fst snd] in *.
    apply IH; [apply xenv_plain_cons; auto|exact W2].
  - repeat (apply andb_prop in W; destruct W as [W ?]).
    cbn [expand_alias]. destruct (expand_decl_plain e s d He W H1 H0) as [P1 P2].
    destruct (expand_decl e s d) as [s1 d1]. cbn [fst snd] in *.
    cbn [forallb item_plain]. rewrite P1, P2. cbn. apply IH; auto.
Qed.

(* ---- macros: expanding the arguments first or the body first gives the same expression ---- *)
Theorem inst_msubst args margs : forall m,
  inst args (msubst margs m) = inst (map (inst args) margs) m.
Proof.
  intros m. induction m; cbn; try congruence.
  destruct (Nat.lt_ge_cases i (length margs)) as [Hl|Hg].
  - rewrite (nth_indep _ (ELit tint 0) (inst args (MLit tint 0))) by (rewrite map_length; exact Hl).
    rewrite map_nth. reflexivity.
  - rewrite !nth_overflow; [reflexivity|rewrite map_length; exact Hg|exact Hg].
Qed.
