(* Entry point for the extracted executable: decodes a case, runs the model.
   tag "check": k, then k table entries (variable id, kind: "A" | decimal mutex id),
   then one event per field: 'L' 'U' 'R' 'W' 'r' 'w' followed by a decimal id.
   Result: ["1"] check_thread passes; ["0"; index of first offending event];
           ["E"] malformed case. *)
From CV Require Import Base.Bytes Conc.Defs.
Local Open Scope N_scope.

Definition BAD : list str := [[69]].    (* "E" *)

Definition kind_of (s : str) : option vkind :=
  match s with
  | [65] => Some Atomic                              (* "A" *)
  | _ => option_map Guarded (N_of_dec s)
  end.

(* k table entries, two fields each; structural on the field list *)
Fixpoint take_tbl (l : list str) (k : N) (acc : list (N * vkind))
  : option (list (N * vkind) * list str) :=
  if k =? 0 then Some (rev acc, l) else
  match l with
  | v :: kd :: r =>
      match N_of_dec v, kind_of kd with
      | Some x, Some kk => take_tbl r (k - 1) ((x, kk) :: acc)
      | _, _ => None
      end
  | _ => None
  end.

Definition ev_of (s : str) : option ev :=
  match s with
  | c :: d =>
      match N_of_dec d with
      | Some n =>
          if c =? 76 then Some (Lock n)          (* L *)
          else if c =? 85 then Some (Unlock n)   (* U *)
          else if c =? 82 then Some (Rd n)       (* R *)
          else if c =? 87 then Some (Wr n)       (* W *)
          else if c =? 114 then Some (ARd n)     (* r *)
          else if c =? 119 then Some (AWr n)     (* w *)
          else None
      | None => None
      end
  | [] => None
  end.

Fixpoint evs_of (l : list str) : option (list ev) :=
  match l with
  | [] => Some []
  | f :: r =>
      match ev_of f, evs_of r with
      | Some e, Some es => Some (e :: es)
      | _, _ => None
      end
  end.

Definition run_check (args : list str) : list str :=
  match args with
  | cnt :: r0 =>
      match N_of_dec cnt with
      | Some k =>
          match take_tbl r0 k [] with
          | Some (tbl, r1) =>
              match evs_of r1 with
              | Some t =>
                  match first_bad (lookup_kind tbl) [] t 0 with
                  | None => [[49]]
                  | Some i => [[48]; dec_of_N i]
                  end
              | None => BAD
              end
          | None => BAD
          end
      | None => BAD
      end
  | [] => BAD
  end.

(* tags: "check" *)
Definition run (fields : list str) : list str :=
  match fields with
  | [] => BAD
  | tag :: args =>
      if str_eqb tag [99;104;101;99;107] then run_check args
      else BAD
  end.
