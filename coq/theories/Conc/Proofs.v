(* Lockset discipline implies data-race freedom, for any number of threads
   and any interleaving. *)
From CV Require Import Base.Bytes Conc.Defs.
Require Import Lia.
Local Open Scope N_scope.

(* --- lock sets --- *)
Lemma mem_In m l : mem m l = true <-> In m l.
Proof.
  unfold mem. rewrite existsb_exists. split.
  - intros [x [Hx He]]. apply N.eqb_eq in He. subst. exact Hx.
  - intros H. exists m. split; [exact H | apply N.eqb_refl].
Qed.

Lemma In_rem x m l : In x (rem m l) <-> In x l /\ x <> m.
Proof.
  unfold rem. rewrite filter_In. rewrite Bool.negb_true_iff, N.eqb_neq. tauto.
Qed.

(* --- first_bad --- *)
Theorem first_bad_none_iff : forall kind held t i,
  first_bad kind held t i = None <-> check_events kind held t = true.
Proof.
  intros kind held t. revert held.
  induction t as [|e t IH]; intros held i; cbn [first_bad check_events].
  - tauto.
  - destruct (ev_ok kind held e) eqn:?; cbn [andb].
    + apply IH.
    + split; discriminate.
Qed.

(* --- upd --- *)
Lemma nth_error_upd : forall s i th j,
  nth_error (upd s i th) j =
  if Nat.eqb j i
  then match nth_error s i with Some _ => Some th | None => None end
  else nth_error s j.
Proof.
  induction s as [|x s IH]; intros i th j.
  - cbn [upd]. destruct (Nat.eqb j i); destruct i, j; reflexivity.
  - destruct i as [|i], j as [|j]; cbn [upd nth_error Nat.eqb]; try reflexivity.
    apply IH.
Qed.

Lemma nth_error_upd_same s i th old :
  nth_error s i = Some old -> nth_error (upd s i th) i = Some th.
Proof. intros H. rewrite nth_error_upd, Nat.eqb_refl, H. reflexivity. Qed.

Lemma nth_error_upd_other s i th j :
  j <> i -> nth_error (upd s i th) j = nth_error s j.
Proof.
  intros H. rewrite nth_error_upd.
  destruct (Nat.eqb j i) eqn:E; [apply Nat.eqb_eq in E; contradiction | reflexivity].
Qed.

(* --- every step has the same shape --- *)
Lemma step_shape s s' :
  step s s' ->
  exists i held e rest,
    nth_error s i = Some (held, e :: rest) /\
    s' = upd s i (ev_held held e, rest) /\
    (forall m, In m (ev_held held e) ->
       In m held \/ (forall j th, nth_error s j = Some th -> ~ In m (fst th))).
Proof.
  intros H. destruct H as [s i held m rest Hn Hfree | s i held m rest Hn Hin | s i held e rest Hn Hacc].
  - exists i, held, (Lock m), rest. split; [exact Hn|]. split; [reflexivity|].
    cbn [ev_held]. intros m' [<-|Hm']; [right; exact Hfree | left; exact Hm'].
  - exists i, held, (Unlock m), rest. split; [exact Hn|]. split; [reflexivity|].
    cbn [ev_held]. intros m' Hm'. left. apply In_rem in Hm'. tauto.
  - exists i, held, e, rest. split; [exact Hn|].
    assert (ev_held held e = held) as ->
      by (destruct e; cbn [is_access] in Hacc; try discriminate; reflexivity).
    split; [reflexivity|]. intros; left; assumption.
Qed.

(* --- the invariant --- *)
Definition threads_ok (kind : N -> option vkind) (s : state) : Prop :=
  forall i h r, nth_error s i = Some (h, r) -> check_events kind h r = true.

Definition held_disjoint (s : state) : Prop :=
  forall i j hi ri hj rj m,
    i <> j ->
    nth_error s i = Some (hi, ri) ->
    nth_error s j = Some (hj, rj) ->
    In m hi -> ~ In m hj.

Definition inv kind s := threads_ok kind s /\ held_disjoint s.

Lemma nth_error_init ts i h r :
  nth_error (init ts) i = Some (h, r) -> h = [] /\ nth_error ts i = Some r.
Proof.
  unfold init. revert i. induction ts as [|t ts IH]; intros i H.
  - destruct i; discriminate.
  - destruct i as [|i]; cbn [map nth_error] in *.
    + inversion H. split; reflexivity.
    + apply IH. exact H.
Qed.

Lemma inv_init kind ts :
  Forall (fun t => check_thread kind t = true) ts -> inv kind (init ts).
Proof.
  intros HF. split.
  - intros i h r H. apply nth_error_init in H. destruct H as [-> H].
    apply nth_error_In in H. rewrite Forall_forall in HF. exact (HF _ H).
  - intros i j hi ri hj rj m _ Hi _ Hm.
    apply nth_error_init in Hi. destruct Hi as [-> _]. destruct Hm.
Qed.

Lemma inv_step kind s s' : inv kind s -> step s s' -> inv kind s'.
Proof.
  intros [Hok Hdis] Hst.
  apply step_shape in Hst.
  destruct Hst as (k & held & e & rest & Hk & -> & Hnew).
  split.
  - intros i h r H.
    destruct (Nat.eq_dec i k) as [->|Hne].
    + rewrite (nth_error_upd_same _ _ _ _ Hk) in H. inversion H; subst.
      specialize (Hok _ _ _ Hk). cbn [check_events] in Hok.
      apply Bool.andb_true_iff in Hok. tauto.
    + rewrite nth_error_upd_other in H by exact Hne. exact (Hok _ _ _ H).
  - intros i j hi ri hj rj m Hij Hi Hj Hmi Hmj.
    destruct (Nat.eq_dec i k) as [->|Hik]; destruct (Nat.eq_dec j k) as [->|Hjk].
    + contradiction.
    + rewrite (nth_error_upd_same _ _ _ _ Hk) in Hi. inversion Hi; subst.
      rewrite nth_error_upd_other in Hj by exact Hjk.
      destruct (Hnew _ Hmi) as [Hold|Hfree].
      * exact (Hdis _ _ _ _ _ _ _ Hij Hk Hj Hold Hmj).
      * exact (Hfree _ _ Hj Hmj).
    + rewrite (nth_error_upd_same _ _ _ _ Hk) in Hj. inversion Hj; subst.
      rewrite nth_error_upd_other in Hi by exact Hik.
      destruct (Hnew _ Hmj) as [Hold|Hfree].
      * exact (Hdis _ _ _ _ _ _ _ Hij Hi Hk Hmi Hold).
      * exact (Hfree _ _ Hi Hmi).
    + rewrite nth_error_upd_other in Hi by exact Hik.
      rewrite nth_error_upd_other in Hj by exact Hjk.
      exact (Hdis _ _ _ _ _ _ _ Hij Hi Hj Hmi Hmj).
Qed.

Lemma inv_reachable kind ts :
  Forall (fun t => check_thread kind t = true) ts ->
  forall s, reachable ts s -> inv kind s.
Proof.
  intros HF s Hr. induction Hr as [|s s' _ IH Hst].
  - apply inv_init. exact HF.
  - exact (inv_step _ _ _ IH Hst).
Qed.

(* --- the invariant excludes races --- *)
Lemma inv_no_race kind s : inv kind s -> ~ race s.
Proof.
  intros [Hok Hdis] (i & j & hi & a & ri & hj & b & rj & Hij & Hi & Hj & Hc).
  pose proof (Hok _ _ _ Hi) as Ci. pose proof (Hok _ _ _ Hj) as Cj.
  cbn [check_events] in Ci, Cj.
  apply Bool.andb_true_iff in Ci, Cj.
  destruct Ci as [Ci _], Cj as [Cj _].
  unfold conflict in Hc.
  destruct (acc_var a) as [x|] eqn:Ea; [|discriminate].
  destruct (acc_var b) as [y|] eqn:Eb; [|discriminate].
  apply Bool.andb_true_iff in Hc. destruct Hc as [Hc Hat].
  apply Bool.andb_true_iff in Hc. destruct Hc as [Hxy _].
  apply N.eqb_eq in Hxy. subst y.
  assert (Ha : is_atomic a = false ->
               exists m, kind x = Some (Guarded m) /\ In m hi).
  { intros Hna. destruct a; cbn [acc_var is_atomic] in Ea, Hna; try discriminate;
      inversion Ea; subst; cbn [ev_ok] in Ci;
      (destruct (kind x) as [[|m]|]; try discriminate;
       exists m; split; [reflexivity | apply mem_In; exact Ci]). }
  assert (Hb : is_atomic b = false ->
               exists m, kind x = Some (Guarded m) /\ In m hj).
  { intros Hna. destruct b; cbn [acc_var is_atomic] in Eb, Hna; try discriminate;
      inversion Eb; subst; cbn [ev_ok] in Cj;
      (destruct (kind x) as [[|m]|]; try discriminate;
       exists m; split; [reflexivity | apply mem_In; exact Cj]). }
  assert (Ha' : is_atomic a = true -> kind x = Some Atomic).
  { intros Hna. destruct a; cbn [acc_var is_atomic] in Ea, Hna; try discriminate;
      inversion Ea; subst; cbn [ev_ok] in Ci;
      (destruct (kind x) as [[|m]|]; try discriminate; reflexivity). }
  assert (Hb' : is_atomic b = true -> kind x = Some Atomic).
  { intros Hna. destruct b; cbn [acc_var is_atomic] in Eb, Hna; try discriminate;
      inversion Eb; subst; cbn [ev_ok] in Cj;
      (destruct (kind x) as [[|m]|]; try discriminate; reflexivity). }
  destruct (is_atomic a) eqn:Aa; destruct (is_atomic b) eqn:Ab.
  - discriminate Hat.
  - destruct (Hb eq_refl) as (m & Hk & _). rewrite (Ha' eq_refl) in Hk. discriminate.
  - destruct (Ha eq_refl) as (m & Hk & _). rewrite (Hb' eq_refl) in Hk. discriminate.
  - destruct (Ha eq_refl) as (m & Hk & Hmi). destruct (Hb eq_refl) as (m' & Hk' & Hmj).
    rewrite Hk in Hk'. inversion Hk'; subst m'.
    exact (Hdis _ _ _ _ _ _ _ Hij Hi Hj Hmi Hmj).
Qed.

(* --- main theorems --- *)
Theorem lockset_drf : forall kind (ts : list (list ev)),
  Forall (fun t => check_thread kind t = true) ts ->
  forall s, reachable ts s -> ~ race s.
Proof.
  intros kind ts HF s Hr. apply (inv_no_race kind). exact (inv_reachable _ _ HF _ Hr).
Qed.

(* at most one thread holds a mutex, in every reachable state *)
Theorem lockset_mutex_exclusion : forall kind (ts : list (list ev)),
  Forall (fun t => check_thread kind t = true) ts ->
  forall s, reachable ts s ->
  forall i j hi ri hj rj m,
    i <> j ->
    nth_error s i = Some (hi, ri) ->
    nth_error s j = Some (hj, rj) ->
    In m hi -> ~ In m hj.
Proof.
  intros kind ts HF s Hr. exact (proj2 (inv_reachable _ _ HF _ Hr)).
Qed.

(* every thread keeps passing the check with its current lock set *)
Theorem lockset_threads_ok : forall kind (ts : list (list ev)),
  Forall (fun t => check_thread kind t = true) ts ->
  forall s, reachable ts s ->
  forall i h r, nth_error s i = Some (h, r) -> check_events kind h r = true.
Proof.
  intros kind ts HF s Hr. exact (proj1 (inv_reachable _ _ HF _ Hr)).
Qed.

(* --- the hypothesis matters: two unguarded writers race --- *)
Example unguarded_races : exists ts s, reachable ts s /\ race s.
Proof.
  exists [[Wr 0]; [Wr 0]], (init [[Wr 0]; [Wr 0]]).
  split; [apply reach_init|].
  exists 0%nat, 1%nat, [], (Wr 0), [], [], (Wr 0), [].
  repeat split. discriminate.
Qed.

(* ... and they do not pass the check, whatever the table says about mutexes held *)
Example unguarded_rejected : forall kind, check_thread kind [Wr 0] = false.
Proof.
  intros kind. unfold check_thread. cbn [check_events ev_ok].
  destruct (kind 0) as [[|m]|]; reflexivity.
Qed.

(* --- the hypothesis is satisfiable --- *)
Definition ex_tbl : list (N * vkind) := [(0, Guarded 7); (1, Atomic)].
Definition ex_threads : list (list ev) :=
  [ [Lock 7; Wr 0; Unlock 7; AWr 1];
    [ARd 1; Lock 7; Rd 0; Wr 0; Unlock 7] ].

Example guarded_ok :
  Forall (fun t => check_thread (lookup_kind ex_tbl) t = true) ex_threads.
Proof. repeat constructor. Qed.

Example guarded_ok_drf : forall s, reachable ex_threads s -> ~ race s.
Proof. exact (lockset_drf _ _ guarded_ok). Qed.

(* the semantics is not vacuous: the guarded example can actually run, and a
   second Lock of a held mutex is blocked *)
Example guarded_runs :
  reachable ex_threads
    [ ([7], [Wr 0; Unlock 7; AWr 1]); ([], [Lock 7; Rd 0; Wr 0; Unlock 7]) ].
Proof.
  apply reach_step with (s := [ ([7], [Wr 0; Unlock 7; AWr 1]);
                                 ([], [ARd 1; Lock 7; Rd 0; Wr 0; Unlock 7]) ]).
  - apply reach_step with (s := init ex_threads).
    + apply reach_init.
    + apply (step_lock (init ex_threads) 0%nat [] 7 [Wr 0; Unlock 7; AWr 1]).
      * reflexivity.
      * intros j th H.
        destruct j as [|[|[|j]]]; cbn in H; inversion H; subst; cbn; tauto.
  - apply (step_access [ ([7], [Wr 0; Unlock 7; AWr 1]);
                         ([], [ARd 1; Lock 7; Rd 0; Wr 0; Unlock 7]) ]
                       1%nat [] (ARd 1) [Lock 7; Rd 0; Wr 0; Unlock 7]); reflexivity.
Qed.

Example lock_blocked : forall s', ~ step [ ([7], []); ([], [Lock 7]) ] s'.
Proof.
  intros s' H.
  inversion H as [s i held m rest Hn Hfree | s i held m rest Hn Hin | s i held e rest Hn Hacc];
    subst; destruct i as [|[|[|i]]]; cbn in Hn; try discriminate; inversion Hn; subst.
  - apply (Hfree 0%nat ([7], []) eq_refl). left; reflexivity.
  - discriminate Hacc.
Qed.

Print Assumptions lockset_drf.
Print Assumptions lockset_mutex_exclusion.
Print Assumptions first_bad_none_iff.
Print Assumptions unguarded_races.
