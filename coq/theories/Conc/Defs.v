(* Lockset discipline for threads sharing variables: a per-thread syntactic
   check (check_thread) and an interleaving semantics with non-recursive
   mutexes (step / reachable / race).  Definitions only; proofs in Proofs.v. *)
From CV Require Import Base.Bytes.
Local Open Scope N_scope.

Inductive ev := Lock (m:N) | Unlock (m:N) | Rd (x:N) | Wr (x:N) | ARd (x:N) | AWr (x:N).
Inductive vkind := Atomic | Guarded (m:N).

(* --- lock sets --- *)
Definition mem (m : N) (l : list N) : bool := existsb (N.eqb m) l.
(* remove every occurrence (held lists never contain duplicates: Lock needs ~mem) *)
Definition rem (m : N) (l : list N) : list N := filter (fun x => negb (x =? m)) l.

(* --- per-thread syntactic check --- *)
Definition ev_ok (kind : N -> option vkind) (held : list N) (e : ev) : bool :=
  match e with
  | Lock m => negb (mem m held)
  | Unlock m => mem m held
  | Rd x | Wr x =>
      match kind x with Some (Guarded m) => mem m held | _ => false end
  | ARd x | AWr x =>
      match kind x with Some Atomic => true | _ => false end
  end.

Definition ev_held (held : list N) (e : ev) : list N :=
  match e with
  | Lock m => m :: held
  | Unlock m => rem m held
  | _ => held
  end.

Fixpoint check_events (kind : N -> option vkind) (held : list N) (t : list ev) : bool :=
  match t with
  | [] => true
  | e :: t' => ev_ok kind held e && check_events kind (ev_held held e) t'
  end.

Definition check_thread (kind : N -> option vkind) (t : list ev) : bool :=
  check_events kind [] t.

(* index (starting at i) of the first offending event *)
Fixpoint first_bad (kind : N -> option vkind) (held : list N) (t : list ev) (i : N) : option N :=
  match t with
  | [] => None
  | e :: t' => if ev_ok kind held e then first_bad kind (ev_held held e) t' (i + 1) else Some i
  end.

(* --- table instance --- *)
Fixpoint lookup_kind (tbl : list (N * vkind)) (x : N) : option vkind :=
  match tbl with
  | [] => None
  | (y, k) :: tbl' => if x =? y then Some k else lookup_kind tbl' x
  end.

(* --- interleaving semantics --- *)
Definition tstate := (list N * list ev)%type.     (* held, remaining events *)
Definition state := list tstate.

Fixpoint upd (s : state) (i : nat) (th : tstate) : state :=
  match s, i with
  | [], _ => []
  | _ :: s', O => th :: s'
  | x :: s', S i' => x :: upd s' i' th
  end.

Definition is_access (e : ev) : bool :=
  match e with Lock _ | Unlock _ => false | _ => true end.

(* thread i (position in the list) executes its head event *)
Inductive step : state -> state -> Prop :=
| step_lock : forall s i held m rest,
    nth_error s i = Some (held, Lock m :: rest) ->
    (forall j th, nth_error s j = Some th -> ~ In m (fst th)) ->   (* nobody holds m *)
    step s (upd s i (m :: held, rest))
| step_unlock : forall s i held m rest,
    nth_error s i = Some (held, Unlock m :: rest) ->
    In m held ->
    step s (upd s i (rem m held, rest))
| step_access : forall s i held e rest,
    nth_error s i = Some (held, e :: rest) ->
    is_access e = true ->
    step s (upd s i (held, rest)).

Definition init (ts : list (list ev)) : state := map (fun t => ([], t)) ts.

Inductive reachable (ts : list (list ev)) : state -> Prop :=
| reach_init : reachable ts (init ts)
| reach_step : forall s s', reachable ts s -> step s s' -> reachable ts s'.

(* --- data races --- *)
Definition acc_var (e : ev) : option N :=
  match e with Rd x | Wr x | ARd x | AWr x => Some x | _ => None end.
Definition is_write (e : ev) : bool :=
  match e with Wr _ | AWr _ => true | _ => false end.
Definition is_atomic (e : ev) : bool :=
  match e with ARd _ | AWr _ => true | _ => false end.

Definition conflict (a b : ev) : bool :=
  match acc_var a, acc_var b with
  | Some x, Some y =>
      (x =? y) && (is_write a || is_write b) && negb (is_atomic a && is_atomic b)
  | _, _ => false
  end.

(* two different threads whose next events are conflicting accesses
   (accesses are always enabled) *)
Definition race (s : state) : Prop :=
  exists i j hi a ri hj b rj,
    i <> j /\
    nth_error s i = Some (hi, a :: ri) /\
    nth_error s j = Some (hj, b :: rj) /\
    conflict a b = true.
