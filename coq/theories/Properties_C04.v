(* C04  Definite runtime-error findings are true positives -- the part decided by proof. *)
From CV Require Import Base.Bytes Sev.Defs Sev.Proofs.
Require Import ZArith.

(* a checker reports severity error only for a value that is neither conditional nor a default
   argument, and (nullPointer, invalidFunctionArg) only for a Known value *)
Theorem C04_error_needs_definite c s v i :
  severity_of c s v i = Some SError ->
  v_cond v = false /\ v_defarg v = false /\
  ((c = CNullPointer \/ c = CInvalidArg) -> v_kind v = VKnown).
Proof. exact (error_needs_definite c s v i). Qed.
Print Assumptions C04_error_needs_definite.

Example C04_ex_error : severity_of CZeroDiv (mkS false false) (mkV VPossible false false) false = Some SError.
Proof. reflexivity. Qed.
Example C04_ex_null_possible : severity_of CNullPointer (mkS true false) (mkV VPossible false false) false = Some SWarning.
Proof. reflexivity. Qed.

(* shiftTooManyBits: the count is compared with the width of the PROMOTED left operand, for << >> <<= >>= alike *)
Theorem C04_shift_too_many_is_promoted_width cb sb ib lb llb b count :
  (cb <= ib)%Z -> (sb <= ib)%Z -> (1 <= ib)%Z ->
  shift_too_many ib lb llb b count = true ->
  (shift_lhsbits ib lb llb b <= count)%Z /\
  (own_bits cb sb ib lb llb b <= shift_lhsbits ib lb llb b)%Z /\
  (match b with ILong | ILLong => True | _ => shift_lhsbits ib lb llb b = ib end).
Proof. exact (shift_too_many_is_promoted_width cb sb ib lb llb b count). Qed.
Print Assumptions C04_shift_too_many_is_promoted_width.
Example C04_ex_shift : shift_too_many 32 64 64 IChar 8 = false /\ shift_too_many 32 64 64 IChar 32 = true.
Proof. split; reflexivity. Qed.

(* the straight-line leak machine (CheckLeakAutoVar::checkScope's VarInfo on bodies made of
   p = malloc / free(p) / p = q / p = 0 / *p = 1 / return), for statement lists of any length,
   against the concrete heap semantics `exec`, from the state after `char *p = 0; char *q = 0;` *)
From CV Require Import Sev.Proofs.

(* memleak reported => the execution is not clean: it leaks or runs into undefined behaviour *)
Theorem C04_leak_machine_sound_memleak prog j v :
  In (j, FLeak v) (leak_run init_astate 0 prog) -> exec init_env [] prog <> VClean.
Proof. exact (leak_sound prog init_astate init_env [] 0%nat j v init_inv). Qed.
Print Assumptions C04_leak_machine_sound_memleak.

(* deallocuse reported => the execution has undefined behaviour (use after free, or a null dereference) *)
Theorem C04_leak_machine_sound_deallocuse prog j v :
  In (j, FUse v) (leak_run init_astate 0 prog) -> exists o, exec init_env [] prog = VUB o.
Proof. exact (use_after_free_sound prog init_astate init_env [] 0%nat j v init_inv). Qed.
Print Assumptions C04_leak_machine_sound_deallocuse.

(* the invariant behind both, for every reachable state *)
Theorem C04_leak_machine_invariant st e h s st' fs e' h' :
  inv st e h -> leak_step st s = (st', fs, false) -> exec_step e h s = OK e' h' -> inv st' e' h'.
Proof. exact (step_inv st e h s st' fs e' h'). Qed.
Print Assumptions C04_leak_machine_invariant.

(* doubleFree is not sound: a null pointer freed three times (known finding doublefree-null-pointer) *)
Theorem C04_leak_machine_doublefree_refuted :
  exists prog j v, In (j, FDouble v) (leak_run init_astate 0 prog) /\ exec init_env [] prog = VClean.
Proof. exact double_free_refuted. Qed.
Print Assumptions C04_leak_machine_doublefree_refuted.

Example C04_ex_leak : In (1%nat, FLeak P) (leak_run init_astate 0 [SMalloc P; SMalloc P; SFree P]).
Proof. cbn. auto. Qed.
Example C04_ex_use : In (2%nat, FUse P) (leak_run init_astate 0 [SMalloc P; SFree P; SDeref P]).
Proof. cbn. auto. Qed.
Example C04_ex_inv : inv init_astate init_env [].
Proof. exact init_inv. Qed.
