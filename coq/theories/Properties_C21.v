(* C21  A crashing worker process is contained.
   Statements only; every proof is `exact <lemma>`.  The machine is Proc/Defs.v:
   the parent of the process executor driven by Fork / pipe Read / Reap events in
   any order; a worker is the byte stream it wrote before it ended and its status. *)
From CV Require Import Base.Bytes Base.Glob Par.Gen_Severity Par.Defs Proc.Defs Proc.Proofs.

(* under every schedule a run has at most `measure` steps (termination), ... *)
Theorem C21_executor_terminates files jobs stream status es st st' :
  exec files jobs stream status st es = Some st' -> halted st' = None ->
  (length es + measure files stream st' <= measure files stream st)%nat.
Proof. exact (executor_terminates files jobs stream status es st st'). Qed.
Print Assumptions C21_executor_terminates.

(* ... every step that does not call exit() makes the measure smaller, ... *)
Theorem C21_step_decreases files jobs stream status st e st' :
  step files jobs stream status st e = Some st' -> halted st' = None ->
  (measure files stream st' < measure files stream st)%nat.
Proof. exact (step_decreases files jobs stream status st e st'). Qed.
Print Assumptions C21_step_decreases.

(* ... and while some file is unfinished an event is possible (no deadlock), whatever
   the workers wrote and however they ended *)
Theorem C21_executor_progress files jobs stream status st :
  (1 <= jobs)%nat -> halted st = None -> done files st = false ->
  exists e st', step files jobs stream status st e = Some st'.
Proof. exact (executor_progress files jobs stream status st). Qed.
Print Assumptions C21_executor_progress.

(* every subset of crashing workers (cut f = Some k), every crash point between
   records, every job count, every schedule: the parent never exits early; once all
   files are finished, every file's findings are exactly the records it sent (all of
   them for a worker that did not crash), a file has exactly one internal error,
   carrying its status, iff its worker ended by a signal or a non-zero exit status
   (otherwise none), and result > 0 as soon as one worker crashed *)
Theorem C21_crash_contained_at_boundaries files jobs fr res cut status :
  (forall f, forallb good_frame (fr f) = true) -> (forall f, (res f <= SIZE_MAX)%N) ->
  forall es st,
    exec files jobs (stream fr res cut) status init es = Some st ->
    halted st = None /\
    (done files st = true -> forall f, In f files ->
       filter (is_finding_of f) (log st) = rev (findings_of f (eff fr cut f))
       /\ filter (is_internal_of f) (log st) = (if bad_stat (status f) then [InternalErr f (status f)] else [])
       /\ (cut f <> None -> (0 < result st)%N)).
Proof. intros G R. exact (crash_contained_at_boundaries files jobs fr res cut status G R). Qed.
Print Assumptions C21_crash_contained_at_boundaries.

(* the stream in that theorem is what the code's writer produces *)
Theorem C21_stream_spec fr res cut f :
  stream fr res cut f = match cut f with None => full_stream (fr f) (res f) | Some k => cut_stream (fr f) k end.
Proof. exact (stream_spec fr res cut f). Qed.
Print Assumptions C21_stream_spec.

(* a worker dying inside a record: the parent takes an exit(EXIT_FAILURE) branch of
   handleRead, the other worker's finding is never reported, no internal error names
   the dead worker's file *)
Theorem C21_crash_mid_message_refuted :
  exists es st,
    exec rf_files 2 rf_stream rf_status init es = Some st
    /\ halted st = Some 1%N
    /\ (forall e, step rf_files 2 rf_stream rf_status st e = None)
    /\ findings_of 1 (rf_fr 1%N) <> []
    /\ filter (is_finding_of 1) (log st) = []
    /\ filter (is_internal_of 0) (log st) = [].
Proof. exact crash_mid_message_refuted. Qed.
Print Assumptions C21_crash_mid_message_refuted.

(* premises are inhabited: a concrete contained crash at a record boundary *)
Example C21_boundary_case :
  exists st, exec rf_files 2 (fun f => if (f =? 0)%N then cut_stream (rf_fr 0%N) 0 else full_stream (rf_fr 1%N) 1)
                  rf_status init [EFork 0; EFork 1; ERead 0; ERead 1; ERead 1; EReap 1; EReap 0]%N = Some st
             /\ halted st = None /\ done rf_files st = true /\ (0 < result st)%N
             /\ filter (is_finding_of 1) (log st) = [Finding 1 w_a]
             /\ filter (is_internal_of 0) (log st) = [InternalErr 0 (ExitCode 3)].
Proof. exact boundary_case_contained. Qed.

Example C21_good_frame_inhabited : forallb good_frame (rf_fr 0%N) = true.
Proof. vm_compute. reflexivity. Qed.
