(* C21  A crashing worker process is contained.
   Statements only; every proof is `exact <lemma>`.  The machine is Proc/Defs.v:
   the parent of the process executor driven by Fork / pipe Read / Reap events in
   any order; a worker is the byte stream it wrote before it ended and its status. *)
From CV Require Import Base.Bytes Base.Glob Par.Gen_Severity Par.Defs Proc.Defs Proc.Proofs.

(* under every schedule a run has at most `measure` steps (termination), ... *)
Theorem C21_executor_terminates files jobs stream status es st st' :
  exec files jobs stream status st es = Some st' -> halted st' = None ->
  (length es + measure files stream st' <= measure files stream st)%nat.
Proof. exact (executor_terminates files jobs stream status es st st'). Qed.
Print Assumptions C21_executor_terminates.

(* ... every step that does not call exit() makes the measure smaller, ... *)
Theorem C21_step_decreases files jobs stream status st e st' :
  step files jobs stream status st e = Some st' -> halted st' = None ->
  (measure files stream st' < measure files stream st)%nat.
Proof. exact (step_decreases files jobs stream status st e st'). Qed.
Print Assumptions C21_step_decreases.

(* ... and while some file is unfinished an event is possible (no deadlock), whatever
   the workers wrote and however they ended *)
Theorem C21_executor_progress files jobs stream status st :
  (1 <= jobs)%nat -> halted st = None -> done files st = false ->
  exists e st', step files jobs stream status st e = Some st'.
Proof. exact (executor_progress files jobs stream status st). Qed.
Print Assumptions C21_executor_progress.

(* every subset of crashing workers, every crash point - between two records (j = 0) or
   inside a record (j bytes of the next record written, j < its length; the next record is a
   report record or CHILD_END) -, every job count, every schedule: the parent never exits
   early; once all files are finished, every file's findings are exactly the whole records its
   worker sent (all of them for a worker that did not crash), a file has exactly one internal
   error, carrying its status, iff its worker ended by a signal or a non-zero exit status
   (otherwise none), and result > 0 as soon as one worker crashed *)
Theorem C21_crash_contained files jobs fr res cut status :
  (forall f, forallb good_frame (fr f) = true) -> (forall f, (res f <= SIZE_MAX)%N) ->
  (forall f k j, cut f = Some (k, j) -> (j < length (next_rec fr res f k))%nat) ->
  forall es st,
    exec files jobs (stream fr res cut) status init es = Some st ->
    halted st = None /\
    (done files st = true -> forall f, In f files ->
       filter (is_finding_of f) (log st) = rev (findings_of f (eff fr cut f))
       /\ filter (is_internal_of f) (log st) = (if bad_stat (status f) then [InternalErr f (status f)] else [])
       /\ (cut f <> None -> (0 < result st)%N)).
Proof. intros G R C. exact (crash_contained files jobs fr res cut status G R C). Qed.
Print Assumptions C21_crash_contained.

(* the stream in that theorem is what the code's writer produces up to the crash point *)
Theorem C21_stream_spec fr res cut f :
  stream fr res cut f = match cut f with
                        | None => full_stream (fr f) (res f)
                        | Some (k, j) => cut_stream (fr f) k ++ firstn j (next_rec fr res f k)
                        end.
Proof. exact (stream_spec fr res cut f). Qed.
Print Assumptions C21_stream_spec.

(* the findings reported for a crashed file are its first k records *)
Theorem C21_eff_spec fr cut f :
  eff fr cut f = match cut f with None => fr f | Some (k, _) => firstn k (fr f) end.
Proof. reflexivity. Qed.

(* the former counterexample (worker 0 dies after the type byte and two bytes of the length,
   fixed by 532f6fa in /repo): now contained; it also shows the premises are inhabited *)
Example C21_mid_message_case_contained :
  exists st, exec rf_files 2 rf_stream rf_status init
                  [EFork 0; EFork 1; ERead 0; ERead 1; ERead 1; EReap 1; EReap 0]%N = Some st
             /\ halted st = None /\ done rf_files st = true /\ (0 < result st)%N
             /\ filter (is_finding_of 1) (log st) = [Finding 1 w_a]
             /\ filter (is_internal_of 0) (log st) = [InternalErr 0 (ExitCode 3)].
Proof. exact mid_message_case_contained. Qed.

Example C21_mid_message_case_hyps :
  (forall f, forallb good_frame (rf_fr f) = true) /\
  (forall f k j, (fun f => if (f =? 0)%N then Some (0%nat, 3%nat) else None) f = Some (k, j) ->
                 (j < length (next_rec rf_fr (fun _ => 1%N) f k))%nat).
Proof. exact mid_message_case_hyps. Qed.

Example C21_good_frame_inhabited : forallb good_frame (rf_fr 0%N) = true.
Proof. vm_compute. reflexivity. Qed.
