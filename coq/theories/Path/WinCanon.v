(* C31: the windows-syntax PathIterator reads the windows canonical form. *)
From CV Require Import Base.Bytes Base.Glob Path.Defs Path.IterProofs Path.CanonProofs.
From Coq Require Import Arith Lia.
Local Open Scope N_scope.

Lemma firstn_snoc {A} (d : A) : forall j (l : list A), (j < length l)%nat ->
  firstn (S j) l = firstn j l ++ [nth j l d].
Proof.
  induction j as [|j IH]; intros l Hl; destruct l as [|x l]; cbn [length] in Hl; try lia.
  - reflexivity.
  - cbn [firstn nth app]. f_equal. apply IH. lia.
Qed.

Lemma noslash_rcs body : Forall noslash (map (@rev N) (rev (split SL body))).
Proof.
  destruct (split_spec body) as (_ & Hns & _).
  apply Forall_forall. intros x Hx. apply in_map_iff in Hx. destruct Hx as (y & <- & Hy).
  apply Forall_rev. rewrite Forall_forall in Hns. apply Hns. apply in_rev. exact Hy.
Qed.

Lemma rev_body body : rev body = F (map (@rev N) (rev (split SL body))).
Proof. destruct (split_spec body) as (_ & _ & HF). rewrite <- HF at 1. apply rev_F. Qed.

Lemma lastok_unrooted m : m <> [] -> is_abs m = false -> isD (hd [] (split SL m)) = false ->
  lastok [] (map (@rev N) (rev (split SL m))).
Proof.
  intros Hm Ha Hd _ _. destruct m as [|c0 m']; [contradiction|]. cbn [is_abs] in Ha.
  destruct (split_spec (c0 :: m')) as (Hne & _ & _).
  destruct (split SL (c0 :: m')) as [|h cs1] eqn:Ecs; [contradiction|].
  cbn [rev]. rewrite map_app. cbn [map]. rewrite last_last. cbn [hd] in Hd.
  split; [|rewrite isD_rev; exact Hd].
  destruct (hd_split_on m' [c0]) as [u Hu].
  assert (Hh : h = [c0] ++ u).
  { change h with (hd [] (h :: cs1)). rewrite <- Ecs. unfold split. cbn [split_on]. rewrite Ha. exact Hu. }
  rewrite Hh. cbn [app rev]. destruct (rev u); discriminate.
Qed.

Theorem iter_all_w_canon a b : canon_ok_w a b = true -> iter_all_w a b = rev (canon_w a b).
Proof.
  unfold canon_ok_w, iter_all_w, canon_w. fold (first_of a b).
  set (raw := join_raw a b). set (m := map wmap raw). set (k := root_len_w (first_of a b)).
  intros Hok. apply andb_true_iff in Hok. destruct Hok as [Hk Hroot]. apply Nat.leb_le in Hk.
  set (root := firstn k m). set (body := skipn k m). set (rcs := map (@rev N) (rev (split SL body))).
  assert (Hm : rev m = F rcs ++ rev root).
  { rewrite <- (firstn_skipn k m) at 1. rewrite rev_app_distr. fold body root. rewrite rev_body. reflexivity. }
  assert (Hlen : length (rev root) = k) by (rewrite rev_length; unfold root; apply firstn_length_le; exact Hk).
  assert (Hlm : length raw = length m) by (unfold m; rewrite map_length; reflexivity).
  rewrite rev_app_distr, rev_F_canon_comps. fold rcs. rewrite Hm. rewrite <- Hlen.
  apply (iter_from (rev root) rcs (S (length raw))).
  - destruct k as [|j] eqn:Ek.
    + left. unfold root. reflexivity.
    + right. unfold root. rewrite (firstn_snoc 0 j m) by lia. apply N.eqb_eq in Hroot. rewrite Hroot.
      rewrite rev_app_distr. cbn [rev app]. eexists. reflexivity.
  - apply noslash_rcs.
  - destruct k as [|j] eqn:Ek.
    + unfold rcs, body. cbn [skipn]. apply andb_true_iff in Hroot. destruct Hroot as [Hn Hd].
      apply andb_true_iff in Hn. destruct Hn as [Hne Ha]. apply negb_true_iff in Ha, Hd.
      apply lastok_unrooted; [intros E; rewrite E in Hne; discriminate|exact Ha|exact Hd].
    + intros Hz. apply (f_equal (@length N)) in Hz. rewrite Hlen in Hz. discriminate.
  - rewrite <- Hm, rev_length, Hlm. lia.
Qed.

Theorem iter_read_w_canon a b : canon_ok_w a b = true -> iter_read_w a b = canon_w a b.
Proof. intros H. unfold iter_read_w. rewrite (iter_all_w_canon a b H). apply rev_involutive. Qed.

(* ---------- PathMatch::match in windows syntax against the canonical forms ---------- *)
From CV Require Import Path.MatchProofs Path.SpecProofs Path.Termination Path.WinProofs.

Lemma w_spec_canon pattern path base isdir :
  canon_ok_pattern_w pattern base = true -> canon_ok_path_w path base = true ->
  pathmatch_w_spec pattern path base isdir <-> pathmatch_w_spec_canon pattern path base isdir.
Proof.
  unfold canon_ok_pattern_w, canon_ok_path_w, pathmatch_w_spec, pathmatch_w_spec_canon,
         canon_pattern_w, canon_path_w, path_seen_w, iter_pattern_w, iter_path_w.
  intros Hp Ht.
  destruct (is_rel_pattern pattern), (is_abs path), (dir_mismatch_w pattern isdir);
    rewrite (iter_all_w_canon _ _ Hp), (iter_all_w_canon _ _ Ht); unfold drop_last_comp;
    rewrite ?rev_involutive; reflexivity.
Qed.

Theorem pathmatch_w_total_canon pattern path base isdir :
  fast_ok pattern base = true ->
  canon_ok_pattern_w pattern base = true -> canon_ok_path_w path base = true ->
  exists b, pathmatch_w pattern path base isdir = Some b /\
            (b = true <-> pathmatch_w_spec_canon pattern path base isdir).
Proof.
  intros Hf Hp Ht. destruct (pathmatch_w_total pattern path base isdir Hf) as (b & Hb & Hs).
  exists b. split; [exact Hb|]. rewrite Hs. apply w_spec_canon; assumption.
Qed.

Lemma canon_w_example :
  canon_ok_w [67;58;92;83;114;99;92;46;92;65;46;67] [] = true /\
  canon_w [67;58;92;83;114;99;92;46;92;65;46;67] [] = [99;58;47;115;114;99;47;97;46;99] /\   (* "C:\Src\.\A.C" -> "c:/src/a.c" *)
  canon_ok_w [67;58;120] [] = false.                                                          (* drive-relative "C:x" *)
Proof. vm_compute. repeat split; reflexivity. Qed.
