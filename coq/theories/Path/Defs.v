(* C31: path matching and file selection.
   Model of lib/pathmatch.h (PathIterator), lib/pathmatch.cpp (PathMatch::match),
   lib/path.cpp (acceptFile / identify / getFilenameExtension),
   externals/simplecpp (simplifyPath) and cli/filelister.cpp (addFiles2, POSIX branch),
   unix syntax.  Definitions only; no proofs in this file. *)
From CV Require Import Base.Bytes Base.Glob.
Local Open Scope N_scope.

Definition SL : N := 47.    (* '/' *)
Definition DOT : N := 46.   (* '.' *)
Definition BSL : N := 92.   (* '\\' *)

(* ------------------------------------------------------------------ *)
(* Generic bounded iteration with a binary fuel (2^k steps for a k-bit fuel) *)
Inductive res (S R : Type) : Type := More (s : S) | Done (r : R).
Arguments More {S R} s.
Arguments Done {S R} r.

Fixpoint run_pos {S R : Type} (step : S -> res S R) (n : positive) (s : S) : res S R :=
  match n with
  | xH => step s
  | xO n' => match run_pos step n' s with
             | Done r => Done r
             | More s' => run_pos step n' s'
             end
  | xI n' => match step s with
             | Done r => Done r
             | More s1 => match run_pos step n' s1 with
                          | Done r => Done r
                          | More s2 => run_pos step n' s2
                          end
             end
  end.

(* ------------------------------------------------------------------ *)
(* Path::isAbsolute (non-Windows build) and PathMatch::isRelativePattern *)
Definition is_abs (p : str) : bool :=
  match p with c :: _ => c =? SL | [] => false end.

Definition is_rel_pattern (p : str) : bool :=
  match p with
  | c0 :: r0 =>
      if c0 =? DOT then
        match r0 with
        | [] => true
        | c1 :: r1 =>
            if (c1 =? SL) || (c1 =? BSL) then true
            else if c1 =? DOT then
              match r1 with [] => true | c2 :: _ => (c2 =? SL) || (c2 =? BSL) end
            else false
        end
      else false
  | [] => false
  end.

(* ------------------------------------------------------------------ *)
(* PathIterator, unix syntax.
   The iterator walks the virtual string  a + "/" + b  (or a, or b) backwards.
   Its position (Pos: pointer, characters left, buffered character) determines
   the rest of the walk, so a position is modelled by the list of raw
   characters still to be read, last character first; `l` is its length and
   `nextc` is `tl`.  mRootLength is k. *)
Definition join_raw (a b : str) : str :=
  let a := cstr a in
  let b := cstr b in
  match a, b with
  | [], _ => b
  | _, [] => a
  | _, _ => a ++ SL :: b
  end.

Definition root_len (raw : str) : nat :=
  match raw with c :: _ => if c =? SL then 1%nat else 0%nat | [] => 0%nat end.

(* mPos.l > mRootLength *)
Definition gt_root (k : nat) (r : str) : bool := Nat.ltb k (length r).

(* while (mPos.l > mRootLength && current() != '/') nextc(); *)
Fixpoint drop_comp (k : nat) (r : str) : str :=
  match r with
  | [] => []
  | c :: r' => if gt_root k r && negb (c =? SL) then drop_comp k r' else r
  end.

(* void skips(bool leadsep): one `fuel` per loop iteration / recursive call;
   every call is on a strictly shorter position, S (length r) always suffices *)
Fixpoint skips (fuel : nat) (k : nat) (leadsep : bool) (r : str) : str :=
  match fuel with
  | O => r
  | S f =>
      if negb (gt_root k r) then r
      else
        match (if leadsep
               then match r with
                    | c :: r' => if c =? SL then Some r' else None
                    | [] => None
                    end
               else Some r) with
        | None => r                                  (* current() != '/': break *)
        | Some r1 =>
            match r1 with
            | [] => r                                (* c == 0: mPos = pos; break *)
            | c :: r2 =>
                if c =? DOT then
                  match r2 with
                  | [] => []                         (* c == '\0': break, position stays at the end *)
                  | c2 :: r3 =>
                      if c2 =? DOT then
                        match r3 with
                        | c3 :: r4 =>
                            if c3 =? SL
                            then (if gt_root k r3
                                  then skips f k leadsep (drop_comp k (skips f k false r4))   (* skip 'dir/../' *)
                                  else skips f k leadsep r3)              (* directly under the root: only the '..' *)
                            else r
                        | [] => r
                        end
                      else if c2 =? SL then skips f k leadsep r2      (* skip '/./' *)
                      else r
                  end
                else if c =? SL
                     then (if leadsep then skips f k leadsep r1      (* second separator becomes the leading one *)
                           else skips f k false r2)                  (* trailing separator *)
                else r
            end
        end
  end.

(* void advance(): nextc(); if (current() == '/') skips(true); *)
Definition advance (k : nat) (r : str) : str :=
  match r with
  | [] => []
  | _ :: r' =>
      match r' with
      | c :: _ => if c =? SL then skips (S (length r')) k true r' else r'
      | [] => []
      end
  end.

(* everything the iterator yields from a position: *it, ++it, *it, ... until '\0' *)
Fixpoint iter_seq (fuel : nat) (k : nat) (r : str) : str :=
  match fuel with
  | O => []
  | S f => match r with
           | [] => []
           | c :: _ => c :: iter_seq f k (advance k r)
           end
  end.

(* the constructor *)
Definition iter_all (a b : str) : str :=
  let raw := join_raw a b in
  let k := root_len raw in
  let r := skips (S (length raw)) k false (rev raw) in
  iter_seq (length r) k r.

(* std::string read(): the same characters, re-reversed *)
Definition iter_read (a b : str) : str := rev (iter_all a b).

Definition iter_pattern (pattern base : str) : str :=
  if is_rel_pattern pattern then iter_all base pattern else iter_all pattern [].

Definition iter_path (path base : str) : str :=
  if is_abs path then iter_all path [] else iter_all base path.

(* ------------------------------------------------------------------ *)
(* PathMatch::match, the for(;;) loop.  s, t: what the pattern / path iterators
   still yield (reversed canonical strings); q: path restart position; the
   pattern restart position p is constant. *)
Record mstate : Type := mkM { ms : str; mt : str; mq : str; mstk : list (str * str) }.

Definition opt_is (o : option N) (c : N) : bool :=
  match o with Some x => x =? c | None => false end.

(* const char next = *s; const bool wild = (next == '?' || next == '*');
   while ( *t != 0 && (slash || *t != '/')) { if (wild || next == *t) push; ++t; } *)
Definition next_wild (s2 : str) : bool :=
  match s2 with c :: _ => (c =? QM) || (c =? STAR) | [] => false end.

Fixpoint star_loop (slash : bool) (s2 : str) (t : str) (stk : list (str * str)) : str * list (str * str) :=
  match t with
  | [] => (t, stk)
  | c :: t' =>
      if slash || negb (c =? SL)
      then star_loop slash s2 t' (if next_wild s2 || opt_is (hd_error s2) c then (s2, t) :: stk else stk)
      else (t, stk)
  end.

(* while ( *q != 0 && *q != '/') ++q; *)
Fixpoint drop_nonsep (t : str) : str :=
  match t with
  | [] => []
  | c :: t' => if c =? SL then t else drop_nonsep t'
  end.

(* case '\0': *t == 0 || ( *t == '/' && !real) *)
Definition end_ok (real : bool) (t : str) : bool :=
  match t with [] => true | c :: _ => (c =? SL) && negb real end.

Definition fail_step (p : str) (st : mstate) : res mstate bool :=
  match mstk st with
  | (s', t') :: stk => More (mkM s' t' (mq st) stk)
  | [] =>
      match drop_nonsep (mq st) with
      | c :: q2 => if c =? SL then More (mkM p q2 q2 []) else Done false
      | [] => Done false
      end
  end.

Definition star_split (s1 : str) : bool * str :=
  match s1 with
  | c1 :: s2 => if c1 =? STAR then (true, s2) else (false, s1)
  | [] => (false, s1)
  end.

Definition step (real : bool) (p : str) (st : mstate) : res mstate bool :=
  match ms st with
  | [] => if end_ok real (mt st) then Done true else fail_step p st
  | c :: s1 =>
      if c =? STAR then
        let '(slash, s2) := star_split s1 in
        let '(t', stk') := star_loop slash s2 (mt st) (mstk st) in
        More (mkM s2 t' (mq st) stk')
      else if c =? QM then
        match mt st with
        | c' :: t' => if negb (c' =? SL) then More (mkM s1 t' (mq st) (mstk st)) else fail_step p st
        | [] => fail_step p st
        end
      else
        match mt st with
        | c' :: t' => if c =? c' then More (mkM s1 t' (mq st) (mstk st)) else fail_step p st
        | [] => fail_step p st
        end
  end.

Definition is_nil {A} (l : list A) : bool := match l with [] => true | _ => false end.

(* the loop on already canonicalised, reversed strings *)
Definition match_loop (fuel : positive) (real : bool) (s t : str) : option bool :=
  match run_pos (step real s) fuel (mkM s t t []) with
  | Done b => Some b
  | More _ => None
  end.

Definition is_real (pattern : str) : bool := is_abs pattern || is_rel_pattern pattern.
Definition dir_mismatch (pattern : str) (isdir : bool) : bool :=
  (last pattern 0 =? SL) && negb isdir.

(* the path the loop sees *)
Definition path_seen (pattern path base : str) (isdir : bool) : str :=
  let t0 := iter_path path base in
  if dir_mismatch pattern isdir then drop_nonsep t0 else t0.

(* static bool PathMatch::match(pattern, path, basepath, mode, Syntax::unix);
   None = fuel exhausted *)
Definition pathmatch_fuel (fuel : positive) (pattern path base : str) (isdir : bool) : option bool :=
  if is_nil pattern then Some false
  else if str_eqb pattern [STAR] || str_eqb pattern [STAR; STAR] then Some true
  else if negb (dir_mismatch pattern isdir) && str_eqb pattern path then Some true
  else match_loop fuel (is_real pattern) (iter_pattern pattern base) (path_seen pattern path base isdir).

(* a fuel that always suffices (Path/Termination.v): with L = |t|, B = L + 1 and
   W = (|s| + 1) * B ^ (number of '*' in s), at most W + L * (W + 1) iterations
   are made.  Binary, so its size costs nothing; the loop stops at the answer. *)
Fixpoint nstars (s : str) : nat :=
  match s with
  | [] => 0%nat
  | c :: s' => ((if N.eqb c STAR then 1 else 0) + nstars s')%nat
  end.

Definition loop_weight_N (s t : str) : N :=
  (N.of_nat (length s) + 1) * (N.of_nat (length t) + 1) ^ N.of_nat (nstars s).

Definition loop_fuel (s t : str) : positive :=
  N.succ_pos (loop_weight_N s t + N.of_nat (length t) * (loop_weight_N s t + 1)).

Definition pathmatch_model (pattern path base : str) (isdir : bool) : option bool :=
  pathmatch_fuel (loop_fuel (iter_pattern pattern base) (path_seen pattern path base isdir))
                 pattern path base isdir.

(* PathMatch(patterns, basepath).match(path, mode): std::any_of, left to right *)
Fixpoint pathmatch_any (patterns : list str) (path base : str) (isdir : bool) : option bool :=
  match patterns with
  | [] => Some false
  | p :: ps => match pathmatch_model p path base isdir with
               | None => None
               | Some true => Some true
               | Some false => pathmatch_any ps path base isdir
               end
  end.

(* Entry points for other models (Suppression::isSuppressed calls
   PathMatch::match(fileName, errmsg.getFileName()): empty base path, regular
   file, platform (unix) syntax). *)
Definition pm_model_opt (pattern path : str) : option bool := pathmatch_model pattern path [] false.
Definition pm_model (pattern path : str) : bool :=
  match pm_model_opt pattern path with Some b => b | None => false end.

(* ------------------------------------------------------------------ *)
(* Specification. *)

(* the documented glob language over forward strings; built from the right
   because the documented prefix/suffix rules are about the end of the match *)
Inductive gm : str -> str -> Prop :=
| gm_nil : gm [] []
| gm_lit p t c : c <> STAR -> c <> QM -> gm p t -> gm (p ++ [c]) (t ++ [c])
| gm_qm p t x : x <> SL -> gm p t -> gm (p ++ [QM]) (t ++ [x])
| gm_star p t u : Forall (fun x => x <> SL) u -> gm p t -> gm (p ++ [STAR]) (t ++ u)
| gm_sstar p t u : gm p t -> gm (p ++ [STAR; STAR]) (t ++ u).

(* pattern P (canonical) matches file path T (canonical):
   T = A ++ M ++ B, P matches M exactly, B is empty or starts at a separator
   ("up until a path separator or the end of the pathname"), A is empty or
   (only for patterns that are not absolute/relative) ends with a separator *)
Definition match_spec (real : bool) (P T : str) : Prop :=
  exists A M B, T = A ++ M ++ B /\ gm P M /\
    (B = [] \/ exists B', B = SL :: B') /\
    (A = [] \/ (real = false /\ exists A', A = A' ++ [SL])).

(* the rules applied to what the iterators read (used by the proofs) *)
Definition pathmatch_spec_iter (pattern path base : str) (isdir : bool) : Prop :=
  pattern <> [] /\
  match_spec (is_real pattern) (rev (iter_pattern pattern base)) (rev (path_seen pattern path base isdir)).

(* executable form of the specification, on the reversed strings *)
Fixpoint star_any (f : str -> bool) (t : str) : bool :=
  f t || match t with [] => false | _ :: t' => star_any f t' end.
Fixpoint star_ns (f : str -> bool) (t : str) : bool :=
  f t || match t with [] => false | c :: t' => if c =? SL then false else star_ns f t' end.

Fixpoint rmatch (real : bool) (s : str) : str -> bool :=
  match s with
  | [] => end_ok real
  | c :: s1 =>
      if c =? STAR then
        match s1 with
        | c1 :: s2 => if c1 =? STAR then star_any (rmatch real s2) else star_ns (rmatch real s1)
        | [] => star_ns (rmatch real s1)
        end
      else if c =? QM then
        fun t => match t with c' :: t' => negb (c' =? SL) && rmatch real s1 t' | [] => false end
      else
        fun t => match t with c' :: t' => (c =? c') && rmatch real s1 t' | [] => false end
  end.

(* later restart positions: directly after a separator *)
Fixpoint rrest (real : bool) (p : str) (q : str) : bool :=
  match q with
  | [] => false
  | c :: q' => if c =? SL then rmatch real p q' || rrest real p q' else rrest real p q'
  end.

Definition rsearch (real : bool) (p t : str) : bool := rmatch real p t || rrest real p t.

Definition pathmatch_spec_iter_b (pattern path base : str) (isdir : bool) : bool :=
  negb (is_nil pattern) &&
  rsearch (is_real pattern) (iter_pattern pattern base) (path_seen pattern path base isdir).

(* ------------------------------------------------------------------ *)
(* Canonical form, declaratively: split into components, drop "" and ".",
   ".." removes the previous component (nothing to remove: dropped), keep the root *)
Definition comp_step (stack : list str) (c : str) : list str :=
  if is_nil c then stack
  else if str_eqb c [DOT] then stack
  else if str_eqb c [DOT; DOT] then tl stack
  else c :: stack.

Definition canon_comps (cs : list str) : list str := rev (fold_left comp_step cs []).

Definition canon (raw : str) : str :=
  let rooted := is_abs raw in
  let body := join [SL] (canon_comps (split SL raw)) in
  if rooted then SL :: body else body.

(* a path that is already canonical: components are non-empty, not "." / "..",
   contain no separator *)
Definition clean_comp (c : str) : bool :=
  negb (is_nil c) && negb (str_eqb c [DOT]) && negb (str_eqb c [DOT; DOT]) && forallb (fun x => negb (x =? SL)) c.

(* The documented rules, end to end: canonicalise pattern and path (a relative
   pattern and a relative path are taken relative to the base path), a pattern
   that ends with a separator does not see the last component of a regular
   file's path, then match_spec. *)
Definition canon_pattern (pattern base : str) : str :=
  canon (if is_rel_pattern pattern then join_raw base pattern else join_raw pattern []).
Definition canon_path (path base : str) : str :=
  canon (if is_abs path then join_raw path [] else join_raw base path).
(* remove the final component, keep the separator in front of it *)
Definition drop_last_comp (T : str) : str := rev (drop_nonsep (rev T)).

Definition spec_path (pattern path base : str) (isdir : bool) : str :=
  let T := canon_path path base in
  if dir_mismatch pattern isdir then drop_last_comp T else T.

Definition pathmatch_spec (pattern path base : str) (isdir : bool) : Prop :=
  pattern <> [] /\
  match_spec (is_real pattern) (canon_pattern pattern base) (spec_path pattern path base isdir).

Definition pathmatch_spec_b (pattern path base : str) (isdir : bool) : bool :=
  negb (is_nil pattern) &&
  rsearch (is_real pattern) (rev (canon_pattern pattern base)) (rev (spec_path pattern path base isdir)).

(* the iterators read the documented canonical forms of this pattern and path *)
Definition reads_canon_b (pattern path base : str) : bool :=
  str_eqb (rev (iter_pattern pattern base)) (canon_pattern pattern base) &&
  str_eqb (rev (iter_path path base)) (canon_path path base).

(* ------------------------------------------------------------------ *)
(* Path::getFilenameExtension (case sensitive file system), Path::identify
   (cppHeaderProbe = false), Path::acceptFile *)
Fixpoint find_last_dot (s : str) (cur : option str) : option str :=
  match s with
  | [] => cur
  | c :: s' => find_last_dot s' (if c =? DOT then Some s else cur)
  end.

Definition file_ext (path : str) : str :=
  match find_last_dot path None with Some e => e | None => [] end.

Inductive lang := LNone | LC | LCPP.

Definition mem_str (x : str) (l : list str) : bool := existsb (str_eqb x) l.

Definition cpp_src_exts : list str :=
  [[46;99;112;112]; [46;99;120;120]; [46;99;99]; [46;99;43;43]; [46;116;112;112]; [46;116;120;120]; [46;105;112;112]; [46;105;120;120]].
Definition c_src_exts : list str := [[46;99]; [46;99;108]].
Definition header_exts : list str := [[46;104]; [46;104;112;112]; [46;104;43;43]; [46;104;120;120]; [46;104;104]].

(* returns (language, header) *)
Definition identify (path : str) : lang * bool :=
  let ext := file_ext path in
  if str_eqb ext [46;67] then (LCPP, false)
  else if mem_str ext c_src_exts then (LC, false)
  else
    let ext := map to_lower ext in
    if str_eqb ext [46;104] then (LC, true)
    else if mem_str ext cpp_src_exts then (LCPP, false)
    else if mem_str ext header_exts then (LCPP, true)
    else (LNone, false).

Definition lang_is_none (l : lang) : bool := match l with LNone => true | _ => false end.

Definition accept_file (extra : list str) (path : str) : bool :=
  let '(l, h) := identify path in
  (negb (lang_is_none l) && negb h) || mem_str (file_ext path) extra.

(* ------------------------------------------------------------------ *)
(* simplecpp::simplifyPath (Path::simplifyPath), index based like the code *)
Definition repl_bsl (s : str) : str := map (fun c => if c =? BSL then SL else c) s.

Fixpoint dedup_sl (s : str) : str :=
  match s with
  | c :: s' =>
      match s' with
      | c2 :: _ => if (c =? SL) && (c2 =? SL) then dedup_sl s' else c :: dedup_sl s'
      | [] => [c]
      end
  | [] => []
  end.

(* remove "./" where it starts a component; prev = pos == 0 || path[pos-1] == '/' *)
Fixpoint rm_dotslash (fuel : nat) (prev : bool) (s : str) : str :=
  match fuel with
  | O => s
  | S f =>
      match s with
      | c :: s1 =>
          match s1 with
          | c2 :: s2 =>
              if (c =? DOT) && (c2 =? SL) then
                if prev then rm_dotslash f prev s2 else c :: c2 :: rm_dotslash f true s2
              else c :: rm_dotslash f (c =? SL) s1
          | [] => [c]
          end
      | [] => []
      end
  end.

Fixpoint find_from (pat : str) (pos : nat) (s : str) (idx : nat) : option nat :=
  match s with
  | [] => if is_nil pat && Nat.leb pos idx then Some idx else None
  | _ :: s' => if Nat.leb pos idx && starts_with pat s then Some idx else find_from pat pos s' (S idx)
  end.

(* rfind('/', last): greatest index <= last holding '/' *)
Fixpoint rfind_sl (s : str) (last : nat) (idx : nat) (cur : option nat) : option nat :=
  match s with
  | [] => cur
  | c :: s' => if Nat.ltb last idx then cur else rfind_sl s' last (S idx) (if c =? SL then Some idx else cur)
  end.

Fixpoint dotdot_loop (fuel : nat) (pos : nat) (path : str) : str :=
  match fuel with
  | O => path
  | S f =>
      match find_from [SL; DOT; DOT] pos path 0 with
      | None => path
      | Some pos =>
          if Nat.ltb (pos + 3) (length path) && negb (nth (pos + 3) path 0 =? SL)
          then dotdot_loop f (S pos) path
          else
            (* pos - 1U wraps around for pos == 0: rfind over the whole string, substr to the end *)
            let last := if Nat.eqb pos 0 then length path else (pos - 1)%nat in
            let pos1 := match rfind_sl path last 0 None with None => 0%nat | Some i => S i end in
            let prev := if Nat.leb pos1 pos then firstn (pos - pos1) (skipn pos1 path) else skipn pos1 path in
            if str_eqb prev [DOT; DOT] then dotdot_loop f (S pos) path
            else
              let cnt := if Nat.leb pos1 (pos + 4) then (pos + 4 - pos1)%nat else length path in
              let path1 := firstn pos1 path ++ skipn (pos1 + cnt) path in
              let path2 := if is_nil path1 then [DOT] else path1 in
              dotdot_loop f (if Nat.eqb pos1 0 then 1%nat else (pos1 - 1)%nat) path2
      end
  end.

Definition simplify_path (p : str) : str :=
  if is_nil p then p
  else
    let p1 := repl_bsl p in
    let unc := starts_with [SL; SL] p1 in
    let p2 := dedup_sl p1 in
    let p3 := rm_dotslash (S (length p2)) true p2 in
    let p4 := if ends_with [SL; DOT] p3 then removelast p3 else p3 in
    let p5 := dotdot_loop (2 * length p4 + 2) 1 p4 in
    if unc then SL :: p5 else p5.

(* ------------------------------------------------------------------ *)
(* FileLister::addFiles / addFiles2 (POSIX), recursive.
   A directory is enumerated in the order of its `children` list (readdir order
   is not specified: the theorems quantify over every order). *)
Inductive tree : Type :=
| File (name : str)
| Dir (name : str) (children : list tree).

Definition tname (t : tree) : str := match t with File n => n | Dir n _ => n end.

Section Lister.
  (* ignored.match(path, mode): true = ignored; isdir = Filemode::directory *)
  Variable ign : str -> bool -> bool.
  (* Path::acceptFile(path, extra) *)
  Variable acc : str -> bool.
  (* addFiles2(files, path, ...) where `path` names the node t *)
  Fixpoint walk (path : str) (t : tree) {struct t} : list str :=
    if ign path false then []
    else
      match t with
      | File _ => [path]
      | Dir _ ch =>
          flat_map (fun c =>
                      let np := path ++ SL :: tname c in
                      match c with
                      | Dir _ _ => if ign np true then [] else walk np c
                      | File _ => if acc np && negb (ign np false) then [np] else []
                      end) ch
      end.

  (* the files that are to be analysed below `path`, declaratively *)
  Inductive selected : str -> tree -> str -> Prop :=
  | sel_file path n : ign path false = false -> selected path (File n) path
  | sel_dir_file path n ch c :
      ign path false = false -> In (File c) ch ->
      acc (path ++ SL :: c) = true -> ign (path ++ SL :: c) false = false ->
      selected path (Dir n ch) (path ++ SL :: c)
  | sel_dir_dir path n ch n' ch' p :
      ign path false = false -> In (Dir n' ch') ch ->
      ign (path ++ SL :: n') true = false ->
      selected (path ++ SL :: n') (Dir n' ch') p ->
      selected path (Dir n ch) p.
End Lister.

(* the same directory tree enumerated in another order, at every level *)
Inductive perm_tree : tree -> tree -> Prop :=
| pt_file n : perm_tree (File n) (File n)
| pt_dir n ch1 ch2 : perm_list ch1 ch2 -> perm_tree (Dir n ch1) (Dir n ch2)
with perm_list : list tree -> list tree -> Prop :=
| pl_nil : perm_list [] []
| pl_skip t1 t2 l1 l2 : perm_tree t1 t2 -> perm_list l1 l2 -> perm_list (t1 :: l1) (t2 :: l2)
| pl_swap a b l : perm_list (a :: b :: l) (b :: a :: l)
| pl_trans l1 l2 l3 : perm_list l1 l2 -> perm_list l2 l3 -> perm_list l1 l3.

(* std::string operator< : lexicographic on unsigned chars *)
Fixpoint str_ltb (a b : str) : bool :=
  match a, b with
  | [], [] => false
  | [], _ :: _ => true
  | _ :: _, [] => false
  | x :: a', y :: b' => (x <? y) || ((x =? y) && str_ltb a' b')
  end.

Definition str_leb (a b : str) : bool := negb (str_ltb b a).

Fixpoint insert_sorted (x : str) (l : list str) : list str :=
  match l with
  | [] => [x]
  | y :: l' => if str_leb x y then x :: l else y :: insert_sorted x l'
  end.

Fixpoint sort_paths (l : list str) : list str :=
  match l with
  | [] => []
  | x :: l' => insert_sorted x (sort_paths l')
  end.

(* FileLister::addFiles: strip one trailing '/', walk, sort *)
Definition corrected (path : str) : str :=
  if ends_with [SL] path then removelast path else path.

Definition list_files (ign : str -> bool -> bool) (acc : str -> bool) (path : str) (t : tree) : list str :=
  sort_paths (walk ign acc (corrected path) t).

(* CmdLineParser::fillSettingsFromArgs for path names: every input path is
   listed and sorted on its own, results are concatenated, filtered by
   --file-filter, and later duplicates (same key = absolute path) dropped *)
Fixpoint dedup_by (key : str -> str) (seen : list str) (l : list str) : list str :=
  match l with
  | [] => []
  | x :: l' => if mem_str (key x) seen then dedup_by key seen l' else x :: dedup_by key (key x :: seen) l'
  end.

Definition select_files (ign : str -> bool -> bool) (acc : str -> bool) (filt : option (str -> bool))
           (key : str -> str) (inputs : list (str * tree)) : list str :=
  let all := flat_map (fun it => list_files ign acc (fst it) (snd it)) inputs in
  let kept := match filt with Some f => filter f all | None => all end in
  dedup_by key [] kept.

(* ------------------------------------------------------------------ *)
(* Syntactically canonical raw strings, checked on the reversed string:
   comp_ok r: the component that ends here (r = its characters backwards,
   then the rest) is not "", "." or ".." *)
Definition comp_ok (r : str) : bool :=
  match r with
  | [] => true
  | c :: r2 =>
      if c =? DOT then
        match r2 with
        | [] => false
        | c2 :: r3 =>
            if c2 =? DOT then
              match r3 with
              | [] => true
              | c3 :: _ => negb (c3 =? SL)
              end
            else negb (c2 =? SL)
        end
      else negb (c =? SL)
  end.

(* every separator (except a root) is followed, leftwards, by such a component *)
Fixpoint all_ok (k : nat) (r : str) : bool :=
  match r with
  | [] => true
  | _ :: r' =>
      match r' with
      | c :: r'' => (if c =? SL then negb (gt_root k r') || comp_ok r'' else true) && all_ok k r'
      | [] => true
      end
  end.

Definition canonical_b (raw : str) : bool :=
  let k := root_len raw in
  let r := rev raw in
  (negb (gt_root k r) || comp_ok r) && all_ok k r.

(* ------------------------------------------------------------------ *)
(* Syntax::windows (as compiled on a non-Windows build: Path::isAbsolute is the
   unix one).  current() maps '\\' to '/' and folds case; the root component
   may be "/", "//", "//?" "//./" or a drive "c:" / "c:/"; otherwise the
   iterator and the matcher are the same code. *)
Definition wmap (c : N) : N := if c =? BSL then SL else to_lower c.
Definition issep_w (c : N) : bool := (c =? SL) || (c =? BSL).

(* root length of the first non-empty string p: p[i] past the end reads '\0' *)
Definition root_len_w (p : str) : nat :=
  let at_ i := nth i p 0 in
  if issep_w (at_ 0%nat) then
    if issep_w (at_ 1%nat) then
      if (at_ 2%nat =? DOT) || (at_ 2%nat =? QM) then
        if issep_w (at_ 3%nat) then 4%nat else 3%nat
      else 2%nat
    else 1%nat
  else if is_alpha (at_ 0%nat) && (at_ 1%nat =? 58) then
    if issep_w (at_ 2%nat) then 3%nat else 2%nat
  else 0%nat.

Definition iter_all_w (a b : str) : str :=
  let raw := join_raw a b in
  let first := match cstr a with [] => cstr b | _ => cstr a end in
  let k := root_len_w first in
  let r := skips (S (length raw)) k false (rev (map wmap raw)) in
  iter_seq (length r) k r.

Definition iter_read_w (a b : str) : str := rev (iter_all_w a b).

Definition iter_pattern_w (pattern base : str) : str :=
  if is_rel_pattern pattern then iter_all_w base pattern else iter_all_w pattern [].
Definition iter_path_w (path base : str) : str :=
  if is_abs path then iter_all_w path [] else iter_all_w base path.

Definition dir_mismatch_w (pattern : str) (isdir : bool) : bool :=
  issep_w (last pattern 0) && negb isdir.

Definition path_seen_w (pattern path base : str) (isdir : bool) : str :=
  let t0 := iter_path_w path base in
  if dir_mismatch_w pattern isdir then drop_nonsep t0 else t0.

Definition pathmatch_w_fuel (fuel : positive) (pattern path base : str) (isdir : bool) : option bool :=
  if is_nil pattern then Some false
  else if str_eqb pattern [STAR] || str_eqb pattern [STAR; STAR] then Some true
  else if negb (dir_mismatch_w pattern isdir) && str_eqb pattern path then Some true
  else match_loop fuel (is_real pattern) (iter_pattern_w pattern base) (path_seen_w pattern path base isdir).

Definition pathmatch_w (pattern path base : str) (isdir : bool) : option bool :=
  pathmatch_w_fuel (loop_fuel (iter_pattern_w pattern base) (path_seen_w pattern path base isdir))
                   pattern path base isdir.

(* the documented rules on what the windows iterators read (separators unified, case folded) *)
Definition pathmatch_w_spec (pattern path base : str) (isdir : bool) : Prop :=
  pattern <> [] /\
  match_spec (is_real pattern) (rev (iter_pattern_w pattern base)) (rev (path_seen_w pattern path base isdir)).

Definition pathmatch_w_spec_b (pattern path base : str) (isdir : bool) : bool :=
  negb (is_nil pattern) &&
  rsearch (is_real pattern) (iter_pattern_w pattern base) (path_seen_w pattern path base isdir).

(* ------------------------------------------------------------------ *)
(* The domain of the end-to-end theorem (C31_pathmatch_total), executable for
   the check: pattern and path (joined with the base path where the code does)
   are rooted or do not begin with a ".." component, and the pattern is
   absolute/relative, or the base path is empty, or its canonical form is not
   empty.  FastProofs.in_domain_ok relates it to the premises of the theorem. *)
Definition dom_canon_ok (raw : str) : bool :=
  is_abs raw || negb (str_eqb (hd [] (split SL raw)) [DOT; DOT]).

Definition in_domain (pattern path base : str) : bool :=
  dom_canon_ok (if is_rel_pattern pattern then join_raw base pattern else join_raw pattern []) &&
  dom_canon_ok (if is_abs path then join_raw path [] else join_raw base path) &&
  (is_real pattern || is_nil (cstr base) || negb (is_nil (canon_pattern pattern base))).

(* ------------------------------------------------------------------ *)
(* Canonical form in windows syntax: unify separators and fold case, keep the
   root component (drive / UNC prefix) as it is, canonicalise the rest *)
Definition first_of (a b : str) : str := match cstr a with [] => cstr b | _ => cstr a end.

Definition canon_w (a b : str) : str :=
  let m := map wmap (join_raw a b) in
  let k := root_len_w (first_of a b) in
  firstn k m ++ join [SL] (canon_comps (split SL (skipn k m))).

(* domain of the windows canonical-form theorem: the root component ends with a
   separator ("c:/", "//?/", "//", "/"; not the drive-relative "c:x"), or there is
   no root and the (non-empty) string does not begin with a ".." component *)
Definition canon_ok_w (a b : str) : bool :=
  let m := map wmap (join_raw a b) in
  let k := root_len_w (first_of a b) in
  Nat.leb k (length m) &&
  match k with
  | O => negb (is_nil m) && negb (is_abs m) && negb (str_eqb (hd [] (split SL m)) [DOT; DOT])
  | S j => nth j m 0 =? SL
  end.

(* the documented rules over the windows canonical forms *)
Definition canon_pattern_w (pattern base : str) : str :=
  if is_rel_pattern pattern then canon_w base pattern else canon_w pattern [].
Definition canon_path_w (path base : str) : str :=
  if is_abs path then canon_w path [] else canon_w base path.
Definition canon_ok_pattern_w (pattern base : str) : bool :=
  if is_rel_pattern pattern then canon_ok_w base pattern else canon_ok_w pattern [].
Definition canon_ok_path_w (path base : str) : bool :=
  if is_abs path then canon_ok_w path [] else canon_ok_w base path.

Definition pathmatch_w_spec_canon (pattern path base : str) (isdir : bool) : Prop :=
  pattern <> [] /\
  match_spec (is_real pattern) (canon_pattern_w pattern base)
             (let T := canon_path_w path base in
              if dir_mismatch_w pattern isdir then drop_last_comp T else T).
