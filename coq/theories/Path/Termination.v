(* C31: the PathMatch::match loop terminates; loop_fuel always suffices.
   Potential of a state (s, t, q, stack), with L = |path|, B = L + 1,
   W x = (|x| + 1) * B ^ (stars of x):
     W s + sum over the stack of W (saved pattern) + |q| * (W p + 1).
   Every iteration that does not answer lowers it by at least one. *)
From CV Require Import Base.Bytes Base.Glob Path.Defs Path.MatchProofs Path.SpecProofs Path.CanonProofs.
From Coq Require Import Arith Lia.
Local Open Scope nat_scope.

(* ---------- run_pos = iterate Pos.to_nat times ---------- *)
Fixpoint run_nat {St Rs : Type} (step : St -> res St Rs) (n : nat) (s : St) : res St Rs :=
  match n with
  | O => More s
  | S n' => match step s with
            | Done r => Done r
            | More s' => run_nat step n' s'
            end
  end.

Lemma run_nat_add {St Rs} (step : St -> res St Rs) n m : forall s,
  run_nat step (n + m) s = match run_nat step n s with
                           | Done r => Done r
                           | More s' => run_nat step m s'
                           end.
Proof.
  induction n as [|n IH]; intros s; [reflexivity|].
  cbn [plus run_nat]. destruct (step s) as [s'|r]; [apply IH|reflexivity].
Qed.

Lemma run_pos_nat {St Rs} (step : St -> res St Rs) p : forall s,
  run_pos step p s = run_nat step (Pos.to_nat p) s.
Proof.
  induction p as [p IH|p IH|]; intros s; cbn [run_pos].
  - rewrite Pos2Nat.inj_xI. replace (S (2 * Pos.to_nat p)) with (1 + (Pos.to_nat p + Pos.to_nat p)) by lia.
    rewrite run_nat_add. cbn [run_nat]. destruct (step s) as [s1|r]; [|reflexivity].
    rewrite run_nat_add, <- IH. destruct (run_pos step p s1); [apply IH|reflexivity].
  - rewrite Pos2Nat.inj_xO. replace (2 * Pos.to_nat p) with (Pos.to_nat p + Pos.to_nat p) by lia.
    rewrite run_nat_add, <- IH. destruct (run_pos step p s); [apply IH|reflexivity].
  - change (Pos.to_nat 1) with 1. cbn [run_nat]. destruct (step s); reflexivity.
Qed.

Section Bound.
  Variable L : nat.
  Let B := S L.

  Definition W (s : str) : nat := (length s + 1) * B ^ nstars s.
  Definition stk_w (stk : list (str * str)) : nat := list_sum (map (fun e => W (fst e)) stk).

  Variable p : str.

  Definition pot (st : mstate) : nat :=
    W (ms st) + stk_w (mstk st) + length (mq st) * (W p + 1).

  Definition inv (st : mstate) : Prop := length (mt st) <= L /\ length (mq st) <= L.

  Lemma pow_pos k : 1 <= B ^ k.
  Proof. induction k; cbn; unfold B in *; lia. Qed.

  Lemma W_pos s : 1 <= W s.
  Proof. unfold W. pose proof (pow_pos (nstars s)). nia. Qed.

  Lemma stk_w_cons e l : stk_w (e :: l) = W (fst e) + stk_w l.
  Proof. reflexivity. Qed.
  Lemma stk_w_nil : stk_w [] = 0.
  Proof. reflexivity. Qed.

  Lemma stk_w_app a b : stk_w (a ++ b) = stk_w a + stk_w b.
  Proof. unfold stk_w. rewrite map_app, list_sum_app. reflexivity. Qed.

  (* the star loop pushes at most |t| entries, all with the same pattern *)
  Lemma star_loop_bound slash s2 : forall t stk,
    exists new, snd (star_loop slash s2 t stk) = new ++ stk /\
                stk_w new <= length t * W s2 /\
                length (fst (star_loop slash s2 t stk)) <= length t.
  Proof.
    induction t as [|c t IH]; intros stk; cbn [star_loop].
    - exists []. cbn. repeat split; lia.
    - destruct (slash || negb (N.eqb c SL)).
      + destruct (next_wild s2 || opt_is (hd_error s2) c); cbn iota.
        * destruct (IH ((s2, c :: t) :: stk)) as (new & Hs & Hw & Hl).
          exists (new ++ [(s2, c :: t)]). rewrite <- app_assoc. split; [exact Hs|]. split.
          -- rewrite stk_w_app. rewrite stk_w_cons. change (stk_w []) with 0. cbn [fst length]. rewrite Nat.mul_succ_l. lia.
          -- cbn [length]. apply le_S. exact Hl.
        * destruct (IH stk) as (new & Hs & Hw & Hl). exists new. cbn [length]. repeat split; [exact Hs|lia|lia].
      + exists []. cbn. repeat split; lia.
  Qed.

  Lemma star_weight s1 : (W (snd (star_split s1))) * B + 1 <= W (STAR :: s1).
  Proof.
    unfold W. cbn [nstars length]. change (N.eqb STAR STAR) with true. cbn iota.
    destruct s1 as [|c1 s2]; cbn [star_split].
    - cbn. unfold B. lia.
    - destruct (N.eqb c1 STAR) eqn:Hc; cbn [snd nstars length]; rewrite ?Hc.
      + pose proof (pow_pos (nstars s2)) as Hp. cbn [plus Nat.pow].
        set (Pw := B ^ nstars s2) in *. assert (HB : 1 <= B) by (unfold B; lia).
        assert (H1 : Pw <= B * Pw) by nia. assert (H2 : B * Pw <= B * (B * Pw)) by nia.
        set (Q := B * Pw) in *. set (Q2 := B * Q) in *.
        replace ((length s2 + 1) * Pw * B) with ((length s2 + 1) * Q) by (unfold Q; ring). nia.
      + pose proof (pow_pos (nstars s2)) as Hp. cbn [plus Nat.pow].
        set (Pw := B ^ nstars s2) in *. set (Q := B * Pw).
        replace ((S (length s2) + 1) * Pw * B) with ((S (length s2) + 1) * Q) by (unfold Q; ring).
        assert (1 <= Q) by (unfold Q, B; nia). nia.
  Qed.

  Lemma W_tail c s1 : N.eqb c STAR = false -> W s1 + 1 <= W (c :: s1).
  Proof.
    intros H. unfold W. cbn [nstars length]. rewrite H. cbn [plus].
    pose proof (pow_pos (nstars s1)). nia.
  Qed.

  Lemma drop_nonsep_len q : length (drop_nonsep q) <= length q.
  Proof. induction q as [|x q IH]; cbn [drop_nonsep]; [lia|]. destruct (N.eqb x SL); cbn [length]; lia. Qed.

  Lemma fail_decr st st' : inv st -> Forall (fun e => length (snd e) <= L) (mstk st) ->
    fail_step p st = More st' ->
    (inv st' /\ Forall (fun e => length (snd e) <= L) (mstk st')) /\ pot st' < pot st.
  Proof.
    intros [Ht Hq] Hk. unfold fail_step. destruct (mstk st) as [|[s' t'] stk] eqn:Hs.
    - destruct (drop_nonsep (mq st)) as [|c q2] eqn:Hd; [discriminate|].
      destruct (N.eqb c SL); [|discriminate]. intros H. injection H as <-.
      pose proof (drop_nonsep_len (mq st)) as Hl. rewrite Hd in Hl. cbn [length] in Hl.
      split; [split; [split; cbn [mt mq]; lia|constructor]|].
      unfold pot. cbn [ms mt mq mstk]. rewrite Hs. change (stk_w []) with 0.
      pose proof (W_pos (ms st)). nia.
    - intros H. injection H as <-. inversion Hk as [|? ? Hh Ht']; subst. cbn [snd] in Hh.
      split; [split; [split; cbn [mt mq]; lia|exact Ht']|].
      unfold pot. cbn [ms mt mq mstk]. rewrite Hs. rewrite stk_w_cons. cbn [fst].
      pose proof (W_pos (ms st)). lia.
  Qed.

  Lemma step_decr real st st' : inv st -> Forall (fun e => length (snd e) <= L) (mstk st) ->
    step real p st = More st' ->
    (inv st' /\ Forall (fun e => length (snd e) <= L) (mstk st')) /\ pot st' < pot st.
  Proof.
    intros Hi Hk. pose proof Hi as [Ht Hq]. unfold step.
    destruct (ms st) as [|c s1] eqn:Hms.
    - destruct (end_ok real (mt st)); [discriminate|]. apply fail_decr; assumption.
    - destruct (N.eqb c STAR) eqn:Hcs.
      + apply N.eqb_eq in Hcs. subst c.
        pose proof (star_weight s1) as Hw.
        destruct (star_split s1) as [slash s2] eqn:Hsp. cbn [snd] in Hw.
        destruct (star_loop_bound slash s2 (mt st) (mstk st)) as (new & Hs & Hnw & Hl).
        destruct (star_loop slash s2 (mt st) (mstk st)) as [t' stk'] eqn:Hlp. cbn [fst snd] in Hs, Hl.
        intros H. injection H as <-. subst stk'.
        split; [split; [split; cbn [mt mq]; lia|]|].
        * cbn [mstk]. apply Forall_app. split; [|exact Hk].
          (* entries pushed by the loop are suffixes of t *)
          assert (Hgen : forall t stk, length t <= L ->
                    forall new, snd (star_loop slash s2 t stk) = new ++ stk ->
                    Forall (fun e => length (snd e) <= L) new).
          { induction t as [|c t IH]; intros stk HtL new0; cbn [star_loop].
            - cbn [snd]. intros Hn. assert (new0 = []) by (apply (app_inv_tail stk); rewrite app_nil_l; symmetry; exact Hn).
              subst. constructor.
            - cbn [length] in HtL. destruct (slash || negb (N.eqb c SL)).
              + destruct (next_wild s2 || opt_is (hd_error s2) c); cbn iota; intros Hn.
                * destruct (star_loop_bound slash s2 t ((s2, c :: t) :: stk)) as (n1 & Hs1 & _ & _).
                  pose proof (eq_trans (eq_sym Hs1) Hn) as Hn'.
                  assert (new0 = n1 ++ [(s2, c :: t)]).
                  { apply (app_inv_tail stk). rewrite <- app_assoc. cbn [app]. symmetry. exact Hn'. }
                  subst new0. apply Forall_app. split.
                  -- apply (IH ((s2, c :: t) :: stk)); [lia|exact Hs1].
                  -- constructor; [cbn [snd length]; lia|constructor].
                * apply (IH stk); [lia|exact Hn].
              + cbn [snd]. intros Hn. assert (new0 = []) by (apply (app_inv_tail stk); rewrite app_nil_l; symmetry; exact Hn).
                subst. constructor. }
          apply (Hgen (mt st) (mstk st) Ht). rewrite Hlp. reflexivity.
        * unfold pot. cbn [ms mt mq mstk]. rewrite Hms, stk_w_app.
          assert (length (mt st) * W s2 <= L * W s2) by (apply Nat.mul_le_mono_r; exact Ht).
          unfold B in Hw. lia.
      + pose proof (W_tail c s1 Hcs) as Hw. destruct (N.eqb c QM).
        * destruct (mt st) as [|c' t'] eqn:Hmt; [apply fail_decr; assumption|].
          destruct (negb (N.eqb c' SL)); [|apply fail_decr; assumption].
          intros H. injection H as <-. cbn [length] in Ht.
          split; [split; [split; cbn [mt mq]; lia|exact Hk]|].
          unfold pot. cbn [ms mt mq mstk]. rewrite Hms. lia.
        * destruct (mt st) as [|c' t'] eqn:Hmt; [apply fail_decr; assumption|].
          destruct (N.eqb c c'); [|apply fail_decr; assumption].
          intros H. injection H as <-. cbn [length] in Ht.
          split; [split; [split; cbn [mt mq]; lia|exact Hk]|].
          unfold pot. cbn [ms mt mq mstk]. rewrite Hms. lia.
  Qed.

  Lemma run_nat_answers real n : forall st, inv st -> Forall (fun e => length (snd e) <= L) (mstk st) ->
    pot st < n -> exists b, run_nat (step real p) n st = Done b.
  Proof.
    induction n as [|n IH]; intros st Hi Hk Hp; [lia|].
    cbn [run_nat]. destruct (step real p st) as [st'|b] eqn:Hst; [|exists b; reflexivity].
    destruct (step_decr real st st' Hi Hk Hst) as [[Hi' Hk'] Hd].
    apply IH; [exact Hi'|exact Hk'|lia].
  Qed.
End Bound.

Lemma loop_fuel_nat s t :
  Pos.to_nat (loop_fuel s t) = S (W (length t) s + length t * (W (length t) s + 1)).
Proof.
  unfold loop_fuel.
  assert (Hw : N.to_nat (loop_weight_N s t) = W (length t) s).
  { unfold loop_weight_N, W. rewrite N2Nat.inj_mul, N2Nat.inj_pow, !N2Nat.inj_add, !Nat2N.id.
    change (N.to_nat 1) with 1. replace (length t + 1) with (S (length t)) by lia. reflexivity. }
  rewrite <- Hw.
  replace (Pos.to_nat (N.succ_pos (loop_weight_N s t + N.of_nat (length t) * (loop_weight_N s t + 1))))
    with (S (N.to_nat (loop_weight_N s t + N.of_nat (length t) * (loop_weight_N s t + 1)))).
  - rewrite N2Nat.inj_add, N2Nat.inj_mul, N2Nat.inj_add, Nat2N.id. reflexivity.
  - generalize (loop_weight_N s t + N.of_nat (length t) * (loop_weight_N s t + 1))%N. intros x.
    destruct x as [|q]; cbn; [reflexivity|]. rewrite Pos2Nat.inj_succ. reflexivity.
Qed.

(* the loop, run with loop_fuel, always answers, and the answer is the specification *)
Theorem match_loop_total real s t :
  exists b, match_loop (loop_fuel s t) real s t = Some b /\ b = rsearch real s t.
Proof.
  unfold match_loop. rewrite run_pos_nat, loop_fuel_nat.
  destruct (run_nat_answers (length t) s real (S (W (length t) s + length t * (W (length t) s + 1))) (mkM s t t [])) as [b Hb].
  - split; cbn [mt mq]; lia.
  - constructor.
  - unfold pot. cbn [ms mt mq mstk]. change (stk_w (length t) []) with 0. lia.
  - exists b. split.
    + rewrite Hb. reflexivity.
    + apply (match_loop_spec (loop_fuel s t) real s t b). unfold match_loop. rewrite run_pos_nat, loop_fuel_nat, Hb. reflexivity.
Qed.

Theorem pathmatch_model_total pattern path base isdir :
  exists b, pathmatch_model pattern path base isdir = Some b.
Proof.
  unfold pathmatch_model, pathmatch_fuel.
  destruct (is_nil pattern); [eexists; reflexivity|].
  destruct (str_eqb pattern [STAR] || str_eqb pattern [STAR; STAR]); [eexists; reflexivity|].
  destruct (negb (dir_mismatch pattern isdir) && str_eqb pattern path); [eexists; reflexivity|].
  destruct (match_loop_total (is_real pattern) (iter_pattern pattern base) (path_seen pattern path base isdir)) as (b & Hb & _).
  exists b. exact Hb.
Qed.

(* PathMatch::match always answers, and the answer is the documented rules *)
Theorem pathmatch_total pattern path base isdir :
  fast_ok pattern base = true ->
  reads_canon_b pattern path base = true ->
  exists b, pathmatch_model pattern path base isdir = Some b /\
            (b = true <-> pathmatch_spec pattern path base isdir).
Proof.
  intros Hf Hc. destruct (pathmatch_model_total pattern path base isdir) as [b Hb].
  exists b. split; [exact Hb|].
  exact (pathmatch_fuel_spec _ pattern path base isdir b Hf Hc Hb).
Qed.

(* the same with the syntactic premise: pattern and path (after joining with the
   base path where applicable) are rooted or do not begin with a ".." component *)
Theorem pathmatch_fuel_spec_ok fuel pattern path base isdir b :
  fast_ok pattern base = true ->
  canon_ok (pat_raw pattern base) = true -> canon_ok (path_raw path base) = true ->
  pathmatch_fuel fuel pattern path base isdir = Some b ->
  (b = true <-> pathmatch_spec pattern path base isdir).
Proof.
  intros Hf Hp Ht. apply pathmatch_fuel_spec; [exact Hf|apply reads_canon_of_ok; assumption].
Qed.

Theorem pathmatch_total_ok pattern path base isdir :
  fast_ok pattern base = true ->
  canon_ok (pat_raw pattern base) = true -> canon_ok (path_raw path base) = true ->
  exists b, pathmatch_model pattern path base isdir = Some b /\
            (b = true <-> pathmatch_spec pattern path base isdir).
Proof.
  intros Hf Hp Ht. apply pathmatch_total; [exact Hf|apply reads_canon_of_ok; assumption].
Qed.
