(* C31: FileLister::addFiles = the sorted list of exactly the selected files,
   independent of the order in which directories are enumerated. *)
From CV Require Import Base.Bytes Base.Glob Path.Defs.
From Coq Require Import Permutation Sorted.
Local Open Scope N_scope.

(* ---------- induction over trees with their children ---------- *)
Fixpoint tree_ind' (P : tree -> Prop)
         (Hf : forall n, P (File n))
         (Hd : forall n ch, Forall P ch -> P (Dir n ch)) (t : tree) : P t :=
  match t with
  | File n => Hf n
  | Dir n ch =>
      Hd n ch ((fix go (l : list tree) : Forall P l :=
                  match l with
                  | [] => Forall_nil P
                  | c :: l' => Forall_cons c (tree_ind' P Hf Hd c) (go l')
                  end) ch)
  end.

Section Walk.
  Variable ign : str -> bool -> bool.
  Variable acc : str -> bool.

  (* one directory entry *)
  Definition entry (path : str) (c : tree) : list str :=
    let np := path ++ SL :: tname c in
    match c with
    | Dir _ _ => if ign np true then [] else walk ign acc np c
    | File _ => if acc np && negb (ign np false) then [np] else []
    end.

  Lemma walk_dir path n ch :
    walk ign acc path (Dir n ch) = if ign path false then [] else flat_map (entry path) ch.
  Proof. reflexivity. Qed.

  Lemma walk_file path n :
    walk ign acc path (File n) = if ign path false then [] else [path].
  Proof. reflexivity. Qed.

  (* ---------- membership: exactly the selected files ---------- *)
  Lemma walk_selected t : forall path p, In p (walk ign acc path t) -> selected ign acc path t p.
  Proof.
    induction t as [n|n ch IH] using tree_ind'; intros path p H.
    - rewrite walk_file in H. destruct (ign path false) eqn:Hi; [contradiction|].
      destruct H as [<-|[]]. apply sel_file. exact Hi.
    - rewrite walk_dir in H. destruct (ign path false) eqn:Hi; [contradiction|].
      apply in_flat_map in H. destruct H as (c & Hc & Hp).
      rewrite Forall_forall in IH. specialize (IH c Hc).
      destruct c as [cn|cn cch]; unfold entry in Hp; cbn [tname] in Hp.
      + destruct (acc (path ++ SL :: cn)) eqn:Ha; [|contradiction].
        destruct (ign (path ++ SL :: cn) false) eqn:Hi2; [contradiction|].
        cbn [andb negb] in Hp. destruct Hp as [<-|[]].
        apply (sel_dir_file ign acc path n ch cn); assumption.
      + destruct (ign (path ++ SL :: cn) true) eqn:Hi2; [contradiction|].
        apply (sel_dir_dir ign acc path n ch cn cch p); try assumption.
        apply IH. exact Hp.
  Qed.

  Lemma selected_walk path t p : selected ign acc path t p -> In p (walk ign acc path t).
  Proof.
    induction 1 as [path n Hi|path n ch c Hi Hc Ha Hi2|path n ch n' ch' p Hi Hc Hi2 Hs IH].
    - rewrite walk_file, Hi. left. reflexivity.
    - rewrite walk_dir, Hi. apply in_flat_map. exists (File c). split; [exact Hc|].
      unfold entry. cbn [tname]. rewrite Ha, Hi2. left. reflexivity.
    - rewrite walk_dir, Hi. apply in_flat_map. exists (Dir n' ch'). split; [exact Hc|].
      unfold entry. cbn [tname]. rewrite Hi2. exact IH.
  Qed.

  Theorem walk_iff path t p : In p (walk ign acc path t) <-> selected ign acc path t p.
  Proof. split; [apply walk_selected|apply selected_walk]. Qed.

  (* ---------- enumeration order ---------- *)
  Lemma perm_tree_name t1 t2 : perm_tree t1 t2 -> tname t1 = tname t2.
  Proof. destruct 1; reflexivity. Qed.

  Scheme perm_tree_mut := Induction for perm_tree Sort Prop
    with perm_list_mut := Induction for perm_list Sort Prop.

  Lemma walk_perm_mut :
    (forall t1 t2, perm_tree t1 t2 ->
       forall path, Permutation (walk ign acc path t1) (walk ign acc path t2) /\
                    Permutation (entry path t1) (entry path t2)) /\
    (forall l1 l2, perm_list l1 l2 ->
       forall path, Permutation (flat_map (entry path) l1) (flat_map (entry path) l2)).
  Proof.
    split.
    - intros t1 t2 H.
      apply (perm_tree_mut
               (fun t1 t2 _ => forall path, Permutation (walk ign acc path t1) (walk ign acc path t2) /\
                                            Permutation (entry path t1) (entry path t2))
               (fun l1 l2 _ => forall path, Permutation (flat_map (entry path) l1) (flat_map (entry path) l2))).
      + intros n path. split; apply Permutation_refl.
      + intros n ch1 ch2 Hl IH path.
        assert (Hw : forall q, Permutation (walk ign acc q (Dir n ch1)) (walk ign acc q (Dir n ch2))).
        { intros q. rewrite !walk_dir. destruct (ign q false); [apply Permutation_refl|apply IH]. }
        split; [apply Hw|]. unfold entry. cbn [tname].
        destruct (ign (path ++ SL :: n) true); [apply Permutation_refl|apply Hw].
      + intros path. apply Permutation_refl.
      + intros a b l1 l2 Ht IHt Hl IHl path. cbn [flat_map]. apply Permutation_app; [apply IHt|apply IHl].
      + intros a b l path. cbn [flat_map]. rewrite !app_assoc. apply Permutation_app_tail. apply Permutation_app_comm.
      + intros l1 l2 l3 H1 IH1 H2 IH2 path. eapply Permutation_trans; [apply IH1|apply IH2].
      + exact H.
    - intros l1 l2 H.
      apply (perm_list_mut
               (fun t1 t2 _ => forall path, Permutation (walk ign acc path t1) (walk ign acc path t2) /\
                                            Permutation (entry path t1) (entry path t2))
               (fun l1 l2 _ => forall path, Permutation (flat_map (entry path) l1) (flat_map (entry path) l2))).
      + intros n path. split; apply Permutation_refl.
      + intros n ch1 ch2 Hl IH path.
        assert (Hw : forall q, Permutation (walk ign acc q (Dir n ch1)) (walk ign acc q (Dir n ch2))).
        { intros q. rewrite !walk_dir. destruct (ign q false); [apply Permutation_refl|apply IH]. }
        split; [apply Hw|]. unfold entry. cbn [tname].
        destruct (ign (path ++ SL :: n) true); [apply Permutation_refl|apply Hw].
      + intros path. apply Permutation_refl.
      + intros a b l1' l2' Ht IHt Hl IHl path. cbn [flat_map]. apply Permutation_app; [apply IHt|apply IHl].
      + intros a b l path. cbn [flat_map]. rewrite !app_assoc. apply Permutation_app_tail. apply Permutation_app_comm.
      + intros l1' l2' l3 H1 IH1 H2 IH2 path. eapply Permutation_trans; [apply IH1|apply IH2].
      + exact H.
  Qed.

  Lemma walk_perm t1 t2 path : perm_tree t1 t2 ->
    Permutation (walk ign acc path t1) (walk ign acc path t2).
  Proof. intros H. apply (proj1 walk_perm_mut t1 t2 H path). Qed.
End Walk.

(* ---------- the order on paths ---------- *)
Lemma str_ltb_irrefl a : str_ltb a a = false.
Proof. induction a as [|x a IH]; [reflexivity|]. cbn [str_ltb]. rewrite N.ltb_irrefl, N.eqb_refl, IH. reflexivity. Qed.

Lemma str_ltb_asym a : forall b, str_ltb a b = true -> str_ltb b a = false.
Proof.
  induction a as [|x a IH]; intros [|y b] H; cbn [str_ltb] in *; try reflexivity; try discriminate.
  apply orb_true_iff in H. apply orb_false_iff. destruct H as [H|H].
  - apply N.ltb_lt in H. split; [apply N.ltb_ge; lia|].
    apply andb_false_iff. left. apply N.eqb_neq. lia.
  - apply andb_true_iff in H. destruct H as [He Hl]. apply N.eqb_eq in He. subst y.
    split; [apply N.ltb_irrefl|]. rewrite N.eqb_refl. cbn [andb]. apply IH. exact Hl.
Qed.

Lemma str_ltb_tricho a : forall b, str_ltb a b = false -> str_ltb b a = false -> a = b.
Proof.
  induction a as [|x a IH]; intros [|y b] H1 H2; cbn [str_ltb] in *; try reflexivity; try discriminate.
  apply orb_false_iff in H1, H2. destruct H1 as [H1 H1'], H2 as [H2 H2'].
  apply N.ltb_ge in H1, H2. assert (x = y) by lia. subst y.
  rewrite N.eqb_refl in H1', H2'. cbn [andb] in H1', H2'. f_equal. apply IH; assumption.
Qed.

(* c < a -> c < b \/ b < a *)
Lemma str_ltb_negtrans c : forall a b, str_ltb c a = true -> str_ltb c b = true \/ str_ltb b a = true.
Proof.
  induction c as [|x c IH]; intros [|y a] [|z b] H; cbn [str_ltb] in *; try discriminate; auto.
  apply orb_true_iff in H.
  destruct (x <? z) eqn:Hxz; [left; reflexivity|]. cbn [orb].
  destruct (z <? y) eqn:Hzy; [right; reflexivity|]. cbn [orb].
  apply N.ltb_ge in Hxz, Hzy.
  destruct H as [H|H].
  - apply N.ltb_lt in H. lia.
  - apply andb_true_iff in H. destruct H as [He Hl]. apply N.eqb_eq in He. subst y.
    assert (z = x) by lia. subst z. rewrite !N.eqb_refl. cbn [andb]. apply IH. exact Hl.
Qed.

Lemma str_leb_total a b : str_leb a b = false -> str_leb b a = true.
Proof. unfold str_leb. rewrite negb_false_iff, negb_true_iff. apply str_ltb_asym. Qed.

Lemma str_leb_antisym a b : str_leb a b = true -> str_leb b a = true -> a = b.
Proof. unfold str_leb. rewrite !negb_true_iff. intros H1 H2. apply str_ltb_tricho; assumption. Qed.

Lemma str_leb_trans a b c : str_leb a b = true -> str_leb b c = true -> str_leb a c = true.
Proof.
  unfold str_leb. rewrite !negb_true_iff. intros H1 H2.
  destruct (str_ltb c a) eqn:H; [|reflexivity].
  destruct (str_ltb_negtrans c a b H) as [H3|H3]; congruence.
Qed.

Definition leP (a b : str) : Prop := str_leb a b = true.

(* ---------- insertion sort ---------- *)
Lemma insert_perm x l : Permutation (insert_sorted x l) (x :: l).
Proof.
  induction l as [|y l IH]; cbn [insert_sorted]; [apply Permutation_refl|].
  destruct (str_leb x y); [apply Permutation_refl|].
  eapply Permutation_trans; [apply perm_skip; exact IH|apply perm_swap].
Qed.

Lemma sort_perm l : Permutation (sort_paths l) l.
Proof.
  induction l as [|x l IH]; cbn [sort_paths]; [apply Permutation_refl|].
  eapply Permutation_trans; [apply insert_perm|apply perm_skip; exact IH].
Qed.

Lemma insert_sorted_ok x l : StronglySorted leP l -> StronglySorted leP (insert_sorted x l).
Proof.
  induction 1 as [|y l Hs IH Hall]; cbn [insert_sorted].
  - constructor; constructor.
  - destruct (str_leb x y) eqn:Hxy.
    + constructor; [constructor; assumption|].
      constructor; [exact Hxy|]. eapply Forall_impl; [|exact Hall].
      intros z Hz. unfold leP in *. eapply str_leb_trans; eassumption.
    + constructor; [exact IH|].
      apply str_leb_total in Hxy.
      eapply Permutation_Forall; [apply Permutation_sym; apply insert_perm|].
      constructor; assumption.
Qed.

Lemma sort_sorted l : StronglySorted leP (sort_paths l).
Proof. induction l as [|x l IH]; cbn [sort_paths]; [constructor|apply insert_sorted_ok; exact IH]. Qed.

(* two sorted lists with the same elements (with multiplicity) are equal *)
Lemma sorted_perm_eq l1 : forall l2, StronglySorted leP l1 -> StronglySorted leP l2 ->
  Permutation l1 l2 -> l1 = l2.
Proof.
  induction l1 as [|x l1 IH]; intros l2 H1 H2 Hp.
  - apply Permutation_nil in Hp. subst. reflexivity.
  - destruct l2 as [|y l2]; [apply Permutation_sym, Permutation_nil in Hp; discriminate|].
    inversion H1 as [|? ? Hs1 Ha1]; subst. inversion H2 as [|? ? Hs2 Ha2]; subst.
    assert (Hxy : x = y).
    { assert (Hx : In x (y :: l2)) by (eapply Permutation_in; [exact Hp|left; reflexivity]).
      assert (Hy : In y (x :: l1)) by (eapply Permutation_in; [apply Permutation_sym; exact Hp|left; reflexivity]).
      destruct Hx as [->|Hx]; [reflexivity|]. destruct Hy as [->|Hy]; [reflexivity|].
      rewrite Forall_forall in Ha1, Ha2. apply str_leb_antisym; [apply Ha1; exact Hy|apply Ha2; exact Hx]. }
    subst y. f_equal. apply IH; try assumption. eapply Permutation_cons_inv. exact Hp.
Qed.

Lemma sort_perm_eq l1 l2 : Permutation l1 l2 -> sort_paths l1 = sort_paths l2.
Proof.
  intros H. apply sorted_perm_eq; try apply sort_sorted.
  eapply Permutation_trans; [apply sort_perm|].
  eapply Permutation_trans; [exact H|apply Permutation_sym, sort_perm].
Qed.

(* ---------- FileLister::addFiles ---------- *)
Theorem list_files_sorted ign acc path t : StronglySorted leP (list_files ign acc path t).
Proof. apply sort_sorted. Qed.

Theorem list_files_exact ign acc path t p :
  In p (list_files ign acc path t) <-> selected ign acc (corrected path) t p.
Proof.
  unfold list_files. rewrite <- walk_iff. split; intros H.
  - eapply Permutation_in; [apply sort_perm|exact H].
  - eapply Permutation_in; [apply Permutation_sym, sort_perm|exact H].
Qed.

(* every selected file is listed as often as the traversal meets it (once per
   directory entry), whatever the enumeration order *)
Theorem list_files_perm_walk ign acc path t :
  Permutation (list_files ign acc path t) (walk ign acc (corrected path) t).
Proof. apply sort_perm. Qed.

Theorem list_files_order_independent ign acc path t1 t2 : perm_tree t1 t2 ->
  list_files ign acc path t1 = list_files ign acc path t2.
Proof. intros H. unfold list_files. apply sort_perm_eq. apply walk_perm. exact H. Qed.

(* select_files: concatenation order of the inputs is kept, filter and
   de-duplication only remove elements *)
Lemma dedup_by_incl key : forall l seen x, In x (dedup_by key seen l) -> In x l.
Proof.
  induction l as [|y l IH]; intros seen x H; cbn [dedup_by] in H; [contradiction|].
  destruct (mem_str (key y) seen).
  - right. eapply IH. exact H.
  - destruct H as [->|H]; [left; reflexivity|right; eapply IH; exact H].
Qed.

Lemma dedup_by_keys key : forall l seen, NoDup seen ->
  NoDup (map key (dedup_by key seen l) ++ seen).
Proof.
  induction l as [|y l IH]; intros seen Hs; cbn [dedup_by]; [exact Hs|].
  destruct (mem_str (key y) seen) eqn:Hm; [apply IH; exact Hs|].
  cbn [map app].
  assert (Hn : ~ In (key y) seen).
  { intros Hin. unfold mem_str in Hm. assert (existsb (str_eqb (key y)) seen = true).
    { apply existsb_exists. exists (key y). split; [exact Hin|apply str_eqb_eq; reflexivity]. }
    congruence. }
  specialize (IH (key y :: seen) (NoDup_cons _ Hn Hs)).
  apply NoDup_remove in IH. destruct IH as [IH1 IH2].
  constructor; assumption.
Qed.

Theorem select_files_no_duplicates ign acc filt key inputs :
  NoDup (map key (select_files ign acc filt key inputs)).
Proof.
  unfold select_files. pose proof (dedup_by_keys key
    (match filt with Some f => filter f (flat_map (fun it => list_files ign acc (fst it) (snd it)) inputs)
                | None => flat_map (fun it => list_files ign acc (fst it) (snd it)) inputs end) [] (NoDup_nil _)) as H.
  rewrite app_nil_r in H. exact H.
Qed.

Theorem select_files_selected ign acc filt key inputs p :
  In p (select_files ign acc filt key inputs) ->
  exists path t, In (path, t) inputs /\ selected ign acc (corrected path) t p /\
                 match filt with Some f => f p = true | None => True end.
Proof.
  unfold select_files. intros H. apply dedup_by_incl in H.
  assert (Hin : In p (flat_map (fun it => list_files ign acc (fst it) (snd it)) inputs) /\
                match filt with Some f => f p = true | None => True end).
  { destruct filt as [f|]; [apply filter_In in H; exact H|split; [exact H|exact I]]. }
  destruct Hin as [Hin Hf]. apply in_flat_map in Hin. destruct Hin as ([path t] & Hi & Hp).
  exists path, t. cbn [fst snd] in Hp. apply list_files_exact in Hp. auto.
Qed.

(* ---------- every selected file is listed exactly once ---------- *)
Definition nsl (n : str) : Prop := Forall (fun x => x <> SL) n.

(* entry names contain no separator and are distinct within a directory *)
Fixpoint uniq_tree (t : tree) : Prop :=
  match t with
  | File n => nsl n
  | Dir n ch =>
      nsl n /\ NoDup (map tname ch) /\
      (fix all (l : list tree) : Prop :=
         match l with [] => True | c :: l' => uniq_tree c /\ all l' end) ch
  end.

Lemma uniq_children n ch : uniq_tree (Dir n ch) -> NoDup (map tname ch) /\ Forall uniq_tree ch.
Proof.
  cbn [uniq_tree]. intros (_ & Hnd & Hall). split; [exact Hnd|].
  induction ch as [|c ch IH]; [constructor|]. destruct Hall as [Hc Hall]. constructor; [exact Hc|].
  apply IH; [inversion Hnd; assumption|exact Hall].
Qed.

Lemma uniq_name t : uniq_tree t -> nsl (tname t).
Proof. destruct t; cbn [uniq_tree tname]; [auto|intros (H & _); exact H]. Qed.

Definition sep_or_end (rest : str) : Prop := rest = [] \/ exists r, rest = SL :: r.

Lemma nsl_prefix_eq n1 : forall n2 r1 r2, nsl n1 -> nsl n2 -> sep_or_end r1 -> sep_or_end r2 ->
  n1 ++ r1 = n2 ++ r2 -> n1 = n2.
Proof.
  induction n1 as [|x n1 IH]; intros n2 r1 r2 H1 H2 Hr1 Hr2 E.
  - destruct n2 as [|y n2]; [reflexivity|]. cbn [app] in E.
    apply Forall_cons_iff in H2. destruct H2 as [Hy _].
    destruct Hr1 as [Hr1|(r & Hr1)]; rewrite Hr1 in E; [discriminate|]. injection E as E _. congruence.
  - apply Forall_cons_iff in H1. destruct H1 as [Hx H1']. destruct n2 as [|y n2].
    + cbn [app] in E. destruct Hr2 as [Hr2|(r & Hr2)]; rewrite Hr2 in E; [discriminate|]. injection E as E _. congruence.
    + cbn [app] in E. injection E as Exy E. rewrite Exy. f_equal.
      apply Forall_cons_iff in H2. destruct H2 as [_ H2']. apply (IH n2 r1 r2); assumption.
Qed.

Section Once.
  Variable ign : str -> bool -> bool.
  Variable acc : str -> bool.

  Lemma walk_prefix t : forall path p, In p (walk ign acc path t) -> exists rest, p = path ++ rest /\ sep_or_end rest.
  Proof.
    induction t as [n|n ch IH] using tree_ind'; intros path p H.
    - rewrite walk_file in H. destruct (ign path false); [contradiction|]. destruct H as [<-|[]].
      exists []. rewrite app_nil_r. split; [reflexivity|left; reflexivity].
    - rewrite walk_dir in H. destruct (ign path false); [contradiction|].
      apply in_flat_map in H. destruct H as (c & Hc & Hp). rewrite Forall_forall in IH.
      unfold entry in Hp. destruct c as [cn|cn cch]; cbn [tname] in Hp.
      + destruct (acc (path ++ SL :: cn) && negb (ign (path ++ SL :: cn) false)); [|contradiction].
        destruct Hp as [<-|[]]. exists (SL :: cn). split; [reflexivity|right; eexists; reflexivity].
      + destruct (ign (path ++ SL :: cn) true); [contradiction|].
        destruct (IH _ Hc _ _ Hp) as (rest & -> & _). exists (SL :: cn ++ rest).
        rewrite <- app_assoc. split; [reflexivity|right; eexists; reflexivity].
  Qed.

  Lemma entry_prefix path c p : In p (entry ign acc path c) ->
    exists rest, p = path ++ SL :: tname c ++ rest /\ sep_or_end rest.
  Proof.
    unfold entry. destruct c as [cn|cn cch]; cbn [tname].
    - destruct (acc (path ++ SL :: cn) && negb (ign (path ++ SL :: cn) false)); [|contradiction].
      intros [<-|[]]. exists []. rewrite app_nil_r. split; [reflexivity|left; reflexivity].
    - destruct (ign (path ++ SL :: cn) true); [contradiction|]. intros H.
      destruct (walk_prefix _ _ _ H) as (rest & -> & Hr). exists rest.
      rewrite <- app_assoc. split; [reflexivity|exact Hr].
  Qed.

  Lemma NoDup_app_disjoint {A} (a b : list A) : NoDup a -> NoDup b -> (forall x, In x a -> ~ In x b) -> NoDup (a ++ b).
  Proof.
    induction 1 as [|x a Hx Ha IH]; intros Hb Hd; [exact Hb|]. cbn [app]. constructor.
    - intros Hin. apply in_app_or in Hin. destruct Hin as [Hin|Hin]; [contradiction|].
      apply (Hd x); [left; reflexivity|exact Hin].
    - apply IH; [exact Hb|]. intros y Hy. apply Hd. right. exact Hy.
  Qed.

  Lemma walk_nodup t : uniq_tree t -> forall path, NoDup (walk ign acc path t).
  Proof.
    induction t as [n|n ch IH] using tree_ind'; intros Hu path.
    - rewrite walk_file. destruct (ign path false); [constructor|]. constructor; [intros []|constructor].
    - rewrite walk_dir. destruct (ign path false); [constructor|].
      destruct (uniq_children n ch Hu) as [Hnd Hall]. clear Hu.
      induction ch as [|c ch IHch]; [constructor|].
      inversion IH as [|? ? IHc IHrest]; subst. inversion Hall as [|? ? Hc Hall']; subst.
      cbn [map] in Hnd. inversion Hnd as [|? ? Hnotin Hnd']; subst.
      cbn [flat_map]. apply NoDup_app_disjoint.
      + unfold entry. destruct c as [cn|cn cch]; cbn [tname].
        * destruct (acc (path ++ SL :: cn) && negb (ign (path ++ SL :: cn) false)); [|constructor].
          constructor; [intros []|constructor].
        * destruct (ign (path ++ SL :: cn) true); [constructor|]. apply IHc. exact Hc.
      + apply IHch; assumption.
      + intros p Hp1 Hp2. apply in_flat_map in Hp2. destruct Hp2 as (c' & Hc' & Hp2).
        destruct (entry_prefix _ _ _ Hp1) as (r1 & E1 & Hr1).
        destruct (entry_prefix _ _ _ Hp2) as (r2 & E2 & Hr2).
        rewrite E1 in E2. apply app_inv_head in E2. injection E2 as E2.
        assert (Hn : tname c = tname c').
        { apply (nsl_prefix_eq _ _ r1 r2); [apply uniq_name; exact Hc| |exact Hr1|exact Hr2|exact E2].
          apply uniq_name. rewrite Forall_forall in Hall'. apply Hall'. exact Hc'. }
        apply Hnotin. rewrite Hn. apply in_map. exact Hc'.
  Qed.
End Once.

Theorem list_files_nodup ign acc path t : uniq_tree t -> NoDup (list_files ign acc path t).
Proof.
  intros Hu. unfold list_files. eapply Permutation_NoDup; [apply Permutation_sym, sort_perm|].
  apply walk_nodup. exact Hu.
Qed.

(* ---------- select_files is complete up to the de-duplication key ---------- *)
Lemma dedup_by_complete key : forall l seen x, In x l ->
  mem_str (key x) seen = true \/ exists y, In y (dedup_by key seen l) /\ key y = key x.
Proof.
  induction l as [|a l IH]; intros seen x Hx; [contradiction|]. cbn [dedup_by].
  destruct Hx as [->|Hx].
  - destruct (mem_str (key x) seen) eqn:Hm; [left; reflexivity|].
    right. exists x. split; [left; reflexivity|reflexivity].
  - destruct (mem_str (key a) seen) eqn:Hm.
    + apply IH. exact Hx.
    + destruct (IH (key a :: seen) x Hx) as [Hs|(y & Hy & Hk)].
      * unfold mem_str in Hs. cbn [existsb] in Hs. apply orb_true_iff in Hs. destruct Hs as [Hs|Hs].
        -- apply str_eqb_eq in Hs. right. exists a. split; [left; reflexivity|symmetry; exact Hs].
        -- left. exact Hs.
      * right. exists y. split; [right; exact Hy|exact Hk].
Qed.

Theorem select_files_complete ign acc filt key inputs path t p :
  In (path, t) inputs -> selected ign acc (corrected path) t p ->
  match filt with Some f => f p = true | None => True end ->
  exists q, In q (select_files ign acc filt key inputs) /\ key q = key p.
Proof.
  intros Hin Hsel Hf. unfold select_files.
  assert (Hall : In p (flat_map (fun it => list_files ign acc (fst it) (snd it)) inputs)).
  { apply in_flat_map. exists (path, t). split; [exact Hin|]. cbn [fst snd]. apply list_files_exact. exact Hsel. }
  set (all := flat_map (fun it => list_files ign acc (fst it) (snd it)) inputs) in *.
  assert (Hkept : In p (match filt with Some f => filter f all | None => all end)).
  { destruct filt as [f|]; [apply filter_In; split; assumption|exact Hall]. }
  destruct (dedup_by_complete key _ [] p Hkept) as [Hs|H]; [discriminate|exact H].
Qed.
