(* C31: the `pattern == path` shortcut of PathMatch::match agrees with the
   documented rules also for a plain pattern with a non-empty base path,
   provided the pattern does not canonicalise to the empty string. *)
From CV Require Import Base.Bytes Base.Glob Path.Defs Path.MatchProofs Path.SpecProofs Path.IterProofs Path.CanonProofs Path.Termination.
From Coq Require Import Arith Lia.
Local Open Scope N_scope.

Lemma split_on_app_sep v : forall u cur,
  split_on SL (u ++ SL :: v) cur = split_on SL u cur ++ split_on SL v [].
Proof.
  induction u as [|c u IH]; intros cur; cbn [app split_on].
  - change (SL =? SL) with true. reflexivity.
  - destruct (c =? SL); [rewrite IH; reflexivity|apply IH].
Qed.

Lemma split_app_sep u v : split SL (u ++ SL :: v) = split SL u ++ split SL v.
Proof. apply split_on_app_sep. Qed.

(* pending ".." after a block of components *)
Fixpoint pend (n : nat) (l : list str) : nat :=
  match l with
  | [] => n
  | c :: r => if isJ c then pend n r
              else if isD c then pend (S n) r
              else match n with O => pend 0%nat r | S n' => pend n' r end
  end.

Lemma bc_app X : forall n Y, bc n (X ++ Y) = bc n X ++ bc (pend n X) Y.
Proof.
  induction X as [|c X IH]; intros n Y; [reflexivity|]. cbn [app bc pend].
  destruct (isJ c); [apply IH|]. destruct (isD c); [apply IH|].
  destruct n; [cbn [app]; f_equal; apply IH|apply IH].
Qed.

Lemma F_app R : forall C, R <> [] -> C <> [] -> F (R ++ C) = F R ++ SL :: F C.
Proof.
  induction R as [|x R IH]; intros C HR HC; [contradiction|].
  destruct R as [|y R].
  - cbn [app]. destruct C as [|c C]; [contradiction|]. rewrite F_cons_ne. reflexivity.
  - change ((x :: y :: R) ++ C) with (x :: (y :: R) ++ C).
    destruct ((y :: R) ++ C) as [|w l] eqn:E; [discriminate|].
    rewrite F_cons_ne, <- E, IH by (try discriminate; exact HC). rewrite F_cons_ne, <- app_assoc. reflexivity.
Qed.

Lemma gmr_refl s : gmr s s.
Proof.
  induction s as [|c s IH]; [constructor|].
  destruct (N.eq_dec c STAR) as [->|Hs].
  - apply (gmr_star [STAR] s s); [constructor; [discriminate|constructor]|exact IH].
  - destruct (N.eq_dec c QM) as [->|Hq].
    + apply gmr_qm; [discriminate|exact IH].
    + apply gmr_lit; assumption.
Qed.

Lemma rmatch_self_prefix real s a : end_ok real a = true -> rmatch real s (s ++ a) = true.
Proof. intros H. apply gmr_rmatch; [apply gmr_refl|exact H]. Qed.

(* canon of "base/x" ends with canon of x, at a component boundary *)
Lemma canon_join cb cx : cb <> [] -> is_abs cx = false -> canon cx <> [] ->
  exists A, canon (cb ++ SL :: cx) = A ++ canon cx /\ (A = [] \/ exists A', A = A' ++ [SL]).
Proof.
  intros Hb Hx Hne. unfold canon in *. rewrite Hx in *.
  rewrite canon_comps_bc in Hne.
  rewrite split_app_sep, !canon_comps_bc, rev_app_distr, bc_app, rev_app_distr.
  set (Cx := rev (bc 0%nat (rev (split SL cx)))) in *.
  set (R := rev (bc (pend 0%nat (rev (split SL cx))) (rev (split SL cb)))).
  assert (HCx : Cx <> []) by (intros E; apply Hne; rewrite E; reflexivity).
  assert (Habs : is_abs (cb ++ SL :: cx) = is_abs cb) by (destruct cb; [contradiction|reflexivity]).
  rewrite Habs. destruct R as [|r R'] eqn:ER.
  - cbn [app]. destruct (is_abs cb).
    + exists [SL]. split; [reflexivity|right; exists []; reflexivity].
    + exists []. split; [reflexivity|left; reflexivity].
  - rewrite F_app by (try discriminate; exact HCx).
    destruct (is_abs cb).
    + exists (SL :: F (r :: R') ++ [SL]). split; [cbn [app]; rewrite <- app_assoc; reflexivity|].
      right. exists (SL :: F (r :: R')). reflexivity.
    + exists (F (r :: R') ++ [SL]). split; [rewrite <- app_assoc; reflexivity|].
      right. exists (F (r :: R')). reflexivity.
Qed.

Lemma is_abs_cstr p : is_abs p = false -> is_abs (cstr p) = false.
Proof.
  destruct p as [|c p]; [reflexivity|]. cbn [is_abs cstr]. intros H.
  destruct (c =? 0); [reflexivity|exact H].
Qed.

(* the shortcut: a plain pattern against the identical path *)
Lemma fast_path_plain pattern base :
  is_real pattern = false ->
  canon_ok (pat_raw pattern base) = true -> canon_ok (path_raw pattern base) = true ->
  canon_pattern pattern base <> [] ->
  rsearch false (iter_pattern pattern base) (iter_path pattern base) = true.
Proof.
  unfold is_real, pat_raw, path_raw, canon_pattern, iter_pattern, iter_path.
  intros Hr. apply orb_false_iff in Hr. destruct Hr as [Ha Hrel]. rewrite Ha, Hrel.
  intros Hp Ht Hne.
  rewrite (iter_all_canon pattern [] Hp), (iter_all_canon base pattern Ht).
  rewrite join_raw_nil_r in *.
  destruct (cstr base) as [|b0 cb'] eqn:Eb.
  - rewrite (join_raw_nil_l base pattern Eb). apply rsearch_refl.
  - assert (Hx : cstr pattern <> []) by (intros E; apply Hne; rewrite E; reflexivity).
    assert (Hj : join_raw base pattern = cstr base ++ SL :: cstr pattern).
    { unfold join_raw. rewrite Eb. destruct (cstr pattern); [contradiction|reflexivity]. }
    rewrite Hj, Eb.
    destruct (canon_join (b0 :: cb') (cstr pattern) ltac:(discriminate) (is_abs_cstr pattern Ha) Hne) as (A & HA & Hend).
    rewrite HA, rev_app_distr. unfold rsearch. apply orb_true_iff. left. apply rmatch_self_prefix.
    destruct Hend as [->|(A' & ->)]; [reflexivity|]. rewrite rev_app_distr. reflexivity.
Qed.

(* coverage of the shortcut *)
Definition fast_ok2 (pattern base : str) : bool :=
  fast_ok pattern base || negb (is_nil (canon_pattern pattern base)).

Theorem pathmatch_fuel_spec_iter_b2 fuel pattern path base isdir b :
  canon_ok (pat_raw pattern base) = true -> canon_ok (path_raw path base) = true ->
  fast_ok2 pattern base = true ->
  pathmatch_fuel fuel pattern path base isdir = Some b ->
  b = pathmatch_spec_iter_b pattern path base isdir.
Proof.
  intros Hp Ht Hf2 H.
  destruct (fast_ok pattern base) eqn:Hf; [apply (pathmatch_fuel_spec_iter_b fuel _ _ _ _ _ Hf H)|].
  unfold fast_ok2 in Hf2. rewrite Hf in Hf2. cbn [orb] in Hf2. apply negb_true_iff in Hf2.
  unfold fast_ok in Hf. apply orb_false_iff in Hf. destruct Hf as [Hreal _].
  unfold pathmatch_fuel in H. unfold pathmatch_spec_iter_b.
  destruct (is_nil pattern) eqn:Hnil; [injection H as <-; reflexivity|]. cbn [negb andb].
  destruct (str_eqb pattern [STAR] || str_eqb pattern [STAR; STAR]) eqn:Hst.
  - injection H as <-. apply orb_true_iff in Hst. destruct Hst as [Hst|Hst]; apply str_eqb_eq in Hst; subst pattern.
    + rewrite iter_star. symmetry. apply rsearch_star.
    + rewrite iter_starstar. symmetry. apply rsearch_starstar.
  - destruct (negb (dir_mismatch pattern isdir) && str_eqb pattern path) eqn:Hfp.
    + injection H as <-. apply andb_true_iff in Hfp. destruct Hfp as [Hdm Heq].
      apply str_eqb_eq in Heq. subst path. apply negb_true_iff in Hdm.
      unfold path_seen. rewrite Hdm, Hreal. symmetry. apply fast_path_plain; try assumption.
      intros E. rewrite E in Hf2. discriminate.
    + apply (match_loop_spec fuel _ _ _ b H).
Qed.

Theorem pathmatch_fuel_spec2 fuel pattern path base isdir b :
  canon_ok (pat_raw pattern base) = true -> canon_ok (path_raw path base) = true ->
  fast_ok2 pattern base = true ->
  pathmatch_fuel fuel pattern path base isdir = Some b ->
  (b = true <-> pathmatch_spec pattern path base isdir).
Proof.
  intros Hp Ht Hf H. rewrite (pathmatch_fuel_spec_iter_b2 fuel pattern path base isdir b Hp Ht Hf H).
  rewrite pathmatch_spec_iter_b_iff. apply spec_iter_canon. apply reads_canon_of_ok; assumption.
Qed.

Theorem pathmatch_total2 pattern path base isdir :
  canon_ok (pat_raw pattern base) = true -> canon_ok (path_raw path base) = true ->
  fast_ok2 pattern base = true ->
  exists b, pathmatch_model pattern path base isdir = Some b /\
            (b = true <-> pathmatch_spec pattern path base isdir).
Proof.
  intros Hp Ht Hf. destruct (pathmatch_model_total pattern path base isdir) as [b Hb].
  exists b. split; [exact Hb|]. exact (pathmatch_fuel_spec2 _ pattern path base isdir b Hp Ht Hf Hb).
Qed.

(* the excluded shortcut case is real: a plain pattern that canonicalises to ""
   equals the path, base path non-empty: the code says true, the rules false *)
Lemma fast_ok2_needed :
  fast_ok2 [97; SL; DOT; DOT] [114] = false /\                                   (* "a/..", base "r" *)
  pathmatch_model [97; SL; DOT; DOT] [97; SL; DOT; DOT] [114] true = Some true /\
  pathmatch_spec_b [97; SL; DOT; DOT] [97; SL; DOT; DOT] [114] true = false.
Proof. vm_compute. repeat split; reflexivity. Qed.

Lemma in_domain_ok pattern path base : in_domain pattern path base = true ->
  canon_ok (pat_raw pattern base) = true /\ canon_ok (path_raw path base) = true /\
  fast_ok2 pattern base = true.
Proof.
  unfold in_domain. rewrite !andb_true_iff. intros [[H1 H2] H3]. repeat split; assumption.
Qed.

Theorem pathmatch_total_dom pattern path base isdir :
  in_domain pattern path base = true ->
  exists b, pathmatch_model pattern path base isdir = Some b /\
            (b = true <-> pathmatch_spec pattern path base isdir).
Proof.
  intros H. destruct (in_domain_ok pattern path base H) as (Hp & Ht & Hf).
  apply pathmatch_total2; assumption.
Qed.
