(* C31: Syntax::windows as a second instance of the matcher theorems.  The loop
   is the same code; only the iterators (separator unification, case folding,
   drive / UNC roots) and the directory-only test differ. *)
From CV Require Import Base.Bytes Base.Glob Path.Defs Path.MatchProofs Path.SpecProofs Path.Termination.
Local Open Scope N_scope.

Lemma iter_all_w_nil_swap b a : cstr b = [] -> iter_all_w b a = iter_all_w a [].
Proof.
  intros H. unfold iter_all_w. rewrite (join_raw_nil_l b a H), join_raw_nil_r, H. cbn [cstr].
  destruct (cstr a); reflexivity.
Qed.

Lemma fast_same_w pattern base : fast_ok pattern base = true ->
  iter_pattern_w pattern base = iter_path_w pattern base.
Proof.
  unfold fast_ok, is_real, iter_pattern_w, iter_path_w. intros H.
  destruct (is_abs pattern) eqn:Ha.
  - rewrite (is_abs_not_rel _ Ha). reflexivity.
  - destruct (is_rel_pattern pattern) eqn:Hr; [reflexivity|].
    cbn [orb] in H. destruct (cstr base) eqn:Hb; [|discriminate].
    symmetry. apply iter_all_w_nil_swap. exact Hb.
Qed.

Lemma iter_star_w : iter_pattern_w [STAR] = fun _ => [STAR].
Proof. reflexivity. Qed.
Lemma iter_starstar_w : iter_pattern_w [STAR; STAR] = fun _ => [STAR; STAR].
Proof. reflexivity. Qed.

Theorem pathmatch_w_fuel_spec_b fuel pattern path base isdir b :
  fast_ok pattern base = true ->
  pathmatch_w_fuel fuel pattern path base isdir = Some b ->
  b = pathmatch_w_spec_b pattern path base isdir.
Proof.
  intros Hfast H. unfold pathmatch_w_fuel in H. unfold pathmatch_w_spec_b.
  destruct (is_nil pattern) eqn:Hnil.
  - injection H as <-. reflexivity.
  - cbn [negb andb].
    destruct (str_eqb pattern [STAR] || str_eqb pattern [STAR; STAR]) eqn:Hst.
    + injection H as <-. apply orb_true_iff in Hst. destruct Hst as [Hst|Hst]; apply str_eqb_eq in Hst; subst pattern.
      * rewrite iter_star_w. symmetry. apply rsearch_star.
      * rewrite iter_starstar_w. symmetry. apply rsearch_starstar.
    + destruct (negb (dir_mismatch_w pattern isdir) && str_eqb pattern path) eqn:Hfp.
      * injection H as <-. apply andb_true_iff in Hfp. destruct Hfp as [Hdm Heq].
        apply str_eqb_eq in Heq. subst path. apply negb_true_iff in Hdm.
        unfold path_seen_w. rewrite Hdm. rewrite <- (fast_same_w pattern base Hfast). symmetry. apply rsearch_refl.
      * apply (match_loop_spec fuel _ _ _ b H).
Qed.

Theorem pathmatch_w_spec_b_iff pattern path base isdir :
  pathmatch_w_spec_b pattern path base isdir = true <-> pathmatch_w_spec pattern path base isdir.
Proof.
  unfold pathmatch_w_spec_b, pathmatch_w_spec. rewrite andb_true_iff, rsearch_match_spec.
  split; intros [H1 H2]; (split; [|exact H2]).
  - destruct pattern; [discriminate|discriminate].
  - destruct pattern; [contradiction|reflexivity].
Qed.

Theorem pathmatch_w_model_total pattern path base isdir :
  exists b, pathmatch_w pattern path base isdir = Some b.
Proof.
  unfold pathmatch_w, pathmatch_w_fuel.
  destruct (is_nil pattern); [eexists; reflexivity|].
  destruct (str_eqb pattern [STAR] || str_eqb pattern [STAR; STAR]); [eexists; reflexivity|].
  destruct (negb (dir_mismatch_w pattern isdir) && str_eqb pattern path); [eexists; reflexivity|].
  destruct (match_loop_total (is_real pattern) (iter_pattern_w pattern base) (path_seen_w pattern path base isdir)) as (b & Hb & _).
  exists b. exact Hb.
Qed.

(* windows syntax: PathMatch::match always answers, by the documented pattern
   rules applied to what its iterators read (separators unified to '/', case
   folded, drive / UNC root kept) *)
Theorem pathmatch_w_total pattern path base isdir :
  fast_ok pattern base = true ->
  exists b, pathmatch_w pattern path base isdir = Some b /\
            (b = true <-> pathmatch_w_spec pattern path base isdir).
Proof.
  intros Hf. destruct (pathmatch_w_model_total pattern path base isdir) as [b Hb].
  exists b. split; [exact Hb|].
  rewrite (pathmatch_w_fuel_spec_b _ pattern path base isdir b Hf Hb). apply pathmatch_w_spec_b_iff.
Qed.

(* what the windows iterator does to separators and case, on a concrete path *)
Lemma iter_w_example :
  iter_read_w [67;58;92;83;114;99;92;46;92;65;46;67] [] = [99;58;47;115;114;99;47;97;46;99] /\   (* "C:\Src\.\A.C" -> "c:/src/a.c" *)
  pathmatch_w [115;114;99;92;42;46;99] [67;58;92;83;114;99;92;65;46;67] [] false = Some true.    (* "src\*.c" matches "C:\Src\A.C" *)
Proof. vm_compute. split; reflexivity. Qed.
