(* C31: the PathMatch::match loop computes the executable specification
   (rsearch) on every pattern; fast paths. *)
From CV Require Import Base.Bytes Base.Glob Path.Defs.
Local Open Scope N_scope.

(* ---------- generic: invariants of run_pos ---------- *)
Section RunPos.
  Context {S R V : Type}.
  Variable step : S -> res S R.
  Variable I : S -> Prop.
  Variable v : S -> V.
  Variable fin : R -> V.
  Hypothesis Hstep : forall s, I s ->
    match step s with
    | More s' => I s' /\ v s' = v s
    | Done r => fin r = v s
    end.

  Lemma run_pos_inv n : forall s, I s ->
    match run_pos step n s with
    | More s' => I s' /\ v s' = v s
    | Done r => fin r = v s
    end.
  Proof.
    induction n as [n IH|n IH|]; intros s Hs; cbn [run_pos].
    - pose proof (Hstep s Hs) as H1. destruct (step s) as [s1|r]; [|exact H1].
      destruct H1 as [Hi1 Hv1]. pose proof (IH s1 Hi1) as H2.
      destruct (run_pos step n s1) as [s2|r]; [|congruence].
      destruct H2 as [Hi2 Hv2]. pose proof (IH s2 Hi2) as H3.
      destruct (run_pos step n s2) as [s3|r]; [|congruence].
      destruct H3 as [Hi3 Hv3]. split; [exact Hi3|congruence].
    - pose proof (IH s Hs) as H1. destruct (run_pos step n s) as [s1|r]; [|exact H1].
      destruct H1 as [Hi1 Hv1]. pose proof (IH s1 Hi1) as H2.
      destruct (run_pos step n s1) as [s2|r]; [|congruence].
      destruct H2 as [Hi2 Hv2]. split; [exact Hi2|congruence].
    - apply Hstep. exact Hs.
  Qed.
End RunPos.

(* ---------- unfolding rmatch ---------- *)
Definition star_x (slash : bool) (f : str -> bool) (t : str) : bool :=
  if slash then star_any f t else star_ns f t.

Lemma rmatch_star real s1 t :
  rmatch real (STAR :: s1) t = star_x (fst (star_split s1)) (rmatch real (snd (star_split s1))) t.
Proof.
  cbn [rmatch]. change (STAR =? STAR) with true. cbn iota.
  destruct s1 as [|c1 s2]; [reflexivity|].
  cbn [star_split]. destruct (c1 =? STAR); reflexivity.
Qed.

Lemma rmatch_qm real s1 t :
  rmatch real (QM :: s1) t = match t with c' :: t' => negb (c' =? SL) && rmatch real s1 t' | [] => false end.
Proof. reflexivity. Qed.

Lemma rmatch_lit real c s1 t : (c =? STAR) = false -> (c =? QM) = false ->
  rmatch real (c :: s1) t = match t with c' :: t' => (c =? c') && rmatch real s1 t' | [] => false end.
Proof. intros Hs Hq. cbn [rmatch]. rewrite Hs, Hq. reflexivity. Qed.

Lemma star_any_unfold f t :
  star_any f t = f t || match t with [] => false | _ :: t' => star_any f t' end.
Proof. destruct t; reflexivity. Qed.

Lemma star_ns_unfold f t :
  star_ns f t = f t || match t with [] => false | c :: t' => if c =? SL then false else star_ns f t' end.
Proof. destruct t; reflexivity. Qed.

(* ---------- the state semantics ---------- *)
Definition alts (real : bool) (stk : list (str * str)) : bool :=
  existsb (fun e => rmatch real (fst e) (snd e)) stk.

Definition sem (real : bool) (p : str) (st : mstate) : bool :=
  rmatch real (ms st) (mt st) || alts real (mstk st) || rrest real p (mq st).

(* ---------- the star loop ---------- *)
(* every position at which the rest of the pattern could match is pushed:
   all of them when the next pattern character is a wildcard, those with the
   same character when it is a literal *)
Lemma star_loop_cons real slash c0 s2' : forall t stk,
  star_x slash (rmatch real (c0 :: s2')) t || alts real stk =
  rmatch real (c0 :: s2') (fst (star_loop slash (c0 :: s2') t stk))
  || alts real (snd (star_loop slash (c0 :: s2') t stk)).
Proof.
  induction t as [|c t IH]; intros stk.
  - cbn [star_loop fst snd]. destruct slash; cbn [star_x star_any star_ns]; rewrite orb_false_r; reflexivity.
  - cbn [star_loop]. destruct (slash || negb (c =? SL)) eqn:Hgo.
    + rewrite <- IH. cbn [hd_error opt_is next_wild].
      assert (Hx : star_x slash (rmatch real (c0 :: s2')) (c :: t) =
                   rmatch real (c0 :: s2') (c :: t) || star_x slash (rmatch real (c0 :: s2')) t).
      { destruct slash; cbn [star_x].
        - rewrite star_any_unfold. reflexivity.
        - rewrite star_ns_unfold. cbn [orb] in Hgo. destruct (c =? SL); [discriminate|reflexivity]. }
      rewrite Hx.
      destruct ((c0 =? QM) || (c0 =? STAR) || (c0 =? c)) eqn:Hpush.
      * cbn [alts existsb fst snd].
        destruct (rmatch real (c0 :: s2') (c :: t)), (star_x slash (rmatch real (c0 :: s2')) t); reflexivity.
      * apply orb_false_iff in Hpush. destruct Hpush as [Hw Hc]. apply orb_false_iff in Hw. destruct Hw as [Hq Hs].
        rewrite (rmatch_lit real c0 s2' (c :: t) Hs Hq). rewrite Hc. reflexivity.
    + cbn [fst snd]. destruct slash; [discriminate|]. cbn [orb] in Hgo. cbn [star_x].
      rewrite star_ns_unfold. destruct (c =? SL); [|discriminate]. rewrite orb_false_r. reflexivity.
Qed.

Lemma star_loop_nil_stk slash t stk : snd (star_loop slash [] t stk) = stk.
Proof. revert stk. induction t as [|c t IH]; intros stk; cbn [star_loop]; [reflexivity|].
  destruct (slash || negb (c =? SL)); [|reflexivity]. cbn [hd_error opt_is next_wild orb]. apply IH. Qed.

Lemma star_loop_nil_any t stk : fst (star_loop true [] t stk) = [].
Proof. revert stk. induction t as [|c t IH]; intros stk; cbn [star_loop]; [reflexivity|]. cbn [orb]. apply IH. Qed.

Lemma star_any_end real t : star_any (end_ok real) t = true.
Proof. induction t as [|c t IH]; rewrite star_any_unfold; [reflexivity|]. rewrite IH. apply orb_true_r. Qed.

Lemma star_loop_nil_ns real t stk :
  star_ns (end_ok real) t = end_ok real (fst (star_loop false [] t stk)).
Proof.
  revert stk. induction t as [|c t IH]; intros stk.
  - reflexivity.
  - rewrite star_ns_unfold. cbn [star_loop orb]. destruct (c =? SL) eqn:Hc; cbn [negb].
    + cbn [fst]. apply orb_false_r.
    + cbn [end_ok]. rewrite Hc. cbn [andb orb]. apply IH.
Qed.

Lemma star_loop_spec real slash s2 t stk :
  star_x slash (rmatch real s2) t || alts real stk =
  rmatch real s2 (fst (star_loop slash s2 t stk)) || alts real (snd (star_loop slash s2 t stk)).
Proof.
  destruct s2 as [|c0 s2'].
  - rewrite star_loop_nil_stk. f_equal. change (rmatch real []) with (end_ok real).
    destruct slash; cbn [star_x].
    + rewrite star_loop_nil_any. apply star_any_end.
    + apply star_loop_nil_ns.
  - apply star_loop_cons.
Qed.

(* ---------- failing ---------- *)
Lemma drop_nonsep_sl q c q2 : drop_nonsep q = c :: q2 -> c = SL.
Proof.
  induction q as [|x q IH]; cbn [drop_nonsep]; [discriminate|].
  destruct (x =? SL) eqn:Hx.
  - intros H. injection H as <- _. apply N.eqb_eq. exact Hx.
  - exact IH.
Qed.

Lemma rrest_drop real p q :
  rrest real p q = match drop_nonsep q with
                   | _ :: q2 => rmatch real p q2 || rrest real p q2
                   | [] => false
                   end.
Proof.
  induction q as [|x q IH]; [reflexivity|].
  cbn [rrest drop_nonsep]. destruct (x =? SL); [reflexivity|exact IH].
Qed.

Lemma fail_step_sem real p st : rmatch real (ms st) (mt st) = false ->
  match fail_step p st with
  | More st' => True /\ sem real p st' = sem real p st
  | Done b => b = sem real p st
  end.
Proof.
  intros Hm. unfold fail_step, sem. rewrite Hm. cbn [orb].
  destruct (mstk st) as [|[s' t'] stk] eqn:Hstk.
  - cbn [alts existsb orb]. rewrite (rrest_drop real p (mq st)).
    destruct (drop_nonsep (mq st)) as [|c q2] eqn:Hd; [reflexivity|].
    apply drop_nonsep_sl in Hd. subst c. change (SL =? SL) with true. cbn iota.
    split; [exact I|]. cbn [ms mt mq mstk alts existsb]. rewrite orb_false_r. reflexivity.
  - split; [exact I|]. cbn [ms mt mq mstk alts existsb fst snd]. reflexivity.
Qed.

(* ---------- one iteration of for(;;) ---------- *)
Lemma step_sem real p st : True ->
  match step real p st with
  | More st' => True /\ sem real p st' = sem real p st
  | Done b => b = sem real p st
  end.
Proof.
  intros _. unfold step.
  destruct (ms st) as [|c s1] eqn:Hms.
  - destruct (end_ok real (mt st)) eqn:He.
    + unfold sem. rewrite Hms. change (rmatch real [] (mt st)) with (end_ok real (mt st)). rewrite He. reflexivity.
    + apply fail_step_sem. rewrite Hms. exact He.
  - destruct (c =? STAR) eqn:Hcs.
    + apply N.eqb_eq in Hcs. subst c.
      destruct (star_split s1) as [slash s2] eqn:Hsp.
      destruct (star_loop slash s2 (mt st) (mstk st)) as [t' stk'] eqn:Hlp.
      split; [exact I|].
      unfold sem. cbn [ms mt mq mstk]. rewrite Hms. rewrite rmatch_star. rewrite Hsp. cbn [fst snd].
      rewrite (star_loop_spec real slash s2 (mt st) (mstk st)). rewrite Hlp. reflexivity.
    + destruct (c =? QM) eqn:Hcq.
      * apply N.eqb_eq in Hcq. subst c.
        destruct (mt st) as [|c' t'] eqn:Hmt.
        -- apply fail_step_sem. rewrite Hms, Hmt. reflexivity.
        -- destruct (negb (c' =? SL)) eqn:Hn.
           ++ split; [exact I|].
              unfold sem. cbn [ms mt mq mstk]. rewrite Hms, Hmt. rewrite rmatch_qm. rewrite Hn. reflexivity.
           ++ apply fail_step_sem. rewrite Hms, Hmt. rewrite rmatch_qm. rewrite Hn. reflexivity.
      * destruct (mt st) as [|c' t'] eqn:Hmt.
        -- apply fail_step_sem. rewrite Hms, Hmt. rewrite (rmatch_lit real c s1 [] Hcs Hcq). reflexivity.
        -- destruct (c =? c') eqn:Hcc.
           ++ split; [exact I|].
              unfold sem. cbn [ms mt mq mstk]. rewrite Hms, Hmt. rewrite (rmatch_lit real c s1 (c' :: t') Hcs Hcq).
              rewrite Hcc. reflexivity.
           ++ apply fail_step_sem. rewrite Hms, Hmt.
              rewrite (rmatch_lit real c s1 (c' :: t') Hcs Hcq). rewrite Hcc. reflexivity.
Qed.

(* Whatever the fuel: if the loop answers, the answer is the specification *)
Theorem match_loop_spec fuel real s t b :
  match_loop fuel real s t = Some b -> b = rsearch real s t.
Proof.
  intros H. unfold match_loop in H.
  pose proof (run_pos_inv (step real s) (fun _ => True) (sem real s) (fun b : bool => b) (step_sem real s) fuel
                (mkM s t t []) I) as Hinv.
  destruct (run_pos (step real s) fuel (mkM s t t [])) as [st'|r]; [discriminate|].
  injection H as <-. rewrite Hinv. unfold sem, rsearch. cbn [ms mt mq mstk alts existsb]. rewrite orb_false_r. reflexivity.
Qed.

(* ---------- fast paths ---------- *)
Lemma star_any_skip f k : forall t, f (skipn k t) = true -> star_any f t = true.
Proof.
  induction k as [|k IH]; intros t H; rewrite star_any_unfold.
  - cbn [skipn] in H. rewrite H. reflexivity.
  - destruct t as [|x t]; [cbn [skipn] in H; rewrite H; reflexivity|].
    cbn [skipn] in H. rewrite (IH t H). apply orb_true_r.
Qed.

Lemma rsearch_star t : rsearch false [STAR] t = true.
Proof.
  unfold rsearch. apply orb_true_iff. left. rewrite rmatch_star. cbn [star_split fst snd star_x].
  change (rmatch false []) with (end_ok false).
  induction t as [|c t IH]; rewrite star_ns_unfold; [reflexivity|].
  cbn [end_ok]. destruct (c =? SL); [reflexivity|]. cbn [andb orb]. exact IH.
Qed.

Lemma rsearch_starstar t : rsearch false [STAR; STAR] t = true.
Proof.
  unfold rsearch. apply orb_true_iff. left. rewrite rmatch_star. cbn [star_split fst snd star_x].
  change (STAR =? STAR) with true. cbn iota. cbn [fst snd star_x].
  apply star_any_end.
Qed.

Lemma rmatch_refl_n real n : forall s, (length s <= n)%nat -> rmatch real s s = true.
Proof.
  induction n as [|n IH]; intros s Hn.
  - destruct s; [reflexivity|cbn in Hn; lia].
  - destruct s as [|c s1]; [reflexivity|]. cbn [length] in Hn.
    destruct (c =? STAR) eqn:Hcs.
    + apply N.eqb_eq in Hcs. subst c. rewrite rmatch_star.
      destruct s1 as [|c1 s2].
      * cbn [star_split fst snd star_x]. rewrite star_ns_unfold. change (STAR =? SL) with false. cbn iota.
        rewrite star_ns_unfold. cbn [end_ok rmatch]. reflexivity.
      * cbn [star_split]. destruct (c1 =? STAR) eqn:Hc1.
        -- apply N.eqb_eq in Hc1. subst c1. cbn [fst snd star_x].
           apply (star_any_skip _ 2%nat). cbn [skipn]. apply IH. cbn [length] in Hn. lia.
        -- cbn [fst snd star_x]. rewrite star_ns_unfold. change (STAR =? SL) with false. cbn iota.
           rewrite star_ns_unfold. rewrite (IH (c1 :: s2)); [apply orb_true_r|lia].
    + destruct (c =? QM) eqn:Hcq.
      * apply N.eqb_eq in Hcq. subst c. rewrite rmatch_qm. change (QM =? SL) with false. cbn [negb andb].
        apply IH. lia.
      * rewrite (rmatch_lit real c s1 _ Hcs Hcq). rewrite N.eqb_refl. cbn [andb]. apply IH. lia.
Qed.

Lemma rsearch_refl real s : rsearch real s s = true.
Proof. unfold rsearch. rewrite (rmatch_refl_n real (length s) s (le_n _)). reflexivity. Qed.

Lemma cstr_idem s : cstr (cstr s) = cstr s.
Proof. induction s as [|c s IH]; [reflexivity|]. cbn [cstr]. destruct (c =? 0) eqn:H; [reflexivity|].
  cbn [cstr]. rewrite H, IH. reflexivity. Qed.

Lemma join_raw_nil_r a : join_raw a [] = cstr a.
Proof. unfold join_raw. cbn [cstr]. destruct (cstr a); reflexivity. Qed.

Lemma join_raw_nil_l b a : cstr b = [] -> join_raw b a = cstr a.
Proof. unfold join_raw. intros ->. reflexivity. Qed.

Lemma iter_all_nil_swap b a : cstr b = [] -> iter_all b a = iter_all a [].
Proof. intros H. unfold iter_all. rewrite (join_raw_nil_l b a H), join_raw_nil_r. reflexivity. Qed.

(* the condition under which the `pattern == path` fast path is covered by a theorem *)
Definition fast_ok (pattern base : str) : bool := is_real pattern || is_nil (cstr base).

Lemma is_abs_not_rel p : is_abs p = true -> is_rel_pattern p = false.
Proof.
  destruct p as [|c p]; [discriminate|]. cbn [is_abs is_rel_pattern]. intros H.
  apply N.eqb_eq in H. subst c. reflexivity.
Qed.

Lemma is_rel_not_abs p : is_rel_pattern p = true -> is_abs p = false.
Proof.
  destruct p as [|c p]; [discriminate|]. cbn [is_abs is_rel_pattern].
  destruct (c =? DOT) eqn:H; [|discriminate]. apply N.eqb_eq in H. subst c. reflexivity.
Qed.

Lemma fast_same pattern base : fast_ok pattern base = true ->
  iter_pattern pattern base = iter_path pattern base.
Proof.
  unfold fast_ok, is_real, iter_pattern, iter_path. intros H.
  destruct (is_abs pattern) eqn:Ha.
  - rewrite (is_abs_not_rel _ Ha). reflexivity.
  - destruct (is_rel_pattern pattern) eqn:Hr; [reflexivity|].
    cbn [orb] in H. destruct (cstr base) eqn:Hb; [|discriminate].
    symmetry. apply iter_all_nil_swap. exact Hb.
Qed.

Lemma iter_star : iter_pattern [STAR] = fun _ => [STAR].
Proof. reflexivity. Qed.
Lemma iter_starstar : iter_pattern [STAR; STAR] = fun _ => [STAR; STAR].
Proof. reflexivity. Qed.

(* PathMatch::match as a whole, against the executable specification *)
Theorem pathmatch_fuel_spec_iter_b fuel pattern path base isdir b :
  fast_ok pattern base = true ->
  pathmatch_fuel fuel pattern path base isdir = Some b ->
  b = pathmatch_spec_iter_b pattern path base isdir.
Proof.
  intros Hfast H. unfold pathmatch_fuel in H. unfold pathmatch_spec_iter_b.
  destruct (is_nil pattern) eqn:Hnil.
  - injection H as <-. reflexivity.
  - cbn [negb andb].
    destruct (str_eqb pattern [STAR] || str_eqb pattern [STAR; STAR]) eqn:Hst.
    + injection H as <-. apply orb_true_iff in Hst. destruct Hst as [Hst|Hst]; apply str_eqb_eq in Hst; subst pattern.
      * rewrite iter_star. symmetry. apply rsearch_star.
      * rewrite iter_starstar. symmetry. apply rsearch_starstar.
    + destruct (negb (dir_mismatch pattern isdir) && str_eqb pattern path) eqn:Hfp.
      * injection H as <-. apply andb_true_iff in Hfp. destruct Hfp as [Hdm Heq].
        apply str_eqb_eq in Heq. subst path. apply negb_true_iff in Hdm.
        unfold path_seen. rewrite Hdm. rewrite <- (fast_same pattern base Hfast). symmetry. apply rsearch_refl.
      * apply (match_loop_spec fuel _ _ _ b H).
Qed.
