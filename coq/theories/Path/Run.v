(* Entry point for the extracted executable of C31: decodes cases, runs the model. *)
From CV Require Import Base.Bytes Base.Glob Path.Defs.
Local Open Scope N_scope.

Definition FUEL : list str := [[70]].   (* "F" *)
Definition BAD : list str := [[66]].    (* "B": malformed case *)

Definition ob (o : option bool) : list str :=
  match o with Some b => [str_of_bool b] | None => FUEL end.

Definition nd (s : str) : N := match N_of_dec s with Some z => z | None => 0 end.
Definition is_d (s : str) : bool := str_eqb s [100].   (* "d" *)
Definition is_w (s : str) : bool := str_eqb s [119].   (* "w": Syntax::windows *)

Fixpoint take_n (n : nat) (l : list str) : option (list str * list str) :=
  match n with
  | O => Some ([], l)
  | S n' => match l with
            | x :: r => match take_n n' r with
                        | Some (xs, r') => Some (x :: xs, r')
                        | None => None
                        end
            | [] => None
            end
  end.

Definition take_list (l : list str) : option (list str * list str) :=
  match l with
  | cnt :: r => take_n (N.to_nat (nd cnt)) r
  | [] => None
  end.

(* tree: "F" name | "D" name count child... *)
Fixpoint take_many {A} (f : list str -> option (A * list str)) (n : nat) (l : list str) : option (list A * list str) :=
  match n with
  | O => Some ([], l)
  | S n' => match f l with
            | Some (t, l') => match take_many f n' l' with
                              | Some (ts, l'') => Some (t :: ts, l'')
                              | None => None
                              end
            | None => None
            end
  end.

Fixpoint take_tree (fuel : nat) (l : list str) : option (tree * list str) :=
  match fuel with
  | O => None
  | S f =>
      match l with
      | k :: name :: r =>
          if str_eqb k [70] then Some (File name, r)
          else
            match r with
            | cnt :: r1 =>
                match take_many (take_tree f) (N.to_nat (nd cnt)) r1 with
                | Some (ts, l') => Some (Dir name ts, l')
                | None => None
                end
            | [] => None
            end
      | _ => None
      end
  end.

Fixpoint take_inputs (n : nat) (l : list str) : option (list (str * tree) * list str) :=
  match n with
  | O => Some ([], l)
  | S n' => match l with
            | p :: r => match take_tree (length r + 1) r with
                        | Some (t, r') => match take_inputs n' r' with
                                          | Some (xs, r'') => Some ((p, t) :: xs, r'')
                                          | None => None
                                          end
                        | None => None
                        end
            | [] => None
            end
  end.

Definition lang_out (l : lang) : str := match l with LNone => [78] | LC => [67] | LCPP => [80] end.

(* ignored / filter predicates from pattern lists; dflt is used on fuel exhaustion *)
Definition any_pm (dflt : bool) (patterns : list str) (base : str) (path : str) (isdir : bool) : bool :=
  match pathmatch_any patterns path base isdir with Some b => b | None => dflt end.

Definition abs_key (base : str) (x : str) : str :=
  canon (if is_abs x then x else join_raw base x).

Definition select_run (dflt : bool) (base : str) (inputs : list (str * tree)) (ign filt : list str) : list str :=
  select_files (any_pm dflt ign base) (accept_file [])
               (if is_nil filt then None else Some (fun p => any_pm dflt filt base p false))
               (abs_key base) inputs.

Definition tag_is (t : str) (name : str) : bool := str_eqb t name.

(* tags: pm pmspec readscanon iterpat iterpath iterraw canon simplify accept identify select lister *)
Definition run (fields : list str) : list str :=
  match fields with
  | [] => BAD
  | tag :: args =>
      if tag_is tag [112;109] then                                   (* pm *)
        match args with
        | [p; t; b; m; sy] => ob (if is_w sy then pathmatch_w p t b (is_d m) else pathmatch_model p t b (is_d m))
        | _ => BAD
        end
      else if tag_is tag [112;109;115;112;101;99] then               (* pmspec *)
        match args with
        | [p; t; b; m; _] => [str_of_bool (pathmatch_spec_b p t b (is_d m))]
        | _ => BAD
        end
      else if tag_is tag [114;101;97;100;115;99;97;110;111;110] then   (* readscanon *)
        match args with
        | [p; t; b] => [str_of_bool (str_eqb (rev (iter_pattern p b)) (canon_pattern p b));
                        str_of_bool (str_eqb (rev (iter_path t b)) (canon_path t b));
                        str_of_bool (is_nil (canon_pattern p b));
                        str_of_bool (in_domain p t b)]
        | _ => BAD
        end
      else if tag_is tag [105;116;101;114;112;97;116] then           (* iterpat *)
        match args with
        | [p; b; sy] => [rev (if is_w sy then iter_pattern_w p b else iter_pattern p b)]
        | _ => BAD
        end
      else if tag_is tag [105;116;101;114;112;97;116;104] then       (* iterpath *)
        match args with
        | [p; b; sy] => [rev (if is_w sy then iter_path_w p b else iter_path p b)]
        | _ => BAD
        end
      else if tag_is tag [105;116;101;114;114;97;119] then           (* iterraw *)
        match args with
        | [a; b; sy] => [if is_w sy then iter_read_w a b else iter_read a b]
        | _ => BAD
        end
      else if tag_is tag [99;97;110;111;110] then                    (* canon *)
        match args with
        | [a; b] => [canon (join_raw a b)]
        | _ => BAD
        end
      else if tag_is tag [99;97;110;111;110;119] then                (* canonw: a b -> canon_w, in the theorem's domain? *)
        match args with
        | [a; b] => [canon_w a b; str_of_bool (canon_ok_w a b)]
        | _ => BAD
        end
      else if tag_is tag [115;105;109;112;108;105;102;121] then      (* simplify *)
        match args with
        | [p] => [simplify_path p]
        | _ => BAD
        end
      else if tag_is tag [97;99;99;101;112;116] then                 (* accept *)
        match args with
        | p :: r => match take_list r with
                    | Some (extra, _) => [str_of_bool (accept_file extra p); lang_out (fst (identify p))]
                    | None => BAD
                    end
        | [] => BAD
        end
      else if tag_is tag [105;100;101;110;116;105;102;121] then      (* identify *)
        match args with
        | [p] => [lang_out (fst (identify p)); str_of_bool (snd (identify p))]
        | _ => BAD
        end
      else if tag_is tag [115;101;108;101;99;116] then               (* select: base ninputs (path tree)... nign ign... nfilt filt... *)
        match args with
        | base :: cnt :: r =>
            match take_inputs (N.to_nat (nd cnt)) r with
            | Some (inputs, r1) =>
                match take_list r1 with
                | Some (ign, r2) =>
                    match take_list r2 with
                    | Some (filt, _) =>
                        let a := select_run false base inputs ign filt in
                        let b := select_run true base inputs ign filt in
                        if forallb (fun x => x) (map (fun xy => str_eqb (fst xy) (snd xy)) (combine a b)) && Nat.eqb (length a) (length b)
                        then [111;107] :: map simplify_path a else FUEL
                    | None => BAD
                    end
                | None => BAD
                end
            | None => BAD
            end
        | _ => BAD
        end
      else if tag_is tag [108;105;115;116;101;114] then               (* lister: path tree base nign ign... (harness: path base nign ign...) *)
        match args with
        | path :: r =>
            match take_tree (length r + 1) r with
            | Some (t, base :: r1) =>
                match take_list r1 with
                | Some (ign, _) =>
                    let a := list_files (any_pm false ign base) (accept_file []) path t in
                    let b := list_files (any_pm true ign base) (accept_file []) path t in
                    if forallb (fun x => x) (map (fun xy => str_eqb (fst xy) (snd xy)) (combine a b)) && Nat.eqb (length a) (length b)
                    then [] :: a else FUEL
                | None => BAD
                end
            | _ => BAD
            end
        | [] => BAD
        end
      else BAD
  end.
