(* C31: the executable specification (rmatch / rsearch on reversed strings)
   is the documented pattern language (gm / match_spec on forward strings). *)
From CV Require Import Base.Bytes Base.Glob Path.Defs Path.MatchProofs.
Local Open Scope N_scope.

(* the same language, read from the right end *)
Inductive gmr : str -> str -> Prop :=
| gmr_nil : gmr [] []
| gmr_lit c p t : c <> STAR -> c <> QM -> gmr p t -> gmr (c :: p) (c :: t)
| gmr_qm x p t : x <> SL -> gmr p t -> gmr (QM :: p) (x :: t)
| gmr_star u p t : Forall (fun x => x <> SL) u -> gmr p t -> gmr (STAR :: p) (u ++ t)
| gmr_sstar u p t : gmr p t -> gmr (STAR :: STAR :: p) (u ++ t).

Lemma gm_to_gmr p t : gm p t -> gmr (rev p) (rev t).
Proof.
  induction 1 as [|p t c Hs Hq H IH|p t x Hx H IH|p t u Hu H IH|p t u H IH].
  - apply gmr_nil.
  - rewrite !rev_app_distr. cbn [rev app]. apply gmr_lit; assumption.
  - rewrite !rev_app_distr. cbn [rev app]. apply gmr_qm; assumption.
  - rewrite !rev_app_distr. cbn [rev app]. apply gmr_star; [|assumption].
    apply Forall_rev. exact Hu.
  - rewrite !rev_app_distr. cbn [rev app]. apply gmr_sstar. assumption.
Qed.

Lemma gmr_to_gm p t : gmr p t -> gm (rev p) (rev t).
Proof.
  induction 1 as [|c p t Hs Hq H IH|x p t Hx H IH|u p t Hu H IH|u p t H IH].
  - apply gm_nil.
  - cbn [rev]. apply gm_lit; assumption.
  - cbn [rev]. apply gm_qm; assumption.
  - cbn [rev]. rewrite rev_app_distr. apply gm_star; [|assumption]. apply Forall_rev. exact Hu.
  - cbn [rev]. rewrite rev_app_distr. rewrite <- app_assoc. cbn [app]. apply gm_sstar. assumption.
Qed.

Lemma gm_gmr p t : gm p t <-> gmr (rev p) (rev t).
Proof.
  split; [apply gm_to_gmr|]. intros H. apply gmr_to_gm in H. rewrite !rev_involutive in H. exact H.
Qed.

(* ---------- star_any / star_ns ---------- *)
Lemma star_any_mono (f g : str -> bool) : (forall y, f y = true -> g y = true) ->
  forall t, star_any f t = true -> star_any g t = true.
Proof.
  intros Hfg. induction t as [|x t IH]; rewrite (star_any_unfold f), (star_any_unfold g); intros H.
  - rewrite orb_false_r in H. rewrite (Hfg _ H). reflexivity.
  - apply orb_true_iff in H. destruct H as [H|H]; [rewrite (Hfg _ H); reflexivity|].
    rewrite (IH H). apply orb_true_r.
Qed.

Lemma star_ns_any f t : star_ns f t = true -> star_any f t = true.
Proof.
  induction t as [|x t IH]; rewrite star_ns_unfold, star_any_unfold; intros H.
  - exact H.
  - apply orb_true_iff in H. destruct H as [H|H]; [rewrite H; reflexivity|].
    destruct (x =? SL); [discriminate|]. rewrite (IH H). apply orb_true_r.
Qed.

Lemma star_any_app f u t : star_any f t = true -> star_any f (u ++ t) = true.
Proof.
  induction u as [|x u IH]; intros H; [exact H|].
  cbn [app]. rewrite star_any_unfold. rewrite (IH H). apply orb_true_r.
Qed.

Lemma star_ns_app f u t : Forall (fun x => x <> SL) u -> star_ns f t = true -> star_ns f (u ++ t) = true.
Proof.
  induction 1 as [|x u Hx Hu IH]; intros H; [exact H|].
  cbn [app]. rewrite star_ns_unfold. apply N.eqb_neq in Hx. rewrite Hx. rewrite (IH H). apply orb_true_r.
Qed.

Lemma star_any_inv f t : star_any f t = true -> exists u t', t = u ++ t' /\ f t' = true.
Proof.
  induction t as [|x t IH]; rewrite star_any_unfold; intros H.
  - rewrite orb_false_r in H. exists [], []. auto.
  - apply orb_true_iff in H. destruct H as [H|H].
    + exists [], (x :: t). auto.
    + destruct (IH H) as (u & t' & -> & Hf). exists (x :: u), t'. auto.
Qed.

Lemma star_ns_inv f t : star_ns f t = true ->
  exists u t', t = u ++ t' /\ Forall (fun x => x <> SL) u /\ f t' = true.
Proof.
  induction t as [|x t IH]; rewrite star_ns_unfold; intros H.
  - rewrite orb_false_r in H. exists [], []. auto.
  - apply orb_true_iff in H. destruct H as [H|H].
    + exists [], (x :: t). auto.
    + destruct (x =? SL) eqn:Hx; [discriminate|]. apply N.eqb_neq in Hx.
      destruct (IH H) as (u & t' & -> & Hu & Hf). exists (x :: u), t'. auto.
Qed.

(* ---------- a star matches the empty string; '*' is contained in '**' ---------- *)
Lemma rmatch_star_absorb real n : forall p, (length p <= n)%nat ->
  (forall x, rmatch real p x = true -> rmatch real (STAR :: p) x = true) /\
  (forall x, rmatch real (STAR :: p) x = true -> star_any (rmatch real p) x = true).
Proof.
  induction n as [|n IH]; intros p Hn.
  - destruct p; [|cbn in Hn; lia]. split; intros x H.
    + rewrite rmatch_star. cbn [star_split fst snd star_x]. rewrite star_ns_unfold. rewrite H. reflexivity.
    + rewrite rmatch_star in H. cbn [star_split fst snd star_x] in H. apply star_ns_any. exact H.
  - destruct p as [|c p2].
    + split; intros x H.
      * rewrite rmatch_star. cbn [star_split fst snd star_x]. rewrite star_ns_unfold. rewrite H. reflexivity.
      * rewrite rmatch_star in H. cbn [star_split fst snd star_x] in H. apply star_ns_any. exact H.
    + cbn [length] in Hn. assert (Hn2 : (length p2 <= n)%nat) by lia.
      destruct (IH p2 Hn2) as [A2 A2'].
      destruct (c =? STAR) eqn:Hc.
      * apply N.eqb_eq in Hc. subst c. split; intros x H.
        -- (* rmatch (STAR::p2) x -> rmatch (STAR::STAR::p2) x *)
           rewrite rmatch_star. cbn [star_split]. change (STAR =? STAR) with true. cbn iota. cbn [fst snd star_x].
           apply A2'. exact H.
        -- (* rmatch (STAR::STAR::p2) x -> star_any (rmatch (STAR::p2)) x *)
           rewrite rmatch_star in H. cbn [star_split] in H. change (STAR =? STAR) with true in H. cbn iota in H.
           cbn [fst snd star_x] in H. revert H. apply star_any_mono. exact A2.
      * split; intros x H.
        -- rewrite rmatch_star. cbn [star_split]. rewrite Hc. cbn [fst snd star_x].
           rewrite star_ns_unfold. rewrite H. reflexivity.
        -- rewrite rmatch_star in H. cbn [star_split] in H. rewrite Hc in H. cbn [fst snd star_x] in H.
           apply star_ns_any. exact H.
Qed.

Lemma rmatch_star_any real p x : rmatch real (STAR :: p) x = true -> star_any (rmatch real p) x = true.
Proof. apply (proj2 (rmatch_star_absorb real (length p) p (le_n _))). Qed.

(* ---------- rmatch = language + end condition ---------- *)
Lemma gmr_rmatch real p m : gmr p m -> forall a, end_ok real a = true -> rmatch real p (m ++ a) = true.
Proof.
  induction 1 as [|c p t Hs Hq H IH|x p t Hx H IH|u p t Hu H IH|u p t H IH]; intros a Ha.
  - exact Ha.
  - apply N.eqb_neq in Hs, Hq. cbn [app]. rewrite (rmatch_lit real c p _ Hs Hq). rewrite N.eqb_refl. apply (IH a Ha).
  - cbn [app]. rewrite rmatch_qm. apply N.eqb_neq in Hx. rewrite Hx. apply (IH a Ha).
  - rewrite <- app_assoc. specialize (IH a Ha). rewrite rmatch_star.
    destruct p as [|c1 p2].
    + cbn [star_split fst snd star_x]. apply star_ns_app; [exact Hu|]. rewrite star_ns_unfold. rewrite IH. reflexivity.
    + cbn [star_split]. destruct (c1 =? STAR) eqn:Hc1; cbn [fst snd star_x].
      * apply N.eqb_eq in Hc1. subst c1. apply star_any_app. apply rmatch_star_any. exact IH.
      * apply star_ns_app; [exact Hu|]. rewrite star_ns_unfold. rewrite IH. reflexivity.
  - rewrite <- app_assoc. specialize (IH a Ha). rewrite rmatch_star. cbn [star_split].
    change (STAR =? STAR) with true. cbn iota. cbn [fst snd star_x].
    apply star_any_app. rewrite star_any_unfold. rewrite IH. reflexivity.
Qed.

Lemma rmatch_gmr_n real n : forall p, (length p <= n)%nat -> forall t, rmatch real p t = true ->
  exists m a, t = m ++ a /\ gmr p m /\ end_ok real a = true.
Proof.
  induction n as [|n IH]; intros p Hn t H.
  - destruct p; [|cbn in Hn; lia]. exists [], t. split; [reflexivity|]. split; [apply gmr_nil|exact H].
  - destruct p as [|c s1]; [exists [], t; split; [reflexivity|]; split; [apply gmr_nil|exact H]|].
    cbn [length] in Hn. destruct (c =? STAR) eqn:Hcs.
    + apply N.eqb_eq in Hcs. subst c. rewrite rmatch_star in H.
      destruct s1 as [|c1 s2].
      * cbn [star_split fst snd star_x] in H. apply star_ns_inv in H. destruct H as (u & t' & -> & Hu & Hf).
        exists u, t'. split; [reflexivity|]. split; [|exact Hf].
        rewrite <- (app_nil_r u). apply gmr_star; [exact Hu|apply gmr_nil].
      * cbn [star_split] in H. destruct (c1 =? STAR) eqn:Hc1; cbn [fst snd star_x] in H.
        -- apply N.eqb_eq in Hc1. subst c1. apply star_any_inv in H. destruct H as (u & t' & -> & Hf).
           cbn [length] in Hn. destruct (IH s2 ltac:(lia) t' Hf) as (m & a & -> & Hg & Ha).
           exists (u ++ m), a. split; [apply app_assoc|]. split; [|exact Ha]. apply gmr_sstar. exact Hg.
        -- apply star_ns_inv in H. destruct H as (u & t' & -> & Hu & Hf).
           destruct (IH (c1 :: s2) ltac:(cbn [length] in *; lia) t' Hf) as (m & a & -> & Hg & Ha).
           exists (u ++ m), a. split; [apply app_assoc|]. split; [|exact Ha]. apply gmr_star; assumption.
    + destruct (c =? QM) eqn:Hcq.
      * apply N.eqb_eq in Hcq. subst c. rewrite rmatch_qm in H. destruct t as [|c' t']; [discriminate|].
        apply andb_true_iff in H. destruct H as [Hx Hf]. apply negb_true_iff, N.eqb_neq in Hx.
        destruct (IH s1 ltac:(lia) t' Hf) as (m & a & -> & Hg & Ha).
        exists (c' :: m), a. split; [reflexivity|]. split; [|exact Ha]. apply gmr_qm; assumption.
      * rewrite (rmatch_lit real c s1 t Hcs Hcq) in H. destruct t as [|c' t']; [discriminate|].
        apply andb_true_iff in H. destruct H as [Hx Hf]. apply N.eqb_eq in Hx. subst c'.
        destruct (IH s1 ltac:(lia) t' Hf) as (m & a & -> & Hg & Ha).
        exists (c :: m), a. apply N.eqb_neq in Hcs, Hcq. split; [reflexivity|]. split; [|exact Ha].
        apply gmr_lit; assumption.
Qed.

Lemma rmatch_iff real p t :
  rmatch real p t = true <-> exists m a, t = m ++ a /\ gmr p m /\ end_ok real a = true.
Proof.
  split.
  - apply (rmatch_gmr_n real (length p) p (le_n _)).
  - intros (m & a & -> & Hg & Ha). apply gmr_rmatch; assumption.
Qed.

(* ---------- restart positions ---------- *)
Lemma rrest_iff real p q :
  rrest real p q = true <-> exists b q', q = b ++ SL :: q' /\ rmatch real p q' = true.
Proof.
  induction q as [|c q IH]; cbn [rrest].
  - split; [discriminate|]. intros (b & q' & H & _). destruct b; discriminate.
  - destruct (c =? SL) eqn:Hc.
    + apply N.eqb_eq in Hc. subst c. rewrite orb_true_iff, IH. split.
      * intros [H|(b & q' & -> & H)]; [exists [], q; auto|exists (SL :: b), q'; auto].
      * intros (b & q' & Hq & H). destruct b as [|x b]; cbn [app] in Hq; injection Hq; intros; subst.
        -- left. exact H.
        -- right. exists b, q'. auto.
    + rewrite IH. split.
      * intros (b & q' & -> & H). exists (c :: b), q'. auto.
      * intros (b & q' & Hq & H). destruct b as [|x b]; cbn [app] in Hq; injection Hq; intros; subst.
        -- rewrite N.eqb_refl in Hc. discriminate.
        -- exists b, q'. auto.
Qed.

Lemma end_ok_iff real a :
  end_ok real a = true <-> (a = [] \/ (real = false /\ exists a', a = SL :: a')).
Proof.
  destruct a as [|c a]; cbn [end_ok].
  - split; auto.
  - rewrite andb_true_iff, negb_true_iff, N.eqb_eq. split.
    + intros [-> Hr]. right. split; [exact Hr|]. exists a. reflexivity.
    + intros [H|[Hr (a' & H)]]; [discriminate|]. injection H as -> _. auto.
Qed.

(* rsearch on the reversed strings is match_spec on the forward strings *)
Theorem rsearch_match_spec real p t :
  rsearch real p t = true <-> match_spec real (rev p) (rev t).
Proof.
  unfold rsearch, match_spec. rewrite orb_true_iff. split.
  - intros [H|H].
    + apply rmatch_iff in H. destruct H as (m & a & -> & Hg & Ha).
      exists (rev a), (rev m), []. rewrite app_nil_r, rev_app_distr. repeat split.
      * apply gm_gmr. rewrite !rev_involutive. exact Hg.
      * left. reflexivity.
      * apply end_ok_iff in Ha. destruct Ha as [->|[Hr (a' & ->)]]; [left; reflexivity|].
        right. split; [exact Hr|]. exists (rev a'). reflexivity.
    + apply rrest_iff in H. destruct H as (b & q' & -> & H).
      apply rmatch_iff in H. destruct H as (m & a & -> & Hg & Ha).
      exists (rev a), (rev m), (SL :: rev b). repeat split.
      * rewrite rev_app_distr. cbn [rev]. rewrite rev_app_distr. rewrite <- !app_assoc. reflexivity.
      * apply gm_gmr. rewrite !rev_involutive. exact Hg.
      * right. exists (rev b). reflexivity.
      * apply end_ok_iff in Ha. destruct Ha as [->|[Hr (a' & ->)]]; [left; reflexivity|].
        right. split; [exact Hr|]. exists (rev a'). reflexivity.
  - intros (A & M & B & HT & Hg & HB & HA).
    assert (Ht : t = rev B ++ rev M ++ rev A).
    { rewrite <- (rev_involutive t). rewrite HT. rewrite !rev_app_distr. rewrite app_assoc. reflexivity. }
    apply gm_gmr in Hg. rewrite rev_involutive in Hg.
    assert (Ha : end_ok real (rev A) = true).
    { apply end_ok_iff. destruct HA as [->|[Hr (A' & ->)]]; [left; reflexivity|].
      right. split; [exact Hr|]. exists (rev A'). rewrite rev_app_distr. reflexivity. }
    assert (Hm : rmatch real p (rev M ++ rev A) = true) by (apply rmatch_iff; eauto).
    destruct HB as [->|(B' & ->)].
    + left. rewrite Ht. exact Hm.
    + right. apply rrest_iff. exists (rev B'), (rev M ++ rev A). split; [|exact Hm].
      rewrite Ht. cbn [rev]. rewrite <- app_assoc. reflexivity.
Qed.

Theorem pathmatch_spec_iter_b_iff pattern path base isdir :
  pathmatch_spec_iter_b pattern path base isdir = true <-> pathmatch_spec_iter pattern path base isdir.
Proof.
  unfold pathmatch_spec_iter_b, pathmatch_spec_iter. rewrite andb_true_iff, rsearch_match_spec.
  split; intros [H1 H2]; (split; [|exact H2]).
  - destruct pattern; [discriminate|discriminate].
  - destruct pattern; [contradiction|reflexivity].
Qed.

Theorem pathmatch_spec_b_iff pattern path base isdir :
  pathmatch_spec_b pattern path base isdir = true <-> pathmatch_spec pattern path base isdir.
Proof.
  unfold pathmatch_spec_b, pathmatch_spec. rewrite andb_true_iff, rsearch_match_spec, !rev_involutive.
  split; intros [H1 H2]; (split; [|exact H2]).
  - destruct pattern; [discriminate|discriminate].
  - destruct pattern; [contradiction|reflexivity].
Qed.

(* when the iterators read the canonical forms, both specifications coincide *)
Lemma spec_iter_canon pattern path base isdir : reads_canon_b pattern path base = true ->
  pathmatch_spec_iter pattern path base isdir <-> pathmatch_spec pattern path base isdir.
Proof.
  unfold reads_canon_b. rewrite andb_true_iff, !str_eqb_eq. intros [Hp Ht].
  unfold pathmatch_spec_iter, pathmatch_spec. rewrite Hp.
  assert (Hs : rev (path_seen pattern path base isdir) = spec_path pattern path base isdir).
  { unfold path_seen, spec_path, drop_last_comp. rewrite <- Ht, rev_involutive.
    destruct (dir_mismatch pattern isdir); reflexivity. }
  rewrite Hs. reflexivity.
Qed.

(* PathMatch::match, as the code runs it, answers with the documented rules
   - when its iterators read the documented canonical forms (reads_canon_b),
   - the `pattern == path` shortcut being covered for real patterns or an
     empty base path (fast_ok). *)
Theorem pathmatch_fuel_spec fuel pattern path base isdir b :
  fast_ok pattern base = true ->
  reads_canon_b pattern path base = true ->
  pathmatch_fuel fuel pattern path base isdir = Some b ->
  (b = true <-> pathmatch_spec pattern path base isdir).
Proof.
  intros Hf Hc H. rewrite (pathmatch_fuel_spec_iter_b fuel pattern path base isdir b Hf H).
  rewrite pathmatch_spec_iter_b_iff. apply spec_iter_canon. exact Hc.
Qed.

(* the two inputs on which the iterator deviated before fix 5cbe6ed *)
Lemma iter_fixed_witnesses :
  iter_read [97; SL; SL; 98] [] = canon [97; SL; SL; 98] /\          (* "a//b" -> "a/b" *)
  iter_read [SL; DOT; DOT; SL; 97] [] = canon [SL; DOT; DOT; SL; 97] /\   (* "/../a" -> "/a" *)
  iter_read [SL; SL; 97] [] = [SL; 97] /\ iter_read [SL; DOT; DOT] [] = [SL] /\
  pathmatch_model [97; SL; 98] [97; SL; SL; 98] [] false = Some true /\
  reads_canon_b [97; SL; 98] [97; SL; SL; 98] [] = true.
Proof. vm_compute. repeat split; reflexivity. Qed.
