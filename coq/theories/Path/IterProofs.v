(* C31: on syntactically canonical strings the PathIterator is the identity. *)
From CV Require Import Base.Bytes Base.Glob Path.Defs.
Local Open Scope N_scope.

(* when the component check falls through, skips restores the position *)
Lemma skips_id_false f k r : comp_ok r = true -> skips (S f) k false r = r.
Proof.
  intros H. cbn [skips]. destruct (negb (gt_root k r)); [reflexivity|].
  destruct r as [|c r2]; [reflexivity|]. cbn [comp_ok] in H.
  destruct (c =? DOT) eqn:Hc.
  - destruct r2 as [|c2 r3]; [discriminate|].
    destruct (c2 =? DOT) eqn:Hc2.
    + destruct r3 as [|c3 r4]; [reflexivity|]. apply negb_true_iff in H. rewrite H. reflexivity.
    + apply negb_true_iff in H. rewrite H. reflexivity.
  - apply negb_true_iff in H. rewrite H. reflexivity.
Qed.

Lemma skips_id_true f k r1 : comp_ok r1 = true -> skips (S f) k true (SL :: r1) = SL :: r1.
Proof.
  intros H. cbn [skips]. destruct (negb (gt_root k (SL :: r1))); [reflexivity|].
  change (SL =? SL) with true. cbn iota.
  destruct r1 as [|c r2]; [reflexivity|]. cbn [comp_ok] in H.
  destruct (c =? DOT) eqn:Hc.
  - destruct r2 as [|c2 r3]; [discriminate|].
    destruct (c2 =? DOT) eqn:Hc2.
    + destruct r3 as [|c3 r4]; [reflexivity|]. apply negb_true_iff in H. rewrite H. reflexivity.
    + apply negb_true_iff in H. rewrite H. reflexivity.
  - apply negb_true_iff in H. rewrite H. reflexivity.
Qed.

Lemma skips_root f k lead r : gt_root k r = false -> skips f k lead r = r.
Proof. intros H. destruct f; [reflexivity|]. cbn [skips]. rewrite H. reflexivity. Qed.

Lemma advance_id k x r' : all_ok k (x :: r') = true -> advance k (x :: r') = r'.
Proof.
  cbn [all_ok advance]. destruct r' as [|c r'']; [reflexivity|].
  intros H. apply andb_true_iff in H. destruct H as [H _].
  destruct (c =? SL) eqn:Hc; [|reflexivity].
  apply N.eqb_eq in Hc. subst c. apply orb_true_iff in H. destruct H as [H|H].
  - apply negb_true_iff in H. apply skips_root. exact H.
  - apply skips_id_true. exact H.
Qed.

Lemma all_ok_tail k x r' : all_ok k (x :: r') = true -> all_ok k r' = true.
Proof.
  cbn [all_ok]. destruct r' as [|c r'']; [reflexivity|]. intros H. apply andb_true_iff in H. apply H.
Qed.

Lemma iter_seq_id k : forall r n, (length r <= n)%nat -> all_ok k r = true -> iter_seq n k r = r.
Proof.
  induction r as [|x r' IH]; intros n Hn Hok.
  - destruct n; reflexivity.
  - destruct n; [cbn in Hn; lia|]. cbn [iter_seq]. rewrite (advance_id k x r' Hok).
    f_equal. apply IH; [cbn [length] in Hn; lia|]. eapply all_ok_tail. exact Hok.
Qed.

(* a string without empty, "." or ".." components and without trailing
   separator is read back unchanged *)
Theorem iter_read_canonical a b :
  canonical_b (join_raw a b) = true -> iter_read a b = join_raw a b.
Proof.
  unfold canonical_b, iter_read, iter_all. set (raw := join_raw a b). intros H.
  apply andb_true_iff in H. destruct H as [H0 Hall].
  assert (Hs : skips (S (length raw)) (root_len raw) false (rev raw) = rev raw).
  { apply orb_true_iff in H0. destruct H0 as [H0|H0].
    - apply negb_true_iff in H0. apply skips_root. exact H0.
    - apply skips_id_false. exact H0. }
  rewrite Hs. rewrite (iter_seq_id _ _ _ (le_n _) Hall). apply rev_involutive.
Qed.
