(* C31: the PathIterator reads the documented canonical form (canon), for every
   string that is rooted or does not begin with a ".." component. *)
From CV Require Import Base.Bytes Base.Glob Path.Defs Path.IterProofs.
From Coq Require Import Arith Lia.
Local Open Scope N_scope.

(* ---------- component level ---------- *)
Definition isJ (c : str) : bool := is_nil c || str_eqb c [DOT].
Definition isD (c : str) : bool := str_eqb c [DOT; DOT].

(* skip to the next component that survives, n = pending ".." *)
Fixpoint sfn (n : nat) (l : list str) : list str :=
  match l with
  | [] => []
  | c :: r => if isJ c then sfn n r
              else if isD c then sfn (S n) r
              else match n with O => l | S n' => sfn n' r end
  end.

(* the surviving components, last first *)
Fixpoint bc (n : nat) (l : list str) : list str :=
  match l with
  | [] => []
  | c :: r => if isJ c then bc n r
              else if isD c then bc (S n) r
              else match n with O => c :: bc 0%nat r | S n' => bc n' r end
  end.

Lemma sfn_len n : forall l, (length (sfn n l) <= length l)%nat.
Proof.
  intros l. revert n. induction l as [|c r IH]; intros n; cbn [sfn]; [lia|].
  destruct (isJ c); [specialize (IH n); cbn [length]; lia|].
  destruct (isD c); [specialize (IH (S n)); cbn [length]; lia|].
  destruct n; [lia|]. specialize (IH n). cbn [length]. lia.
Qed.

Lemma sfn_suffix n : forall l, exists a, l = a ++ sfn n l.
Proof.
  intros l. revert n. induction l as [|c r IH]; intros n; cbn [sfn]; [exists []; reflexivity|].
  destruct (isJ c); [destruct (IH n) as [a Ha]; exists (c :: a); cbn [app]; f_equal; exact Ha|].
  destruct (isD c); [destruct (IH (S n)) as [a Ha]; exists (c :: a); cbn [app]; f_equal; exact Ha|].
  destruct n; [exists []; reflexivity|]. destruct (IH n) as [a Ha]. exists (c :: a). cbn [app]. f_equal. exact Ha.
Qed.

Lemma sfn_head n : forall l c r, sfn n l = c :: r -> isJ c = false /\ isD c = false.
Proof.
  intros l. revert n. induction l as [|x l IH]; intros n c r; cbn [sfn]; [discriminate|].
  destruct (isJ x) eqn:Hj; [apply IH|]. destruct (isD x) eqn:Hd; [apply IH|].
  destruct n; [|apply IH]. intros H. injection H as <- _. auto.
Qed.

Lemma sfn_succ m : forall l, (length l <= m)%nat -> forall n, sfn (S n) l = sfn n (tl (sfn 0%nat l)).
Proof.
  induction m as [|m IH]; intros l Hl n.
  - destruct l; [reflexivity|cbn in Hl; lia].
  - destruct l as [|c l]; [reflexivity|]. cbn [length] in Hl. cbn [sfn].
    destruct (isJ c); [apply IH; lia|].
    destruct (isD c); [|reflexivity].
    rewrite (IH l ltac:(lia) (S n)). rewrite (IH l ltac:(lia) 0%nat).
    apply IH. pose proof (sfn_len 0%nat l). destruct (sfn 0%nat l); cbn [tl length] in *; lia.
Qed.

Lemma bc_sfn n : forall l,
  bc n l = match sfn n l with [] => [] | c :: r => c :: bc 0%nat r end.
Proof.
  intros l. revert n. induction l as [|c r IH]; intros n; cbn [bc sfn]; [reflexivity|].
  destruct (isJ c); [apply IH|]. destruct (isD c); [apply IH|].
  destruct n; [reflexivity|apply IH].
Qed.

(* forward stack = backward counter *)
Lemma comp_step_cases stack c :
  comp_step stack c = if isJ c then stack else if isD c then tl stack else c :: stack.
Proof. unfold comp_step, isJ, isD. destruct (is_nil c); [reflexivity|]. cbn [orb]. reflexivity. Qed.

Lemma skipn_tl {A} n (l : list A) : skipn (S n) l = skipn n (tl l).
Proof. destruct l; [destruct n; reflexivity|reflexivity]. Qed.

Lemma bc_fold cs : forall n, bc n (rev cs) = skipn n (fold_left comp_step cs []).
Proof.
  induction cs as [|c cs IH] using rev_ind; intros n.
  - cbn. destruct n; reflexivity.
  - rewrite rev_app_distr. cbn [rev app bc]. rewrite fold_left_app. cbn [fold_left].
    rewrite comp_step_cases. destruct (isJ c); [apply IH|].
    destruct (isD c); [rewrite IH; apply skipn_tl|].
    destruct n; [rewrite IH; reflexivity|]. rewrite IH. reflexivity.
Qed.

Lemma str_eqb_rev c d : str_eqb (rev c) (rev d) = str_eqb c d.
Proof.
  apply Bool.eq_true_iff_eq. rewrite !str_eqb_eq. split; intros H.
  - apply (f_equal (@rev N)) in H. rewrite !rev_involutive in H. exact H.
  - rewrite H. reflexivity.
Qed.

Lemma is_nil_rev (c : str) : is_nil (rev c) = is_nil c.
Proof. destruct c as [|x c]; [reflexivity|]. cbn [rev is_nil]. destruct (rev c); reflexivity. Qed.

Lemma isJ_rev c : isJ (rev c) = isJ c.
Proof. unfold isJ. rewrite is_nil_rev. change [DOT] with (rev [DOT]). rewrite str_eqb_rev. reflexivity. Qed.

Lemma isD_rev c : isD (rev c) = isD c.
Proof. unfold isD. change [DOT; DOT] with (rev [DOT; DOT]). rewrite str_eqb_rev. reflexivity. Qed.

Lemma bc_map_rev l : forall n, bc n (map (@rev N) l) = map (@rev N) (bc n l).
Proof.
  induction l as [|c r IH]; intros n; cbn [map bc]; [reflexivity|].
  rewrite isJ_rev, isD_rev. destruct (isJ c); [apply IH|]. destruct (isD c); [apply IH|].
  destruct n; [cbn [map]; f_equal; apply IH|apply IH].
Qed.

(* ---------- character level: positions as component lists ---------- *)
Notation F := (join [SL]).

Definition noslash (c : str) : Prop := Forall (fun x => x <> SL) c.

Definition Tl (rest : list str) (z : str) : str :=
  match rest with [] => z | _ => SL :: (F rest ++ z) end.

Lemma pos_cons c rest z : F (c :: rest) ++ z = c ++ Tl rest z.
Proof.
  destruct rest as [|r1 rest1]; [reflexivity|].
  cbn [join Tl]. rewrite <- !app_assoc. reflexivity.
Qed.

Lemma Tl_cons r1 rest1 z : Tl (r1 :: rest1) z = SL :: F (r1 :: rest1) ++ z.
Proof. reflexivity. Qed.

Lemma Tl_as_pos rest z : rest <> [] -> Tl rest z = F ([] :: rest) ++ z.
Proof. destruct rest; [contradiction|]. intros _. rewrite pos_cons. reflexivity. Qed.

Lemma gt_root_app z x : gt_root (length z) (x ++ z) = negb (is_nil x).
Proof.
  unfold gt_root. rewrite app_length. destruct x; cbn [length is_nil negb plus].
  - apply Nat.ltb_irrefl.
  - apply Nat.ltb_lt. lia.
Qed.

Lemma gt_root_z z : gt_root (length z) z = false.
Proof. unfold gt_root. apply Nat.ltb_irrefl. Qed.

Lemma lenF_cons c y l : length (F (c :: y :: l)) = (length c + 1 + length (F (y :: l)))%nat.
Proof. cbn [join]. rewrite !app_length. cbn [length]. lia. Qed.

Lemma lenF_suffix a : forall b, (length (F b) <= length (F (a ++ b)))%nat.
Proof.
  induction a as [|x a IH]; intros b; [cbn; lia|].
  cbn [app]. specialize (IH b). destruct (a ++ b) as [|y l] eqn:E.
  - destruct a; [|discriminate]. cbn in E. subst b. cbn. lia.
  - rewrite lenF_cons. lia.
Qed.

Lemma name_ok rc T : noslash rc -> isJ rc = false -> isD rc = false -> comp_ok (rc ++ T) = true.
Proof.
  intros Hn Hj Hd. destruct rc as [|c1 rc1]; [discriminate|].
  inversion Hn as [|? ? H1 Hn1]; subst. apply N.eqb_neq in H1.
  cbn [app comp_ok]. destruct (c1 =? DOT) eqn:E1; [|rewrite H1; reflexivity].
  apply N.eqb_eq in E1. subst c1.
  destruct rc1 as [|c2 rc2]; [discriminate|].
  inversion Hn1 as [|? ? H2 Hn2]; subst. apply N.eqb_neq in H2.
  cbn [app]. destruct (c2 =? DOT) eqn:E2; [|rewrite H2; reflexivity].
  apply N.eqb_eq in E2. subst c2.
  destruct rc2 as [|c3 rc3]; [discriminate|].
  inversion Hn2 as [|? ? H3 Hn3]; subst. apply N.eqb_neq in H3.
  cbn [app]. rewrite H3. reflexivity.
Qed.

Lemma drop_comp_root z : drop_comp (length z) z = z.
Proof. destruct z as [|c z']; [reflexivity|]. cbn [drop_comp]. rewrite (gt_root_z (c :: z')). reflexivity. Qed.

Lemma drop_comp_name z n T : noslash n -> (T = z \/ exists T', T = SL :: T' ++ z) ->
  drop_comp (length z) (n ++ T) = T.
Proof.
  intros Hn HT. induction Hn as [|x n Hx Hn IH].
  - cbn [app]. destruct HT as [->|(T' & ->)]; [apply drop_comp_root|].
    cbn [drop_comp]. change (SL =? SL) with true. cbn [negb]. rewrite andb_false_r. reflexivity.
  - cbn [app drop_comp]. apply N.eqb_neq in Hx. rewrite Hx. cbn [negb].
    assert (Hg : gt_root (length z) (x :: n ++ T) = true).
    { unfold gt_root. apply Nat.ltb_lt. cbn [length]. rewrite app_length.
      destruct HT as [->|(T' & ->)]; [lia|]. cbn [length]. rewrite app_length. lia. }
    rewrite Hg. cbn [andb]. exact IH.
Qed.

(* the first component of an unrooted string is neither empty nor ".." *)
Definition lastok (z : str) (rcs : list str) : Prop :=
  z = [] -> rcs <> [] -> last rcs [] <> [] /\ isD (last rcs []) = false.

Lemma lastok_suffix z a b : lastok z (a ++ b) -> lastok z b.
Proof.
  unfold lastok. intros H Hz Hb. destruct b as [|y b]; [contradiction|].
  assert (Hl : last (a ++ y :: b) [] = last (y :: b) []).
  { clear. induction a as [|x a IH]; [reflexivity|]. cbn [app]. rewrite <- IH.
    destruct (a ++ y :: b) eqn:E; [destruct a; discriminate|reflexivity]. }
  rewrite <- Hl. apply H; [exact Hz|]. destruct a; discriminate.
Qed.

Lemma lastok_cons z c rest : rest <> [] -> lastok z (c :: rest) -> forall d, lastok z (d :: rest).
Proof.
  intros Hr H d Hz _. destruct rest as [|y rest]; [contradiction|]. cbn [last].
  specialize (H Hz ltac:(discriminate)). cbn [last] in H. exact H.
Qed.

(* ---------- one iteration of skips on the shapes that occur ---------- *)
Definition Ld (lead : bool) : str := if lead then [SL] else [].

Lemma step_sl f k lead r2 : gt_root k (Ld lead ++ SL :: r2) = true ->
  skips (S f) k lead (Ld lead ++ SL :: r2) =
  if lead then skips f k true (SL :: r2) else skips f k false r2.
Proof.
  intros Hg. destruct lead; cbn [Ld app] in *; cbn [skips]; rewrite Hg; cbn [negb];
    change (SL =? SL) with true; change (SL =? DOT) with false; reflexivity.
Qed.

Lemma step_dot_end f k lead : gt_root k (Ld lead ++ [DOT]) = true ->
  skips (S f) k lead (Ld lead ++ [DOT]) = [].
Proof.
  intros Hg. destruct lead; cbn [Ld app] in *; cbn [skips]; rewrite Hg; cbn [negb];
    change (SL =? SL) with true; change (DOT =? DOT) with true; reflexivity.
Qed.

Lemma step_dot_sl f k lead r3 : gt_root k (Ld lead ++ DOT :: SL :: r3) = true ->
  skips (S f) k lead (Ld lead ++ DOT :: SL :: r3) = skips f k lead (SL :: r3).
Proof.
  intros Hg. destruct lead; cbn [Ld app] in *; cbn [skips]; rewrite Hg; cbn [negb];
    change (SL =? SL) with true; change (DOT =? DOT) with true; change (SL =? DOT) with false; reflexivity.
Qed.

Lemma step_dd f k lead r4 : gt_root k (Ld lead ++ DOT :: DOT :: SL :: r4) = true ->
  skips (S f) k lead (Ld lead ++ DOT :: DOT :: SL :: r4) =
  if gt_root k (SL :: r4) then skips f k lead (drop_comp k (skips f k false r4))
  else skips f k lead (SL :: r4).
Proof.
  intros Hg. destruct lead; cbn [Ld app] in *; cbn [skips]; rewrite Hg; cbn [negb];
    change (SL =? SL) with true; change (DOT =? DOT) with true; reflexivity.
Qed.

Lemma step_name f k lead r1 : comp_ok r1 = true ->
  skips (S f) k lead (Ld lead ++ r1) = Ld lead ++ r1.
Proof.
  intros H. destruct lead; cbn [Ld app]; [apply skips_id_true|apply skips_id_false]; exact H.
Qed.

(* ---------- skips = skip to the next surviving component ---------- *)
Definition resp (lead : bool) (z : str) (l : list str) : str :=
  match l with [] => z | _ => Ld lead ++ F l ++ z end.

Lemma res_false z l : resp false z l = F l ++ z.
Proof. destruct l; reflexivity. Qed.

Lemma gt_pos z x : x <> [] -> gt_root (length z) (x ++ z) = true.
Proof. intros H. rewrite gt_root_app. destruct x; [contradiction|reflexivity]. Qed.

Lemma skips_z z f lead : skips f (length z) lead z = z.
Proof. apply skips_root. apply gt_root_z. Qed.

Lemma skips_main z : (z = [] \/ exists z', z = SL :: z') -> forall f lead rcs,
  Forall noslash rcs -> lastok z rcs -> (lead = true -> rcs <> []) ->
  (length (Ld lead ++ F rcs ++ z) < f)%nat ->
  skips f (length z) lead (Ld lead ++ F rcs ++ z) = resp lead z (sfn 0%nat rcs).
Proof.
  intros Hz. induction f as [|f IH]; intros lead rcs Hns Hlast Hne Hlen; [lia|].
  destruct rcs as [|rc rest].
  { destruct lead; [exfalso; apply Hne; reflexivity|]. cbn [Ld join app sfn resp]. apply skips_z. }
  inversion Hns as [|? ? Hrc Hrest]; subst.
    assert (Hlen' : (length (Ld lead) + length rc + length (Tl rest z) < S f)%nat).
  { revert Hlen. rewrite pos_cons, !app_length. lia. }
  assert (HTl : rest <> [] -> length (Tl rest z) = (1 + length (F rest) + length z)%nat).
  { destruct rest; [contradiction|]. intros _. rewrite Tl_cons. cbn [length]. rewrite app_length. lia. }
  assert (IHrest : forall ld, (ld = lead \/ ld = false) -> rest <> [] ->
            skips f (length z) ld (Ld ld ++ F rest ++ z) = resp ld z (sfn 0%nat rest)).
  { intros ld Hld Hr. apply IH; [exact Hrest|apply (lastok_suffix z [rc] rest); exact Hlast|intros _; exact Hr|].
    rewrite !app_length. specialize (HTl Hr).
    destruct Hld as [->| ->]; [|cbn [Ld length]]; lia. }
  assert (IHnil : rc <> [] -> rest <> [] -> skips f (length z) false (F ([] :: rest) ++ z) = F (sfn 0%nat rest) ++ z).
  { intros Hc Hr. rewrite <- (res_false z (sfn 0%nat rest)).
    change (sfn 0%nat rest) with (sfn 0%nat ([] :: rest)).
    apply (IH false ([] :: rest)).
    - constructor; [constructor|exact Hrest].
    - apply (lastok_cons z rc rest Hr Hlast).
    - discriminate.
    - rewrite pos_cons. cbn [Ld app]. specialize (HTl Hr).
      destruct rc; [contradiction|]. cbn [length] in Hlen'. lia. }
  rewrite pos_cons.
  assert (Hg : rc ++ Tl rest z <> z -> gt_root (length z) (Ld lead ++ rc ++ Tl rest z) = true).
  { intros Hnz. rewrite <- pos_cons, app_assoc. apply gt_pos. intros E. apply Hnz.
    apply app_eq_nil in E. destruct E as [_ E]. rewrite <- pos_cons, E. reflexivity. }
  destruct rc as [|c1 rc1].
  - (* empty component *)
    change (sfn 0%nat ([] :: rest)) with (sfn 0%nat rest). cbn [app].
    destruct rest as [|r1 rest1].
    + cbn [Tl sfn resp]. destruct lead; [|apply skips_z].
      destruct Hz as [->|(z' & ->)].
      * exfalso. destruct (Hlast eq_refl ltac:(discriminate)) as [H _]. apply H. reflexivity.
      * etransitivity; [apply (step_sl f (length (SL :: z')) true z'); unfold gt_root; apply Nat.ltb_lt; cbn [Ld app length]; lia|].
        apply (skips_z (SL :: z')).
    + rewrite Tl_cons. rewrite step_sl.
      * destruct lead; [apply (IHrest true); [left; reflexivity|discriminate]|].
        rewrite <- res_false. apply (IHrest false); [right; reflexivity|discriminate].
      * rewrite <- Tl_cons. apply (Hg). cbn [app]. rewrite Tl_cons. intros E.
        apply (f_equal (@length N)) in E. cbn [length] in E. rewrite app_length in E. lia.
  - inversion Hrc as [|? ? H1 Hrc1]; subst. apply N.eqb_neq in H1.
    assert (Hgt : gt_root (length z) (Ld lead ++ (c1 :: rc1) ++ Tl rest z) = true).
    { apply Hg. intros E. apply (f_equal (@length N)) in E. rewrite app_length in E. cbn [length] in E.
      destruct rest; cbn [Tl length] in E; [lia|rewrite app_length in E; lia]. }
    destruct (c1 =? DOT) eqn:E1.
    2:{ (* a name *)
      assert (Hj : isJ (c1 :: rc1) = false).
      { unfold isJ. cbn [is_nil orb]. apply Bool.not_true_is_false. rewrite str_eqb_eq. intros E. injection E as E _.
        subst c1. rewrite N.eqb_refl in E1. discriminate. }
      assert (Hd : isD (c1 :: rc1) = false).
      { unfold isD. apply Bool.not_true_is_false. rewrite str_eqb_eq. intros E. injection E as E _.
        subst c1. rewrite N.eqb_refl in E1. discriminate. }
      cbn [sfn]. rewrite Hj, Hd. rewrite step_name by (apply name_ok; assumption).
      cbn [resp]. rewrite pos_cons. reflexivity. }
    apply N.eqb_eq in E1. subst c1.
    destruct rc1 as [|c2 rc2].
    + (* "." *)
      change (sfn 0%nat ([DOT] :: rest)) with (sfn 0%nat rest). cbn [app].
      destruct rest as [|r1 rest1].
      * cbn [Tl sfn resp]. destruct Hz as [->|(z' & ->)].
        -- rewrite step_dot_end; [reflexivity|]. destruct lead; reflexivity.
        -- rewrite step_dot_sl by exact Hgt. apply (skips_z (SL :: z')).
      * rewrite Tl_cons. rewrite step_dot_sl by exact Hgt.
        destruct lead.
        -- apply (IHrest true); [left; reflexivity|discriminate].
        -- rewrite <- Tl_cons, Tl_as_pos by discriminate.
           rewrite res_false. apply IHnil; discriminate.
    + inversion Hrc1 as [|? ? H2 Hrc2]; subst. apply N.eqb_neq in H2.
      destruct (c2 =? DOT) eqn:E2.
      2:{ assert (Hj : isJ (DOT :: c2 :: rc2) = false) by reflexivity.
          assert (Hd : isD (DOT :: c2 :: rc2) = false).
          { unfold isD. apply Bool.not_true_is_false. rewrite str_eqb_eq. intros E. injection E as E _.
            subst c2. rewrite N.eqb_refl in E2. discriminate. }
          cbn [sfn]. rewrite Hj, Hd. rewrite step_name by (apply name_ok; assumption).
          cbn [resp]. rewrite pos_cons. reflexivity. }
      apply N.eqb_eq in E2. subst c2.
      destruct rc2 as [|c3 rc3].
      * (* ".." *)
        change (sfn 0%nat ([DOT; DOT] :: rest)) with (sfn 1%nat rest). cbn [app].
        destruct rest as [|r1 rest1].
        -- cbn [Tl sfn resp]. destruct Hz as [->|(z' & ->)].
           ++ exfalso. destruct (Hlast eq_refl ltac:(discriminate)) as [_ H]. discriminate H.
           ++ rewrite step_dd by exact Hgt.
              rewrite (gt_root_z (SL :: z')). cbn iota. apply (skips_z (SL :: z')).
        -- rewrite Tl_cons. rewrite step_dd by exact Hgt.
           remember (r1 :: rest1) as rest eqn:Er.
           assert (Hrne : rest <> []) by (rewrite Er; discriminate).
           change (SL :: F rest ++ z) with ((SL :: F rest) ++ z). rewrite gt_pos by discriminate.
           pose proof (IHrest false (or_intror eq_refl) Hrne) as Hin. cbn [Ld app] in Hin. rewrite Hin, res_false.
           rewrite (sfn_succ (length rest) rest (le_n _) 0%nat).
           destruct (sfn_suffix 0%nat rest) as [a Ha].
           assert (HTl2 : length (Tl rest z) = (1 + length (F rest) + length z)%nat) by (apply HTl; exact Hrne).
           destruct (sfn 0%nat rest) as [|n rest2] eqn:Es.
           ++ cbn [join app tl sfn resp]. rewrite drop_comp_root. apply skips_z.
           ++ destruct (sfn_head 0%nat rest n rest2 Es) as [Hnj Hnd].
              assert (Hns2 : Forall noslash (n :: rest2)).
              { rewrite Ha in Hrest. apply Forall_app in Hrest. apply Hrest. }
              apply Forall_cons_iff in Hns2. destruct Hns2 as [Hn Hrest2].
              assert (Hlast2 : lastok z (n :: rest2)).
              { apply (lastok_suffix z ([DOT; DOT] :: a)). cbn [app]. rewrite <- Ha. exact Hlast. }
              rewrite pos_cons. rewrite drop_comp_name; [|exact Hn|destruct rest2; [left; reflexivity|right; eexists; reflexivity]].
              cbn [tl]. destruct rest2 as [|r2 rest3].
              ** cbn [Tl sfn resp]. apply skips_z.
              ** assert (Hl2 : (length (F (r2 :: rest3)) <= length (F rest))%nat).
                 { rewrite Ha. change (a ++ n :: r2 :: rest3) with (a ++ [n] ++ (r2 :: rest3)).
                   rewrite app_assoc. apply lenF_suffix. }
                 destruct lead.
                 --- rewrite Tl_cons. apply (IH true (r2 :: rest3)); [exact Hrest2| |discriminate|].
                     +++ apply (lastok_suffix z [n]). exact Hlast2.
                     +++ cbn [Ld app length]. rewrite app_length. cbn [Ld length] in Hlen'. lia.
                 --- rewrite Tl_as_pos by discriminate. rewrite <- res_false.
                     change (sfn 0%nat (r2 :: rest3)) with (sfn 0%nat ([] :: r2 :: rest3)).
                     apply (IH false ([] :: r2 :: rest3)).
                     +++ constructor; [constructor|exact Hrest2].
                     +++ apply (lastok_cons z n (r2 :: rest3)); [discriminate|exact Hlast2].
                     +++ discriminate.
                     +++ rewrite pos_cons. cbn [Ld app length]. rewrite Tl_cons. cbn [length]. rewrite app_length.
                         cbn [Ld length] in Hlen'. lia.
      * (* a name starting with ".." *)
        inversion Hrc2 as [|? ? H3 Hrc3]; subst.
        assert (Hj : isJ (DOT :: DOT :: c3 :: rc3) = false) by reflexivity.
        assert (Hd : isD (DOT :: DOT :: c3 :: rc3) = false).
        { unfold isD. apply Bool.not_true_is_false. rewrite str_eqb_eq. discriminate. }
        cbn [sfn]. rewrite Hj, Hd. rewrite step_name by (apply name_ok; assumption).
        cbn [resp]. rewrite pos_cons. reflexivity.
Qed.

(* ---------- what the iterator yields ---------- *)
Definition after (k : nat) (T : str) : str :=
  match T with
  | [] => []
  | c :: _ => if c =? SL then skips (S (length T)) k true T else T
  end.

Lemma advance_after k x T : advance k (x :: T) = after k T.
Proof. reflexivity. Qed.

Lemma iter_seq_nil m k : iter_seq m k [] = [].
Proof. destruct m; reflexivity. Qed.

Lemma emit_chars k u : noslash u -> u <> [] -> forall T m,
  (length (u ++ T) <= m)%nat ->
  iter_seq m k (u ++ T) = u ++ iter_seq (m - length u) k (after k T).
Proof.
  induction 1 as [|x u Hx Hu IH]; intros Hne T m Hm; [contradiction|].
  destruct m as [|m]; [cbn in Hm; lia|]. cbn [app iter_seq]. rewrite advance_after. cbn [length Nat.sub].
  destruct u as [|y u'].
  - cbn [app length]. rewrite Nat.sub_0_r. reflexivity.
  - f_equal. cbn [app after]. inversion Hu as [|? ? Hy _]; subst. apply N.eqb_neq in Hy. rewrite Hy.
    apply (IH ltac:(discriminate) T m). cbn [app length] in *. lia.
Qed.

Lemma emit_root k : forall w m, (length w <= k)%nat -> (length w <= m)%nat -> iter_seq m k w = w.
Proof.
  induction w as [|x w IH]; intros m Hk Hm; [apply iter_seq_nil|].
  destruct m; [cbn in Hm; lia|]. cbn [iter_seq]. f_equal. rewrite advance_after. unfold after.
  cbn [length] in *. destruct w as [|c w']; [apply iter_seq_nil|].
  destruct (c =? SL).
  - rewrite skips_root by (unfold gt_root; apply Nat.ltb_ge; cbn [length] in *; lia). apply IH; lia.
  - apply IH; lia.
Qed.

Lemma emit_z z m : (length z <= m)%nat -> iter_seq m (length z) z = z.
Proof. intros H. apply emit_root; [apply le_n|exact H]. Qed.

Lemma name_nonempty n : isJ n = false -> n <> [].
Proof. intros H E. subst. discriminate. Qed.

Lemma emit z : (z = [] \/ exists z', z = SL :: z') -> forall N rcs, (length rcs <= N)%nat ->
  sfn 0%nat rcs = rcs -> Forall noslash rcs -> lastok z rcs ->
  forall m, (length (F rcs ++ z) <= m)%nat ->
  iter_seq m (length z) (F rcs ++ z) = F (bc 0%nat rcs) ++ z.
Proof.
  intros Hz. induction N as [|N IH]; intros rcs HN Hs Hns Hlast m Hm.
  - destruct rcs; [|cbn in HN; lia]. cbn [join app bc]. apply emit_z; assumption.
  - destruct rcs as [|n rest]; [cbn [join app bc]; apply emit_z; assumption|].
    assert (Hhead : isJ n = false /\ isD n = false) by (apply (sfn_head 0%nat (n :: rest) n rest Hs)).
    destruct Hhead as [Hj Hd]. apply Forall_cons_iff in Hns. destruct Hns as [Hn Hrest].
    cbn [bc]. rewrite Hj, Hd. rewrite pos_cons in *.
    rewrite (emit_chars (length z) n Hn (name_nonempty n Hj) _ m Hm).
    rewrite app_length in Hm.
    destruct rest as [|r1 rest1].
    + cbn [Tl bc join]. f_equal. destruct Hz as [->|(z' & ->)]; [apply iter_seq_nil|].
      cbn [Tl length] in Hm. unfold after. change (SL =? SL) with true. cbn iota.
      rewrite (skips_z (SL :: z')). apply (emit_z (SL :: z')). cbn [length] in *. lia.
    + rewrite Tl_cons in *. unfold after. change (SL =? SL) with true. cbn iota.
      remember (r1 :: rest1) as rest eqn:Er. assert (Hrne : rest <> []) by (rewrite Er; discriminate).
      assert (HTlen : length (SL :: F rest ++ z) = (1 + length (F rest) + length z)%nat).
      { cbn [length]. rewrite app_length. lia. }
      pose proof (skips_main z Hz (S (length (SL :: F rest ++ z))) true rest Hrest
                    (lastok_suffix z [n] rest Hlast) (fun _ => Hrne)) as Hsk.
      cbn [Ld app] in Hsk. rewrite Hsk by lia. clear Hsk.
      rewrite (bc_sfn 0%nat rest).
      destruct (sfn_suffix 0%nat rest) as [a Ha].
      destruct (sfn 0%nat rest) as [|n2 rest2] eqn:Es.
      * cbn [resp join]. f_equal. apply emit_z. lia.
      * destruct (sfn_head 0%nat rest n2 rest2 Es) as [Hj2 Hd2].
        assert (Hns2 : Forall noslash (n2 :: rest2)).
        { rewrite Ha in Hrest. apply Forall_app in Hrest. apply Hrest. }
        assert (Hl2 : (length (F (n2 :: rest2)) <= length (F rest))%nat) by (rewrite Ha; apply lenF_suffix).
        cbn [resp Ld app].
        assert (Hm2 : (S (length (F (n2 :: rest2) ++ z)) <= m - length n)%nat).
        { rewrite app_length. lia. }
        destruct (m - length n)%nat as [|m'] eqn:Em; [lia|].
        cbn [iter_seq]. rewrite advance_after.
        assert (Haft : after (length z) (F (n2 :: rest2) ++ z) = F (n2 :: rest2) ++ z).
        { rewrite pos_cons. destruct n2 as [|x n2']; [discriminate|].
          apply Forall_cons_iff in Hns2. destruct Hns2 as [Hn2 _]. inversion Hn2 as [|? ? Hx _]; subst.
          apply N.eqb_neq in Hx. cbn [app after]. rewrite Hx. reflexivity. }
        rewrite Haft.
        assert (Hs2 : sfn 0%nat (n2 :: rest2) = n2 :: rest2) by (cbn [sfn]; rewrite Hj2, Hd2; reflexivity).
        rewrite (IH (n2 :: rest2)); [| |exact Hs2|exact Hns2| |lia].
        -- cbn [bc]. rewrite Hj2, Hd2.
           change (n :: n2 :: bc 0%nat rest2) with ([n] ++ n2 :: bc 0%nat rest2).
           rewrite <- (app_nil_r (F ([n] ++ n2 :: bc 0%nat rest2))). cbn [app].
           rewrite (pos_cons n (n2 :: bc 0%nat rest2) []). cbn [Tl]. rewrite app_nil_r.
           rewrite <- app_assoc. reflexivity.
        -- assert (length (n2 :: rest2) <= length rest)%nat.
           { rewrite Ha. rewrite app_length. lia. }
           rewrite Er in *. cbn [length] in *. lia.
        -- apply (lastok_suffix z (n :: a)). cbn [app]. rewrite <- Ha. exact Hlast.
Qed.

(* ---------- strings and component lists ---------- *)
Lemma F_cons_ne c y l : F (c :: y :: l) = c ++ SL :: F (y :: l).
Proof. reflexivity. Qed.

Lemma split_on_spec : forall s cur, noslash cur ->
  split_on SL s cur <> [] /\ Forall noslash (split_on SL s cur) /\ F (split_on SL s cur) = rev cur ++ s.
Proof.
  induction s as [|c s IH]; intros cur Hc; cbn [split_on].
  - split; [discriminate|]. split; [constructor; [apply Forall_rev; exact Hc|constructor]|].
    cbn [join]. rewrite app_nil_r. reflexivity.
  - destruct (c =? SL) eqn:E.
    + apply N.eqb_eq in E. subst c. destruct (IH [] (Forall_nil _)) as (Hne & Hns & HF).
      split; [discriminate|]. split; [constructor; [apply Forall_rev; exact Hc|exact Hns]|].
      destruct (split_on SL s []) as [|y l]; [contradiction|]. rewrite F_cons_ne, HF. reflexivity.
    + apply N.eqb_neq in E. assert (Hc' : noslash (c :: cur)) by (constructor; assumption).
      destruct (IH (c :: cur) Hc') as (Hne & Hns & HF).
      split; [exact Hne|]. split; [exact Hns|]. rewrite HF. cbn [rev]. rewrite <- app_assoc. reflexivity.
Qed.

Lemma split_spec raw : split SL raw <> [] /\ Forall noslash (split SL raw) /\ F (split SL raw) = raw.
Proof. apply (split_on_spec raw [] (Forall_nil _)). Qed.

Lemma hd_split_on : forall s cur, exists u, hd [] (split_on SL s cur) = rev cur ++ u.
Proof.
  induction s as [|c s IH]; intros cur; cbn [split_on].
  - exists []. cbn [hd]. rewrite app_nil_r. reflexivity.
  - destruct (c =? SL).
    + exists []. cbn [hd]. rewrite app_nil_r. reflexivity.
    + destruct (IH (c :: cur)) as [u Hu]. exists (c :: u). rewrite Hu. cbn [rev]. rewrite <- app_assoc. reflexivity.
Qed.

Lemma F_snoc A y : A <> [] -> F (A ++ [y]) = F A ++ SL :: y.
Proof.
  induction A as [|x A IH]; intros Hne; [contradiction|].
  destruct A as [|x2 A]; [reflexivity|].
  cbn [app]. rewrite !F_cons_ne. change (x2 :: A ++ [y]) with ((x2 :: A) ++ [y]).
  rewrite IH by discriminate. rewrite <- app_assoc. reflexivity.
Qed.

Lemma rev_F l : rev (F l) = F (map (@rev N) (rev l)).
Proof.
  induction l as [|x l IH]; [reflexivity|].
  destruct l as [|y l]; [reflexivity|].
  rewrite F_cons_ne, rev_app_distr. cbn [rev]. rewrite <- app_assoc. cbn [app]. rewrite IH.
  change (rev (x :: y :: l)) with (rev (y :: l) ++ [x]). rewrite map_app. cbn [map].
  rewrite F_snoc; [reflexivity|]. cbn [rev]. destruct (rev l); discriminate.
Qed.

Lemma bc_junk_end l : forall n, bc n (l ++ [[]]) = bc n l.
Proof.
  induction l as [|c l IH]; intros n; [reflexivity|]. cbn [app bc].
  destruct (isJ c); [apply IH|]. destruct (isD c); [apply IH|]. destruct n; [f_equal; apply IH|apply IH].
Qed.

Lemma sfn_idem l : sfn 0%nat (sfn 0%nat l) = sfn 0%nat l.
Proof.
  destruct (sfn 0%nat l) as [|c r] eqn:E; [reflexivity|].
  destruct (sfn_head 0%nat l c r E) as [Hj Hd]. cbn [sfn]. rewrite Hj, Hd. reflexivity.
Qed.

Lemma bc_of_sfn l : bc 0%nat (sfn 0%nat l) = bc 0%nat l.
Proof. rewrite (bc_sfn 0%nat (sfn 0%nat l)), sfn_idem, <- bc_sfn. reflexivity. Qed.

(* canon in terms of the backward counter *)
Lemma canon_comps_bc cs : canon_comps cs = rev (bc 0%nat (rev cs)).
Proof. unfold canon_comps. rewrite bc_fold. reflexivity. Qed.

Lemma rev_F_canon_comps cs : rev (F (canon_comps cs)) = F (bc 0%nat (map (@rev N) (rev cs))).
Proof. rewrite canon_comps_bc, rev_F, rev_involutive, bc_map_rev. reflexivity. Qed.

(* the iterator from a position given as components *)
Lemma iter_from z rcs f : (z = [] \/ exists z', z = SL :: z') -> Forall noslash rcs -> lastok z rcs ->
  (length (F rcs ++ z) < f)%nat ->
  let r := skips f (length z) false (F rcs ++ z) in
  iter_seq (length r) (length z) r = F (bc 0%nat rcs) ++ z.
Proof.
  intros Hz Hns Hlast Hf r. subst r.
  pose proof (skips_main z Hz f false rcs Hns Hlast ltac:(discriminate)) as Hsk. cbn [Ld app] in Hsk.
  rewrite Hsk by exact Hf. rewrite res_false.
  destruct (sfn_suffix 0%nat rcs) as [a Ha].
  rewrite (emit z Hz (length (sfn 0%nat rcs)) (sfn 0%nat rcs) (le_n _) (sfn_idem rcs)).
  - rewrite bc_of_sfn. reflexivity.
  - rewrite Ha in Hns. apply Forall_app in Hns. apply Hns.
  - apply (lastok_suffix z a). rewrite <- Ha. exact Hlast.
  - apply le_n.
Qed.

(* rooted, or the first component is not ".." *)
Definition canon_ok (raw : str) : bool := is_abs raw || negb (isD (hd [] (split SL raw))).

Theorem iter_all_canon a b : canon_ok (join_raw a b) = true ->
  iter_all a b = rev (canon (join_raw a b)).
Proof.
  unfold canon_ok, iter_all, canon. set (raw := join_raw a b). intros Hok.
  destruct raw as [|c0 raw'] eqn:Eraw; [reflexivity|].
  destruct (split_spec raw) as (Hne & Hns & HF). rewrite Eraw in Hne, Hns, HF.
  cbn [is_abs root_len] in *. destruct (c0 =? SL) eqn:E0.
  - (* rooted *)
    apply N.eqb_eq in E0. subst c0.
    assert (Hsp : split SL (SL :: raw') = [] :: split SL raw') by reflexivity.
    destruct (split_spec raw') as (Hne' & Hns' & HF').
    set (rcs := map (@rev N) (rev (split SL raw'))).
    assert (Hrev : rev (SL :: raw') = F rcs ++ [SL]).
    { cbn [rev]. rewrite <- HF' at 1. rewrite rev_F. reflexivity. }
    rewrite Hrev. change 1%nat with (length [SL]).
    rewrite (iter_from [SL] rcs (S (length (SL :: raw')))); [|right; exists []; reflexivity| | |].
    + cbn [rev]. rewrite rev_F_canon_comps, Hsp. cbn [rev]. rewrite map_app. cbn [map rev].
      rewrite bc_junk_end. reflexivity.
    + unfold rcs. apply Forall_forall. intros x Hx. apply in_map_iff in Hx. destruct Hx as (y & <- & Hy).
      apply Forall_rev. rewrite Forall_forall in Hns'. apply Hns'. apply in_rev. exact Hy.
    + intros Hz. discriminate.
    + rewrite <- Hrev, rev_length. lia.
  - (* unrooted *)
    cbn [orb] in Hok. apply negb_true_iff in Hok.
    set (cs := split SL (c0 :: raw')) in *. set (rcs := map (@rev N) (rev cs)).
    assert (Hrev : rev (c0 :: raw') = F rcs ++ []).
    { rewrite app_nil_r. rewrite <- HF at 1. rewrite rev_F. reflexivity. }
    rewrite Hrev. change 0%nat with (length (@nil N)).
    rewrite (iter_from [] rcs (S (length (c0 :: raw')))); [|left; reflexivity| | |].
    + rewrite app_nil_r, rev_F_canon_comps. reflexivity.
    + unfold rcs. apply Forall_forall. intros x Hx. apply in_map_iff in Hx. destruct Hx as (y & <- & Hy).
      apply Forall_rev. rewrite Forall_forall in Hns. apply Hns. apply in_rev. exact Hy.
    + intros _ _. destruct cs as [|h cs1] eqn:Ecs; [contradiction|].
      unfold rcs. cbn [rev]. rewrite map_app. cbn [map]. rewrite last_last. cbn [hd] in Hok.
      split; [|rewrite isD_rev; exact Hok].
      destruct (hd_split_on raw' [c0]) as [u Hu].
      assert (Hh : h = [c0] ++ u).
      { change h with (hd [] (h :: cs1)). rewrite <- Ecs. unfold cs, split. cbn [split_on]. rewrite E0. exact Hu. }
      rewrite Hh. cbn [app rev]. destruct (rev u); discriminate.
    + rewrite <- Hrev, rev_length. lia.
Qed.

Theorem iter_read_canon a b : canon_ok (join_raw a b) = true ->
  iter_read a b = canon (join_raw a b).
Proof. intros H. unfold iter_read. rewrite (iter_all_canon a b H). apply rev_involutive. Qed.

(* ---------- consequence for PathMatch::match ---------- *)
Definition pat_raw (pattern base : str) : str :=
  if is_rel_pattern pattern then join_raw base pattern else join_raw pattern [].
Definition path_raw (path base : str) : str :=
  if is_abs path then join_raw path [] else join_raw base path.

Lemma reads_canon_of_ok pattern path base :
  canon_ok (pat_raw pattern base) = true -> canon_ok (path_raw path base) = true ->
  reads_canon_b pattern path base = true.
Proof.
  unfold reads_canon_b, pat_raw, path_raw, iter_pattern, iter_path, canon_pattern, canon_path.
  intros Hp Ht. apply andb_true_iff. split; apply str_eqb_eq.
  - destruct (is_rel_pattern pattern); apply (iter_read_canon _ _ Hp).
  - destruct (is_abs path); apply (iter_read_canon _ _ Ht).
Qed.
