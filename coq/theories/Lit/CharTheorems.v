(* Character literals: simple escapes and source characters, any number of characters in a
   narrow literal, one character after each prefix. *)
From CV Require Import Base.Bytes Lit.Defs Lit.Spec.
Require Import Lia ZifyBool.
Local Open Scope N_scope.

Lemma simple_esc_model e v : simple_esc e v -> simple_escape e = Some v /\ v < 128.
Proof. inversion 1; subst; split; vm_compute; reflexivity. Qed.

Lemma lor_low m v : v < 256 -> N.lor (N.shiftl m 8 mod TWO64) v = (m * 256) mod TWO64 + v.
Proof.
  intros Hv. rewrite N.shiftl_mul_pow2. change (2 ^ 8) with 256.
  set (k := (m * 256) mod TWO64).
  assert (Hk : exists q, k = q * 256).
  { unfold k. exists ((m mod 72057594037927936)).
    change TWO64 with (72057594037927936 * 256). rewrite N.mul_mod_distr_r by lia. reflexivity. }
  destruct Hk as [q ->].
  assert (Hl : N.land (q * 256) v = 0).
  { apply N.bits_inj. intros i. rewrite N.land_spec, N.bits_0.
    destruct (N.lt_ge_cases i 8) as [Hi|Hi].
    - change 256 with (2 ^ 8). rewrite N.mul_pow2_bits_low by assumption. reflexivity.
    - destruct (N.eq_dec v 0) as [->|Hnz]; [rewrite N.bits_0; apply andb_false_r|].
      rewrite (N.bits_above_log2 v i); [apply andb_false_r|].
      apply N.log2_lt_pow2; [lia|]. apply N.lt_le_trans with (2 ^ 8); [exact Hv|].
      apply N.pow_le_mono_r; lia. }
  rewrite <- N.lxor_lor by assumption. rewrite <- N.add_nocarry_lxor by assumption. reflexivity.
Qed.

Lemma c_char_nonempty sp v : c_char sp v -> sp <> [].
Proof. inversion 1; discriminate. Qed.

Lemma c_char_lt sp v : c_char sp v -> v < 256.
Proof. inversion 1; subst; [assumption|]. apply simple_esc_model in H0. lia. Qed.

(* one loop iteration on a c-char followed by more text *)
Lemma char_loop_step fuel k sp v more multi nbytes :
  c_char sp v -> more <> [] -> (k = CNarrow \/ (nbytes = 0 /\ v < 128)) ->
  char_loop (S fuel) k (sp ++ more) multi nbytes =
  char_loop fuel k more (N.lor (N.shiftl multi 8 mod TWO64) v) (nbytes + 1).
Proof.
  intros Hc Hm Hk. destruct more as [|m0 mr]; [contradiction|].
  assert (Hgate : ((1 <=? nbytes) && negb (ckind_eqb k CNarrow)) = false).
  { destruct Hk as [->|[-> _]]; [apply andb_false_r | reflexivity]. }
  assert (Hlarge : item_too_large k v = false).
  { pose proof (c_char_lt _ _ Hc) as Hv. unfold item_too_large.
    assert ((255 <? v) = false) as -> by (apply N.ltb_ge; lia).
    assert (N.shiftr v 16 = 0) as ->.
    { rewrite N.shiftr_div_pow2. apply N.div_small. change (2 ^ 16) with 65536. lia. }
    assert (N.shiftr v 32 = 0) as ->.
    { rewrite N.shiftr_div_pow2. apply N.div_small. change (2 ^ 32) with 4294967296. lia. }
    rewrite !andb_false_r. reflexivity. }
  inversion Hc as [c H1 H2 H3 H4 | e v' He]; subst.
  - (* plain *)
    cbn [app char_loop].
    assert (((v =? 39) || (v =? 10)) = false) as ->.
    { apply orb_false_iff; split; apply N.eqb_neq; assumption. }
    rewrite Hgate. unfold char_item.
    assert ((v =? 92) = false) as -> by (apply N.eqb_neq; assumption).
    assert ((negb (ckind_eqb k CNarrow) && (128 <=? v)) = false) as ->.
    { destruct Hk as [->|[_ Hv]]; [reflexivity|]. apply andb_false_iff. right. apply N.leb_gt. assumption. }
    rewrite Hlarge. reflexivity.
  - (* simple escape *)
    cbn [app char_loop]. change ((92 =? 39) || (92 =? 10)) with false. cbv iota.
    rewrite Hgate. unfold char_item. change (92 =? 92) with true. cbv iota.
    destruct (simple_esc_model _ _ He) as [-> _]. rewrite Hlarge. reflexivity.
Qed.

(* the whole body of a narrow literal *)
Lemma char_loop_narrow body vs : c_chars body vs ->
  forall fuel a nbytes, (length vs <= fuel)%nat ->
  char_loop fuel CNarrow (body ++ [39]) (a mod TWO64) nbytes =
  Some ((a * 256 ^ N.of_nat (length vs) + value_of_digits 256 vs) mod TWO64, nbytes + N.of_nat (length vs), [39]).
Proof.
  induction 1 as [|sp v body vs Hc Hcs IH]; intros fuel a nbytes Hf.
  - cbn [app length value_of_digits]. rewrite N.pow_0_r, N.mul_1_r, !N.add_0_r.
    destruct fuel; reflexivity.
  - destruct fuel as [|fuel]; [cbn [length] in Hf; lia|].
    rewrite <- app_assoc.
    rewrite (char_loop_step fuel CNarrow sp v (body ++ [39]) _ nbytes Hc); [|destruct body; discriminate | left; reflexivity].
    rewrite (lor_low _ _ (c_char_lt _ _ Hc)).
    assert (Hv : v < 256) by exact (c_char_lt _ _ Hc).
    assert (E : (a mod TWO64 * 256) mod TWO64 + v = (a mod TWO64 * 256 + v) mod TWO64).
    { (* (x*256) mod 2^64 is a multiple of 256 below 2^64, adding v < 256 cannot overflow *)
      set (x := a mod TWO64).
      rewrite <- (N.add_mod_idemp_l (x * 256) v TWO64) by (unfold TWO64; lia).
      assert (Hy : (x * 256) mod TWO64 = x mod 72057594037927936 * 256).
      { change TWO64 with (72057594037927936 * 256). rewrite N.mul_mod_distr_r by lia. reflexivity. }
      rewrite Hy. rewrite (N.mod_small (x mod 72057594037927936 * 256 + v) TWO64); [reflexivity|].
      assert (x mod 72057594037927936 < 72057594037927936) by (apply N.mod_lt; lia).
      unfold TWO64. lia. }
    rewrite E.
    assert (E2 : (a mod TWO64 * 256 + v) mod TWO64 = (a * 256 + v) mod TWO64).
    { rewrite <- N.add_mod_idemp_l by (unfold TWO64; lia).
      rewrite N.mul_mod_idemp_l by (unfold TWO64; lia).
      rewrite N.add_mod_idemp_l by (unfold TWO64; lia). reflexivity. }
    rewrite E2. rewrite IH by (cbn [length] in Hf; lia).
    cbn [length value_of_digits]. rewrite Nat2N.inj_succ, N.pow_succ_r'. 
    set (P := 256 ^ N.of_nat (length vs)). set (V := value_of_digits 256 vs).
    replace ((a * 256 + v) * P + V) with (a * (256 * P) + (v * P + V)) by ring.
    replace (nbytes + 1 + N.of_nat (length vs)) with (nbytes + N.succ (N.of_nat (length vs))) by lia. reflexivity.
Qed.

Lemma sext_is_spec bits v : sext bits v = sext_spec bits v.
Proof. reflexivity. Qed.

Lemma sext32_mod v : sext 32 (v mod TWO64) = sext 32 v.
Proof.
  unfold sext. change TWO64 with (2 ^ 32 * 2 ^ 32).
  rewrite N.mod_mul_r by (vm_compute; discriminate).
  rewrite (N.mul_comm (2 ^ 32)), N.mod_add by (vm_compute; discriminate).
  rewrite N.mod_mod by (vm_compute; discriminate). reflexivity.
Qed.

Theorem narrow_char_literal body vs : c_chars body vs -> vs <> [] ->
  char_literal_to_ll (39 :: body ++ [39]) = Some (narrow_char_value vs).
Proof.
  intros H Hne. unfold char_literal_to_ll.
  assert (Hlen : (length vs <= length (39%N :: body ++ [39%N]))%nat).
  { clear Hne. induction H; cbn [length] in *; [lia|].
    pose proof (c_char_nonempty _ _ H). destruct sp; [contradiction|].
    cbn [app length] in *. rewrite !app_length in *. cbn [length] in *. lia. }
  change 0 with (0 mod TWO64) at 1.
  rewrite (char_loop_narrow body vs H _ 0 0 Hlen).
  replace (0 * 256 ^ N.of_nat (length vs) + value_of_digits 256 vs) with (value_of_digits 256 vs) by lia.
  destruct vs as [|v [|v2 vs']]; [contradiction | |].
  - (* one character *)
    cbn [length N.of_nat Pos.of_succ_nat N.add N.eqb Pos.eqb ckind_eqb andb narrow_char_value value_of_digits].
    rewrite N.pow_0_r, N.mul_1_r, N.add_0_r.
    f_equal. unfold sext, sext_spec.
    assert (Hv : v < 256). { inversion H as [|sp0 v0 body0 vs0 Hc0 Hcs0]; subst. exact (c_char_lt _ _ Hc0). }
    rewrite (N.mod_small v TWO64) by (unfold TWO64; lia). reflexivity.
  - assert (E0 : (0 + N.of_nat (length (v :: v2 :: vs')) =? 0) = false) by (apply N.eqb_neq; cbn [length]; lia).
    assert (E1 : (0 + N.of_nat (length (v :: v2 :: vs')) =? 1) = false) by (apply N.eqb_neq; cbn [length]; lia).
    rewrite E0, E1. cbn [ckind_eqb andb]. cbv iota. rewrite sext32_mod. reflexivity.
Qed.

(* one character after a prefix: u8'x' u'x' U'x' L'x' have the character's own value *)
Theorem prefixed_char_literal pre sp v : c_char sp v -> v < 128 ->
  pre = [117; 56] \/ pre = [117] \/ pre = [85] \/ pre = [76] ->
  char_literal_to_ll (pre ++ 39 :: sp ++ [39]) = Some (Z.of_N v).
Proof.
  intros Hc Hv Hp.
  assert (Hgen : forall k fuel, char_loop (S (S fuel)) k (sp ++ [39]) 0 0 = Some (v, 1, [39]) \/ k = CNarrow).
  { intros k fuel. destruct k; [right; reflexivity | left ..];
      (rewrite (char_loop_step (S fuel) _ sp v [39] 0 0 Hc ltac:(discriminate) ltac:(right; split; [reflexivity | assumption]));
       change (N.shiftl 0 8 mod TWO64) with 0; rewrite N.lor_0_l; reflexivity). }
  pose proof (c_char_nonempty _ _ Hc) as Hne.
  destruct sp as [|s0 sr]; [contradiction|].
  destruct Hp as [ -> | [ -> | [ -> | -> ] ] ]; unfold char_literal_to_ll; cbn [app length].
  all: match goal with
       | |- context [char_loop (S (S ?f)) ?k ?r 0 0] => destruct (Hgen k f) as [E|E]; [|discriminate]
       end.
  all: cbn [app] in E; rewrite E; cbn [N.eqb Pos.eqb ckind_eqb andb]; reflexivity.
Qed.
