(* valueFlowSetConstantValue (lib/vf_common.cpp) on a narrow character token (prefix "") whose
   characterLiteralToLL value is z and which has n characters (Token::isCChar <-> n = 1):
   simplecpp::characterLiteralToLL converts through the host's char and int; the final conversion is
   redone for the selected platform: a one-character literal with a negative value on a platform whose
   plain char is unsigned gets 2^char_bit added; a multi-character literal is truncated to the
   platform's int when that is narrower than the host's (4 bytes).  The later `maxValue + 1`
   adjustment never fires for a character token (its type is int in C, char with unknown sign in C++).
   Executable definitions only. *)
From CV Require Import Base.Bytes Lit.Defs Lit.Platform.
Local Open Scope N_scope.

(* replaceEscapeSequences (lib/utils.cpp), length of the result only: \n \r \t, \x with at most two hex
   digits, an octal digit with at most two more octal digits (since /repo 6f10427; before, only \0oo,
   so '\377' counted as three characters); after any other backslash the next character is copied.
   Token::isCChar <-> the count is 1 *)
Definition skip2 (pr : N -> bool) (r : str) : str :=
  match r with
  | a :: r' => if pr a then match r' with b :: r'' => if pr b then r'' else r' | [] => r' end else r
  | [] => []
  end.

Fixpoint skip_while (pr : N -> bool) (r : str) : str :=
  match r with
  | a :: r' => if pr a then skip_while pr r' else r
  | [] => []
  end.

Fixpoint escape_count_go (fuel : nat) (s : str) : N :=
  match fuel with
  | O => 0
  | S f =>
      match s with
      | [] => 0
      | c :: r =>
          if negb (c =? 92) then 1 + escape_count_go f r
          else match r with
               | [] => 1
               | e :: r2 => if e =? 120 then 1 + escape_count_go f (skip_while is_xdigit r2)
                            else if is_octdigit e then 1 + escape_count_go f (skip2 is_octdigit r2)
                            else 1 + escape_count_go f r2
               end
      end
  end.

(* getCharLiteral of a narrow token 'body' and the size of its unescaped text *)
Definition token_char_count (s : str) : option N :=
  match s with
  | 39 :: r => let body := removelast r in Some (escape_count_go (S (length body)) body)
  | _ => None
  end.

Definition char_token_value (p : platform) (cpp : bool) (n : N) (z : Z) : Z :=
  if n =? 1 then
    if (p_sign p =? 117) && (z <? 0)%Z then (z + 2 ^ Z.of_N (p_char_bit p))%Z else z
  else if (0 <? p_int p) && (p_int p <? 4) then truncate_int_value z (p_int p) true
  else z.
