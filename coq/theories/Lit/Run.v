(* Entry point of the extracted executable for C10: decode a case, run the model. *)
From CV Require Import Base.Bytes Lit.Defs Lit.Spec Lit.Gen_Platforms Lit.Platform Lit.TokenValue.
Local Open Scope N_scope.

Definition BAD : list str := [[66]].
Definition nd (s : str) : N := match N_of_dec s with Some z => z | None => 0 end.

Definition res_out (r : res) : str :=
  match r with
  | RVal z => dec_of_Z z
  | RErr k => 101 :: dec_of_N k          (* "e<k>" *)
  | RFloat => [102]                       (* "f" *)
  end.

Definition tag_is (t : str) (name : str) : bool := str_eqb t name.

(* tags: "classify" s | "suffix" s ms | "tobig" s | "tobigu" s | "charlit" s | "strto" base s
         | "sizeof" platform-name | "genlit" base digits suffix *)
Definition run (fields : list str) : list str :=
  match fields with
  | [] => BAD
  | tag :: args =>
      if tag_is tag [99;108;97;115;115;105;102;121] then
        match args with
        | [s] => map str_of_bool [is_int s; is_int_hex s; is_oct s; is_bin s; is_dec s;
                                  is_float s; is_decimal_float s; is_float_hex s; is_char_literal s]
        | _ => BAD
        end
      else if tag_is tag [115;117;102;102;105;120] then
        match args with
        | [s; ms] => [str_of_bool (is_valid_suffix (bool_of_str ms) s)]
        | _ => BAD
        end
      else if tag_is tag [116;111;98;105;103] then
        match args with [s] => [res_out (to_bignumber s); str_of_bool (is_float s)] | _ => BAD end
      else if tag_is tag [116;111;98;105;103;117] then
        match args with [s] => [res_out (to_bigunumber s); str_of_bool (is_float s)] | _ => BAD end
      else if tag_is tag [99;104;97;114;108;105;116] then
        match args with
        | [s] => match char_literal_to_ll s with Some z => [dec_of_Z z] | None => [[101]] end
        | _ => BAD
        end
      else if tag_is tag [115;116;114;116;111] then
        match args with
        | [b; s] => let r := strtoull (nd b) s in
                    [dec_of_N (st_used r); str_of_bool (st_range r); dec_of_N (st_val r)]
        | _ => BAD
        end
      else if tag_is tag [115;105;122;101;111;102] then
        match args with
        | name :: _ => match find_platform name Gen_platforms with
                    | Some p => map dec_of_N (platform_fields p)
                    | None => [[63]]
                    end
        | _ => BAD
        end
      else if tag_is tag [99;97;115;116] then
        (* "cast" value size signed *)
        match args with
        | [z; sz; sg] => match Z_of_dec z with
                         | Some zz => [dec_of_Z (truncate_int_value zz (nd sz) (bool_of_str sg))]
                         | None => BAD
                         end
        | _ => BAD
        end
      else if tag_is tag [99;99;104;97;114] then
        (* "cchar" platform cpp literal -> value of the token | e *)
        match args with
        | [name; cpp; s] =>
            match find_platform name Gen_platforms, char_literal_to_ll s, token_char_count s with
            | Some p, Some z, Some n => [dec_of_Z (char_token_value p (bool_of_str cpp) n z)]
            | Some p, Some z, None => [dec_of_Z z]
            | _, _, _ => [[101]]
            end
        | _ => BAD
        end
      else if tag_is tag [103;101;110;108;105;116] then
        (* the specification side: value of the literal spelled base/digit-values/suffix *)
        match args with
        | [b; ds; sfx] =>
            match base_of_N (nd b) with
            | Some bb => [spell bb ds sfx; dec_of_N (value_of_digits (base_val bb) ds)]
            | None => BAD
            end
        | _ => BAD
        end
      else BAD
  end.
