(* Integer literals: grammar (Lit/Spec.v) against the model (Lit/Defs.v). *)
From CV Require Import Base.Bytes Lit.Defs Lit.Spec.
Require Import Lia ZifyBool.
Local Open Scope N_scope.

Ltac bdestruct_all :=
  repeat match goal with
         | |- context [?a <=? ?b] => destruct (N.leb_spec a b)
         | |- context [?a <? ?b] => destruct (N.ltb_spec a b)
         | |- context [?a =? ?b] => destruct (N.eqb_spec a b)
         end.

(* ---- digit characters *)
Lemma digit_val_dec d : d < 10 -> digit_val (48 + d) = Some d.
Proof. intros. unfold digit_val, is_digit. 
  destruct (N.leb_spec 48 (48+d)); [|lia]. destruct (N.leb_spec (48+d) 57); [|lia]. cbn [andb]. f_equal. lia. Qed.
Lemma digit_val_lower d : 10 <= d -> d < 16 -> digit_val (87 + d) = Some d.
Proof. intros. unfold digit_val, is_digit, is_lower.
  destruct (N.leb_spec (87+d) 57); [lia|]. rewrite andb_false_r.
  destruct (N.leb_spec 97 (87+d)); [|lia]. destruct (N.leb_spec (87+d) 122); [|lia]. cbn [andb]. f_equal. lia. Qed.
Lemma digit_val_upper d : 10 <= d -> d < 16 -> digit_val (55 + d) = Some d.
Proof. intros. unfold digit_val, is_digit, is_lower, is_upper.
  destruct (N.leb_spec 48 (55+d)); [|lia].
  destruct (N.leb_spec (55+d) 57); [lia|]. cbn [andb].
  destruct (N.leb_spec 97 (55+d)); [lia|]. cbn [andb].
  destruct (N.leb_spec 65 (55+d)); [|lia]. destruct (N.leb_spec (55+d) 90); [|lia]. cbn [andb]. f_equal. lia. Qed.
Lemma digit_char_in b c d : digit_char b c d -> b <= 16 -> digit_in b c = Some d.
Proof.
  intros H Hb. unfold digit_in.
  inversion H; subst; [rewrite digit_val_dec | rewrite digit_val_lower | rewrite digit_val_upper]; try lia;
  (destruct (N.ltb_spec d b); [reflexivity | lia]).
Qed.

Lemma digit_char_lt b c d : digit_char b c d -> d < b.
Proof. inversion 1; assumption. Qed.

Lemma digit_char_range b c d : digit_char b c d -> b <= 16 -> 48 <= c /\ c <= 102.
Proof. inversion 1; subst; lia. Qed.

Lemma digit_char_10 c d : digit_char 10 c d -> is_digit c = true /\ c = 48 + d.
Proof. unfold is_digit. inversion 1; subst; split; bdestruct_all; cbn [andb]; lia. Qed.

Lemma digit_char_16 c d : digit_char 16 c d -> is_xdigit c = true.
Proof. unfold is_xdigit, is_digit. inversion 1; subst; bdestruct_all; cbn [andb orb]; lia. Qed.

Lemma digit_char_8 c d : digit_char 8 c d -> is_octdigit c = true /\ is_digit c = true.
Proof. unfold is_octdigit, is_digit. inversion 1; subst; split; bdestruct_all; cbn [andb]; lia. Qed.

Lemma digit_char_2 c d : digit_char 2 c d -> is_bindigit c = true /\ c - 48 = d.
Proof. unfold is_bindigit. inversion 1; subst; split; bdestruct_all; cbn [orb]; lia. Qed.

Lemma digit_in_mono b c d : digit_in b c = Some d -> b <= 16 -> digit_in 16 c = Some d.
Proof.
  unfold digit_in. destruct (digit_val c) as [x|]; [|discriminate].
  destruct (N.ltb_spec x b); [|discriminate]. intros E Hb. inversion E; subst.
  destruct (N.ltb_spec d 16); [reflexivity | lia].
Qed.

Lemma digit_in_16_none b c : digit_in 16 c = None -> b <= 16 -> digit_in b c = None.
Proof.
  intros H Hb. destruct (digit_in b c) eqn:E; [|reflexivity].
  apply digit_in_mono in E; [congruence | assumption].
Qed.

Lemma digit_seq_length b cs ds : digit_seq b cs ds -> length cs = length ds.
Proof. induction 1; cbn; congruence. Qed.

(* ---- what the proofs need from a suffix of the grammar *)
Definition sfx_ok (sfx : str) : bool :=
  match sfx with
  | [] => true
  | c :: _ => is_valid_suffix true sfx && negb (is_xdigit c) && negb (is_some (digit_in 16 c))
              && negb (c =? 46) && negb (ch_in c 112 80) && negb (is_space c) && negb (is_sign c)
              && negb (ch_in c 120 88)
  end && forallb (fun c => negb (c =? 39)) sfx.

Lemma int_suffix_ok sfx : int_suffix sfx -> sfx_ok sfx = true.
Proof.
  intros H. inversion H; subst;
    repeat match goal with
           | H : u_sfx _ |- _ => inversion H; clear H; subst
           | H : l_sfx _ |- _ => inversion H; clear H; subst
           | H : z_sfx _ |- _ => inversion H; clear H; subst
           | H : i_sfx _ |- _ => inversion H; clear H; subst
           end; vm_compute; reflexivity.
Qed.

Lemma sfx_ok_cons c r : sfx_ok (c :: r) = true ->
  is_valid_suffix true (c :: r) = true /\ is_xdigit c = false /\ digit_in 16 c = None /\
  c <> 46 /\ ch_in c 112 80 = false /\ is_space c = false /\ is_sign c = false /\ ch_in c 120 88 = false.
Proof.
  unfold sfx_ok. rewrite !andb_true_iff, !negb_true_iff. intros [[[[[[[[H1 H2] H3] H4] H5] H6] H7] H8] _].
  repeat split; try assumption.
  - destruct (digit_in 16 c); [discriminate | reflexivity].
  - apply N.eqb_neq; assumption.
Qed.

Lemma sfx_ok_no_quote sfx : sfx_ok sfx = true -> ~ In 39 sfx.
Proof.
  unfold sfx_ok. rewrite andb_true_iff. intros [_ H] Hin.
  rewrite forallb_forall in H. apply H in Hin. discriminate.
Qed.

Lemma not_xdigit_not_digit c : is_xdigit c = false -> is_digit c = false.
Proof. unfold is_xdigit. destruct (is_digit c); [discriminate | reflexivity]. Qed.
Lemma not_xdigit_not_oct c : is_xdigit c = false -> is_octdigit c = false.
Proof. unfold is_xdigit, is_digit, is_octdigit. bdestruct_all; cbn [andb orb]; try reflexivity; try discriminate; lia. Qed.
Lemma not_xdigit_not_bin c : is_xdigit c = false -> is_bindigit c = false.
Proof. unfold is_xdigit, is_digit, is_bindigit. bdestruct_all; cbn [andb orb]; try reflexivity; try discriminate; lia. Qed.

(* ---- the DIGIT states of the four integer recognisers accept digits* suffix *)
Lemma dec_digit_st_ok cs ds sfx : digit_seq 10 cs ds -> sfx_ok sfx = true -> dec_digit_st (cs ++ sfx) = true.
Proof.
  intros H Hs. induction H; cbn [app].
  - destruct sfx as [|c r]; [reflexivity|]. apply sfx_ok_cons in Hs as (Hv & Hx & _).
    cbn [dec_digit_st]. rewrite (not_xdigit_not_digit _ Hx). exact Hv.
  - cbn [dec_digit_st]. apply digit_char_10 in H as [-> _]. exact IHdigit_seq.
Qed.

Lemma dec_digit_st_oct cs ds sfx : digit_seq 8 cs ds -> sfx_ok sfx = true -> dec_digit_st (cs ++ sfx) = true.
Proof.
  intros H Hs. induction H; cbn [app].
  - destruct sfx as [|c r]; [reflexivity|]. apply sfx_ok_cons in Hs as (Hv & Hx & _).
    cbn [dec_digit_st]. rewrite (not_xdigit_not_digit _ Hx). exact Hv.
  - cbn [dec_digit_st]. apply digit_char_8 in H as [_ ->]. exact IHdigit_seq.
Qed.

Lemma hex_digit_st_ok cs ds sfx : digit_seq 16 cs ds -> sfx_ok sfx = true -> hex_digit_st (cs ++ sfx) = true.
Proof.
  intros H Hs. induction H; cbn [app].
  - destruct sfx as [|c r]; [reflexivity|]. apply sfx_ok_cons in Hs as (Hv & Hx & _).
    cbn [hex_digit_st]. rewrite Hx. exact Hv.
  - cbn [hex_digit_st]. rewrite (digit_char_16 _ _ H). exact IHdigit_seq.
Qed.

Lemma oct_digit_st_ok cs ds sfx : digit_seq 8 cs ds -> sfx_ok sfx = true -> oct_digit_st (cs ++ sfx) = true.
Proof.
  intros H Hs. induction H; cbn [app].
  - destruct sfx as [|c r]; [reflexivity|]. apply sfx_ok_cons in Hs as (Hv & Hx & _).
    cbn [oct_digit_st]. rewrite (not_xdigit_not_oct _ Hx). exact Hv.
  - cbn [oct_digit_st]. apply digit_char_8 in H as [-> _]. exact IHdigit_seq.
Qed.

Lemma bin_digit_st_ok cs ds sfx : digit_seq 2 cs ds -> sfx_ok sfx = true -> bin_digit_st (cs ++ sfx) = true.
Proof.
  intros H Hs. induction H; cbn [app].
  - destruct sfx as [|c r]; [reflexivity|]. apply sfx_ok_cons in Hs as (Hv & Hx & _).
    cbn [bin_digit_st]. rewrite (not_xdigit_not_bin _ Hx). exact Hv.
  - cbn [bin_digit_st]. apply digit_char_2 in H as [-> _]. exact IHdigit_seq.
Qed.

(* ---- Horner: the accumulating loop computes the positional sum *)
Lemma digits_acc_spec b cs ds sfx : digit_seq b cs ds -> b <= 16 ->
  (match sfx with [] => True | c :: _ => digit_in 16 c = None end) ->
  forall acc cnt,
    digits_acc b (cs ++ sfx) acc cnt =
    (acc * b ^ N.of_nat (length ds) + value_of_digits b ds, cnt + N.of_nat (length ds)).
Proof.
  intros H Hb Hs. induction H; intros acc cnt.
  - cbn [app length value_of_digits]. rewrite N.pow_0_r.
    destruct sfx as [|c r]; cbn [digits_acc].
    + f_equal; cbn; lia.
    + rewrite (digit_in_16_none b c Hs Hb). f_equal; cbn; lia.
  - cbn [app digits_acc]. rewrite (digit_char_in _ _ _ H Hb). rewrite IHdigit_seq.
    cbn [length value_of_digits]. rewrite Nat2N.inj_succ, N.pow_succ_r'. f_equal; lia.
Qed.

Lemma value_of_digits_zero b ds : value_of_digits b (0 :: ds) = value_of_digits b ds.
Proof. cbn [value_of_digits]. lia. Qed.

(* ---- strtoull on prefix digits suffix *)
Lemma skip_ws_nonspace c r : is_space c = false -> skip_ws (c :: r) 0 = (c :: r, 0).
Proof. intros H. cbn [skip_ws]. rewrite H. reflexivity. Qed.

Lemma strip_sign_nonsign c r : is_sign c = false -> strip_sign (c :: r) = (false, c :: r, 0).
Proof.
  unfold is_sign, ch_in, strip_sign. intros H.
  destruct (N.eqb_spec c 45); [subst; discriminate|]. destruct (N.eqb_spec c 43); [subst; discriminate|]. reflexivity.
Qed.

Lemma strip_prefix_non16 b s : (b =? 16) = false -> strip_prefix b s = (s, 0).
Proof. intros H. destruct s as [|c0 [|cx [|c r]]]; cbn [strip_prefix]; try reflexivity. rewrite H. reflexivity. Qed.

Lemma digit_not_space b c d : digit_char b c d -> b <= 16 -> is_space c = false /\ is_sign c = false.
Proof.
  intros H Hb. apply digit_char_range in H; [|assumption]. unfold is_space, is_sign, ch_in.
  split; bdestruct_all; cbn [andb orb]; try reflexivity; lia.
Qed.

(* a digit string of base b (b <> 16 or no 0x) followed by a suffix: strtoull reads exactly the digits *)
Lemma strtoull_digits b c d cs ds sfx :
  digit_char b c d -> digit_seq b cs ds -> b <= 16 ->
  strip_prefix b (c :: cs ++ sfx) = (c :: cs ++ sfx, 0) ->
  sfx_ok sfx = true ->
  let v := value_of_digits b (d :: ds) in
  strtoull b (c :: cs ++ sfx) =
  if TWO64 <=? v then mkStrto (N.of_nat (length (d :: ds))) true (TWO64 - 1)
  else mkStrto (N.of_nat (length (d :: ds))) false v.
Proof.
  intros Hc Hcs Hb Hp Hs v. unfold strtoull.
  destruct (digit_not_space _ _ _ Hc Hb) as [Hsp Hsg].
  rewrite (skip_ws_nonspace _ _ Hsp), (strip_sign_nonsign _ _ Hsg), Hp.
  assert (Hd : digit_seq b (c :: cs) (d :: ds)) by (constructor; assumption).
  change (c :: cs ++ sfx) with ((c :: cs) ++ sfx).
  rewrite (digits_acc_spec b _ _ sfx Hd Hb).
  2:{ destruct sfx as [|x r]; [exact I|]. apply sfx_ok_cons in Hs. tauto. }
  fold v. replace (0 * b ^ N.of_nat (length (d :: ds)) + v) with v by lia.
  replace (0 + N.of_nat (length (d :: ds))) with (N.of_nat (length (d :: ds))) by lia.
  destruct (N.eqb_spec (N.of_nat (length (d :: ds))) 0) as [E|E]; [cbn [length] in E; lia|].
  destruct (TWO64 <=? v); f_equal; lia.
Qed.

Lemma drop_app_length (a b : str) : drop (length a) (a ++ b) = b.
Proof. induction a; cbn; auto. Qed.

(* ---- "no quote" => not a character literal *)
Lemma last_is_in q s : last_is q s = true -> In q s.
Proof.
  unfold last_is. intros H. apply in_rev. destruct (rev s) as [|c r]; [discriminate|].
  apply N.eqb_eq in H. subst. left. reflexivity.
Qed.

Lemma no_quote_not_charlit s : ~ In 39 s -> is_char_literal s = false.
Proof.
  intros H. unfold is_char_literal. destruct (last_is 39 s) eqn:E; [|reflexivity].
  apply last_is_in in E. contradiction.
Qed.

Lemma digit_seq_no_quote b cs ds : digit_seq b cs ds -> b <= 16 -> ~ In 39 cs.
Proof.
  induction 1; intros Hb [].
  - subst. apply digit_char_range in H; lia.
  - apply IHdigit_seq; assumption.
Qed.

(* ---- floats: digits followed by a grammar suffix are never accepted by the float recognisers *)
Lemma dfs_base1_false cs ds sfx : digit_seq 10 cs ds -> sfx_ok sfx = true -> dfs_run DBase1 (cs ++ sfx) = false.
Proof.
  intros H Hs. induction H; cbn [app].
  - destruct sfx as [|c r]; [reflexivity|]. apply sfx_ok_cons in Hs as (_ & Hx & _ & Hdot & _).
    cbn [dfs_run dfs_step].
    assert (ch_in c 101 69 = false) as ->.
    { revert Hx. unfold is_xdigit, is_digit, ch_in. bdestruct_all; cbn [andb orb]; try reflexivity; try discriminate; lia. }
    destruct (N.eqb_spec c 46); [contradiction|]. rewrite (not_xdigit_not_digit _ Hx). reflexivity.
  - cbn [dfs_run dfs_step]. apply digit_char_10 in H as [Hd ->].
    assert (ch_in (48 + d) 101 69 = false) as ->.
    { revert Hd. unfold is_digit, ch_in. bdestruct_all; cbn [andb orb]; try reflexivity; try discriminate; lia. }
    destruct (N.eqb_spec (48 + d) 46) as [E|E].
    { revert Hd. unfold is_digit. rewrite E. vm_compute. discriminate. }
    rewrite Hd. exact IHdigit_seq.
Qed.

Lemma digit_seq_8_10 cs ds : digit_seq 8 cs ds -> digit_seq 10 cs ds.
Proof. induction 1; constructor; auto. inversion H; subst; try lia. constructor; lia. Qed.
