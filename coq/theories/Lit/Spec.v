(* Declarative side of C10: the grammar of C/C++ integer literals (ISO C 6.4.4.1,
   C++ [lex.icon], GNU/C++14 binary literals, MSVC i64 suffixes) and their value
   sum d_i * b^i.  Nothing here refers to the model in Lit/Defs.v. *)
From CV Require Import Base.Bytes.
Local Open Scope N_scope.

Inductive base := B2 | B8 | B10 | B16.
Definition base_val (b : base) : N :=
  match b with B2 => 2 | B8 => 8 | B10 => 10 | B16 => 16 end.
Definition base_of_N (n : N) : option base :=
  if n =? 2 then Some B2 else if n =? 8 then Some B8 else if n =? 10 then Some B10
  else if n =? 16 then Some B16 else None.

(* character c denotes digit value d in base b *)
Inductive digit_char (b : N) : N -> N -> Prop :=
| DC_dec d : d < 10 -> d < b -> digit_char b (48 + d) d
| DC_lower d : 10 <= d -> d < b -> d < 16 -> digit_char b (87 + d) d
| DC_upper d : 10 <= d -> d < b -> d < 16 -> digit_char b (55 + d) d.

Inductive digit_seq (b : N) : str -> list N -> Prop :=
| DS_nil : digit_seq b [] []
| DS_cons c d cs ds : digit_char b c d -> digit_seq b cs ds -> digit_seq b (c :: cs) (d :: ds).

(* most significant digit first: d_(n-1) * b^(n-1) + ... + d_0 * b^0 *)
Fixpoint value_of_digits (b : N) (ds : list N) : N :=
  match ds with
  | [] => 0
  | d :: r => d * b ^ N.of_nat (length r) + value_of_digits b r
  end.

Inductive u_sfx : str -> Prop := U_lo : u_sfx [117] | U_up : u_sfx [85].
Inductive l_sfx : str -> Prop :=
| L_lo : l_sfx [108] | L_up : l_sfx [76] | LL_lo : l_sfx [108;108] | LL_up : l_sfx [76;76].
Inductive z_sfx : str -> Prop := Z_lo : z_sfx [122] | Z_up : z_sfx [90].
Inductive i_sfx : str -> Prop := I_lo : i_sfx [105;54;52] | I_up : i_sfx [73;54;52].

Inductive int_suffix : str -> Prop :=
| S_none : int_suffix []
| S_u u : u_sfx u -> int_suffix u
| S_l l : l_sfx l -> int_suffix l
| S_ul u l : u_sfx u -> l_sfx l -> int_suffix (u ++ l)
| S_lu l u : l_sfx l -> u_sfx u -> int_suffix (l ++ u)
| S_z z : z_sfx z -> int_suffix z                                   (* C++23 *)
| S_uz u z : u_sfx u -> z_sfx z -> int_suffix (u ++ z)
| S_zu z u : z_sfx z -> u_sfx u -> int_suffix (z ++ u)
| S_i64 i : i_sfx i -> int_suffix i                                 (* MSVC *)
| S_ui64 u i : u_sfx u -> i_sfx i -> int_suffix (u ++ i).

(* spelling, base, value *)
Inductive c_int_literal : str -> base -> N -> Prop :=
| Lit_dec c d cs ds sfx :
    digit_char 10 c d -> d <> 0 -> digit_seq 10 cs ds -> int_suffix sfx ->
    c_int_literal (c :: cs ++ sfx) B10 (value_of_digits 10 (d :: ds))
| Lit_oct cs ds sfx :                       (* "0" alone is the octal literal with no further digit *)
    digit_seq 8 cs ds -> int_suffix sfx ->
    c_int_literal (48 :: cs ++ sfx) B8 (value_of_digits 8 ds)
| Lit_hex x c d cs ds sfx :
    x = 120 \/ x = 88 -> digit_char 16 c d -> digit_seq 16 cs ds -> int_suffix sfx ->
    c_int_literal (48 :: x :: c :: cs ++ sfx) B16 (value_of_digits 16 (d :: ds))
| Lit_bin x c d cs ds sfx :
    x = 98 \/ x = 66 -> digit_char 2 c d -> digit_seq 2 cs ds -> int_suffix sfx ->
    c_int_literal (48 :: x :: c :: cs ++ sfx) B2 (value_of_digits 2 (d :: ds)).

(* executable spelling used by the generator side of the correspondence run:
   digit values (each < base, not checked here) -> lower-case spelling *)
Definition digit_to_char (d : N) : N := if d <? 10 then 48 + d else 87 + d.
Definition prefix_of (b : base) : str :=
  match b with B2 => [48;98] | B8 => [48] | B10 => [] | B16 => [48;120] end.
Definition spell (b : base) (ds : list N) (sfx : str) : str :=
  prefix_of b ++ map digit_to_char ds ++ sfx.

(* ---- character literals (ISO C 6.4.4.4): simple escapes and source characters; the
   implementation-defined choices are the ones gcc and clang make on hosts with a signed
   plain char: a one-character narrow literal has the value of the byte as `char`, a
   multi-character literal packs its bytes base 256 into an `int` (low 32 bits). *)
Inductive simple_esc : N -> N -> Prop :=
| SE_sq : simple_esc 39 39 | SE_dq : simple_esc 34 34 | SE_qm : simple_esc 63 63 | SE_bs : simple_esc 92 92
| SE_a : simple_esc 97 7 | SE_b : simple_esc 98 8 | SE_f : simple_esc 102 12 | SE_n : simple_esc 110 10
| SE_r : simple_esc 114 13 | SE_t : simple_esc 116 9 | SE_v : simple_esc 118 11
| SE_e : simple_esc 101 27.                                   (* GNU extension *)

Inductive c_char : str -> N -> Prop :=
| CC_plain c : c <> 39 -> c <> 92 -> c <> 10 -> c < 256 -> c_char [c] c
| CC_esc e v : simple_esc e v -> c_char [92; e] v.

Inductive c_chars : str -> list N -> Prop :=
| CCs_nil : c_chars [] []
| CCs_cons sp v body vs : c_char sp v -> c_chars body vs -> c_chars (sp ++ body) (v :: vs).

Definition sext_spec (bits : N) (v : N) : Z :=
  let m := v mod 2 ^ bits in
  if m <? 2 ^ (bits - 1) then Z.of_N m else (Z.of_N m - Z.of_N (2 ^ bits))%Z.

Definition narrow_char_value (vs : list N) : Z :=
  match vs with
  | [v] => sext_spec 8 v
  | _ => sext_spec 32 (value_of_digits 256 vs)
  end.

(* ---- numeric and universal escapes (C 6.4.4.4p5-7, 6.4.3).  `nxt` is the character that follows the
   c-char in the literal (the closing quote after the last one): an octal escape takes at most three
   digits and a hexadecimal escape all hex digits that follow (maximal munch), so a shorter octal escape
   must not be followed by an octal digit and a hex escape not by a hex digit (nor by x/X after a lone 0,
   which strtoull would read as a 0x prefix; excluded here for every hex escape).  Values must fit the
   narrow character (6.4.4.4p9); a universal character name in a narrow literal must be ASCII. *)
Inductive c_char_ext (nxt : N) : str -> N -> Prop :=
| CE_basic sp v : c_char sp v -> c_char_ext nxt sp v
| CE_oct cs ds : digit_seq 8 cs ds -> (1 <= length cs <= 3)%nat ->
    ((length cs < 3)%nat -> forall d, ~ digit_char 8 nxt d) ->
    value_of_digits 8 ds < 256 -> c_char_ext nxt (92 :: cs) (value_of_digits 8 ds)
| CE_hex cs ds : digit_seq 16 cs ds -> cs <> [] ->
    (forall d, ~ digit_char 16 nxt d) -> nxt <> 120 -> nxt <> 88 ->
    value_of_digits 16 ds < 256 -> c_char_ext nxt (92 :: 120 :: cs) (value_of_digits 16 ds)
| CE_u4 cs ds : digit_seq 16 cs ds -> length cs = 4%nat ->
    value_of_digits 16 ds < 128 -> c_char_ext nxt (92 :: 117 :: cs) (value_of_digits 16 ds)
| CE_u8 cs ds : digit_seq 16 cs ds -> length cs = 8%nat ->
    value_of_digits 16 ds < 128 -> c_char_ext nxt (92 :: 85 :: cs) (value_of_digits 16 ds).

Definition next_char (body : str) : N := match body with c :: _ => c | [] => 39 end.

Inductive c_chars_ext : str -> list N -> Prop :=
| CEs_nil : c_chars_ext [] []
| CEs_cons sp v body vs : c_char_ext (next_char body) sp v -> c_chars_ext body vs -> c_chars_ext (sp ++ body) (v :: vs).

(* ---- decimal floating constants (ISO C 6.4.4.2): only their classification is claimed (C10) *)
Inductive dec_digits : str -> Prop :=
| DD_one c d : digit_char 10 c d -> dec_digits [c]
| DD_cons c d cs : digit_char 10 c d -> dec_digits cs -> dec_digits (c :: cs).

Inductive exp_part : str -> Prop :=
| EX e ds : e = 101 \/ e = 69 -> dec_digits ds -> exp_part (e :: ds)
| EX_sign e sg ds : e = 101 \/ e = 69 -> sg = 43 \/ sg = 45 -> dec_digits ds -> exp_part (e :: sg :: ds).

Inductive opt_exp : str -> Prop := OE_none : opt_exp [] | OE_some ex : exp_part ex -> opt_exp ex.
Inductive float_sfx : str -> Prop :=
| FS_none : float_sfx [] | FS_f : float_sfx [102] | FS_F : float_sfx [70] | FS_l : float_sfx [108] | FS_L : float_sfx [76].

Inductive c_dec_float : str -> Prop :=
| F_frac ds1 ds2 ex sfx : dec_digits ds1 \/ ds1 = [] -> dec_digits ds2 -> opt_exp ex -> float_sfx sfx ->
    c_dec_float (ds1 ++ 46 :: ds2 ++ ex ++ sfx)                       (* 1.5  .5  1.5e3f *)
| F_trail ds1 ex sfx : dec_digits ds1 -> opt_exp ex -> float_sfx sfx ->
    c_dec_float (ds1 ++ 46 :: ex ++ sfx)                              (* 1.  1.e3 *)
| F_exp ds1 ex sfx : dec_digits ds1 -> exp_part ex -> float_sfx sfx ->
    c_dec_float (ds1 ++ ex ++ sfx).                                   (* 1e5  1E-5L *)
