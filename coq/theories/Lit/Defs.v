(* Literal classification and conversion (C10).
   Model of lib/mathlib.cpp: isValidIntegerSuffixIt, isDec, isIntHex, isOct, isBin, isInt,
   isDecimalFloat, isFloatHex, isFloat, toBigNumber, toBigUNumber; lib/utils.h isCharLiteral;
   externals/simplecpp/simplecpp.cpp: stringToULLbounded, characterLiteralToLL;
   std::stoull / strtoull by its ISO C contract (7.22.1.4) incl. the glibc "0x" rule.
   Executable definitions only; proofs are in Lit/Proofs*.v. *)
From CV Require Import Base.Bytes.
Local Open Scope N_scope.

Definition TWO64 : N := 18446744073709551616.
Definition wrap64s (n : N) : Z :=
  let m := n mod TWO64 in
  if m <? 9223372036854775808 then Z.of_N m else (Z.of_N m - Z.of_N TWO64)%Z.
Definition wrap64u_of_Z (z : Z) : N := Z.to_N (z mod Z.of_N TWO64)%Z.

(* ---- character classes (C locale) *)
Definition is_xdigit (c : N) : bool :=
  is_digit c || ((97 <=? c) && (c <=? 102)) || ((65 <=? c) && (c <=? 70)).
Definition is_octdigit (c : N) : bool := (48 <=? c) && (c <=? 55).
Definition is_bindigit (c : N) : bool := (c =? 48) || (c =? 49).
Definition ch_in (c : N) (a b : N) : bool := (c =? a) || (c =? b).
Definition is_sign (c : N) : bool := ch_in c 43 45.

(* ---- isValidIntegerSuffixIt: the state machine, state for state *)
Inductive sfx :=
| SStart | SU | SUL | SULL | SUZ | SL | SLU | SLL | SLLU | SI | SI6 | SI64 | SUI | SUI6 | SUI64 | SZ
| SLitLeader | SLit.

Definition sfx_step (ms : bool) (st : sfx) (c : N) : option sfx :=
  match st with
  | SStart => if ch_in c 117 85 then Some SU
              else if ch_in c 108 76 then Some SL
              else if ch_in c 122 90 then Some SZ
              else if ms && ch_in c 105 73 then Some SI
              else if c =? 95 then Some SLitLeader
              else None
  | SU => if ch_in c 108 76 then Some SUL
          else if ch_in c 122 90 then Some SUZ
          else if ms && ch_in c 105 73 then Some SUI
          else None
  | SUL => if ch_in c 108 76 then Some SULL else None
  | SL => if ch_in c 117 85 then Some SLU
          else if ch_in c 108 76 then Some SLL
          else None
  | SLU => None
  | SLL => if ch_in c 117 85 then Some SLLU else None
  | SI => if c =? 54 then Some SI6 else None
  | SI6 => if c =? 52 then Some SI64 else None
  | SUI => if c =? 54 then Some SUI6 else None
  | SUI6 => if c =? 52 then Some SUI64 else None
  | SZ => if ch_in c 117 85 then Some SUZ else None
  | SLit | SLitLeader => Some SLit
  | SULL | SUZ | SLLU | SI64 | SUI64 => None
  end.

Definition sfx_final (st : sfx) : bool :=
  match st with
  | SU | SL | SZ | SUL | SUZ | SLU | SLL | SULL | SLLU | SI64 | SUI64 | SLit => true
  | _ => false
  end.

Fixpoint sfx_run (ms : bool) (st : sfx) (s : str) : bool :=
  match s with
  | [] => sfx_final st
  | c :: s' => match sfx_step ms st c with
               | Some st' => sfx_run ms st' s'
               | None => false
               end
  end.

Definition is_valid_suffix (ms : bool) (s : str) : bool := sfx_run ms SStart s.

Definition skip_sign (s : str) : str :=
  match s with
  | c :: s' => if is_sign c then s' else s
  | [] => []
  end.

(* ---- isDec *)
Fixpoint dec_digit_st (s : str) : bool :=          (* state DIGIT *)
  match s with
  | [] => true
  | c :: s' => if is_digit c then dec_digit_st s' else is_valid_suffix true s
  end.
Definition is_dec (s : str) : bool :=
  match s with
  | [] => false
  | _ => match skip_sign s with
         | c :: s' => is_digit c && dec_digit_st s'
         | [] => false
         end
  end.

(* ---- isIntHex *)
Fixpoint hex_digit_st (s : str) : bool :=
  match s with
  | [] => true
  | c :: s' => if is_xdigit c then hex_digit_st s' else is_valid_suffix true s
  end.
Definition is_int_hex (s : str) : bool :=
  match s with
  | [] => false
  | _ => match skip_sign s with
         | c0 :: cx :: c :: s' => (c0 =? 48) && ch_in cx 120 88 && is_xdigit c && hex_digit_st s'
         | _ => false
         end
  end.

(* ---- isOct *)
Fixpoint oct_digit_st (s : str) : bool :=
  match s with
  | [] => true
  | c :: s' => if is_octdigit c then oct_digit_st s' else is_valid_suffix true s
  end.
Definition is_oct (s : str) : bool :=
  match s with
  | [] => false
  | _ => match skip_sign s with
         | c0 :: c :: s' => (c0 =? 48) && is_octdigit c && oct_digit_st s'
         | _ => false
         end
  end.

(* ---- isBin *)
Fixpoint bin_digit_st (s : str) : bool :=
  match s with
  | [] => true
  | c :: s' => if is_bindigit c then bin_digit_st s' else is_valid_suffix true s
  end.
Definition is_bin (s : str) : bool :=
  match s with
  | [] => false
  | _ => match skip_sign s with
         | c0 :: cb :: c :: s' => (c0 =? 48) && ch_in cb 98 66 && is_bindigit c && bin_digit_st s'
         | _ => false
         end
  end.

Definition is_int (s : str) : bool := is_dec s || is_int_hex s || is_oct s || is_bin s.

(* ---- isDecimalFloat *)
Inductive dfs := DStart | DBase1 | DLeadDec | DTrailDec | DBase2 | DE | DMantPM | DMantDig | DSufF | DSufL | DLitLeader | DLit.

Definition dfs_step (st : dfs) (c : N) : option dfs :=
  match st with
  | DStart => if c =? 46 then Some DLeadDec else if is_digit c then Some DBase1 else None
  | DLeadDec => if is_digit c then Some DBase2 else None
  | DBase1 => if ch_in c 101 69 then Some DE
              else if c =? 46 then Some DTrailDec
              else if is_digit c then Some DBase1 else None
  | DTrailDec => if ch_in c 101 69 then Some DE
                 else if ch_in c 102 70 then Some DSufF
                 else if ch_in c 108 76 then Some DSufL
                 else if c =? 95 then Some DLitLeader
                 else if is_digit c then Some DBase2 else None
  | DBase2 => if ch_in c 101 69 then Some DE
              else if ch_in c 102 70 then Some DSufF
              else if ch_in c 108 76 then Some DSufL
              else if c =? 95 then Some DLitLeader
              else if is_digit c then Some DBase2 else None
  | DE => if is_sign c then Some DMantPM else if is_digit c then Some DMantDig else None
  | DMantPM => if is_digit c then Some DMantDig else None
  | DMantDig => if ch_in c 102 70 then Some DSufF
                else if ch_in c 108 76 then Some DSufL
                else if is_digit c then Some DMantDig else None
  | DLit | DLitLeader => Some DLit
  | DSufF | DSufL => None
  end.

Definition dfs_final (st : dfs) : bool :=
  match st with
  | DBase2 | DMantDig | DTrailDec | DSufF | DSufL | DLit => true
  | _ => false
  end.

Fixpoint dfs_run (st : dfs) (s : str) : bool :=
  match s with
  | [] => dfs_final st
  | c :: s' => match dfs_step st c with Some st' => dfs_run st' s' | None => false end
  end.

Definition is_decimal_float (s : str) : bool :=
  match s with [] => false | _ => dfs_run DStart (skip_sign s) end.

(* ---- isFloatHex *)
Inductive hfs := HStart | H0 | HX | HWhole | HPoint | HFrac | HExpP | HExpSign | HExpDig | HExpSuf.

Definition hfs_step (st : hfs) (c : N) : option hfs :=
  match st with
  | HStart => if c =? 48 then Some H0 else None
  | H0 => if ch_in c 120 88 then Some HX else None
  | HX => if is_xdigit c then Some HWhole else if c =? 46 then Some HPoint else None
  | HWhole => if is_xdigit c then Some HWhole
              else if c =? 46 then Some HFrac
              else if ch_in c 112 80 then Some HExpP else None
  | HPoint | HFrac => if is_xdigit c then Some HFrac
                      else if ch_in c 112 80 then Some HExpP else None
  | HExpP => if is_digit c then Some HExpDig else if is_sign c then Some HExpSign else None
  | HExpSign => if is_digit c then Some HExpDig else None
  | HExpDig => if is_digit c then Some HExpDig
               else if ch_in c 102 70 || ch_in c 108 76 then Some HExpSuf else None
  | HExpSuf => None
  end.

Definition hfs_final (st : hfs) : bool :=
  match st with HExpDig | HExpSuf => true | _ => false end.

Fixpoint hfs_run (st : hfs) (s : str) : bool :=
  match s with
  | [] => hfs_final st
  | c :: s' => match hfs_step st c with Some st' => hfs_run st' s' | None => false end
  end.

Definition is_float_hex (s : str) : bool :=
  match s with [] => false | _ => hfs_run HStart (skip_sign s) end.

Definition is_float (s : str) : bool := is_decimal_float s || is_float_hex s.

(* ---- utils.h isCharLiteral: ends with ', and one of the prefixes "", u8, u, U, L followed by ' *)
Definition last_is (q : N) (s : str) : bool :=
  match rev s with c :: _ => c =? q | [] => false end.
Definition is_prefix_lit (q : N) (p s : str) : bool :=
  (N.of_nat (length p) + 2 <=? N.of_nat (length s)) && last_is q s &&
  starts_with (p ++ [q]) s.
Definition is_char_literal (s : str) : bool :=
  last_is 39 s &&
  (is_prefix_lit 39 [] s || is_prefix_lit 39 [117;56] s || is_prefix_lit 39 [117] s ||
   is_prefix_lit 39 [85] s || is_prefix_lit 39 [76] s).

(* ---- strtoull (ISO C 7.22.1.4; "0x" accepted for base 16 only when a hex digit follows,
        otherwise the "0" alone is the subject sequence) *)
Definition digit_val (c : N) : option N :=
  if is_digit c then Some (c - 48)
  else if is_lower c then Some (c - 87)
  else if is_upper c then Some (c - 55)
  else None.

Definition digit_in (base c : N) : option N :=
  match digit_val c with
  | Some d => if d <? base then Some d else None
  | None => None
  end.

(* longest digit prefix: accumulated value (unbounded), number of digits *)
Fixpoint digits_acc (base : N) (s : str) (acc cnt : N) : N * N :=
  match s with
  | c :: s' => match digit_in base c with
               | Some d => digits_acc base s' (acc * base + d) (cnt + 1)
               | None => (acc, cnt)
               end
  | [] => (acc, cnt)
  end.

Fixpoint skip_ws (s : str) (cnt : N) : str * N :=
  match s with
  | c :: s' => if is_space c then skip_ws s' (cnt + 1) else (s, cnt)
  | [] => ([], cnt)
  end.

Record strto := mkStrto {
  st_used : N;          (* characters consumed (endptr - nptr); 0 = no conversion *)
  st_range : bool;      (* ERANGE *)
  st_val : N            (* returned value, already in [0, 2^64) *)
}.

Definition strip_sign (s : str) : bool * str * N :=
  match s with
  | c :: r => if c =? 45 then (true, r, 1) else if c =? 43 then (false, r, 1) else (false, s, 0)
  | [] => (false, s, 0)
  end.

Definition is_some {A} (o : option A) : bool := match o with Some _ => true | None => false end.

Definition strip_prefix (base : N) (s : str) : str * N :=
  match s with
  | c0 :: cx :: c :: r =>
      if (base =? 16) && ((c0 =? 48) && (ch_in cx 120 88 && is_some (digit_in 16 c)))
      then (c :: r, 2) else (s, 0)
  | _ => (s, 0)
  end.

Definition strtoull (base : N) (s : str) : strto :=
  let '(s1, nws) := skip_ws s 0 in
  let '(neg, s2, nsg) := strip_sign s1 in
  let '(s3, npre) := strip_prefix base s2 in
  let '(mag, nd) := digits_acc base s3 0 0 in
  if nd =? 0 then mkStrto 0 false 0
  else if TWO64 <=? mag then mkStrto (nws + nsg + npre + nd) true (TWO64 - 1)
  else mkStrto (nws + nsg + npre + nd) false (if neg then (TWO64 - mag) mod TWO64 else mag).

(* ---- results of toBigNumber / toBigUNumber *)
Inductive res :=
| RVal (z : Z)
| RErr (kind : N)     (* 1 out_of_range, 2 invalid_argument, 3 input not completely consumed, 4 bad character literal *)
| RFloat.             (* the isFloat branch (toDoubleNumber) is not modelled *)

Fixpoint drop (n : nat) (s : str) : str :=
  match n, s with
  | O, _ => s
  | S n', _ :: s' => drop n' s'
  | S _, [] => []
  end.

(* std::stoull(str, nullptr, base) *)
Definition stoull_val (base : N) (s : str) : N + N :=       (* inl value | inr error kind *)
  let r := strtoull base s in
  if st_used r =? 0 then inr 2
  else if st_range r then inr 1
  else inl (st_val r).

(* the manual loop of the isBin branch, 64-bit wrap at every step *)
Fixpoint bin_loop (s : str) (acc : N) : N :=
  match s with
  | c :: s' => if is_bindigit c then bin_loop s' ((acc * 2 + (c - 48)) mod TWO64) else acc
  | [] => acc
  end.

Definition bin_value (s : str) : N :=
  match s with
  | c0 :: _ =>
      let body := if c0 =? 48 then drop 2 s else drop 3 s in
      let v := bin_loop body 0 in
      if c0 =? 45 then (TWO64 - v) mod TWO64 else v
  | [] => 0
  end.

(* ---- simplecpp::characterLiteralToLL *)
Inductive ckind := CNarrow | CUtf8 | CUtf16 | CWide.

Definition ckind_eqb (a b : ckind) : bool :=
  match a, b with
  | CNarrow, CNarrow | CUtf8, CUtf8 | CUtf16, CUtf16 | CWide, CWide => true
  | _, _ => false
  end.

Fixpoint firstn_str (n : nat) (s : str) : str :=
  match n, s with
  | O, _ => []
  | S n', c :: s' => c :: firstn_str n' s'
  | S _, [] => []
  end.

(* stringToULLbounded(s, pos, base, minlen, maxlen) on the suffix `rest` at pos:
   Some (value, rest after the digits) | None = "expected digit" *)
Definition ull_bounded (base : N) (minlen : N) (maxlen : option nat) (rest : str) : option (N * str) :=
  let sub := match maxlen with Some m => firstn_str m rest | None => rest end in
  let r := strtoull base sub in
  if st_used r <? minlen then None
  else Some (st_val r, drop (N.to_nat (st_used r)) rest).

Definition simple_escape (e : N) : option N :=
  if (e =? 37) || (e =? 40) || (e =? 91) || (e =? 123) || (e =? 39) || (e =? 34) || (e =? 63) || (e =? 92)
  then Some e
  else if e =? 97 then Some 7        (* \a *)
  else if e =? 98 then Some 8        (* \b *)
  else if e =? 102 then Some 12      (* \f *)
  else if e =? 110 then Some 10      (* \n *)
  else if e =? 114 then Some 13      (* \r *)
  else if e =? 116 then Some 9       (* \t *)
  else if e =? 118 then Some 11      (* \v *)
  else if ch_in e 101 69 then Some 27
  else None.

(* UTF-8 continuation bytes; `more` = additional_bytes still to read *)
Fixpoint utf8_cont (more : nat) (value : N) (rest : str) : option (N * str) :=
  match more with
  | O => Some (value, rest)
  | S more' =>
      match rest with
      | c :: ((_ :: _) as tl) =>
          if negb (N.shiftr c 6 =? 2)
             || ((value =? 0) && (N.of_nat more' =? 1) && (c <? 160))
             || ((value =? 0) && (N.of_nat more' =? 2) && (c <? 144))
          then None
          else utf8_cont more' (N.lor (N.shiftl value 6) (N.land c 127)) tl
      | _ => None             (* pos + 1 >= size: literal ends unexpectedly *)
      end
  end.

(* one iteration of the while loop: Some (value, rest') | None = runtime_error *)
Definition char_item (k : ckind) (rest : str) : option (N * str) :=
  match rest with
  | c :: tl =>
      if c =? 92 then
        match tl with
        | esc :: r2 =>
            match r2 with
            | [] => None                                  (* unexpected end of character literal *)
            | _ =>
                match simple_escape esc with
                | Some v => Some (v, r2)
                | None =>
                    if is_octdigit esc then ull_bounded 8 1 (Some 3%nat) tl
                    else if esc =? 120 then ull_bounded 16 1 None r2
                    else if ch_in esc 117 85 then
                      let nd := if esc =? 117 then 4%nat else 8%nat in
                      match ull_bounded 16 (N.of_nat nd) (Some nd) r2 with
                      | Some (v, r3) =>
                          if ((ckind_eqb k CNarrow || ckind_eqb k CUtf8) && (127 <? v))
                             || (ckind_eqb k CUtf16 && (65535 <? v)) || (1114111 <? v) then None
                          else if (55296 <=? v) && (v <=? 57343) then None
                          else Some (v, r3)
                      | None => None
                      end
                    else None
                end
            end
        | [] => None
        end
      else if negb (ckind_eqb k CNarrow) && (128 <=? c) then
        if 245 <=? c then None
        else
          let more := if 240 <=? c then Some 3%nat else if 224 <=? c then Some 2%nat
                      else if 194 <=? c then Some 1%nat else None in
          match more with
          | None => None
          | Some m =>
              let v0 := N.land c (N.shiftl 1 (6 - N.of_nat m) - 1) in
              match utf8_cont m v0 tl with
              | Some (v, r) =>
                  if (55296 <=? v) && (v <=? 57343) then None
                  else if (ckind_eqb k CUtf8 && (127 <? v)) || (ckind_eqb k CUtf16 && (65535 <? v)) || (1114111 <? v)
                  then None
                  else Some (v, r)
              | None => None
              end
          end
      else Some (c, tl)
  | [] => None
  end.

Definition item_too_large (k : ckind) (v : N) : bool :=
  ((ckind_eqb k CNarrow || ckind_eqb k CUtf8) && (255 <? v))
  || (ckind_eqb k CUtf16 && negb (N.shiftr v 16 =? 0))
  || negb (N.shiftr v 32 =? 0).

(* the while loop; fuel = length of the string (every iteration consumes a character) *)
Fixpoint char_loop (fuel : nat) (k : ckind) (rest : str) (multi nbytes : N) : option (N * N * str) :=
  match rest with
  | c :: (_ :: _) =>
      match fuel with
      | O => None
      | S fuel' =>
          if (c =? 39) || (c =? 10) then None
          else if (1 <=? nbytes) && negb (ckind_eqb k CNarrow) then None
          else match char_item k rest with
               | None => None
               | Some (v, rest') =>
                   if item_too_large k v then None
                   else char_loop fuel' k rest' (N.lor (N.shiftl multi 8 mod TWO64) v) (nbytes + 1)
               end
      end
  | _ => Some (multi, nbytes, rest)
  end.

Definition sext (bits : N) (v : N) : Z :=
  let m := v mod (2 ^ bits) in
  if m <? 2 ^ (bits - 1) then Z.of_N m else (Z.of_N m - Z.of_N (2 ^ bits))%Z.

Definition char_literal_to_ll (s : str) : option Z :=
  let start : option (ckind * str) :=
    match s with
    | 39 :: r => Some (CNarrow, r)
    | 117 :: 39 :: r => Some (CUtf16, r)
    | 117 :: 56 :: 39 :: r => Some (CUtf8, r)
    | 76 :: 39 :: r => Some (CWide, r)
    | 85 :: 39 :: r => Some (CWide, r)
    | _ => None
    end in
  match start with
  | None => None
  | Some (k, rest) =>
      match char_loop (length s) k rest 0 0 with
      | Some (multi, nbytes, [39]) =>
          if nbytes =? 0 then None
          else if ckind_eqb k CNarrow && (nbytes =? 1) then Some (sext 8 multi)   (* static_cast<char>, host char is signed *)
          else if ckind_eqb k CNarrow then Some (sext 32 multi)                  (* static_cast<int> *)
          else Some (Z.of_N multi)
      | _ => None
      end
  end.

(* number of characters of a narrow literal (Token::isCChar / isCMultiChar: size of the unescaped text) *)
Definition narrow_nbytes (s : str) : option N :=
  match s with
  | 39 :: r => match char_loop (length s) CNarrow r 0 0 with
               | Some (_, nbytes, [39]) => Some nbytes
               | _ => None
               end
  | _ => None
  end.

(* ValueFlow::truncateIntValue(value, value_size, dst_sign) for 1 <= value_size <= 8 (lib/vf_common.cpp):
   keep the low 8*size bits, sign-extend for a signed destination; the result lives in the 64-bit bigint *)
Definition truncate_int_value (z : Z) (size : N) (signed : bool) : Z :=
  if size =? 0 then z
  else
    let bits := Z.of_N (8 * size) in
    let m := (z mod 2 ^ bits)%Z in
    let r := if signed && (2 ^ (bits - 1) <=? m)%Z then (m - 2 ^ bits)%Z else m in
    if (9223372036854775808 <=? r)%Z then (r - 18446744073709551616)%Z else r.

(* ---- MathLib::toBigUNumber / toBigNumber (string overloads).
   The two functions have the same branches; toBigNumber converts the 64-bit unsigned result
   to bigint (two's complement), its isBin loop runs on bigint with the same bits. *)
Definition to_big (signed : bool) (s : str) : res :=
  let out (v : N) := RVal (if signed then wrap64s v else Z.of_N v) in
  if is_int_hex s then
    match stoull_val 16 s with inl v => out v | inr k => RErr k end
  else if is_oct s then
    match stoull_val 8 s with inl v => out v | inr k => RErr k end
  else if is_bin s then out (bin_value s)
  else if is_float s then RFloat
  else if is_char_literal s then
    match char_literal_to_ll s with
    | Some z => RVal (if signed then z else Z.of_N (wrap64u_of_Z z))
    | None => RErr 4
    end
  else
    let r := strtoull 10 s in
    if st_used r =? 0 then RErr 2
    else if st_range r then RErr 1
    else
      match drop (N.to_nat (st_used r)) s with
      | [] => out (st_val r)
      | rest => if is_valid_suffix true rest then out (st_val r) else RErr 3
      end.

(* which branch of toBigNumber/toBigUNumber handles the string (the order of the tests in the code) *)
Inductive branch := BrHex | BrOct | BrBin | BrFloat | BrChar | BrDec.
Definition branch_of (s : str) : branch :=
  if is_int_hex s then BrHex else if is_oct s then BrOct else if is_bin s then BrBin
  else if is_float s then BrFloat else if is_char_literal s then BrChar else BrDec.

Definition to_bigunumber (s : str) : res := to_big false s.
Definition to_bignumber (s : str) : res := to_big true s.
