(* Casts (truncateIntValue) and the platform's char signedness for character tokens. *)
From CV Require Import Base.Bytes Lit.Defs Lit.Spec Lit.Platform Lit.TokenValue Lit.Gen_Platforms Lit.Proofs Lit.CharTheorems Lit.CharExt.
Require Import Lia ZifyBool.
Local Open Scope N_scope.

(* conversion to an integer type of `size` bytes (ISO C 6.3.1.3; signed destinations wrap, as gcc
   and clang define it): the result is congruent to the operand modulo 2^(8*size) and lies in the
   range of the destination type *)
Theorem truncate_spec z size signed : 1 <= size -> size <= 8 ->
  let bits := Z.of_N (8 * size) in
  let r := truncate_int_value z size signed in
  ((r - z) mod 2 ^ bits = 0)%Z /\
  (signed = true -> - 2 ^ (bits - 1) <= r < 2 ^ (bits - 1))%Z /\
  (signed = false -> (size < 8)%N -> (0 <= r < 2 ^ bits)%Z).
Proof.
  intros H1 H8 bits r. subst r. unfold truncate_int_value.
  destruct (N.eqb_spec size 0); [lia|]. fold bits.
  assert (Hb : (8 <= bits <= 64)%Z) by (unfold bits; lia).
  assert (Hpos : (0 < 2 ^ bits)%Z) by (apply Z.pow_pos_nonneg; lia).
  assert (Hle : (2 ^ bits <= 2 ^ 64)%Z) by (apply Z.pow_le_mono_r; lia).
  assert (Hhalf : (2 ^ bits = 2 * 2 ^ (bits - 1))%Z).
  { replace bits with (Z.succ (bits - 1)) at 1 by lia. rewrite Z.pow_succ_r by lia. reflexivity. }
  change (2 ^ 64)%Z with 18446744073709551616%Z in Hle.
  pose proof (Z.mod_pos_bound z (2 ^ bits) Hpos) as Hm.
  set (m := (z mod 2 ^ bits)%Z) in *.
  assert (Hcong : forall k : Z, ((m + k * 2 ^ bits - z) mod 2 ^ bits = 0)%Z).
  { intros k. unfold m. rewrite (Z.div_mod z (2 ^ bits)) at 2 by lia.
    replace (z mod 2 ^ bits + k * 2 ^ bits - (2 ^ bits * (z / 2 ^ bits) + z mod 2 ^ bits))%Z
      with ((k - z / 2 ^ bits) * 2 ^ bits)%Z by ring.
    apply Z.mod_mul. lia. }
  destruct signed; cbn [andb].
  - destruct (Z.leb_spec (2 ^ (bits - 1)) m) as [E|E].
    + destruct (Z.leb_spec 9223372036854775808 (m - 2 ^ bits)) as [E2|E2]; [lia|].
      repeat split; try (intros; lia); try (intros; discriminate).
      replace (m - 2 ^ bits - z)%Z with (m + (-1) * 2 ^ bits - z)%Z by ring. apply Hcong.
    + destruct (Z.leb_spec 9223372036854775808 m) as [E2|E2]; [lia|].
      repeat split; try (intros; lia); try (intros; discriminate).
      replace (m - z)%Z with (m + 0 * 2 ^ bits - z)%Z by ring. apply Hcong.
  - destruct (Z.leb_spec 9223372036854775808 m) as [E2|E2].
    + assert (bits = 64%Z) as Hb64.
      { destruct (Z.eq_dec bits 64); [assumption|]. assert (bits <= 63)%Z by lia.
        assert (2 ^ bits <= 2 ^ 63)%Z by (apply Z.pow_le_mono_r; lia).
        change (2 ^ 63)%Z with 9223372036854775808%Z in *. lia. }
      split; [|split].
      * replace (m - 18446744073709551616 - z)%Z with (m + (-1) * 2 ^ bits - z)%Z.
        { apply Hcong. } rewrite Hb64. change (2 ^ 64)%Z with 18446744073709551616%Z. ring.
      * intros Hs; discriminate.
      * intros _ Hs. unfold bits in Hb64. lia.
    + repeat split; try (intros; lia); try (intros; discriminate).
      replace (m - z)%Z with (m + 0 * 2 ^ bits - z)%Z by ring. apply Hcong.
Qed.

(* a one-character narrow literal: in a C++ file the reported value follows the platform's plain char *)
Lemma narrow_nbytes_chars body vs : c_chars body vs ->
  narrow_nbytes (39 :: body ++ [39]) = Some (N.of_nat (length vs)).
Proof.
  intros H. unfold narrow_nbytes.
  assert (Hlen : (length vs <= length (39%N :: body ++ [39%N]))%nat).
  { induction H; cbn [length] in *; [lia|].
    pose proof (c_char_nonempty _ _ H). destruct sp; [contradiction|].
    cbn [app length] in *. rewrite !app_length in *. cbn [length] in *. lia. }
  change 0 with (0 mod TWO64) at 1.
  rewrite (char_loop_narrow body vs H _ 0 0 Hlen). reflexivity.
Qed.

Lemma token_char_count_c_char sp v : c_char sp v -> token_char_count (39 :: sp ++ [39]) = Some 1.
Proof.
  intros H. unfold token_char_count. rewrite removelast_last.
  inversion H as [c H1 H2 H3 H4 | e v' He]; subst.
  - cbn [length escape_count_go]. destruct (N.eqb_spec v 92); [contradiction|]. reflexivity.
  - inversion He; subst; vm_compute; reflexivity.
Qed.

(* one-character narrow literals have the value of the platform's plain char, in C and C++ files,
   on every platform with 8-bit bytes and a definite char signedness *)
Theorem char_token_value_platform p cpp sp v : c_char sp v -> p_char_bit p = 8 -> (p_sign p = 115 \/ p_sign p = 117) ->
  char_literal_to_ll (39 :: sp ++ [39]) = Some (sext_spec 8 v) /\
  token_char_count (39 :: sp ++ [39]) = Some 1 /\
  char_token_value p cpp 1 (sext_spec 8 v) = char_value_on p v.
Proof.
  intros Hc Hb Hp.
  assert (Hcs : c_chars (sp ++ []) [v]) by (constructor; [assumption | constructor]).
  rewrite app_nil_r in Hcs.
  split; [exact (narrow_char_literal sp [v] Hcs ltac:(discriminate))|].
  split; [exact (token_char_count_c_char sp v Hc)|].
  pose proof (c_char_lt _ _ Hc) as Hv.
  unfold char_token_value, char_value_on, sext_spec. rewrite Hb. change (2 ^ Z.of_N 8)%Z with 256%Z.
  change (2 ^ 8) with 256. change (2 ^ (8 - 1)) with 128.
  rewrite (N.mod_small v 256) by assumption. cbn [N.eqb Pos.eqb].
  destruct Hp as [E|E]; rewrite E; cbn [N.eqb Pos.eqb andb].
  - reflexivity.
  - destruct (N.ltb_spec v 128) as [L|L].
    + destruct (Z.ltb_spec (Z.of_N v) 0); [lia | reflexivity].
    + destruct (Z.ltb_spec (Z.of_N v - Z.of_N 256) 0); lia.
Qed.

(* the witness that failed before /repo c27b70b: '\xff' on arm32-wchar_t4 is now 255 *)
Example char_token_xff_unsigned_platform :
  char_token_value plat_arm32_wchar_t4 false 1 (-1) = char_value_on plat_arm32_wchar_t4 255.
Proof. vm_compute. reflexivity. Qed.
(* '\xff\xff' on avr8 (16-bit int) is -1 *)
Example char_token_multichar_avr8 : char_token_value plat_avr8 false 2 65535 = (-1)%Z.
Proof. vm_compute. reflexivity. Qed.

(* an octal escape of one to three digits is one character for Token::isCChar (since /repo 6f10427) *)
Lemma oct_not_x a : is_octdigit a = true -> (a =? 120) = false.
Proof.
  unfold is_octdigit. intros H. apply N.eqb_neq. intros ->. discriminate.
Qed.

Theorem token_char_count_octal_escape ds :
  (1 <= length ds <= 3)%nat -> forallb is_octdigit ds = true ->
  token_char_count (39 :: 92 :: ds ++ [39]) = Some 1.
Proof.
  intros Hl Hd. unfold token_char_count.
  change (92 :: ds ++ [39]) with ((92 :: ds) ++ [39]). rewrite removelast_last.
  destruct ds as [|a [|b [|c [|x r]]]]; cbn [length] in Hl; try lia;
    cbn [forallb] in Hd; repeat rewrite andb_true_iff in Hd.
  - destruct Hd as [Ha _]. cbn [length escape_count_go]. change (negb (92 =? 92)) with false. cbv iota.
    rewrite (oct_not_x a Ha), Ha. reflexivity.
  - destruct Hd as (Ha & Hb & _). cbn [length escape_count_go]. change (negb (92 =? 92)) with false. cbv iota.
    rewrite (oct_not_x a Ha), Ha. cbn [skip2]. rewrite Hb. reflexivity.
  - destruct Hd as (Ha & Hb & Hc & _). cbn [length escape_count_go]. change (negb (92 =? 92)) with false. cbv iota.
    rewrite (oct_not_x a Ha), Ha. cbn [skip2]. rewrite Hb, Hc. reflexivity.
Qed.

(* the witness that failed before /repo 6f10427: '\377' on arm32-wchar_t4 is one character and is reported as 255 *)
Example octal_escape_char_token_now :
  token_char_count [39; 92; 51; 55; 55; 39] = Some 1 /\
  char_literal_to_ll [39; 92; 51; 55; 55; 39] = Some (-1)%Z /\
  char_token_value plat_arm32_wchar_t4 false 1 (-1) = char_value_on plat_arm32_wchar_t4 255.
Proof. vm_compute. repeat split; reflexivity. Qed.

(* the plain-char adjustment on any byte value *)
Lemma char_token_value_byte p cpp v : v < 256 -> p_char_bit p = 8 -> (p_sign p = 115 \/ p_sign p = 117) ->
  char_token_value p cpp 1 (sext_spec 8 v) = char_value_on p v.
Proof.
  intros Hv Hb Hp.
  unfold char_token_value, char_value_on, sext_spec. rewrite Hb. change (2 ^ Z.of_N 8)%Z with 256%Z.
  change (2 ^ 8) with 256. change (2 ^ (8 - 1)) with 128.
  rewrite (N.mod_small v 256) by assumption. cbn [N.eqb Pos.eqb].
  destruct Hp as [E|E]; rewrite E; cbn [N.eqb Pos.eqb andb].
  - reflexivity.
  - destruct (N.ltb_spec v 128) as [L|L].
    + destruct (Z.ltb_spec (Z.of_N v) 0); [lia | reflexivity].
    + destruct (Z.ltb_spec (Z.of_N v - Z.of_N 256) 0); lia.
Qed.

(* a one-character narrow literal written with ANY c-char of the extended grammar (source character,
   simple, octal, hexadecimal or universal escape) that Token::isCChar counts as one character has the
   value of the platform's plain char *)
Theorem char_token_value_platform_ext p cpp sp v :
  c_char_ext 39 sp v -> p_char_bit p = 8 -> (p_sign p = 115 \/ p_sign p = 117) ->
  token_char_count (39 :: sp ++ [39]) = Some 1 ->
  char_literal_to_ll (39 :: sp ++ [39]) = Some (sext_spec 8 v) /\
  char_token_value p cpp 1 (sext_spec 8 v) = char_value_on p v.
Proof.
  intros Hc Hb Hp _.
  assert (Hcs : c_chars_ext (sp ++ []) [v]) by (constructor; [exact Hc | constructor]).
  rewrite app_nil_r in Hcs.
  split; [exact (narrow_char_literal_ext sp [v] Hcs ltac:(discriminate))|].
  apply char_token_value_byte; try assumption.
  exact (proj1 (proj2 (c_char_ext_item _ _ _ [] Hc))).
Qed.

(* in particular every octal escape (count 1 by token_char_count_octal_escape) *)
Corollary char_token_value_platform_octal p cpp cs ds :
  digit_seq 8 cs ds -> (1 <= length cs <= 3)%nat -> value_of_digits 8 ds < 256 ->
  p_char_bit p = 8 -> (p_sign p = 115 \/ p_sign p = 117) ->
  char_literal_to_ll (39 :: (92 :: cs) ++ [39]) = Some (sext_spec 8 (value_of_digits 8 ds)) /\
  token_char_count (39 :: 92 :: cs ++ [39]) = Some 1 /\
  char_token_value p cpp 1 (sext_spec 8 (value_of_digits 8 ds)) = char_value_on p (value_of_digits 8 ds).
Proof.
  intros Hcs Hl Hv Hb Hp.
  assert (Hoct : forallb is_octdigit cs = true).
  { clear Hl Hv. induction Hcs; [reflexivity|]. cbn [forallb]. rewrite (proj1 (digit_char_8 _ _ H)). exact IHHcs. }
  assert (Hc : c_char_ext 39 (92 :: cs) (value_of_digits 8 ds)).
  { apply CE_oct; try assumption. intros _ d Hd. apply digit_char_range in Hd; lia. }
  pose proof (token_char_count_octal_escape cs Hl Hoct) as Hcnt.
  destruct (char_token_value_platform_ext p cpp (92 :: cs) _ Hc Hb Hp Hcnt) as [E1 E2].
  repeat split; assumption.
Qed.

(* a hexadecimal escape with any number of digits is one character for Token::isCChar (since /repo 483f671;
   before, at most two digits were read and '\x0ff' counted as two characters) *)
Lemma skip_while_all pr l : forallb pr l = true -> skip_while pr l = [].
Proof. induction l as [|a l IH]; [reflexivity|]. cbn [forallb skip_while]. intros H. apply andb_true_iff in H as [-> H]. auto. Qed.

Theorem token_char_count_hex_escape ds : forallb is_xdigit ds = true ->
  token_char_count (39 :: 92 :: 120 :: ds ++ [39]) = Some 1.
Proof.
  intros Hd. unfold token_char_count.
  change (92 :: 120 :: ds ++ [39]) with ((92 :: 120 :: ds) ++ [39]). rewrite removelast_last.
  cbn [length escape_count_go]. change (negb (92 =? 92)) with false. cbv iota. change (120 =? 120) with true. cbv iota.
  rewrite (skip_while_all _ _ Hd). destruct (length ds); reflexivity.
Qed.

(* the former witness: '\x0ff' on arm32-wchar_t4 is one character and is reported as 255 *)
Example long_hex_escape_char_token_now :
  token_char_count [39; 92; 120; 48; 102; 102; 39] = Some 1 /\
  char_literal_to_ll [39; 92; 120; 48; 102; 102; 39] = Some (-1)%Z /\
  char_token_value plat_arm32_wchar_t4 false 1 (-1) = char_value_on plat_arm32_wchar_t4 255.
Proof. vm_compute. repeat split; reflexivity. Qed.

(* every hexadecimal escape of the grammar: value through characterLiteralToLL, count 1, plain-char value *)
Corollary char_token_value_platform_hex p cpp cs ds :
  digit_seq 16 cs ds -> cs <> [] -> value_of_digits 16 ds < 256 ->
  p_char_bit p = 8 -> (p_sign p = 115 \/ p_sign p = 117) ->
  char_literal_to_ll (39 :: (92 :: 120 :: cs) ++ [39]) = Some (sext_spec 8 (value_of_digits 16 ds)) /\
  token_char_count (39 :: 92 :: 120 :: cs ++ [39]) = Some 1 /\
  char_token_value p cpp 1 (sext_spec 8 (value_of_digits 16 ds)) = char_value_on p (value_of_digits 16 ds).
Proof.
  intros Hcs Hne Hv Hb Hp.
  assert (Hx : forallb is_xdigit cs = true).
  { clear Hne Hv. induction Hcs; [reflexivity|]. cbn [forallb]. rewrite (digit_char_16 _ _ H). exact IHHcs. }
  assert (Hc : c_char_ext 39 (92 :: 120 :: cs) (value_of_digits 16 ds)).
  { apply CE_hex; try assumption; try discriminate. intros d Hd. apply digit_char_range in Hd; lia. }
  pose proof (token_char_count_hex_escape cs Hx) as Hcnt.
  destruct (char_token_value_platform_ext p cpp (92 :: 120 :: cs) _ Hc Hb Hp Hcnt) as [E1 E2].
  repeat split; assumption.
Qed.
