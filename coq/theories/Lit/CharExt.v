(* Character literals with octal, hexadecimal and universal escapes: the value through the strtoull path
   of stringToULLbounded. *)
From CV Require Import Base.Bytes Lit.Defs Lit.Spec Lit.Proofs Lit.IntTheorems Lit.CharTheorems.
Require Import Lia ZifyBool.
Local Open Scope N_scope.

(* the digit loop stops at a character that is not a digit of the base *)
Lemma digits_acc_stop b cs ds rest : digit_seq b cs ds -> b <= 16 ->
  (match rest with [] => True | c :: _ => digit_in b c = None end) ->
  forall acc cnt,
    digits_acc b (cs ++ rest) acc cnt =
    (acc * b ^ N.of_nat (length ds) + value_of_digits b ds, cnt + N.of_nat (length ds)).
Proof.
  intros H Hb Hs. induction H; intros acc cnt.
  - cbn [app length value_of_digits]. rewrite N.pow_0_r.
    destruct rest as [|c r]; cbn [digits_acc].
    + f_equal; cbn; lia.
    + rewrite Hs. f_equal; cbn; lia.
  - cbn [app digits_acc]. rewrite (digit_char_in _ _ _ H Hb). rewrite IHdigit_seq.
    cbn [length value_of_digits]. rewrite Nat2N.inj_succ, N.pow_succ_r'. f_equal; lia.
Qed.

Lemma strtoull_digits_stop b c d cs ds rest :
  digit_char b c d -> digit_seq b cs ds -> b <= 16 ->
  strip_prefix b (c :: cs ++ rest) = (c :: cs ++ rest, 0) ->
  (match rest with [] => True | x :: _ => digit_in b x = None end) ->
  value_of_digits b (d :: ds) < TWO64 ->
  strtoull b (c :: cs ++ rest) = mkStrto (N.of_nat (length (d :: ds))) false (value_of_digits b (d :: ds)).
Proof.
  intros Hc Hcs Hb Hp Hr Hv. unfold strtoull.
  destruct (digit_not_space _ _ _ Hc Hb) as [Hsp Hsg].
  rewrite (skip_ws_nonspace _ _ Hsp), (strip_sign_nonsign _ _ Hsg), Hp.
  assert (Hd : digit_seq b (c :: cs) (d :: ds)) by (constructor; assumption).
  change (c :: cs ++ rest) with ((c :: cs) ++ rest).
  rewrite (digits_acc_stop b _ _ rest Hd Hb Hr).
  replace (0 * b ^ N.of_nat (length (d :: ds)) + value_of_digits b (d :: ds)) with (value_of_digits b (d :: ds)) by lia.
  destruct (N.eqb_spec (0 + N.of_nat (length (d :: ds))) 0) as [E|E]; [cbn [length] in E; lia|].
  destruct (N.leb_spec TWO64 (value_of_digits b (d :: ds))); [lia|]. f_equal; lia.
Qed.

Lemma no_digit_none b x : b <= 16 -> (forall d, ~ digit_char b x d) -> digit_in b x = None.
Proof.
  intros Hb H. destruct (digit_in b x) as [d|] eqn:E; [|reflexivity]. exfalso. apply (H d).
  unfold digit_in in E. destruct (digit_val x) as [v|] eqn:Ev; [|discriminate].
  destruct (N.ltb_spec v b); [|discriminate]. inversion E; subst v. clear E.
  unfold digit_val in Ev.
  destruct (is_digit x) eqn:D.
  - injection Ev as Ev'. unfold is_digit in D. apply andb_true_iff in D as [D1 D2]. apply N.leb_le in D1, D2.
    assert (Hx : x = 48 + d) by lia. rewrite Hx. apply DC_dec; lia.
  - destruct (is_lower x) eqn:L.
    + injection Ev as Ev'. unfold is_lower in L. apply andb_true_iff in L as [L1 L2]. apply N.leb_le in L1, L2.
      assert (Hx : x = 87 + d) by lia. rewrite Hx. apply DC_lower; lia.
    + destruct (is_upper x) eqn:U; [|discriminate].
      injection Ev as Ev'. unfold is_upper in U. apply andb_true_iff in U as [U1 U2]. apply N.leb_le in U1, U2.
      assert (Hx : x = 55 + d) by lia. rewrite Hx. apply DC_upper; lia.
Qed.

Lemma firstn_str_app_exact (a b : str) : firstn_str (length a) (a ++ b) = a.
Proof. induction a; cbn; [destruct b; reflexivity | f_equal; assumption]. Qed.

Lemma digit_seq_cons_inv b cs ds : digit_seq b cs ds -> cs <> [] ->
  exists c d cs' ds', cs = c :: cs' /\ ds = d :: ds' /\ digit_char b c d /\ digit_seq b cs' ds'.
Proof. intros H Hn. destruct H; [contradiction|]. eauto 8. Qed.

Lemma octdigit_no_simple e d : digit_char 8 e d -> simple_escape e = None /\ is_octdigit e = true.
Proof.
  intros H. split; [|exact (proj1 (digit_char_8 _ _ H))].
  inversion H; subst; try lia.
  assert (d = 0 \/ d = 1 \/ d = 2 \/ d = 3 \/ d = 4 \/ d = 5 \/ d = 6 \/ d = 7) by lia.
  repeat match goal with H : _ \/ _ |- _ => destruct H end; subst; reflexivity.
Qed.

Lemma strip_prefix_no_x b c0 cx r : ch_in cx 120 88 = false -> strip_prefix b (c0 :: cx :: r) = (c0 :: cx :: r, 0).
Proof.
  intros H. destruct r as [|c r]; cbn [strip_prefix]; [reflexivity|]. rewrite H.
  rewrite !andb_false_r. reflexivity.
Qed.

Lemma hexdigit_not_x c d : digit_char 16 c d -> ch_in c 120 88 = false.
Proof.
  intros H. unfold ch_in. inversion H; subst;
    (destruct (N.eqb_spec (48 + d) 120) || destruct (N.eqb_spec (87 + d) 120) || destruct (N.eqb_spec (55 + d) 120)); try lia;
    (destruct (N.eqb_spec (48 + d) 88) || destruct (N.eqb_spec (87 + d) 88) || destruct (N.eqb_spec (55 + d) 88)); try lia; reflexivity.
Qed.

Lemma drop_app_length' (a b : str) n : n = length a -> drop n (a ++ b) = b.
Proof. intros ->. apply drop_app_length. Qed.

Lemma value_small_lt b ds : value_of_digits b ds < 256 -> value_of_digits b ds < TWO64.
Proof. unfold TWO64. lia. Qed.

(* ---- one c-char of the extended grammar through char_item *)
Lemma char_item_oct k nxt m cs ds : digit_seq 8 cs ds -> (1 <= length cs <= 3)%nat ->
  ((length cs < 3)%nat -> forall d, ~ digit_char 8 nxt d) -> value_of_digits 8 ds < 256 ->
  char_item k ((92 :: cs) ++ nxt :: m) = Some (value_of_digits 8 ds, nxt :: m).
Proof.
  intros Hcs Hl Hn Hv.
  destruct (digit_seq_cons_inv 8 cs ds Hcs ltac:(destruct cs; cbn in Hl; [lia | discriminate]))
    as (c1 & d1 & cs' & ds' & -> & -> & Hc1 & Hcs').
  destruct (octdigit_no_simple _ _ Hc1) as [Hse Ho].
  cbn [app char_item]. change (92 =? 92) with true. cbv iota.
  destruct (cs' ++ nxt :: m) eqn:E; [destruct cs'; discriminate|]. rewrite <- E. clear E.
  rewrite Hse, Ho. unfold ull_bounded.
  assert (Hsub : exists rest, firstn_str 3 (c1 :: cs' ++ nxt :: m) = c1 :: cs' ++ rest /\
                              match rest with [] => True | x :: _ => digit_in 8 x = None end).
  { cbn [length] in Hl, Hn.
    destruct cs' as [|c2 [|c3 [|c4 r]]]; cbn [length] in Hl, Hn; try lia.
    - exists (nxt :: firstn_str 1 m). split; [reflexivity|]. apply no_digit_none; [lia|]. apply Hn; lia.
    - exists [nxt]. split; [destruct m; reflexivity|]. apply no_digit_none; [lia|]. apply Hn; lia.
    - exists []. split; [reflexivity | exact I]. }
  destruct Hsub as (rest & -> & Hrest).
  rewrite (strtoull_digits_stop 8 c1 d1 cs' ds' rest Hc1 Hcs' ltac:(lia) (strip_prefix_non16 8 _ eq_refl) Hrest
             (value_small_lt _ _ Hv)).
  cbn [st_used st_val]. destruct (N.ltb_spec (N.of_nat (length (d1 :: ds'))) 1) as [L|L]; [cbn [length] in L; lia|].
  f_equal. f_equal. change (c1 :: cs' ++ nxt :: m) with ((c1 :: cs') ++ nxt :: m).
  apply drop_app_length'. rewrite Nat2N.id. cbn [length]. rewrite (digit_seq_length _ _ _ Hcs'). reflexivity.
Qed.

Lemma char_item_hex k nxt m cs ds : digit_seq 16 cs ds -> cs <> [] ->
  (forall d, ~ digit_char 16 nxt d) -> nxt <> 120 -> nxt <> 88 -> value_of_digits 16 ds < 256 ->
  char_item k ((92 :: 120 :: cs) ++ nxt :: m) = Some (value_of_digits 16 ds, nxt :: m).
Proof.
  intros Hcs Hne Hn Hx1 Hx2 Hv.
  destruct (digit_seq_cons_inv 16 cs ds Hcs Hne) as (c1 & d1 & cs' & ds' & -> & -> & Hc1 & Hcs').
  cbn [app char_item]. change (92 =? 92) with true. cbv iota.
  change (simple_escape 120) with (@None N). change (is_octdigit 120) with false. change (120 =? 120) with true. cbv iota.
  unfold ull_bounded.
  assert (Hp : strip_prefix 16 (c1 :: cs' ++ nxt :: m) = (c1 :: cs' ++ nxt :: m, 0)).
  { destruct cs' as [|c2 r]; cbn [app].
    - apply strip_prefix_no_x. unfold ch_in. destruct (N.eqb_spec nxt 120); [contradiction|]. destruct (N.eqb_spec nxt 88); [contradiction|]. reflexivity.
    - inversion Hcs'; subst. apply strip_prefix_no_x. eapply hexdigit_not_x; eassumption. }
  rewrite (strtoull_digits_stop 16 c1 d1 cs' ds' (nxt :: m) Hc1 Hcs' ltac:(lia) Hp (no_digit_none 16 nxt ltac:(lia) Hn)
             (value_small_lt _ _ Hv)).
  cbn [st_used st_val]. destruct (N.ltb_spec (N.of_nat (length (d1 :: ds'))) 1) as [L|L]; [cbn [length] in L; lia|].
  f_equal. f_equal. change (c1 :: cs' ++ nxt :: m) with ((c1 :: cs') ++ nxt :: m).
  apply drop_app_length'. rewrite Nat2N.id. cbn [length]. rewrite (digit_seq_length _ _ _ Hcs'). reflexivity.
Qed.

Lemma strtoull_hex_exact c1 d1 c2 d2 cs ds :
  digit_char 16 c1 d1 -> digit_char 16 c2 d2 -> digit_seq 16 cs ds ->
  value_of_digits 16 (d1 :: d2 :: ds) < TWO64 ->
  strtoull 16 (c1 :: c2 :: cs) = mkStrto (N.of_nat (length (d1 :: d2 :: ds))) false (value_of_digits 16 (d1 :: d2 :: ds)).
Proof.
  intros H1 H2 Hcs Hv.
  assert (Hd : digit_seq 16 (c2 :: cs) (d2 :: ds)) by (constructor; assumption).
  replace (c1 :: c2 :: cs) with (c1 :: (c2 :: cs) ++ []) by (rewrite app_nil_r; reflexivity).
  apply (strtoull_digits_stop 16 c1 d1 (c2 :: cs) (d2 :: ds) [] H1 Hd ltac:(lia)); [|exact I|exact Hv].
  rewrite app_nil_r. apply strip_prefix_no_x. exact (hexdigit_not_x _ _ H2).
Qed.

Lemma ull_bounded_exact n c1 d1 c2 d2 cs ds more :
  digit_char 16 c1 d1 -> digit_char 16 c2 d2 -> digit_seq 16 cs ds ->
  length (c1 :: c2 :: cs) = n -> value_of_digits 16 (d1 :: d2 :: ds) < TWO64 ->
  ull_bounded 16 (N.of_nat n) (Some n) ((c1 :: c2 :: cs) ++ more) = Some (value_of_digits 16 (d1 :: d2 :: ds), more).
Proof.
  intros H1 H2 Hcs Hn Hv. subst n. unfold ull_bounded. rewrite firstn_str_app_exact.
  rewrite (strtoull_hex_exact c1 d1 c2 d2 cs ds H1 H2 Hcs Hv). cbn [st_used st_val].
  assert (Hlen : length (d1 :: d2 :: ds) = length (c1 :: c2 :: cs)).
  { cbn [length]. rewrite (digit_seq_length _ _ _ Hcs). reflexivity. }
  rewrite Hlen, N.ltb_irrefl. f_equal. f_equal. apply drop_app_length'. rewrite Nat2N.id. reflexivity.
Qed.

Lemma char_item_ucn k (big : bool) nxt m cs ds : digit_seq 16 cs ds ->
  length cs = (if big then 8 else 4)%nat -> value_of_digits 16 ds < 128 ->
  char_item k ((92 :: (if big then 85 else 117) :: cs) ++ nxt :: m) = Some (value_of_digits 16 ds, nxt :: m).
Proof.
  intros Hcs Hl Hv.
  destruct Hcs as [|c1 d1 cs1 ds1 Hc1 Hcs1]; [destruct big; discriminate|].
  destruct Hcs1 as [|c2 d2 cs2 ds2 Hc2 Hcs2]; [destruct big; discriminate|].
  set (v := value_of_digits 16 (d1 :: d2 :: ds2)) in *.
  assert (Hchk : (((ckind_eqb k CNarrow || ckind_eqb k CUtf8) && (127 <? v))
                  || (ckind_eqb k CUtf16 && (65535 <? v)) || (1114111 <? v)) = false).
  { destruct (N.ltb_spec 127 v); [lia|]. destruct (N.ltb_spec 65535 v); [lia|]. destruct (N.ltb_spec 1114111 v); [lia|].
    rewrite !andb_false_r. reflexivity. }
  assert (Hsur : ((55296 <=? v) && (v <=? 57343)) = false).
  { destruct (N.leb_spec 55296 v); [lia | reflexivity]. }
  assert (Hv64 : v < TWO64) by (unfold TWO64; lia).
  destruct big; cbn [app char_item]; change (92 =? 92) with true; cbv iota.
  - change (simple_escape 85) with (@None N). change (is_octdigit 85) with false. change (85 =? 120) with false.
    change (ch_in 85 117 85) with true. change (85 =? 117) with false. cbv iota.
    change (c1 :: c2 :: cs2 ++ nxt :: m) with ((c1 :: c2 :: cs2) ++ nxt :: m).
    rewrite (ull_bounded_exact 8 c1 d1 c2 d2 cs2 ds2 (nxt :: m) Hc1 Hc2 Hcs2 Hl Hv64). fold v.
    rewrite Hchk, Hsur. reflexivity.
  - change (simple_escape 117) with (@None N). change (is_octdigit 117) with false. change (117 =? 120) with false.
    change (ch_in 117 117 85) with true. change (117 =? 117) with true. cbv iota.
    change (c1 :: c2 :: cs2 ++ nxt :: m) with ((c1 :: c2 :: cs2) ++ nxt :: m).
    rewrite (ull_bounded_exact 4 c1 d1 c2 d2 cs2 ds2 (nxt :: m) Hc1 Hc2 Hcs2 Hl Hv64). fold v.
    rewrite Hchk, Hsur. reflexivity.
Qed.

(* ---- any c-char of the extended grammar *)
Lemma char_item_basic sp v more : c_char sp v -> more <> [] ->
  char_item CNarrow (sp ++ more) = Some (v, more).
Proof.
  intros Hc Hm. destruct more as [|m0 mr]; [contradiction|].
  inversion Hc as [c H1 H2 H3 H4 | e v' He]; subst.
  - cbn [app char_item]. destruct (N.eqb_spec v 92); [contradiction|]. reflexivity.
  - cbn [app char_item]. change (92 =? 92) with true. cbv iota.
    destruct (simple_esc_model _ _ He) as [-> _]. reflexivity.
Qed.

Lemma c_char_ext_item nxt sp v m : c_char_ext nxt sp v ->
  char_item CNarrow (sp ++ nxt :: m) = Some (v, nxt :: m) /\ v < 256 /\
  exists c r, sp = c :: r /\ c <> 39 /\ c <> 10.
Proof.
  intros H. inversion H as [sp0 v0 Hc | cs ds Hcs Hl Hn Hv | cs ds Hcs Hne Hn Hx1 Hx2 Hv
                            | cs ds Hcs Hl Hv | cs ds Hcs Hl Hv]; subst.
  - split; [apply char_item_basic; [assumption | discriminate]|]. split; [exact (c_char_lt _ _ Hc)|].
    inversion Hc; subst; [exists v, []; auto | exists 92, [e]; repeat split; discriminate].
  - split; [exact (char_item_oct CNarrow nxt m cs ds Hcs Hl Hn Hv)|]. split; [assumption|].
    exists 92, cs; repeat split; discriminate.
  - split; [exact (char_item_hex CNarrow nxt m cs ds Hcs Hne Hn Hx1 Hx2 Hv)|]. split; [assumption|].
    exists 92, (120 :: cs); repeat split; discriminate.
  - split; [exact (char_item_ucn CNarrow false nxt m cs ds Hcs Hl Hv)|]. split; [lia|].
    exists 92, (117 :: cs); repeat split; discriminate.
  - split; [exact (char_item_ucn CNarrow true nxt m cs ds Hcs Hl Hv)|]. split; [lia|].
    exists 92, (85 :: cs); repeat split; discriminate.
Qed.

Lemma item_small v : v < 256 -> item_too_large CNarrow v = false.
Proof.
  intros Hv. unfold item_too_large.
  assert ((255 <? v) = false) as -> by (apply N.ltb_ge; lia).
  assert (N.shiftr v 32 = 0) as ->.
  { rewrite N.shiftr_div_pow2. apply N.div_small. change (2 ^ 32) with 4294967296. lia. }
  reflexivity.
Qed.

(* the whole body of a narrow literal; `tail` is what follows the body (the closing quote) *)
Lemma char_loop_ext body vs : c_chars_ext body vs ->
  forall fuel a nbytes, (length vs <= fuel)%nat ->
  char_loop fuel CNarrow (body ++ [39]) (a mod TWO64) nbytes =
  Some ((a * 256 ^ N.of_nat (length vs) + value_of_digits 256 vs) mod TWO64, nbytes + N.of_nat (length vs), [39]).
Proof.
  induction 1 as [|sp v body vs Hc Hcs IH]; intros fuel a nbytes Hf.
  - cbn [app length value_of_digits]. rewrite N.pow_0_r, N.mul_1_r, !N.add_0_r.
    destruct fuel; reflexivity.
  - destruct fuel as [|fuel]; [cbn [length] in Hf; lia|].
    rewrite <- app_assoc.
    assert (Hm : exists m, body ++ [39] = next_char body :: m).
    { destruct body as [|b0 br]; [exists []; reflexivity | exists (br ++ [39]); reflexivity]. }
    destruct Hm as [m Em]. rewrite Em.
    destruct (c_char_ext_item _ sp v m Hc) as (Hitem & Hv & c0 & r0 & -> & Hq & Hnl).
    cbn [app char_loop].
    assert (Hshape : exists y ys, r0 ++ next_char body :: m = y :: ys) by (destruct r0; cbn; eauto).
    destruct Hshape as (y & ys & Ey). rewrite Ey.
    assert (((c0 =? 39) || (c0 =? 10)) = false) as ->.
    { apply orb_false_iff; split; apply N.eqb_neq; assumption. }
    rewrite andb_false_r. rewrite <- Ey. change (c0 :: r0 ++ next_char body :: m) with ((c0 :: r0) ++ next_char body :: m).
    rewrite Hitem, (item_small v Hv), <- Em.
    rewrite (lor_low _ _ Hv).
    assert (E : (a mod TWO64 * 256) mod TWO64 + v = (a * 256 + v) mod TWO64).
    { set (x := a mod TWO64).
      assert (E1 : (x * 256) mod TWO64 + v = (x * 256 + v) mod TWO64).
      { rewrite <- (N.add_mod_idemp_l (x * 256) v TWO64) by (unfold TWO64; lia).
        assert (Hy : (x * 256) mod TWO64 = x mod 72057594037927936 * 256).
        { change TWO64 with (72057594037927936 * 256). rewrite N.mul_mod_distr_r by lia. reflexivity. }
        rewrite Hy. rewrite (N.mod_small (x mod 72057594037927936 * 256 + v) TWO64); [reflexivity|].
        assert (x mod 72057594037927936 < 72057594037927936) by (apply N.mod_lt; lia).
        unfold TWO64. lia. }
      rewrite E1. unfold x.
      rewrite <- N.add_mod_idemp_l by (unfold TWO64; lia).
      rewrite N.mul_mod_idemp_l by (unfold TWO64; lia).
      rewrite N.add_mod_idemp_l by (unfold TWO64; lia). reflexivity. }
    rewrite E, IH by (cbn [length] in Hf; lia).
    cbn [length value_of_digits]. rewrite Nat2N.inj_succ, N.pow_succ_r'.
    set (P := 256 ^ N.of_nat (length vs)). set (V := value_of_digits 256 vs).
    replace ((a * 256 + v) * P + V) with (a * (256 * P) + (v * P + V)) by ring.
    replace (nbytes + 1 + N.of_nat (length vs)) with (nbytes + N.succ (N.of_nat (length vs))) by lia. reflexivity.
Qed.

Lemma c_chars_ext_length body vs : c_chars_ext body vs -> (length vs <= length body)%nat.
Proof.
  induction 1 as [|sp v body vs Hc Hcs IH]; [cbn; lia|].
  destruct (c_char_ext_item _ sp v [] Hc) as (_ & _ & c0 & r0 & -> & _).
  rewrite app_length. cbn [length]. lia.
Qed.

(* narrow character literals over source characters, simple, octal, hexadecimal and universal escapes *)
Theorem narrow_char_literal_ext body vs : c_chars_ext body vs -> vs <> [] ->
  char_literal_to_ll (39 :: body ++ [39]) = Some (narrow_char_value vs).
Proof.
  intros H Hne. unfold char_literal_to_ll.
  assert (Hlen : (length vs <= length (39%N :: body ++ [39%N]))%nat).
  { pose proof (c_chars_ext_length _ _ H). cbn [length]. rewrite app_length. cbn [length]. lia. }
  change 0 with (0 mod TWO64) at 1.
  rewrite (char_loop_ext body vs H _ 0 0 Hlen).
  replace (0 * 256 ^ N.of_nat (length vs) + value_of_digits 256 vs) with (value_of_digits 256 vs) by lia.
  destruct vs as [|v [|v2 vs']]; [contradiction | |].
  - cbn [length N.of_nat Pos.of_succ_nat N.add N.eqb Pos.eqb ckind_eqb andb narrow_char_value value_of_digits].
    rewrite N.pow_0_r, N.mul_1_r, N.add_0_r.
    f_equal. unfold sext, sext_spec.
    assert (Hv : v < 256).
    { inversion H as [|sp0 v0 body0 vs0 Hc0 Hcs0]; subst. exact (proj1 (proj2 (c_char_ext_item _ _ _ [] Hc0))). }
    rewrite (N.mod_small v TWO64) by (unfold TWO64; lia). reflexivity.
  - assert (E0 : (0 + N.of_nat (length (v :: v2 :: vs')) =? 0) = false) by (apply N.eqb_neq; cbn [length]; lia).
    assert (E1 : (0 + N.of_nat (length (v :: v2 :: vs')) =? 1) = false) by (apply N.eqb_neq; cbn [length]; lia).
    rewrite E0, E1. cbn [ckind_eqb andb]. cbv iota. rewrite sext32_mod. reflexivity.
Qed.

(* ---- one c-char of the extended grammar after a prefix: u8'x' u'x' U'x' L'x' (ASCII values) *)
Lemma c_char_ext_item_any k nxt sp v m : c_char_ext nxt sp v -> v < 128 ->
  char_item k (sp ++ nxt :: m) = Some (v, nxt :: m).
Proof.
  intros H Hv. inversion H as [sp0 v0 Hc | cs ds Hcs Hl Hn Hv' | cs ds Hcs Hne Hn Hx1 Hx2 Hv'
                               | cs ds Hcs Hl Hv' | cs ds Hcs Hl Hv']; subst.
  - inversion Hc as [c H1 H2 H3 H4 | e v' He]; subst.
    + cbn [app char_item]. destruct (N.eqb_spec v 92); [contradiction|].
      assert ((negb (ckind_eqb k CNarrow) && (128 <=? v)) = false) as ->.
      { apply andb_false_iff. right. apply N.leb_gt. assumption. }
      reflexivity.
    + cbn [app char_item]. change (92 =? 92) with true. cbv iota.
      destruct (simple_esc_model _ _ He) as [-> _]. reflexivity.
  - exact (char_item_oct k nxt m cs ds Hcs Hl Hn Hv').
  - exact (char_item_hex k nxt m cs ds Hcs Hne Hn Hx1 Hx2 Hv').
  - exact (char_item_ucn k false nxt m cs ds Hcs Hl Hv').
  - exact (char_item_ucn k true nxt m cs ds Hcs Hl Hv').
Qed.

Theorem prefixed_char_literal_ext pre sp v : c_char_ext 39 sp v -> v < 128 ->
  pre = [117; 56] \/ pre = [117] \/ pre = [85] \/ pre = [76] ->
  char_literal_to_ll (pre ++ 39 :: sp ++ [39]) = Some (Z.of_N v).
Proof.
  intros Hc Hv Hp.
  destruct (c_char_ext_item _ sp v [] Hc) as (_ & _ & c0 & r0 & Esp & Hq & Hnl).
  assert (Hloop : forall k fuel, k <> CNarrow -> char_loop (S (S fuel)) k (sp ++ [39]) 0 0 = Some (v, 1, [39])).
  { intros k fuel Hk. pose proof (c_char_ext_item_any k 39 sp v [] Hc Hv) as Hitem. subst sp.
    cbn [app char_loop].
    assert (Hshape : exists y ys, r0 ++ [39] = y :: ys) by (destruct r0; cbn; eauto).
    destruct Hshape as (y & ys & Ey). rewrite Ey.
    assert (((c0 =? 39) || (c0 =? 10)) = false) as ->.
    { apply orb_false_iff; split; apply N.eqb_neq; assumption. }
    cbn [N.leb N.compare andb]. rewrite <- Ey. change (c0 :: r0 ++ [39]) with ((c0 :: r0) ++ [39]).
    rewrite Hitem.
    assert (item_too_large k v = false) as ->.
    { unfold item_too_large.
      assert ((255 <? v) = false) as -> by (apply N.ltb_ge; lia).
      assert (N.shiftr v 16 = 0) as ->.
      { rewrite N.shiftr_div_pow2. apply N.div_small. change (2 ^ 16) with 65536. lia. }
      assert (N.shiftr v 32 = 0) as ->.
      { rewrite N.shiftr_div_pow2. apply N.div_small. change (2 ^ 32) with 4294967296. lia. }
      rewrite !andb_false_r. reflexivity. }
    change (N.shiftl 0 8 mod TWO64) with 0. rewrite N.lor_0_l. reflexivity. }
  subst sp.
  destruct Hp as [ -> | [ -> | [ -> | -> ] ] ]; unfold char_literal_to_ll; cbn [app length];
    rewrite Hloop by discriminate; cbn [N.eqb Pos.eqb ckind_eqb andb]; reflexivity.
Qed.
