(* Decimal floating constants are accepted by isDecimalFloat (hence isFloat) and by none of the integer
   recognisers. Only the classification is claimed; toDoubleNumber is not modelled. *)
From CV Require Import Base.Bytes Lit.Defs Lit.Spec Lit.Proofs.
Require Import Lia ZifyBool.
Local Open Scope N_scope.

Lemma dd_digit c d : digit_char 10 c d ->
  is_digit c = true /\ ch_in c 101 69 = false /\ (c =? 46) = false /\ ch_in c 102 70 = false /\
  ch_in c 108 76 = false /\ (c =? 95) = false /\ is_sign c = false /\ ch_in c 120 88 = false /\ ch_in c 98 66 = false.
Proof.
  intros H. destruct (digit_char_10 _ _ H) as [Hd ->]. inversion H; subst; try lia.
  unfold ch_in, is_sign, ch_in. repeat split; try assumption;
    repeat match goal with |- context [?a =? ?b] => destruct (N.eqb_spec a b) end; try lia; reflexivity.
Qed.

(* digit loops of the decimal-float machine *)
Lemma dfs_base1_digits ds rest : dec_digits ds \/ ds = [] -> dfs_run DBase1 (ds ++ rest) = dfs_run DBase1 rest.
Proof.
  intros [H| ->]; [|reflexivity]. induction H as [c d Hc | c d cs Hc Hcs IH]; cbn [app dfs_run dfs_step];
    destruct (dd_digit _ _ Hc) as (Hd & He & Hdot & _); rewrite He, Hdot, Hd; [reflexivity | exact IH].
Qed.
Lemma dfs_base2_digits ds rest : dec_digits ds \/ ds = [] -> dfs_run DBase2 (ds ++ rest) = dfs_run DBase2 rest.
Proof.
  intros [H| ->]; [|reflexivity]. induction H as [c d Hc | c d cs Hc Hcs IH]; cbn [app dfs_run dfs_step];
    destruct (dd_digit _ _ Hc) as (Hd & He & Hdot & Hf & Hl & Hu & _); rewrite He, Hf, Hl, Hu, Hd; [reflexivity | exact IH].
Qed.
Lemma dfs_mant_digits ds rest : dec_digits ds \/ ds = [] -> dfs_run DMantDig (ds ++ rest) = dfs_run DMantDig rest.
Proof.
  intros [H| ->]; [|reflexivity]. induction H as [c d Hc | c d cs Hc Hcs IH]; cbn [app dfs_run dfs_step];
    destruct (dd_digit _ _ Hc) as (Hd & He & Hdot & Hf & Hl & Hu & _); rewrite Hf, Hl, Hd; [reflexivity | exact IH].
Qed.

Lemma dec_digits_cons ds : dec_digits ds -> exists c d r, ds = c :: r /\ digit_char 10 c d /\ (dec_digits r \/ r = []).
Proof. intros H. destruct H as [c d Hc | c d cs Hc Hcs]; [exists c, d, []; auto | exists c, d, cs; auto]. Qed.

Lemma sfx_final_ok st sfx : float_sfx sfx -> dfs_final st = true ->
  (st = DBase2 \/ st = DMantDig \/ st = DTrailDec) -> dfs_run st sfx = true.
Proof. intros Hs Hf [ -> | [ -> | -> ] ]; destruct Hs; reflexivity. Qed.

(* from E: sign? digits suffix *)
Lemma dfs_exp_tail ex sfx st : exp_part ex -> float_sfx sfx ->
  (st = DBase1 \/ st = DBase2 \/ st = DTrailDec) -> dfs_run st (ex ++ sfx) = true.
Proof.
  intros Hex Hs Hst.
  assert (Hstep : forall e, e = 101 \/ e = 69 -> dfs_step st e = Some DE).
  { intros e [ -> | -> ]; destruct Hst as [ -> | [ -> | -> ] ]; reflexivity. }
  destruct Hex as [e ds He Hds | e sg ds He Hsg Hds]; cbn [app dfs_run]; rewrite (Hstep e He);
    destruct (dec_digits_cons _ Hds) as (c & d & r & -> & Hc & Hr); destruct (dd_digit _ _ Hc) as (Hd & _ & _ & _ & _ & _ & Hsn & _).
  - cbn [app dfs_run dfs_step]. rewrite Hsn, Hd. rewrite (dfs_mant_digits r sfx Hr).
    apply sfx_final_ok; auto.
  - cbn [app dfs_run dfs_step].
    assert (is_sign sg = true) as -> by (destruct Hsg; subst; reflexivity).
    cbn [dfs_run dfs_step]. rewrite Hd. rewrite (dfs_mant_digits r sfx Hr). apply sfx_final_ok; auto.
Qed.

Lemma dfs_optexp_tail ex sfx st : opt_exp ex -> float_sfx sfx -> (st = DBase2 \/ st = DTrailDec) ->
  dfs_run st (ex ++ sfx) = true.
Proof.
  intros [|ex' Hex] Hs Hst.
  - cbn [app]. destruct Hst as [ -> | -> ]; apply sfx_final_ok; auto.
  - apply dfs_exp_tail; auto; destruct Hst; auto.
Qed.

Lemma skip_sign_digit c r d : digit_char 10 c d -> skip_sign (c :: r) = c :: r.
Proof. intros H. cbn [skip_sign]. destruct (dd_digit _ _ H) as (_ & _ & _ & _ & _ & _ & -> & _). reflexivity. Qed.

Theorem dec_float_accepted s : c_dec_float s -> is_decimal_float s = true.
Proof.
  intros H. destruct H as [ds1 ds2 ex sfx H1 H2 Hex Hs | ds1 ex sfx H1 Hex Hs | ds1 ex sfx H1 Hex Hs].
  - destruct (dec_digits_cons _ H2) as (c2 & d2 & r2 & -> & Hc2 & Hr2). destruct (dd_digit _ _ Hc2) as (Hd2 & _).
    destruct H1 as [H1 | ->].
    + destruct (dec_digits_cons _ H1) as (c & d & r & -> & Hc & Hr). destruct (dd_digit _ _ Hc) as (Hd & _ & Hdot & _).
      unfold is_decimal_float. cbn [app]. rewrite (skip_sign_digit c _ d Hc). cbn [dfs_run dfs_step]. rewrite Hdot, Hd.
      rewrite (dfs_base1_digits r _ Hr). cbn [dfs_run dfs_step N.eqb Pos.eqb ch_in orb]. cbn [app dfs_run dfs_step].
      destruct (dd_digit _ _ Hc2) as (_ & He2 & _ & Hf2 & Hl2 & Hu2 & _). rewrite He2, Hf2, Hl2, Hu2, Hd2.
      rewrite (dfs_base2_digits r2 _ Hr2). apply dfs_optexp_tail; auto.
    + unfold is_decimal_float. cbn [app skip_sign is_sign ch_in N.eqb Pos.eqb orb dfs_run dfs_step]. rewrite Hd2.
      rewrite (dfs_base2_digits r2 _ Hr2). apply dfs_optexp_tail; auto.
  - destruct (dec_digits_cons _ H1) as (c & d & r & -> & Hc & Hr). destruct (dd_digit _ _ Hc) as (Hd & _ & Hdot & _).
    unfold is_decimal_float. cbn [app]. rewrite (skip_sign_digit c _ d Hc). cbn [dfs_run dfs_step]. rewrite Hdot, Hd.
    rewrite (dfs_base1_digits r _ Hr). cbn [dfs_run dfs_step N.eqb Pos.eqb ch_in orb]. apply dfs_optexp_tail; auto.
  - destruct (dec_digits_cons _ H1) as (c & d & r & -> & Hc & Hr). destruct (dd_digit _ _ Hc) as (Hd & _ & Hdot & _).
    unfold is_decimal_float. cbn [app]. rewrite (skip_sign_digit c _ d Hc). cbn [dfs_run dfs_step]. rewrite Hdot, Hd.
    rewrite (dfs_base1_digits r _ Hr). apply dfs_exp_tail; auto.
Qed.

(* ---- no integer recogniser accepts a decimal floating constant *)
Definition stopper (x : N) : Prop := x = 46 \/ x = 101 \/ x = 69.

Lemma stopper_facts x : stopper x ->
  sfx_step true SStart x = None /\ is_digit x = false /\ is_octdigit x = false /\
  ch_in x 120 88 = false /\ ch_in x 98 66 = false.
Proof. intros [ -> | [ -> | -> ] ]; repeat split; reflexivity. Qed.

Lemma digit_no_suffix c d : digit_char 10 c d -> sfx_step true SStart c = None.
Proof.
  intros H. destruct (digit_char_10 _ _ H) as [_ ->]. inversion H; subst; try lia.
  assert (d = 0 \/ d = 1 \/ d = 2 \/ d = 3 \/ d = 4 \/ d = 5 \/ d = 6 \/ d = 7 \/ d = 8 \/ d = 9) by lia.
  repeat match goal with H : _ \/ _ |- _ => destruct H end; subst; reflexivity.
Qed.

Lemma suffix_false_of_step c r : sfx_step true SStart c = None -> is_valid_suffix true (c :: r) = false.
Proof. intros H. unfold is_valid_suffix. cbn [sfx_run]. rewrite H. reflexivity. Qed.

Lemma dec_digit_st_stop r x rest : dec_digits r \/ r = [] -> stopper x -> dec_digit_st (r ++ x :: rest) = false.
Proof.
  intros Hr Hx. destruct (stopper_facts x Hx) as (Hs & Hd & _).
  assert (Hbase : dec_digit_st (x :: rest) = false).
  { cbn [dec_digit_st]. rewrite Hd. apply suffix_false_of_step; assumption. }
  destruct Hr as [H | ->]; [|exact Hbase].
  induction H as [c d Hc | c d cs Hc Hcs IH]; cbn [app dec_digit_st];
    rewrite (proj1 (dd_digit _ _ Hc)); [exact Hbase | exact IH].
Qed.

Lemma oct_digit_st_stop r x rest : dec_digits r \/ r = [] -> stopper x -> oct_digit_st (r ++ x :: rest) = false.
Proof.
  intros Hr Hx. destruct (stopper_facts x Hx) as (Hs & _ & Ho & _).
  assert (Hbase : oct_digit_st (x :: rest) = false).
  { cbn [oct_digit_st]. rewrite Ho. apply suffix_false_of_step; assumption. }
  destruct Hr as [H | ->]; [|exact Hbase].
  induction H as [c d Hc | c d cs Hc Hcs IH]; cbn [app oct_digit_st]; destruct (is_octdigit c);
    try (apply suffix_false_of_step; exact (digit_no_suffix _ _ Hc)); [exact Hbase | exact IH].
Qed.

(* a digit, then digits, then '.', 'e' or 'E' *)
Lemma not_int_shape c d r x rest : digit_char 10 c d -> dec_digits r \/ r = [] -> stopper x ->
  is_int (c :: r ++ x :: rest) = false.
Proof.
  intros Hc Hr Hx. unfold is_int.
  destruct (dd_digit _ _ Hc) as (Hd & _ & _ & _ & _ & _ & Hsg & Hcx & Hcb).
  destruct (stopper_facts x Hx) as (_ & _ & Hox & Hxx & Hxb).
  assert (Hsk : skip_sign (c :: r ++ x :: rest) = c :: r ++ x :: rest) by (cbn [skip_sign]; rewrite Hsg; reflexivity).
  (* the second character and what follows *)
  assert (Hsnd : exists y t, r ++ x :: rest = y :: t /\ ch_in y 120 88 = false /\ ch_in y 98 66 = false /\
                             (is_octdigit y && oct_digit_st t = false)).
  { destruct Hr as [H | ->].
    - destruct (dec_digits_cons _ H) as (y & dy & t & -> & Hy & Ht).
      destruct (dd_digit _ _ Hy) as (_ & _ & _ & _ & _ & _ & _ & Hyx & Hyb).
      exists y, (t ++ x :: rest). repeat split; try assumption.
      rewrite (oct_digit_st_stop t x rest Ht Hx). apply andb_false_r.
    - exists x, rest. repeat split; try assumption. rewrite Hox. reflexivity. }
  destruct Hsnd as (y & t & E & Hyx & Hyb & Hyo).
  assert (E1 : is_dec (c :: r ++ x :: rest) = false).
  { unfold is_dec. rewrite Hsk, Hd. cbn [andb]. exact (dec_digit_st_stop r x rest Hr Hx). }
  assert (E2 : is_int_hex (c :: r ++ x :: rest) = false).
  { unfold is_int_hex. rewrite Hsk, E. destruct t; [reflexivity|]. rewrite Hyx. rewrite andb_false_r. reflexivity. }
  assert (E3 : is_oct (c :: r ++ x :: rest) = false).
  { unfold is_oct. rewrite Hsk, E. rewrite <- andb_assoc, Hyo. apply andb_false_r. }
  assert (E4 : is_bin (c :: r ++ x :: rest) = false).
  { unfold is_bin. rewrite Hsk, E. destruct t; [reflexivity|]. rewrite Hyb. rewrite andb_false_r. reflexivity. }
  rewrite E1, E2, E3, E4. reflexivity.
Qed.

Theorem dec_float_not_int s : c_dec_float s -> is_int s = false.
Proof.
  intros H. destruct H as [ds1 ds2 ex sfx H1 H2 Hex Hs | ds1 ex sfx H1 Hex Hs | ds1 ex sfx H1 Hex Hs].
  - destruct H1 as [H1 | ->].
    + destruct (dec_digits_cons _ H1) as (c & d & r & -> & Hc & Hr). cbn [app].
      apply (not_int_shape c d r 46 _ Hc Hr). left; reflexivity.
    + cbn [app]. unfold is_int, is_dec, is_int_hex, is_oct, is_bin.
      cbn [skip_sign is_sign ch_in N.eqb Pos.eqb orb].
      destruct (ds2 ++ ex ++ sfx) as [|a [|b r']]; reflexivity.
  - destruct (dec_digits_cons _ H1) as (c & d & r & -> & Hc & Hr). cbn [app].
    apply (not_int_shape c d r 46 _ Hc Hr). left; reflexivity.
  - destruct (dec_digits_cons _ H1) as (c & d & r & -> & Hc & Hr).
    destruct Hex as [e ds He Hds | e sg ds He Hsg Hds]; cbn [app];
      apply (not_int_shape c d r e _ Hc Hr); right; destruct He; subst; auto.
Qed.

Theorem dec_float_classified s : c_dec_float s ->
  is_float s = true /\ is_decimal_float s = true /\ is_int s = false.
Proof.
  intros H. pose proof (dec_float_accepted s H) as E. unfold is_float. rewrite E.
  repeat split. exact (dec_float_not_int s H).
Qed.
