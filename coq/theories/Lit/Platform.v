(* Platform tables (lib/platform.h): the record that Gen_Platforms.v instantiates
   (one entry per `case Type::X` of Platform::set and per platforms/*.xml). *)
From CV Require Import Base.Bytes.
Local Open Scope N_scope.

Record platform := mkPlatform {
  p_name : str;
  p_char_bit : N;
  p_bool : N; p_short : N; p_int : N; p_long : N; p_longlong : N;
  p_float : N; p_double : N; p_longdouble : N;
  p_wchar : N; p_size_t : N; p_pointer : N;
  p_sign : N                         (* defaultSign: 's' = 115, 'u' = 117 *)
}.

Definition short_bit p := p_char_bit p * p_short p.
Definition int_bit p := p_char_bit p * p_int p.
Definition long_bit p := p_char_bit p * p_long p.
Definition longlong_bit p := p_char_bit p * p_longlong p.

Fixpoint find_platform (name : str) (l : list platform) : option platform :=
  match l with
  | [] => None
  | p :: r => if str_eqb (p_name p) name then Some p else find_platform name r
  end.

Definition platform_fields (p : platform) : list N :=
  [p_char_bit p; p_bool p; p_short p; p_int p; p_long p; p_longlong p; p_float p; p_double p;
   p_longdouble p; p_wchar p; p_size_t p; p_pointer p; p_sign p].

(* what the value and type theorems need from a table entry: 8-bit bytes, the integer types
   ordered by size, int >= 16 bits, long >= 32 bits, nothing wider than the 64-bit bigint,
   every size positive, a definite char signedness *)
Definition platform_sane (p : platform) : bool :=
  (p_char_bit p =? 8) &&
  (1 <=? p_bool p) && (2 <=? p_short p) && (p_short p <=? p_int p) && (p_int p <=? p_long p) &&
  (p_long p <=? p_longlong p) && (p_longlong p <=? 8) && (4 <=? p_long p) &&
  (1 <=? p_float p) && (p_float p <=? p_double p) && (p_double p <=? p_longdouble p) &&
  (1 <=? p_wchar p) && (p_wchar p <=? 8) && (2 <=? p_size_t p) && (p_size_t p <=? 8) &&
  (2 <=? p_pointer p) && (p_pointer p <=? 8) &&
  ((p_sign p =? 115) || (p_sign p =? 117)).

(* ValueType::getSizeOf for the scalar types (lib/symboldatabase.cpp) *)
Inductive sztype := TBool | TChar | TShort | TWchar | TInt | TLong | TLongLong | TFloat | TDouble | TLongDouble | TPointer | TSizeT.
Definition sizeof_type (p : platform) (t : sztype) : N :=
  match t with
  | TBool | TChar => 1
  | TShort => p_short p | TWchar => p_wchar p | TInt => p_int p | TLong => p_long p
  | TLongLong => p_longlong p | TFloat => p_float p | TDouble => p_double p
  | TLongDouble => p_longdouble p | TPointer => p_pointer p | TSizeT => p_size_t p
  end.

(* the value of a one-character narrow literal with byte value v on platform p (ISO C 6.4.4.4p10:
   the value of a char object holding v, converted to int) *)
Definition char_value_on (p : platform) (v : N) : Z :=
  if p_sign p =? 117 then Z.of_N (v mod 256)
  else if v mod 256 <? 128 then Z.of_N (v mod 256) else (Z.of_N (v mod 256) - 256)%Z.
