(* Facts about the regenerated platform table (finite: the table is rewritten from the source on every run). *)
From CV Require Import Base.Bytes Lit.Platform Lit.Gen_Platforms.
Local Open Scope N_scope.

Lemma gen_platforms_sane : forallb platform_sane Gen_platforms = true.
Proof. vm_compute. reflexivity. Qed.

Lemma gen_platforms_nonempty : (5 <=? N.of_nat (length Gen_platforms)) = true.
Proof. vm_compute. reflexivity. Qed.

(* consequences of platform_sane used by the value/type theorems, for an arbitrary record *)
Lemma sane_bits p : platform_sane p = true ->
  16 <= short_bit p /\ short_bit p <= int_bit p /\ int_bit p <= long_bit p /\
  long_bit p <= longlong_bit p /\ longlong_bit p <= 64 /\ 32 <= long_bit p.
Proof.
  unfold platform_sane, short_bit, int_bit, long_bit, longlong_bit.
  repeat rewrite andb_true_iff. intros H.
  repeat match goal with H : _ /\ _ |- _ => destruct H end.
  repeat match goal with
         | H : (_ =? _) = true |- _ => apply N.eqb_eq in H
         | H : (_ <=? _) = true |- _ => apply N.leb_le in H
         end.
  rewrite H. lia.
Qed.

Lemma sizeof_positive p t : platform_sane p = true -> 1 <= sizeof_type p t.
Proof.
  unfold platform_sane. repeat rewrite andb_true_iff. intros H.
  repeat match goal with H : _ /\ _ |- _ => destruct H end.
  repeat match goal with
         | H : (_ =? _) = true |- _ => apply N.eqb_eq in H
         | H : (_ <=? _) = true |- _ => apply N.leb_le in H
         end.
  destruct t; cbn [sizeof_type]; lia.
Qed.
