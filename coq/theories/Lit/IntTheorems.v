(* Integer literals: every literal of the grammar is classified by the branch of its base and
   converted to its value (or rejected when the value needs more than 64 bits). *)
From CV Require Import Base.Bytes Lit.Defs Lit.Spec Lit.Proofs.
Require Import Lia ZifyBool.
Local Open Scope N_scope.

(* generalisation of strtoull_digits: a first character that is neither space nor sign, and a known prefix strip *)
Lemma strtoull_lit b h t npre c d cs ds sfx :
  is_space h = false -> is_sign h = false ->
  strip_prefix b (h :: t) = (c :: cs ++ sfx, npre) ->
  digit_char b c d -> digit_seq b cs ds -> b <= 16 -> sfx_ok sfx = true ->
  let v := value_of_digits b (d :: ds) in
  let n := npre + N.of_nat (length (d :: ds)) in
  strtoull b (h :: t) = if TWO64 <=? v then mkStrto n true (TWO64 - 1) else mkStrto n false v.
Proof.
  intros Hsp Hsg Hp Hc Hcs Hb Hs v n. unfold strtoull.
  rewrite (skip_ws_nonspace _ _ Hsp), (strip_sign_nonsign _ _ Hsg), Hp.
  assert (Hd : digit_seq b (c :: cs) (d :: ds)) by (constructor; assumption).
  change (c :: cs ++ sfx) with ((c :: cs) ++ sfx).
  rewrite (digits_acc_spec b _ _ sfx Hd Hb).
  2:{ destruct sfx as [|x r]; [exact I|]. apply sfx_ok_cons in Hs. tauto. }
  fold v. replace (0 * b ^ N.of_nat (length (d :: ds)) + v) with v by lia.
  destruct (N.eqb_spec (0 + N.of_nat (length (d :: ds))) 0) as [E|E]; [cbn [length] in E; lia|].
  subst n. destruct (TWO64 <=? v); f_equal; lia.
Qed.

Lemma stoull_val_lit b h t npre c d cs ds sfx :
  is_space h = false -> is_sign h = false ->
  strip_prefix b (h :: t) = (c :: cs ++ sfx, npre) ->
  digit_char b c d -> digit_seq b cs ds -> b <= 16 -> sfx_ok sfx = true ->
  let v := value_of_digits b (d :: ds) in
  stoull_val b (h :: t) = if TWO64 <=? v then inr 1 else inl v.
Proof.
  intros Hsp Hsg Hp Hc Hcs Hb Hs v. unfold stoull_val.
  rewrite (strtoull_lit b h t npre c d cs ds sfx Hsp Hsg Hp Hc Hcs Hb Hs). fold v.
  destruct (TWO64 <=? v); cbn [st_used st_range st_val];
    (destruct (N.eqb_spec (npre + N.of_nat (length (d :: ds))) 0) as [E|E]; [cbn [length] in E; lia | reflexivity]).
Qed.

Lemma zero_char : digit_char 8 48 0.
Proof. change 48 with (48 + 0). constructor; lia. Qed.
Lemma zero_char10 : digit_char 10 48 0.
Proof. change 48 with (48 + 0). constructor; lia. Qed.

Lemma space_sign_48 : is_space 48 = false /\ is_sign 48 = false.
Proof. split; reflexivity. Qed.

(* ---- the binary loop *)
Lemma bin_loop_spec cs ds sfx : digit_seq 2 cs ds -> sfx_ok sfx = true ->
  forall a, bin_loop (cs ++ sfx) (a mod TWO64) = (a * 2 ^ N.of_nat (length ds) + value_of_digits 2 ds) mod TWO64.
Proof.
  intros H Hs. induction H; intros a.
  - cbn [app length value_of_digits]. rewrite N.pow_0_r, N.mul_1_r, N.add_0_r.
    destruct sfx as [|c r]; [reflexivity|]. apply sfx_ok_cons in Hs as (_ & Hx & _).
    cbn [bin_loop]. rewrite (not_xdigit_not_bin _ Hx). reflexivity.
  - cbn [app bin_loop]. destruct (digit_char_2 _ _ H) as [-> ->].
    assert (E : (a mod TWO64 * 2 + d) mod TWO64 = (a * 2 + d) mod TWO64).
    { rewrite <- N.add_mod_idemp_l by (unfold TWO64; lia).
      rewrite N.mul_mod_idemp_l by (unfold TWO64; lia).
      rewrite N.add_mod_idemp_l by (unfold TWO64; lia). reflexivity. }
    rewrite E, IHdigit_seq. cbn [length value_of_digits]. rewrite Nat2N.inj_succ, N.pow_succ_r'.
    f_equal. lia.
Qed.

(* ---- classification of each shape *)
Section Shapes.
  Variables (sfx : str).
  Hypothesis Hs : sfx_ok sfx = true.

  Lemma hex_shape x c d cs ds : (x = 120 \/ x = 88) -> digit_char 16 c d -> digit_seq 16 cs ds ->
    let s := 48 :: x :: c :: cs ++ sfx in
    is_int_hex s = true /\ is_oct s = false /\ is_bin s = false /\ is_float s = false /\ is_char_literal s = false.
  Proof.
    intros Hx Hc Hcs s.
    assert (Hxx : ch_in x 120 88 = true) by (destruct Hx; subst; reflexivity).
    assert (Hxo : is_octdigit x = false) by (destruct Hx; subst; reflexivity).
    assert (Hxb : ch_in x 98 66 = false) by (destruct Hx; subst; reflexivity).
    repeat split.
    - unfold s, is_int_hex. cbn [skip_sign is_sign ch_in N.eqb Pos.eqb orb].
      rewrite Hxx, (digit_char_16 _ _ Hc), (hex_digit_st_ok _ _ _ Hcs Hs). reflexivity.
    - unfold s, is_oct. cbn [skip_sign is_sign ch_in N.eqb Pos.eqb orb]. rewrite Hxo. reflexivity.
    - unfold s, is_bin. cbn [skip_sign is_sign ch_in N.eqb Pos.eqb orb]. rewrite Hxb. reflexivity.
    - unfold is_float, is_decimal_float, is_float_hex, s.
      cbn [skip_sign is_sign ch_in N.eqb Pos.eqb orb].
      assert (dfs_run DStart (48 :: x :: c :: cs ++ sfx) = false) as ->.
      { cbn [dfs_run dfs_step N.eqb Pos.eqb]. change (is_digit 48) with true. cbn iota.
        destruct Hx; subst; reflexivity. }
      cbn [orb hfs_run hfs_step N.eqb Pos.eqb]. rewrite Hxx. cbn [hfs_run hfs_step].
      rewrite (digit_char_16 _ _ Hc).
      clear Hc. induction Hcs as [|c' d' cs' ds' Hc' Hcs' IH]; cbn [app].
      + destruct sfx as [|y r]; [reflexivity|]. apply sfx_ok_cons in Hs as (_ & Hy & _ & Hdot & Hp & _).
        cbn [hfs_run hfs_step]. rewrite Hy. destruct (N.eqb_spec y 46); [contradiction|]. rewrite Hp. reflexivity.
      + cbn [hfs_run hfs_step]. rewrite (digit_char_16 _ _ Hc'). exact IH.
    - apply no_quote_not_charlit. unfold s. intros [E|[E|[E|E]]]; try discriminate.
      + destruct Hx; subst; discriminate.
      + subst. apply digit_char_range in Hc; lia.
      + apply in_app_or in E as [E|E]; [exact (digit_seq_no_quote _ _ _ Hcs ltac:(lia) E) | exact (sfx_ok_no_quote _ Hs E)].
  Qed.

  Lemma no_quote_digits b c d cs ds (pre : str) :
    digit_char b c d -> digit_seq b cs ds -> b <= 16 -> ~ In 39 pre -> ~ In 39 (pre ++ c :: cs ++ sfx).
  Proof.
    intros Hc Hcs Hb Hp E. apply in_app_or in E as [E|[E|E]]; [contradiction| |].
    - subst. apply digit_char_range in Hc; lia.
    - apply in_app_or in E as [E|E]; [exact (digit_seq_no_quote _ _ _ Hcs Hb E) | exact (sfx_ok_no_quote _ Hs E)].
  Qed.

  Lemma oct_shape c d cs ds : digit_char 8 c d -> digit_seq 8 cs ds ->
    let s := 48 :: c :: cs ++ sfx in
    is_int_hex s = false /\ is_oct s = true /\ is_bin s = false /\ is_float s = false /\ is_char_literal s = false
    /\ is_dec s = true.
  Proof.
    intros Hc Hcs s. destruct (digit_char_8 _ _ Hc) as [Ho Hd].
    assert (Hnx : ch_in c 120 88 = false /\ ch_in c 98 66 = false /\ ch_in c 101 69 = false /\ (c =? 46) = false).
    { apply digit_char_range in Hc; [|lia]. revert Ho. unfold is_octdigit, ch_in.
      repeat split; bdestruct_all; cbn [andb orb]; try reflexivity; try discriminate; lia. }
    destruct Hnx as (Hx & Hb & He & Hdot).
    repeat split.
    - unfold s, is_int_hex. cbn [skip_sign is_sign ch_in N.eqb Pos.eqb orb].
      destruct (cs ++ sfx); cbn [andb]; [reflexivity|]. rewrite Hx. reflexivity.
    - unfold s, is_oct. cbn [skip_sign is_sign ch_in N.eqb Pos.eqb orb].
      rewrite Ho, (oct_digit_st_ok _ _ _ Hcs Hs). reflexivity.
    - unfold s, is_bin. cbn [skip_sign is_sign ch_in N.eqb Pos.eqb orb].
      destruct (cs ++ sfx); cbn [andb]; [reflexivity|]. rewrite Hb. reflexivity.
    - unfold is_float, is_decimal_float, is_float_hex, s.
      cbn [skip_sign is_sign ch_in N.eqb Pos.eqb orb].
      assert (dfs_run DStart (48 :: c :: cs ++ sfx) = false) as ->.
      { cbn [dfs_run dfs_step N.eqb Pos.eqb]. change (is_digit 48) with true. cbn iota.
        cbn [dfs_step]. rewrite He, Hdot, Hd. exact (dfs_base1_false _ _ _ (digit_seq_8_10 _ _ Hcs) Hs). }
      cbn [orb hfs_run hfs_step N.eqb Pos.eqb]. rewrite Hx. reflexivity.
    - apply no_quote_not_charlit. unfold s. apply (no_quote_digits 8 c d cs ds [48]); auto; try lia.
      intros [E|[]]; discriminate.
    - unfold s, is_dec. cbn [skip_sign is_sign ch_in N.eqb Pos.eqb orb]. change (is_digit 48) with true.
      cbn [andb dec_digit_st]. rewrite Hd. exact (dec_digit_st_oct _ _ _ Hcs Hs).
  Qed.

  (* "0" suffix: handled by the decimal branch *)
  Lemma zero_shape :
    let s := 48 :: sfx in
    is_int_hex s = false /\ is_oct s = false /\ is_bin s = false /\ is_float s = false /\ is_char_literal s = false
    /\ is_dec s = true.
  Proof.
    intros s. unfold s.
    destruct sfx as [|y r] eqn:Esfx.
    - vm_compute. repeat split; reflexivity.
    - destruct (sfx_ok_cons _ _ Hs) as (Hv & Hy & _ & Hdot & Hp & _ & _ & Hx).
      assert (Ho : is_octdigit y = false) by (apply not_xdigit_not_oct; assumption).
      assert (Hd : is_digit y = false) by (apply not_xdigit_not_digit; assumption).
      assert (Hb : ch_in y 98 66 = false).
      { revert Hy. unfold is_xdigit, is_digit, ch_in. bdestruct_all; cbn [andb orb]; try reflexivity; try discriminate; lia. }
      assert (He : ch_in y 101 69 = false).
      { revert Hy. unfold is_xdigit, is_digit, ch_in. bdestruct_all; cbn [andb orb]; try reflexivity; try discriminate; lia. }
      repeat split.
      + unfold is_int_hex. cbn [skip_sign is_sign ch_in N.eqb Pos.eqb orb].
        destruct r; [reflexivity|]. fold (ch_in y 120 88). rewrite Hx. reflexivity.
      + unfold is_oct. cbn [skip_sign is_sign ch_in N.eqb Pos.eqb orb]. rewrite Ho. reflexivity.
      + unfold is_bin. cbn [skip_sign is_sign ch_in N.eqb Pos.eqb orb].
        destruct r; [reflexivity|]. fold (ch_in y 98 66). rewrite Hb. reflexivity.
      + unfold is_float, is_decimal_float, is_float_hex.
        cbn [skip_sign is_sign ch_in N.eqb Pos.eqb orb].
        cbn [dfs_run dfs_step hfs_run hfs_step N.eqb Pos.eqb]. change (is_digit 48) with true. cbn iota.
        cbn [dfs_step]. rewrite He, Hx, Hd. destruct (N.eqb_spec y 46); [contradiction|]. reflexivity.
      + apply no_quote_not_charlit. intros [E|E]; [discriminate|].
        exact (sfx_ok_no_quote _ Hs E).
      + unfold is_dec. cbn [skip_sign is_sign ch_in N.eqb Pos.eqb orb]. change (is_digit 48) with true.
        cbn [andb dec_digit_st]. rewrite Hd. exact Hv.
  Qed.

  Lemma bin_shape x c d cs ds : (x = 98 \/ x = 66) -> digit_char 2 c d -> digit_seq 2 cs ds ->
    let s := 48 :: x :: c :: cs ++ sfx in
    is_int_hex s = false /\ is_oct s = false /\ is_bin s = true /\ is_float s = false /\ is_char_literal s = false.
  Proof.
    intros Hx Hc Hcs s.
    repeat split.
    - unfold s, is_int_hex. cbn [skip_sign is_sign ch_in N.eqb Pos.eqb orb]. destruct Hx; subst; reflexivity.
    - unfold s, is_oct. cbn [skip_sign is_sign ch_in N.eqb Pos.eqb orb]. destruct Hx; subst; reflexivity.
    - unfold s, is_bin. cbn [skip_sign is_sign ch_in N.eqb Pos.eqb orb].
      destruct (digit_char_2 _ _ Hc) as [-> _]. rewrite (bin_digit_st_ok _ _ _ Hcs Hs).
      destruct Hx; subst; reflexivity.
    - unfold is_float, is_decimal_float, is_float_hex, s.
      cbn [skip_sign is_sign ch_in N.eqb Pos.eqb orb].
      destruct Hx; subst; reflexivity.
    - apply no_quote_not_charlit. unfold s. apply (no_quote_digits 2 c d cs ds [48; x]); auto; try lia.
      intros [E|[E|[]]]; [discriminate|]. destruct Hx; subst; discriminate.
  Qed.

  Lemma dec_shape c d cs ds : digit_char 10 c d -> d <> 0 -> digit_seq 10 cs ds ->
    let s := c :: cs ++ sfx in
    is_int_hex s = false /\ is_oct s = false /\ is_bin s = false /\ is_float s = false /\ is_char_literal s = false
    /\ is_dec s = true.
  Proof.
    intros Hc Hd0 Hcs s. destruct (digit_char_10 _ _ Hc) as [Hd Ec].
    assert (Hn0 : (c =? 48) = false) by (apply N.eqb_neq; lia).
    assert (Hsg : is_sign c = false) by (apply (digit_not_space 10 c d Hc); lia).
    assert (Hsk : skip_sign s = s) by (unfold s; cbn [skip_sign]; rewrite Hsg; reflexivity).
    repeat split.
    - unfold is_int_hex. rewrite Hsk. unfold s. destruct (cs ++ sfx) as [|a [|b r]]; try reflexivity. rewrite Hn0. reflexivity.
    - unfold is_oct. rewrite Hsk. unfold s. destruct (cs ++ sfx) as [|a r]; try reflexivity. rewrite Hn0. reflexivity.
    - unfold is_bin. rewrite Hsk. unfold s. destruct (cs ++ sfx) as [|a [|b r]]; try reflexivity. rewrite Hn0. reflexivity.
    - unfold is_float, is_decimal_float, is_float_hex. rewrite Hsk. unfold s.
      cbn [dfs_run dfs_step hfs_run hfs_step]. rewrite Hn0, Hd.
      assert ((c =? 46) = false) as -> by (apply N.eqb_neq; lia).
      rewrite (dfs_base1_false _ _ _ Hcs Hs). reflexivity.
    - apply no_quote_not_charlit. unfold s. apply (no_quote_digits 10 c d cs ds []); auto; lia.
    - unfold is_dec. rewrite Hsk. unfold s. rewrite Hd. exact (dec_digit_st_ok _ _ _ Hcs Hs).
  Qed.
End Shapes.

(* ---- the result of toBigNumber / toBigUNumber on a literal of the grammar *)
Definition lit_result (signed : bool) (b : base) (v : N) : res :=
  if TWO64 <=? v then
    match b with
    | B2 => RVal (if signed then wrap64s v else Z.of_N (v mod TWO64))    (* the binary loop never rejects *)
    | _ => RErr 1
    end
  else RVal (if signed then wrap64s v else Z.of_N v).

Lemma out_of_stoull (signed : bool) (v : N) :
  match (if TWO64 <=? v then inr 1 else inl v : N + N) with
  | inl x => RVal (if signed then wrap64s x else Z.of_N x)
  | inr k => RErr k
  end = if TWO64 <=? v then RErr 1 else RVal (if signed then wrap64s v else Z.of_N v).
Proof. destruct (TWO64 <=? v); reflexivity. Qed.

Lemma to_big_literal signed s b v : c_int_literal s b v -> to_big signed s = lit_result signed b v.
Proof.
  intros H. inversion H as [c d cs ds sfx Hc Hd0 Hcs Hsf | cs ds sfx Hcs Hsf
                            | x c d cs ds sfx Hx Hc Hcs Hsf | x c d cs ds sfx Hx Hc Hcs Hsf]; subst;
    pose proof (int_suffix_ok _ Hsf) as Hs.
  - (* decimal *)
    destruct (dec_shape sfx Hs c d cs ds Hc Hd0 Hcs) as (H1 & H2 & H3 & H4 & H5 & _).
    unfold to_big. rewrite H1, H2, H3, H4, H5.
    destruct (digit_not_space 10 c d Hc ltac:(lia)) as [Hsp Hsg].
    rewrite (strtoull_lit 10 c (cs ++ sfx) 0 c d cs ds sfx Hsp Hsg (strip_prefix_non16 10 _ eq_refl) Hc Hcs ltac:(lia) Hs).
    unfold lit_result. set (v := value_of_digits 10 (d :: ds)).
    destruct (TWO64 <=? v) eqn:E; cbn [st_used st_range st_val].
    + destruct (N.eqb_spec (0 + N.of_nat (length (d :: ds))) 0) as [E0|E0]; [cbn [length] in E0; lia | reflexivity].
    + destruct (N.eqb_spec (0 + N.of_nat (length (d :: ds))) 0) as [E0|E0]; [cbn [length] in E0; lia |].
      replace (N.to_nat (0 + N.of_nat (length (d :: ds)))) with (length (c :: cs)).
      2:{ cbn [length]. rewrite (digit_seq_length _ _ _ Hcs). lia. }
      change (c :: cs ++ sfx) with ((c :: cs) ++ sfx). rewrite drop_app_length.
      destruct sfx as [|y r]; [reflexivity|]. apply sfx_ok_cons in Hs as (Hv & _). cbn iota. rewrite Hv. reflexivity.
  - (* octal *)
    destruct Hcs as [|c d cs ds Hc Hcs].
    + (* "0" suffix : the decimal branch *)
      destruct (zero_shape sfx Hs) as (H1 & H2 & H3 & H4 & H5 & _). cbn [app].
      unfold to_big. rewrite H1, H2, H3, H4, H5.
      rewrite (strtoull_lit 10 48 sfx 0 48 0 [] [] sfx eq_refl eq_refl (strip_prefix_non16 10 _ eq_refl) zero_char10
                 (DS_nil 10) ltac:(lia) Hs).
      cbn [value_of_digits length]. unfold lit_result.
      change (TWO64 <=? 0 * 10 ^ N.of_nat 0 + 0) with false. change (TWO64 <=? 0) with false.
      cbn [st_used st_range st_val]. cbn [N.add N.of_nat Pos.of_succ_nat N.eqb N.to_nat Pos.to_nat Pos.iter_op Nat.add drop].
      destruct sfx as [|y r]; [reflexivity|]. apply sfx_ok_cons in Hs as (Hv & _).
      change (drop (Pos.to_nat 1) (48 :: y :: r)) with (y :: r). cbn iota. rewrite Hv. reflexivity.
    + destruct (oct_shape sfx Hs c d cs ds Hc Hcs) as (H1 & H2 & _). cbn [app].
      unfold to_big. rewrite H1, H2.
      assert (Hd : digit_seq 8 (c :: cs) (d :: ds)) by (constructor; assumption).
      rewrite (stoull_val_lit 8 48 (c :: cs ++ sfx) 0 48 0 (c :: cs) (d :: ds) sfx eq_refl eq_refl
                 (strip_prefix_non16 8 _ eq_refl) zero_char Hd ltac:(lia) Hs).
      rewrite value_of_digits_zero. rewrite out_of_stoull. unfold lit_result.
      destruct (TWO64 <=? value_of_digits 8 (d :: ds)); reflexivity.
  - (* hex *)
    destruct (hex_shape sfx Hs x c d cs ds Hx Hc Hcs) as (H1 & _).
    unfold to_big. rewrite H1.
    assert (Hp : strip_prefix 16 (48 :: x :: c :: cs ++ sfx) = (c :: cs ++ sfx, 2)).
    { cbn [strip_prefix N.eqb Pos.eqb andb]. rewrite (digit_char_in 16 c d Hc ltac:(lia)).
      destruct Hx; subst; reflexivity. }
    rewrite (stoull_val_lit 16 48 (x :: c :: cs ++ sfx) 2 c d cs ds sfx eq_refl eq_refl Hp Hc Hcs ltac:(lia) Hs).
    rewrite out_of_stoull. unfold lit_result.
    destruct (TWO64 <=? value_of_digits 16 (d :: ds)); reflexivity.
  - (* binary *)
    destruct (bin_shape sfx Hs x c d cs ds Hx Hc Hcs) as (H1 & H2 & H3 & _).
    unfold to_big. rewrite H1, H2, H3.
    assert (Hd : digit_seq 2 (c :: cs) (d :: ds)) by (constructor; assumption).
    assert (Hv : bin_value (48 :: x :: c :: cs ++ sfx) = value_of_digits 2 (d :: ds) mod TWO64).
    { unfold bin_value. cbn [N.eqb Pos.eqb drop]. change (c :: cs ++ sfx) with ((c :: cs) ++ sfx).
      change 0 with (0 mod TWO64) at 1. rewrite (bin_loop_spec _ _ _ Hd Hs). f_equal; lia. }
    rewrite Hv. unfold lit_result. set (v := value_of_digits 2 (d :: ds)).
    assert (Hw : wrap64s (v mod TWO64) = wrap64s v).
    { unfold wrap64s. rewrite N.mod_mod by (unfold TWO64; lia). reflexivity. }
    destruct (N.leb_spec TWO64 v) as [E|E].
    + destruct signed; [rewrite Hw|]; reflexivity.
    + rewrite (N.mod_small v TWO64 E). reflexivity.
Qed.

Theorem to_bignumber_value s b v : c_int_literal s b v -> v < TWO64 ->
  to_bignumber s = RVal (wrap64s v) /\ to_bigunumber s = RVal (Z.of_N v).
Proof.
  intros H Hv. unfold to_bignumber, to_bigunumber. rewrite !(to_big_literal _ s b v H). unfold lit_result.
  destruct (N.leb_spec TWO64 v); [lia|]. split; reflexivity.
Qed.

Theorem to_bignumber_rejects s b v : c_int_literal s b v -> TWO64 <= v -> b <> B2 ->
  to_bignumber s = RErr 1 /\ to_bigunumber s = RErr 1.
Proof.
  intros H Hv Hb. unfold to_bignumber, to_bigunumber. rewrite !(to_big_literal _ s b v H). unfold lit_result.
  destruct (N.leb_spec TWO64 v); [|lia]. destruct b; try contradiction; split; reflexivity.
Qed.

Theorem to_bignumber_binary_wraps s v : c_int_literal s B2 v ->
  to_bignumber s = RVal (wrap64s v) /\ to_bigunumber s = RVal (Z.of_N (v mod TWO64)).
Proof.
  intros H. unfold to_bignumber, to_bigunumber. rewrite !(to_big_literal _ s B2 v H). unfold lit_result.
  destruct (N.leb_spec TWO64 v) as [E|E]; split; try reflexivity. rewrite (N.mod_small v TWO64 E). reflexivity.
Qed.

(* wrap64s is the two's complement reading: the literal's value when it fits in a signed 64-bit integer *)
Lemma wrap64s_small v : v < 9223372036854775808 -> wrap64s v = Z.of_N v.
Proof.
  intros H. unfold wrap64s. rewrite N.mod_small by (unfold TWO64; lia).
  destruct (N.ltb_spec v 9223372036854775808); [reflexivity | lia].
Qed.

Lemma wrap64s_congr v : v < TWO64 -> (wrap64s v mod Z.of_N TWO64)%Z = Z.of_N v.
Proof.
  intros H. unfold wrap64s. rewrite N.mod_small by assumption.
  destruct (N.ltb_spec v 9223372036854775808).
  - rewrite Z.mod_small; unfold TWO64 in *; lia.
  - replace (Z.of_N v - Z.of_N TWO64)%Z with (Z.of_N v + (-1) * Z.of_N TWO64)%Z by lia.
    rewrite Z.mod_add by (unfold TWO64; lia). rewrite Z.mod_small; unfold TWO64 in *; lia.
Qed.

(* ---- classification *)
Theorem classify_literal s b v : c_int_literal s b v ->
  is_int s = true /\ is_float s = false /\ is_char_literal s = false /\
  is_int_hex s = (match b with B16 => true | _ => false end) /\
  is_bin s = (match b with B2 => true | _ => false end) /\
  (is_oct s = true -> b = B8) /\
  branch_of s = (match b with
                 | B16 => BrHex | B2 => BrBin | B10 => BrDec
                 | B8 => if is_oct s then BrOct else BrDec
                 end) /\
  (b = B8 -> is_oct s = false -> v = 0).
Proof.
  intros H. inversion H as [c d cs ds sfx Hc Hd0 Hcs Hsf | cs ds sfx Hcs Hsf
                            | x c d cs ds sfx Hx Hc Hcs Hsf | x c d cs ds sfx Hx Hc Hcs Hsf]; subst;
    pose proof (int_suffix_ok _ Hsf) as Hs.
  - destruct (dec_shape sfx Hs c d cs ds Hc Hd0 Hcs) as (H1 & H2 & H3 & H4 & H5 & H6).
    unfold is_int, branch_of. rewrite H1, H2, H3, H4, H5, H6. repeat split; try reflexivity; try discriminate.
  - destruct Hcs as [|c d cs ds Hc Hcs].
    + destruct (zero_shape sfx Hs) as (H1 & H2 & H3 & H4 & H5 & H6). cbn [app].
      unfold is_int, branch_of. rewrite H1, H2, H3, H4, H5, H6. repeat split; try reflexivity; try discriminate.
    + destruct (oct_shape sfx Hs c d cs ds Hc Hcs) as (H1 & H2 & H3 & H4 & H5 & H6). cbn [app].
      unfold is_int, branch_of. rewrite H1, H2, H3, H4, H5, H6. repeat split; try reflexivity; try discriminate.
  - destruct (hex_shape sfx Hs x c d cs ds Hx Hc Hcs) as (H1 & H2 & H3 & H4 & H5).
    unfold is_int, branch_of. rewrite H1, H2, H3, H4, H5. rewrite orb_true_r. repeat split; try reflexivity; try discriminate.
  - destruct (bin_shape sfx Hs x c d cs ds Hx Hc Hcs) as (H1 & H2 & H3 & H4 & H5).
    unfold is_int, branch_of. rewrite H1, H2, H3, H4, H5. rewrite orb_true_r. repeat split; try reflexivity; try discriminate.
Qed.
