(* Entry point of the extracted executable for C21: the parent's state machine run
   under a fair schedule on workers described by their findings and their fault. *)
From CV Require Import Base.Bytes Base.Glob Supp.Run Par.Gen_Severity Par.Defs Proc.Defs.
Local Open Scope N_scope.

(* a worker: mode (0 fault free, 1 signal, 2 exit code, 3 dies inside the next record),
   k = number of findings sent before the fault, code = signal number / exit status,
   res = CHILD_END result, findings = the message texts *)
Record worker := mkW { w_mode : N; w_k : N; w_code : N; w_res : N; w_texts : list str }.

Definition take_worker (l : list str) : option (worker * list str) :=
  match l with
  | mode :: k :: code :: res :: r =>
      match take_list take_str r with
      | Some (ts, r') => Some (mkW (nd mode) (nd k) (nd code) (nd res) ts, r')
      | None => None
      end
  | _ => None
  end.

Definition msg_of_text (t : str) : msg := mkMsg [120] sev_error 0 0 [] [] false t t [] [].
Definition frames_of (w : worker) : list (N * str) :=
  map (fun t => (SIG_REPORT_ERROR, serialize (msg_of_text t))) (w_texts w).

Definition stream_of (w : worker) : str :=
  let k := N.to_nat (w_k w) in
  match w_mode w with
  | 0 => full_stream (frames_of w) (w_res w)
  | 3 => torn_stream (frames_of w) (w_res w) k 3
  | _ => cut_stream (frames_of w) k
  end.

Definition status_of (w : worker) : cstat :=
  match w_mode w with
  | 0 => ExitOk
  | 1 => Signal (w_code w)
  | _ => ExitCode (w_code w)
  end.

Definition nth_worker (ws : list worker) (f : N) : worker := nth (N.to_nat f) ws (mkW 0 0 0 0 []).

Fixpoint nseq (n : nat) (k : N) : list N := match n with O => [] | S n' => k :: nseq n' (k + 1) end.

Definition ev_out (e : ev) : str :=
  match e with
  | Finding f d => [70; 58] ++ dec_of_N f ++ 58 :: match deserialize (fun x => x) d with Ok m => m_short m | Err _ => [63] end
  | InternalErr f (Signal n) => [73; 58] ++ dec_of_N f ++ [58; 115; 58] ++ dec_of_N n
  | InternalErr f (ExitCode n) => [73; 58] ++ dec_of_N f ++ [58; 101; 58] ++ dec_of_N n
  | InternalErr f ExitOk => [73; 58] ++ dec_of_N f ++ [58; 111]
  | OutMsg f d => [79; 58] ++ dec_of_N f
  | SupprRec f d => [83; 58] ++ dec_of_N f
  | Metric f d => [77; 58] ++ dec_of_N f
  end.

Definition T_C21 : str := [99; 50; 49].   (* "c21" *)

(* c21 jobs reap_first nworkers worker... -> halted ("-" = ran to completion, "F" = fuel) , result>0, events oldest first *)
Definition run (fields : list str) : list str :=
  match fields with
  | tag :: jobs :: rf :: rest =>
      if tag_is tag T_C21 then
        match take_list take_worker rest with
        | Some (ws, _) =>
            let files := nseq (length ws) 0 in
            let stream := fun f => stream_of (nth_worker ws f) in
            let status := fun f => status_of (nth_worker ws f) in
            let st0 := init in
            let fuel := S (measure files stream st0) in
            let st := run_sched files (N.to_nat (nd jobs)) stream status (bool_of_str rf) fuel st0 in
            let h := match halted st with
                     | Some c => dec_of_N c
                     | None => if done files st then [] else [70]
                     end in
            h :: str_of_bool (0 <? result st) :: map ev_out (rev (log st))
        | None => BAD
        end
      else BAD
  | _ => BAD
  end.
