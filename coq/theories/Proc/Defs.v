(* C21: the parent side of the process executor (cli/processexecutor.cpp
   ProcessExecutor::check, handleRead, reportInternalChildErr) as an event-driven
   state machine.  Executable definitions only.

   Reads on the pipes are blocking and the worker's writes of the type byte and
   of the 4-byte length are atomic, so what the parent does with a pipe is a
   function of the byte stream the worker wrote before it ended; the
   environment chooses that stream and how the worker ended, and the order in
   which forks, pipe reads (select) and waitpid results happen. *)
From CV Require Import Base.Bytes Base.Glob Par.Gen_Severity Par.Defs.
Local Open Scope N_scope.

Inductive cstat := ExitOk | ExitCode (n : N) | Signal (n : N).   (* ExitCode n: n <> 0 *)

Definition bad_stat (c : cstat) : bool := match c with ExitOk => false | _ => true end.

(* what the parent hands to the error logger / adds to its counters *)
Inductive ev :=
| Finding (f : N) (data : str)        (* REPORT_ERROR: deserialised and passed to hasToLog/reportErr *)
| OutMsg (f : N) (data : str)         (* REPORT_OUT *)
| SupprRec (f : N) (data : str)       (* REPORT_SUPPR / REPORT_SUPPR_INLINE *)
| Metric (f : N) (data : str)         (* REPORT_METRIC *)
| InternalErr (f : N) (c : cstat).    (* reportInternalChildErr: cppcheckError naming file f *)

(* ---------- frames: type:1 len:4 (native little endian) data:len ---------- *)
Definition le32 (n : N) : str := [n mod 256; (n / 256) mod 256; (n / 65536) mod 256; (n / 16777216) mod 256].
Definition of_le32 (b0 b1 b2 b3 : N) : N := b0 + 256 * b1 + 65536 * b2 + 16777216 * b3.
Definition enc_frame (t : N) (data : str) : str := t :: le32 (len_of data) ++ data.

Inductive frame_res := FEof | FTorn | FExit | FMsg (t : N) (data rest : str).

Definition read_frame (s : str) : frame_res :=
  match s with
  | [] => FEof                                   (* read() == 0 on the type byte *)
  | t :: r =>
      if negb (existsb (N.eqb t) pipe_signals) then FExit     (* invalid type *)
      else match r with
           | b0 :: b1 :: b2 :: b3 :: r' =>
               let len := of_le32 b0 b1 b2 b3 in
               if ltb_len r' len then FTorn                   (* EOF inside the data: ++result; return false *)
               else FMsg t (firstn (N.to_nat len) r') (skipn (N.to_nat len) r')
           | _ => FTorn                                       (* EOF / short read inside the length: ++result; return false *)
           end
  end.

(* std::stoi on the CHILD_END payload: the worker writes std::to_string(unsigned) *)
Definition stoi (s : str) : option N := if all_digits s && negb (is_nil s) then Some (dec_val s) else None.

Definition count_semis (s : str) : N := len_of (filter (fun c => c =? 59) s).

(* ---------- the parent's state ---------- *)
Inductive phase :=
| PTodo                                           (* not started *)
| PRun (s : str) (pipe_open reaped : bool).       (* s = bytes not yet read from this worker's pipe *)

Record pstate := mkPS {
  ph : N -> phase;
  result : N;
  log : list ev;                                  (* newest first *)
  halted : option N                               (* Some code: the parent called exit(code) / died *)
}.

Inductive event := EFork (f : N) | ERead (f : N) | EReap (f : N).

Definition upd (m : N -> phase) (f : N) (p : phase) : N -> phase := fun g => if g =? f then p else m g.

Section Machine.
  Variable files : list N.                        (* mFiles, in order *)
  Variable jobs : nat.
  Variable stream : N -> str.                     (* everything worker f writes before it ends *)
  Variable status : N -> cstat.                   (* how worker f ends *)

  Definition is_kid (p : phase) : bool := match p with PRun _ _ false => true | _ => false end.
  Definition is_todo (p : phase) : bool := match p with PTodo => true | _ => false end.
  Definition is_open (p : phase) : bool := match p with PRun _ true _ => true | _ => false end.
  Definition finished (p : phase) : bool := match p with PRun _ false true => true | _ => false end.

  Definition nkids (st : pstate) : nat := length (filter (fun f => is_kid (ph st f)) files).
  Definition first_todo (st : pstate) : option N := find (fun f => is_todo (ph st f)) files.
  Definition done (st : pstate) : bool := forallb (fun f => finished (ph st f)) files.
  Definition mem_file (f : N) : bool := existsb (N.eqb f) files.

  (* handleRead on pipe f whose unread bytes are s *)
  Definition handle_read (st : pstate) (f : N) (s : str) (reaped : bool) : pstate :=
    let close r lg := mkPS (upd (ph st) f (PRun [] false reaped)) r lg None in
    let keep rest lg := mkPS (upd (ph st) f (PRun rest true reaped)) (result st) lg None in
    let die := mkPS (ph st) (result st) (log st) (Some 1) in        (* std::exit(EXIT_FAILURE) *)
    match read_frame s with
    | FEof => close (result st + 1) (log st)                         (* ++result; return false *)
    | FTorn => close (result st + 1) (log st)                        (* worker died inside a record (fix 532f6fa) *)
    | FExit => die
    | FMsg t data rest =>
        if t =? SIG_REPORT_ERROR then
          match deserialize (fun x => x) data with
          | Err _ => die
          | Ok _ => keep rest (Finding f data :: log st)
          end
        else if t =? SIG_REPORT_OUT then keep rest (OutMsg f data :: log st)
        else if (t =? SIG_REPORT_SUPPR) || (t =? SIG_REPORT_SUPPR_INLINE) then
          if negb (is_nil data) && (count_semis data <? 4) then die
          else keep rest (SupprRec f data :: log st)
        else if t =? SIG_CHILD_END then
          match stoi data with
          | Some n => close (result st + n) (log st)                 (* result += stoi; return false *)
          | None => mkPS (ph st) (result st) (log st) (Some 134)     (* uncaught exception *)
          end
        else if t =? SIG_REPORT_METRIC then keep rest (Metric f data :: log st)
        else die                                                     (* REPORT_TIMER without timer results *)
    end.

  (* one iteration's worth of work; None = the event is not possible in this state *)
  Definition step (st : pstate) (e : event) : option pstate :=
    match halted st with
    | Some _ => None
    | None =>
        match e with
        | EFork f =>
            match first_todo st with
            | Some g => if (g =? f) && Nat.ltb (nkids st) jobs
                        then Some (mkPS (upd (ph st) f (PRun (stream f) true false)) (result st) (log st) None)
                        else None
            | None => None
            end
        | ERead f =>
            if mem_file f then
              match ph st f with
              | PRun s true r => Some (handle_read st f s r)
              | _ => None
              end
            else None
        | EReap f =>
            if mem_file f then
              match ph st f with
              | PRun s o false =>
                  Some (mkPS (upd (ph st) f (PRun s o true)) (result st)
                             (if bad_stat (status f) then InternalErr f (status f) :: log st else log st) None)
              | _ => None
              end
            else None
        end
    end.

  Fixpoint exec (st : pstate) (es : list event) : option pstate :=
    match es with
    | [] => Some st
    | e :: r => match step st e with
                | None => None
                | Some st' => exec st' r
                end
    end.

  Definition init : pstate := mkPS (fun _ => PTodo) 0 [] None.

  (* ---------- termination measure ---------- *)
  Definition weight (f : N) (p : phase) : nat :=
    match p with
    | PTodo => 3 + length (stream f)
    | PRun s o r => (if o then 1 + length s else 0) + (if r then 0 else 1)
    end.
  Definition measure (st : pstate) : nat := list_sum (map (fun f => weight f (ph st f)) files).

  (* ---------- two fair deterministic schedules, for running the model ----------
     reap_first = false: pipes are drained before waitpid results are taken (the usual order);
     reap_first = true: a worker is reaped as soon as possible, before its pipe is read
     (the order seen when something else keeps the pipe's write end open after the worker's death) *)
  Definition pick_rest (reap_first : bool) (st : pstate) : option event :=
    let rd := option_map ERead (find (fun g => is_open (ph st g)) files) in
    let rp := option_map EReap (find (fun g => is_kid (ph st g)) files) in
    if reap_first then match rp with Some e => Some e | None => rd end
    else match rd with Some e => Some e | None => rp end.

  Definition pick_rf (reap_first : bool) (st : pstate) : option event :=
    match first_todo st with
    | Some f => if Nat.ltb (nkids st) jobs then Some (EFork f) else pick_rest reap_first st
    | None => pick_rest reap_first st
    end.

  Definition pick (st : pstate) : option event :=
    match first_todo st with
    | Some f => if Nat.ltb (nkids st) jobs then Some (EFork f)
                else match find (fun g => is_open (ph st g)) files with
                     | Some g => Some (ERead g)
                     | None => option_map EReap (find (fun g => is_kid (ph st g)) files)
                     end
    | None => match find (fun g => is_open (ph st g)) files with
              | Some g => Some (ERead g)
              | None => option_map EReap (find (fun g => is_kid (ph st g)) files)
              end
    end.

  Fixpoint run_sched (reap_first : bool) (fuel : nat) (st : pstate) : pstate :=
    match fuel with
    | O => st
    | S k => match pick_rf reap_first st with
             | None => st
             | Some e => match step st e with
                         | None => st
                         | Some st' => run_sched reap_first k st'
                         end
             end
    end.
End Machine.

(* ---------- what a worker writes ---------- *)
(* a fault-free worker: its report frames, then CHILD_END with its result *)
Definition frames_bytes (fr : list (N * str)) : str := flat_map (fun x => enc_frame (fst x) (snd x)) fr.
Definition full_stream (fr : list (N * str)) (res : N) : str :=
  frames_bytes fr ++ enc_frame SIG_CHILD_END (dec_of_N res).
(* a worker dying between records, after its first k records *)
Definition cut_stream (fr : list (N * str)) (k : nat) : str := frames_bytes (firstn k fr).
(* a worker dying inside a record: k whole records, then the first j bytes of the next one *)
Definition torn_stream (fr : list (N * str)) (res : N) (k j : nat) : str :=
  frames_bytes (firstn k fr) ++ firstn j (frames_bytes (skipn k fr) ++ enc_frame SIG_CHILD_END (dec_of_N res)).

(* a record the parent accepts and keeps reading after *)
Definition good_frame (x : N * str) : bool :=
  let '(t, data) := x in
  (len_of data <? U32) &&
  (((t =? SIG_REPORT_ERROR) && match deserialize (fun x => x) data with Ok _ => true | Err _ => false end)
   || (t =? SIG_REPORT_OUT) || (t =? SIG_REPORT_METRIC)).

Definition findings_of (f : N) (fr : list (N * str)) : list ev :=
  flat_map (fun x => if fst x =? SIG_REPORT_ERROR then [Finding f (snd x)] else []) fr.

Definition is_finding_of (f : N) (e : ev) : bool :=
  match e with Finding g _ => g =? f | _ => false end.
Definition is_internal_of (f : N) (e : ev) : bool :=
  match e with InternalErr g _ => g =? f | _ => false end.
