(* C21: termination of the parent loop under every schedule, progress, and
   containment of workers that die between records. *)
From CV Require Import Base.Bytes Base.Glob Par.Gen_Severity Par.Defs Par.DecProofs Par.CodecProofs Proc.Defs.
Require Import Lia ZifyBool.
Local Open Scope N_scope.

(* ---------- frames ---------- *)
Lemma of_le32_le32 n : n < U32 ->
  of_le32 (n mod 256) ((n / 256) mod 256) ((n / 65536) mod 256) ((n / 16777216) mod 256) = n.
Proof.
  intros H. unfold of_le32, U32 in *.
  change 65536 with (256 * 256). change 16777216 with (256 * 256 * 256).
  rewrite <- !N.div_div by lia.
  pose proof (N.div_mod' n 256) as E1. pose proof (N.div_mod' (n / 256) 256) as E2.
  pose proof (N.div_mod' (n / 256 / 256) 256) as E3.
  assert (B1 : n mod 256 < 256) by (apply N.mod_upper_bound; lia).
  assert (B2 : (n / 256) mod 256 < 256) by (apply N.mod_upper_bound; lia).
  assert (B3 : (n / 256 / 256) mod 256 < 256) by (apply N.mod_upper_bound; lia).
  assert (B4 : n / 256 / 256 / 256 < 256).
  { rewrite !N.div_div by lia. apply N.div_lt_upper_bound; [lia|]. cbn. exact H. }
  rewrite (N.mod_small _ _ B4).
  revert E1 E2 E3 B1 B2 B3 B4.
  generalize (n mod 256) ((n / 256) mod 256) ((n / 256 / 256) mod 256) (n / 256 / 256 / 256).
  generalize (n / 256 / 256) (n / 256). intros. lia.
Qed.

Lemma read_frame_enc t data rest :
  len_of data < U32 -> existsb (N.eqb t) pipe_signals = true ->
  read_frame (enc_frame t data ++ rest) = FMsg t data rest.
Proof.
  intros Hl Ht. unfold enc_frame, le32. cbn [app read_frame]. rewrite Ht. cbn [negb].
  rewrite (of_le32_le32 _ Hl).
  assert (Hlt : ltb_len (data ++ rest) (len_of data) = false).
  { unfold ltb_len. rewrite len_of_app. lia. }
  rewrite Hlt, to_nat_len_of, firstn_len_app, skipn_len_app. reflexivity.
Qed.

Lemma read_frame_shrinks s t data rest : read_frame s = FMsg t data rest -> (length rest + 5 <= length s)%nat.
Proof.
  unfold read_frame. destruct s as [|t0 r]; [discriminate|].
  destruct (negb (existsb (N.eqb t0) pipe_signals)); [discriminate|].
  destruct r as [|b0 [|b1 [|b2 [|b3 r']]]]; try discriminate.
  destruct (ltb_len r' (of_le32 b0 b1 b2 b3)); [discriminate|].
  intros H; injection H as _ _ <-. cbn [length]. rewrite skipn_length. lia.
Qed.

(* a proper prefix of a record with a valid type byte: end of file at or inside the record *)
Lemma read_frame_prefix t data j :
  len_of data < U32 -> existsb (N.eqb t) pipe_signals = true -> (j < length (enc_frame t data))%nat ->
  read_frame (firstn j (enc_frame t data)) = FEof \/ read_frame (firstn j (enc_frame t data)) = FTorn.
Proof.
  intros Hl Ht Hj. unfold enc_frame, le32 in *. cbn [app] in *.
  destruct j as [|j]; [left; reflexivity|right].
  cbn [firstn read_frame]. rewrite Ht. cbn [negb].
  do 4 (destruct j as [|j]; [reflexivity|]). cbn [firstn].
  rewrite (of_le32_le32 _ Hl).
  assert (Hlt : ltb_len (firstn j data) (len_of data) = true).
  { unfold ltb_len, len_of. rewrite firstn_length. cbn [length] in Hj. lia. }
  rewrite Hlt. reflexivity.
Qed.

Lemma stoi_dec n : stoi (dec_of_N n) = Some n.
Proof.
  unfold stoi. destruct (dec_of_N_spec n) as (d & ds & He & Hf & Hv & _).
  rewrite He. rewrite (all_digits_iff _ Hf). cbn [is_nil negb andb].
  unfold dec_val. change (fun a c0 : N => a * 10 + (c0 - 48)) with DecProofs.step in *. rewrite Hv. reflexivity.
Qed.

(* ---------- updates ---------- *)
Lemma upd_same m f p : upd m f p f = p.
Proof. unfold upd. rewrite N.eqb_refl. reflexivity. Qed.

Lemma upd_other m f p g : g <> f -> upd m f p g = m g.
Proof. intros H. unfold upd. destruct (g =? f) eqn:E; [apply N.eqb_eq in E; contradiction|reflexivity]. Qed.

Lemma list_sum_cons x l : list_sum (x :: l) = (x + list_sum l)%nat.
Proof. reflexivity. Qed.

Section Machine.
  Variable files : list N.
  Variable jobs : nat.
  Variable stream : N -> str.
  Variable status : N -> cstat.

  Notation step := (step files jobs stream status).
  Notation exec := (exec files jobs stream status).
  Notation measure := (measure files stream).
  Notation weight := (weight stream).

  Lemma mem_file_In f : mem_file files f = true -> In f files.
  Proof.
    unfold mem_file. intros H. apply existsb_exists in H. destruct H as (x & Hx & E).
    apply N.eqb_eq in E. subst. exact Hx.
  Qed.

  Lemma In_mem_file f : In f files -> mem_file files f = true.
  Proof. intros H. unfold mem_file. apply existsb_exists. exists f. split; [exact H|apply N.eqb_refl]. Qed.

  (* changing one file's phase to a lighter one makes the measure smaller *)
  Lemma sum_upd_le m f p (l : list N) : (weight f p <= weight f (m f))%nat ->
    (list_sum (map (fun g => weight g (upd m f p g)) l) <= list_sum (map (fun g => weight g (m g)) l))%nat.
  Proof.
    intros H. induction l as [|g l IH]; cbn [map]; [cbn; lia|]. rewrite !list_sum_cons.
    destruct (N.eq_dec g f) as [->|Hne]; [rewrite upd_same|rewrite (upd_other _ _ _ _ Hne)]; lia.
  Qed.

  Lemma sum_upd_lt m f p (l : list N) : In f l -> (weight f p < weight f (m f))%nat ->
    (list_sum (map (fun g => weight g (upd m f p g)) l) < list_sum (map (fun g => weight g (m g)) l))%nat.
  Proof.
    intros Hin H. induction l as [|g l IH]; [contradiction|]. cbn [map]. rewrite !list_sum_cons.
    pose proof (sum_upd_le m f p l (Nat.lt_le_incl _ _ H)) as Hle.
    destruct (N.eq_dec g f) as [->|Hne].
    - rewrite upd_same. lia.
    - rewrite (upd_other _ _ _ _ Hne). destruct Hin as [->|Hin]; [contradiction|]. specialize (IH Hin). lia.
  Qed.

  Lemma find_In {A} (p : A -> bool) l x : find p l = Some x -> In x l /\ p x = true.
  Proof. apply find_some. Qed.

  (* every step that does not end in exit() strictly decreases the measure *)
  Lemma step_decreases st e st' : step st e = Some st' -> halted st' = None -> (measure st' < measure st)%nat.
  Proof.
    unfold Defs.step. destruct (halted st); [discriminate|]. destruct e as [f|f|f].
    - destruct (first_todo files st) as [g|] eqn:Ef; [|discriminate].
      destruct ((g =? f) && Nat.ltb (nkids files st) jobs) eqn:Ec; [|discriminate].
      apply andb_true_iff in Ec. destruct Ec as [Eg _]. apply N.eqb_eq in Eg. subst g.
      apply find_In in Ef. destruct Ef as [Hin Ht].
      intros H _; injection H as <-. unfold Defs.measure. cbn [ph].
      apply sum_upd_lt; [exact Hin|]. destruct (ph st f); [|discriminate]. cbn [Defs.weight]. lia.
    - destruct (mem_file files f) eqn:Em; [|discriminate]. apply mem_file_In in Em.
      destruct (ph st f) as [|s o r] eqn:Ep; [discriminate|]. destruct o; [|discriminate].
      intros H; injection H as <-. unfold handle_read.
      destruct (read_frame s) as [| | |t data rest] eqn:Er.
      + intros _. unfold Defs.measure. cbn [ph]. apply sum_upd_lt; [exact Em|]. rewrite Ep. cbn [Defs.weight]. lia.
      + intros _. unfold Defs.measure. cbn [ph]. apply sum_upd_lt; [exact Em|]. rewrite Ep. cbn [Defs.weight]. lia.
      + cbn [halted]. discriminate.
      + pose proof (read_frame_shrinks _ _ _ _ Er) as Hs.
        assert (Hkeep : forall lg, (Defs.measure files stream (mkPS (upd (ph st) f (PRun rest true r)) (result st) lg None)
                                    < measure st)%nat).
        { intros lg. unfold Defs.measure. cbn [ph]. apply sum_upd_lt; [exact Em|]. rewrite Ep. cbn [Defs.weight]. lia. }
        assert (Hclose : forall rs lg, (Defs.measure files stream (mkPS (upd (ph st) f (PRun [] false r)) rs lg None)
                                        < measure st)%nat).
        { intros rs lg. unfold Defs.measure. cbn [ph]. apply sum_upd_lt; [exact Em|]. rewrite Ep. cbn [Defs.weight]. lia. }
        destruct (t =? SIG_REPORT_ERROR).
        { destruct (deserialize (fun x => x) data); [intros _; apply Hkeep|cbn [halted]; discriminate]. }
        destruct (t =? SIG_REPORT_OUT); [intros _; apply Hkeep|].
        destruct ((t =? SIG_REPORT_SUPPR) || (t =? SIG_REPORT_SUPPR_INLINE)).
        { destruct (negb (is_nil data) && (count_semis data <? 4)); [cbn [halted]; discriminate|intros _; apply Hkeep]. }
        destruct (t =? SIG_CHILD_END).
        { destruct (stoi data); [intros _; apply Hclose|cbn [halted]; discriminate]. }
        destruct (t =? SIG_REPORT_METRIC); [intros _; apply Hkeep|cbn [halted]; discriminate].
    - destruct (mem_file files f) eqn:Em; [|discriminate]. apply mem_file_In in Em.
      destruct (ph st f) as [|s o r] eqn:Ep; [discriminate|]. destruct r; [discriminate|].
      intros H _; injection H as <-. unfold Defs.measure. cbn [ph].
      apply sum_upd_lt; [exact Em|]. rewrite Ep. cbn [Defs.weight]. lia.
  Qed.

  Lemma step_not_halted st e st' : step st e = Some st' -> halted st = None.
  Proof. unfold Defs.step. destruct (halted st); [discriminate|reflexivity]. Qed.

  (* every run, under every schedule, has at most `measure` steps *)
  Theorem executor_terminates es : forall st st', exec st es = Some st' -> halted st' = None ->
    (length es + measure st' <= measure st)%nat.
  Proof.
    induction es as [|e r IH]; intros st st' H Hh; cbn [Defs.exec] in H.
    - injection H as <-. cbn [length]. lia.
    - destruct (step st e) as [st1|] eqn:Es; [|discriminate].
      assert (H1 : halted st1 = None).
      { destruct r as [|e2 r2]; cbn [Defs.exec] in H.
        - injection H as <-. exact Hh.
        - destruct (step st1 e2) eqn:E2; [|discriminate]. exact (step_not_halted _ _ _ E2). }
      pose proof (step_decreases _ _ _ Es H1). specialize (IH _ _ H Hh). cbn [length]. lia.
  Qed.

  (* ---------- progress: while not done, the fair scheduler's event is possible ---------- *)
  Lemma pick_enabled st e : halted st = None -> pick files jobs st = Some e -> exists st', step st e = Some st'.
  Proof.
    intros Hh. unfold pick, Defs.step. rewrite Hh.
    assert (Hrest : forall e,
      match find (fun g => is_open (ph st g)) files with
      | Some g => Some (ERead g)
      | None => option_map EReap (find (fun g => is_kid (ph st g)) files)
      end = Some e ->
      exists st', match e with
                  | EFork f => match first_todo files st with
                               | Some g => if (g =? f) && Nat.ltb (nkids files st) jobs
                                           then Some (mkPS (upd (ph st) f (PRun (stream f) true false)) (result st) (log st) None)
                                           else None
                               | None => None
                               end
                  | ERead f => if mem_file files f then match ph st f with
                                                        | PRun s true r => Some (handle_read st f s r)
                                                        | _ => None end else None
                  | EReap f => if mem_file files f then match ph st f with
                                                        | PRun s o false =>
                                                            Some (mkPS (upd (ph st) f (PRun s o true)) (result st)
                                                                       (if bad_stat (status f) then InternalErr f (status f) :: log st else log st) None)
                                                        | _ => None end else None
                  end = Some st').
    { intros e0. destruct (find (fun g => is_open (ph st g)) files) as [g|] eqn:Eo.
      - intros H; injection H as <-. apply find_In in Eo. destruct Eo as [Hin Ho].
        rewrite (In_mem_file _ Hin). destruct (ph st g) as [|s o r]; [discriminate|]. destruct o; [|discriminate].
        eexists. reflexivity.
      - destruct (find (fun g => is_kid (ph st g)) files) as [g|] eqn:Ek; [|discriminate].
        cbn [option_map]. intros H; injection H as <-. apply find_In in Ek. destruct Ek as [Hin Hk].
        rewrite (In_mem_file _ Hin). destruct (ph st g) as [|s o r]; [discriminate|]. destruct r; [discriminate|].
        eexists. reflexivity. }
    destruct (first_todo files st) as [f|] eqn:Ef.
    - destruct (Nat.ltb (nkids files st) jobs) eqn:El.
      + intros H; injection H as <-. rewrite N.eqb_refl. cbn [andb]. eexists. reflexivity.
      + intros H. exact (Hrest e H).
    - intros H. exact (Hrest e H).
  Qed.

  Lemma pick_some st : (1 <= jobs)%nat -> done files st = false -> pick files jobs st <> None.
  Proof.
    intros Hj Hd Hp. unfold pick in Hp.
    assert (Hnone : find (fun g => is_open (ph st g)) files = None /\ find (fun g => is_kid (ph st g)) files = None).
    { destruct (first_todo files st); [destruct (Nat.ltb (nkids files st) jobs); [discriminate|]|];
        destruct (find (fun g => is_open (ph st g)) files); try discriminate;
        destruct (find (fun g => is_kid (ph st g)) files); try discriminate; split; reflexivity. }
    destruct Hnone as [Ho Hk].
    assert (Hn0 : nkids files st = 0%nat).
    { unfold nkids. assert (F : filter (fun f => is_kid (ph st f)) files = []).
      { clear -Hk. induction files as [|x l IH]; [reflexivity|]. cbn [find filter] in *.
        destruct (is_kid (ph st x)); [discriminate|]. apply IH. exact Hk. }
      rewrite F. reflexivity. }
    assert (Ht : first_todo files st = None).
    { destruct (first_todo files st); [|reflexivity]. rewrite Hn0 in Hp.
      assert (E : Nat.ltb 0 jobs = true) by (apply Nat.ltb_lt; lia). rewrite E in Hp. discriminate. }
    assert (Hall : done files st = true).
    { unfold done. apply forallb_forall. intros f Hin.
      pose proof (find_none _ _ Ho f Hin) as H1. pose proof (find_none _ _ Hk f Hin) as H2.
      pose proof (find_none _ _ Ht f Hin) as H3. cbn beta in *.
      destruct (ph st f) as [|s o r]; [discriminate|]. destruct o; [discriminate|]. destruct r; [reflexivity|discriminate]. }
    rewrite Hall in Hd. discriminate.
  Qed.

  Theorem executor_progress st : (1 <= jobs)%nat -> halted st = None -> done files st = false ->
    exists e st', step st e = Some st'.
  Proof.
    intros Hj Hh Hd. destruct (pick files jobs st) as [e|] eqn:Ep.
    - destruct (pick_enabled st e Hh Ep) as (st' & Hs). exists e, st'. exact Hs.
    - exfalso. exact (pick_some st Hj Hd Ep).
  Qed.
End Machine.

(* ---------- workers that die at any point: between records or inside one ---------- *)
Section Containment.
  Variable files : list N.
  Variable jobs : nat.
  Variable fr : N -> list (N * str).      (* the records worker f sends in a fault-free run *)
  Variable res : N -> N.                  (* its CHILD_END result *)
  Variable cut : N -> option (nat * nat). (* Some (k, j): dies after its first k records and j bytes of the next one *)
  Variable status : N -> cstat.

  Hypothesis good : forall f, forallb good_frame (fr f) = true.
  Hypothesis res_small : forall f, res f <= SIZE_MAX.

  (* the record the worker was about to write after its first k records *)
  Definition next_rec (f : N) (k : nat) : str :=
    match nth_error (fr f) k with
    | Some x => enc_frame (fst x) (snd x)
    | None => enc_frame SIG_CHILD_END (dec_of_N (res f))
    end.
  (* the crash point lies strictly before the end of that record (j = 0: between records) *)
  Hypothesis cut_proper : forall f k j, cut f = Some (k, j) -> (j < length (next_rec f k))%nat.

  Definition eff (f : N) : list (N * str) := match cut f with None => fr f | Some (k, _) => firstn k (fr f) end.
  Definition tail (f : N) : str :=
    match cut f with
    | None => enc_frame SIG_CHILD_END (dec_of_N (res f))
    | Some (k, j) => firstn j (next_rec f k)
    end.
  Definition stream (f : N) : str := frames_bytes (eff f) ++ tail f.

  Lemma stream_spec f :
    stream f = match cut f with
               | None => full_stream (fr f) (res f)
               | Some (k, j) => cut_stream (fr f) k ++ firstn j (next_rec f k)
               end.
  Proof. unfold stream, eff, tail, full_stream, cut_stream. destruct (cut f) as [[k j]|]; reflexivity. Qed.

  Lemma res_len_small f : len_of (dec_of_N (res f)) < U32.
  Proof. pose proof (small_dec (res f) (res_small f)) as S. unfold small in S. lia. Qed.

  Lemma tail_torn f k j : cut f = Some (k, j) ->
    read_frame (firstn j (next_rec f k)) = FEof \/ read_frame (firstn j (next_rec f k)) = FTorn.
  Proof.
    intros Hc. pose proof (cut_proper f k j Hc) as Hj. unfold next_rec in *.
    destruct (nth_error (fr f) k) as [[t data]|] eqn:En; cbn [fst snd] in *.
    - pose proof (good f) as G. rewrite forallb_forall in G. specialize (G _ (nth_error_In _ _ En)).
      unfold good_frame in G. apply andb_true_iff in G. destruct G as [Gl Gt].
      apply read_frame_prefix; [lia| |exact Hj].
      apply existsb_exists.
      repeat (apply orb_true_iff in Gt; destruct Gt as [Gt|Gt]); try (apply andb_true_iff in Gt; destruct Gt as [Gt _]);
        apply N.eqb_eq in Gt; subst t; eexists; (split; [|apply N.eqb_refl]); unfold pipe_signals; cbn [In]; tauto.
    - apply read_frame_prefix; [apply res_len_small|reflexivity|exact Hj].
  Qed.

  Lemma good_eff f : forallb good_frame (eff f) = true.
  Proof.
    unfold eff. destruct (cut f) as [[k j0]|]; [|apply good].
    pose proof (good f) as G. rewrite forallb_forall in *. intros x Hx. apply G.
    rewrite <- (firstn_skipn k (fr f)). apply in_or_app. left. exact Hx.
  Qed.

  Definition file_inv (st : pstate) (f : N) : Prop :=
    match ph st f with
    | PTodo => filter (is_finding_of f) (log st) = [] /\ filter (is_internal_of f) (log st) = []
    | PRun s o r =>
        (if o then exists j, s = frames_bytes (skipn j (eff f)) ++ tail f
                             /\ filter (is_finding_of f) (log st) = rev (findings_of f (firstn j (eff f)))
         else filter (is_finding_of f) (log st) = rev (findings_of f (eff f))
              /\ (cut f <> None -> 0 < result st))
        /\ filter (is_internal_of f) (log st) = (if r && bad_stat (status f) then [InternalErr f (status f)] else [])
    end.

  Definition Inv (st : pstate) : Prop := halted st = None /\ forall f, file_inv st f.

  Lemma inv_init : Inv Defs.init.
  Proof. split; [reflexivity|]. intros f. unfold file_inv. cbn. split; reflexivity. Qed.

  (* an event on file f leaves every other file's invariant alone *)
  Lemma other_file st st' f g (evs : list ev) :
    g <> f -> file_inv st g -> ph st' g = ph st g -> log st' = evs ++ log st ->
    (forall e, In e evs -> is_finding_of g e = false /\ is_internal_of g e = false) ->
    result st <= result st' -> file_inv st' g.
  Proof.
    intros Hne Hi Hp Hl He Hr. unfold file_inv in *. rewrite Hp, Hl.
    assert (F1 : filter (is_finding_of g) (evs ++ log st) = filter (is_finding_of g) (log st)).
    { rewrite filter_app. assert (X : filter (is_finding_of g) evs = []).
      { clear -He. induction evs as [|e l IH]; [reflexivity|]. cbn [filter].
        destruct (He e (or_introl eq_refl)) as [-> _]. apply IH. intros x Hx. apply He. right. exact Hx. }
      rewrite X. reflexivity. }
    assert (F2 : filter (is_internal_of g) (evs ++ log st) = filter (is_internal_of g) (log st)).
    { rewrite filter_app. assert (X : filter (is_internal_of g) evs = []).
      { clear -He. induction evs as [|e l IH]; [reflexivity|]. cbn [filter].
        destruct (He e (or_introl eq_refl)) as [_ ->]. apply IH. intros x Hx. apply He. right. exact Hx. }
      rewrite X. reflexivity. }
    rewrite F1, F2. destruct (ph st g) as [|s o r]; [exact Hi|].
    destruct o; [exact Hi|]. destruct Hi as [[A B] C]. split; [split; [exact A|]|exact C].
    intros Hc. specialize (B Hc). lia.
  Qed.

  Lemma tag_other f g : g <> f -> forall d c,
    (is_finding_of g (Finding f d) = false /\ is_internal_of g (Finding f d) = false) /\
    (is_finding_of g (OutMsg f d) = false /\ is_internal_of g (OutMsg f d) = false) /\
    (is_finding_of g (Metric f d) = false /\ is_internal_of g (Metric f d) = false) /\
    (is_finding_of g (InternalErr f c) = false /\ is_internal_of g (InternalErr f c) = false).
  Proof.
    intros Hne d c. cbn. assert (E : (f =? g) = false) by (apply N.eqb_neq; congruence).
    rewrite E. repeat split; reflexivity.
  Qed.

  Lemma sig_member t :
    (t =? SIG_REPORT_ERROR) || (t =? SIG_REPORT_OUT) || (t =? SIG_REPORT_METRIC) || (t =? SIG_CHILD_END) = true ->
    existsb (N.eqb t) pipe_signals = true.
  Proof.
    intros H. apply existsb_exists.
    repeat (apply orb_true_iff in H; destruct H as [H|H]); apply N.eqb_eq in H; subst t;
      eexists; (split; [|apply N.eqb_refl]); unfold pipe_signals; cbn [In]; tauto.
  Qed.

  Lemma findings_firstn_S f j x l :
    nth_error l j = Some x ->
    findings_of f (firstn (S j) l) = findings_of f (firstn j l) ++ (if fst x =? SIG_REPORT_ERROR then [Finding f (snd x)] else []).
  Proof.
    revert l. induction j as [|j IH]; intros l H; destruct l as [|y l]; try discriminate.
    - cbn in H. injection H as ->. cbn [firstn findings_of flat_map]. rewrite app_nil_r. reflexivity.
    - cbn [nth_error] in H. change (firstn (S (S j)) (y :: l)) with (y :: firstn (S j) l).
      change (firstn (S j) (y :: l)) with (y :: firstn j l).
      unfold findings_of in *. cbn [flat_map]. rewrite (IH l H), app_assoc. reflexivity.
  Qed.

  Lemma skipn_nth {A} j (l : list A) x : nth_error l j = Some x -> skipn j l = x :: skipn (S j) l.
  Proof.
    revert l. induction j as [|j IH]; intros l H; destruct l as [|y l]; try discriminate.
    - cbn in H. injection H as ->. reflexivity.
    - cbn [nth_error] in H. cbn [skipn]. apply IH. exact H.
  Qed.

  Lemma firstn_all_skipn_nil {A} j (l : list A) : nth_error l j = None -> skipn j l = [] /\ firstn j l = l.
  Proof.
    intros H. apply nth_error_None in H. split; [apply skipn_all2; exact H|apply firstn_all2; exact H].
  Qed.

  Lemma step_inv st e st' : Inv st -> Defs.step files jobs stream status st e = Some st' -> Inv st'.
  Proof.
    intros [Hh Hf]. unfold Defs.step. rewrite Hh. destruct e as [f|f|f].
    - (* fork *)
      destruct (first_todo files st) as [g|] eqn:Ef; [|discriminate].
      destruct ((g =? f) && Nat.ltb (nkids files st) jobs) eqn:Ec; [|discriminate].
      apply andb_true_iff in Ec. destruct Ec as [Eg _]. apply N.eqb_eq in Eg. subst g.
      apply find_some in Ef. destruct Ef as [_ Ht].
      intros H; injection H as <-. split; [reflexivity|]. intros g.
      destruct (N.eq_dec g f) as [->|Hne].
      + specialize (Hf f). unfold file_inv in *. cbn [ph log result]. rewrite upd_same.
        destruct (ph st f); [|discriminate]. destruct Hf as [A B]. split; [|rewrite B; reflexivity].
        exists 0%nat. cbn [skipn firstn findings_of flat_map rev]. split; [reflexivity|exact A].
      + apply (other_file st _ f g [] Hne (Hf g)); cbn [ph log result];
          [apply upd_other; exact Hne|reflexivity|intros e []|lia].
    - (* read *)
      destruct (mem_file files f); [|discriminate].
      destruct (ph st f) as [|s o r] eqn:Ep; [discriminate|]. destruct o; [|discriminate].
      intros H; injection H as <-.
      pose proof (Hf f) as Hff. unfold file_inv in Hff. rewrite Ep in Hff.
      destruct Hff as [(j & Hs & Hlog) Hint].
      unfold handle_read.
      destruct (nth_error (eff f) j) as [x|] eqn:Ej.
      + (* a whole record x *)
        rewrite (skipn_nth _ _ _ Ej) in Hs. unfold frames_bytes in Hs. cbn [flat_map] in Hs.
        fold (frames_bytes (skipn (S j) (eff f))) in Hs. rewrite <- app_assoc in Hs.
        pose proof (good_eff f) as G. rewrite forallb_forall in G.
        specialize (G x (nth_error_In _ _ Ej)). destruct x as [t data]. unfold good_frame in G.
        apply andb_true_iff in G. destruct G as [Gl Gt]. cbn [fst snd] in *.
        assert (Hmem : existsb (N.eqb t) pipe_signals = true).
        { apply sig_member. repeat (apply orb_true_iff in Gt; destruct Gt as [Gt|Gt]);
            try (apply andb_true_iff in Gt; destruct Gt as [Gt _]); rewrite Gt; rewrite ?orb_true_r; reflexivity. }
        rewrite Hs, (read_frame_enc t data _ ltac:(lia) Hmem).
        assert (Hother : forall (e : ev) lg, log (mkPS (upd (ph st) f (PRun (frames_bytes (skipn (S j) (eff f)) ++ tail f) true r))
                                                  (result st) lg None) = lg) by reflexivity.
        (* which of the three accepted types *)
        assert (Hcase : forall e, (if t =? SIG_REPORT_ERROR then [Finding f data] else []) = filter (is_finding_of f) [e] ->
                          is_internal_of f e = false ->
                          (forall g, g <> f -> is_finding_of g e = false /\ is_internal_of g e = false) ->
                          Inv (mkPS (upd (ph st) f (PRun (frames_bytes (skipn (S j) (eff f)) ++ tail f) true r))
                                    (result st) (e :: log st) None)).
        { intros e He1 He2 He3. split; [reflexivity|]. intros g. destruct (N.eq_dec g f) as [->|Hne].
          - unfold file_inv. cbn [ph log result]. rewrite upd_same. split.
            + exists (S j). split; [reflexivity|].
              rewrite (findings_firstn_S f j (t, data) _ Ej). cbn [fst snd]. rewrite rev_app_distr, He1.
              change (e :: log st) with ([e] ++ log st). rewrite filter_app, Hlog.
              destruct (filter (is_finding_of f) [e]) as [|a [|b l]] eqn:Fe; cbn [rev app]; try reflexivity.
              exfalso. cbn [filter] in Fe. destruct (is_finding_of f e); discriminate.
            + cbn [filter]. rewrite He2. exact Hint.
          - apply (other_file st _ f g [e] Hne (Hf g)); cbn [ph log result];
              [apply upd_other; exact Hne|reflexivity| |lia].
            intros e0 [<-|[]]. apply He3. exact Hne. }
        apply orb_true_iff in Gt. destruct Gt as [Gt|Gm].
        * apply orb_true_iff in Gt. destruct Gt as [Ge|Go].
          -- apply andb_true_iff in Ge. destruct Ge as [Ge Gd]. rewrite Ge.
             destruct (deserialize (fun x => x) data); [|discriminate].
             apply Hcase; [rewrite Ge; cbn [filter is_finding_of]; rewrite N.eqb_refl; reflexivity|reflexivity|].
             intros g Hne. apply (tag_other f g Hne data ExitOk).
          -- apply N.eqb_eq in Go. subst t.
             change (SIG_REPORT_OUT =? SIG_REPORT_ERROR) with false. cbn iota. rewrite N.eqb_refl.
             apply Hcase; [reflexivity|reflexivity|]. intros g Hne. apply (tag_other f g Hne data ExitOk).
        * apply N.eqb_eq in Gm. subst t.
          change (SIG_REPORT_METRIC =? SIG_REPORT_ERROR) with false.
          change (SIG_REPORT_METRIC =? SIG_REPORT_OUT) with false.
          change ((SIG_REPORT_METRIC =? SIG_REPORT_SUPPR) || (SIG_REPORT_METRIC =? SIG_REPORT_SUPPR_INLINE)) with false.
          change (SIG_REPORT_METRIC =? SIG_CHILD_END) with false. cbn iota. rewrite N.eqb_refl.
          apply Hcase; [reflexivity|reflexivity|]. intros g Hne. apply (tag_other f g Hne data ExitOk).
      + (* all records read: CHILD_END or end of file *)
        destruct (firstn_all_skipn_nil _ _ Ej) as [Hsk Hfi]. rewrite Hsk in Hs. cbn [frames_bytes flat_map app] in Hs.
        rewrite Hfi in Hlog.
        assert (Hclose : forall rs, result st <= rs -> (cut f <> None -> 0 < rs) ->
                           Inv (mkPS (upd (ph st) f (PRun [] false r)) rs (log st) None)).
        { intros rs Hrs Hcut. split; [reflexivity|]. intros g. destruct (N.eq_dec g f) as [->|Hne].
          - unfold file_inv. cbn [ph log result]. rewrite upd_same. split; [split; [exact Hlog|exact Hcut]|exact Hint].
          - apply (other_file st _ f g [] Hne (Hf g)); cbn [ph log result];
              [apply upd_other; exact Hne|reflexivity|intros e []|exact Hrs]. }
        unfold tail in Hs. destruct (cut f) as [[k j0]|] eqn:Ec.
        * rewrite Hs. destruct (tail_torn f k j0 Ec) as [E|E]; rewrite E; (apply Hclose; [lia|intros _; lia]).
        * rewrite Hs, <- (app_nil_r (enc_frame SIG_CHILD_END (dec_of_N (res f)))).
          rewrite (read_frame_enc _ _ [] (res_len_small f)) by reflexivity.
          change (SIG_CHILD_END =? SIG_REPORT_ERROR) with false.
          change (SIG_CHILD_END =? SIG_REPORT_OUT) with false.
          change ((SIG_CHILD_END =? SIG_REPORT_SUPPR) || (SIG_CHILD_END =? SIG_REPORT_SUPPR_INLINE)) with false.
          cbn iota. rewrite N.eqb_refl, stoi_dec. apply Hclose; [lia|intros X; congruence].
    - (* reap *)
      destruct (mem_file files f); [|discriminate].
      destruct (ph st f) as [|s o r] eqn:Ep; [discriminate|]. destruct r; [discriminate|].
      intros H; injection H as <-. split; [reflexivity|]. intros g.
      destruct (N.eq_dec g f) as [->|Hne].
      + pose proof (Hf f) as Hff. unfold file_inv in *. cbn [ph log result]. rewrite upd_same. rewrite Ep in Hff.
        destruct Hff as [A B]. cbn [andb] in *. destruct (bad_stat (status f)) eqn:Eb.
        * cbn [filter is_finding_of is_internal_of]. rewrite N.eqb_refl, B. split; [exact A|reflexivity].
        * split; [exact A|exact B].
      + apply (other_file st _ f g (if bad_stat (status f) then [InternalErr f (status f)] else []) Hne (Hf g));
          cbn [ph log result]; [apply upd_other; exact Hne|destruct (bad_stat (status f)); reflexivity| |lia].
        intros e He. destruct (bad_stat (status f)); [|destruct He]. destruct He as [<-|[]].
        apply (tag_other f g Hne [] (status f)).
  Qed.

  Lemma exec_inv es : forall st st', Inv st -> Defs.exec files jobs stream status st es = Some st' -> Inv st'.
  Proof.
    induction es as [|e r IH]; intros st st' Hi H; cbn [Defs.exec] in H.
    - injection H as <-. exact Hi.
    - destruct (Defs.step files jobs stream status st e) as [st1|] eqn:Es; [|discriminate].
      exact (IH _ _ (step_inv _ _ _ Hi Es) H).
  Qed.

  (* every subset of crashing workers, every crash point (between records or inside one), every schedule *)
  Theorem crash_contained es st :
    Defs.exec files jobs stream status Defs.init es = Some st ->
    halted st = None /\
    (done files st = true -> forall f, In f files ->
       filter (is_finding_of f) (log st) = rev (findings_of f (eff f))
       /\ filter (is_internal_of f) (log st) = (if bad_stat (status f) then [InternalErr f (status f)] else [])
       /\ (cut f <> None -> 0 < result st)).
  Proof.
    intros H. destruct (exec_inv es _ _ inv_init H) as [Hh Hf]. split; [exact Hh|].
    intros Hd f Hin. unfold done in Hd. rewrite forallb_forall in Hd. specialize (Hd f Hin).
    specialize (Hf f). unfold file_inv in Hf. destruct (ph st f) as [|s o r]; [discriminate|].
    destruct o; [discriminate|]. destruct r; [|discriminate]. cbn [andb] in Hf.
    destruct Hf as [[A B] C]. repeat split; assumption.
  Qed.
End Containment.

(* ---------- the former counterexample: a worker that dies inside a record ---------- *)
Definition w_a : str := serialize m_base.
Definition rf_files : list N := [0; 1].
Definition rf_fr (f : N) : list (N * str) := [(SIG_REPORT_ERROR, w_a)].
(* worker 0 writes the type byte and two bytes of the length of its first record and dies;
   worker 1 is fault free *)
Definition rf_stream (f : N) : str :=
  if f =? 0 then torn_stream (rf_fr 0) 1 0 3 else full_stream (rf_fr 1) 1.
Definition rf_status (f : N) : cstat := if f =? 0 then ExitCode 3 else ExitOk.

(* before fix 532f6fa this run ended in exit(1) after [EFork 0; EFork 1; ERead 0] with worker 1's
   finding lost; with the repaired handleRead it is contained *)
Example mid_message_case_contained :
  exists st, exec rf_files 2 rf_stream rf_status init
                  [EFork 0; EFork 1; ERead 0; ERead 1; ERead 1; EReap 1; EReap 0] = Some st
             /\ halted st = None /\ done rf_files st = true /\ 0 < result st
             /\ filter (is_finding_of 1) (log st) = [Finding 1 w_a]
             /\ filter (is_internal_of 0) (log st) = [InternalErr 0 (ExitCode 3)].
Proof. eexists. split; [vm_compute; reflexivity|]. repeat split; reflexivity. Qed.

(* the hypotheses of crash_contained are satisfiable by exactly this scenario *)
Example mid_message_case_hyps :
  (forall f, forallb good_frame (rf_fr f) = true) /\
  (forall f k j, (fun f => if f =? 0 then Some (0%nat, 3%nat) else None) f = Some (k, j) ->
                 (j < length (next_rec rf_fr (fun _ => 1%N) f k))%nat).
Proof.
  split; [intros f; vm_compute; reflexivity|].
  intros f k j H. destruct (f =? 0); [|discriminate]. injection H as <- <-. vm_compute. lia.
Qed.
