(* C07  Expression trees follow the C/C++ operator grammar.

   Model of lib/tokenlist.cpp: createAst's precedence ladder
     compileExpression / compileComma / compileAssignTernary / compileLogicOr ... compileMulDiv /
     compilePointerToElem / compilePrecedence3 / compilePrecedence2 / compileScope / compileTerm,
     compileBinOp, compileUnaryOp, isPrefixUnary, isQualifier, skipDecl, AST_state
   and of lib/tokenize.cpp Tokenizer::prepareTernaryOpForAST,
   over the token language  identifiers (declared variables) / numbers / operators / ( ) [ ] ? : , . ;
   No proofs in this file. *)
From Coq Require Import List NArith Bool Arith.
Import ListNotations.

(* ------------------------------------------------------------------ tokens *)
Inductive asg := AEq | AAdd | ASub | AMul | ADiv | AMod | AAnd | AOr | AXor | AShl | AShr.

Inductive opr :=
| OPlus | OMinus | OStar | OSlash | OPercent | OAmp | OPipe | OCaret | OShl | OShr
| OLt | OLe | OGt | OGe | OSpace | OEqEq | ONe | OAndAnd | OOrOr | ONot | OTilde | OInc | ODec
| OAsg (a : asg).

Inductive tok :=
| TId (n : N)        (* a name with varId != 0 (declared variable / member) *)
| TNum (n : N)       (* a number literal *)
| TOp (o : opr)
| TLP | TRP | TLB | TRB | TQ | TColon | TComma | TDot
| TSemi | TLC        (* ';'  '{' : only as left context / terminator *)
| TType (n : N).     (* the type name of a C-style cast, one token per type: only produced by [render];
                        the ladder model does not transcribe iscast(): casts are outside [parse] *)

(* a token with its identity (position label); decisions only look at [snd] except [precedes] *)
Notation ptok := (N * tok)%type (only parsing).

Inductive ast :=
| L (t : ptok)                 (* no operands *)
| U (t : ptok) (a : ast)       (* astOperand1 only *)
| B (t : ptok) (a b : ast)     (* astOperand1, astOperand2 *)
| R (t : ptok) (b : ast).      (* astOperand2 only (compileBinOp on a one-element stack) *)

Definition rt (a : ast) : ptok :=
  match a with L t => t | U t _ => t | B t _ _ => t | R t _ => t end.

(* ------------------------------------------------------------------ AST_state + position *)
(* position = zipper over the token list: [bef] = tokens before tok (nearest first) *)
Record st := mkSt { stk : list ast; bef : list ptok; depth : nat; asgn : nat }.
Notation zst := (st * list (N * tok))%type (only parsing).

Definition set_stk (s : st) (k : list ast) := mkSt k (bef s) (depth s) (asgn s).
Definition set_bef (s : st) (b : list ptok) := mkSt (stk s) b (depth s) (asgn s).
Definition set_depth (s : st) (d : nat) := mkSt (stk s) (bef s) d (asgn s).
Definition set_asgn (s : st) (a : nat) := mkSt (stk s) (bef s) (depth s) a.
Definition push (s : st) (a : ast) := set_stk s (a :: stk s).

(* tok = tok->next() *)
Definition adv (z : zst) : zst :=
  match z with
  | (s, t :: r) => (set_bef s (t :: bef s), r)
  | (s, []) => (s, [])
  end.

Definition is_incdec (t : tok) : bool :=
  match t with TOp OInc | TOp ODec => true | _ => false end.
Definition is_star (t : tok) : bool := match t with TOp OStar => true | _ => false end.
Definition is_amp (t : tok) : bool := match t with TOp OAmp => true | _ => false end.
Definition is_name (t : tok) : bool := match t with TId _ => true | _ => false end.
Definition is_assign (t : tok) : bool := match t with TOp (OAsg _) => true | _ => false end.
Definition is_eq (t : tok) : bool := match t with TOp (OAsg AEq) => true | _ => false end.
Definition is_lp (t : tok) : bool := match t with TLP => true | _ => false end.
Definition is_rp (t : tok) : bool := match t with TRP => true | _ => false end.
Definition is_comma_rp (t : tok) : bool := match t with TComma | TRP => true | _ => false end.
Definition is_gt_rp_comma (t : tok) : bool :=
  match t with TOp OGt | TRP | TComma => true | _ => false end.

Definition hd_is (p : tok -> bool) (l : list ptok) : bool :=
  match l with t :: _ => p (snd t) | [] => false end.

(* Token::Match(prev, "(|[|{|%op%|;|?|:|,|.|case|return|::") *)
Definition prefix_ctx (p : tok) : bool :=
  match p with
  | TLP | TLB | TLC | TOp _ | TSemi | TQ | TColon | TComma | TDot => true
  | TId _ | TNum _ | TRP | TRB | TType _ => false
  end.

(* isPrefixUnary(tok, cpp) for the token [t] with left context [b].
   iscast() is false on every '(' of this token language (the first name after '(' has a varId);
   the cpp "* [ ... ] {" clause needs a '{' and cannot apply. *)
Definition is_prefix_unary (b : list ptok) (t : tok) : bool :=
  match b with
  | [] => true
  | p :: b' =>
      if prefix_ctx (snd p) && (negb (is_incdec (snd p)) || is_incdec t) then true
      else if is_star t && is_incdec (snd p) &&
              (match b' with [] => true | pp :: _ => prefix_ctx (snd pp) end) then true
      else false
  end.

(* isQualifier(tok): skip & && *, then { or ; *)
Fixpoint is_qualifier (l : list ptok) : bool :=
  match l with
  | (_, TOp OAmp) :: r | (_, TOp OAndAnd) :: r | (_, TOp OStar) :: r => is_qualifier r
  | (_, TLC) :: _ | (_, TSemi) :: _ => true
  | _ => false
  end.

(* "* [*,)]" look-ahead of compilePrecedence3 / compileMulDiv: [r] = tokens after the '*'.
   tok2 = next; while (tok2->next() && tok2 is '*') tok2 = next; if tok2 in > ) , : jump there.
   Result: Some (skipped tokens, nearest last = reversed; rest starting at tok2). *)
Fixpoint skip_stars (acc r : list ptok) : list ptok * list ptok :=
  match r with
  | t :: ((_ :: _) as r') => if is_star (snd t) then skip_stars (t :: acc) r' else (acc, r)
  | _ => (acc, r)
  end.

Definition star_jump (z : zst) : option zst :=
  match z with
  | (s, t :: r) =>
      if is_star (snd t) && hd_is (fun x => is_star x || is_comma_rp x) r then
        let '(acc, r') := skip_stars [] r in
        if hd_is is_gt_rp_comma r' then Some (set_bef s (acc ++ t :: bef s), r') else None
      else None
  | _ => None
  end.

Definition precedes (a b : ptok) : bool := N.ltb (fst a) (fst b).

Definition is_bracket (t : tok) : bool := match t with TLP | TLB | TLC => true | _ => false end.

(* compileBinOp(tok, state, f).  [f = None] is the call with f == nullptr (tok is not advanced). *)
Definition bin_op (f : option (zst -> option zst)) (z : zst) : option zst :=
  match z with
  | (_, []) => None
  | (s, t :: r) =>
      let after :=
        match f with
        | None => Some z
        | Some g =>
            let z1 : zst := (mkSt (stk s) (t :: bef s) (S (depth s)) (asgn s), r) in
            match (match r with [] => Some z1 | _ => g z1 end) with
            | None => None
            | Some (s2, r2) => Some (set_depth s2 (pred (depth s2)), r2)
            end
        end in
      match after with
      | None => None
      | Some (s2, r2) =>
          let k := match stk s2 with
                   | [] => [L t]
                   | [b] => [R t b]
                   | b :: a :: k' => B t a b :: k'
                   end in
          Some (set_stk s2 k, r2)
      end
  end.

(* compileUnaryOp(tok, state, f) *)
Definition un_op (f : option (zst -> option zst)) (z : zst) : option zst :=
  match z with
  | (_, []) => None
  | (s, t :: r) =>
      let after :=
        match f with
        | None => Some z
        | Some g =>
            let z1 : zst := (mkSt (stk s) (t :: bef s) (S (depth s)) (asgn s), r) in
            match (match r with [] => Some z1 | _ => g z1 end) with
            | None => None
            | Some (s2, r2) => Some (set_depth s2 (pred (depth s2)), r2)
            end
        end in
      match after with
      | None => None
      | Some (s2, r2) =>
          let k := match stk s2 with
                   | top :: k' =>
                       if negb (precedes (rt top) t) || is_incdec (snd t) || is_bracket (snd t)
                       then U t top :: k' else L t :: stk s2
                   | [] => [L t]
                   end in
          Some (set_stk s2 k, r2)
      end
  end.

(* ------------------------------------------------------------------ compileTerm *)
(* skipDecl(tok): only when the previous token is '('.  Scans  %name%|*|&|&&  and returns the first
   %var% that is followed by one of  : = ( {  ; [n] = tokens passed so far.  None = return tok. *)
Fixpoint skip_decl_scan (acc l : list ptok) : option (list ptok * list ptok) :=
  match l with
  | t :: r =>
      match snd t with
      | TId _ =>
          if hd_is (fun x => match x with TColon | TOp (OAsg AEq) | TLP | TLC => true | _ => false end) r
          then Some (acc, l)
          else skip_decl_scan (t :: acc) r
      | TOp OStar | TOp OAmp | TOp OAndAnd => skip_decl_scan (t :: acc) r
      | _ => None   (* includes an unlinked '<' : return tok *)
      end
  | [] => None
  end.

Definition skip_decl (z : zst) : zst :=
  match z with
  | (s, l) =>
      if hd_is is_lp (bef s) then
        if hd_is is_name l then z      (* tok->varId() != 0 : every TId is a variable (fix 7d6f057) *)
        else
          match skip_decl_scan [] l with
          | Some (acc, l') => (set_bef s (acc ++ bef s), l')
          | None => z
          end
      else z
  end.

(* while (Token::Match(tok->next(), "%name%")) tok = tok->next(); *)
Fixpoint skip_to_last_name (fuel : nat) (z : zst) : zst :=
  match fuel with
  | O => z
  | S f => match z with
           | (s, t :: ((t2 :: _) as r)) => if is_name (snd t2) then skip_to_last_name f (set_bef s (t :: bef s), r) else z
           | _ => z
           end
  end.

(* do tok = tok->next(); while (Token::Match(tok, "%name%|%str%")); *)
Fixpoint skip_names (fuel : nat) (z : zst) : zst :=
  match fuel with
  | O => z
  | S f => match z with
           | (s, t :: r) => if is_name (snd t) then skip_names f (adv z) else z
           | _ => z
           end
  end.

(* Token::Match(tok->tokAt(-3), "!!& ) ( %name% ) =")  with tok = the name *)
Definition fnptr_pattern (z : zst) : bool :=
  match z with
  | (s, _ :: t1 :: t2 :: _) =>
      match bef s with
      | m1 :: m2 :: m3 :: _ =>
          negb (is_amp (snd m3)) && is_rp (snd m2) && is_lp (snd m1) && is_rp (snd t1) && is_eq (snd t2)
      | _ => false
      end
  | _ => false
  end.

Definition term (z : zst) : option zst :=
  match z with
  | (s, t :: r) =>
      match snd t with
      | TNum _ => Some (skip_names (length r) (adv (push s (L t), t :: r)))
      | TId _ =>
          let z1 := skip_decl z in
          let z2 := skip_to_last_name (length (snd z1)) z1 in
          match z2 with
          | (s2, t2 :: r2) =>
              let s3 := push s2 (L t2) in
              let z3 : zst := (s3, t2 :: r2) in
              let z4 := if (Nat.eqb (length (stk s3)) 1 && Nat.eqb (depth s3) 0 && fnptr_pattern z3)%bool
                        then adv z3 else z3 in
              let z5 := adv z4 in
              let z6 := match z5 with
                        | (_, a :: b :: _) => if (is_name (snd a) && is_assign (snd b))%bool then adv z5 else z5
                        | _ => z5
                        end in
              Some z6
          | _ => None
          end
      | _ => Some z          (* operators, brackets, ... : compileTerm does nothing *)
      end
  | (_, []) => Some z
  end.

(* compileScope = compileTerm + '::' loop; there is no '::' token here *)
Definition scope (z : zst) : option zst := term z.

(* link of an opening bracket: [l] = tokens after it; result (passed tokens incl. the closer, nearest
   last = reversed; tokens after the closer) *)
Fixpoint close_split (d : nat) (acc l : list ptok) : option (list ptok * list ptok) :=
  match l with
  | [] => None
  | t :: r =>
      match snd t with
      | TLP | TLB => close_split (S d) (t :: acc) r
      | TRP | TRB => match d with
                     | O => Some (t :: acc, r)
                     | S d' => close_split d' (t :: acc) r
                     end
      | _ => close_split d (t :: acc) r
      end
  end.

(* tok = open->link()->next()  where [z0] is positioned at the opening bracket *)
Definition jump_link (z0 : zst) (s : st) : option zst :=
  match z0 with
  | (s0, t :: r) =>
      match close_split 0 [] r with
      | Some (acc, r') => Some (set_bef s (acc ++ t :: bef s0), r')
      | None => None
      end
  | _ => None
  end.

(* ------------------------------------------------------------------ the ladder *)
(* rank d of a level (distance from the term side):
   0 compilePrecedence2   1 compilePrecedence3   2 compilePointerToElem  3 MulDiv  4 AddSub  5 Shift
   6 ThreewayComp  7 RelComp  8 EqComp  9 And  10 Xor  11 Or  12 LogicAnd  13 LogicOr
   14 compileAssignTernary  15 compileComma (= compileExpression) *)
Definition D_P2 := 0%nat.   Definition D_P3 := 1%nat.   Definition D_PTR := 2%nat.
Definition D_MUL := 3%nat.  Definition D_LOR := 13%nat. Definition D_ASG := 14%nat.
Definition D_COMMA := 15%nat.

Inductive action := Stop | Take | SkipTo (z : zst).

(* loop condition of the binary left-associative levels 3..13 at token t (z = (s, t :: r)).
   The conditions "!tok->astOperand1()" are true: tokens ahead of tok have no operands yet. *)
Definition classify (cpp : bool) (d : nat) (z : zst) : action :=
  match z with
  | (s, t :: r) =>
      match d, snd t with
      | 3%nat, TOp OSlash | 3%nat, TOp OPercent => Take
      | 3%nat, TOp OStar =>
          if is_qualifier (t :: r) then Stop
          else match star_jump z with Some z' => SkipTo z' | None => Take end
      | 4%nat, TOp OPlus | 4%nat, TOp OMinus => Take
      | 5%nat, TOp OShl | 5%nat, TOp OShr => Take
      | 6%nat, TOp OSpace => Take
      | 7%nat, TOp OLt | 7%nat, TOp OLe | 7%nat, TOp OGe | 7%nat, TOp OGt => Take
      | 8%nat, TOp OEqEq | 8%nat, TOp ONe => Take
      | 9%nat, TOp OAmp =>
          if is_qualifier (t :: r) then Stop
          else match r with
               | [] => Stop
               | t2 :: r2 =>
                   if is_amp (snd t2) then
                     (if cpp && hd_is is_comma_rp r2 then SkipTo (set_bef s (t2 :: t :: bef s), r2) else Take)
                   else
                     (if cpp && is_comma_rp (snd t2) then SkipTo (set_bef s (t :: bef s), r) else Take)
               end
      | 10%nat, TOp OCaret => Take
      | 11%nat, TOp OPipe => Take
      | 12%nat, TOp OAndAnd =>
          if is_qualifier (t :: r) then Stop
          else match r with
               | [] => Stop
               | t2 :: _ => if cpp && is_comma_rp (snd t2) then SkipTo (set_bef s (t :: bef s), r) else Take
               end
      | 13%nat, TOp OOrOr => Take
      | _, _ => Stop
      end
  | _ => Stop
  end.

Section Ladder.
  Variable cpp : bool.
  (* the levels at the next smaller fuel: [rec d] *)
  Variable rec : nat -> zst -> option zst.

  (* while-loop of a binary left-associative level *)
  Fixpoint bin_loop (d : nat) (n : nat) (z : zst) : option zst :=
    match n with
    | O => None
    | S n' =>
        match classify cpp d z with
        | Stop => Some z
        | SkipTo z' => Some z'
        | Take => match bin_op (Some (rec (pred d))) z with
                  | None => None
                  | Some z' => bin_loop d n' z'
                  end
        end
    end.

  (* compilePointerToElem: ". *" *)
  Fixpoint ptr_loop (n : nat) (z : zst) : option zst :=
    match n with
    | O => None
    | S n' =>
        match z with
        | (_, t :: t2 :: _) =>
            match snd t, snd t2 with
            | TDot, TOp OStar => match bin_op (Some (rec D_P3)) z with
                                 | None => None
                                 | Some z' => ptr_loop n' z'
                                 end
            | _, _ => Some z
            end
        | _ => Some z
        end
    end.

  (* compilePrecedence3's loop (prefix operators; casts/new/delete are outside the token language) *)
  Fixpoint p3_loop (n : nat) (z : zst) : option zst :=
    match n with
    | O => None
    | S n' =>
        match z with
        | (s, t :: r) =>
            let cand := match snd t with
                        | TOp OPlus | TOp OMinus | TOp ONot | TOp OTilde | TOp OStar | TOp OAmp
                        | TOp OInc | TOp ODec => true
                        | _ => false
                        end in
            if cand && is_prefix_unary (bef s) (snd t) then
              match star_jump z with
              | Some z' => p3_loop n' z'
              | None => match un_op (Some (rec D_P3)) z with
                        | None => None
                        | Some z' => p3_loop n' z'
                        end
              end
            else Some z
        | _ => Some z
        end
    end.

  (* compilePrecedence2's loop *)
  Fixpoint p2_loop (n : nat) (z : zst) : option zst :=
    match n with
    | O => None
    | S n' =>
        match z with
        | (s, t :: r) =>
            match snd t with
            | TOp OInc | TOp ODec =>
                if negb (is_prefix_unary (bef s) (snd t)) then
                  match un_op (Some scope) z with
                  | None => None
                  | Some z' => p2_loop n' z'
                  end
                else Some z
            | TDot =>
                if hd_is is_star r then Some z
                else if hd_is (fun x => match x with TDot => true | _ => false end) r then None (* "..." : outside *)
                else
                  let o := if hd_is (fun x => match x with TLC | TComma => true | _ => false end) (bef s)
                           then un_op (Some scope) z else bin_op (Some scope) z in
                  match o with
                  | None => None
                  | Some z' => p2_loop n' z'
                  end
            | TLB =>
                if cpp && is_prefix_unary (bef s) TLB then None      (* lambda capture list: outside *)
                else
                  let o := if hd_is (fun x => match x with TRB => true | _ => false end) r
                           then un_op (Some (rec D_COMMA)) z else bin_op (Some (rec D_COMMA)) z in
                  match o with
                  | None => None
                  | Some (s2, _) => match jump_link z s2 with
                                    | None => None
                                    | Some z' => p2_loop n' z'
                                    end
                  end
            | TLP =>
                let old := length (stk s) in
                match (match r with [] => Some (adv z) | _ => rec D_COMMA (adv z) end) with
                | None => None
                | Some (s2, _) =>
                    (* tok = tok2 *)
                    let z3 : zst := (set_bef s2 (bef s), t :: r) in
                    let is_call := match bef s with
                                   | p :: _ => match snd p with TId _ | TRB | TRP => true | _ => false end
                                   | [] => false
                                   end in
                    let o := if is_call
                             then (if Nat.ltb old (length (stk s2)) then bin_op None z3 else un_op None z3)
                             else Some z3 in
                    match o with
                    | None => None
                    | Some (s4, _) => match jump_link z s4 with
                                      | None => None
                                      | Some z' => p2_loop n' z'
                                      end
                    end
                end
            | _ => Some z
            end
        | _ => Some z
        end
    end.

  (* compileAssignTernary's loop *)
  Fixpoint asg_loop (n : nat) (z : zst) : option zst :=
    match n with
    | O => None
    | S n' =>
        match z with
        | (s, t :: r) =>
            match snd t with
            | TOp (OAsg _) =>
                match bin_op (Some (rec D_ASG)) (set_asgn s (S (asgn s)), t :: r) with
                | None => None
                | Some (s2, r2) => asg_loop n' (set_asgn s2 (pred (asgn s2)), r2)
                end
            | TQ =>
                if hd_is (fun x => match x with TColon => true | _ => false end) r then None (* "a ?: b" : outside *)
                else
                  match bin_op (Some (rec D_ASG)) (set_asgn s O, t :: r) with
                  | None => None
                  | Some (s2, r2) => asg_loop n' (set_asgn s2 (asgn s), r2)
                  end
            | TColon =>
                if Nat.ltb O (asgn s) then Some z
                else match bin_op (Some (rec D_ASG)) z with
                     | None => None
                     | Some z' => asg_loop n' z'
                     end
            | _ => Some z
            end
        | _ => Some z
        end
    end.

  (* compileComma's loop *)
  Fixpoint comma_loop (n : nat) (z : zst) : option zst :=
    match n with
    | O => None
    | S n' =>
        match z with
        | (s, t :: r) =>
            match snd t with
            | TComma => match bin_op (Some (rec D_ASG)) z with
                        | None => None
                        | Some z' => comma_loop n' z'
                        end
            | _ => Some z
            end
        | _ => Some z
        end
    end.

  (* compilePrecedence2 before its loop: doCompileScope is true unless tok starts a lambda *)
  Definition p2_head (z : zst) : option zst :=
    match z with
    | (_, t :: _) => match snd t with TLB => None | _ => scope z end
    | _ => scope z
    end.

  Definition loop_at (d : nat) (n : nat) (z : zst) : option zst :=
    match d with
    | 1%nat => p3_loop n z
    | 2%nat => ptr_loop n z
    | 14%nat => asg_loop n z
    | 15%nat => comma_loop n z
    | _ => bin_loop d n z
    end.
End Ladder.

(* compile level d with [fuel]; fuel only decreases when a token has been consumed *)
Fixpoint comp (cpp : bool) (fuel : nat) : nat -> zst -> option zst :=
  match fuel with
  | O => fun _ _ => None
  | S f =>
      fix lv (d : nat) (z : zst) : option zst :=
        match d with
        | O => match p2_head z with
               | None => None
               | Some z1 => p2_loop cpp (comp cpp f) (S f) z1
               end
        | S d' => match lv d' z with
                  | None => None
                  | Some z1 => loop_at cpp (comp cpp f) (S d') (S f) z1
                  end
        end
  end.

(* ------------------------------------------------------------------ prepareTernaryOpForAST *)
(* scan from the token after '?': Some k = parentheses needed, the ':' is [k] tokens ahead *)
Fixpoint tern_scan (fuel : nat) (dep : nat) (need : bool) (k : nat) (l : list ptok) : option nat :=
  match fuel with
  | O => None
  | S f =>
      match l with
      | [] => None
      | t :: r =>
          match snd t with
          | TLP | TLB =>
              match close_split 0 [] r with
              | Some (acc, r') => tern_scan f dep need (k + 1 + length acc) r'
              | None => None     (* unbalanced: the tokenizer rejects such input earlier *)
              end
          | TColon => match dep with
                      | O => if need then Some k else None
                      | S d' => tern_scan f d' need (S k) r
                      end
          | TSemi | TRP | TRB => None
          | TComma | TOp OLt => tern_scan f dep true (S k) r
          | TQ => tern_scan f (S dep) true (S k) r
          | _ => tern_scan f dep need (S k) r
          end
      end
  end.

Fixpoint insert_at {A} (k : nat) (x : A) (l : list A) : list A :=
  match k, l with
  | O, _ => x :: l
  | S k', y :: r => y :: insert_at k' x r
  | S _, [] => [x]
  end.

Fixpoint prep (fuel : nat) (l : list ptok) : list ptok :=
  match fuel with
  | O => l
  | S f =>
      match l with
      | [] => []
      | t :: r =>
          match snd t with
          | TQ => match tern_scan (length r) 0 false 0 r with
                  | Some k => t :: (fst t, TLP) :: prep f (insert_at k (fst t, TRP) r)
                  | None => t :: prep f r
                  end
          | _ => t :: prep f r
          end
      end
  end.

(* ------------------------------------------------------------------ parse *)
Definition st0 (b : list ptok) : st := mkSt [] b 0 0.

(* createAst on one expression statement: tokens up to (not including) the final ';' are [l];
   left context [b] (the '{' or ';' before the statement) *)
Definition parse_ctx (cpp : bool) (b l : list ptok) : option (list ast * list ptok) :=
  let l' := prep (2 * length l) l in
  match comp cpp (S (length l')) D_COMMA (st0 b, l') with
  | Some (s, r) => Some (stk s, r)
  | None => None
  end.

Definition semi : ptok := (0%N, TSemi).

Definition parse (cpp : bool) (l : list ptok) : option ast :=
  match parse_ctx cpp [semi] (l ++ [semi]) with
  | Some ([a], [(_, TSemi)]) => Some a
  | _ => None
  end.

(* ------------------------------------------------------------------ expressions, render, spec *)
Inductive preop := PPlus | PMinus | PNot | PTilde | PDeref | PAddr | PInc | PDec.
Inductive postop := QInc | QDec.
Inductive binop :=
| BMul | BDiv | BMod | BAdd | BSub | BShl | BShr | BSpace | BLt | BLe | BGt | BGe | BEq | BNe
| BAnd | BXor | BOr | BLAnd | BLOr.

Inductive expr :=
| EId (l : N) (n : N)
| ENum (l : N) (n : N)
| EPre (l : N) (o : preop) (a : expr)
| EPost (l : N) (o : postop) (a : expr)
| EBin (l : N) (o : binop) (a b : expr)
| EAsg (l : N) (o : asg) (a b : expr)
| ECond (lq lc : N) (c a b : expr)
| EComma (l : N) (a b : expr)
| ECall0 (l : N) (f : expr)                 (* f ( ) *)
| ECall (l : N) (f : expr) (a : expr)       (* f ( a ) ; a comma expression here is an argument list *)
| EIdx (l : N) (a i : expr)
| EMem (ld lm : N) (a : expr) (m : N)       (* a . m   (a -> m is the same token after the tokenizer) *)
| EPar (l : N) (a : expr)
| ECast (l : N) (ty : N) (a : expr).        (* ( type ) a : C-style cast to a builtin / pointer type *)

Definition pre_opr (o : preop) : opr :=
  match o with
  | PPlus => OPlus | PMinus => OMinus | PNot => ONot | PTilde => OTilde
  | PDeref => OStar | PAddr => OAmp | PInc => OInc | PDec => ODec
  end.
Definition post_opr (o : postop) : opr := match o with QInc => OInc | QDec => ODec end.
Definition bin_opr (o : binop) : opr :=
  match o with
  | BMul => OStar | BDiv => OSlash | BMod => OPercent | BAdd => OPlus | BSub => OMinus
  | BShl => OShl | BShr => OShr | BSpace => OSpace | BLt => OLt | BLe => OLe | BGt => OGt | BGe => OGe
  | BEq => OEqEq | BNe => ONe | BAnd => OAmp | BXor => OCaret | BOr => OPipe
  | BLAnd => OAndAnd | BLOr => OOrOr
  end.

(* ISO C / C++ operator table: precedence (larger binds tighter); binary operators associate to the left,
   assignment and ?: to the right *)
Definition bin_prec (o : binop) : nat :=
  match o with
  | BMul | BDiv | BMod => 13 | BAdd | BSub => 12 | BShl | BShr => 11 | BSpace => 10
  | BLt | BLe | BGt | BGe => 9 | BEq | BNe => 8 | BAnd => 7 | BXor => 6 | BOr => 5
  | BLAnd => 4 | BLOr => 3
  end%nat.
Definition P_COMMA := 1%nat. Definition P_ASG := 2%nat. Definition P_LOR := 3%nat.
Definition P_PRE := 15%nat.  Definition P_POST := 16%nat. Definition P_ATOM := 17%nat.

Definition prec (e : expr) : nat :=
  match e with
  | EId _ _ | ENum _ _ | EPar _ _ => P_ATOM
  | EPre _ _ _ | ECast _ _ _ => P_PRE
  | EPost _ _ _ | ECall0 _ _ | ECall _ _ _ | EIdx _ _ _ | EMem _ _ _ _ => P_POST
  | EBin _ o _ _ => bin_prec o
  | EAsg _ _ _ _ | ECond _ _ _ _ _ => P_ASG
  | EComma _ _ _ => P_COMMA
  end.

(* label of the root token (used for the parentheses [render] adds; they are not tree nodes) *)
Definition rootlab (e : expr) : N :=
  match e with
  | EId l _ | ENum l _ | EPre l _ _ | EPost l _ _ | EBin l _ _ _ | EAsg l _ _ _ | EComma l _ _
  | ECall0 l _ | ECall l _ _ | EIdx l _ _ | EPar l _ | ECast l _ _ => l
  | ECond lq _ _ _ _ => lq
  | EMem ld _ _ _ => ld
  end.

Definition wrap (b : bool) (l : N) (ts : list ptok) : list ptok :=
  if b then (l, TLP) :: ts ++ [(l, TRP)] else ts.

(* minimal parentheses: an operand is parenthesised iff its precedence is below what the position needs *)
Fixpoint render (e : expr) : list ptok :=
  let sub := fun (m : nat) (x : expr) (r : list ptok) => wrap (Nat.ltb (prec x) m) (rootlab x) r in
  match e with
  | EId l n => [(l, TId n)]
  | ENum l n => [(l, TNum n)]
  | EPre l o a => (l, TOp (pre_opr o)) :: sub P_PRE a (render a)
  | EPost l o a => sub P_POST a (render a) ++ [(l, TOp (post_opr o))]
  | EBin l o a b => sub (bin_prec o) a (render a) ++ (l, TOp (bin_opr o)) :: sub (S (bin_prec o)) b (render b)
  | EAsg l o a b => sub P_LOR a (render a) ++ (l, TOp (OAsg o)) :: sub P_ASG b (render b)
  | ECond lq lc c a b =>
      sub P_LOR c (render c) ++ (lq, TQ) :: sub P_COMMA a (render a) ++ (lc, TColon) :: sub P_ASG b (render b)
  | EComma l a b => sub P_COMMA a (render a) ++ (l, TComma) :: sub P_ASG b (render b)
  | ECall0 l f => sub P_POST f (render f) ++ [(l, TLP); (l, TRP)]
  | ECall l f a => sub P_POST f (render f) ++ (l, TLP) :: sub P_COMMA a (render a) ++ [(l, TRP)]
  | EIdx l a i => sub P_POST a (render a) ++ (l, TLB) :: sub P_COMMA i (render i) ++ [(l, TRB)]
  | EMem ld lm a m => sub P_POST a (render a) ++ [(ld, TDot); (lm, TId m)]
  | EPar l a => (l, TLP) :: render a ++ [(l, TRP)]
  | ECast l ty a => (l, TLP) :: (l, TType ty) :: (l, TRP) :: sub P_PRE a (render a)
  end.

(* the tree the grammar assigns, in cppcheck's representation: parentheses are not nodes; '(' is the
   node of a call (callee, arguments), '[' of a subscript, '?' has ':' as its second operand *)
Fixpoint tree_of (e : expr) : ast :=
  match e with
  | EId l n => L (l, TId n)
  | ENum l n => L (l, TNum n)
  | EPre l o a => U (l, TOp (pre_opr o)) (tree_of a)
  | EPost l o a => U (l, TOp (post_opr o)) (tree_of a)
  | EBin l o a b => B (l, TOp (bin_opr o)) (tree_of a) (tree_of b)
  | EAsg l o a b => B (l, TOp (OAsg o)) (tree_of a) (tree_of b)
  | ECond lq lc c a b => B (lq, TQ) (tree_of c) (B (lc, TColon) (tree_of a) (tree_of b))
  | EComma l a b => B (l, TComma) (tree_of a) (tree_of b)
  | ECall0 l f => U (l, TLP) (tree_of f)
  | ECall l f a => B (l, TLP) (tree_of f) (tree_of a)
  | EIdx l a i => B (l, TLB) (tree_of a) (tree_of i)
  | EMem ld lm a m => B (ld, TDot) (tree_of a) (L (lm, TId m))
  | EPar _ a => tree_of a
  | ECast l _ a => U (l, TLP) (tree_of a)     (* the '(' of the cast is the node *)
  end.

(* ------------------------------------------------------------------ labels = token positions *)
Local Open Scope N_scope.

Definition wrapN (b : bool) (f : N -> expr * N) (off : N) : expr * N :=
  if b then let '(e, o) := f (off + 1) in (e, o + 1) else f off.

(* relabel so that every node token carries its index in [render] *)
Fixpoint relab (e : expr) (off : N) : expr * N :=
  let sub := fun (m : nat) (x : expr) (f : N -> expr * N) (o : N) => wrapN (Nat.ltb (prec x) m) f o in
  match e with
  | EId _ n => (EId off n, off + 1)
  | ENum _ n => (ENum off n, off + 1)
  | EPre _ o a => let '(a', k) := sub P_PRE a (relab a) (off + 1) in (EPre off o a', k)
  | EPost _ o a => let '(a', k) := sub P_POST a (relab a) off in (EPost k o a', k + 1)
  | EBin _ o a b =>
      let '(a', k) := sub (bin_prec o) a (relab a) off in
      let '(b', k2) := sub (S (bin_prec o)) b (relab b) (k + 1) in (EBin k o a' b', k2)
  | EAsg _ o a b =>
      let '(a', k) := sub P_LOR a (relab a) off in
      let '(b', k2) := sub P_ASG b (relab b) (k + 1) in (EAsg k o a' b', k2)
  | ECond _ _ c a b =>
      let '(c', k) := sub P_LOR c (relab c) off in
      let '(a', k2) := sub P_COMMA a (relab a) (k + 1) in
      let '(b', k3) := sub P_ASG b (relab b) (k2 + 1) in (ECond k k2 c' a' b', k3)
  | EComma _ a b =>
      let '(a', k) := sub P_COMMA a (relab a) off in
      let '(b', k2) := sub P_ASG b (relab b) (k + 1) in (EComma k a' b', k2)
  | ECall0 _ f => let '(f', k) := sub P_POST f (relab f) off in (ECall0 k f', k + 2)
  | ECall _ f a =>
      let '(f', k) := sub P_POST f (relab f) off in
      let '(a', k2) := sub P_COMMA a (relab a) (k + 1) in (ECall k f' a', k2 + 1)
  | EIdx _ a i =>
      let '(a', k) := sub P_POST a (relab a) off in
      let '(i', k2) := sub P_COMMA i (relab i) (k + 1) in (EIdx k a' i', k2 + 1)
  | EMem _ _ a m => let '(a', k) := sub P_POST a (relab a) off in (EMem k (k + 1) a' m, k + 2)
  | EPar _ a => let '(a', k) := relab a (off + 1) in (EPar off a', k + 1)
  | ECast _ ty a => let '(a', k) := sub P_PRE a (relab a) (off + 3) in (ECast off ty a', k)
  end.

Definition canon (e : expr) : expr := fst (relab e 0).

(* what compileUnaryOp's [precedes] test needs of the labels of a prefix operator and its operand *)
Fixpoint labels_ok (e : expr) : bool :=
  match e with
  | EId _ _ | ENum _ _ => true
  | EPre l _ a => negb (N.ltb (fst (rt (tree_of a))) l) && labels_ok a
  | EPost _ _ a | ECall0 _ a | EMem _ _ a _ | EPar _ a => labels_ok a
  | ECast l _ a => negb (N.ltb (fst (rt (tree_of a))) l) && labels_ok a
  | EBin _ _ a b | EAsg _ _ a b | EComma _ a b | ECall _ a b | EIdx _ a b => labels_ok a && labels_ok b
  | ECond _ _ c a b => labels_ok c && labels_ok a && labels_ok b
  end.

(* ------------------------------------------------------------------ well-formedness *)
(* Excluded (always constraint violations, in C and in C++: the operand is not an lvalue / not callable):
   - prefix ++/-- directly applied to a prefix + - ! ~ & expression        ("++ - a")
   - postfix ++/-- directly applied to a postfix ++/-- expression          ("a ++ ++")
   - a call whose callee is a number or a postfix ++/-- expression         ("1 ( a )", "a ++ ( b )")
   - prefix/postfix ++/-- etc. directly applied to a number where the lexer would glue tokens: none (tokens are
     separate)                                                                                              *)
Definition is_rvalue_prefix (e : expr) : bool :=
  match e with
  | EPre _ PPlus _ | EPre _ PMinus _ | EPre _ PNot _ | EPre _ PTilde _ | EPre _ PAddr _ => true
  | _ => false
  end.
Definition is_postincdec (e : expr) : bool := match e with EPost _ _ _ => true | _ => false end.
Definition is_num (e : expr) : bool := match e with ENum _ _ => true | _ => false end.

Fixpoint wf (e : expr) : bool :=
  match e with
  | EId _ _ | ENum _ _ => true
  | EPre _ o a =>
      (match o with PInc | PDec => negb (is_rvalue_prefix a) | _ => true end) && wf a
  | EPost _ _ a => negb (is_postincdec a) && wf a
  | EBin _ _ a b | EAsg _ _ a b | EComma _ a b | EIdx _ a b => wf a && wf b
  | ECond _ _ c a b => wf c && wf a && wf b
  | ECall0 _ f => negb (is_num f) && negb (is_postincdec f) && wf f
  | ECall _ f a => negb (is_num f) && negb (is_postincdec f) && wf f && wf a
  | EMem _ _ a _ | EPar _ a | ECast _ _ a => wf a
  end.

(* the declaration-like token pattern that compileTerm treats specially ("X ) ( name ) =", taken for a function
   pointer declaration when the operand stack holds only that name and depth is 0);
   [decl_like l = false] says it does not occur *)
Fixpoint decl_like_from (b l : list ptok) : bool :=
  match l with
  | [] => false
  | t :: r =>
      (match snd t with
       | TId _ => fnptr_pattern (st0 b, l)
       | _ => false
       end)
      || decl_like_from (t :: b) r
  end.
Definition decl_like (l : list ptok) : bool := decl_like_from [semi] (l ++ [semi]).
