(* C07 proofs, part 4: the theorem for the fragment  identifiers / numbers / binary operators / parentheses. *)
From Coq Require Import List NArith Bool Arith Lia.
From CV Require Import Ast.Defs Ast.Frag Ast.Basics Ast.Ctx Ast.Stage1.
Import ListNotations.

(* stage 1 fragment: all binary left-associative levels over identifiers and numbers, with parentheses *)
Fixpoint frag1 (e : expr) : bool :=
  match e with
  | EId _ _ | ENum _ _ => true
  | EBin _ _ a b => frag1 a && frag1 b
  | EPar _ a => frag1 a
  | _ => false
  end.

Definition rank (e : expr) : nat := 16 - prec e.

Lemma prec_range : forall e, 1 <= prec e /\ prec e <= 17.
Proof.
  destruct e; unfold prec, P_ATOM, P_PRE, P_POST, P_ASG, P_COMMA; try lia.
  all: match goal with |- context [bin_prec ?o] => destruct o; cbn; lia end.
Qed.

Lemma rank_le : forall e, rank e <= 15.
Proof. intros e. unfold rank. destruct (prec_range e). lia. Qed.

Lemma ender_wrap : forall b l ts, ender ts -> ender (wrap b l ts).
Proof.
  intros [] l ts H; [|exact H]. exists ((l, TLP) :: ts), (l, TRP). split; reflexivity.
Qed.

Lemma starter_wrap : forall b l ts, starter1 ts -> starter1 (wrap b l ts).
Proof. intros [] l ts H; [reflexivity|exact H]. Qed.

Lemma wrap_nonnil : forall b l ts, ts <> [] -> wrap b l ts <> [].
Proof. intros [] l ts H; [discriminate|exact H]. Qed.

Lemma Sx_wrap : forall cpp b l ts tr rk,
  Sx cpp ts tr rk -> rk <= 15 -> balanced ts ->
  Sx cpp (wrap b l ts) tr (if b then 0 else rk).
Proof. intros cpp [] l ts tr rk H Hr Hb; [apply (Sx_paren cpp ts tr rk l l H Hr Hb)|exact H]. Qed.

Lemma main1 : forall cpp e, frag1 e = true ->
  Sx cpp (render e) (tree_of e) (rank e) /\ ender (render e) /\ starter1 (render e) /\ render e <> [].
Proof.
  induction e; intros Hf; try discriminate; cbn [frag1] in Hf.
  - (* EId *) repeat split; [apply Sx_id|exists [], (l, TId n); split; reflexivity|discriminate].
  - (* ENum *) repeat split; [apply Sx_num|exists [], (l, TNum n); split; reflexivity|discriminate].
  - (* EBin *)
    apply andb_true_iff in Hf. destruct Hf as [Hf1 Hf2].
    destruct (IHe1 Hf1) as [Sa [Ea [Sta Na]]]. destruct (IHe2 Hf2) as [Sb [Eb [Stb Nb]]].
    cbn [render tree_of].
    assert (Hra := rank_le e1). assert (Hrb := rank_le e2).
    pose proof (Sx_wrap cpp (Nat.ltb (prec e1) (bin_prec o)) (rootlab e1) _ _ _ Sa Hra (render_balanced e1)) as Wa.
    pose proof (Sx_wrap cpp (Nat.ltb (prec e2) (S (bin_prec o))) (rootlab e2) _ _ _ Sb Hrb (render_balanced e2)) as Wb.
    repeat split.
    + change (rank (EBin l o e1 e2)) with (binrank o).
      eapply Sx_bin; [exact Wa|exact Wb| | | | |].
      * destruct (Nat.ltb (prec e1) (bin_prec o)) eqn:E; [lia|].
        apply Nat.ltb_ge in E. unfold rank, binrank. lia.
      * destruct (Nat.ltb (prec e2) (S (bin_prec o))) eqn:E; [destruct (binrank_range o); lia|].
        apply Nat.ltb_ge in E. unfold rank, binrank.
        destruct (prec_range e2).
        assert (bin_prec o <= 13) by (destruct o; cbn; lia). lia.
      * apply ender_ender2. apply ender_wrap; exact Ea.
      * apply starter_wrap; exact Stb.
      * apply wrap_nonnil; exact Na.
    + destruct (ender_wrap (Nat.ltb (prec e2) (S (bin_prec o))) (rootlab e2) _ Eb) as [pre [t [Hp Ht]]].
      exists (wrap (Nat.ltb (prec e1) (bin_prec o)) (rootlab e1) (render e1) ++ (l, TOp (bin_opr o)) :: pre), t.
      rewrite Hp. rewrite <- app_assoc. split; [reflexivity|exact Ht].
    + pose proof (starter_wrap (Nat.ltb (prec e1) (bin_prec o)) (rootlab e1) _ Sta) as H.
      apply lead_ok_app. exact H.
    + pose proof (wrap_nonnil (Nat.ltb (prec e1) (bin_prec o)) (rootlab e1) _ Na) as H2.
      destruct (wrap (Nat.ltb (prec e1) (bin_prec o)) (rootlab e1) (render e1)); [contradiction|discriminate].
  - (* EPar *)
    destruct (IHe Hf) as [Sa [Ea [Sta Na]]]. cbn [render tree_of].
    repeat split.
    + change (rank (EPar l e)) with 0.
      apply (Sx_paren cpp (render e) (tree_of e) (rank e) l l Sa); [apply rank_le|apply render_balanced].
    + exists ((l, TLP) :: render e), (l, TRP). split; reflexivity.
    + discriminate.
Qed.

(* token lists without a given kind of token *)
Definition alltok (p : tok -> bool) (ts : list ptok) : Prop := forall t, In t ts -> p (snd t) = false.

Lemma alltok_app : forall p a b, alltok p a -> alltok p b -> alltok p (a ++ b).
Proof. intros p a b Ha Hb t Ht. apply in_app_or in Ht. destruct Ht; [apply Ha|apply Hb]; assumption. Qed.

Lemma alltok_one : forall (p : tok -> bool) t, p (snd t) = false -> alltok p [t].
Proof. intros p t H x [<-|[]]. exact H. Qed.

Lemma alltok_wrap : forall (p : tok -> bool) b l ts, p TLP = false -> p TRP = false -> alltok p ts -> alltok p (wrap b l ts).
Proof.
  intros p [] l ts H1 H2 H; [|exact H]. intros t [<-|Ht]; [exact H1|].
  apply in_app_or in Ht. destruct Ht as [Ht|[<-|[]]]; [apply H; exact Ht|exact H2].
Qed.

Lemma frag1_alltok : forall (p : tok -> bool) e,
  (forall n, p (TId n) = false) -> (forall n, p (TNum n) = false) -> (forall o, p (TOp (bin_opr o)) = false) ->
  p TLP = false -> p TRP = false ->
  frag1 e = true -> alltok p (render e).
Proof.
  intros p e Hi Hn Ho Hl Hr. induction e; intros Hf; try discriminate; cbn [frag1] in Hf; cbn [render].
  - apply alltok_one; apply Hi.
  - apply alltok_one; apply Hn.
  - apply andb_true_iff in Hf. destruct Hf.
    apply alltok_app; [apply alltok_wrap; auto|].
    apply (alltok_app p [_]); [apply alltok_one; apply Ho|apply alltok_wrap; auto].
  - apply (alltok_app p [_]); [apply alltok_one; exact Hl|].
    apply alltok_app; [auto|apply alltok_one; exact Hr].
Qed.

(* prepareTernaryOpForAST does nothing without '?' *)

Lemma prep_no_q : forall n ts, alltok is_q ts -> prep n ts = ts.
Proof.
  induction n; intros ts H; [reflexivity|]. destruct ts as [|t r]; [reflexivity|].
  cbn [prep]. assert (Ht := H t (or_introl eq_refl)).
  assert (Hr : prep n r = r) by (apply IHn; intros x Hx; apply H; right; exact Hx).
  destruct (snd t); try (rewrite Hr; reflexivity). discriminate.
Qed.

(* the "X ) ( name ) =" heuristic of compileTerm needs an '=' token *)
Lemma no_eq_not_decl_like : forall l b, alltok is_eq l -> decl_like_from b l = false.
Proof.
  induction l as [|t r IH]; intros b H; [reflexivity|].
  cbn [decl_like_from]. rewrite IH by (intros x Hx; apply H; right; exact Hx). rewrite orb_false_r.
  destruct (snd t); try reflexivity.
  unfold fnptr_pattern. destruct r as [|t1 [|t2 r2]]; try reflexivity.
  rewrite (H t2) by (right; right; left; reflexivity). cbn [st0 bef].
  destruct b as [|m1 [|m2 [|m3 b3]]]; try reflexivity. rewrite !andb_false_r. reflexivity.
Qed.

(* from the invariant to [parse] *)
Lemma parse_of_Sx : forall cpp ts tr rk,
  Sx cpp ts tr rk -> rk <= 15 -> prep (2 * length (ts ++ [semi])) (ts ++ [semi]) = ts ++ [semi] ->
  parse cpp ts = Some tr.
Proof.
  intros cpp ts tr rk H Hrk Hprep.
  unfold parse, parse_ctx. rewrite Hprep.
  assert (Hc : comp cpp (S (length (ts ++ [semi]))) D_COMMA (st0 [semi], ts ++ [semi]) =
               Some (mkafter (st0 [semi]) ts tr, [semi])).
  { apply (H (length (ts ++ [semi])) 15 (st0 [semi]) [semi] _ 1).
    - exact Hrk.
    - lia.
    - rewrite app_length. cbn [length]. lia.
    - lia.
    - cbn. split; [reflexivity|discriminate].
    - apply pstart_vac. reflexivity.
    - reflexivity.
    - right. reflexivity.
    - intros r a Hr. apply quiet_closer; [right; right; reflexivity|lia].
    - intros _ a. apply quiet_closer; [right; right; reflexivity|lia].
    - intros _ a. apply quiet_closer; [right; right; reflexivity|lia].
    - intros _ _. apply quiet_closer; [right; right; reflexivity|lia].
    - unfold mkafter. apply cont_quiet; [exact Hrk|].
      intros r Hr. apply quiet_closer; [right; right; reflexivity|exact Hr]. }
  unfold D_COMMA in *. rewrite Hc. reflexivity.
Qed.

Theorem parse_render_stage1 : forall cpp e,
  frag1 e = true -> parse cpp (render e) = Some (tree_of e).
Proof.
  intros cpp e Hf. destruct (main1 cpp e Hf) as [HS _].
  apply (parse_of_Sx cpp _ _ (rank e) HS); [apply rank_le|].
  apply prep_no_q. apply alltok_app; [|apply alltok_one; reflexivity].
  apply frag1_alltok; try reflexivity; try exact Hf; try (intros o; destruct o; reflexivity).
Qed.
