(* C07 proofs, part 2: context predicates, compileTerm on atoms, quiet tokens, balanced rendering. *)
From Coq Require Import List NArith Bool Arith Lia.
From CV Require Import Ast.Defs Ast.Frag Ast.Basics.
Import ListNotations.

Definition mkafter (s : st) (ts : list ptok) (a : ast) : st :=
  mkSt (a :: stk s) (rev ts ++ bef s) (depth s) (asgn s).

(* the loop of rank r does nothing at this position *)
Definition quiet (cpp : bool) (r : nat) (b : list ptok) (a : nat) (rest : list ptok) : Prop :=
  forall rec n k dp, lpn cpp rec r (S n) (mkSt k b dp a, rest) = Some (mkSt k b dp a, rest).

Definition cont cpp rec n0 n r d z :=
  match lpn cpp rec r n z with Some z' => climb cpp rec n0 (S r) (d - r) z' | None => None end.

(* position where an operand is expected: the previous token is ( [ { ; ? : , . or an operator; if it is a
   (prefix) ++/-- then that one stands at such a position itself *)
Definition opos (b : list ptok) : Prop :=
  match b with
  | [] => True
  | p :: b' => prefix_ctx (snd p) = true /\
               (is_incdec (snd p) = true -> match b' with [] => True | pp :: _ => prefix_ctx (snd pp) = true end)
  end.

(* after a prefix ++/-- the operand must not start with + - ! ~ & (isPrefixUnary would not see a prefix
   operator there; such operands are never lvalues: excluded by [wf]) *)
Definition bad_after_incdec (t : tok) : bool :=
  match t with TOp OPlus | TOp OMinus | TOp ONot | TOp OTilde | TOp OAmp => true | _ => false end.
Definition pstart (b ts : list ptok) : Prop :=
  hd_is is_incdec b = true -> hd_is bad_after_incdec ts = false.

Definition is_numt (t : tok) : bool := match t with TNum _ => true | _ => false end.
(* no juxtaposition: the next token is neither a name nor a number *)

Lemma hasq_app : forall a b, hasq (a ++ b) = hasq a || hasq b.
Proof. intros. unfold hasq. apply existsb_app. Qed.

Definition nojux (rest : list ptok) : Prop := hd_is (fun t => is_name t || is_numt t) rest = false.

Lemma nojux_name : forall t r, nojux (t :: r) -> is_name (snd t) = false.
Proof. intros t r H. unfold nojux in H. cbn [hd_is] in H. apply orb_false_iff in H. apply H. Qed.

Definition ND (b l : list ptok) : Prop := decl_like_from b l = false.

(* compileTerm's "X ) ( name ) =" heuristic cannot fire here: the operand stack is not empty (the name would not be
   the only operand) or the left context does not end in ") (" *)
Definition fp_head (b : list ptok) : bool :=
  hd_is is_lp b && match b with _ :: m2 :: _ :: _ => is_rp (snd m2) | _ => false end.
Definition safe (s : st) : Prop := stk s <> [] \/ fp_head (bef s) = false.

Definition strict_ender (t : tok) : bool :=
  match t with TId _ | TNum _ | TRP | TRB => true | _ => false end.

(* position right after an operand: the previous token ends an operand, or it is a postfix ++/-- behind one *)
Definition aft (b : list ptok) : Prop :=
  match b with
  | t :: b' => strict_ender (snd t) = true \/
               (is_incdec (snd t) = true /\ match b' with t2 :: _ => strict_ender (snd t2) = true | [] => False end)
  | [] => False
  end.

Lemma ND_app : forall l1 b l2, ND b (l1 ++ l2) -> ND (rev l1 ++ b) l2.
Proof.
  induction l1; intros b l2 H; [exact H|].
  cbn [rev app] in *. rewrite <- app_assoc. cbn [app]. apply IHl1.
  unfold ND in *. cbn [decl_like_from] in H. apply orb_false_iff in H. apply H.
Qed.

Lemma ND_cons : forall t b l, ND b (t :: l) -> ND (t :: b) l.
Proof. intros t b l H. apply (ND_app [t] b l H). Qed.

Lemma scan_acc : forall l acc acc' l', skip_decl_scan acc l = Some (acc', l') -> length acc <= length acc'.
Proof.
  induction l; intros acc acc' l' H; [discriminate|].
  cbn [skip_decl_scan] in H. destruct (snd a); try discriminate.
  - destruct (hd_is _ l).
    + inversion H; subst. lia.
    + apply IHl in H. cbn [length] in H. lia.
  - destruct o; try discriminate; apply IHl in H; cbn [length] in H; lia.
Qed.

Lemma st_eta : forall s, mkSt (stk s) (bef s) (depth s) (asgn s) = s.
Proof. destruct s; reflexivity. Qed.

(* compileTerm on an identifier *)
Lemma term_id : forall s l x rest,
  nojux rest -> safe s ->
  term (s, (l, TId x) :: rest) = Some (mkafter s [(l, TId x)] (L (l, TId x)), rest).
Proof.
  intros s l x rest Hj Hs.
  unfold term. cbn [snd].
  assert (Hz1 : skip_decl (s, (l, TId x) :: rest) = (s, (l, TId x) :: rest)).
  { unfold skip_decl. destruct (hd_is is_lp (bef s)); reflexivity. }
  rewrite Hz1. cbn [snd length].
  assert (Hz2 : skip_to_last_name (S (length rest)) (s, (l, TId x) :: rest) = (s, (l, TId x) :: rest)).
  { cbn [skip_to_last_name]. destruct rest as [|t2 r2]; [reflexivity|].
    rewrite (nojux_name _ _ Hj). reflexivity. }
  rewrite Hz2.
  match goal with |- context [(?a && ?b && fnptr_pattern ?z)%bool] =>
    assert (Hfp' : (a && b && fnptr_pattern z)%bool = false) end.
  { destruct Hs as [Hs|Hs].
    - destruct (stk s) eqn:E; [contradiction|]. unfold push, set_stk. cbn [stk length]. rewrite E. reflexivity.
    - unfold fnptr_pattern, push, set_stk. cbn [bef]. unfold fp_head in Hs.
      destruct rest as [|t1 [|t2 r]]; rewrite ?andb_false_r; try reflexivity.
      destruct (bef s) as [|m1 [|m2 [|m3 b3]]]; rewrite ?andb_false_r; try reflexivity.
      cbn [hd_is] in Hs. destruct (is_lp (snd m1)), (is_rp (snd m2)); try discriminate; rewrite ?andb_false_r; reflexivity. }
  rewrite Hfp'.
  unfold adv, push, set_bef, set_stk, mkafter. cbn [stk bef depth asgn rev app].
  destruct rest as [|a [|b r]]; try reflexivity.
  rewrite (nojux_name _ _ Hj). reflexivity.
Qed.

Lemma term_num : forall s l x rest,
  nojux rest ->
  term (s, (l, TNum x) :: rest) = Some (mkafter s [(l, TNum x)] (L (l, TNum x)), rest).
Proof.
  intros s l x rest Hj. unfold term. cbn [snd].
  unfold adv, push, set_bef, set_stk, mkafter. cbn [stk bef depth asgn rev app].
  destruct rest as [|a r]; [reflexivity|].
  cbn [length skip_names]. rewrite (nojux_name _ _ Hj). reflexivity.
Qed.

(* ---------- quiet tokens *)
Lemma quiet_closer : forall cpp r b a l t rest,
  (t = TRP \/ t = TRB \/ t = TSemi) -> r <= 15 -> quiet cpp r b a ((l, t) :: rest).
Proof.
  intros cpp r b a l t rest Ht Hr rec n k dp.
  do 16 (destruct r as [|r]; [destruct Ht as [->|[->| ->]]; try reflexivity; destruct rest; reflexivity|]).
  lia.
Qed.

Lemma quiet_nil : forall cpp r b a, r <= 15 -> quiet cpp r b a [].
Proof.
  intros cpp r b a Hr rec n k dp.
  do 16 (destruct r as [|r]; [reflexivity|]). lia.
Qed.

Definition binrank (o : binop) : nat := 16 - bin_prec o.

Lemma classify_other : forall cpp r o s l rest,
  r <> binrank o -> classify cpp r (s, (l, TOp (bin_opr o)) :: rest) = Stop.
Proof.
  intros cpp r o s l rest Hr.
  destruct o; cbn [bin_opr];
    do 16 (destruct r as [|r]; [first [reflexivity | exfalso; apply Hr; reflexivity]|]); reflexivity.
Qed.

Lemma not_prefix_after : forall b t, aft b -> is_incdec t = false -> is_prefix_unary b t = false.
Proof.
  intros [|p b'] t H Ht; [destruct H|]. cbn [aft] in H. unfold is_prefix_unary.
  destruct H as [H|[H1 H2]].
  - destruct (snd p); try discriminate; cbn; rewrite ?andb_false_r; reflexivity.
  - rewrite H1, Ht. cbn [negb orb]. rewrite andb_false_r.
    destruct b' as [|pp b'']; [destruct H2|].
    destruct (snd pp); try discriminate; cbn; rewrite ?andb_false_r; reflexivity.
Qed.

Lemma bin_opr_not_incdec : forall o, is_incdec (TOp (bin_opr o)) = false.
Proof. destruct o; reflexivity. Qed.

(* a binary operator token right after an operand: every tighter loop stops *)
Lemma quiet_binop : forall cpp o r b a l rest,
  aft b -> r < binrank o -> quiet cpp r b a ((l, TOp (bin_opr o)) :: rest).
Proof.
  intros cpp o r b a l rest Ha Hr rec n k dp.
  destruct r as [|r].
  { cbn [lpn p2_loop snd]. destruct o; reflexivity. }
  destruct r as [|r].
  { cbn [lpn loop_at p3_loop snd bef]. rewrite (not_prefix_after b _ Ha (bin_opr_not_incdec o)). rewrite andb_false_r. reflexivity. }
  destruct r as [|r].
  { cbn [lpn loop_at ptr_loop snd]. destruct rest; [reflexivity|]. destruct o; reflexivity. }
  assert (Hc : classify cpp (S (S (S r))) (mkSt k b dp a, (l, TOp (bin_opr o)) :: rest) = Stop).
  { apply classify_other. lia. }
  assert (Hb : S (S (S r)) < 14). { unfold binrank in Hr. destruct o; cbn in Hr; lia. }
  cbn [lpn]. unfold loop_at.
  do 11 (destruct r as [|r];
         [cbn [bin_loop];
          match goal with |- context [classify ?c ?d ?z] =>
            replace (classify c d z) with Stop by (symmetry; exact Hc) end; reflexivity|]). lia.
Qed.

(* ---------- climbing over quiet ranks *)
Lemma climb_quiet : forall cpp rec n0 j r k b dp a rest,
  (forall r', r <= r' -> r' < r + j -> quiet cpp r' b a rest) ->
  climb cpp rec (S n0) r j (mkSt k b dp a, rest) = Some (mkSt k b dp a, rest).
Proof.
  induction j; intros; [reflexivity|].
  cbn [climb]. rewrite (H r); [|lia|lia]. apply IHj. intros. apply H; lia.
Qed.

(* ---------- rendering is balanced *)
Lemma close_split_app_plain : forall ts d acc l,
  (forall t, In t ts -> match snd t with TLP | TLB | TRP | TRB => False | _ => True end) ->
  close_split d acc (ts ++ l) = close_split d (rev ts ++ acc) l.
Proof.
  induction ts; intros d acc l H; [reflexivity|].
  cbn [app rev close_split]. rewrite <- app_assoc. cbn [app].
  assert (Ha := H a (or_introl eq_refl)).
  destruct (snd a); try destruct Ha; apply IHts; intros; apply H; right; assumption.
Qed.

Definition balanced (ts : list ptok) : Prop :=
  forall d acc l, close_split d acc (ts ++ l) = close_split d (rev ts ++ acc) l.

Lemma bal_nil : balanced [].
Proof. intros d acc l. reflexivity. Qed.

Lemma bal_app : forall a b, balanced a -> balanced b -> balanced (a ++ b).
Proof.
  intros a b Ha Hb d acc l. rewrite <- app_assoc, Ha, Hb, rev_app_distr, <- app_assoc. reflexivity.
Qed.

Lemma bal_one : forall t, match snd t with TLP | TLB | TRP | TRB => False | _ => True end -> balanced [t].
Proof.
  intros t H d acc l. apply (close_split_app_plain [t]). intros t' [<-|[]]. exact H.
Qed.

Lemma bal_paren : forall l1 l2 ts, balanced ts -> balanced ((l1, TLP) :: ts ++ [(l2, TRP)]).
Proof.
  intros l1 l2 ts H d acc l. cbn [app close_split snd]. rewrite <- app_assoc. rewrite H.
  cbn [app close_split snd rev]. rewrite rev_app_distr. cbn [rev app]. rewrite <- !app_assoc. reflexivity.
Qed.

Lemma bal_brack : forall l1 l2 ts, balanced ts -> balanced ((l1, TLB) :: ts ++ [(l2, TRB)]).
Proof.
  intros l1 l2 ts H d acc l. cbn [app close_split snd]. rewrite <- app_assoc. rewrite H.
  cbn [app close_split snd rev]. rewrite rev_app_distr. cbn [rev app]. rewrite <- !app_assoc. reflexivity.
Qed.

Lemma bal_wrap : forall b l ts, balanced ts -> balanced (wrap b l ts).
Proof. intros [] l ts H; [apply bal_paren; exact H|exact H]. Qed.

Lemma bal_cons : forall t ts, balanced [t] -> balanced ts -> balanced (t :: ts).
Proof. intros t ts H1 H2. apply (bal_app [t] ts H1 H2). Qed.

Ltac bal :=
  repeat first
    [ assumption | apply bal_nil | apply bal_wrap
    | apply bal_one; exact I
    | match goal with
      | |- balanced ((_, TLP) :: _ ++ [(_, TRP)]) => apply bal_paren
      | |- balanced ((_, TLB) :: _ ++ [(_, TRB)]) => apply bal_brack
      | |- balanced [(?a, TLP); (?b, TRP)] => exact (bal_paren a b [] bal_nil)
      | |- balanced (_ ++ _) => apply bal_app
      | |- balanced [_] => fail 1
      | |- balanced (_ :: _) => apply bal_cons
      end ].

Lemma render_balanced : forall e, balanced (render e).
Proof.
  induction e; cbn [render]; try solve [bal].
  (* ECast *)
  change ((l, TLP) :: (l, TType ty) :: (l, TRP) :: wrap (Nat.ltb (prec e) P_PRE) (rootlab e) (render e))
    with (((l, TLP) :: [(l, TType ty)] ++ [(l, TRP)]) ++ wrap (Nat.ltb (prec e) P_PRE) (rootlab e) (render e)).
  apply bal_app; [apply bal_paren; apply bal_one; exact I|apply bal_wrap; assumption].
Qed.

(* ---------- prefix operators *)
Lemma prefix_ok : forall b l o,
  opos b -> pstart b [(l, TOp (pre_opr o))] -> is_prefix_unary b (TOp (pre_opr o)) = true.
Proof.
  intros [|p b'] l o Ho Hp; [reflexivity|]. destruct Ho as [Hc Hi]. unfold pstart in Hp. cbn [hd_is snd] in Hp.
  unfold is_prefix_unary. rewrite Hc. destruct (is_incdec (snd p)) eqn:E.
  - specialize (Hp eq_refl). specialize (Hi eq_refl).
    destruct o; cbn in Hp; try discriminate; cbn; try reflexivity.
    destruct b' as [|pp b'']; [reflexivity|]. rewrite Hi. reflexivity.
  - reflexivity.
Qed.

Lemma opos_after_op : forall b l o, opos b -> opos ((l, TOp o) :: b).
Proof.
  intros b l o H. split; [reflexivity|]. intros _. destruct b as [|pp b']; [exact I|]. apply H.
Qed.

(* what an operand starts with: a run of * and & and then a name, number, '(' or another prefix operator *)
Fixpoint lead_ok (l : list ptok) : bool :=
  match l with
  | t :: r => match snd t with
              | TOp OStar | TOp OAmp => lead_ok r
              | TId _ | TNum _ | TLP | TOp OPlus | TOp OMinus | TOp ONot | TOp OTilde | TOp OInc | TOp ODec => true
              | _ => false
              end
  | [] => false
  end.

Lemma lead_ok_app : forall l r, lead_ok l = true -> lead_ok (l ++ r) = true.
Proof.
  induction l; intros r H; [discriminate|]. cbn [app lead_ok] in *.
  destruct (snd a); try discriminate; try reflexivity. destruct o; try discriminate; try reflexivity; apply IHl; exact H.
Qed.

Lemma lead_not_qualifier : forall l, lead_ok l = true -> is_qualifier l = false.
Proof.
  induction l; intros H; [reflexivity|]. destruct a as [x k]. cbn [lead_ok snd] in H. cbn [is_qualifier].
  destruct k; try discriminate; try reflexivity. destruct o; try discriminate; try reflexivity; apply IHl; exact H.
Qed.

Lemma lead_skip_stars : forall l acc, lead_ok l = true ->
  hd_is is_gt_rp_comma (snd (skip_stars acc l)) = false.
Proof.
  induction l; intros acc H; [discriminate|]. cbn [skip_stars].
  destruct l as [|a2 l'].
  - cbn [snd hd_is]. cbn [lead_ok] in H. destruct (snd a); try discriminate; try reflexivity.
    destruct o; try discriminate; reflexivity.
  - destruct (is_star (snd a)) eqn:E.
    + apply IHl. cbn [lead_ok] in H. destruct (snd a); try discriminate. destruct o; try discriminate. exact H.
    + cbn [snd hd_is]. cbn [lead_ok] in H. destruct (snd a); try discriminate; try reflexivity.
      destruct o; try discriminate; reflexivity.
Qed.

Lemma lead_not_comma_rp : forall l, lead_ok l = true -> hd_is is_comma_rp l = false.
Proof.
  intros [|t r] H; [reflexivity|]. cbn [lead_ok hd_is] in *. destruct (snd t); try discriminate; try reflexivity.
Qed.

Lemma star_jump_none : forall s t r, lead_ok r = true -> star_jump (s, t :: r) = None.
Proof.
  intros s t r H. unfold star_jump.
  destruct (is_star (snd t) && hd_is (fun x => is_star x || is_comma_rp x) r); [|reflexivity].
  pose proof (lead_skip_stars r [] H) as Hs. destruct (skip_stars [] r) as [acc r']. cbn [snd] in Hs.
  rewrite Hs. reflexivity.
Qed.

(* ---------- '?' outside brackets *)
Definition dbal (ts : list ptok) : Prop := forall d l, topq_d d (ts ++ l) = topq_d d ts || topq_d d l.

Lemma dbal_nil : dbal [].
Proof. intros d l. reflexivity. Qed.

Lemma dbal_app : forall a b, dbal a -> dbal b -> dbal (a ++ b).
Proof. intros a b Ha Hb d l. rewrite <- app_assoc, Ha, Hb, Ha, orb_assoc. reflexivity. Qed.

Lemma dbal_one : forall t, match snd t with TLP | TLB | TRP | TRB => False | _ => True end -> dbal [t].
Proof.
  intros t H d l. cbn [app topq_d]. destruct (snd t); try destruct H; rewrite ?orb_false_r; reflexivity.
Qed.

Lemma dbal_group : forall (o c : ptok) ts,
  (snd o = TLP \/ snd o = TLB) -> (snd c = TRP \/ snd c = TRB) -> dbal ts -> dbal (o :: ts ++ [c]).
Proof.
  intros o c ts Ho Hc H d l. cbn [app]. rewrite <- app_assoc. cbn [app].
  assert (E1 : topq_d d (o :: ts ++ c :: l) = topq_d (S d) (ts ++ c :: l)) by (cbn [topq_d]; destruct Ho as [-> | ->]; reflexivity).
  assert (E2 : topq_d d (o :: ts ++ [c]) = topq_d (S d) (ts ++ [c])) by (cbn [topq_d]; destruct Ho as [-> | ->]; reflexivity).
  rewrite E1, E2, !H.
  assert (E3 : topq_d (S d) (c :: l) = topq_d d l) by (cbn [topq_d]; destruct Hc as [-> | ->]; reflexivity).
  assert (E4 : topq_d (S d) [c] = false) by (cbn [topq_d]; destruct Hc as [-> | ->]; reflexivity).
  rewrite E3, E4, orb_false_r. reflexivity.
Qed.

Lemma dbal_wrap : forall b l ts, dbal ts -> dbal (wrap b l ts).
Proof. intros [] l ts H; [|exact H]. apply (dbal_group (l, TLP) (l, TRP)); [left; reflexivity|left; reflexivity|exact H]. Qed.

Lemma dbal_cons : forall t ts, dbal [t] -> dbal ts -> dbal (t :: ts).
Proof. intros t ts H1 H2. apply (dbal_app [t] ts H1 H2). Qed.

Ltac dbl :=
  repeat first
    [ assumption | apply dbal_nil | apply dbal_wrap
    | apply dbal_one; exact I
    | match goal with
      | |- dbal [(?a, TLP); (?b, TRP)] => exact (dbal_group (a, TLP) (b, TRP) [] (or_introl eq_refl) (or_introl eq_refl) dbal_nil)
      | |- dbal ((_, TLP) :: _ ++ [(_, TRP)]) => apply dbal_group; [left; reflexivity|left; reflexivity|]
      | |- dbal ((_, TLB) :: _ ++ [(_, TRB)]) => apply dbal_group; [right; reflexivity|right; reflexivity|]
      | |- dbal (_ ++ _) => apply dbal_app
      | |- dbal [_] => fail 1
      | |- dbal (_ :: _) => apply dbal_cons
      end ].

Lemma render_dbal : forall e, dbal (render e).
Proof.
  induction e; cbn [render]; dbl.
Qed.

Lemma renderP_dbal : forall e, dbal (renderP e).
Proof.
  induction e; cbn [renderP]; dbl.
Qed.

Lemma topq_hasq : forall l d, topq_d d l = true -> hasq l = true.
Proof.
  induction l; intros d H; [discriminate|]. cbn [topq_d] in H. cbn [hasq existsb]. fold (hasq l).
  destruct (snd a); try (rewrite (IHl _ H); apply orb_true_r). reflexivity.
Qed.
