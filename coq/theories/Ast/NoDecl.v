(* C07 proofs: the "X ) ( name ) =" heuristic of compileTerm cannot apply when no '(' follows a ')'. *)
From Coq Require Import List NArith Bool Arith Lia.
From CV Require Import Ast.Defs Ast.Frag Ast.Main1 Ast.Main2.
Import ListNotations.

(* is there a '(' directly after a ')' ([p] = the previous token is ')') *)
Fixpoint rplp (p : bool) (l : list ptok) : bool :=
  match l with
  | [] => false
  | t :: r => (p && is_lp (snd t)) || rplp (is_rp (snd t)) r
  end.

Definition lastrp (p : bool) (l : list ptok) : bool := fold_left (fun _ t => is_rp (snd t)) l p.

Lemma rplp_app : forall l1 p l2, rplp p (l1 ++ l2) = rplp p l1 || rplp (lastrp p l1) l2.
Proof.
  induction l1; intros p l2; [reflexivity|].
  cbn [app rplp lastrp fold_left]. rewrite IHl1. rewrite orb_assoc. reflexivity.
Qed.

Lemma lastrp_snoc : forall l p t, lastrp p (l ++ [t]) = is_rp (snd t).
Proof. intros. unfold lastrp. rewrite fold_left_app. reflexivity. Qed.

Definition head_clean (b : list ptok) : Prop :=
  match b with m1 :: m2 :: _ => is_lp (snd m1) && is_rp (snd m2) = false | _ => True end.

Lemma no_rplp_not_decl_like : forall l b,
  head_clean b -> rplp (hd_is is_rp b) l = false -> decl_like_from b l = false.
Proof.
  induction l as [|t r IH]; intros b Hc H; [reflexivity|].
  cbn [rplp decl_like_from] in *. apply orb_false_iff in H. destruct H as [H1 H2].
  rewrite IH.
  - rewrite orb_false_r. destruct (snd t); try reflexivity.
    unfold fnptr_pattern. cbn [st0 bef]. destruct r as [|t1 [|t2 r2]]; try reflexivity.
    destruct b as [|m1 [|m2 [|m3 b3]]]; try reflexivity. cbn [head_clean] in Hc.
    destruct (is_lp (snd m1)), (is_rp (snd m2)); try discriminate; rewrite ?andb_false_r; reflexivity.
  - destruct b as [|m1 b']; [exact I|]. cbn [head_clean hd_is] in *. rewrite andb_comm. exact H1.
  - exact H2.
Qed.

Lemma rplp_wrap : forall b l ts, rplp false ts = false -> rplp false (wrap b l ts) = false.
Proof.
  intros [] l ts H; [|exact H]. cbn [wrap rplp is_lp is_rp snd andb orb].
  rewrite rplp_app, H. destruct (lastrp false ts); reflexivity.
Qed.

Lemma rplp_join : forall ra rb t, is_lp (snd t) = false -> is_rp (snd t) = false ->
  rplp false ra = false -> rplp false rb = false -> rplp false (ra ++ t :: rb) = false.
Proof.
  intros ra rb t H1 H2 Ha Hb. rewrite rplp_app, Ha. cbn [rplp orb]. rewrite H1, H2, andb_false_r, Hb. reflexivity.
Qed.

Lemma frag2_no_rplp : forall e, frag2 e = true -> rplp false (render e) = false.
Proof.
  induction e; intros Hf; try discriminate; cbn [frag2] in Hf; cbn [render];
    try (apply andb_true_iff in Hf; destruct Hf as [Hf1 Hf2]); try reflexivity.
  - apply rplp_join; try reflexivity; apply rplp_wrap; auto.
  - apply rplp_join; try reflexivity; apply rplp_wrap; auto.
  - apply rplp_join; try reflexivity; apply rplp_wrap; auto.
  - apply (rplp_wrap true l (render e)). auto.
Qed.

Lemma frag2_not_decl_like : forall e, frag2 e = true -> decl_like (render e) = false.
Proof.
  intros e Hf. unfold decl_like. apply no_rplp_not_decl_like; [exact I|].
  cbn [hd_is semi snd is_rp]. rewrite rplp_app, (frag2_no_rplp e Hf). cbn [rplp orb].
  rewrite andb_false_r. reflexivity.
Qed.

Theorem parse_render_stage2_full : forall cpp e,
  frag2 e = true -> parse cpp (render e) = Some (tree_of e).
Proof. exact parse_render_stage2. Qed.
