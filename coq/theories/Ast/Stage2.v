(* C07 proofs, part 5: assignment (right-associative, assign counter) and comma. *)
From Coq Require Import List NArith Bool Arith Lia.
From CV Require Import Ast.Defs Ast.Frag Ast.Basics Ast.Ctx Ast.Stage1.
Import ListNotations.

Lemma quiet_asgop : forall cpp o r b a l rest,
  aft b -> r < 14 -> quiet cpp r b a ((l, TOp (OAsg o)) :: rest).
Proof.
  intros cpp o r b a l rest Ha Hr rec n k dp.
  destruct r as [|r]; [reflexivity|].
  destruct r as [|r]; [reflexivity|].
  destruct r as [|r]; [cbn [lpn loop_at ptr_loop snd]; destruct rest; reflexivity|].
  do 11 (destruct r as [|r]; [reflexivity|]). lia.
Qed.

Lemma quiet_comma : forall cpp r b a l rest,
  r < 15 -> quiet cpp r b a ((l, TComma) :: rest).
Proof.
  intros cpp r b a l rest Hr rec n k dp.
  destruct r as [|r]; [reflexivity|].
  destruct r as [|r]; [reflexivity|].
  destruct r as [|r]; [cbn [lpn loop_at ptr_loop snd]; destruct rest; reflexivity|].
  do 12 (destruct r as [|r]; [reflexivity|]). lia.
Qed.

(* ---------- assignment *)
Lemma Sx_asg : forall cpp o l ra ta ka rb tb kb,
  Sx cpp ra ta ka -> Sx cpp rb tb kb ->
  ka <= 13 -> kb <= 14 -> ender2 ra -> rb <> [] -> ra <> [] -> dbal ra ->
  Sx cpp (ra ++ (l, TOp (OAsg o)) :: rb) (B (l, TOp (OAsg o)) ta tb) 14.
Proof.
  intros cpp o l ra ta ka rb tb kb IHa IHb Hka Hkb Hend Hrb Hra Hdb f d s rest out n Hrk Hd Hn Hlen Hop Hps Hj Hnd Hq Hq14 Hq1 Hz Hc.
  set (op := (l, TOp (OAsg o))) in *.
  rewrite app_length in Hn. cbn [length] in Hn.
  rewrite <- app_assoc in *. cbn [app] in *.
  rewrite app_length in Hlen. cbn [length] in Hlen. rewrite app_length in Hlen.
  assert (Hla : 1 <= length ra) by (destruct ra; [contradiction|cbn; lia]).
  destruct rb as [|t1 rb']; [contradiction|].
  set (rb := t1 :: rb') in *.
  destruct f as [|f']; [lia|].
  set (sa := mkafter s ra ta).
  set (s' := mkafter s (ra ++ op :: rb) (B op ta tb)) in *.
  assert (Hbin : bin_op (Some (comp cpp (S f') D_ASG)) (set_asgn sa (S (asgn sa)), op :: rb ++ rest)
                 = Some (set_asgn s' (S (asgn s)), rest)).
  { unfold bin_op. unfold rb at 1. cbn [app].
    set (s1 := mkSt (stk (set_asgn sa (S (asgn sa)))) (op :: bef (set_asgn sa (S (asgn sa))))
                    (S (depth (set_asgn sa (S (asgn sa))))) (asgn (set_asgn sa (S (asgn sa))))).
    assert (Hb : comp cpp (S f') D_ASG (s1, rb ++ rest) = Some (mkafter s1 rb tb, rest)).
    { apply (IHb f' 14 s1 rest _ 1).
      - exact Hkb.
      - lia.
      - cbn [length] in *. lia.
      - rewrite app_length. cbn [length] in *. lia.
      - cbn. split; [reflexivity|discriminate].
      - apply pstart_vac. reflexivity.
      - exact Hj.
      - right. reflexivity.
      - intros r a0 Hr. unfold s1, sa, mkafter, set_asgn. cbn [bef asgn stk depth].
        rewrite <- rev_mid. apply Hq. lia.
      - intros E a0. unfold s1, sa, mkafter, set_asgn. cbn [bef asgn stk depth].
        rewrite <- rev_mid. apply Hq14. reflexivity.
      - intros E a0. unfold s1, sa, mkafter, set_asgn. cbn [bef asgn stk depth].
        rewrite <- rev_mid. apply Hq. lia.
      - intros E Hh. unfold s1, sa, mkafter, set_asgn. cbn [bef asgn stk depth].
        rewrite <- rev_mid. apply Hz; [reflexivity|].
        unfold topq in *. rewrite (Hdb 0 (op :: rb)). unfold op at 1. cbn [topq_d snd]. fold op.
        rewrite Hh. apply orb_true_r.
      - unfold mkafter. apply cont_quiet; [exact Hkb|]. intros r Hr.
        unfold s1, sa, mkafter, set_asgn. cbn [bef asgn stk depth]. rewrite <- rev_mid.
        destruct (Nat.eq_dec r 14) as [->|Hne]; [apply Hq14; reflexivity|apply Hq; lia]. }
    change (t1 :: rb' ++ rest) with (rb ++ rest). rewrite Hb.
    unfold s', mkafter, set_depth, set_stk, set_asgn, s1, sa, mkafter, set_asgn. cbn [stk bef depth asgn Nat.pred].
    rewrite rev_mid. reflexivity. }
  assert (Hstep : forall m, n <= m ->
            match lpn cpp (comp cpp (S f')) 14 (S m) (sa, op :: rb ++ rest) with
            | Some z' => climb cpp (comp cpp (S f')) (S (S f')) 15 (d - 14) z'
            | None => None end = Some out).
  { intros m Hm.
    change (lpn cpp (comp cpp (S f')) 14 (S m) (sa, op :: rb ++ rest))
      with (asg_loop (comp cpp (S f')) (S m) (sa, op :: rb ++ rest)).
    cbn [asg_loop snd op]. fold op. rewrite Hbin.
    replace (set_asgn (set_asgn s' (S (asgn s))) (Nat.pred (asgn (set_asgn s' (S (asgn s)))))) with s'
      by (unfold s', mkafter, set_asgn; cbn [stk bef depth asgn Nat.pred]; reflexivity).
    unfold cont in Hc.
    change (lpn cpp (comp cpp (S f')) 14 n (s', rest)) with (asg_loop (comp cpp (S f')) n (s', rest)) in Hc.
    destruct (asg_loop (comp cpp (S f')) n (s', rest)) as [z'|] eqn:E; [|discriminate].
    rewrite (asg_loop_mono _ _ _ _ E m Hm). exact Hc. }
  apply (IHa (S f') d s (op :: rb ++ rest) out 1).
  - lia.
  - exact Hd.
  - cbn [length] in *. lia.
  - rewrite app_length. cbn [length]. rewrite app_length. lia.
  - exact Hop.
  - apply (pstart_app_l _ ra (op :: rb) Hra). exact Hps.
  - reflexivity.
  - exact Hnd.
  - intros r a0 Hr. apply quiet_asgop; [apply Hend|lia].
  - intros E. lia.
  - intros E a0. apply quiet_asgop; [apply Hend|lia].
  - intros E. lia.
  - fold sa. unfold cont.
    assert (Hqa : forall r, r < 14 -> quiet cpp r (bef sa) (asgn sa) (op :: rb ++ rest)).
    { intros r Hr. unfold sa, mkafter. cbn [bef asgn]. apply quiet_asgop; [apply Hend|exact Hr]. }
    unfold sa at 1, mkafter at 1. rewrite (Hqa ka) by lia.
    replace (d - ka) with ((14 - S ka) + S (d - 14)) by lia.
    rewrite climb_app. unfold mkafter.
    rewrite climb_quiet by (intros; apply Hqa; lia).
    replace (S ka + (14 - S ka)) with 14 by lia.
    cbn [climb]. fold (mkafter s ra ta). fold sa. apply Hstep. cbn [length] in *. lia.
Qed.

(* ---------- comma *)
Lemma Sx_comma : forall cpp l ra ta ka rb tb kb,
  Sx cpp ra ta ka -> Sx cpp rb tb kb ->
  ka <= 15 -> kb <= 14 -> rb <> [] -> ra <> [] ->
  Sx cpp (ra ++ (l, TComma) :: rb) (B (l, TComma) ta tb) 15.
Proof.
  intros cpp l ra ta ka rb tb kb IHa IHb Hka Hkb Hrb Hra f d s rest out n Hrk Hd Hn Hlen Hop Hps Hj Hnd Hq Hq14 Hq1 Hz Hc.
  set (op := (l, TComma)) in *.
  rewrite app_length in Hn. cbn [length] in Hn.
  rewrite <- app_assoc in *. cbn [app] in *.
  rewrite app_length in Hlen. cbn [length] in Hlen. rewrite app_length in Hlen.
  assert (Hla : 1 <= length ra) by (destruct ra; [contradiction|cbn; lia]).
  destruct rb as [|t1 rb']; [contradiction|].
  set (rb := t1 :: rb') in *.
  destruct f as [|f']; [lia|].
  set (sa := mkafter s ra ta).
  set (s' := mkafter s (ra ++ op :: rb) (B op ta tb)) in *.
  assert (Hbin : bin_op (Some (comp cpp (S f') D_ASG)) (sa, op :: rb ++ rest) = Some (s', rest)).
  { unfold bin_op. unfold rb at 1. cbn [app].
    set (s1 := mkSt (stk sa) (op :: bef sa) (S (depth sa)) (asgn sa)).
    assert (Hb : comp cpp (S f') D_ASG (s1, rb ++ rest) = Some (mkafter s1 rb tb, rest)).
    { apply (IHb f' 14 s1 rest _ 1).
      - exact Hkb.
      - lia.
      - cbn [length] in *. lia.
      - rewrite app_length. cbn [length] in *. lia.
      - cbn. split; [reflexivity|discriminate].
      - apply pstart_vac. reflexivity.
      - exact Hj.
      - right. reflexivity.
      - intros r a0 Hr. unfold s1, sa, mkafter. cbn [bef asgn].
        rewrite <- rev_mid. apply Hq. lia.
      - intros E a0. unfold s1, sa, mkafter. cbn [bef asgn].
        rewrite <- rev_mid. apply Hq. lia.
      - intros E a0. unfold s1, sa, mkafter. cbn [bef asgn].
        rewrite <- rev_mid. apply Hq. lia.
      - intros E Hh. unfold s1, sa, mkafter. cbn [bef asgn].
        rewrite <- rev_mid. apply Hq. lia.
      - unfold mkafter. apply cont_quiet; [exact Hkb|]. intros r Hr. unfold s1, sa, mkafter. cbn [bef asgn stk depth].
        rewrite <- rev_mid. apply Hq. lia. }
    change (t1 :: rb' ++ rest) with (rb ++ rest). rewrite Hb.
    unfold s', mkafter, set_depth, set_stk, s1, sa, mkafter. cbn [stk bef depth asgn Nat.pred].
    rewrite rev_mid. reflexivity. }
  assert (Hd15 : d = 15) by lia. subst d.
  assert (Hstep : forall m, n <= m ->
            match lpn cpp (comp cpp (S f')) 15 (S m) (sa, op :: rb ++ rest) with
            | Some z' => climb cpp (comp cpp (S f')) (S (S f')) 16 (15 - 15) z'
            | None => None end = Some out).
  { intros m Hm.
    change (lpn cpp (comp cpp (S f')) 15 (S m) (sa, op :: rb ++ rest))
      with (comma_loop (comp cpp (S f')) (S m) (sa, op :: rb ++ rest)).
    cbn [comma_loop snd op]. fold op. rewrite Hbin.
    unfold cont in Hc.
    change (lpn cpp (comp cpp (S f')) 15 n (s', rest)) with (comma_loop (comp cpp (S f')) n (s', rest)) in Hc.
    destruct (comma_loop (comp cpp (S f')) n (s', rest)) as [z'|] eqn:E; [|discriminate].
    rewrite (comma_loop_mono _ _ _ _ E m Hm). exact Hc. }
  apply (IHa (S f') 15 s (op :: rb ++ rest) out (S (n + length rb))).
  - exact Hka.
  - lia.
  - cbn [length] in *. lia.
  - rewrite app_length. cbn [length]. rewrite app_length. lia.
  - exact Hop.
  - apply (pstart_app_l _ ra (op :: rb) Hra). exact Hps.
  - reflexivity.
  - exact Hnd.
  - intros r a0 Hr. apply quiet_comma. lia.
  - intros E a0. apply quiet_comma. lia.
  - intros E a0. apply quiet_comma. lia.
  - intros E Hh. apply quiet_comma. lia.
  - fold sa. unfold cont.
    destruct (Nat.eq_dec ka 15) as [->|Hne].
    + apply Hstep. lia.
    + assert (Hqa : forall r, r < 15 -> quiet cpp r (bef sa) (asgn sa) (op :: rb ++ rest)).
      { intros r Hr. apply quiet_comma. exact Hr. }
      unfold sa at 1, mkafter at 1. rewrite (Hqa ka) by lia.
      replace (15 - ka) with ((15 - S ka) + S (15 - 15)) by lia.
      rewrite climb_app. unfold mkafter.
      rewrite climb_quiet by (intros; apply Hqa; lia).
      replace (S ka + (15 - S ka)) with 15 by lia.
      cbn [climb]. fold (mkafter s ra ta). fold sa.
      specialize (Hstep (S f')). cbn [Nat.sub climb] in *. apply Hstep.
      cbn [length] in *. lia.
Qed.
