(* C07 proofs, part 7: prefix unary operators (+ - ! ~ * & ++ --) and isPrefixUnary. *)
From Coq Require Import List NArith Bool Arith Lia.
From CV Require Import Ast.Defs Ast.Frag Ast.Basics Ast.Ctx Ast.Stage1.
Import ListNotations.

Lemma pre_cand : forall o,
  match TOp (pre_opr o) with
  | TOp OPlus | TOp OMinus | TOp ONot | TOp OTilde | TOp OStar | TOp OAmp | TOp OInc | TOp ODec => true
  | _ => false
  end = true.
Proof. destruct o; reflexivity. Qed.

Lemma p3_loop_step : forall rec n s (t : ptok) r,
  p3_loop rec (S n) (s, t :: r) =
  if (match snd t with
      | TOp OPlus | TOp OMinus | TOp ONot | TOp OTilde | TOp OStar | TOp OAmp | TOp OInc | TOp ODec => true
      | _ => false
      end) && is_prefix_unary (bef s) (snd t)
  then match star_jump (s, t :: r) with
       | Some z' => p3_loop rec n z'
       | None => match un_op (Some (rec D_P3)) (s, t :: r) with
                 | None => None
                 | Some z' => p3_loop rec n z'
                 end
       end
  else Some (s, t :: r).
Proof. reflexivity. Qed.

Lemma Sx_pre : forall cpp o l rb tb kb,
  Sx cpp rb tb kb -> kb <= 1 -> lead_ok rb = true ->
  N.ltb (fst (rt tb)) l = false ->
  (is_incdec (TOp (pre_opr o)) = true -> hd_is bad_after_incdec rb = false) ->
  Sx cpp ((l, TOp (pre_opr o)) :: rb) (U (l, TOp (pre_opr o)) tb) 1.
Proof.
  intros cpp o l rb tb kb IHb Hkb Hlead Hlab Hbad f d s rest out n Hrk Hd Hn Hlen Hop Hps Hj Hnd Hq Hq14 Hq1 Hz Hc.
  set (op := (l, TOp (pre_opr o))) in *.
  destruct n as [|n']; [unfold cont in Hc; rewrite lpn_0 in Hc; discriminate|].
  cbn [length] in Hn. cbn [app length] in Hlen. rewrite app_length in Hlen.
  destruct f as [|f']; [lia|].
  assert (Hpu : is_prefix_unary (bef s) (TOp (pre_opr o)) = true).
  { apply (prefix_ok (bef s) l o Hop). intros H. specialize (Hps H). exact Hps. }
  set (s' := mkafter s (op :: rb) (U op tb)) in *.
  (* compileUnaryOp(tok, state, compilePrecedence3) *)
  assert (Hun : un_op (Some (comp cpp (S f') D_P3)) (s, op :: rb ++ rest) = Some (s', rest)).
  { unfold un_op.
    destruct rb as [|t1 rb']; [discriminate Hlead|]. set (rb := t1 :: rb') in *.
    change ((t1 :: rb') ++ rest) with (rb ++ rest).
    set (s1 := mkSt (stk s) (op :: bef s) (S (depth s)) (asgn s)).
    assert (Hb : comp cpp (S f') D_P3 (s1, rb ++ rest) = Some (mkafter s1 rb tb, rest)).
    { apply (IHb f' 1 s1 rest _ 1).
      - exact Hkb.
      - lia.
      - lia.
      - rewrite app_length. lia.
      - unfold s1. cbn [bef]. unfold op. apply opos_after_op. exact Hop.
      - unfold s1. cbn [bef]. intros H. apply Hbad. exact H.
      - exact Hj.
      - right. reflexivity.
      - intros r a0 Hr. unfold s1. cbn [bef].
        replace (rev rb ++ op :: bef s) with (rev (op :: rb) ++ bef s)
          by (cbn [rev]; rewrite <- app_assoc; reflexivity).
        apply Hq. lia.
      - intros E. lia.
      - intros E a0. unfold s1. cbn [bef].
        replace (rev rb ++ op :: bef s) with (rev (op :: rb) ++ bef s)
          by (cbn [rev]; rewrite <- app_assoc; reflexivity).
        apply Hq1. reflexivity.
      - intros E. lia.
      - unfold mkafter. apply cont_quiet; [exact Hkb|]. intros r Hr. unfold s1. cbn [bef asgn stk depth].
        destruct r as [|r].
        + replace (rev rb ++ op :: bef s) with (rev (op :: rb) ++ bef s)
            by (cbn [rev]; rewrite <- app_assoc; reflexivity).
          apply Hq. lia.
        + assert (r = 0) by lia. subst r.
          replace (rev rb ++ op :: bef s) with (rev (op :: rb) ++ bef s)
            by (cbn [rev]; rewrite <- app_assoc; reflexivity).
          apply Hq1. reflexivity. }
    unfold rb at 1. cbn [app]. change (t1 :: rb' ++ rest) with (rb ++ rest). unfold D_P3 in *.
    rewrite Hb.
    unfold s', mkafter, set_depth, set_stk, s1. cbn [stk bef depth asgn Nat.pred rt].
    unfold precedes, op. cbn [fst]. rewrite Hlab. cbn [negb orb].
    cbn [rev]. rewrite <- app_assoc. reflexivity. }
  rewrite comp_eq. cbn [app].
  assert (Hh : p2_head (s, op :: rb ++ rest) = Some (s, op :: rb ++ rest)) by (unfold op; destruct o; reflexivity).
  rewrite Hh.
  destruct d as [|d']; [lia|].
  cbn [climb].
  assert (H0 : lpn cpp (comp cpp (S f')) 0 (S (S f')) (s, op :: rb ++ rest) = Some (s, op :: rb ++ rest)).
  { cbn [lpn p2_loop snd op]. destruct o; try reflexivity; cbn [pre_opr] in *; rewrite Hpu; reflexivity. }
  rewrite H0.
  change (lpn cpp (comp cpp (S f')) 1 (S (S f')) (s, op :: rb ++ rest))
    with (p3_loop (comp cpp (S f')) (S (S f')) (s, op :: rb ++ rest)).
  rewrite p3_loop_step. cbn [snd op]. rewrite pre_cand. fold op. rewrite Hpu. cbn [andb].
  rewrite star_jump_none by (apply lead_ok_app; exact Hlead).
  unfold D_P3 in *. rewrite Hun.
  unfold cont in Hc.
  change (lpn cpp (comp cpp (S f')) 1 (S n') (s', rest)) with (p3_loop (comp cpp (S f')) (S n') (s', rest)) in Hc.
  destruct (p3_loop (comp cpp (S f')) (S n') (s', rest)) as [z'|] eqn:E; [|discriminate].
  rewrite (p3_loop_mono _ _ _ _ E (S f')) by lia.
  replace (S d' - 1) with d' in Hc by lia. exact Hc.
Qed.
