(* C07 proofs, part 6: the theorem for the fragment of stage 1 + assignment operators + comma. *)
From Coq Require Import List NArith Bool Arith Lia.
From CV Require Import Ast.Defs Ast.Frag Ast.Basics Ast.Ctx Ast.Stage1 Ast.Main1 Ast.Stage2.
Import ListNotations.

Fixpoint frag2 (e : expr) : bool :=
  match e with
  | EId _ _ | ENum _ _ => true
  | EBin _ _ a b | EAsg _ _ a b | EComma _ a b => frag2 a && frag2 b
  | EPar _ a => frag2 a
  | _ => false
  end.

Lemma frag1_frag2 : forall e, frag1 e = true -> frag2 e = true.
Proof.
  induction e; intros H; try discriminate; cbn [frag1 frag2] in *; auto.
  apply andb_true_iff in H. destruct H. rewrite IHe1, IHe2 by assumption. reflexivity.
Qed.

Ltac wrap_facts Sa Ea Sta Na e1 m :=
  pose proof (Sx_wrap _ (Nat.ltb (prec e1) m) (rootlab e1) _ _ _ Sa (rank_le e1) (render_balanced e1));
  pose proof (ender_wrap (Nat.ltb (prec e1) m) (rootlab e1) _ Ea);
  pose proof (ender_ender2 _ (ender_wrap (Nat.ltb (prec e1) m) (rootlab e1) _ Ea));
  pose proof (starter_wrap (Nat.ltb (prec e1) m) (rootlab e1) _ Sta);
  pose proof (dbal_wrap (Nat.ltb (prec e1) m) (rootlab e1) _ (render_dbal e1));
  pose proof (wrap_nonnil (Nat.ltb (prec e1) m) (rootlab e1) _ Na).

Lemma ender_mid : forall (ra rb : list ptok) t, ender rb -> ender (ra ++ t :: rb).
Proof.
  intros ra rb t [pre [x [-> Hx]]]. exists (ra ++ t :: pre), x. rewrite <- app_assoc. split; [reflexivity|exact Hx].
Qed.

Lemma starter_app : forall (ra rb : list ptok), starter1 ra -> starter1 (ra ++ rb).
Proof. intros ra rb H. apply lead_ok_app. exact H. Qed.

Lemma app_nonnil : forall (ra rb : list ptok), ra <> [] -> ra ++ rb <> [].
Proof. intros [|a ra] rb H; [contradiction|discriminate]. Qed.

Lemma wrapped_rank : forall e m, (if Nat.ltb (prec e) m then 0 else rank e) <= 16 - m.
Proof.
  intros e m. destruct (Nat.ltb (prec e) m) eqn:E; [lia|]. apply Nat.ltb_ge in E. unfold rank. lia.
Qed.

Lemma main2 : forall cpp e, frag2 e = true ->
  Sx cpp (render e) (tree_of e) (rank e) /\ ender (render e) /\ starter1 (render e) /\ render e <> [].
Proof.
  induction e; intros Hf; try discriminate; cbn [frag2] in Hf.
  - repeat split; [apply Sx_id|exists [], (l, TId n); split; reflexivity|discriminate].
  - repeat split; [apply Sx_num|exists [], (l, TNum n); split; reflexivity|discriminate].
  - (* EBin *)
    apply andb_true_iff in Hf. destruct Hf as [Hf1 Hf2].
    destruct (IHe1 Hf1) as [Sa [Ea [Sta Na]]]. destruct (IHe2 Hf2) as [Sb [Eb [Stb Nb]]].
    cbn [render tree_of].
    wrap_facts Sa Ea Sta Na e1 (bin_prec o). wrap_facts Sb Eb Stb Nb e2 (S (bin_prec o)).
    repeat split.
    + change (rank (EBin l o e1 e2)) with (binrank o).
      eapply Sx_bin; try eassumption.
      * pose proof (wrapped_rank e1 (bin_prec o)). unfold binrank. lia.
      * pose proof (wrapped_rank e2 (S (bin_prec o))). destruct (binrank_range o). unfold binrank in *. lia.
    + apply ender_mid; assumption.
    + apply starter_app; assumption.
    + apply app_nonnil; assumption.
  - (* EAsg *)
    apply andb_true_iff in Hf. destruct Hf as [Hf1 Hf2].
    destruct (IHe1 Hf1) as [Sa [Ea [Sta Na]]]. destruct (IHe2 Hf2) as [Sb [Eb [Stb Nb]]].
    cbn [render tree_of].
    wrap_facts Sa Ea Sta Na e1 P_LOR. wrap_facts Sb Eb Stb Nb e2 P_ASG.
    repeat split.
    + change (rank (EAsg l o e1 e2)) with 14.
      eapply Sx_asg; try eassumption.
      * pose proof (wrapped_rank e1 P_LOR). unfold P_LOR in *. lia.
      * pose proof (wrapped_rank e2 P_ASG). unfold P_ASG in *. lia.
    + apply ender_mid; assumption.
    + apply starter_app; assumption.
    + apply app_nonnil; assumption.
  - (* EComma *)
    apply andb_true_iff in Hf. destruct Hf as [Hf1 Hf2].
    destruct (IHe1 Hf1) as [Sa [Ea [Sta Na]]]. destruct (IHe2 Hf2) as [Sb [Eb [Stb Nb]]].
    cbn [render tree_of].
    wrap_facts Sa Ea Sta Na e1 P_COMMA. wrap_facts Sb Eb Stb Nb e2 P_ASG.
    repeat split.
    + change (rank (EComma l e1 e2)) with 15.
      eapply Sx_comma; try eassumption.
      * pose proof (wrapped_rank e1 P_COMMA). unfold P_COMMA in *. lia.
      * pose proof (wrapped_rank e2 P_ASG). unfold P_ASG in *. lia.
    + apply ender_mid; assumption.
    + apply starter_app; assumption.
    + apply app_nonnil; assumption.
  - (* EPar *)
    destruct (IHe Hf) as [Sa [Ea [Sta Na]]]. cbn [render tree_of].
    repeat split.
    + change (rank (EPar l e)) with 0.
      apply (Sx_paren cpp (render e) (tree_of e) (rank e) l l Sa); [apply rank_le|apply render_balanced].
    + exists ((l, TLP) :: render e), (l, TRP). split; reflexivity.
    + discriminate.
Qed.

Lemma frag2_no_q : forall e, frag2 e = true -> alltok is_q (render e).
Proof.
  induction e; intros Hf; try discriminate; cbn [frag2] in Hf; cbn [render];
    try (apply andb_true_iff in Hf; destruct Hf);
    repeat first [ apply alltok_app | apply alltok_wrap | apply alltok_one | reflexivity
                 | solve [auto] | match goal with |- alltok _ (?t :: ?r) => apply (alltok_app is_q [t] r) end ].
  all: try (destruct o; reflexivity).
Qed.

Theorem parse_render_stage2 : forall cpp e,
  frag2 e = true -> parse cpp (render e) = Some (tree_of e).
Proof.
  intros cpp e Hf. destruct (main2 cpp e Hf) as [HS _].
  apply (parse_of_Sx cpp _ _ (rank e) HS); [apply rank_le|].
  apply prep_no_q. apply alltok_app; [apply frag2_no_q; exact Hf|apply alltok_one; reflexivity].
Qed.
