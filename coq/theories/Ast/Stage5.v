(* C07 proofs, part 11: the conditional operator ( '?' takes ':' as its second operand; assign counter reset ). *)
From Coq Require Import List NArith Bool Arith Lia.
From CV Require Import Ast.Defs Ast.Frag Ast.Basics Ast.Ctx Ast.Stage1.
Import ListNotations.

Lemma quiet_q : forall cpp r b a l rest, r < 14 -> quiet cpp r b a ((l, TQ) :: rest).
Proof.
  intros cpp r b a l rest Hr rec n k dp.
  destruct r as [|r]; [reflexivity|].
  destruct r as [|r]; [reflexivity|].
  destruct r as [|r]; [cbn [lpn loop_at ptr_loop snd]; destruct rest; reflexivity|].
  do 11 (destruct r as [|r]; [reflexivity|]). lia.
Qed.

Lemma quiet_colon : forall cpp r b a l rest, r < 14 -> quiet cpp r b a ((l, TColon) :: rest).
Proof.
  intros cpp r b a l rest Hr rec n k dp.
  destruct r as [|r]; [reflexivity|].
  destruct r as [|r]; [reflexivity|].
  destruct r as [|r]; [cbn [lpn loop_at ptr_loop snd]; destruct rest; reflexivity|].
  do 11 (destruct r as [|r]; [reflexivity|]). lia.
Qed.

Lemma quiet_colon_asg : forall cpp b a l rest, quiet cpp 14 b (S a) ((l, TColon) :: rest).
Proof. intros cpp b a l rest rec n k dp. reflexivity. Qed.

Lemma asg_loop_q : forall rec n s l r,
  asg_loop rec (S n) (s, (l, TQ) :: r) =
  if hd_is (fun x => match x with TColon => true | _ => false end) r then None
  else match bin_op (Some (rec D_ASG)) (set_asgn s 0, (l, TQ) :: r) with
       | None => None
       | Some (s2, r2) => asg_loop rec n (set_asgn s2 (asgn s), r2)
       end.
Proof. reflexivity. Qed.

Lemma asg_loop_colon : forall rec n s l r,
  asg_loop rec (S n) (s, (l, TColon) :: r) =
  if Nat.ltb 0 (asgn s) then Some (s, (l, TColon) :: r)
  else match bin_op (Some (rec D_ASG)) (s, (l, TColon) :: r) with
       | None => None
       | Some z' => asg_loop rec n z'
       end.
Proof. reflexivity. Qed.

Lemma lead_hd_not_colon : forall l r, lead_ok l = true ->
  hd_is (fun x => match x with TColon => true | _ => false end) (l ++ r) = false.
Proof.
  intros [|t l] r H; [discriminate|]. cbn [app hd_is lead_ok] in *. destruct (snd t); try discriminate; reflexivity.
Qed.

Lemma Sx_cond : forall cpp lq lc rc tc kc ra ta ka rb tb kb,
  Sx cpp rc tc kc -> Sx cpp ra ta ka -> Sx cpp rb tb kb ->
  kc <= 13 -> ka <= 14 -> kb <= 14 -> (ka = 14 -> topq ra = false) ->
  lead_ok ra = true -> rc <> [] -> rb <> [] -> dbal rc ->
  Sx cpp (rc ++ (lq, TQ) :: ra ++ (lc, TColon) :: rb) (B (lq, TQ) tc (B (lc, TColon) ta tb)) 14.
Proof.
  intros cpp lq lc rc tc kc ra ta ka rb tb kb IHc IHa IHb Hkc Hka Hkb Hnoq Hlead Hrc Hrb Hdb
         f d s rest out n Hrk Hd Hn Hlen Hop Hps Hj Hnd Hq Hq14 Hq1 Hz Hc.
  set (Q := (lq, TQ)) in *. set (C := (lc, TColon)) in *.
  set (tree := B Q tc (B C ta tb)) in *.
  destruct n as [|n']; [unfold cont in Hc; rewrite lpn_0 in Hc; discriminate|].
  assert (Hts : forall b, rev (rc ++ Q :: ra ++ C :: rb) ++ b = rev rb ++ C :: rev ra ++ Q :: rev rc ++ b).
  { intros b. rewrite rev_mid. rewrite rev_mid. reflexivity. }
  assert (Hhq : topq (rc ++ Q :: ra ++ C :: rb) = true).
  { unfold topq. rewrite (Hdb 0). unfold Q at 1. cbn [topq_d snd Nat.eqb orb]. apply orb_true_r. }
  specialize (Hz eq_refl Hhq). specialize (Hq14 eq_refl).
  rewrite Hts in Hq, Hq14, Hz.
  rewrite !app_length in Hn. cbn [length] in Hn. rewrite !app_length in Hn. cbn [length] in Hn.
  replace ((rc ++ Q :: ra ++ C :: rb) ++ rest) with (rc ++ Q :: ra ++ C :: rb ++ rest) in *
    by (rewrite <- !app_assoc; cbn [app]; rewrite <- !app_assoc; reflexivity).
  rewrite !app_length in Hlen. cbn [length] in Hlen. rewrite !app_length in Hlen. cbn [length] in Hlen.
  rewrite !app_length in Hlen.
  assert (Hlc : 1 <= length rc) by (destruct rc; [contradiction|cbn; lia]).
  assert (Hlb : 1 <= length rb) by (destruct rb; [contradiction|cbn; lia]).
  assert (Hla : 1 <= length ra) by (destruct ra; [discriminate Hlead|cbn; lia]).
  destruct f as [|f']; [lia|]. destruct f' as [|f'']; [lia|].
  set (sc := mkafter s rc tc).
  set (s1 := mkSt (stk sc) (Q :: bef sc) (S (depth sc)) 0).
  set (sa1 := mkafter s1 ra ta).
  set (s3 := mkSt (stk sa1) (C :: bef sa1) (S (depth sa1)) (asgn sa1)).
  set (bfull := rev rb ++ C :: rev ra ++ Q :: rev rc ++ bef s) in *.
  set (s2c := mkSt (B C ta tb :: tc :: stk s) bfull (S (depth s)) 0).
  set (s' := mkafter s (rc ++ Q :: ra ++ C :: rb) tree) in *.
  (* the else branch, parsed by the recursion of ':' *)
  assert (Hbc : bin_op (Some (comp cpp (S f'') D_ASG)) (sa1, C :: rb ++ rest) = Some (s2c, rest)).
  { unfold bin_op. fold s3.
    assert (Hb : comp cpp (S f'') D_ASG (s3, rb ++ rest) = Some (mkafter s3 rb tb, rest)).
    { apply (IHb f'' 14 s3 rest _ 1).
      - exact Hkb.
      - lia.
      - lia.
      - rewrite app_length. lia.
      - cbn. split; [reflexivity|discriminate].
      - apply pstart_vac. reflexivity.
      - exact Hj.
      - right. reflexivity.
      - intros r a0 Hr. unfold s3, sa1, s1, sc, mkafter. cbn [bef]. apply Hq. lia.
      - intros E a0. unfold s3, sa1, s1, sc, mkafter. cbn [bef]. apply Hq14.
      - intros E a0. unfold s3, sa1, s1, sc, mkafter. cbn [bef]. apply Hq. lia.
      - intros E Hh. unfold s3, sa1, s1, sc, mkafter. cbn [bef]. exact Hz.
      - unfold mkafter. apply cont_quiet; [exact Hkb|]. intros r Hr.
        unfold s3, sa1, s1, sc, mkafter. cbn [bef asgn stk depth].
        destruct (Nat.eq_dec r 14) as [->|Hne]; [exact Hz|apply Hq; lia]. }
    destruct rb as [|b0 rb']; [contradiction|].
    change ((b0 :: rb') ++ rest) with (b0 :: rb' ++ rest) in *. unfold D_ASG in *. rewrite Hb.
    unfold s2c, bfull, mkafter, set_depth, set_stk, s3, sa1, s1, sc, mkafter. cbn [stk bef depth asgn Nat.pred].
    reflexivity. }
  (* the loop of rank 14 at ':' inside the recursion of '?' (assign = 0) *)
  assert (Hcol : forall m, asg_loop (comp cpp (S f'')) (S (S m)) (sa1, C :: rb ++ rest) = Some (s2c, rest)).
  { intros m. unfold C at 1. rewrite asg_loop_colon. fold C.
    replace (asgn sa1) with 0 by reflexivity. cbn [Nat.ltb Nat.leb]. unfold D_ASG in *. rewrite Hbc.
    exact (Hz (comp cpp (S f'')) m (B C ta tb :: tc :: stk s) (S (depth s))). }
  (* the middle operand, then ':' *)
  assert (Hmid : comp cpp (S (S f'')) D_ASG (s1, ra ++ C :: rb ++ rest) = Some (s2c, rest)).
  { apply (IHa (S f'') 14 s1 (C :: rb ++ rest) _ 2).
    - exact Hka.
    - lia.
    - lia.
    - rewrite app_length. cbn [length]. rewrite app_length. lia.
    - cbn. split; [reflexivity|discriminate].
    - apply pstart_vac. reflexivity.
    - reflexivity.
    - right. reflexivity.
    - intros r a0 Hr. apply quiet_colon. lia.
    - intros E a0. apply quiet_colon_asg.
    - intros E a0. apply quiet_colon. lia.
    - intros E Hh. rewrite (Hnoq E) in Hh. discriminate.
    - fold sa1. unfold cont.
      destruct (Nat.eq_dec ka 14) as [->|Hne].
      + match goal with |- context [lpn ?c ?r 14 ?m ?z] =>
          replace (lpn c r 14 m z) with (Some (s2c, rest)) by (symmetry; exact (Hcol 0)) end.
        reflexivity.
      + assert (Hqa : forall r, r < 14 -> quiet cpp r (bef sa1) (asgn sa1) (C :: rb ++ rest)).
        { intros r Hr. apply quiet_colon. exact Hr. }
        unfold sa1 at 1, mkafter at 1. rewrite (Hqa ka) by lia.
        replace (14 - ka) with ((14 - S ka) + 1) by lia.
        rewrite climb_app. unfold mkafter.
        rewrite climb_quiet by (intros; apply Hqa; lia).
        replace (S ka + (14 - S ka)) with 14 by lia.
        cbn [climb]. fold (mkafter s1 ra ta). fold sa1.
        match goal with |- context [lpn ?c ?r 14 ?m ?z] =>
          replace (lpn c r 14 m z) with (Some (s2c, rest)) by (symmetry; exact (Hcol f'')) end.
        reflexivity. }
  (* '?' *)
  assert (Hqq : bin_op (Some (comp cpp (S (S f'')) D_ASG)) (set_asgn sc 0, Q :: ra ++ C :: rb ++ rest)
                = Some (mkSt (tree :: stk s) bfull (depth s) 0, rest)).
  { unfold bin_op.
    change (mkSt (stk (set_asgn sc 0)) (Q :: bef (set_asgn sc 0)) (S (depth (set_asgn sc 0))) (asgn (set_asgn sc 0))) with s1.
    destruct ra as [|a0 ra']; [discriminate Hlead|].
    change ((a0 :: ra') ++ C :: rb ++ rest) with (a0 :: ra' ++ C :: rb ++ rest) in *. rewrite Hmid.
    unfold s2c, set_depth, set_stk, tree. cbn [stk bef depth asgn Nat.pred]. reflexivity. }
  assert (Hstep : match lpn cpp (comp cpp (S (S f''))) 14 (S (S (S f''))) (sc, Q :: ra ++ C :: rb ++ rest) with
                  | Some z' => climb cpp (comp cpp (S (S f''))) (S (S (S f''))) 15 (d - 14) z'
                  | None => None end = Some out).
  { change (lpn cpp (comp cpp (S (S f''))) 14 (S (S (S f''))) (sc, Q :: ra ++ C :: rb ++ rest))
      with (asg_loop (comp cpp (S (S f''))) (S (S (S f''))) (sc, Q :: ra ++ C :: rb ++ rest)).
    unfold Q at 1. rewrite asg_loop_q. fold Q.
    rewrite (lead_hd_not_colon ra (C :: rb ++ rest) Hlead). rewrite Hqq.
    replace (set_asgn (mkSt (tree :: stk s) bfull (depth s) 0) (asgn sc)) with s'
      by (unfold s', mkafter, set_asgn, sc, mkafter; cbn [stk bef depth asgn]; rewrite Hts; reflexivity).
    unfold cont in Hc.
    change (lpn cpp (comp cpp (S (S f''))) 14 (S n') (s', rest)) with (asg_loop (comp cpp (S (S f''))) (S n') (s', rest)) in Hc.
    destruct (asg_loop (comp cpp (S (S f''))) (S n') (s', rest)) as [z'|] eqn:E; [|discriminate].
    rewrite (asg_loop_mono _ _ _ _ E (S (S f''))) by lia. exact Hc. }
  (* the condition *)
  apply (IHc (S (S f'')) d s (Q :: ra ++ C :: rb ++ rest) out 1).
  - lia.
  - exact Hd.
  - lia.
  - rewrite app_length. cbn [length]. rewrite !app_length. cbn [length]. rewrite app_length. lia.
  - exact Hop.
  - apply (pstart_app_l _ rc (Q :: ra ++ C :: rb) Hrc). exact Hps.
  - reflexivity.
  - exact Hnd.
  - intros r a0 Hr. apply quiet_q. lia.
  - intros E. lia.
  - intros E a0. apply quiet_q. lia.
  - intros E. lia.
  - fold sc. unfold cont.
    assert (Hqa : forall r, r < 14 -> quiet cpp r (bef sc) (asgn sc) (Q :: ra ++ C :: rb ++ rest)).
    { intros r Hr. apply quiet_q. exact Hr. }
    unfold sc at 1, mkafter at 1. rewrite (Hqa kc) by lia.
    replace (d - kc) with ((14 - S kc) + S (d - 14)) by lia.
    rewrite climb_app. unfold mkafter.
    rewrite climb_quiet by (intros; apply Hqa; lia).
    replace (S kc + (14 - S kc)) with 14 by lia.
    cbn [climb]. fold (mkafter s rc tc). fold sc. exact Hstep.
Qed.
