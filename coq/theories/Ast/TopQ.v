(* C07 proofs: a '?' outside brackets in the token list after prepareTernaryOpForAST implies [topn]. *)
From Coq Require Import List NArith Bool Arith Lia.
From CV Require Import Ast.Defs Ast.Frag Ast.Basics Ast.Ctx.
Import ListNotations.

(* no '?' is seen when the scan starts inside a bracket *)
Definition deep (ts : list ptok) : Prop := forall d, topq_d (S d) ts = false.

Lemma deep_app : forall a b, dbal a -> deep a -> deep b -> deep (a ++ b).
Proof. intros a b Hd Ha Hb d. rewrite Hd, Ha, Hb. reflexivity. Qed.

Lemma deep_one : forall t, match snd t with TRP | TRB => False | _ => True end -> deep [t].
Proof. intros t H d. cbn [topq_d]. destruct (snd t); try destruct H; reflexivity. Qed.

Lemma deep_group : forall (o c : ptok) ts,
  (snd o = TLP \/ snd o = TLB) -> (snd c = TRP \/ snd c = TRB) -> dbal ts -> deep ts -> deep (o :: ts ++ [c]).
Proof.
  intros o c ts Ho Hc Hd H d.
  assert (E : topq_d (S d) (o :: ts ++ [c]) = topq_d (S (S d)) (ts ++ [c])) by (cbn [topq_d]; destruct Ho as [-> | ->]; reflexivity).
  rewrite E, Hd, H. cbn [topq_d orb]. destruct Hc as [-> | ->]; reflexivity.
Qed.

Lemma deep_wrap : forall b l ts, dbal ts -> deep ts -> deep (wrap b l ts).
Proof.
  intros [] l ts Hd H; [|exact H]. apply (deep_group (l, TLP) (l, TRP)); [left; reflexivity|left; reflexivity|exact Hd|exact H].
Qed.

Lemma deep_cons : forall t ts, match snd t with TLP | TLB | TRP | TRB => False | _ => True end -> deep ts -> deep (t :: ts).
Proof.
  intros t ts H Hs. apply (deep_app [t] ts); [apply dbal_one; exact H| |exact Hs].
  apply deep_one. destruct (snd t); try destruct H; exact I.
Qed.

Lemma deep_nil : deep [].
Proof. intros d. reflexivity. Qed.

Ltac dp IH :=
  repeat first
    [ assumption | apply deep_nil | apply renderP_dbal | apply dbal_wrap
    | apply deep_wrap
    | match goal with
      | |- deep [(?a, TLP); (?b, TRP)] =>
          exact (deep_group (a, TLP) (b, TRP) [] (or_introl eq_refl) (or_introl eq_refl) dbal_nil deep_nil)
      | |- deep ((_, TLP) :: _ ++ [(_, TRP)]) => apply deep_group; [left; reflexivity|left; reflexivity| |]
      | |- deep ((_, TLB) :: _ ++ [(_, TRB)]) => apply deep_group; [right; reflexivity|right; reflexivity| |]
      | |- deep (_ ++ _) => apply deep_app
      | |- deep [_] => apply deep_one; exact I
      | |- deep (_ :: _) => apply deep_cons; [exact I|]
      | |- dbal (_ :: _ ++ [_]) => fail 1
      end ].

Lemma renderP_deep : forall e, deep (renderP e).
Proof.
  induction e; cbn [renderP]; dp I.
Qed.

(* top-level '?' implies the flag *)
Definition T0 (ts : list ptok) (f : bool) : Prop := topq ts = true -> f = true.

Lemma T0_app : forall a fa b fb, dbal a -> T0 a fa -> T0 b fb -> T0 (a ++ b) (fa || fb).
Proof.
  intros a fa b fb Hd Ha Hb H. unfold topq in *. rewrite Hd in H. apply orb_true_iff in H. apply orb_true_iff.
  destruct H as [H|H]; [left; apply Ha; exact H|right; apply Hb; exact H].
Qed.

Lemma T0_none : forall ts f, topq ts = false -> T0 ts f.
Proof. intros ts f H H'. rewrite H in H'. discriminate. Qed.

Lemma T0_group : forall (o c : ptok) ts f,
  (snd o = TLP \/ snd o = TLB) -> (snd c = TRP \/ snd c = TRB) -> dbal ts -> deep ts -> T0 (o :: ts ++ [c]) f.
Proof.
  intros o c ts f Ho Hc Hd H. apply T0_none. unfold topq.
  assert (E : topq_d 0 (o :: ts ++ [c]) = topq_d 1 (ts ++ [c])) by (cbn [topq_d]; destruct Ho as [-> | ->]; reflexivity).
  rewrite E, Hd, H. cbn [topq_d orb]. destruct Hc as [-> | ->]; reflexivity.
Qed.

Lemma T0_wrap : forall b l ts f, dbal ts -> deep ts -> T0 ts f -> T0 (wrap b l ts) (if b then false else f).
Proof.
  intros [] l ts f Hd Hp H; [|exact H]. apply (T0_group (l, TLP) (l, TRP)); [left; reflexivity|left; reflexivity|exact Hd|exact Hp].
Qed.

Lemma T0_tok : forall t f, match snd t with TLP | TLB | TRP | TRB | TQ => False | _ => True end -> T0 [t] f.
Proof. intros t f H. apply T0_none. unfold topq. cbn [topq_d]. destruct (snd t); try destruct H; reflexivity. Qed.

Lemma T0_cons : forall t ts f, match snd t with TLP | TLB | TRP | TRB | TQ => False | _ => True end -> T0 ts f -> T0 (t :: ts) f.
Proof.
  intros t ts f H Hs. change (t :: ts) with ([t] ++ ts). replace f with (false || f) by reflexivity.
  apply T0_app; [apply dbal_one; destruct (snd t); try destruct H; exact I|apply T0_tok; exact H|exact Hs].
Qed.

Lemma T0_true : forall ts, T0 ts true.
Proof. intros ts _. reflexivity. Qed.

Lemma T0_weak : forall ts a b, a = b -> T0 ts a -> T0 ts b.
Proof. intros ts a b -> H. exact H. Qed.

Lemma renderP_T0 : forall e, T0 (renderP e) (topn e).
Proof.
  induction e; cbn [renderP topn]; try apply T0_true.
  - apply T0_tok; exact I.
  - apply T0_tok; exact I.
  - (* EPre *) apply T0_cons; [exact I|]. apply T0_wrap; [apply renderP_dbal|apply renderP_deep|exact IHe].
  - (* EPost *)
    apply (T0_weak _ ((if Nat.ltb (prec e) P_POST then false else topn e) || false)); [apply orb_false_r|].
    apply T0_app; [apply dbal_wrap; apply renderP_dbal| |apply T0_tok; exact I].
    apply T0_wrap; [apply renderP_dbal|apply renderP_deep|exact IHe].
  - (* EBin *)
    apply (T0_weak _ ((if Nat.ltb (prec e1) (bin_prec o) then false else topn e1) ||
                      ((match o with BLt => true | _ => false end) || (if Nat.ltb (prec e2) (S (bin_prec o)) then false else topn e2))));
      [rewrite orb_assoc; reflexivity|].
    apply T0_app; [apply dbal_wrap; apply renderP_dbal|apply T0_wrap; [apply renderP_dbal|apply renderP_deep|exact IHe1]|].
    apply T0_cons; [exact I|].
    intros H. apply orb_true_iff. right.
    apply (T0_wrap _ _ _ _ (renderP_dbal e2) (renderP_deep e2) IHe2 H).
  - (* EAsg *)
    apply T0_app; [apply dbal_wrap; apply renderP_dbal|apply T0_wrap; [apply renderP_dbal|apply renderP_deep|exact IHe1]|].
    apply T0_cons; [exact I|]. apply T0_wrap; [apply renderP_dbal|apply renderP_deep|exact IHe2].
  - (* ECall0 *)
    apply (T0_weak _ ((if Nat.ltb (prec e) P_POST then false else topn e) || false)); [apply orb_false_r|].
    apply T0_app; [apply dbal_wrap; apply renderP_dbal|apply T0_wrap; [apply renderP_dbal|apply renderP_deep|exact IHe]|].
    apply (T0_group (l, TLP) (l, TRP) []); [left; reflexivity|left; reflexivity|apply dbal_nil|apply deep_nil].
  - (* ECall *)
    apply (T0_weak _ ((if Nat.ltb (prec e1) P_POST then false else topn e1) || false)); [apply orb_false_r|].
    apply T0_app; [apply dbal_wrap; apply renderP_dbal|apply T0_wrap; [apply renderP_dbal|apply renderP_deep|exact IHe1]|].
    apply (T0_group (l, TLP) (l, TRP)); [left; reflexivity|left; reflexivity|apply dbal_wrap; apply renderP_dbal|
                                          apply deep_wrap; [apply renderP_dbal|apply renderP_deep]].
  - (* EIdx *)
    apply (T0_weak _ ((if Nat.ltb (prec e1) P_POST then false else topn e1) || false)); [apply orb_false_r|].
    apply T0_app; [apply dbal_wrap; apply renderP_dbal|apply T0_wrap; [apply renderP_dbal|apply renderP_deep|exact IHe1]|].
    apply (T0_group (l, TLB) (l, TRB)); [right; reflexivity|right; reflexivity|apply dbal_wrap; apply renderP_dbal|
                                          apply deep_wrap; [apply renderP_dbal|apply renderP_deep]].
  - (* EMem *)
    apply (T0_weak _ ((if Nat.ltb (prec e) P_POST then false else topn e) || false)); [apply orb_false_r|].
    apply T0_app; [apply dbal_wrap; apply renderP_dbal|apply T0_wrap; [apply renderP_dbal|apply renderP_deep|exact IHe]|].
    apply T0_cons; [exact I|apply T0_tok; exact I].
  - (* EPar *)
    apply (T0_group (l, TLP) (l, TRP)); [left; reflexivity|left; reflexivity|apply renderP_dbal|apply renderP_deep].
  - (* ECast *)
    change ((l, TLP) :: (l, TType ty) :: (l, TRP) :: wrap (Nat.ltb (prec e) P_PRE) (rootlab e) (renderP e))
      with (((l, TLP) :: [(l, TType ty)] ++ [(l, TRP)]) ++ wrap (Nat.ltb (prec e) P_PRE) (rootlab e) (renderP e)).
    apply (T0_weak _ (false || (if Nat.ltb (prec e) P_PRE then false else topn e))); [reflexivity|].
    apply T0_app.
    + apply dbal_group; [left; reflexivity|left; reflexivity|apply dbal_one; exact I].
    + apply T0_group; [left; reflexivity|left; reflexivity|apply dbal_one; exact I|apply deep_one; exact I].
    + apply T0_wrap; [apply renderP_dbal|apply renderP_deep|exact IHe].
Qed.

Lemma topn_false_topq : forall a, topn a = false -> topq (renderP a) = false.
Proof.
  intros a H. destruct (topq (renderP a)) eqn:E; [|reflexivity]. rewrite (renderP_T0 a E) in H. discriminate.
Qed.
