(* C07 proofs, part 3: the precedence-climbing invariant; atoms, parentheses, binary left-associative levels. *)
From Coq Require Import List NArith Bool Arith Lia.
From CV Require Import Ast.Defs Ast.Frag Ast.Basics Ast.Ctx.
Import ListNotations.

(* Parsing the tokens [ts] at any rank d >= rk pushes [tr] and then behaves like the loops rk .. d. *)
Definition Sx (cpp : bool) (ts : list ptok) (tr : ast) (rk : nat) : Prop :=
  forall f d s rest out n,
    rk <= d -> d <= 15 ->
    n + length ts <= f -> length (ts ++ rest) <= f ->
    opos (bef s) -> pstart (bef s) ts -> nojux rest -> safe s ->
    (forall r a, r < rk -> quiet cpp r (rev ts ++ bef s) a rest) ->
    (rk = 14 -> forall a, quiet cpp 14 (rev ts ++ bef s) (S a) rest) ->
    (rk = 1 -> forall a, quiet cpp 1 (rev ts ++ bef s) a rest) ->
    (rk = 14 -> topq ts = true -> quiet cpp 14 (rev ts ++ bef s) 0 rest) ->
    cont cpp (comp cpp f) (S f) n rk d (mkafter s ts tr, rest) = Some out ->
    comp cpp (S f) d (s, ts ++ rest) = Some out.

Definition starter1 (ts : list ptok) : Prop := lead_ok ts = true.

Lemma pstart_vac : forall b ts, hd_is is_incdec b = false -> pstart b ts.
Proof. intros b ts H H'. rewrite H in H'. discriminate. Qed.

Lemma pstart_app_l : forall b (ra rb : list ptok), ra <> [] -> pstart b (ra ++ rb) -> pstart b ra.
Proof. intros b [|t ra] rb H Hp; [contradiction|exact Hp]. Qed.

Lemma lpn_0 : forall cpp rec r z, lpn cpp rec r 0 z = None.
Proof. intros. do 16 (destruct r as [|r]; [reflexivity|]). reflexivity. Qed.

Definition ender (ts : list ptok) : Prop :=
  exists pre t, ts = pre ++ [t] /\ strict_ender (snd t) = true.

Lemma ender_aft : forall ts b, ender ts -> aft (rev ts ++ b).
Proof. intros ts b [pre [t [-> H]]]. rewrite rev_app_distr. left. exact H. Qed.

(* the tokens end an operand (possibly with a postfix ++/--) *)
Definition ender2 (ts : list ptok) : Prop := forall b, aft (rev ts ++ b).

Lemma ender_ender2 : forall ts, ender ts -> ender2 ts.
Proof. intros ts H b. apply ender_aft. exact H. Qed.

Lemma match_nonnil : forall {A B} (r : list A) (x y : B), r <> [] -> match r with [] => x | _ :: _ => y end = y.
Proof. intros A B [|a r] x y H; [contradiction|reflexivity]. Qed.

(* ---------- atoms *)
Lemma Sx_atom : forall cpp t,
  (forall s rest, nojux rest -> safe s -> term (s, t :: rest) = Some (mkafter s [t] (L t), rest)) ->
  match snd t with TLB => False | _ => True end ->
  Sx cpp [t] (L t) 0.
Proof.
  intros cpp t Hterm Hnlb f d s rest out n Hrk Hd Hn Hlen Hop Hps Hj Hnd Hq Hq14 Hq1 Hz Hc.
  rewrite comp_eq. cbn [app].
  assert (Hh : p2_head (s, t :: rest) = Some (mkafter s [t] (L t), rest)).
  { unfold p2_head. destruct (snd t) eqn:E; try (unfold scope; apply Hterm; assumption). destruct Hnlb. }
  rewrite Hh. cbn [climb]. unfold cont in Hc.
  destruct (lpn cpp (comp cpp f) 0 n (mkafter s [t] (L t), rest)) as [z'|] eqn:E; [|discriminate].
  rewrite (lpn_mono _ _ _ _ _ _ E (S f)); [|cbn [length] in Hn; lia].
  rewrite Nat.sub_0_r in Hc. exact Hc.
Qed.

Lemma Sx_id : forall cpp l x, Sx cpp [(l, TId x)] (L (l, TId x)) 0.
Proof. intros. apply Sx_atom; [intros; apply term_id; assumption|exact I]. Qed.

Lemma Sx_num : forall cpp l x, Sx cpp [(l, TNum x)] (L (l, TNum x)) 0.
Proof. intros. apply Sx_atom; [intros; apply term_num; assumption|exact I]. Qed.

(* ---------- parentheses *)
Lemma cont_quiet : forall cpp rec n0 rk d k b dp a rest,
  (forall r, r <= d -> quiet cpp r b a rest) ->
  cont cpp rec (S n0) 1 rk d (mkSt k b dp a, rest) = Some (mkSt k b dp a, rest).
Proof.
  intros. unfold cont. destruct (le_lt_dec rk d).
  - rewrite (H rk l). apply climb_quiet. intros. apply H. lia.
  - replace (d - rk) with 0 by lia.
    (* rk > d: the loop rk itself must still be quiet; not needed by callers *)
Abort.

Lemma cont_quiet : forall cpp rec n0 rk d k b dp a rest,
  rk <= d ->
  (forall r, r <= d -> quiet cpp r b a rest) ->
  cont cpp rec (S n0) 1 rk d (mkSt k b dp a, rest) = Some (mkSt k b dp a, rest).
Proof.
  intros. unfold cont. rewrite (H0 rk H). apply climb_quiet. intros. apply H0. lia.
Qed.

Lemma p2_loop_lp : forall cpp rec n s l (r : list ptok), r <> [] ->
  p2_loop cpp rec (S n) (s, (l, TLP) :: r) =
  match rec D_COMMA (adv (s, (l, TLP) :: r)) with
  | None => None
  | Some (s2, _) =>
      match (if match bef s with
                | p :: _ => match snd p with TId _ | TRB | TRP => true | _ => false end
                | [] => false
                end
             then (if Nat.ltb (length (stk s)) (length (stk s2))
                   then bin_op None (set_bef s2 (bef s), (l, TLP) :: r)
                   else un_op None (set_bef s2 (bef s), (l, TLP) :: r))
             else Some (set_bef s2 (bef s), (l, TLP) :: r)) with
      | None => None
      | Some (s4, _) => match jump_link (s, (l, TLP) :: r) s4 with
                        | None => None
                        | Some z' => p2_loop cpp rec n z'
                        end
      end
  end.
Proof. intros. destruct r; [contradiction|reflexivity]. Qed.

Lemma Sx_paren : forall cpp ts tr rk l1 l2,
  Sx cpp ts tr rk -> rk <= 15 -> balanced ts ->
  Sx cpp ((l1, TLP) :: ts ++ [(l2, TRP)]) tr 0.
Proof.
  intros cpp ts tr rk l1 l2 IH Hrk15 Hbal f d s rest out n _ Hd Hn Hlen Hop _ Hj Hnd _ _ _ _ Hc.
  cbn [length] in Hn. rewrite app_length in Hn. cbn [length] in Hn.
  cbn [app] in *. rewrite <- app_assoc in *. cbn [app] in *.
  cbn [length] in Hlen. rewrite app_length in Hlen. cbn [length] in Hlen.
  destruct f as [|f']; [lia|].
  rewrite comp_eq.
  change (p2_head (s, (l1, TLP) :: ts ++ (l2, TRP) :: rest)) with (Some (s, (l1, TLP) :: ts ++ (l2, TRP) :: rest)).
  cbn [climb lpn]. rewrite p2_loop_lp by (destruct ts; discriminate).
  (* inside the parentheses: compileExpression *)
  set (s1 := set_bef s ((l1, TLP) :: bef s)).
  assert (Hin : comp cpp (S f') D_COMMA (adv (s, (l1, TLP) :: ts ++ (l2, TRP) :: rest)) =
                Some (mkafter s1 ts tr, (l2, TRP) :: rest)).
  { cbn [adv]. fold s1. apply (IH f' 15 s1 ((l2, TRP) :: rest) _ 1).
    - exact Hrk15.
    - lia.
    - lia.
    - rewrite app_length. cbn [length]. lia.
    - cbn. split; [reflexivity|discriminate].
    - apply pstart_vac. reflexivity.
    - reflexivity.
    - right. unfold s1, fp_head. cbn [set_bef bef hd_is snd is_lp andb].
      destruct (bef s) as [|p [|p2 b2]]; try reflexivity. destruct Hop as [Hp _]. destruct (snd p); try reflexivity; discriminate.
    - intros r a Hr. apply quiet_closer; [left; reflexivity|lia].
    - intros _ a. apply quiet_closer; [left; reflexivity|lia].
    - intros _ a. apply quiet_closer; [left; reflexivity|lia].
    - intros _ _. apply quiet_closer; [left; reflexivity|lia].
    - unfold mkafter. apply cont_quiet; [exact Hrk15|]. intros r Hr. apply quiet_closer; [left; reflexivity|exact Hr]. }
  rewrite Hin.
  assert (Hcall : match bef s with
                  | p :: _ => match snd p with TId _ | TRB | TRP => true | _ => false end
                  | [] => false end = false).
  { destruct (bef s) as [|p b]; [reflexivity|]. destruct Hop as [Hp _]. destruct (snd p); try reflexivity; discriminate. }
  rewrite Hcall.
  unfold jump_link. rewrite (Hbal 0 [] ((l2, TRP) :: rest)). cbn [close_split snd].
  (* the state after the closing parenthesis *)
  assert (Hst : set_bef (set_bef (mkafter s1 ts tr) (bef s)) (((l2, TRP) :: rev ts ++ []) ++ (l1, TLP) :: bef s)
                = mkafter s ((l1, TLP) :: ts ++ [(l2, TRP)]) tr).
  { unfold mkafter, set_bef, s1. cbn [stk bef depth asgn]. f_equal.
    cbn [rev]. rewrite rev_app_distr. cbn [rev app]. rewrite app_nil_r, <- !app_assoc. reflexivity. }
  rewrite Hst.
  unfold cont in Hc. cbn [lpn] in Hc. rewrite Nat.sub_0_r in Hc.
  destruct (p2_loop cpp (comp cpp (S f')) n (mkafter s ((l1, TLP) :: ts ++ [(l2, TRP)]) tr, rest)) as [z'|] eqn:E;
    [|discriminate].
  rewrite (p2_loop_mono _ _ _ _ _ E (S f')) by lia. exact Hc.
Qed.

(* ---------- binary left-associative levels *)
Lemma loop_at_bin : forall cpp rec k n z, 3 <= k -> k <= 13 -> loop_at cpp rec k n z = bin_loop cpp rec k n z.
Proof.
  intros. unfold loop_at. do 14 (destruct k as [|k]; [try lia; reflexivity|]). lia.
Qed.

Lemma binrank_range : forall o, 3 <= binrank o /\ binrank o <= 13.
Proof. destruct o; cbn; lia. Qed.

Lemma classify_take : forall cpp o s l r,
  lead_ok r = true ->
  classify cpp (binrank o) (s, (l, TOp (bin_opr o)) :: r) = Take.
Proof.
  intros cpp o s l r H1.
  pose proof (lead_not_qualifier r H1) as Hq.
  pose proof (lead_not_comma_rp r H1) as Hc.
  destruct o; cbn [binrank bin_prec bin_opr Nat.sub classify snd]; try reflexivity.
  - (* * *) cbn [is_qualifier]. rewrite Hq. rewrite star_jump_none by exact H1. reflexivity.
  - (* & *) cbn [is_qualifier]. rewrite Hq. destruct r as [|t2 r2]; [discriminate|].
    cbn [hd_is] in Hc. destruct (is_amp (snd t2)) eqn:E.
    + assert (H2 : lead_ok r2 = true).
      { cbn [lead_ok] in H1. destruct (snd t2); try discriminate. destruct o; try discriminate. exact H1. }
      rewrite (lead_not_comma_rp r2 H2), andb_false_r. reflexivity.
    + rewrite Hc, andb_false_r. reflexivity.
  - (* && *) cbn [is_qualifier]. rewrite Hq. destruct r as [|t2 r2]; [discriminate|].
    cbn [hd_is] in Hc. rewrite Hc, andb_false_r. reflexivity.
Qed.


Lemma rev_mid : forall (ra rb : list ptok) t b, rev (ra ++ t :: rb) ++ b = rev rb ++ t :: rev ra ++ b.
Proof. intros. rewrite rev_app_distr. cbn [rev]. rewrite <- !app_assoc. reflexivity. Qed.

Lemma Sx_bin : forall cpp o l ra ta ka rb tb kb,
  Sx cpp ra ta ka -> Sx cpp rb tb kb ->
  ka <= binrank o -> kb < binrank o ->
  ender2 ra -> starter1 rb -> ra <> [] ->
  Sx cpp (ra ++ (l, TOp (bin_opr o)) :: rb) (B (l, TOp (bin_opr o)) ta tb) (binrank o).
Proof.
  intros cpp o l ra ta ka rb tb kb IHa IHb Hka Hkb Hend Hst Hra f d s rest out n Hrk Hd Hn Hlen Hop Hps Hj Hnd Hq Hq14 Hq1 Hz Hc.
  destruct (binrank_range o) as [Hk3 Hk13].
  set (k := binrank o) in *. set (op := (l, TOp (bin_opr o))) in *.
  rewrite app_length in Hn. cbn [length] in Hn.
  rewrite <- app_assoc in *. cbn [app] in *.
  rewrite app_length in Hlen. cbn [length] in Hlen. rewrite app_length in Hlen.
  assert (Hla : 1 <= length ra) by (destruct ra; [contradiction|cbn; lia]).
  destruct rb as [|t1 rb']; [discriminate Hst|]. unfold starter1 in Hst.
  set (rb := t1 :: rb') in *.
  destruct f as [|f']; [lia|].
  set (sa := mkafter s ra ta).
  set (s' := mkafter s (ra ++ op :: rb) (B op ta tb)) in *.
  (* the step of loop k at the operator *)
  assert (Hbin : bin_op (Some (comp cpp (S f') (Nat.pred k))) (sa, op :: rb ++ rest) = Some (s', rest)).
  { unfold bin_op. unfold rb at 1. cbn [app].
    set (s1 := mkSt (stk sa) (op :: bef sa) (S (depth sa)) (asgn sa)).
    assert (Hb : comp cpp (S f') (Nat.pred k) (s1, rb ++ rest) = Some (mkafter s1 rb tb, rest)).
    { apply (IHb f' (Nat.pred k) s1 rest _ 1).
      - lia.
      - lia.
      - cbn [length] in *. lia.
      - rewrite app_length. cbn [length] in *. lia.
      - unfold s1. cbn [bef]. split; [reflexivity|]. intros H. exfalso. revert H. unfold op. cbn [snd].
        rewrite bin_opr_not_incdec. discriminate.
      - apply pstart_vac. apply bin_opr_not_incdec.
      - exact Hj.
      - right. reflexivity.
      - intros r a0 Hr. unfold s1, sa, mkafter. cbn [bef asgn].
        rewrite <- rev_mid. apply Hq. lia.
      - intros E. lia.
      - intros E a0. unfold s1, sa, mkafter. cbn [bef asgn].
        rewrite <- rev_mid. apply Hq. lia.
      - intros E. lia.
      - unfold mkafter. apply cont_quiet; [lia|]. intros r Hr. unfold s1, sa, mkafter. cbn [bef asgn stk depth].
        rewrite <- rev_mid. apply Hq. lia. }
    change (t1 :: rb' ++ rest) with (rb ++ rest). rewrite Hb.
    unfold s', mkafter, set_depth, set_stk, s1, sa, mkafter. cbn [stk bef depth asgn Nat.pred].
    rewrite rev_mid. reflexivity. }
  (* loop k with any budget >= S n at the operator, then the looser loops *)
  assert (Hstep : forall m, n <= m -> m <= S f' ->
            match lpn cpp (comp cpp (S f')) k (S m) (sa, op :: rb ++ rest) with
            | Some z' => climb cpp (comp cpp (S f')) (S (S f')) (S k) (d - k) z'
            | None => None end = Some out).
  { intros m Hm Hm2. replace (lpn cpp (comp cpp (S f')) k (S m) (sa, op :: rb ++ rest))
      with (bin_loop cpp (comp cpp (S f')) k (S m) (sa, op :: rb ++ rest))
      by (destruct k as [|k0]; [lia|]; cbn [lpn]; symmetry; apply loop_at_bin; lia).
    cbn [bin_loop]. unfold op at 1, k at 1. rewrite classify_take by (apply lead_ok_app; exact Hst).
    fold k. fold op. rewrite Hbin.
    unfold cont in Hc.
    destruct (lpn cpp (comp cpp (S f')) k n (s', rest)) as [z'|] eqn:E; [|discriminate].
    assert (E' : bin_loop cpp (comp cpp (S f')) k n (s', rest) = Some z').
    { rewrite <- E. destruct k as [|k0]; [lia|]. cbn [lpn]. symmetry. apply loop_at_bin; lia. }
    rewrite (bin_loop_mono _ _ _ _ _ _ E' m Hm). exact Hc. }
  (* the left operand *)
  apply (IHa (S f') d s (op :: rb ++ rest) out (S (n + length rb))).
  - lia.
  - exact Hd.
  - cbn [length] in *. lia.
  - rewrite app_length. cbn [length]. rewrite app_length. lia.
  - exact Hop.
  - apply (pstart_app_l _ ra (op :: rb) Hra). exact Hps.
  - reflexivity.
  - exact Hnd.
  - intros r a0 Hr. apply quiet_binop; [apply Hend|]. fold k. lia.
  - intros E. lia.
  - intros E a0. apply quiet_binop; [apply Hend|]. fold k. lia.
  - intros E. lia.
  - fold sa. unfold cont.
    destruct (Nat.eq_dec ka k) as [->|Hne].
    + apply Hstep; [lia|]. cbn [length] in *. lia.
    + (* the loops ka .. k-1 stop at the operator *)
      assert (Hqa : forall r, r < k -> quiet cpp r (bef sa) (asgn sa) (op :: rb ++ rest)).
      { intros r Hr. unfold sa, mkafter. cbn [bef asgn]. apply quiet_binop; [apply Hend|exact Hr]. }
      unfold sa at 1, mkafter at 1. rewrite (Hqa ka) by lia.
      replace (d - ka) with ((k - S ka) + S (d - k)) by lia.
      rewrite climb_app. unfold mkafter.
      rewrite climb_quiet by (intros; apply Hqa; lia).
      replace (S ka + (k - S ka)) with k by lia.
      cbn [climb]. fold (mkafter s ra ta). fold sa. apply Hstep; lia.
Qed.
