(* C07 proofs, part 9: postfix ++ --, member access, subscripts, calls (compilePrecedence2's loop). *)
From Coq Require Import List NArith Bool Arith Lia.
From CV Require Import Ast.Defs Ast.Frag Ast.Basics Ast.Ctx Ast.Stage1.
Import ListNotations.

Lemma not_prefix_strict : forall b t, (exists p b', b = p :: b' /\ strict_ender (snd p) = true) ->
  is_prefix_unary b t = false.
Proof.
  intros b t [p [b' [-> H]]]. unfold is_prefix_unary.
  destruct (snd p); try discriminate; cbn; rewrite ?andb_false_r; reflexivity.
Qed.

Lemma term_other : forall s rest, nojux rest -> term (s, rest) = Some (s, rest).
Proof.
  intros s [|t r] H; [reflexivity|]. unfold nojux in H. cbn [hd_is] in H. unfold term.
  destruct (snd t); try reflexivity; discriminate.
Qed.

(* one iteration of compilePrecedence2's loop at a postfix ++/-- *)
Lemma p2_loop_incdec : forall cpp rec n s (t : ptok) r,
  is_incdec (snd t) = true ->
  p2_loop cpp rec (S n) (s, t :: r) =
  if negb (is_prefix_unary (bef s) (snd t)) then
    match un_op (Some scope) (s, t :: r) with None => None | Some z' => p2_loop cpp rec n z' end
  else Some (s, t :: r).
Proof.
  intros cpp rec n s [l k] r H. cbn [snd] in *. destruct k; try discriminate. destruct o; try discriminate; reflexivity.
Qed.

Lemma p2_loop_dot : forall cpp rec n s l r,
  hd_is is_star r = false -> hd_is (fun x => match x with TDot => true | _ => false end) r = false ->
  hd_is (fun x => match x with TLC | TComma => true | _ => false end) (bef s) = false ->
  p2_loop cpp rec (S n) (s, (l, TDot) :: r) =
  match bin_op (Some scope) (s, (l, TDot) :: r) with None => None | Some z' => p2_loop cpp rec n z' end.
Proof. intros cpp rec n s l r H1 H2 H3. cbn [p2_loop snd]. rewrite H1, H2, H3. reflexivity. Qed.

Lemma p2_loop_lb : forall cpp rec n s l r,
  cpp && is_prefix_unary (bef s) TLB = false ->
  hd_is (fun x => match x with TRB => true | _ => false end) r = false ->
  p2_loop cpp rec (S n) (s, (l, TLB) :: r) =
  match bin_op (Some (rec D_COMMA)) (s, (l, TLB) :: r) with
  | None => None
  | Some (s2, _) => match jump_link (s, (l, TLB) :: r) s2 with
                    | None => None
                    | Some z' => p2_loop cpp rec n z'
                    end
  end.
Proof. intros cpp rec n s l r H1 H2. cbn [p2_loop snd]. rewrite H1, H2. reflexivity. Qed.

Definition strict_end (ts : list ptok) : Prop :=
  exists p b', rev ts = p :: b' /\ strict_ender (snd p) = true.

Lemma ender_strict_end : forall ts, ender ts -> strict_end ts.
Proof. intros ts [pre [t [-> H]]]. exists t, (rev pre). rewrite rev_app_distr. split; [reflexivity|exact H]. Qed.

Lemma rev_snoc1 : forall (ra : list ptok) t b, rev (ra ++ [t]) ++ b = t :: rev ra ++ b.
Proof. intros. rewrite rev_app_distr. reflexivity. Qed.

(* the common frame of the postfix constructs: after the operand [ra] (rank 0) one iteration of the loop
   consumes [X] and builds [tr] *)
Lemma Sx_postfix : forall cpp ra ta X tr,
  Sx cpp ra ta 0 -> ra <> [] -> X <> [] -> nojux X ->
  (forall f s rest n, length (ra ++ X ++ rest) <= f ->
      opos (bef s) -> nojux rest -> safe s ->
      p2_loop cpp (comp cpp f) (S n) (mkafter s ra ta, X ++ rest) =
      p2_loop cpp (comp cpp f) n (mkafter s (ra ++ X) tr, rest)) ->
  Sx cpp (ra ++ X) tr 0.
Proof.
  intros cpp ra ta X tr IHa Hra HX HjX Hstep f d s rest out n Hrk Hd Hn Hlen Hop Hps Hj Hnd Hq Hq14 Hq1 Hz Hc.
  rewrite <- app_assoc in *. rewrite app_length in Hn.
  assert (HlX : 1 <= length X) by (destruct X; [contradiction|cbn; lia]).
  apply (IHa f d s (X ++ rest) out (S n)).
  - lia.
  - exact Hd.
  - lia.
  - exact Hlen.
  - exact Hop.
  - apply (pstart_app_l _ ra X Hra). exact Hps.
  - destruct X; [contradiction|exact HjX].
  - exact Hnd.
  - intros r a0 Hr. lia.
  - intros E. discriminate.
  - intros E. discriminate.
  - intros E. discriminate.
  - unfold cont in *. cbn [lpn] in *. rewrite Hstep; assumption.
Qed.

(* ---------- postfix ++ / -- *)
Lemma Sx_post : forall cpp o l ra ta,
  Sx cpp ra ta 0 -> ra <> [] -> strict_end ra ->
  Sx cpp (ra ++ [(l, TOp (post_opr o))]) (U (l, TOp (post_opr o)) ta) 0.
Proof.
  intros cpp o l ra ta IHa Hra Hse.
  apply (Sx_postfix cpp ra ta [(l, TOp (post_opr o))] _ IHa Hra); [discriminate|destruct o; reflexivity|].
  intros f s rest n Hlen Hop Hj Hnd.
  set (op := (l, TOp (post_opr o))) in *. cbn [app].
  rewrite p2_loop_incdec by (destruct o; reflexivity).
  assert (Hnp : is_prefix_unary (bef (mkafter s ra ta)) (snd op) = false).
  { apply not_prefix_strict. unfold mkafter. cbn [bef]. destruct Hse as [p [b' [E H]]]. rewrite E.
    exists p, (b' ++ bef s). split; [reflexivity|exact H]. }
  rewrite Hnp. cbn [negb].
  assert (Hun : un_op (Some scope) (mkafter s ra ta, op :: rest) = Some (mkafter s (ra ++ [op]) (U op ta), rest)).
  { unfold un_op, scope.
    set (s1 := mkSt (stk (mkafter s ra ta)) (op :: bef (mkafter s ra ta)) (S (depth (mkafter s ra ta))) (asgn (mkafter s ra ta))).
    assert (Hg : match rest with [] => Some (s1, rest) | _ :: _ => term (s1, rest) end = Some (s1, rest)).
    { destruct rest; [reflexivity|]. apply term_other. exact Hj. }
    rewrite Hg. unfold s1, mkafter, set_depth, set_stk. cbn [stk bef depth asgn Nat.pred snd op].
    assert (Hi : is_incdec (TOp (post_opr o)) = true) by (destruct o; reflexivity).
    rewrite Hi, orb_true_r. cbn [orb]. rewrite rev_snoc1. reflexivity. }
  rewrite Hun. reflexivity.
Qed.

(* ---------- member access *)
Lemma aft_not_lc_comma : forall b, aft b ->
  hd_is (fun x => match x with TLC | TComma => true | _ => false end) b = false.
Proof.
  intros [|t b'] H; [reflexivity|]. cbn [aft hd_is] in *. destruct H as [H|[H _]]; destruct (snd t); try discriminate; try reflexivity.
Qed.

Lemma Sx_mem : forall cpp ld lm m ra ta,
  Sx cpp ra ta 0 -> ra <> [] -> ender2 ra ->
  Sx cpp (ra ++ [(ld, TDot); (lm, TId m)]) (B (ld, TDot) ta (L (lm, TId m))) 0.
Proof.
  intros cpp ld lm m ra ta IHa Hra He.
  apply (Sx_postfix cpp ra ta [(ld, TDot); (lm, TId m)] _ IHa Hra); [discriminate|reflexivity|].
  intros f s rest n Hlen Hop Hj Hnd. cbn [app].
  rewrite p2_loop_dot; [|reflexivity|reflexivity|].
  2: { unfold mkafter. cbn [bef]. apply aft_not_lc_comma. apply He. }
  assert (Hb : bin_op (Some scope) (mkafter s ra ta, (ld, TDot) :: (lm, TId m) :: rest) =
               Some (mkafter s (ra ++ [(ld, TDot); (lm, TId m)]) (B (ld, TDot) ta (L (lm, TId m))), rest)).
  { unfold bin_op, scope.
    set (s1 := mkSt (stk (mkafter s ra ta)) ((ld, TDot) :: bef (mkafter s ra ta)) (S (depth (mkafter s ra ta))) (asgn (mkafter s ra ta))).
    rewrite (term_id s1 lm m rest Hj).
    - unfold s1, mkafter, set_depth, set_stk. cbn [stk bef depth asgn Nat.pred rev app].
      rewrite rev_app_distr. cbn [rev app]. reflexivity.
    - right. reflexivity. }
  rewrite Hb. reflexivity.
Qed.

(* ---------- subscripts *)
Lemma lead_hd_not_rb : forall l r, lead_ok l = true ->
  hd_is (fun x => match x with TRB => true | _ => false end) (l ++ r) = false.
Proof.
  intros [|t l] r H; [discriminate|]. cbn [app hd_is lead_ok] in *. destruct (snd t); try discriminate; reflexivity.
Qed.

Lemma Sx_idx : forall cpp l l2 ra ta ri ti ki,
  Sx cpp ra ta 0 -> ra <> [] -> ender2 ra ->
  Sx cpp ri ti ki -> ki <= 15 -> balanced ri -> lead_ok ri = true ->
  Sx cpp (ra ++ (l, TLB) :: ri ++ [(l2, TRB)]) (B (l, TLB) ta ti) 0.
Proof.
  intros cpp l l2 ra ta ri ti ki IHa Hra He IHi Hki Hbal Hlead.
  apply (Sx_postfix cpp ra ta ((l, TLB) :: ri ++ [(l2, TRB)]) _ IHa Hra); [discriminate|reflexivity|].
  intros f s rest n Hlen Hop Hj Hnd.
  cbn [app] in *. rewrite <- app_assoc in *. cbn [app] in *.
  rewrite app_length in Hlen. cbn [length] in Hlen. rewrite app_length in Hlen. cbn [length] in Hlen.
  assert (Hla : 1 <= length ra) by (destruct ra; [contradiction|cbn; lia]).
  destruct f as [|f']; [lia|].
  set (sa := mkafter s ra ta).
  rewrite p2_loop_lb.
  2: { rewrite (not_prefix_after (bef sa) TLB); [apply andb_false_r| |reflexivity].
       unfold sa, mkafter. cbn [bef]. apply He. }
  2: { apply lead_hd_not_rb. exact Hlead. }
  set (s1 := mkSt (stk sa) ((l, TLB) :: bef sa) (S (depth sa)) (asgn sa)).
  assert (Hin : comp cpp (S f') D_COMMA (s1, ri ++ (l2, TRB) :: rest) = Some (mkafter s1 ri ti, (l2, TRB) :: rest)).
  { apply (IHi f' 15 s1 ((l2, TRB) :: rest) _ 1).
    - exact Hki.
    - lia.
    - lia.
    - rewrite app_length. cbn [length]. lia.
    - cbn. split; [reflexivity|discriminate].
    - apply pstart_vac. reflexivity.
    - reflexivity.
    - right. reflexivity.
    - intros r a Hr. apply quiet_closer; [right; left; reflexivity|lia].
    - intros _ a. apply quiet_closer; [right; left; reflexivity|lia].
    - intros _ a. apply quiet_closer; [right; left; reflexivity|lia].
    - intros _ _. apply quiet_closer; [right; left; reflexivity|lia].
    - unfold mkafter. apply cont_quiet; [exact Hki|]. intros r Hr. apply quiet_closer; [right; left; reflexivity|exact Hr]. }
  assert (Hb : bin_op (Some (comp cpp (S f') D_COMMA)) (sa, (l, TLB) :: ri ++ (l2, TRB) :: rest) =
               Some (mkSt (B (l, TLB) ta ti :: stk s) (rev ri ++ (l, TLB) :: bef sa) (depth s) (asgn s), (l2, TRB) :: rest)).
  { unfold bin_op. fold s1. destruct ri as [|i0 ri']; [discriminate Hlead|]. cbn [app].
    change (i0 :: ri' ++ (l2, TRB) :: rest) with ((i0 :: ri') ++ (l2, TRB) :: rest). rewrite Hin.
    unfold mkafter, set_depth, set_stk, s1, sa, mkafter. cbn [stk bef depth asgn Nat.pred]. reflexivity. }
  rewrite Hb. unfold jump_link. rewrite (Hbal 0 [] ((l2, TRB) :: rest)). cbn [close_split snd].
  f_equal. f_equal. unfold set_bef, mkafter, sa, mkafter. cbn [stk bef depth asgn]. f_equal.
  rewrite rev_mid. rewrite rev_app_distr. cbn [rev app]. rewrite ?app_nil_r, <- ?app_assoc. cbn [app]. rewrite ?app_nil_r, <- ?app_assoc. reflexivity.
Qed.

(* ---------- calls *)
Lemma comp_at_closer : forall cpp f d s l rest, d <= 15 ->
  comp cpp (S f) d (s, (l, TRP) :: rest) = Some (s, (l, TRP) :: rest).
Proof.
  intros cpp f d s l rest Hd. rewrite comp_eq.
  change (p2_head (s, (l, TRP) :: rest)) with (Some (s, (l, TRP) :: rest)).
  destruct s as [k b dp a]. apply climb_quiet. intros r' _ Hr. apply quiet_closer; [left; reflexivity|lia].
Qed.

Definition call_end (ts : list ptok) : Prop :=
  exists p b', rev ts = p :: b' /\ match snd p with TId _ | TRB | TRP => True | _ => False end.

Lemma Sx_call : forall cpp l l2 rf tf rg tg kg,
  Sx cpp rf tf 0 -> rf <> [] -> call_end rf ->
  Sx cpp rg tg kg -> kg <= 15 -> balanced rg -> rg <> [] ->
  Sx cpp (rf ++ (l, TLP) :: rg ++ [(l2, TRP)]) (B (l, TLP) tf tg) 0.
Proof.
  intros cpp l l2 rf tf rg tg kg IHf Hrf Hce IHg Hkg Hbal Hrg.
  apply (Sx_postfix cpp rf tf ((l, TLP) :: rg ++ [(l2, TRP)]) _ IHf Hrf); [discriminate|reflexivity|].
  intros f s rest n Hlen Hop Hj Hnd.
  cbn [app] in *. rewrite <- app_assoc in *. cbn [app] in *.
  rewrite app_length in Hlen. cbn [length] in Hlen. rewrite app_length in Hlen. cbn [length] in Hlen.
  assert (Hla : 1 <= length rf) by (destruct rf; [contradiction|cbn; lia]).
  destruct f as [|f']; [lia|].
  set (sa := mkafter s rf tf).
  rewrite p2_loop_lp by (destruct rg; [contradiction|discriminate]).
  set (s1 := set_bef sa ((l, TLP) :: bef sa)).
  assert (Hin : comp cpp (S f') D_COMMA (adv (sa, (l, TLP) :: rg ++ (l2, TRP) :: rest)) =
                Some (mkafter s1 rg tg, (l2, TRP) :: rest)).
  { cbn [adv]. fold s1. apply (IHg f' 15 s1 ((l2, TRP) :: rest) _ 1).
    - exact Hkg.
    - lia.
    - lia.
    - rewrite app_length. cbn [length]. lia.
    - cbn. split; [reflexivity|discriminate].
    - apply pstart_vac. reflexivity.
    - reflexivity.
    - left. unfold s1, sa, mkafter, set_bef. cbn [stk]. discriminate.
    - intros r a Hr. apply quiet_closer; [left; reflexivity|lia].
    - intros _ a. apply quiet_closer; [left; reflexivity|lia].
    - intros _ a. apply quiet_closer; [left; reflexivity|lia].
    - intros _ _. apply quiet_closer; [left; reflexivity|lia].
    - unfold mkafter. apply cont_quiet; [exact Hkg|]. intros r Hr. apply quiet_closer; [left; reflexivity|exact Hr]. }
  rewrite Hin.
  assert (Hcall : match bef sa with
                  | p :: _ => match snd p with TId _ | TRB | TRP => true | _ => false end
                  | [] => false end = true).
  { unfold sa, mkafter. cbn [bef]. destruct Hce as [p [b' [E H]]]. rewrite E. cbn [app].
    destruct (snd p); try destruct H; reflexivity. }
  rewrite Hcall.
  assert (Hlt : Nat.ltb (length (stk sa)) (length (stk (mkafter s1 rg tg))) = true).
  { apply Nat.ltb_lt. unfold mkafter, s1, set_bef, sa, mkafter. cbn [stk length]. lia. }
  rewrite Hlt.
  unfold bin_op. unfold set_bef at 1. unfold mkafter at 1. cbn [stk bef depth asgn set_stk].
  unfold jump_link. rewrite (Hbal 0 [] ((l2, TRP) :: rest)). cbn [close_split snd].
  f_equal. f_equal. unfold set_bef, set_stk, mkafter, s1, set_bef, sa, mkafter. cbn [stk bef depth asgn]. f_equal.
  rewrite rev_mid. rewrite rev_app_distr. cbn [rev app]. rewrite ?app_nil_r, <- ?app_assoc. cbn [app]. rewrite ?app_nil_r, <- ?app_assoc. reflexivity.
Qed.

Lemma Sx_call0 : forall cpp l l2 rf tf,
  Sx cpp rf tf 0 -> rf <> [] -> call_end rf ->
  Sx cpp (rf ++ [(l, TLP); (l2, TRP)]) (U (l, TLP) tf) 0.
Proof.
  intros cpp l l2 rf tf IHf Hrf Hce.
  apply (Sx_postfix cpp rf tf [(l, TLP); (l2, TRP)] _ IHf Hrf); [discriminate|reflexivity|].
  intros f s rest n Hlen Hop Hj Hnd.
  cbn [app] in *. rewrite app_length in Hlen. cbn [length] in Hlen.
  assert (Hla : 1 <= length rf) by (destruct rf; [contradiction|cbn; lia]).
  destruct f as [|f']; [lia|].
  set (sa := mkafter s rf tf).
  rewrite p2_loop_lp by discriminate.
  cbn [adv]. unfold D_COMMA. rewrite comp_at_closer by lia.
  assert (Hcall : match bef sa with
                  | p :: _ => match snd p with TId _ | TRB | TRP => true | _ => false end
                  | [] => false end = true).
  { unfold sa, mkafter. cbn [bef]. destruct Hce as [p [b' [E H]]]. rewrite E. cbn [app].
    destruct (snd p); try destruct H; reflexivity. }
  rewrite Hcall.
  rewrite Nat.ltb_irrefl.
  unfold un_op. unfold set_bef, sa, mkafter. cbn [stk bef depth asgn set_stk snd is_bracket].
  rewrite !orb_true_r.
  unfold jump_link. cbn [close_split snd app].
  f_equal. f_equal. unfold set_bef. cbn [stk bef depth asgn]. f_equal.
  rewrite rev_app_distr. cbn [rev app]. reflexivity.
Qed.
