(* C07 proofs: the position labelling [canon] satisfies [labels_ok] (the premise is inhabited for every expression). *)
From Coq Require Import List NArith Bool Arith Lia.
From CV Require Import Ast.Defs.
Import ListNotations.
Local Open Scope N_scope.

Definition rootl (e : expr) : N := fst (rt (tree_of e)).

Definition good (r : expr * N) (off : N) : Prop :=
  off < snd r /\ off <= rootl (fst r) /\ labels_ok (fst r) = true.

Lemma good_wrapN : forall b f off,
  (forall o, good (f o) o) -> good (wrapN b f off) off.
Proof.
  intros [] f off H; unfold wrapN; [|apply H].
  destruct (f (off + 1)) as [e o] eqn:E. pose proof (H (off + 1)) as G. rewrite E in G.
  unfold good in *. cbn [fst snd] in *. destruct G as [G1 [G2 G3]]. repeat split; [lia|lia|exact G3].
Qed.

Lemma relab_good : forall e off, good (relab e off) off.
Proof.
  induction e; intros off; cbn [relab]; unfold good in *.
  - repeat split; cbn; lia.
  - repeat split; cbn; lia.
  - (* EPre *)
    pose proof (good_wrapN (Nat.ltb (prec e) P_PRE) (relab e) (off + 1) IHe) as G.
    destruct (wrapN (Nat.ltb (prec e) P_PRE) (relab e) (off + 1)) as [a' k]. destruct G as [G1 [G2 G3]].
    cbn [fst snd] in *. repeat split; [lia|cbn; lia|].
    cbn [labels_ok]. rewrite G3, andb_true_r. apply negb_true_iff. apply N.ltb_ge. unfold rootl in G2. lia.
  - (* EPost *)
    pose proof (good_wrapN (Nat.ltb (prec e) P_POST) (relab e) off IHe) as G.
    destruct (wrapN (Nat.ltb (prec e) P_POST) (relab e) off) as [a' k]. destruct G as [G1 [G2 G3]].
    cbn [fst snd] in *. repeat split; [lia|cbn; lia|exact G3].
  - (* EBin *)
    pose proof (good_wrapN (Nat.ltb (prec e1) (bin_prec o)) (relab e1) off IHe1) as G.
    destruct (wrapN (Nat.ltb (prec e1) (bin_prec o)) (relab e1) off) as [a' k]. destruct G as [G1 [G2 G3]].
    pose proof (good_wrapN (Nat.ltb (prec e2) (S (bin_prec o))) (relab e2) (k + 1) IHe2) as H.
    destruct (wrapN (Nat.ltb (prec e2) (S (bin_prec o))) (relab e2) (k + 1)) as [b' k2]. destruct H as [H1 [H2 H3]].
    cbn [fst snd] in *. repeat split; [lia|cbn; lia|cbn [labels_ok]; rewrite G3, H3; reflexivity].
  - (* EAsg *)
    pose proof (good_wrapN (Nat.ltb (prec e1) P_LOR) (relab e1) off IHe1) as G.
    destruct (wrapN (Nat.ltb (prec e1) P_LOR) (relab e1) off) as [a' k]. destruct G as [G1 [G2 G3]].
    pose proof (good_wrapN (Nat.ltb (prec e2) P_ASG) (relab e2) (k + 1) IHe2) as H.
    destruct (wrapN (Nat.ltb (prec e2) P_ASG) (relab e2) (k + 1)) as [b' k2]. destruct H as [H1 [H2 H3]].
    cbn [fst snd] in *. repeat split; [lia|cbn; lia|cbn [labels_ok]; rewrite G3, H3; reflexivity].
  - (* ECond *)
    pose proof (good_wrapN (Nat.ltb (prec e1) P_LOR) (relab e1) off IHe1) as G.
    destruct (wrapN (Nat.ltb (prec e1) P_LOR) (relab e1) off) as [c' k]. destruct G as [G1 [G2 G3]].
    pose proof (good_wrapN (Nat.ltb (prec e2) P_COMMA) (relab e2) (k + 1) IHe2) as H.
    destruct (wrapN (Nat.ltb (prec e2) P_COMMA) (relab e2) (k + 1)) as [a' k2]. destruct H as [H1 [H2 H3]].
    pose proof (good_wrapN (Nat.ltb (prec e3) P_ASG) (relab e3) (k2 + 1) IHe3) as J.
    destruct (wrapN (Nat.ltb (prec e3) P_ASG) (relab e3) (k2 + 1)) as [b' k3]. destruct J as [J1 [J2 J3]].
    cbn [fst snd] in *. repeat split; [lia|cbn; lia|cbn [labels_ok]; rewrite G3, H3, J3; reflexivity].
  - (* EComma *)
    pose proof (good_wrapN (Nat.ltb (prec e1) P_COMMA) (relab e1) off IHe1) as G.
    destruct (wrapN (Nat.ltb (prec e1) P_COMMA) (relab e1) off) as [a' k]. destruct G as [G1 [G2 G3]].
    pose proof (good_wrapN (Nat.ltb (prec e2) P_ASG) (relab e2) (k + 1) IHe2) as H.
    destruct (wrapN (Nat.ltb (prec e2) P_ASG) (relab e2) (k + 1)) as [b' k2]. destruct H as [H1 [H2 H3]].
    cbn [fst snd] in *. repeat split; [lia|cbn; lia|cbn [labels_ok]; rewrite G3, H3; reflexivity].
  - (* ECall0 *)
    pose proof (good_wrapN (Nat.ltb (prec e) P_POST) (relab e) off IHe) as G.
    destruct (wrapN (Nat.ltb (prec e) P_POST) (relab e) off) as [a' k]. destruct G as [G1 [G2 G3]].
    cbn [fst snd] in *. repeat split; [lia|cbn; lia|exact G3].
  - (* ECall *)
    pose proof (good_wrapN (Nat.ltb (prec e1) P_POST) (relab e1) off IHe1) as G.
    destruct (wrapN (Nat.ltb (prec e1) P_POST) (relab e1) off) as [a' k]. destruct G as [G1 [G2 G3]].
    pose proof (good_wrapN (Nat.ltb (prec e2) P_COMMA) (relab e2) (k + 1) IHe2) as H.
    destruct (wrapN (Nat.ltb (prec e2) P_COMMA) (relab e2) (k + 1)) as [b' k2]. destruct H as [H1 [H2 H3]].
    cbn [fst snd] in *. repeat split; [lia|cbn; lia|cbn [labels_ok]; rewrite G3, H3; reflexivity].
  - (* EIdx *)
    pose proof (good_wrapN (Nat.ltb (prec e1) P_POST) (relab e1) off IHe1) as G.
    destruct (wrapN (Nat.ltb (prec e1) P_POST) (relab e1) off) as [a' k]. destruct G as [G1 [G2 G3]].
    pose proof (good_wrapN (Nat.ltb (prec e2) P_COMMA) (relab e2) (k + 1) IHe2) as H.
    destruct (wrapN (Nat.ltb (prec e2) P_COMMA) (relab e2) (k + 1)) as [b' k2]. destruct H as [H1 [H2 H3]].
    cbn [fst snd] in *. repeat split; [lia|cbn; lia|cbn [labels_ok]; rewrite G3, H3; reflexivity].
  - (* EMem *)
    pose proof (good_wrapN (Nat.ltb (prec e) P_POST) (relab e) off IHe) as G.
    destruct (wrapN (Nat.ltb (prec e) P_POST) (relab e) off) as [a' k]. destruct G as [G1 [G2 G3]].
    cbn [fst snd] in *. repeat split; [lia|cbn; lia|exact G3].
  - (* EPar *)
    pose proof (IHe (off + 1)) as G. destruct (relab e (off + 1)) as [a' k]. destruct G as [G1 [G2 G3]].
    cbn [fst snd] in *. repeat split; [lia|unfold rootl in *; cbn [tree_of]; lia|exact G3].
  - (* ECast *)
    pose proof (good_wrapN (Nat.ltb (prec e) P_PRE) (relab e) (off + 3) IHe) as G.
    destruct (wrapN (Nat.ltb (prec e) P_PRE) (relab e) (off + 3)) as [a' k]. destruct G as [G1 [G2 G3]].
    cbn [fst snd] in *. repeat split; [lia|cbn; lia|].
    cbn [labels_ok]. rewrite G3, andb_true_r. apply negb_true_iff. apply N.ltb_ge. unfold rootl in G2. lia.
Qed.

Theorem labels_ok_canon : forall e, labels_ok (canon e) = true.
Proof. intros e. unfold canon. apply (relab_good e 0). Qed.
