(* Entry point of the extracted executable for C07: decodes a case, runs the model, encodes the result. *)
From Coq Require Import List NArith Bool Arith.
From CV Require Import Base.Bytes Ast.Defs Ast.Frag.
Import ListNotations.
Local Open Scope N_scope.

Definition nd (s : str) : N := match N_of_dec s with Some z => z | None => 0 end.

Definition asg_of (k : N) : asg :=
  match k with
  | 0 => AEq | 1 => AAdd | 2 => ASub | 3 => AMul | 4 => ADiv | 5 => AMod
  | 6 => AAnd | 7 => AOr | 8 => AXor | 9 => AShl | _ => AShr
  end.
Definition asg_code (a : asg) : N :=
  match a with
  | AEq => 0 | AAdd => 1 | ASub => 2 | AMul => 3 | ADiv => 4 | AMod => 5
  | AAnd => 6 | AOr => 7 | AXor => 8 | AShl => 9 | AShr => 10
  end.

Definition opr_of (k : N) : opr :=
  match k with
  | 0 => OPlus | 1 => OMinus | 2 => OStar | 3 => OSlash | 4 => OPercent | 5 => OAmp | 6 => OPipe
  | 7 => OCaret | 8 => OShl | 9 => OShr | 10 => OLt | 11 => OLe | 12 => OGt | 13 => OGe | 14 => OSpace
  | 15 => OEqEq | 16 => ONe | 17 => OAndAnd | 18 => OOrOr | 19 => ONot | 20 => OTilde | 21 => OInc
  | 22 => ODec | _ => OAsg (asg_of (k - 23))
  end.
Definition opr_code (o : opr) : N :=
  match o with
  | OPlus => 0 | OMinus => 1 | OStar => 2 | OSlash => 3 | OPercent => 4 | OAmp => 5 | OPipe => 6
  | OCaret => 7 | OShl => 8 | OShr => 9 | OLt => 10 | OLe => 11 | OGt => 12 | OGe => 13 | OSpace => 14
  | OEqEq => 15 | ONe => 16 | OAndAnd => 17 | OOrOr => 18 | ONot => 19 | OTilde => 20 | OInc => 21
  | ODec => 22 | OAsg a => 23 + asg_code a
  end.

Definition preop_of (k : N) : preop :=
  match k with
  | 0 => PPlus | 1 => PMinus | 2 => PNot | 3 => PTilde | 4 => PDeref | 5 => PAddr | 6 => PInc | _ => PDec
  end.
Definition binop_of (k : N) : binop :=
  match k with
  | 0 => BMul | 1 => BDiv | 2 => BMod | 3 => BAdd | 4 => BSub | 5 => BShl | 6 => BShr | 7 => BSpace
  | 8 => BLt | 9 => BLe | 10 => BGt | 11 => BGe | 12 => BEq | 13 => BNe | 14 => BAnd | 15 => BXor
  | 16 => BOr | 17 => BLAnd | _ => BLOr
  end.

(* token field: first byte = kind, rest = decimal *)
Definition tok_of (f : str) : option tok :=
  match f with
  | 105 :: d => Some (TId (nd d))          (* i *)
  | 110 :: d => Some (TNum (nd d))         (* n *)
  | 111 :: d => Some (TOp (opr_of (nd d))) (* o *)
  | [40] => Some TLP | [41] => Some TRP | [91] => Some TLB | [93] => Some TRB
  | [63] => Some TQ | [58] => Some TColon | [44] => Some TComma | [46] => Some TDot
  | [59] => Some TSemi | [123] => Some TLC
  | 116 :: d => Some (TType (nd d))        (* t *)
  | _ => None
  end.
Definition tok_field (t : tok) : str :=
  match t with
  | TId n => 105 :: dec_of_N n | TNum n => 110 :: dec_of_N n | TOp o => 111 :: dec_of_N (opr_code o)
  | TLP => [40] | TRP => [41] | TLB => [91] | TRB => [93] | TQ => [63] | TColon => [58]
  | TComma => [44] | TDot => [46] | TSemi => [59] | TLC => [123] | TType n => 116 :: dec_of_N n
  end.

Fixpoint toks_of (i : N) (l : list str) : option (list ptok) :=
  match l with
  | [] => Some []
  | f :: r => match tok_of f, toks_of (i + 1) r with
              | Some t, Some ts => Some ((i, t) :: ts)
              | _, _ => None
              end
  end.

(* expression: preorder, one field per node: letter + decimal *)
Fixpoint expr_of (fuel : nat) (l : list str) : option (expr * list str) :=
  match fuel with
  | O => None
  | S f =>
      let one := fun (k : expr -> expr) (r : list str) =>
                   match expr_of f r with Some (a, r1) => Some (k a, r1) | None => None end in
      let two := fun (k : expr -> expr -> expr) (r : list str) =>
                   match expr_of f r with
                   | Some (a, r1) => match expr_of f r1 with Some (b, r2) => Some (k a b, r2) | None => None end
                   | None => None
                   end in
      match l with
      | (105 :: d) :: r => Some (EId 0 (nd d), r)
      | (110 :: d) :: r => Some (ENum 0 (nd d), r)
      | (112 :: d) :: r => one (EPre 0 (preop_of (nd d))) r
      | (113 :: d) :: r => one (EPost 0 (match nd d with 0 => QInc | _ => QDec end)) r
      | (98 :: d) :: r => two (EBin 0 (binop_of (nd d))) r
      | (97 :: d) :: r => two (EAsg 0 (asg_of (nd d))) r
      | [99] :: r => match expr_of f r with
                     | Some (c, r1) => two (ECond 0 0 c) r1
                     | None => None
                     end
      | [107] :: r => two (EComma 0) r
      | [102] :: r => one (ECall0 0) r
      | [103] :: r => two (ECall 0) r
      | [120] :: r => two (EIdx 0) r
      | (109 :: d) :: r => one (fun a => EMem 0 0 a (nd d)) r
      | [114] :: r => one (EPar 0) r
      | (116 :: d) :: r => one (ECast 0 (nd d)) r
      | _ => None
      end
  end.

Definition on (o : option N) : str := match o with Some n => dec_of_N n | None => [] end.

Fixpoint table (a : ast) : list str :=
  match a with
  | L t => [dec_of_N (fst t); []; []]
  | U t x => [dec_of_N (fst t); dec_of_N (fst (rt x)); []] ++ table x
  | B t x y => [dec_of_N (fst t); dec_of_N (fst (rt x)); dec_of_N (fst (rt y))] ++ table x ++ table y
  | R t y => [dec_of_N (fst t); []; dec_of_N (fst (rt y))] ++ table y
  end.

Fixpoint strs_eqb (a b : list str) : bool :=
  match a, b with
  | [], [] => true
  | x :: a', y :: b' => str_eqb x y && strs_eqb a' b'
  | _, _ => false
  end.

Definition FUEL : list str := [[70]].
Definition BAD : list str := [[66]].
Definition OK : str := [111; 107].

Definition cpp_of (s : str) : bool := str_eqb s [99; 112; 112].

Definition with_expr (l : list str) (k : expr -> list str) : list str :=
  match expr_of (S (length l)) l with
  | Some (e, []) => k (canon e)
  | _ => BAD
  end.

(* tags: "render" "spec" "pr" "chk" "parse" *)
Definition run (fields : list str) : list str :=
  match fields with
  | [] => BAD
  | tag :: args =>
      if str_eqb tag [114; 101; 110; 100; 101; 114] then
        with_expr args (fun e => OK :: flat_map (fun t => [dec_of_N (fst t); tok_field (snd t)]) (render e))
      else if str_eqb tag [115; 112; 101; 99] then
        with_expr args (fun e => OK :: table (tree_of e))
      else if str_eqb tag [112; 114] then
        match args with
        | m :: r => with_expr r (fun e => match parse (cpp_of m) (render e) with
                                          | Some a => OK :: table a
                                          | None => FUEL
                                          end)
        | _ => BAD
        end
      else if str_eqb tag [99; 104; 107] then
        match args with
        | m :: r => with_expr r (fun e =>
                      [str_of_bool (wf e); str_of_bool (decl_like (render e)); str_of_bool (labels_ok e);
                       str_of_bool (match parse (cpp_of m) (render e) with
                                    | Some a => strs_eqb (table a) (table (tree_of e))
                                    | None => false
                                    end);
                       str_of_bool (frag5 e); str_of_bool (mid_okP e); str_of_bool (decl_like (renderP e))])
        | _ => BAD
        end
      else if str_eqb tag [112; 97; 114; 115; 101] then
        match args with
        | m :: r =>
            match toks_of 0 r with
            | Some ts =>
                match parse_ctx (cpp_of m) [(0, TLC)] ts with
                | Some (k, rest) => OK :: dec_of_N (N.of_nat (length rest)) :: flat_map table k
                | None => FUEL
                end
            | None => BAD
            end
        | _ => BAD
        end
      else BAD
  end.
