(* C07: decidable fragment predicates and the rendering after prepareTernaryOpForAST, used by the theorems and
   evaluated by the correspondence run.  No proofs in this file. *)
From Coq Require Import List NArith Bool Arith.
From CV Require Import Ast.Defs.
Import ListNotations.

Definition is_q (t : tok) : bool := match t with TQ => true | _ => false end.
Definition hasq (ts : list ptok) : bool := existsb (fun t => is_q (snd t)) ts.

(* is there a '?' outside brackets ([d] = current bracket depth) *)
Fixpoint topq_d (d : nat) (l : list ptok) : bool :=
  match l with
  | [] => false
  | t :: r => match snd t with
              | TLP | TLB => topq_d (S d) r
              | TRP | TRB => topq_d (Nat.pred d) r
              | TQ => Nat.eqb d 0 || topq_d d r
              | _ => topq_d d r
              end
  end.
Definition topq (l : list ptok) : bool := topq_d 0 l.

(* does the rendering have a  ,  <  or  ?  outside brackets *)
Fixpoint topn (e : expr) : bool :=
  let sub := fun (m : nat) (x : expr) (r : bool) => if Nat.ltb (prec x) m then false else r in
  match e with
  | EId _ _ | ENum _ _ | EPar _ _ => false
  | EPre _ _ a | ECast _ _ a => sub P_PRE a (topn a)
  | EPost _ _ a | ECall0 _ a | EMem _ _ a _ => sub P_POST a (topn a)
  | ECall _ a _ | EIdx _ a _ => sub P_POST a (topn a)
  | EBin _ o a b => sub (bin_prec o) a (topn a) || match o with BLt => true | _ => false end
                    || sub (S (bin_prec o)) b (topn b)
  | EAsg _ _ a b => sub P_LOR a (topn a) || sub P_ASG b (topn b)
  | ECond _ _ _ _ _ | EComma _ _ _ => true
  end.

Fixpoint renderP (e : expr) : list ptok :=
  let sub := fun (m : nat) (x : expr) (r : list ptok) => wrap (Nat.ltb (prec x) m) (rootlab x) r in
  match e with
  | EId l n => [(l, TId n)]
  | ENum l n => [(l, TNum n)]
  | EPre l o a => (l, TOp (pre_opr o)) :: sub P_PRE a (renderP a)
  | EPost l o a => sub P_POST a (renderP a) ++ [(l, TOp (post_opr o))]
  | EBin l o a b => sub (bin_prec o) a (renderP a) ++ (l, TOp (bin_opr o)) :: sub (S (bin_prec o)) b (renderP b)
  | EAsg l o a b => sub P_LOR a (renderP a) ++ (l, TOp (OAsg o)) :: sub P_ASG b (renderP b)
  | ECond lq lc c a b =>
      sub P_LOR c (renderP c) ++ (lq, TQ) :: wrap (topn a) lq (renderP a) ++ (lc, TColon) :: sub P_ASG b (renderP b)
  | EComma l a b => sub P_COMMA a (renderP a) ++ (l, TComma) :: sub P_ASG b (renderP b)
  | ECall0 l f => sub P_POST f (renderP f) ++ [(l, TLP); (l, TRP)]
  | ECall l f a => sub P_POST f (renderP f) ++ (l, TLP) :: sub P_COMMA a (renderP a) ++ [(l, TRP)]
  | EIdx l a i => sub P_POST a (renderP a) ++ (l, TLB) :: sub P_COMMA i (renderP i) ++ [(l, TRB)]
  | EMem ld lm a m => sub P_POST a (renderP a) ++ [(ld, TDot); (lm, TId m)]
  | EPar l a => (l, TLP) :: renderP a ++ [(l, TRP)]
  | ECast l ty a => (l, TLP) :: (l, TType ty) :: (l, TRP) :: sub P_PRE a (renderP a)
  end.

(* everything except casts *)
Fixpoint frag5 (e : expr) : bool :=
  match e with
  | EId _ _ | ENum _ _ => true
  | EBin _ _ a b | EAsg _ _ a b | EComma _ a b | ECall _ a b | EIdx _ a b => frag5 a && frag5 b
  | EPar _ a | EPre _ _ a | EPost _ _ a | ECall0 _ a | EMem _ _ a _ => frag5 a
  | ECond _ _ c a b => frag5 c && frag5 a && frag5 b
  | ECast _ _ _ => false
  end.

(* a middle operand that keeps no parentheses and is an assignment contains no '?' *)
Fixpoint mid_okP (e : expr) : bool :=
  match e with
  | EId _ _ | ENum _ _ => true
  | EBin _ _ a b | EAsg _ _ a b | EComma _ a b | ECall _ a b | EIdx _ a b => mid_okP a && mid_okP b
  | EPar _ a | EPre _ _ a | EPost _ _ a | ECall0 _ a | EMem _ _ a _ | ECast _ _ a => mid_okP a
  | ECond _ _ c a b =>
      (topn a || (negb (Nat.eqb (prec a) P_ASG) || negb (hasq (renderP a)))) && mid_okP c && mid_okP a && mid_okP b
  end.

