(* C07 proofs: corollary for position-labelled expressions. *)
From Coq Require Import List NArith Bool.
From CV Require Import Ast.Defs Ast.Main4 Ast.Labels.
Import ListNotations.

Lemma parse_render_canon : forall (cpp : bool) (e0 : expr), let e := canon e0 in
  frag5 e = true -> wf e = true -> mid_ok e = true -> decl_like (render e) = false ->
  prep (2 * length (render e ++ [semi])) (render e ++ [semi]) = render e ++ [semi] ->
  parse cpp (render e) = Some (tree_of e).
Proof.
  intros cpp e0 e Hf Hw Hm Hd Hp. apply parse_render_stage5; try assumption. apply labels_ok_canon.
Qed.
