(* C07 proofs: stage 5 with syntactic premises only, and the corollary for position-labelled expressions. *)
From Coq Require Import List NArith Bool.
From CV Require Import Ast.Defs Ast.Frag Ast.Main4 Ast.Labels Ast.Prep.
Import ListNotations.

Lemma parse_render_stage5_syn : forall (cpp : bool) (e : expr),
  frag5 e = true -> wf e = true -> labels_ok e = true -> mid_ok e = true -> plainmid e = true ->
  parse cpp (render e) = Some (tree_of e).
Proof.
  intros cpp e Hf Hw Hl Hm Hp. apply parse_render_stage5; try assumption. apply prep_plainmid. exact Hp.
Qed.

Lemma parse_render_canon : forall (cpp : bool) (e0 : expr), let e := canon e0 in
  frag5 e = true -> wf e = true -> mid_ok e = true -> plainmid e = true ->
  parse cpp (render e) = Some (tree_of e).
Proof.
  intros cpp e0 e Hf Hw Hm Hp. apply parse_render_stage5_syn; try assumption. apply labels_ok_canon.
Qed.
