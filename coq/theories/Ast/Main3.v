(* C07 proofs, part 8: the theorem for stage 2 + prefix unary operators. *)
From Coq Require Import List NArith Bool Arith Lia.
From CV Require Import Ast.Defs Ast.Frag Ast.Basics Ast.Ctx Ast.Stage1 Ast.Main1 Ast.Stage2 Ast.Main2 Ast.NoDecl Ast.Stage3.
Import ListNotations.

Fixpoint frag3 (e : expr) : bool :=
  match e with
  | EId _ _ | ENum _ _ => true
  | EBin _ _ a b | EAsg _ _ a b | EComma _ a b => frag3 a && frag3 b
  | EPar _ a | EPre _ _ a => frag3 a
  | _ => false
  end.

Lemma ender_cons : forall (t : ptok) rb, ender rb -> ender (t :: rb).
Proof. intros t rb H. apply (ender_mid [] rb t H). Qed.

Lemma hd_bad_render : forall a, frag3 a = true -> Nat.ltb (prec a) P_PRE = false ->
  hd_is bad_after_incdec (render a) = is_rvalue_prefix a.
Proof.
  intros a Hf Hp. destruct a; try discriminate; try reflexivity.
  - destruct o; reflexivity.
  - exfalso. apply Nat.ltb_ge in Hp. cbn [prec] in Hp. unfold P_PRE in Hp. destruct o; cbn in Hp; lia.
Qed.

Lemma main3 : forall cpp e, frag3 e = true -> wf e = true -> labels_ok e = true ->
  Sx cpp (render e) (tree_of e) (rank e) /\ ender (render e) /\ starter1 (render e) /\ render e <> [].
Proof.
  induction e; intros Hf Hw Hl; try discriminate; cbn [frag3] in Hf; cbn [wf labels_ok] in Hw, Hl.
  - repeat split; [apply Sx_id|exists [], (l, TId n); split; reflexivity|discriminate].
  - repeat split; [apply Sx_num|exists [], (l, TNum n); split; reflexivity|discriminate].
  - (* EPre *)
    apply andb_true_iff in Hw. destruct Hw as [Hw1 Hw2].
    apply andb_true_iff in Hl. destruct Hl as [Hl1 Hl2].
    destruct (IHe Hf Hw2 Hl2) as [Sa [Ea [Sta Na]]].
    cbn [render tree_of].
    wrap_facts Sa Ea Sta Na e P_PRE.
    repeat split.
    + change (rank (EPre l o e)) with 1.
      eapply Sx_pre; try eassumption.
      * pose proof (wrapped_rank e P_PRE). unfold P_PRE in *. lia.
      * apply negb_true_iff in Hl1. exact Hl1.
      * intros Hi. destruct (Nat.ltb (prec e) P_PRE) eqn:E; [reflexivity|].
        cbn [wrap]. rewrite (hd_bad_render e Hf E).
        destruct o; try discriminate Hi; apply negb_true_iff in Hw1; exact Hw1.
    + apply ender_cons; assumption.
    + unfold starter1 in *. cbn [lead_ok snd]. destruct o; try reflexivity; assumption.
    + discriminate.
  - (* EBin *)
    apply andb_true_iff in Hf. destruct Hf as [Hf1 Hf2].
    apply andb_true_iff in Hw. destruct Hw as [Hw1 Hw2].
    apply andb_true_iff in Hl. destruct Hl as [Hl1 Hl2].
    destruct (IHe1 Hf1 Hw1 Hl1) as [Sa [Ea [Sta Na]]]. destruct (IHe2 Hf2 Hw2 Hl2) as [Sb [Eb [Stb Nb]]].
    cbn [render tree_of].
    wrap_facts Sa Ea Sta Na e1 (bin_prec o). wrap_facts Sb Eb Stb Nb e2 (S (bin_prec o)).
    repeat split.
    + change (rank (EBin l o e1 e2)) with (binrank o).
      eapply Sx_bin; try eassumption.
      * pose proof (wrapped_rank e1 (bin_prec o)). unfold binrank. lia.
      * pose proof (wrapped_rank e2 (S (bin_prec o))). destruct (binrank_range o). unfold binrank in *. lia.
    + apply ender_mid; assumption.
    + apply starter_app; assumption.
    + apply app_nonnil; assumption.
  - (* EAsg *)
    apply andb_true_iff in Hf. destruct Hf as [Hf1 Hf2].
    apply andb_true_iff in Hw. destruct Hw as [Hw1 Hw2].
    apply andb_true_iff in Hl. destruct Hl as [Hl1 Hl2].
    destruct (IHe1 Hf1 Hw1 Hl1) as [Sa [Ea [Sta Na]]]. destruct (IHe2 Hf2 Hw2 Hl2) as [Sb [Eb [Stb Nb]]].
    cbn [render tree_of].
    wrap_facts Sa Ea Sta Na e1 P_LOR. wrap_facts Sb Eb Stb Nb e2 P_ASG.
    repeat split.
    + change (rank (EAsg l o e1 e2)) with 14.
      eapply Sx_asg; try eassumption.
      * pose proof (wrapped_rank e1 P_LOR). unfold P_LOR in *. lia.
      * pose proof (wrapped_rank e2 P_ASG). unfold P_ASG in *. lia.
    + apply ender_mid; assumption.
    + apply starter_app; assumption.
    + apply app_nonnil; assumption.
  - (* EComma *)
    apply andb_true_iff in Hf. destruct Hf as [Hf1 Hf2].
    apply andb_true_iff in Hw. destruct Hw as [Hw1 Hw2].
    apply andb_true_iff in Hl. destruct Hl as [Hl1 Hl2].
    destruct (IHe1 Hf1 Hw1 Hl1) as [Sa [Ea [Sta Na]]]. destruct (IHe2 Hf2 Hw2 Hl2) as [Sb [Eb [Stb Nb]]].
    cbn [render tree_of].
    wrap_facts Sa Ea Sta Na e1 P_COMMA. wrap_facts Sb Eb Stb Nb e2 P_ASG.
    repeat split.
    + change (rank (EComma l e1 e2)) with 15.
      eapply Sx_comma; try eassumption.
      * pose proof (wrapped_rank e1 P_COMMA). unfold P_COMMA in *. lia.
      * pose proof (wrapped_rank e2 P_ASG). unfold P_ASG in *. lia.
    + apply ender_mid; assumption.
    + apply starter_app; assumption.
    + apply app_nonnil; assumption.
  - (* EPar *)
    destruct (IHe Hf Hw Hl) as [Sa [Ea [Sta Na]]]. cbn [render tree_of].
    repeat split.
    + change (rank (EPar l e)) with 0.
      apply (Sx_paren cpp (render e) (tree_of e) (rank e) l l Sa); [apply rank_le|apply render_balanced].
    + exists ((l, TLP) :: render e), (l, TRP). split; reflexivity.
    + discriminate.
Qed.

Lemma frag3_no_q : forall e, frag3 e = true -> alltok is_q (render e).
Proof.
  induction e; intros Hf; try discriminate; cbn [frag3] in Hf; cbn [render];
    try (apply andb_true_iff in Hf; destruct Hf);
    repeat first [ apply alltok_app | apply alltok_wrap | apply alltok_one | reflexivity
                 | solve [auto] | match goal with |- alltok _ (?t :: ?r) => apply (alltok_app is_q [t] r) end ].
  all: try (destruct o; reflexivity).
Qed.

Lemma frag3_no_rplp : forall e, frag3 e = true -> rplp false (render e) = false.
Proof.
  induction e; intros Hf; try discriminate; cbn [frag3] in Hf; cbn [render];
    try (apply andb_true_iff in Hf; destruct Hf as [Hf1 Hf2]); try reflexivity.
  - cbn [rplp andb orb snd is_rp]. apply rplp_wrap; auto.
  - apply rplp_join; try reflexivity; apply rplp_wrap; auto.
  - apply rplp_join; try reflexivity; apply rplp_wrap; auto.
  - apply rplp_join; try reflexivity; apply rplp_wrap; auto.
  - apply (rplp_wrap true l (render e)). auto.
Qed.

Theorem parse_render_stage3 : forall cpp e,
  frag3 e = true -> wf e = true -> labels_ok e = true -> parse cpp (render e) = Some (tree_of e).
Proof.
  intros cpp e Hf Hw Hl. destruct (main3 cpp e Hf Hw Hl) as [HS _].
  apply (parse_of_Sx cpp _ _ (rank e) HS); [apply rank_le|].
  apply prep_no_q. apply alltok_app; [apply frag3_no_q; exact Hf|apply alltok_one; reflexivity].
Qed.
