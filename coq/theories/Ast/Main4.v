(* C07 proofs, part 10: the theorem for everything except ?: and casts. *)
From Coq Require Import List NArith Bool Arith Lia.
From CV Require Import Ast.Defs Ast.Frag Ast.Basics Ast.Ctx Ast.Stage1 Ast.Main1 Ast.Stage2 Ast.Main2 Ast.NoDecl Ast.Stage3
                       Ast.Main3 Ast.Stage4 Ast.Stage5.
Import ListNotations.

Fixpoint frag4 (e : expr) : bool :=
  match e with
  | EId _ _ | ENum _ _ => true
  | EBin _ _ a b | EAsg _ _ a b | EComma _ a b | ECall _ a b | EIdx _ a b => frag4 a && frag4 b
  | EPar _ a | EPre _ _ a | EPost _ _ a | ECall0 _ a | EMem _ _ a _ => frag4 a
  | ECond _ _ _ _ _ | ECast _ _ _ => false
  end.

(* the middle operand of ?: is not a comma expression and, if it is an assignment / conditional expression,
   contains no '?' : then the rank-14 loop inside the recursion of '?' stops at the right ':' *)
Definition midcond (a : expr) : bool :=
  Nat.leb P_ASG (prec a) && (negb (Nat.eqb (prec a) P_ASG) || negb (hasq (render a))).

Fixpoint mid_ok (e : expr) : bool :=
  match e with
  | EId _ _ | ENum _ _ => true
  | EBin _ _ a b | EAsg _ _ a b | EComma _ a b | ECall _ a b | EIdx _ a b => mid_ok a && mid_ok b
  | EPar _ a | EPre _ _ a | EPost _ _ a | ECall0 _ a | EMem _ _ a _ | ECast _ _ a => mid_ok a
  | ECond _ _ c a b => midcond a && mid_ok c && mid_ok a && mid_ok b
  end.

Lemma frag4_frag5 : forall e, frag4 e = true -> frag5 e = true /\ mid_ok e = true.
Proof.
  induction e; intros H; try discriminate; cbn [frag4 frag5 mid_ok] in *; auto;
    try (apply andb_true_iff in H; destruct H as [H1 H2];
         destruct (IHe1 H1) as [-> ->]; destruct (IHe2 H2) as [-> ->]; split; reflexivity).
Qed.

(* ---------- how renderings end *)
Lemma strict_end_snoc : forall xs (t : ptok), strict_ender (snd t) = true -> strict_end (xs ++ [t]).
Proof. intros xs t H. exists t, (rev xs). rewrite rev_app_distr. split; [reflexivity|exact H]. Qed.

Lemma strict_end_app : forall r1 r2, strict_end r2 -> strict_end (r1 ++ r2).
Proof.
  intros r1 r2 [p [b' [E H]]]. exists p, (b' ++ rev r1). rewrite rev_app_distr, E. split; [reflexivity|exact H].
Qed.

Lemma strict_end_wrapped : forall l ts, strict_end ((l, TLP) :: ts ++ [(l, TRP)]).
Proof. intros l ts. apply (strict_end_app [(l, TLP)] (ts ++ [(l, TRP)])). apply strict_end_snoc. reflexivity. Qed.

Lemma strict_end_of : forall a, is_postincdec a = false -> Nat.ltb (prec a) P_POST = false -> strict_end (render a).
Proof.
  intros a Hp Hw. destruct a; try discriminate; cbn [render].
  - apply (strict_end_snoc []). reflexivity.
  - apply (strict_end_snoc []). reflexivity.
  - exfalso. apply Nat.ltb_ge in Hw. cbn [prec] in Hw. unfold P_POST in Hw. destruct o; cbn in Hw; lia.
  - apply (strict_end_app _ [_; _]). apply (strict_end_snoc [_]). reflexivity.
  - apply (strict_end_app _ ((l, TLP) :: _ ++ [(l, TRP)])). apply strict_end_wrapped.
  - apply (strict_end_app _ ((l, TLB) :: _ ++ [(l, TRB)])).
    apply (strict_end_app [(l, TLB)]). apply strict_end_snoc. reflexivity.
  - apply (strict_end_app _ [_; _]). apply (strict_end_snoc [_]). reflexivity.
  - apply strict_end_wrapped.
Qed.

Lemma strict_end_sub : forall a, is_postincdec a = false ->
  strict_end (wrap (Nat.ltb (prec a) P_POST) (rootlab a) (render a)).
Proof.
  intros a Hp. destruct (Nat.ltb (prec a) P_POST) eqn:E; [apply strict_end_wrapped|apply strict_end_of; assumption].
Qed.

Lemma call_end_sub : forall a, is_postincdec a = false -> is_num a = false ->
  call_end (wrap (Nat.ltb (prec a) P_POST) (rootlab a) (render a)).
Proof.
  intros a Hp Hn. destruct (strict_end_sub a Hp) as [p [b' [E H]]]. exists p, b'. split; [exact E|].
  destruct (Nat.ltb (prec a) P_POST) eqn:Ew.
  - cbn [wrap rev] in E. rewrite rev_app_distr in E. cbn [rev app] in E. inversion E. exact I.
  - cbn [wrap] in E. destruct a; try discriminate; cbn [render] in E.
    + inversion E. exact I.
    + exfalso. apply Nat.ltb_ge in Ew. cbn [prec] in Ew. unfold P_POST in Ew. destruct o; cbn in Ew; lia.
    + rewrite rev_app_distr in E. inversion E. exact I.
    + rewrite rev_app_distr in E. cbn [rev] in E. rewrite rev_app_distr in E. inversion E. exact I.
    + rewrite rev_app_distr in E. cbn [rev] in E. rewrite rev_app_distr in E. inversion E. exact I.
    + rewrite rev_app_distr in E. inversion E. exact I.
    + cbn [rev] in E. rewrite rev_app_distr in E. inversion E. exact I.
Qed.

Lemma strict_end_ender2 : forall ts, strict_end ts -> ender2 ts.
Proof. intros ts [p [b' [E H]]] b. rewrite E. left. exact H. Qed.

Lemma ender2_wrap : forall b l ts, ender2 ts -> ender2 (wrap b l ts).
Proof.
  intros [] l ts H; [|exact H]. apply strict_end_ender2. apply strict_end_wrapped.
Qed.

Lemma ender2_mid : forall (ra rb : list ptok) t, rb <> [] -> ender2 rb -> ender2 (ra ++ t :: rb).
Proof.
  intros ra rb t Hn H b. rewrite rev_mid. specialize (H (t :: rev ra ++ b)).
  exact H.
Qed.

Lemma ender2_post : forall ra (t : ptok), strict_end ra -> is_incdec (snd t) = true -> ender2 (ra ++ [t]).
Proof.
  intros ra t [p [b' [E H]]] Hi b. rewrite rev_snoc1, E. right. split; [exact Hi|exact H].
Qed.

Lemma Sx_sub0 : forall cpp a,
  Sx cpp (render a) (tree_of a) (rank a) ->
  Sx cpp (wrap (Nat.ltb (prec a) P_POST) (rootlab a) (render a)) (tree_of a) 0.
Proof.
  intros cpp a H. pose proof (Sx_wrap cpp (Nat.ltb (prec a) P_POST) (rootlab a) _ _ _ H (rank_le a) (render_balanced a)) as W.
  pose proof (wrapped_rank a P_POST) as R. unfold P_POST in R at 2.
  destruct (Nat.ltb (prec a) P_POST); [exact W|]. replace 0 with (rank a) by lia. exact W.
Qed.

Lemma wrap_comma : forall a, wrap (Nat.ltb (prec a) P_COMMA) (rootlab a) (render a) = render a.
Proof.
  intros a. destruct (prec_range a). destruct (Nat.ltb (prec a) P_COMMA) eqn:E; [|reflexivity].
  apply Nat.ltb_lt in E. unfold P_COMMA in E. lia.
Qed.

Lemma render_nonnil : forall e, render e <> [].
Proof.
  destruct e; cbn [render]; try discriminate;
    intro H; apply app_eq_nil in H; destruct H as [_ H]; discriminate.
Qed.

Lemma hd_is_app : forall p (l1 l2 : list ptok), l1 <> [] -> hd_is p (l1 ++ l2) = hd_is p l1.
Proof. intros p [|t l1] l2 H; [contradiction|reflexivity]. Qed.

Lemma post_not_rvalue_prefix : forall a, Nat.ltb (prec a) P_POST = false -> is_rvalue_prefix a = false.
Proof. intros a H. destruct a; try reflexivity. discriminate. Qed.

Lemma hd_bad_gen : forall a, Nat.ltb (prec a) P_PRE = false ->
  hd_is bad_after_incdec (render a) = is_rvalue_prefix a.
Proof.
  assert (Hsub : forall x, (Nat.ltb (prec x) P_PRE = false -> hd_is bad_after_incdec (render x) = is_rvalue_prefix x) ->
            hd_is bad_after_incdec (wrap (Nat.ltb (prec x) P_POST) (rootlab x) (render x)) = false).
  { intros x IH. destruct (Nat.ltb (prec x) P_POST) eqn:E; [reflexivity|]. cbn [wrap].
    rewrite IH.
    - apply post_not_rvalue_prefix. exact E.
    - apply Nat.ltb_ge in E. apply Nat.ltb_ge. unfold P_POST, P_PRE in *. lia. }
  induction a; intros Hp; try reflexivity; cbn [render is_rvalue_prefix];
    try (rewrite hd_is_app by (apply wrap_nonnil; apply render_nonnil); apply Hsub; assumption).
  - destruct o; reflexivity.
  - exfalso. apply Nat.ltb_ge in Hp. cbn [prec] in Hp. unfold P_PRE in Hp. destruct o; cbn in Hp; lia.
  - discriminate.
  - discriminate.
  - discriminate.
Qed.

Ltac split_and H := repeat (apply andb_true_iff in H; let H2 := fresh H in destruct H as [H H2]).

Lemma main5 : forall cpp e, frag5 e = true -> wf e = true -> labels_ok e = true -> mid_ok e = true ->
  Sx cpp (render e) (tree_of e) (rank e) /\ ender2 (render e) /\ starter1 (render e) /\ render e <> [].
Proof.
  induction e; intros Hf Hw Hl Hm; try discriminate; cbn [frag5] in Hf; cbn [wf labels_ok] in Hw, Hl; cbn [mid_ok] in Hm.
  - repeat split; [apply Sx_id|apply strict_end_ender2; apply (strict_end_snoc []); reflexivity|discriminate].
  - repeat split; [apply Sx_num|apply strict_end_ender2; apply (strict_end_snoc []); reflexivity|discriminate].
  - (* EPre *)
    apply andb_true_iff in Hw. destruct Hw as [Hw1 Hw2].
    apply andb_true_iff in Hl. destruct Hl as [Hl1 Hl2].
    destruct (IHe Hf Hw2 Hl2 Hm) as [Sa [Ea [Sta Na]]].
    cbn [render tree_of].
    pose proof (Sx_wrap cpp (Nat.ltb (prec e) P_PRE) (rootlab e) _ _ _ Sa (rank_le e) (render_balanced e)) as Wa.
    pose proof (starter_wrap (Nat.ltb (prec e) P_PRE) (rootlab e) _ Sta) as Ws.
    repeat split.
    + change (rank (EPre l o e)) with 1.
      eapply Sx_pre; try eassumption.
      * pose proof (wrapped_rank e P_PRE). unfold P_PRE in *. lia.
      * apply negb_true_iff in Hl1. exact Hl1.
      * intros Hi. destruct (Nat.ltb (prec e) P_PRE) eqn:E; [reflexivity|].
        cbn [wrap]. rewrite (hd_bad_gen e E).
        destruct o; try discriminate Hi; apply negb_true_iff in Hw1; exact Hw1.
    + apply (ender2_mid [] _ _ (wrap_nonnil _ _ _ Na)). apply ender2_wrap. exact Ea.
    + unfold starter1 in *. cbn [lead_ok snd]. destruct o; try reflexivity; assumption.
    + discriminate.
  - (* EPost *)
    apply andb_true_iff in Hw. destruct Hw as [Hw1 Hw2]. apply negb_true_iff in Hw1.
    destruct (IHe Hf Hw2 Hl Hm) as [Sa [Ea [Sta Na]]].
    cbn [render tree_of].
    repeat split.
    + change (rank (EPost l o e)) with 0.
      apply Sx_post; [apply Sx_sub0; exact Sa|apply wrap_nonnil; exact Na|apply strict_end_sub; exact Hw1].
    + apply ender2_post; [apply strict_end_sub; exact Hw1|destruct o; reflexivity].
    + apply starter_app. apply starter_wrap. exact Sta.
    + apply app_nonnil. apply wrap_nonnil. exact Na.
  - (* EBin *)
    split_and Hf. split_and Hw. split_and Hl. split_and Hm.
    destruct (IHe1 Hf Hw Hl Hm) as [Sa [Ea [Sta Na]]]. destruct (IHe2 Hf0 Hw0 Hl0 Hm0) as [Sb [Eb [Stb Nb]]].
    cbn [render tree_of].
    pose proof (Sx_wrap cpp (Nat.ltb (prec e1) (bin_prec o)) (rootlab e1) _ _ _ Sa (rank_le e1) (render_balanced e1)).
    pose proof (Sx_wrap cpp (Nat.ltb (prec e2) (S (bin_prec o))) (rootlab e2) _ _ _ Sb (rank_le e2) (render_balanced e2)).
    repeat split.
    + change (rank (EBin l o e1 e2)) with (binrank o).
      eapply Sx_bin; try eassumption.
      * pose proof (wrapped_rank e1 (bin_prec o)). unfold binrank. lia.
      * pose proof (wrapped_rank e2 (S (bin_prec o))). destruct (binrank_range o). unfold binrank in *. lia.
      * apply ender2_wrap; exact Ea.
      * apply starter_wrap; exact Stb.
      * apply wrap_nonnil; exact Na.
    + apply ender2_mid; [apply wrap_nonnil; exact Nb|apply ender2_wrap; exact Eb].
    + apply starter_app. apply starter_wrap. exact Sta.
    + apply app_nonnil. apply wrap_nonnil. exact Na.
  - (* EAsg *)
    split_and Hf. split_and Hw. split_and Hl. split_and Hm.
    destruct (IHe1 Hf Hw Hl Hm) as [Sa [Ea [Sta Na]]]. destruct (IHe2 Hf0 Hw0 Hl0 Hm0) as [Sb [Eb [Stb Nb]]].
    cbn [render tree_of].
    pose proof (Sx_wrap cpp (Nat.ltb (prec e1) P_LOR) (rootlab e1) _ _ _ Sa (rank_le e1) (render_balanced e1)).
    pose proof (Sx_wrap cpp (Nat.ltb (prec e2) P_ASG) (rootlab e2) _ _ _ Sb (rank_le e2) (render_balanced e2)).
    repeat split.
    + change (rank (EAsg l o e1 e2)) with 14.
      eapply Sx_asg; try eassumption.
      * pose proof (wrapped_rank e1 P_LOR). unfold P_LOR in *. lia.
      * pose proof (wrapped_rank e2 P_ASG). unfold P_ASG in *. lia.
      * apply ender2_wrap; exact Ea.
      * apply wrap_nonnil; exact Nb.
      * apply wrap_nonnil; exact Na.
      * apply dbal_wrap. apply render_dbal.
    + apply ender2_mid; [apply wrap_nonnil; exact Nb|apply ender2_wrap; exact Eb].
    + apply starter_app. apply starter_wrap. exact Sta.
    + apply app_nonnil. apply wrap_nonnil. exact Na.
  - (* ECond *)
    split_and Hf. split_and Hw. split_and Hl. split_and Hm.
    destruct (IHe1 Hf Hw Hl Hm2) as [Sc [Ec [Stc Nc]]]. destruct (IHe2 Hf1 Hw1 Hl1 Hm1) as [Sa [Ea [Sta Na]]].
    destruct (IHe3 Hf0 Hw0 Hl0 Hm0) as [Sb [Eb [Stb Nb]]].
    cbn [render tree_of]. rewrite wrap_comma.
    pose proof (Sx_wrap cpp (Nat.ltb (prec e1) P_LOR) (rootlab e1) _ _ _ Sc (rank_le e1) (render_balanced e1)) as Wc.
    pose proof (Sx_wrap cpp (Nat.ltb (prec e3) P_ASG) (rootlab e3) _ _ _ Sb (rank_le e3) (render_balanced e3)) as Wb.
    unfold midcond in Hm. split_and Hm. apply Nat.leb_le in Hm.
    repeat split.
    + change (rank (ECond lq lc e1 e2 e3)) with 14.
      eapply Sx_cond; [exact Wc|exact Sa|exact Wb| | | | | | | |].
      * pose proof (wrapped_rank e1 P_LOR). unfold P_LOR in *. lia.
      * unfold rank. unfold P_ASG in Hm. lia.
      * pose proof (wrapped_rank e3 P_ASG). unfold P_ASG in *. lia.
      * intros E. apply orb_true_iff in Hm3. destruct Hm3 as [H|H].
        -- apply negb_true_iff in H. apply Nat.eqb_neq in H. unfold rank, P_ASG in *. destruct (prec_range e2). lia.
        -- apply negb_true_iff in H. destruct (topq (render e2)) eqn:Et; [|reflexivity].
           rewrite (topq_hasq _ 0 Et) in H. discriminate.
      * exact Sta.
      * apply wrap_nonnil; exact Nc.
      * apply wrap_nonnil; exact Nb.
      * apply dbal_wrap. apply render_dbal.
    + apply ender2_mid; [intro H0; apply app_eq_nil in H0; destruct H0 as [_ H0]; discriminate|]. apply (ender2_mid (render e2)); [apply wrap_nonnil; exact Nb|apply ender2_wrap; exact Eb].
    + apply starter_app. apply starter_wrap. exact Stc.
    + apply app_nonnil. apply wrap_nonnil. exact Nc.
  - (* EComma *)
    split_and Hf. split_and Hw. split_and Hl. split_and Hm.
    destruct (IHe1 Hf Hw Hl Hm) as [Sa [Ea [Sta Na]]]. destruct (IHe2 Hf0 Hw0 Hl0 Hm0) as [Sb [Eb [Stb Nb]]].
    cbn [render tree_of].
    pose proof (Sx_wrap cpp (Nat.ltb (prec e1) P_COMMA) (rootlab e1) _ _ _ Sa (rank_le e1) (render_balanced e1)).
    pose proof (Sx_wrap cpp (Nat.ltb (prec e2) P_ASG) (rootlab e2) _ _ _ Sb (rank_le e2) (render_balanced e2)).
    repeat split.
    + change (rank (EComma l e1 e2)) with 15.
      eapply Sx_comma; try eassumption.
      * pose proof (wrapped_rank e1 P_COMMA). unfold P_COMMA in *. lia.
      * pose proof (wrapped_rank e2 P_ASG). unfold P_ASG in *. lia.
      * apply wrap_nonnil; exact Nb.
      * apply wrap_nonnil; exact Na.
    + apply ender2_mid; [apply wrap_nonnil; exact Nb|apply ender2_wrap; exact Eb].
    + apply starter_app. apply starter_wrap. exact Sta.
    + apply app_nonnil. apply wrap_nonnil. exact Na.
  - (* ECall0 *)
    split_and Hw. apply negb_true_iff in Hw, Hw1.
    destruct (IHe Hf Hw0 Hl Hm) as [Sa [Ea [Sta Na]]].
    cbn [render tree_of].
    repeat split.
    + change (rank (ECall0 l e)) with 0.
      apply Sx_call0; [apply Sx_sub0; exact Sa|apply wrap_nonnil; exact Na|apply call_end_sub; assumption].
    + apply strict_end_ender2. apply (strict_end_app _ [_; _]). apply (strict_end_snoc [_]). reflexivity.
    + apply starter_app. apply starter_wrap. exact Sta.
    + apply app_nonnil. apply wrap_nonnil. exact Na.
  - (* ECall *)
    split_and Hf. split_and Hw. split_and Hl. split_and Hm. apply negb_true_iff in Hw, Hw2.
    destruct (IHe1 Hf Hw1 Hl Hm) as [Sa [Ea [Sta Na]]]. destruct (IHe2 Hf0 Hw0 Hl0 Hm0) as [Sb [Eb [Stb Nb]]].
    cbn [render tree_of]. rewrite wrap_comma.
    repeat split.
    + change (rank (ECall l e1 e2)) with 0.
      apply (Sx_call cpp l l _ _ _ _ (rank e2)); try assumption.
      * apply Sx_sub0; exact Sa.
      * apply wrap_nonnil; exact Na.
      * apply call_end_sub; assumption.
      * apply rank_le.
      * apply render_balanced.
    + apply strict_end_ender2. apply (strict_end_app _ ((l, TLP) :: _ ++ [(l, TRP)])). apply strict_end_wrapped.
    + apply starter_app. apply starter_wrap. exact Sta.
    + apply app_nonnil. apply wrap_nonnil. exact Na.
  - (* EIdx *)
    split_and Hf. split_and Hw. split_and Hl. split_and Hm.
    destruct (IHe1 Hf Hw Hl Hm) as [Sa [Ea [Sta Na]]]. destruct (IHe2 Hf0 Hw0 Hl0 Hm0) as [Sb [Eb [Stb Nb]]].
    cbn [render tree_of]. rewrite wrap_comma.
    repeat split.
    + change (rank (EIdx l e1 e2)) with 0.
      apply (Sx_idx cpp l l _ _ _ _ (rank e2)); try assumption.
      * apply Sx_sub0; exact Sa.
      * apply wrap_nonnil; exact Na.
      * apply ender2_wrap; exact Ea.
      * apply rank_le.
      * apply render_balanced.
    + apply strict_end_ender2. apply (strict_end_app _ ((l, TLB) :: _ ++ [(l, TRB)])).
      apply (strict_end_app [(l, TLB)]). apply strict_end_snoc. reflexivity.
    + apply starter_app. apply starter_wrap. exact Sta.
    + apply app_nonnil. apply wrap_nonnil. exact Na.
  - (* EMem *)
    destruct (IHe Hf Hw Hl Hm) as [Sa [Ea [Sta Na]]].
    cbn [render tree_of].
    repeat split.
    + change (rank (EMem ld lm e m)) with 0.
      apply Sx_mem; [apply Sx_sub0; exact Sa|apply wrap_nonnil; exact Na|apply ender2_wrap; exact Ea].
    + apply strict_end_ender2. apply (strict_end_app _ [_; _]). apply (strict_end_snoc [_]). reflexivity.
    + apply starter_app. apply starter_wrap. exact Sta.
    + apply app_nonnil. apply wrap_nonnil. exact Na.
  - (* EPar *)
    destruct (IHe Hf Hw Hl Hm) as [Sa [Ea [Sta Na]]]. cbn [render tree_of].
    repeat split.
    + change (rank (EPar l e)) with 0.
      apply (Sx_paren cpp (render e) (tree_of e) (rank e) l l Sa); [apply rank_le|apply render_balanced].
    + apply strict_end_ender2. apply strict_end_wrapped.
    + discriminate.
Qed.

Lemma frag4_no_q : forall e, frag4 e = true -> alltok is_q (render e).
Proof.
  induction e; intros Hf; try discriminate; cbn [frag4] in Hf; cbn [render];
    try (apply andb_true_iff in Hf; destruct Hf);
    repeat first [ apply alltok_app | apply alltok_wrap | apply alltok_one | reflexivity
                 | solve [auto] | match goal with |- alltok _ (?t :: ?r) => apply (alltok_app is_q [t] r) end ].
  all: try (destruct o; reflexivity).
Qed.

(* every constructor except casts; the premises about ?: are [mid_ok] and "prepareTernaryOpForAST leaves the
   rendering unchanged" (it inserts parentheses around a middle operand with a top-level , < or ?) *)
Theorem parse_render_stage5 : forall cpp e,
  frag5 e = true -> wf e = true -> labels_ok e = true -> mid_ok e = true ->
  prep (2 * length (render e ++ [semi])) (render e ++ [semi]) = render e ++ [semi] ->
  parse cpp (render e) = Some (tree_of e).
Proof.
  intros cpp e Hf Hw Hl Hm Hp. destruct (main5 cpp e Hf Hw Hl Hm) as [HS _].
  apply (parse_of_Sx cpp _ _ (rank e) HS); [apply rank_le|exact Hp].
Qed.

Theorem parse_render_stage4 : forall cpp e,
  frag4 e = true -> wf e = true -> labels_ok e = true ->
  parse cpp (render e) = Some (tree_of e).
Proof.
  intros cpp e Hf Hw Hl. destruct (frag4_frag5 e Hf) as [H5 Hm].
  apply parse_render_stage5; try assumption.
  apply prep_no_q. apply alltok_app; [apply frag4_no_q; exact Hf|apply alltok_one; reflexivity].
Qed.
