(* C07 proofs, part 1: unfolding of the ladder, loop budgets, quiet tokens. *)
From Coq Require Import List NArith Bool Arith Lia.
From CV Require Import Ast.Defs Ast.Frag.
Import ListNotations.

(* ---------- the loop of rank r with budget n, and the loops r .. r+j-1 *)
Definition lpn (cpp : bool) (rec : nat -> zst -> option zst) (r n : nat) (z : zst) : option zst :=
  match r with O => p2_loop cpp rec n z | _ => loop_at cpp rec r n z end.

Fixpoint climb (cpp : bool) (rec : nat -> zst -> option zst) (n0 r j : nat) (z : zst) : option zst :=
  match j with
  | O => Some z
  | S j' => match lpn cpp rec r n0 z with
            | Some z' => climb cpp rec n0 (S r) j' z'
            | None => None
            end
  end.

Lemma comp_0 : forall cpp f z,
  comp cpp (S f) 0 z = match p2_head z with None => None | Some z1 => p2_loop cpp (comp cpp f) (S f) z1 end.
Proof. reflexivity. Qed.

Lemma comp_S : forall cpp f d z,
  comp cpp (S f) (S d) z =
  match comp cpp (S f) d z with None => None | Some z1 => loop_at cpp (comp cpp f) (S d) (S f) z1 end.
Proof. reflexivity. Qed.

Lemma climb_snoc : forall cpp rec n0 j r z,
  climb cpp rec n0 r (S j) z =
  match climb cpp rec n0 r j z with Some z' => lpn cpp rec (r + j) n0 z' | None => None end.
Proof.
  induction j; intros.
  - cbn [climb]. rewrite Nat.add_0_r. destruct (lpn cpp rec r n0 z); reflexivity.
  - change (climb cpp rec n0 r (S (S j)) z) with
      (match lpn cpp rec r n0 z with Some z' => climb cpp rec n0 (S r) (S j) z' | None => None end).
    change (climb cpp rec n0 r (S j) z) with
      (match lpn cpp rec r n0 z with Some z' => climb cpp rec n0 (S r) j z' | None => None end).
    destruct (lpn cpp rec r n0 z); [|reflexivity].
    rewrite IHj. replace (S r + j) with (r + S j) by lia. reflexivity.
Qed.

Lemma comp_eq : forall cpp f d z,
  comp cpp (S f) d z =
  match p2_head z with Some z1 => climb cpp (comp cpp f) (S f) 0 (S d) z1 | None => None end.
Proof.
  induction d; intros.
  - rewrite comp_0. destruct (p2_head z) as [z0|]; [|reflexivity]. cbn [climb lpn].
    destruct (p2_loop cpp (comp cpp f) (S f) z0); reflexivity.
  - rewrite comp_S, IHd. destruct (p2_head z) as [z0|]; [|reflexivity].
    rewrite (climb_snoc cpp (comp cpp f) (S f) (S d) 0 z0).
    destruct (climb cpp (comp cpp f) (S f) 0 (S d) z0); reflexivity.
Qed.

Lemma climb_app : forall cpp rec n0 j1 j2 r z,
  climb cpp rec n0 r (j1 + j2) z =
  match climb cpp rec n0 r j1 z with Some z' => climb cpp rec n0 (r + j1) j2 z' | None => None end.
Proof.
  induction j1; intros.
  - cbn. rewrite Nat.add_0_r. reflexivity.
  - cbn [plus climb]. destruct (lpn cpp rec r n0 z); [|reflexivity].
    rewrite IHj1. replace (S r + j1) with (r + S j1) by lia. reflexivity.
Qed.

(* ---------- budgets: more budget never changes a successful loop *)
Lemma bin_loop_mono : forall cpp rec d n z out,
  bin_loop cpp rec d n z = Some out -> forall m, n <= m -> bin_loop cpp rec d m z = Some out.
Proof.
  induction n; intros z out H m Hm; [discriminate|].
  destruct m; [lia|]. cbn [bin_loop] in *.
  destruct (classify cpp d z); try assumption.
  destruct (bin_op (Some (rec (Nat.pred d))) z); [|discriminate].
  apply IHn with (m := m) in H; [assumption|lia].
Qed.

Lemma ptr_loop_mono : forall rec n z out,
  ptr_loop rec n z = Some out -> forall m, n <= m -> ptr_loop rec m z = Some out.
Proof.
  induction n; intros z out H m Hm; [discriminate|].
  destruct m; [lia|]. cbn [ptr_loop] in *.
  destruct z as [s [|t [|t2 r]]]; try assumption.
  destruct (snd t); try assumption. destruct (snd t2); try assumption. destruct o; try assumption.
  destruct (bin_op (Some (rec D_P3)) (s, t :: t2 :: r)); [|discriminate].
  apply IHn with (m := m) in H; [assumption|lia].
Qed.

Lemma p3_loop_mono : forall rec n z out,
  p3_loop rec n z = Some out -> forall m, n <= m -> p3_loop rec m z = Some out.
Proof.
  induction n; intros z out H m Hm; [discriminate|].
  destruct m; [lia|]. cbn [p3_loop] in *.
  destruct z as [s [|t r]]; try assumption.
  match goal with |- context [if ?c then _ else _] => destruct c end; try assumption.
  destruct (star_jump (s, t :: r)).
  - apply IHn with (m := m) in H; [assumption|lia].
  - destruct (un_op (Some (rec D_P3)) (s, t :: r)); [|discriminate].
    apply IHn with (m := m) in H; [assumption|lia].
Qed.

Lemma asg_loop_mono : forall rec n z out,
  asg_loop rec n z = Some out -> forall m, n <= m -> asg_loop rec m z = Some out.
Proof.
  induction n; intros z out H m Hm; [discriminate|].
  destruct m; [lia|]. cbn [asg_loop] in *.
  destruct z as [s [|t r]]; try assumption.
  destruct (snd t); try assumption.
  - destruct o; try assumption.
    destruct (bin_op (Some (rec D_ASG)) (set_asgn s (S (asgn s)), t :: r)) as [[s2 r2]|]; [|discriminate].
    apply IHn with (m := m) in H; [assumption|lia].
  - destruct (hd_is _ r); [discriminate|].
    destruct (bin_op (Some (rec D_ASG)) (set_asgn s 0, t :: r)) as [[s2 r2]|]; [|discriminate].
    apply IHn with (m := m) in H; [assumption|lia].
  - destruct (Nat.ltb 0 (asgn s)); try assumption.
    destruct (bin_op (Some (rec D_ASG)) (s, t :: r)); [|discriminate].
    apply IHn with (m := m) in H; [assumption|lia].
Qed.

Lemma comma_loop_mono : forall rec n z out,
  comma_loop rec n z = Some out -> forall m, n <= m -> comma_loop rec m z = Some out.
Proof.
  induction n; intros z out H m Hm; [discriminate|].
  destruct m; [lia|]. cbn [comma_loop] in *.
  destruct z as [s [|t r]]; try assumption.
  destruct (snd t); try assumption.
  destruct (bin_op (Some (rec D_ASG)) (s, t :: r)); [|discriminate].
  apply IHn with (m := m) in H; [assumption|lia].
Qed.

Lemma p2_loop_mono : forall cpp rec n z out,
  p2_loop cpp rec n z = Some out -> forall m, n <= m -> p2_loop cpp rec m z = Some out.
Proof.
  induction n; intros z out H m Hm; [discriminate|].
  destruct m; [lia|]. cbn [p2_loop] in *.
  destruct z as [s [|t r]]; try assumption.
  destruct (snd t); try assumption.
  - destruct o; try assumption.
    + destruct (negb (is_prefix_unary (bef s) (TOp OInc))); try assumption.
      destruct (un_op (Some scope) (s, t :: r)); [|discriminate].
      apply IHn with (m := m) in H; [assumption|lia].
    + destruct (negb (is_prefix_unary (bef s) (TOp ODec))); try assumption.
      destruct (un_op (Some scope) (s, t :: r)); [|discriminate].
      apply IHn with (m := m) in H; [assumption|lia].
  - match type of H with match ?x with _ => _ end = _ => destruct x as [[s2 r2]|]; [|discriminate] end.
    match type of H with match ?x with _ => _ end = _ => destruct x as [[s4 r4]|]; [|discriminate] end.
    destruct (jump_link (s, t :: r) s4); [|discriminate].
    apply IHn with (m := m) in H; [assumption|lia].
  - destruct (cpp && is_prefix_unary (bef s) TLB); [discriminate|].
    match type of H with match ?x with _ => _ end = _ => destruct x as [[s2 r2]|]; [|discriminate] end.
    destruct (jump_link (s, t :: r) s2); [|discriminate].
    apply IHn with (m := m) in H; [assumption|lia].
  - destruct (hd_is is_star r); try assumption.
    destruct (hd_is _ r); [discriminate|].
    match type of H with match ?x with _ => _ end = _ => destruct x; [|discriminate] end.
    apply IHn with (m := m) in H; [assumption|lia].
Qed.

Lemma lpn_mono : forall cpp rec r n z out,
  lpn cpp rec r n z = Some out -> forall m, n <= m -> lpn cpp rec r m z = Some out.
Proof.
  intros cpp rec r n z out H m Hm. destruct r as [|r]; cbn [lpn] in *.
  - eapply p2_loop_mono; eassumption.
  - unfold loop_at in *.
    do 15 (destruct r as [|r];
           [first [eapply p3_loop_mono | eapply ptr_loop_mono | eapply asg_loop_mono
                  | eapply comma_loop_mono | eapply bin_loop_mono]; eassumption|]).
    eapply bin_loop_mono; eassumption.
Qed.
