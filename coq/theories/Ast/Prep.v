(* C07 proofs, part 12: Tokenizer::prepareTernaryOpForAST on renderings.
   [renderP e] = [render e] with parentheses around every middle operand of ?: that has a , < or ? outside
   brackets;  prep (render e) = renderP e. *)
From Coq Require Import List NArith Bool Arith Lia.
From CV Require Import Ast.Defs Ast.Frag Ast.Basics Ast.Ctx.
Import ListNotations.

(* number of inserted parenthesis pairs *)
Fixpoint ins (e : expr) : nat :=
  match e with
  | EId _ _ | ENum _ _ => 0
  | EPre _ _ a | EPost _ _ a | ECall0 _ a | EMem _ _ a _ | EPar _ a | ECast _ _ a => ins a
  | EBin _ _ a b | EAsg _ _ a b | EComma _ a b | ECall _ a b | EIdx _ a b => ins a + ins b
  | ECond _ _ c a b => ins c + ((if topn a then 1 else 0) + ins a) + ins b
  end.

(* ---------- the scan of prepareTernaryOpForAST over a token list *)
Definition TS (ts : list ptok) (tp : bool) : Prop :=
  forall fuel dep need k l2, length ts + length l2 <= fuel ->
    exists fuel', length l2 <= fuel' /\
      tern_scan fuel dep need k (ts ++ l2) = tern_scan fuel' dep (need || tp) (k + length ts) l2.

Lemma TS_nil : TS [] false.
Proof. intros fuel dep need k l2 H. exists fuel. cbn in *. rewrite orb_false_r, Nat.add_0_r. split; [lia|reflexivity]. Qed.

Lemma TS_app : forall a ta b tb, TS a ta -> TS b tb -> TS (a ++ b) (ta || tb).
Proof.
  intros a ta b tb Ha Hb fuel dep need k l2 H. rewrite app_length in H. rewrite <- app_assoc.
  destruct (Ha fuel dep need k (b ++ l2)) as [f1 [H1 E1]]; [rewrite app_length; lia|].
  rewrite app_length in H1.
  destruct (Hb f1 dep (need || ta) (k + length a) l2 H1) as [f2 [H2 E2]].
  exists f2. split; [exact H2|]. rewrite E1, E2, app_length, orb_assoc, Nat.add_assoc. reflexivity.
Qed.

Definition scan_plain (t : tok) : bool :=
  match t with
  | TId _ | TNum _ | TDot | TType _ => true
  | TOp OLt => false
  | TOp _ => true
  | _ => false
  end.

Lemma TS_plain : forall t, scan_plain (snd t) = true -> TS [t] false.
Proof.
  intros t Ht fuel dep need k l2 H. cbn [length] in H. destruct fuel as [|f]; [lia|].
  exists f. split; [lia|]. cbn [app tern_scan]. rewrite orb_false_r. replace (k + length [t]) with (S k) by (cbn; lia).
  destruct (snd t); try discriminate; try reflexivity. destruct o; try discriminate; reflexivity.
Qed.

Lemma TS_flag : forall t, (snd t = TComma \/ snd t = TOp OLt) -> TS [t] true.
Proof.
  intros t Ht fuel dep need k l2 H. cbn [length] in H. destruct fuel as [|f]; [lia|].
  exists f. split; [lia|]. cbn [app tern_scan]. rewrite orb_true_r. replace (k + length [t]) with (S k) by (cbn; lia).
  destruct Ht as [-> | ->]; reflexivity.
Qed.

Lemma TS_group : forall (o c : ptok) ts,
  (snd o = TLP \/ snd o = TLB) -> (snd c = TRP \/ snd c = TRB) -> balanced ts -> TS (o :: ts ++ [c]) false.
Proof.
  intros o c ts Ho Hc Hb fuel dep need k l2 H. cbn [length] in H. rewrite app_length in H. cbn [length] in H.
  destruct fuel as [|f]; [lia|]. exists f. split; [lia|].
  cbn [app]. rewrite <- app_assoc. cbn [app tern_scan].
  assert (Hcs : close_split 0 [] (ts ++ c :: l2) = Some (c :: rev ts ++ [], l2)).
  { rewrite (Hb 0 [] (c :: l2)). cbn [close_split]. destruct Hc as [-> | ->]; reflexivity. }
  rewrite orb_false_r.
  replace (k + length (o :: ts ++ [c])) with (k + 1 + length (c :: rev ts ++ []))
    by (cbn [length]; rewrite !app_length, rev_length; cbn [length]; lia).
  destruct Ho as [-> | ->]; rewrite Hcs; reflexivity.
Qed.

Lemma TS_cond : forall (q c : ptok) ra ta, snd q = TQ -> snd c = TColon -> TS ra ta -> TS (q :: ra ++ [c]) true.
Proof.
  intros q c ra ta Hq Hc Ha fuel dep need k l2 H. cbn [length] in H. rewrite app_length in H. cbn [length] in H.
  destruct fuel as [|f]; [lia|]. cbn [app]. rewrite <- app_assoc. cbn [app tern_scan]. rewrite Hq.
  destruct (Ha f (S dep) true (S k) (c :: l2)) as [f1 [H1 E1]]; [cbn [length]; lia|].
  cbn [length] in H1. destruct f1 as [|f2]; [lia|].
  exists f2. split; [lia|]. rewrite E1. cbn [tern_scan]. rewrite Hc. rewrite orb_true_r. cbn [orb].
  replace (k + length (q :: ra ++ [c])) with (S (S k + length ra)) by (cbn [length]; rewrite app_length; cbn [length]; lia).
  reflexivity.
Qed.

Lemma TS_wrap : forall b l ts tp, balanced ts -> TS ts tp -> TS (wrap b l ts) (if b then false else tp).
Proof.
  intros [] l ts tp Hb H; [|exact H]. apply (TS_group (l, TLP) (l, TRP)); [left; reflexivity|left; reflexivity|exact Hb].
Qed.

Lemma TS_cons : forall t ts a b, TS [t] a -> TS ts b -> TS (t :: ts) (a || b).
Proof. intros t ts a b H1 H2. apply (TS_app [t] a ts b H1 H2). Qed.

Lemma TS_weak : forall ts a b, a = b -> TS ts a -> TS ts b.
Proof. intros ts a b -> H. exact H. Qed.

Lemma bin_plain : forall o, o <> BLt -> scan_plain (TOp (bin_opr o)) = true.
Proof. destruct o; try reflexivity. contradiction. Qed.

Lemma render_TS : forall e, TS (render e) (topn e).
Proof.
  induction e; cbn [render topn].
  - apply TS_plain. reflexivity.
  - apply TS_plain. reflexivity.
  - (* EPre *) apply (TS_weak _ (false || (if Nat.ltb (prec e) P_PRE then false else topn e))); [reflexivity|].
    apply TS_cons; [apply TS_plain; destruct o; reflexivity|apply TS_wrap; [apply render_balanced|exact IHe]].
  - (* EPost *) apply (TS_weak _ ((if Nat.ltb (prec e) P_POST then false else topn e) || false)); [apply orb_false_r|].
    apply TS_app; [apply TS_wrap; [apply render_balanced|exact IHe]|apply TS_plain; destruct o; reflexivity].
  - (* EBin *)
    apply (TS_weak _ ((if Nat.ltb (prec e1) (bin_prec o) then false else topn e1) ||
                      ((match o with BLt => true | _ => false end) || (if Nat.ltb (prec e2) (S (bin_prec o)) then false else topn e2))));
      [rewrite orb_assoc; reflexivity|].
    apply TS_app; [apply TS_wrap; [apply render_balanced|exact IHe1]|].
    apply TS_cons; [|apply TS_wrap; [apply render_balanced|exact IHe2]].
    destruct o; try (apply TS_plain; reflexivity). apply TS_flag. right. reflexivity.
  - (* EAsg *)
    apply (TS_weak _ ((if Nat.ltb (prec e1) P_LOR then false else topn e1) || (false || (if Nat.ltb (prec e2) P_ASG then false else topn e2))));
      [reflexivity|].
    apply TS_app; [apply TS_wrap; [apply render_balanced|exact IHe1]|].
    apply TS_cons; [apply TS_plain; reflexivity|apply TS_wrap; [apply render_balanced|exact IHe2]].
  - (* ECond *)
    apply (TS_weak _ ((if Nat.ltb (prec e1) P_LOR then false else topn e1) || (true || (if Nat.ltb (prec e3) P_ASG then false else topn e3))));
      [apply orb_true_r|].
    apply TS_app; [apply TS_wrap; [apply render_balanced|exact IHe1]|].
    replace ((lq, TQ) :: wrap (Nat.ltb (prec e2) P_COMMA) (rootlab e2) (render e2) ++ (lc, TColon) :: wrap (Nat.ltb (prec e3) P_ASG) (rootlab e3) (render e3))
      with (((lq, TQ) :: wrap (Nat.ltb (prec e2) P_COMMA) (rootlab e2) (render e2) ++ [(lc, TColon)]) ++ wrap (Nat.ltb (prec e3) P_ASG) (rootlab e3) (render e3))
      by (cbn [app]; rewrite <- app_assoc; reflexivity).
    apply TS_app; [|apply TS_wrap; [apply render_balanced|exact IHe3]].
    eapply TS_cond; [reflexivity|reflexivity|]. apply TS_wrap; [apply render_balanced|exact IHe2].
  - (* EComma *)
    apply (TS_weak _ ((if Nat.ltb (prec e1) P_COMMA then false else topn e1) || (true || (if Nat.ltb (prec e2) P_ASG then false else topn e2))));
      [apply orb_true_r|].
    apply TS_app; [apply TS_wrap; [apply render_balanced|exact IHe1]|].
    apply TS_cons; [apply TS_flag; left; reflexivity|apply TS_wrap; [apply render_balanced|exact IHe2]].
  - (* ECall0 *)
    apply (TS_weak _ ((if Nat.ltb (prec e) P_POST then false else topn e) || false)); [apply orb_false_r|].
    apply TS_app; [apply TS_wrap; [apply render_balanced|exact IHe]|].
    apply (TS_group (l, TLP) (l, TRP) []); [left; reflexivity|left; reflexivity|apply bal_nil].
  - (* ECall *)
    apply (TS_weak _ ((if Nat.ltb (prec e1) P_POST then false else topn e1) || false)); [apply orb_false_r|].
    apply TS_app; [apply TS_wrap; [apply render_balanced|exact IHe1]|].
    apply (TS_group (l, TLP) (l, TRP)); [left; reflexivity|left; reflexivity|apply bal_wrap; apply render_balanced].
  - (* EIdx *)
    apply (TS_weak _ ((if Nat.ltb (prec e1) P_POST then false else topn e1) || false)); [apply orb_false_r|].
    apply TS_app; [apply TS_wrap; [apply render_balanced|exact IHe1]|].
    apply (TS_group (l, TLB) (l, TRB)); [right; reflexivity|right; reflexivity|apply bal_wrap; apply render_balanced].
  - (* EMem *)
    apply (TS_weak _ ((if Nat.ltb (prec e) P_POST then false else topn e) || (false || false))); [apply orb_false_r|].
    apply TS_app; [apply TS_wrap; [apply render_balanced|exact IHe]|].
    apply TS_cons; apply TS_plain; reflexivity.
  - (* EPar *)
    apply (TS_group (l, TLP) (l, TRP)); [left; reflexivity|left; reflexivity|apply render_balanced].
  - (* ECast *)
    apply (TS_weak _ (false || (if Nat.ltb (prec e) P_PRE then false else topn e))); [reflexivity|].
    change ((l, TLP) :: (l, TType ty) :: (l, TRP) :: wrap (Nat.ltb (prec e) P_PRE) (rootlab e) (render e))
      with (((l, TLP) :: [(l, TType ty)] ++ [(l, TRP)]) ++ wrap (Nat.ltb (prec e) P_PRE) (rootlab e) (render e)).
    apply TS_app; [|apply TS_wrap; [apply render_balanced|exact IHe]].
    apply (TS_group (l, TLP) (l, TRP)); [left; reflexivity|left; reflexivity|apply bal_one; exact I].
Qed.

(* ---------- prep distributes over renderings *)
Definition PP (ts ts' : list ptok) (n : nat) : Prop :=
  forall f0 rest, prep (length ts + n + f0) (ts ++ rest) = ts' ++ prep f0 rest.

Lemma PP_app : forall a a' n b b' m, PP a a' n -> PP b b' m -> PP (a ++ b) (a' ++ b') (n + m).
Proof.
  intros a a' n b b' m Ha Hb f0 rest. rewrite <- !app_assoc, app_length.
  replace (length a + length b + (n + m) + f0) with (length a + n + (length b + m + f0)) by lia.
  rewrite Ha, Hb. reflexivity.
Qed.

Lemma PP_tok : forall t, is_q (snd t) = false -> PP [t] [t] 0.
Proof.
  intros t H f0 rest. cbn [length app Nat.add prep]. destruct (snd t); try reflexivity. discriminate.
Qed.

Lemma PP_cons : forall t ts ts' n, is_q (snd t) = false -> PP ts ts' n -> PP (t :: ts) (t :: ts') n.
Proof. intros t ts ts' n H1 H2. apply (PP_app [t] [t] 0 ts ts' n (PP_tok t H1) H2). Qed.

Lemma PP_snoc : forall t ts ts' n, is_q (snd t) = false -> PP ts ts' n -> PP (ts ++ [t]) (ts' ++ [t]) n.
Proof.
  intros t ts ts' n H1 H2. replace n with (n + 0) by lia. apply (PP_app ts ts' n [t] [t] 0 H2 (PP_tok t H1)).
Qed.

Lemma PP_wrap : forall b l ts ts' n, PP ts ts' n -> PP (wrap b l ts) (wrap b l ts') n.
Proof.
  intros [] l ts ts' n H; [|exact H]. cbn [wrap]. apply PP_cons; [reflexivity|]. apply PP_snoc; [reflexivity|exact H].
Qed.

Lemma insert_at_app : forall (a : list ptok) x r, insert_at (length a) x (a ++ r) = a ++ x :: r.
Proof. induction a; intros x r; [destruct r; reflexivity|]. cbn [length app insert_at]. rewrite IHa. reflexivity. Qed.

Lemma PP_cond : forall lq (c : ptok) ra ra' na tp,
  snd c = TColon -> PP ra ra' na -> TS ra tp ->
  PP ((lq, TQ) :: ra ++ [c]) ((lq, TQ) :: wrap tp lq ra' ++ [c]) (na + (if tp then 1 else 0)).
Proof.
  intros lq c ra ra' na tp Hc Ha Hts f0 rest.
  cbn [length app]. rewrite app_length. cbn [length]. rewrite <- !app_assoc. cbn [app].
  replace (S (length ra + 1) + (na + (if tp then 1 else 0)) + f0)
    with (S (length ra + 1 + (na + (if tp then 1 else 0)) + f0)) by lia.
  cbn [prep snd fst].
  destruct (Hts (length (ra ++ c :: rest)) 0 false 0 (c :: rest)) as [f1 [H1 E1]];
    [rewrite app_length; lia|].
  rewrite E1. cbn [length] in H1. destruct f1 as [|f2]; [lia|]. cbn [tern_scan]. rewrite Hc. cbn [orb Nat.add].
  destruct tp.
  - rewrite insert_at_app.
    replace (length ra + 1 + (na + 1) + f0) with (length ra + na + (2 + f0)) by lia.
    rewrite Ha. cbn [Nat.add prep snd]. rewrite Hc. cbn [wrap app]. rewrite <- !app_assoc. reflexivity.
  - replace (length ra + 1 + (na + 0) + f0) with (length ra + na + (1 + f0)) by lia.
    rewrite Ha. cbn [Nat.add prep]. rewrite Hc. cbn [wrap]. reflexivity.
Qed.

Lemma prec_ge1 : forall a, 1 <= prec a.
Proof.
  destruct a; unfold prec, P_ATOM, P_PRE, P_POST, P_ASG, P_COMMA; try lia.
  match goal with |- context [bin_prec ?o] => destruct o; cbn; lia end.
Qed.

Lemma wrap_comma_eq : forall a (ts : list ptok), wrap (Nat.ltb (prec a) P_COMMA) (rootlab a) ts = ts.
Proof.
  intros a ts. destruct (Nat.ltb (prec a) P_COMMA) eqn:E; [|reflexivity].
  apply Nat.ltb_lt in E. unfold P_COMMA in E. pose proof (prec_ge1 a). lia.
Qed.

Lemma topn_comma : forall a, (if Nat.ltb (prec a) P_COMMA then false else topn a) = topn a.
Proof.
  intros a. destruct (Nat.ltb (prec a) P_COMMA) eqn:E; [|reflexivity].
  apply Nat.ltb_lt in E. unfold P_COMMA in E. pose proof (prec_ge1 a). lia.
Qed.

Lemma render_PP : forall e, PP (render e) (renderP e) (ins e).
Proof.
  induction e; cbn [render renderP ins].
  - apply PP_tok; reflexivity.
  - apply PP_tok; reflexivity.
  - apply PP_cons; [destruct o; reflexivity|apply PP_wrap; exact IHe].
  - apply PP_snoc; [destruct o; reflexivity|apply PP_wrap; exact IHe].
  - apply PP_app; [apply PP_wrap; exact IHe1|]. apply PP_cons; [destruct o; reflexivity|apply PP_wrap; exact IHe2].
  - apply PP_app; [apply PP_wrap; exact IHe1|]. apply PP_cons; [reflexivity|apply PP_wrap; exact IHe2].
  - (* ECond *)
    rewrite wrap_comma_eq.
    replace (wrap (Nat.ltb (prec e1) P_LOR) (rootlab e1) (render e1) ++ (lq, TQ) :: render e2 ++ (lc, TColon) :: wrap (Nat.ltb (prec e3) P_ASG) (rootlab e3) (render e3))
      with (wrap (Nat.ltb (prec e1) P_LOR) (rootlab e1) (render e1) ++ ((lq, TQ) :: render e2 ++ [(lc, TColon)]) ++ wrap (Nat.ltb (prec e3) P_ASG) (rootlab e3) (render e3))
      by (cbn [app]; rewrite <- app_assoc; reflexivity).
    replace (wrap (Nat.ltb (prec e1) P_LOR) (rootlab e1) (renderP e1) ++ (lq, TQ) :: wrap (topn e2) lq (renderP e2) ++ (lc, TColon) :: wrap (Nat.ltb (prec e3) P_ASG) (rootlab e3) (renderP e3))
      with (wrap (Nat.ltb (prec e1) P_LOR) (rootlab e1) (renderP e1) ++ ((lq, TQ) :: wrap (topn e2) lq (renderP e2) ++ [(lc, TColon)]) ++ wrap (Nat.ltb (prec e3) P_ASG) (rootlab e3) (renderP e3))
      by (cbn [app]; rewrite <- app_assoc; reflexivity).
    rewrite <- Nat.add_assoc.
    apply PP_app; [apply PP_wrap; exact IHe1|].
    apply PP_app; [|apply PP_wrap; exact IHe3].
    replace ((if topn e2 then 1 else 0) + ins e2) with (ins e2 + (if topn e2 then 1 else 0)) by lia.
    apply PP_cond; [reflexivity|exact IHe2|apply render_TS].
  - apply PP_app; [apply PP_wrap; exact IHe1|]. apply PP_cons; [reflexivity|apply PP_wrap; exact IHe2].
  - replace (ins e) with (ins e + 0) by lia. apply PP_app; [apply PP_wrap; exact IHe|].
    apply PP_cons; [reflexivity|apply PP_tok; reflexivity].
  - apply PP_app; [apply PP_wrap; exact IHe1|]. apply PP_cons; [reflexivity|]. apply PP_snoc; [reflexivity|apply PP_wrap; exact IHe2].
  - apply PP_app; [apply PP_wrap; exact IHe1|]. apply PP_cons; [reflexivity|]. apply PP_snoc; [reflexivity|apply PP_wrap; exact IHe2].
  - replace (ins e) with (ins e + 0) by lia. apply PP_app; [apply PP_wrap; exact IHe|].
    apply PP_cons; [reflexivity|apply PP_tok; reflexivity].
  - apply PP_cons; [reflexivity|]. apply PP_snoc; [reflexivity|exact IHe].
  - apply PP_cons; [reflexivity|]. apply PP_cons; [reflexivity|]. apply PP_cons; [reflexivity|]. apply PP_wrap; exact IHe.
Qed.

Lemma ins_le : forall e, ins e <= length (render e).
Proof.
  assert (Hw : forall b l (ts : list ptok), length ts <= length (wrap b l ts)).
  { intros [] l ts; cbn [wrap length]; rewrite ?app_length; cbn [length]; lia. }
  induction e; cbn [render ins length]; rewrite ?app_length; cbn [length]; rewrite ?app_length; cbn [length];
    repeat match goal with |- context [length (wrap ?b ?l ?ts)] =>
             let H := fresh in pose proof (Hw b l ts) as H; generalize dependent (length (wrap b l ts)); intros end;
    try lia.
  destruct (topn e2); lia.
Qed.

Lemma prep_nil : forall f, prep f [] = [].
Proof. destruct f; reflexivity. Qed.

Theorem prep_render : forall e,
  prep (2 * length (render e ++ [semi])) (render e ++ [semi]) = renderP e ++ [semi].
Proof.
  intros e. pose proof (ins_le e) as H. rewrite app_length. cbn [length].
  replace (2 * (length (render e) + 1)) with (length (render e) + ins e + S (length (render e) + 1 - ins e)) by lia.
  rewrite (render_PP e). cbn [prep semi snd]. rewrite prep_nil. reflexivity.
Qed.

(* no middle operand of ?: has a , < or ? outside brackets: nothing is inserted *)
Fixpoint plainmid (e : expr) : bool :=
  match e with
  | EId _ _ | ENum _ _ => true
  | EPre _ _ a | EPost _ _ a | ECall0 _ a | EMem _ _ a _ | EPar _ a | ECast _ _ a => plainmid a
  | EBin _ _ a b | EAsg _ _ a b | EComma _ a b | ECall _ a b | EIdx _ a b => plainmid a && plainmid b
  | ECond _ _ c a b => negb (topn a) && plainmid c && plainmid a && plainmid b
  end.

Lemma plainmid_renderP : forall e, plainmid e = true -> renderP e = render e.
Proof.
  induction e; intros H; cbn [plainmid] in H; cbn [render renderP];
    repeat (apply andb_true_iff in H; let H2 := fresh H in destruct H as [H H2]);
    rewrite ?IHe, ?IHe1, ?IHe2, ?IHe3 by assumption; try reflexivity.
  apply negb_true_iff in H. rewrite H. cbn [wrap]. rewrite wrap_comma_eq. reflexivity.
Qed.

Theorem prep_plainmid : forall e, plainmid e = true ->
  prep (2 * length (render e ++ [semi])) (render e ++ [semi]) = render e ++ [semi].
Proof. intros e H. rewrite prep_render, (plainmid_renderP e H). reflexivity. Qed.
