(* C34  proofs about the addon relay model *)
From CV Require Import Base.Bytes Addon.Defs.
Local Open Scope N_scope.

(* ---------- declarative reading of one result object ---------- *)
Definition item_spec (j : json) (x : loc) : Prop :=
  exists o f l c i, j = JObj o /\ field k_file o = JStr f /\ field k_linenr o = JInt l /\
                    field k_column o = JInt c /\ field k_info o = JStr i /\
                    x = mkLoc f i (wrap_int l) (wrap_uint c).

Definition loc_spec (o : list (str * json)) (locs : list loc) : Prop :=
  (has k_file o = true /\ exists f l c, field k_file o = JStr f /\ field k_linenr o = JInt l /\
       field k_column o = JInt c /\ locs = [mkLoc f [] (wrap_int l) (wrap_uint c)])
  \/ (has k_file o = false /\ has k_loc o = true /\ exists items, field k_loc o = JArr items /\ Forall2 item_spec items locs)
  \/ (has k_file o = false /\ has k_loc o = false /\ locs = []).

Definition opt_spec (k : str) (o : list (str * json)) (v : option Z) : Prop :=
  (has k o = false /\ v = None) \/ (has k o = true /\ exists z, field k o = JInt z /\ v = Some z).

Lemma get_str_Some j s : get_str j = Some s <-> j = JStr s.
Proof. destruct j; cbn; split; intros H; try discriminate; congruence. Qed.
Lemma get_int_Some j z : get_int j = Some z <-> j = JInt z.
Proof. destruct j; cbn; split; intros H; try discriminate; congruence. Qed.
Lemma get_arr_Some j l : get_arr j = Some l <-> j = JArr l.
Proof. destruct j; cbn; split; intros H; try discriminate; congruence. Qed.
Lemma get_obj_Some j l : get_obj j = Some l <-> j = JObj l.
Proof. destruct j; cbn; split; intros H; try discriminate; congruence. Qed.

Lemma loc_of_item_spec j x : loc_of_item j = Some x <-> item_spec j x.
Proof.
  unfold loc_of_item, item_spec. split.
  - destruct (get_obj j) as [o|] eqn:Ho; [|discriminate]. apply get_obj_Some in Ho.
    destruct (get_str (field k_file o)) as [f|] eqn:Hf; [|discriminate]. apply get_str_Some in Hf.
    destruct (get_int (field k_linenr o)) as [l|] eqn:Hl; [|discriminate]. apply get_int_Some in Hl.
    destruct (get_int (field k_column o)) as [c|] eqn:Hc; [|discriminate]. apply get_int_Some in Hc.
    destruct (get_str (field k_info o)) as [i|] eqn:Hi; [|discriminate]. apply get_str_Some in Hi.
    intros H. injection H as <-. exists o, f, l, c, i. auto 10.
  - intros (o & f & l & c & i & -> & Hf & Hl & Hc & Hi & ->). cbn [get_obj].
    rewrite Hf, Hl, Hc, Hi. reflexivity.
Qed.

Lemma locs_of_items_spec items : forall locs, locs_of_items items = Some locs <-> Forall2 item_spec items locs.
Proof.
  induction items as [|j r IH]; intros locs; cbn [locs_of_items].
  - split; intros H. injection H as <-. constructor. inversion H. reflexivity.
  - split.
    + destruct (loc_of_item j) as [x|] eqn:Hx; [|discriminate].
      destruct (locs_of_items r) as [xs|] eqn:Hr; [|discriminate].
      intros H. injection H as <-. constructor. apply loc_of_item_spec; exact Hx. apply IH. reflexivity.
    + intros H. inversion H as [|? x ? xs Hj Hrest]; subst.
      apply loc_of_item_spec in Hj. rewrite Hj. apply IH in Hrest. rewrite Hrest. reflexivity.
Qed.

Lemma locations_spec o locs : locations o = Some locs <-> loc_spec o locs.
Proof.
  unfold locations, loc_spec, loc_of_file. split.
  - destruct (has k_file o) eqn:Hf.
    + destruct (get_str (field k_file o)) as [f|] eqn:H1; [|discriminate]. apply get_str_Some in H1.
      destruct (get_int (field k_linenr o)) as [l|] eqn:H2; [|discriminate]. apply get_int_Some in H2.
      destruct (get_int (field k_column o)) as [c|] eqn:H3; [|discriminate]. apply get_int_Some in H3.
      cbn. intros H. injection H as <-. left. split; [reflexivity|]. exists f, l, c. auto.
    + destruct (has k_loc o) eqn:Hl.
      * destruct (get_arr (field k_loc o)) as [items|] eqn:H1; [|discriminate]. apply get_arr_Some in H1.
        intros H. apply locs_of_items_spec in H. right; left. split; [reflexivity|]. split; [reflexivity|]. exists items. auto.
      * intros H. injection H as <-. right; right. auto.
  - intros [(Hf & f & l & c & H1 & H2 & H3 & ->) | [(Hf & Hl & items & H1 & H2) | (Hf & Hl & ->)]]; rewrite Hf.
    + rewrite H1, H2, H3. reflexivity.
    + rewrite Hl, H1. cbn [get_arr]. apply locs_of_items_spec. exact H2.
    + rewrite Hl. reflexivity.
Qed.

Lemma opt_int_spec k o v : opt_int k o = Some v <-> opt_spec k o v.
Proof.
  unfold opt_int, opt_spec. destruct (has k o).
  - split.
    + destruct (get_int (field k o)) as [z|] eqn:H; [|discriminate]. apply get_int_Some in H.
      intros E. injection E as <-. right. split; [reflexivity|]. exists z. auto.
    + intros [[H _]|[_ (z & H & ->)]]; [discriminate|]. rewrite H. reflexivity.
  - split.
    + intros E. injection E as <-. left. auto.
    + intros [[_ ->]|[H _]]; [reflexivity|discriminate].
Qed.

(* the severity decision of the loop, as a relation *)
Definition reported_as (s : settings) (id sv : str) (sv1 : sev) : Prop :=
  let sv0 := sev_of_string sv in
  (sv0 <> SNone /\ sv0 <> SInternal /\ sv1 = sv0 /\ (enabled s sv0 = true \/ is_premium_id s id = true))
  \/ ((sv0 = SNone \/ sv0 = SInternal) /\ sv1 = SInternal /\ ends_with s_logChecker id = true).

Definition cwe_of (v : option Z) : N := match v with Some z => wrap_ushort z | None => 0 end.
Definition hash_of (v : option Z) : N := match v with Some z => wrap_size z | None => 0 end.

(* a result is well formed when every field the loop reads has the type it reads it with *)
Definition well_formed (o : list (str * json)) (a e m sv : str) (locs : list loc) (cwe hash : option Z) : Prop :=
  has k_summary o = false /\ has k_metric o = false /\
  field k_addon o = JStr a /\ field k_errorId o = JStr e /\ field k_message o = JStr m /\ field k_severity o = JStr sv /\
  loc_spec o locs /\ opt_spec k_cwe o cwe /\ opt_spec k_hash o hash.

Lemma sev_eqb_eq a b : sev_eqb a b = true <-> a = b.
Proof. destruct a, b; cbn; split; intros H; try discriminate; try reflexivity. Qed.

(* faithful: a well-formed result of a reported severity becomes exactly that finding *)
Theorem convert_faithful s o a e m sv locs cwe hash sv1 :
  well_formed o a e m sv locs cwe hash ->
  reported_as s (a ++ dash ++ e) sv sv1 ->
  convert s o = OFinding (mkFinding (a ++ dash ++ e) m sv1 locs (cwe_of cwe) (hash_of hash)).
Proof.
  intros (Hs & Hm & Ha & He & Hmsg & Hsv & Hl & Hc & Hh) Hr.
  apply locations_spec in Hl. apply opt_int_spec in Hc. apply opt_int_spec in Hh.
  unfold convert. rewrite Hs, Hl, Hm, Ha, He, Hmsg, Hsv. cbn [get_str].
  unfold reported_as in Hr. cbv zeta in Hr.
  destruct Hr as [(N1 & N2 & -> & Hen) | (Hni & -> & Hlog)].
  - assert (E1 : sev_eqb (sev_of_string sv) SNone = false).
    { destruct (sev_eqb (sev_of_string sv) SNone) eqn:E; auto. apply sev_eqb_eq in E. contradiction. }
    assert (E2 : sev_eqb (sev_of_string sv) SInternal = false).
    { destruct (sev_eqb (sev_of_string sv) SInternal) eqn:E; auto. apply sev_eqb_eq in E. contradiction. }
    rewrite E1, E2. cbn [orb].
    destruct (enabled s (sev_of_string sv)) eqn:En; cbn [negb].
    + rewrite Hc, Hh. reflexivity.
    + destruct Hen as [Hen|Hen]; [discriminate|]. rewrite Hen, Hc, Hh. reflexivity.
  - assert (E : sev_eqb (sev_of_string sv) SNone || sev_eqb (sev_of_string sv) SInternal = true).
    { destruct Hni as [->| ->]; reflexivity. }
    rewrite E, Hlog, Hc, Hh. reflexivity.
Qed.

(* a well-formed result of a severity that is not reported is dropped *)
Theorem convert_disabled_skips s o a e m sv locs cwe hash :
  well_formed o a e m sv locs cwe hash ->
  (forall sv1, ~ reported_as s (a ++ dash ++ e) sv sv1) ->
  convert s o = OSkip.
Proof.
  intros (Hs & Hm & Ha & He & Hmsg & Hsv & Hl & Hc & Hh) Hn.
  apply locations_spec in Hl.
  unfold convert. rewrite Hs, Hl, Hm, Ha, He, Hmsg, Hsv. cbn [get_str].
  destruct (sev_eqb (sev_of_string sv) SNone || sev_eqb (sev_of_string sv) SInternal) eqn:E.
  - destruct (ends_with s_logChecker (a ++ dash ++ e)) eqn:L; [|reflexivity].
    exfalso. apply (Hn SInternal). right. split; [|auto].
    apply orb_true_iff in E. destruct E as [E|E]; apply sev_eqb_eq in E; auto.
  - apply orb_false_iff in E. destruct E as [E1 E2].
    destruct (enabled s (sev_of_string sv)) eqn:En; cbn [negb].
    + exfalso. apply (Hn (sev_of_string sv)). left.
      repeat split; auto; intros X; rewrite X in *; discriminate.
    + destruct (is_premium_id s (a ++ dash ++ e)) eqn:P; [|reflexivity].
      exfalso. apply (Hn (sev_of_string sv)). left.
      repeat split; auto; intros X; rewrite X in *; discriminate.
Qed.

(* never fabricated: whatever the object is, a Finding is produced only from a well-formed result,
   and carries exactly its id, message, severity, locations, cwe and hash *)
Theorem convert_finding_inv s o f :
  convert s o = OFinding f ->
  exists a e m sv locs cwe hash,
    well_formed o a e m sv locs cwe hash /\ reported_as s (a ++ dash ++ e) sv (f_sev f) /\
    f = mkFinding (a ++ dash ++ e) m (f_sev f) locs (cwe_of cwe) (hash_of hash).
Proof.
  unfold convert.
  destruct (has k_summary o) eqn:Hs; [discriminate|].
  destruct (locations o) as [locs|] eqn:Hl; [|discriminate].
  destruct (has k_metric o) eqn:Hm.
  { destruct (get_obj (field k_metric o)); discriminate. }
  destruct (get_str (field k_addon o)) as [a|] eqn:Ha; [|discriminate].
  destruct (get_str (field k_errorId o)) as [e|] eqn:He; [|discriminate].
  destruct (get_str (field k_message o)) as [m|] eqn:Hmsg; [|discriminate].
  destruct (get_str (field k_severity o)) as [sv|] eqn:Hsv; [|discriminate].
  apply get_str_Some in Ha, He, Hmsg, Hsv. apply locations_spec in Hl.
  set (id := a ++ dash ++ e).
  destruct (sev_eqb (sev_of_string sv) SNone || sev_eqb (sev_of_string sv) SInternal) eqn:E.
  - destruct (ends_with s_logChecker id) eqn:L; [|discriminate].
    destruct (opt_int k_cwe o) as [cwe|] eqn:Hc; [|discriminate].
    destruct (opt_int k_hash o) as [hash|] eqn:Hh; [|discriminate].
    apply opt_int_spec in Hc, Hh.
    intros H. injection H as <-. cbn [f_sev].
    exists a, e, m, sv, locs, cwe, hash. split; [unfold well_formed; auto 10|]. split; [|reflexivity].
    right. split; [|auto]. apply orb_true_iff in E. destruct E as [E|E]; apply sev_eqb_eq in E; auto.
  - apply orb_false_iff in E. destruct E as [E1 E2].
    assert (N1 : sev_of_string sv <> SNone) by (intros X; rewrite X in E1; discriminate).
    assert (N2 : sev_of_string sv <> SInternal) by (intros X; rewrite X in E2; discriminate).
    destruct (enabled s (sev_of_string sv)) eqn:En; cbn [negb].
    + destruct (opt_int k_cwe o) as [cwe|] eqn:Hc; [|discriminate].
      destruct (opt_int k_hash o) as [hash|] eqn:Hh; [|discriminate].
      apply opt_int_spec in Hc, Hh.
      intros H. injection H as <-. cbn [f_sev].
      exists a, e, m, sv, locs, cwe, hash. split; [unfold well_formed; auto 10|]. split; [|reflexivity].
      left. auto.
    + destruct (is_premium_id s id) eqn:P; [|discriminate].
      destruct (opt_int k_cwe o) as [cwe|] eqn:Hc; [|discriminate].
      destruct (opt_int k_hash o) as [hash|] eqn:Hh; [|discriminate].
      apply opt_int_spec in Hc, Hh.
      intros H. injection H as <-. cbn [f_sev].
      exists a, e, m, sv, locs, cwe, hash. split; [unfold well_formed; auto 10|]. split; [|reflexivity].
      left. auto.
Qed.

(* in-range numbers are relayed unchanged *)
Lemma wrap_int_id z : (-2147483648 <= z < 2147483648)%Z -> wrap_int z = z.
Proof.
  intros H. unfold wrap_int.
  destruct (Z_lt_ge_dec z 0) as [Hn|Hp].
  - assert (E : (z mod 4294967296 = z + 4294967296)%Z).
    { symmetry. apply (Z.mod_unique _ _ (-1)%Z); lia. }
    rewrite E. destruct (z + 4294967296 <? 2147483648)%Z eqn:L; [apply Z.ltb_lt in L; lia | lia].
  - rewrite Z.mod_small by lia. destruct (z <? 2147483648)%Z eqn:L; [reflexivity | apply Z.ltb_ge in L; lia].
Qed.
Lemma wrap_uint_id z : (0 <= z < 4294967296)%Z -> wrap_uint z = Z.to_N z.
Proof. intros H. unfold wrap_uint. rewrite Z.mod_small by lia. reflexivity. Qed.
Lemma wrap_ushort_id z : (0 <= z < 65536)%Z -> wrap_ushort z = Z.to_N z.
Proof. intros H. unfold wrap_ushort. rewrite Z.mod_small by lia. reflexivity. Qed.
Lemma wrap_size_id z : (0 <= z < 18446744073709551616)%Z -> wrap_size z = Z.to_N z.
Proof. intros H. unfold wrap_size. rewrite Z.mod_small by lia. reflexivity. Qed.

(* ---------- executeAddon: the line rule ---------- *)
Lemma classify_skip l : classify l = LSkip <-> l = [] \/ starts_with s_checking l = true.
Proof.
  unfold classify. destruct l as [|c r]; [tauto|].
  destruct (starts_with s_checking (c :: r)) eqn:E.
  - split; auto.
  - destruct (c =? 123); split; intros H; try discriminate; destruct H as [H|H]; discriminate.
Qed.

Lemma classify_json l : classify l = LJson <->
  exists r, l = 123 :: r /\ starts_with s_checking l = false.
Proof.
  unfold classify. destruct l as [|c r].
  - split; [discriminate|]. intros (r & H & _). discriminate.
  - destruct (starts_with s_checking (c :: r)) eqn:E.
    + split; [discriminate|]. intros (r' & _ & H). discriminate.
    + destruct (c =? 123) eqn:C.
      * apply N.eqb_eq in C. subst. split; eauto.
      * split; [discriminate|]. intros (r' & H & _). injection H as -> _. discriminate.
Qed.

Section Lines.
  Variable parse : str -> option json.

  Definition accepted (l : str) : list (list (str * json)) :=
    match classify l, parse l with
    | LJson, Some (JObj o) => [o]
    | _, _ => []
    end.

  (* the run fails iff some line is neither empty, nor a "Checking " line, nor starts with '{' *)
  Theorem collect_fails ls : collect parse ls = None <-> exists l, In l ls /\ classify l = LBad.
  Proof.
    induction ls as [|l r IH]; cbn [collect].
    - split; [discriminate|]. intros (l & [] & _).
    - destruct (classify l) eqn:C.
      + rewrite IH. split; intros (x & Hx & Hb); exists x; split; auto. right; auto.
        destruct Hx as [->|Hx]; [congruence|auto].
      + split; auto. intros _. exists l. split; [left; reflexivity|exact C].
      + destruct (collect parse r) as [rest|] eqn:Hr.
        * split.
          -- destruct (parse l) as [[]|]; discriminate.
          -- intros (x & [->|Hx] & Hb); [congruence|].
             assert (X : Some rest = None) by (apply IH; exists x; auto). discriminate.
        * split; auto. intros _. destruct (proj1 IH eq_refl) as (x & Hx & Hb). exists x. split; [right|]; auto.
  Qed.

  (* otherwise the results are the objects of the '{' lines that parse, in order *)
  Theorem collect_results ls rs : collect parse ls = Some rs -> rs = flat_map accepted ls.
  Proof.
    revert rs. induction ls as [|l r IH]; intros rs; cbn [collect flat_map].
    - intros H. injection H as <-. reflexivity.
    - unfold accepted at 1. destruct (classify l) eqn:C.
      + intros H. rewrite (IH _ H). reflexivity.
      + discriminate.
      + destruct (collect parse r) as [rest|] eqn:Hr; [|discriminate].
        specialize (IH _ eq_refl).
        destruct (parse l) as [j|]; [destruct j|]; intros H; injection H as <-; rewrite IH; reflexivity.
  Qed.

  Theorem exec_addon_nonzero ec out : (ec <> 0)%Z -> exec_addon parse ec out = None.
  Proof. intros H. unfold exec_addon. destruct (ec =? 0)%Z eqn:E; [apply Z.eqb_eq in E; contradiction|reflexivity]. Qed.
End Lines.

(* ---------- sequencing ---------- *)
Definition ev_of (oc : outcome) : list event :=
  match oc with
  | OFinding f => [EFinding f] | OSummary => [ESummary] | OMetric => [EMetric] | OSkip => [] | OThrow => [EInternalError]
  end.

(* without an exception every result is relayed, in order *)
Theorem relay_no_throw s rs :
  Forall (fun o => convert s o <> OThrow) rs ->
  relay s rs = (flat_map (fun o => ev_of (convert s o)) rs, false).
Proof.
  induction 1 as [|o r Ho Hr IH]; cbn [relay flat_map]; [reflexivity|].
  rewrite IH. destruct (convert s o); cbn [ev_of app]; try reflexivity. contradiction.
Qed.

(* every relayed finding is the conversion of one of the results *)
Theorem relay_sound s rs f :
  In (EFinding f) (fst (relay s rs)) -> exists o, In o rs /\ convert s o = OFinding f.
Proof.
  induction rs as [|o r IH]; cbn [relay]; [intros []|].
  destruct (convert s o) eqn:C.
  - intros H. destruct (IH H) as (x & Hx & Hc). exists x. split; [right|]; auto.
  - destruct (relay s r) as [es t]. cbn [fst]. intros [H|H]; [discriminate|].
    destruct (IH H) as (x & Hx & Hc). exists x. split; [right|]; auto.
  - destruct (relay s r) as [es t]. cbn [fst]. intros [H|H]; [discriminate|].
    destruct (IH H) as (x & Hx & Hc). exists x. split; [right|]; auto.
  - destruct (relay s r) as [es t]. cbn [fst]. intros [H|H].
    + injection H as <-. exists o. split; [left; reflexivity|exact C].
    + destruct (IH H) as (x & Hx & Hc). exists x. split; [right|]; auto.
  - cbn. intros [H|[]]. discriminate.
Qed.

Lemma run_addons_sound s ads f :
  In (EFinding f) (fst (run_addons s ads)) ->
  exists rs o, In (Some rs) ads /\ In o rs /\ convert s o = OFinding f.
Proof.
  induction ads as [|r rest IH]; cbn [run_addons]; [intros []|].
  destruct (run_addon s r) as [es threw] eqn:R.
  assert (Hes : In (EFinding f) es -> exists rs o, In (Some rs) (r :: rest) /\ In o rs /\ convert s o = OFinding f).
  { intros H. destruct r as [rs|]; cbn [run_addon] in R.
    - assert (E : es = fst (relay s rs)) by (rewrite R; reflexivity). rewrite E in H.
      destruct (relay_sound _ _ _ H) as (o & Ho & Hc). exists rs, o. split; [left; reflexivity|auto].
    - injection R as <- _. destruct H as [H|[]]. discriminate. }
  destruct threw.
  - cbn [fst]. exact Hes.
  - destruct (run_addons s rest) as [es2 t2]. cbn [fst] in *. intros H. apply in_app_or in H. destruct H as [H|H].
    + exact (Hes H).
    + destruct (IH H) as (rs & o & H1 & H2 & H3). exists rs, o. split; [right|]; auto.
Qed.

Lemma dedup_subset seen es e : In e (dedup seen es) -> In e es.
Proof.
  revert seen. induction es as [|x r IH]; intros seen; cbn [dedup]; [auto|].
  destruct x; try (intros [H|H]; [left; exact H | right; exact (IH _ H)]).
  destruct (sev_eqb (f_sev f) SInternal).
  - intros [H|H]; [left; exact H | right; exact (IH _ H)].
  - destruct (existsb (finding_eqb f) seen).
    + intros H. right. exact (IH _ H).
    + intros [H|H]; [left; exact H | right; exact (IH _ H)].
Qed.

(* the whole file: every finding that leaves executeAddons and survives the duplicate filter is the
   conversion of a result object printed by one of the addons -- nothing is fabricated *)
Theorem file_findings_sound s ads f :
  In (EFinding f) (dedup [] (file_events s ads)) ->
  exists rs o, In (Some rs) ads /\ In o rs /\ convert s o = OFinding f.
Proof.
  intros H. apply dedup_subset in H. unfold file_events in H.
  destruct (run_addons s ads) as [es threw] eqn:R.
  assert (Hin : In (EFinding f) es).
  { destruct (builddir s); [|exact H].
    apply in_app_or in H. destruct H as [H|H].
    - apply filter_In in H. tauto.
    - destruct threw; [destruct H|]. apply filter_In in H. tauto. }
  apply run_addons_sound. rewrite R. exact Hin.
Qed.

(* ---------- setmsg on ordinary messages ---------- *)
Lemma replace_no_dollar fuel to prev s :
  ~ In 36 s -> replace_fuel fuel s_symbol to prev s = s.
Proof.
  revert prev s. induction fuel as [|f IH]; intros prev s H; cbn [replace_fuel]; [reflexivity|].
  destruct s as [|c r]; [reflexivity|].
  assert (Hc : c <> 36) by (intros ->; apply H; left; reflexivity).
  assert (E : starts_with s_symbol (c :: r) = false).
  { unfold s_symbol. cbn [starts_with]. destruct (36 =? c) eqn:X; [apply N.eqb_eq in X; congruence|reflexivity]. }
  rewrite E. cbn [andb]. rewrite IH; [reflexivity|]. intros X. apply H. right. exact X.
Qed.

Lemma take_line_no_nl s : ~ In 10 s -> take_line s = (s, None).
Proof.
  induction s as [|c r IH]; intros H; cbn [take_line]; [reflexivity|].
  destruct (c =? 10) eqn:E; [apply N.eqb_eq in E; subst; exfalso; apply H; left; reflexivity|].
  rewrite IH; [reflexivity|]. intros X. apply H. right. exact X.
Qed.

(* a one-line message without '$' is relayed verbatim as short and verbose message *)
Theorem setmsg_plain msg : ~ In 10 msg -> ~ In 36 msg -> setmsg msg = (msg, msg, []).
Proof.
  intros Hn Hd. unfold setmsg. destruct (length msg); cbn [setmsg_fuel];
    rewrite (take_line_no_nl _ Hn); unfold replace_str; rewrite !replace_no_dollar by exact Hd; reflexivity.
Qed.
