(* C34  Addon results are relayed faithfully.
   Model of lib/cppcheck.cpp  executeAddon (validation of the addon's output lines) and
   CppCheck::executeAddons (conversion of one JSON result into an ErrorMessage, severity filter),
   of ErrorMessage::setmsg (lib/errorlogger.cpp) and of the per-file sequencing (an exception
   ends the processing of the file).  Executable definitions only. *)
From CV Require Import Base.Bytes.
Local Open Scope N_scope.

(* ---- JSON values as picojson (PICOJSON_USE_INT64) sees them.  JDbl: any number that is not an
   int64 literal (fraction, exponent, out of range); its value is never used by the code. *)
Inductive json :=
| JNull | JBool (b : bool) | JInt (z : Z) | JDbl | JStr (s : str)
| JArr (l : list json) | JObj (l : list (str * json)).

(* std::map semantics of picojson::object: the last binding of a key wins *)
Fixpoint lookup (k : str) (l : list (str * json)) : option json :=
  match l with
  | [] => None
  | (k', v) :: r => match lookup k r with
                    | Some x => Some x
                    | None => if str_eqb k k' then Some v else None
                    end
  end.

(* obj["k"] on the copied std::map: a missing key yields a null value *)
Definition field (k : str) (o : list (str * json)) : json :=
  match lookup k o with Some v => v | None => JNull end.
Definition has (k : str) (o : list (str * json)) : bool :=
  match lookup k o with Some _ => true | None => false end.

(* value::get<T>(): None = PICOJSON_ASSERT fails = std::runtime_error *)
Definition get_str (j : json) : option str := match j with JStr s => Some s | _ => None end.
Definition get_int (j : json) : option Z := match j with JInt z => Some z | _ => None end.
Definition get_arr (j : json) : option (list json) := match j with JArr l => Some l | _ => None end.
Definition get_obj (j : json) : option (list (str * json)) := match j with JObj l => Some l | _ => None end.

(* ---- severities (lib/errortypes.h) *)
Inductive sev := SNone | SError | SWarning | SStyle | SPerformance | SPortability | SInformation | SDebug | SInternal.

Definition sev_eqb (a b : sev) : bool :=
  match a, b with
  | SNone, SNone | SError, SError | SWarning, SWarning | SStyle, SStyle | SPerformance, SPerformance
  | SPortability, SPortability | SInformation, SInformation | SDebug, SDebug | SInternal, SInternal => true
  | _, _ => false
  end.

Definition s_error : str := [101;114;114;111;114].
Definition s_warning : str := [119;97;114;110;105;110;103].
Definition s_style : str := [115;116;121;108;101].
Definition s_performance : str := [112;101;114;102;111;114;109;97;110;99;101].
Definition s_portability : str := [112;111;114;116;97;98;105;108;105;116;121].
Definition s_information : str := [105;110;102;111;114;109;97;116;105;111;110].
Definition s_debug : str := [100;101;98;117;103].
Definition s_internal : str := [105;110;116;101;114;110;97;108].
Definition s_none : str := [110;111;110;101].

(* severityFromString: unknown and empty strings are Severity::none *)
Definition sev_of_string (s : str) : sev :=
  if str_eqb s s_error then SError else if str_eqb s s_warning then SWarning
  else if str_eqb s s_style then SStyle else if str_eqb s s_performance then SPerformance
  else if str_eqb s s_portability then SPortability else if str_eqb s s_information then SInformation
  else if str_eqb s s_debug then SDebug else if str_eqb s s_internal then SInternal
  else SNone.

Definition string_of_sev (s : sev) : str :=
  match s with
  | SNone => [] | SError => s_error | SWarning => s_warning | SStyle => s_style
  | SPerformance => s_performance | SPortability => s_portability | SInformation => s_information
  | SDebug => s_debug | SInternal => s_internal
  end.

(* ---- settings read by executeAddons *)
Record settings := mkSettings {
  enabled : sev -> bool;            (* mSettings.severity.isEnabled *)
  builddir : bool;                  (* !mSettings.buildDir.empty() *)
  prem_misra : bool;                (* premiumArgs contains "--misra" *)
  prem_cert : bool;                 (* ... "--cert" *)
  prem_autosar : bool               (* ... "--autosar" *)
}.

(* ---- field names *)
Definition k_summary : str := [115;117;109;109;97;114;121].
Definition k_file : str := [102;105;108;101].
Definition k_linenr : str := [108;105;110;101;110;114].
Definition k_column : str := [99;111;108;117;109;110].
Definition k_loc : str := [108;111;99].
Definition k_info : str := [105;110;102;111].
Definition k_metric : str := [109;101;116;114;105;99].
Definition k_addon : str := [97;100;100;111;110].
Definition k_errorId : str := [101;114;114;111;114;73;100].
Definition k_message : str := [109;101;115;115;97;103;101].
Definition k_severity : str := [115;101;118;101;114;105;116;121].
Definition k_cwe : str := [99;119;101].
Definition k_hash : str := [104;97;115;104].
Definition dash : str := [45].
Definition s_logChecker : str := [45;108;111;103;67;104;101;99;107;101;114].          (* "-logChecker" *)
Definition p_misra : str := [112;114;101;109;105;117;109;45;109;105;115;114;97;45].  (* "premium-misra-" *)
Definition p_cert : str := [112;114;101;109;105;117;109;45;99;101;114;116;45].       (* "premium-cert-" *)
Definition p_autosar : str := [112;114;101;109;105;117;109;45;97;117;116;111;115;97;114;45]. (* "premium-autosar-" *)

(* ---- C++ integer conversions applied to the int64 values of the JSON *)
Definition wrap_int (z : Z) : Z :=          (* int64_t -> int (two's complement wrap) *)
  let m := (z mod 4294967296)%Z in if (m <? 2147483648)%Z then m else (m - 4294967296)%Z.
Definition wrap_uint (z : Z) : N := Z.to_N (z mod 4294967296)%Z.                 (* -> unsigned int *)
Definition wrap_ushort (z : Z) : N := Z.to_N (z mod 65536)%Z.                    (* -> unsigned short (CWE) *)
Definition wrap_size (z : Z) : N := Z.to_N (z mod 18446744073709551616)%Z.       (* -> std::size_t *)

Record loc := mkLoc { l_file : str; l_info : str; l_line : Z; l_col : N }.

Record finding := mkFinding {
  f_id : str; f_msg : str; f_sev : sev; f_locs : list loc; f_cwe : N; f_hash : N
}.

Inductive outcome :=
| OSkip                 (* `continue`: nothing is reported *)
| OSummary              (* summary: appended to the ctu-info text / relayed as internal "ctuinfo" *)
| OMetric               (* reportMetric *)
| OFinding (f : finding)
| OThrow.               (* std::runtime_error from a picojson get<>() type mismatch *)

(* the location part: Some locs / None = throw *)
Definition loc_of_file (o : list (str * json)) : option loc :=
  match get_str (field k_file o) with
  | None => None
  | Some f => match get_int (field k_linenr o) with
              | None => None
              | Some l => match get_int (field k_column o) with
                          | None => None
                          | Some c => Some (mkLoc f [] (wrap_int l) (wrap_uint c))
                          end
              end
  end.

Definition loc_of_item (j : json) : option loc :=
  match get_obj j with
  | None => None
  | Some o =>
      match get_str (field k_file o) with
      | None => None
      | Some f => match get_int (field k_linenr o) with
                  | None => None
                  | Some l => match get_int (field k_column o) with
                              | None => None
                              | Some c => match get_str (field k_info o) with
                                          | None => None
                                          | Some i => Some (mkLoc f i (wrap_int l) (wrap_uint c))
                                          end
                              end
                  end
      end
  end.

Fixpoint locs_of_items (l : list json) : option (list loc) :=
  match l with
  | [] => Some []
  | j :: r => match loc_of_item j with
              | None => None
              | Some x => match locs_of_items r with
                          | None => None
                          | Some xs => Some (x :: xs)
                          end
              end
  end.

Definition locations (o : list (str * json)) : option (list loc) :=
  if has k_file o then option_map (fun x => [x]) (loc_of_file o)
  else if has k_loc o then
    match get_arr (field k_loc o) with
    | None => None
    | Some items => locs_of_items items
    end
  else Some [].

Definition is_premium_id (s : settings) (id : str) : bool :=
  (prem_misra s && starts_with p_misra id) || (prem_cert s && starts_with p_cert id)
  || (prem_autosar s && starts_with p_autosar id).

(* optional int64 field: Some None = absent, Some (Some z), None = throw *)
Definition opt_int (k : str) (o : list (str * json)) : option (option Z) :=
  if has k o then match get_int (field k o) with Some z => Some (Some z) | None => None end
  else Some None.

(* the body of the `for (const picojson::value& res : results)` loop, in statement order *)
Definition convert (s : settings) (o : list (str * json)) : outcome :=
  if has k_summary o then OSummary
  else match locations o with
  | None => OThrow
  | Some locs =>
    if has k_metric o then
      match get_obj (field k_metric o) with None => OThrow | Some _ => OMetric end
    else
    match get_str (field k_addon o), get_str (field k_errorId o) with
    | Some a, Some e =>
      let id := a ++ dash ++ e in
      match get_str (field k_message o) with
      | None => OThrow
      | Some msg =>
        match get_str (field k_severity o) with
        | None => OThrow
        | Some sv =>
          let sv0 := sev_of_string sv in
          let decided : option sev :=
            if sev_eqb sv0 SNone || sev_eqb sv0 SInternal then
              (if ends_with s_logChecker id then Some SInternal else None)
            else if negb (enabled s sv0) then
              (if is_premium_id s id then Some sv0 else None)
            else Some sv0 in
          match decided with
          | None => OSkip
          | Some sv1 =>
            match opt_int k_cwe o with
            | None => OThrow
            | Some cwe =>
              match opt_int k_hash o with
              | None => OThrow
              | Some hash =>
                OFinding (mkFinding id msg sv1 locs
                            (match cwe with Some z => wrap_ushort z | None => 0 end)
                            (match hash with Some z => wrap_size z | None => 0 end))
              end
            end
          end
        end
      end
    | _, _ => OThrow
    end
  end.

(* ---- executeAddon: validation of the output text.  `parse` is picojson::parse on one line
   (None = parse error); it is a parameter of the model, exercised by the end-to-end runs. *)
Definition s_checking : str := [67;104;101;99;107;105;110;103;32].   (* "Checking " *)

Inductive line_class := LSkip | LBad | LJson.
Definition classify (l : str) : line_class :=
  match l with
  | [] => LSkip
  | c :: _ => if starts_with s_checking l then LSkip else if c =? 123 then LJson else LBad
  end.

(* std::getline over the output: '\n' separated, no entry after a trailing '\n' *)
Definition getlines (out : str) : list str :=
  match out with
  | [] => []
  | _ => let l := split 10 out in
         match rev l with
         | [] :: r => rev r
         | _ => l
         end
  end.

Section WithParser.
  Variable parse : str -> option json.

  (* None = InternalError (non-JSON line); results are the objects in order *)
  Fixpoint collect (ls : list str) : option (list (list (str * json))) :=
    match ls with
    | [] => Some []
    | l :: r =>
        match classify l with
        | LSkip => collect r
        | LBad => None
        | LJson =>
            match collect r with
            | None => None
            | Some rest =>
                match parse l with
                | Some (JObj o) => Some (o :: rest)
                | _ => Some rest          (* parse error or not an object: skipped *)
                end
            end
        end
    end.

  (* exit code <> 0 => InternalError before any line is looked at *)
  Definition exec_addon (exitcode : Z) (out : str) : option (list (list (str * json))) :=
    if (exitcode =? 0)%Z then collect (getlines out) else None.
End WithParser.

(* ---- events of one file's addon run, in report order *)
Inductive event :=
| EFinding (f : finding)
| ESummary
| EMetric
| EInternalError.      (* an internalError finding: addon failure / exception while converting *)

(* results of one addon: an exception leaves the loop (and executeAddons) at once *)
Fixpoint relay (s : settings) (rs : list (list (str * json))) : list event * bool (* threw *) :=
  match rs with
  | [] => ([], false)
  | o :: r =>
      match convert s o with
      | OThrow => ([EInternalError], true)
      | OSkip => relay s r
      | OSummary => let '(es, t) := relay s r in (ESummary :: es, t)
      | OMetric => let '(es, t) := relay s r in (EMetric :: es, t)
      | OFinding f => let '(es, t) := relay s r in (EFinding f :: es, t)
      end
  end.

(* one addon on one file: executeAddon's InternalError is caught inside executeAddons and
   reported; the loop then runs over an empty result vector *)
Definition run_addon (s : settings) (res : option (list (list (str * json)))) : list event * bool :=
  match res with
  | None => ([EInternalError], false)
  | Some rs => relay s rs
  end.

(* all addons of one file, in order; a conversion exception ends executeAddons *)
Fixpoint run_addons (s : settings) (rs : list (option (list (list (str * json))))) : list event * bool :=
  match rs with
  | [] => ([], false)
  | r :: rest => let '(es, threw) := run_addon s r in
                 if threw then (es, true)
                 else let '(es2, t2) := run_addons s rest in (es ++ es2, t2)
  end.

Definition is_summary (e : event) : bool := match e with ESummary => true | _ => false end.

(* what leaves executeAddons for one file.  Without a build dir every summary is reported at once
   (internal "ctuinfo" message).  With a build dir the summaries are collected in a string that is
   written to the .ctu-info file after the loop: an exception skips that, the summaries are lost. *)
Definition file_events (s : settings) (rs : list (option (list (list (str * json))))) : list event :=
  let '(es, threw) := run_addons s rs in
  if builddir s then
    filter (fun e => negb (is_summary e)) es ++ (if threw then [] else filter is_summary es)
  else es.

(* ---- ErrorMessage::setmsg with mSymbolNames initially empty (as for addon results).
   replaceStr(s, "$symbol", name): all non-overlapping occurrences, left to right. *)
Definition s_symbol : str := [36;115;121;109;98;111;108].          (* "$symbol" *)
Definition s_symbolc : str := [36;115;121;109;98;111;108;58].      (* "$symbol:" *)

Fixpoint drop {A} (n : nat) (l : list A) : list A :=
  match n, l with O, _ => l | S n', _ :: r => drop n' r | S _, [] => [] end.

(* replaceStr (lib/errorlogger.cpp): an occurrence is replaced only when it is not preceded and not
   followed by '_' or an alphanumeric character; the scan continues after the inserted text; an
   occurrence at the very end of the string is replaced and ends the scan *)
Definition is_word (c : N) : bool := (c =? 95) || is_alnum c.
Definition prev_ok (prev : option N) : bool :=
  match prev with None => true | Some c => negb (is_word c) end.
Definition last_or (prev : option N) (t : str) : option N :=
  match rev t with [] => prev | c :: _ => Some c end.

Fixpoint replace_fuel (fuel : nat) (from to : str) (prev : option N) (s : str) : str :=
  match fuel with
  | O => s
  | S f =>
      match s with
      | [] => []
      | c :: r =>
          if starts_with from s && prev_ok prev then
            match drop (length from) s with
            | [] => to
            | (d :: _) as after =>
                if is_word d then c :: replace_fuel f from to (Some c) r
                else to ++ replace_fuel f from to (last_or prev to) after
            end
          else c :: replace_fuel f from to (Some c) r
      end
  end.
Definition replace_str (from to s : str) : str := replace_fuel (S (length s)) from to None s.

Fixpoint take_line (s : str) : str * option str :=     (* up to the first '\n'; rest after it *)
  match s with
  | [] => ([], None)
  | c :: r => if c =? 10 then ([], Some r)
              else let '(a, b) := take_line r in (c :: a, b)
  end.

(* returns (short message, verbose message, symbol names) *)
Fixpoint setmsg_fuel (fuel : nat) (symbols : str) (msg : str) : str * str * str :=
  let name := fst (take_line symbols) in
  match take_line msg with
  | (_, None) => (replace_str s_symbol name msg, replace_str s_symbol name msg, symbols)
  | (first, Some rest) =>
      if starts_with s_symbolc msg then
        match fuel with
        | O => (msg, msg, symbols)                        (* unreachable: fuel = length msg *)
        | S f => setmsg_fuel f (symbols ++ drop 8 first ++ [10]) rest
        end
      else (replace_str s_symbol name first, replace_str s_symbol name rest, symbols)
  end.
Definition setmsg (msg : str) : str * str * str := setmsg_fuel (length msg) [] msg.

(* ---- equality of findings (duplicate elimination of identical results) *)
Definition loc_eqb (a b : loc) : bool :=
  str_eqb (l_file a) (l_file b) && str_eqb (l_info a) (l_info b) && (l_line a =? l_line b)%Z && (l_col a =? l_col b).
Fixpoint locs_eqb (a b : list loc) : bool :=
  match a, b with
  | [], [] => true
  | x :: a', y :: b' => loc_eqb x y && locs_eqb a' b'
  | _, _ => false
  end.
Definition finding_eqb (a b : finding) : bool :=
  str_eqb (f_id a) (f_id b) && str_eqb (f_msg a) (f_msg b) && sev_eqb (f_sev a) (f_sev b)
  && locs_eqb (f_locs a) (f_locs b) && (f_cwe a =? f_cwe b) && (f_hash a =? f_hash b).

(* CppCheckLogger::reportErr: internal-severity messages are forwarded at once; of the others an
   identical result (identical rendered text) is reported once per file *)
Fixpoint dedup (seen : list finding) (es : list event) : list event :=
  match es with
  | [] => []
  | EFinding f :: r =>
      if sev_eqb (f_sev f) SInternal then EFinding f :: dedup seen r
      else if existsb (finding_eqb f) seen then dedup seen r
      else EFinding f :: dedup (f :: seen) r
  | e :: r => e :: dedup seen r
  end.
