(* Entry point of the extracted executable for C34: decodes a case, runs the model. *)
From CV Require Import Base.Bytes Addon.Defs.
Local Open Scope N_scope.

Definition BAD : list str := [[66]].
Definition zd (s : str) : Z := match Z_of_dec s with Some z => z | None => 0%Z end.
Definition nd (s : str) : N := match N_of_dec s with Some z => z | None => 0 end.
Definition tag_is (t name : str) : bool := str_eqb t name.

(* JSON in fields (prefix form):  n | t | f | i <dec> | d | s <str> | a <count> items | o <count> (key item)* *)
Fixpoint take_json (fuel : nat) (l : list str) : option (json * list str) :=
  match fuel with
  | O => None
  | S f =>
      match l with
      | [] => None
      | t :: r =>
          let take_items := fix go (n : nat) (l : list str) : option (list json * list str) :=
            match n with
            | O => Some ([], l)
            | S n' => match take_json f l with
                      | None => None
                      | Some (j, r1) => match go n' r1 with
                                        | None => None
                                        | Some (js, r2) => Some (j :: js, r2)
                                        end
                      end
            end in
          let take_members := fix go (n : nat) (l : list str) : option (list (str * json) * list str) :=
            match n with
            | O => Some ([], l)
            | S n' => match l with
                      | [] => None
                      | k :: r0 => match take_json f r0 with
                                   | None => None
                                   | Some (j, r1) => match go n' r1 with
                                                     | None => None
                                                     | Some (ms, r2) => Some ((k, j) :: ms, r2)
                                                     end
                                   end
                      end
            end in
          if tag_is t [110] then Some (JNull, r)
          else if tag_is t [116] then Some (JBool true, r)
          else if tag_is t [102] then Some (JBool false, r)
          else if tag_is t [100] then Some (JDbl, r)
          else if tag_is t [105] then match r with x :: r' => Some (JInt (zd x), r') | [] => None end
          else if tag_is t [115] then match r with x :: r' => Some (JStr x, r') | [] => None end
          else if tag_is t [97] then
            match r with
            | c :: r' => match take_items (N.to_nat (nd c)) r' with
                         | Some (js, r2) => Some (JArr js, r2)
                         | None => None
                         end
            | [] => None
            end
          else if tag_is t [111] then
            match r with
            | c :: r' => match take_members (N.to_nat (nd c)) r' with
                         | Some (ms, r2) => Some (JObj ms, r2)
                         | None => None
                         end
            | [] => None
            end
          else None
      end
  end.

(* parse table: count, then (line text, "1" json | "0") *)
Fixpoint take_table (n : nat) (l : list str) : option (list (str * option json) * list str) :=
  match n with
  | O => Some ([], l)
  | S n' =>
      match l with
      | line :: flag :: r =>
          if bool_of_str flag then
            match take_json (S (length r)) r with
            | None => None
            | Some (j, r1) => match take_table n' r1 with
                              | None => None
                              | Some (t, r2) => Some ((line, Some j) :: t, r2)
                              end
            end
          else match take_table n' r with
               | None => None
               | Some (t, r2) => Some ((line, None) :: t, r2)
               end
      | _ => None
      end
  end.

Fixpoint table_parse (t : list (str * option json)) (l : str) : option json :=
  match t with
  | [] => None
  | (k, v) :: r => if str_eqb k l then v else table_parse r l
  end.

Definition nth_bit (mask : str) (n : nat) : bool :=
  match nth_error mask n with Some c => c =? 49 | None => false end.

(* mask: one '0'/'1' per severity in the order of the enum *)
Definition enabled_of (mask : str) (s : sev) : bool :=
  nth_bit mask (match s with
                | SNone => 0 | SError => 1 | SWarning => 2 | SStyle => 3 | SPerformance => 4
                | SPortability => 5 | SInformation => 6 | SDebug => 7 | SInternal => 8
                end)%nat.

Definition take_settings (l : list str) : option (settings * list str) :=
  match l with
  | mask :: bd :: pm :: pc :: pa :: r =>
      Some (mkSettings (enabled_of mask) (bool_of_str bd) (bool_of_str pm) (bool_of_str pc) (bool_of_str pa), r)
  | _ => None
  end.

(* addons: count, then per addon: exitcode, output text, table count, table *)
Fixpoint take_addons (n : nat) (l : list str) : option (list (option (list (list (str * json)))) * list str) :=
  match n with
  | O => Some ([], l)
  | S n' =>
      match l with
      | ec :: out :: cnt :: r =>
          match take_table (N.to_nat (nd cnt)) r with
          | None => None
          | Some (t, r1) =>
              match take_addons n' r1 with
              | None => None
              | Some (rest, r2) => Some (exec_addon (table_parse t) (zd ec) out :: rest, r2)
              end
          end
      | _ => None
      end
  end.

Definition enc_loc (x : loc) : list str := [l_file x; l_info x; dec_of_Z (l_line x); dec_of_N (l_col x)].

Definition enc_finding (f : finding) : list str :=
  let '(sh, vb, sy) := setmsg (f_msg f) in
  [[70]; f_id f; string_of_sev (f_sev f); sh; vb; sy; dec_of_N (f_cwe f); dec_of_N (f_hash f);
   dec_of_N (N.of_nat (length (f_locs f)))] ++ flat_map enc_loc (f_locs f).

Definition enc_event (e : event) : list str :=
  match e with
  | EFinding f => enc_finding f
  | ESummary => [[83]]
  | EMetric => [[77]]
  | EInternalError => [[69]]
  end.

Definition enc_outcome (o : outcome) : list str :=
  match o with
  | OSkip => [[75]] | OSummary => [[83]] | OMetric => [[77]] | OThrow => [[84]]
  | OFinding f => enc_finding f
  end.

(* tags:
   "file"    settings naddons addons...      -> events of the file (duplicates removed)
   "convert" settings json                   -> outcome of one object
   "lines"   exitcode output ntable table    -> "E" | number of accepted objects
   "setmsg"  msg                             -> short verbose symbols
   "sev"     string                          -> canonical severity name ("" = none) *)
Definition run (fields : list str) : list str :=
  match fields with
  | [] => BAD
  | tag :: args =>
      if tag_is tag [102;105;108;101] then
        match take_settings args with
        | Some (s, cnt :: r) =>
            match take_addons (N.to_nat (nd cnt)) r with
            | Some (ads, _) => flat_map enc_event (dedup [] (file_events s ads))
            | None => BAD
            end
        | _ => BAD
        end
      else if tag_is tag [99;111;110;118;101;114;116] then
        match take_settings args with
        | Some (s, r) => match take_json (S (length r)) r with
                         | Some (JObj o, _) => enc_outcome (convert s o)
                         | _ => BAD
                         end
        | None => BAD
        end
      else if tag_is tag [108;105;110;101;115] then
        match args with
        | ec :: out :: cnt :: r =>
            match take_table (N.to_nat (nd cnt)) r with
            | Some (t, _) => match exec_addon (table_parse t) (zd ec) out with
                             | None => [[69]]
                             | Some objs => [dec_of_N (N.of_nat (length objs))]
                             end
            | None => BAD
            end
        | _ => BAD
        end
      else if tag_is tag [115;101;116;109;115;103] then
        match args with
        | [m] => let '(a, b, c) := setmsg m in [a; b; c]
        | [] => let '(a, b, c) := setmsg [] in [a; b; c]
        | _ => BAD
        end
      else if tag_is tag [115;101;118] then
        match args with
        | [m] => [string_of_sev (sev_of_string m)]
        | [] => [string_of_sev (sev_of_string [])]
        | _ => BAD
        end
      else BAD
  end.
