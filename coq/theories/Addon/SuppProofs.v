(* C34  suppressibility of relayed addon findings = C23's logger theorem applied to the message *)
From CV Require Import Base.Bytes Base.Glob Supp.Defs Supp.Proofs Supp.ListProofs Addon.Defs Addon.Proofs.
Local Open Scope N_scope.

(* SuppressionList::ErrorMessage::fromErrorMessage for a relayed finding (no macro names):
   id, hash, file and line of the last call-stack entry (file0 / NO_LINE without locations) *)
Definition emsg_of (file0 : str) (f : finding) : emsg :=
  let sy := snd (setmsg (f_msg f)) in
  match rev (f_locs f) with
  | [] => mkEmsg (f_hash f) (f_id f) file0 NO_LINE sy []
  | l :: _ => mkEmsg (f_hash f) (f_id f) (l_file l) (l_line l) sy []
  end.

Lemma emsg_of_id file0 f : e_id (emsg_of file0 f) = f_id f.
Proof. unfold emsg_of. destruct (rev (f_locs f)); reflexivity. Qed.

(* the relayed finding goes through the same gate as any finding: it is forwarded iff its text is
   new and no applicable nomsg suppression matches it by the documented rule *)
Theorem addon_finding_suppressible pm g st st' outs file0 f text :
  logger_run pm g st [(emsg_of file0 f, text)] = Some (st', outs) ->
  outs = [negb (is_nil text) && negb (Supp.Defs.mem_str text (l_seen st))
          && negb (existsb (hides pm g (emsg_of file0 f)) (l_nomsg st))].
Proof.
  intros H. apply logger_run_spec in H. destruct H as [H _]. rewrite H. reflexivity.
Qed.

(* ... and the id the suppressions are matched against is "<addon>-<errorId>" of the result *)
Theorem relayed_id s o f file0 :
  convert s o = OFinding f ->
  exists a e, field k_addon o = JStr a /\ field k_errorId o = JStr e /\
              e_id (emsg_of file0 f) = a ++ dash ++ e.
Proof.
  intros H. destruct (convert_finding_inv _ _ _ H) as (a & e & m & sv & locs & cwe & hash & W & _ & E).
  destruct W as (_ & _ & Ha & He & _). exists a, e. repeat split; auto.
  rewrite emsg_of_id, E. reflexivity.
Qed.
