(* Entry point for the extracted executable: decodes cases, runs the model. *)
From CV Require Import Base.Bytes MC.Gen_TokTypes MC.Defs.
Local Open Scope N_scope.

Definition nd (s : str) : N := match N_of_dec s with Some z => z | None => 0 end.

Fixpoint take_toks (l : list str) : list tk :=
  match l with
  | s :: v :: ty :: r => mk_tk s (nd v) (nd ty) :: take_toks r
  | _ => []
  end.

Definition ch_res (r : res) : N :=
  match r with Rtrue => 49 | Rfalse => 48 | Rexc => 69 | Rfuel => 70 | Rcrash => 88 end.

(* all start positions 0..L (the last one is "no token") *)
Fixpoint tails {A} (l : list A) : list (list A) :=
  match l with
  | [] => [[]]
  | _ :: r => l :: tails r
  end.

Definition scan (m : list tk -> res) (toks : list tk) : str := map (fun tl => ch_res (m tl)) (tails toks).

Definition opt_end (s : str) : option nat := match s with [] => None | _ => Some (N.to_nat (nd s)) end.

Fixpoint find_res (m : list tk -> res) (toks : list tk) (endi : option nat) (i : nat) : str :=
  match toks with
  | [] => [110]
  | _ :: r =>
    if (match endi with Some e => Nat.eqb e i | None => false end) then [110]
    else match m toks with
         | Rtrue => dec_of_N (N.of_nat i)
         | Rfalse => find_res m r endi (S i)
         | x => [ch_res x]
         end
  end.

Definition bool_ch (b : bool) : N := if b then 49 else 48.

Definition run (fields : list str) : list str :=
  match fields with
  | tag :: r =>
    if str_eqb tag [115;99;97;110] (* scan: kind varid end pattern toks.. *) then
      match r with
      | kind :: varid :: endi :: p :: tl_ =>
        let toks := take_toks tl_ in
        let v := nd varid in
        let k := nd kind in
        let im := if (k =? 0) || (k =? 2) then interp_chars v p else simple_chars p in
        let cm := compiled_str v p in
        let wm := match iparse p with Some ast => Some (fun ts => res_of_bool (interp v ast ts)) | None => None end in
        if k <? 2 then
          [scan im toks; scan cm toks; match wm with Some f => if k =? 0 then scan f toks else [] | None => [] end]
        else
          [find_res im toks (opt_end endi) 0; find_res cm toks (opt_end endi) 0; []]
      | _ => [[63]]
      end
    else if str_eqb tag [116;107;105;110;118] (* tkinv: toks.. -> per token tk_inv, space_after_quote *) then
      let toks := take_toks r in
      [map (fun t => bool_ch (tk_inv t)) toks; map (fun t => bool_ch (space_after_quote (t_str t))) toks;
       map (fun t => bool_ch (isName t)) toks]
    else if str_eqb tag [117;112;100] (* upd: str varid link cpp iskw numok *) then
      match r with
      | s :: varid :: link :: cpp :: iskw :: numok :: _ =>
        match upd_ttype s (negb (nd varid =? 0)) (bool_of_str link) (bool_of_str iskw) (bool_of_str cpp) (bool_of_str numok) with
        | Some ty => [dec_of_N ty]
        | None => [[69]]
        end
      | _ => [[63]]
      end
    else if str_eqb tag [119;102] (* wf: kind pattern -> wf bit, iparse ok, cparse ok *) then
      match r with
      | kind :: p :: _ =>
        [[bool_ch (if nd kind =? 0 then wf_src p else if nd kind =? 2 then wf_src p else wf_simple p)];
         [bool_ch (match iparse p with Some _ => true | None => false end)];
         [bool_ch (match cparse p with Some _ => true | None => false end)];
         [bool_ch (wf_src p)]]
      | _ => [[63]]
      end
    else [[63]]
  | [] => [[63]]
  end.
