(* The finite sweeps over the regenerated list of source patterns. *)
From CV Require Import Base.Bytes MC.Gen_TokTypes MC.Defs MC.Gen_Patterns.
Local Open Scope N_scope.

Definition src_wf (e : N * bool * bool * str) : bool :=
  let '(k, hv, he, s) := e in
  if (k =? 0) || (k =? 2) then wf_src s else wf_simple s.

Lemma all_source_patterns_wf : forallb src_wf source_patterns = true.
Proof. vm_compute. reflexivity. Qed.

(* a %varid% pattern is always called with a varid argument *)
Definition src_varid_arg (e : N * bool * bool * str) : bool :=
  let '(k, hv, he, s) := e in
  match iparse s with Some p => negb (uses_varid p) || hv | None => true end.
Lemma all_source_varid_patterns_have_arg :
  forallb (fun e => let '(k, _, _, _) := e in negb ((k =? 0) || (k =? 2)) || src_varid_arg e) source_patterns = true.
Proof. vm_compute. reflexivity. Qed.

(* the token  void  with tokType eName (left by Token::type(nullptr)), the variables named
   true / restrict: no source pattern tells compiled and interpreted apart on them any more
   (they did before /repo 29e7f6a) *)
Definition name_tokens : list tk :=
  [mk_tk [118;111;105;100] 0 eName; mk_tk [114;101;115;116;114;105;99;116] 0 eName;
   mk_tk [114;101;115;116;114;105;99;116] 5 eVariable; mk_tk [116;114;117;101] 5 eVariable;
   mk_tk [102;97;108;115;101] 5 eVariable; mk_tk [97;117;116;111] 0 eName].
Definition differs_on (t : tk) (e : N * bool * bool * str) : bool :=
  let '(k, hv, he, s) := e in
  match compiled_str 5 s [t], (if (k =? 0) || (k =? 2) then interp_chars 5 s [t] else simple_chars s [t]) with
  | Rtrue, Rfalse => true
  | Rfalse, Rtrue => true
  | _, _ => false
  end.
Lemma no_source_pattern_differs_on_name_tokens :
  forallb (fun t => negb (existsb (differs_on t) source_patterns)) name_tokens = true /\
  forallb tk_inv name_tokens = true.
Proof. vm_compute. split; reflexivity. Qed.

(* how many source patterns contain a literal with a quote character (their literals are
   outside the hypothesis of real_tokens_compat) *)
Definition quote_free (s : str) : bool := negb (has 34 s) && negb (has 39 s).
Definition quoted_source_patterns : N :=
  N.of_nat (length (filter (fun e : N * bool * bool * str => let '(_, _, _, s) := e in negb (quote_free s)) source_patterns)).
