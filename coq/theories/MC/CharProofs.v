(* The character-level scan of Token::Match / multiCompareImpl computes the word-level
   language [interp] on well-formed patterns written in canonical form. *)
From CV Require Import Base.Bytes MC.Gen_TokTypes MC.Defs MC.CompiledProofs.
Require Import Lia ZifyBool.
Local Open Scope N_scope.

(* ---------------------------------------------------------------- basics *)
Lemma str_eqb_refl s : str_eqb s s = true.
Proof. now apply str_eqb_eq. Qed.

Lemma str_eqb_neq a b : a <> b -> str_eqb a b = false.
Proof. intro H. destruct (str_eqb a b) eqn:E; [|reflexivity]. apply str_eqb_eq in E. contradiction. Qed.

Lemma str_eqb_cons a x b y : str_eqb (a :: x) (b :: y) = (a =? b) && str_eqb x y.
Proof.
  destruct (a =? b) eqn:E.
  - apply N.eqb_eq in E; subst. destruct (str_eqb x y) eqn:E2.
    + apply str_eqb_eq in E2; subst. apply str_eqb_refl.
    + apply str_eqb_neq. intro H. inversion H; subst. now rewrite str_eqb_refl in E2.
  - apply N.eqb_neq in E. apply str_eqb_neq. intro H. inversion H. contradiction.
Qed.

Lemma str_eqb_nil_cons a x : str_eqb [] (a :: x) = false.
Proof. now apply str_eqb_neq. Qed.
Lemma str_eqb_cons_nil a x : str_eqb (a :: x) [] = false.
Proof. now apply str_eqb_neq. Qed.

Lemma has_cons c x s : has c (x :: s) = (c =? x) || has c s.
Proof. reflexivity. Qed.

Lemma has_app c a b : has c (a ++ b) = has c a || has c b.
Proof. unfold has, mem_N. apply existsb_app. Qed.

(* the shape of what follows an alternative / a word *)
Definition word_end (rest : str) : Prop := rest = [] \/ exists r, rest = 32 :: r.
Definition alt_end (rest : str) : Prop := rest = [] \/ (exists r, rest = 32 :: r) \/ (exists r, rest = 124 :: r).

Lemma word_end_alt_end r : word_end r -> alt_end r.
Proof. intros [H | H]; [now left | right; now left]. Qed.

Lemma skip_alt_app l rest :
  has 32 l = false -> has 124 l = false -> alt_end rest ->
  skip_alt (l ++ rest) = match rest with 124 :: r => Some r | _ => None end.
Proof.
  induction l as [|c l IH]; intros H1 H2 Hr.
  - cbn. destruct Hr as [-> | [[r ->] | [r ->]]]; reflexivity.
  - rewrite has_cons in H1, H2. apply orb_false_elim in H1 as [A1 B1]. apply orb_false_elim in H2 as [A2 B2].
    cbn. rewrite N.eqb_sym in A1. rewrite N.eqb_sym in A2. rewrite A1, A2. now apply IH.
Qed.

(* ---------------------------------------------------------------- literal alternative *)
(* outcome of comparing one alternative: matched, or go on after the next '|', or fail *)
Definition after_alt (t : tk) (varid : N) (rest : str) (r : mres) : Prop :=
  match rest with
  | 124 :: r' => exists f', (length r' < f')%nat /\ r = mc f' t varid true (t_str t) r'
  | _ => r = Mneg
  end.

Lemma mc_lit_go t varid : forall lr np f rest,
  has 32 lr = false -> has 124 lr = false -> has 0 lr = false ->
  has 0 np = false ->
  (length (lr ++ rest) < f)%nat -> alt_end rest ->
  starts_with (lr ++ [32]) np = false ->
  if str_eqb np lr then mc f t varid false np (lr ++ rest) = M1
  else after_alt t varid rest (mc f t varid false np (lr ++ rest)).
Proof.
  induction lr as [|c lr IH]; intros np f rest H32 H124 H0 Hnp Hf Hr Hc.
  - destruct f as [|f]; [cbn in Hf; lia|]. cbn [app].
    destruct np as [|d np].
    + rewrite str_eqb_refl. destruct Hr as [-> | [[r ->] | [r ->]]]; reflexivity.
    + rewrite str_eqb_cons_nil. cbn in Hc. rewrite has_cons in Hnp. apply orb_false_elim in Hnp as [Hd _].
      assert (d <> 0) by (intro; subst; discriminate).
      destruct Hr as [-> | [[r ->] | [r ->]]].
      * cbn. unfold at_. cbn. destruct (d =? 0) eqn:E; [apply N.eqb_eq in E; contradiction|]. reflexivity.
      * assert (E : (32 =? d) = false) by (rewrite andb_true_r in Hc; exact Hc).
        cbn. unfold at_. cbn. rewrite N.eqb_sym in E. rewrite E. reflexivity.
      * cbn. exists f. split; [cbn in Hf; lia|reflexivity].
  - destruct f as [|f]; [cbn in Hf; lia|].
    rewrite has_cons in H32, H124, H0.
    apply orb_false_elim in H32 as [A32 B32]. apply orb_false_elim in H124 as [A124 B124].
    apply orb_false_elim in H0 as [A0 B0].
    assert (Hskip : skip_alt (lr ++ rest) = match rest with 124 :: r => Some r | _ => None end)
      by now apply skip_alt_app.
    assert (Helse : after_alt t varid rest
                      match skip_alt (lr ++ rest) with None => Mneg | Some hs' => mc f t varid true (t_str t) hs' end).
    { rewrite Hskip. unfold after_alt. destruct Hr as [-> | [[r ->] | [r ->]]]; try reflexivity.
      exists f. split; [|reflexivity]. cbn in Hf. rewrite app_length in Hf. cbn in Hf. lia. }
    cbn [app mc]. unfold at_. cbn [nth andb tl].
    rewrite (N.eqb_sym c 124), (N.eqb_sym c 32), (N.eqb_sym c 0) in *.
    rewrite A124, A32, A0. cbn [orb].
    destruct np as [|d np].
    + rewrite str_eqb_nil_cons. cbn [nth]. rewrite A0. exact Helse.
    + cbn [nth]. rewrite str_eqb_cons. destruct (d =? c) eqn:E.
      * cbn [andb]. apply N.eqb_eq in E. subst d.
        rewrite has_cons in Hnp. apply orb_false_elim in Hnp as [_ Hnp].
        cbn in Hc. rewrite N.eqb_refl in Hc. cbn in Hc.
        apply IH; try assumption. cbn in Hf. lia.
      * cbn [andb]. exact Helse.
Qed.

Definition tok_str_ok (t : tk) : Prop :=
  t_str t <> [] /\ has 0 (t_str t) = false /\ at_ 0 (t_str t) <> 32.

Lemma mc_lit_n t varid l f rest n :
  wf_lit l = true -> n <> [] -> has 0 n = false ->
  (length (l ++ rest) < f)%nat -> alt_end rest ->
  starts_with (l ++ [32]) n = false ->
  if str_eqb n l then mc f t varid true n (l ++ rest) = M1
  else after_alt t varid rest (mc f t varid true n (l ++ rest)).
Proof.
  intros Hwf Hne Hn0 Hf Hr Hc.
  unfold wf_lit in Hwf. repeat (apply andb_prop in Hwf as [Hwf ?]).
  apply negb_true_iff in H0, H1, H2.
  destruct l as [|c l]; [discriminate|].
  destruct f as [|f]; [cbn in Hf; lia|].
  rewrite has_cons in H0, H1, H2.
  apply orb_false_elim in H0 as [A0 B0]. apply orb_false_elim in H1 as [A124 B124].
  apply orb_false_elim in H2 as [A32 B32].
  (* the %cmd% test is not taken *)
  assert (Hpct : (at_ 0 ((c :: l) ++ rest) =? 37) && negb (mem_N (at_ 1 ((c :: l) ++ rest)) [124; 0; 32; 61]) = false).
  { unfold at_. cbn [app nth]. destruct (c =? 37) eqn:E; [|reflexivity]. cbn [andb].
    apply N.eqb_eq in E. subst c. unfold at_ in H. cbn [nth] in H. rewrite N.eqb_refl in H. cbn [negb orb] in H.
    apply orb_prop in H as [H | H].
    - apply str_eqb_eq in H. inversion H; subst. cbn.
      destruct Hr as [-> | [[r ->] | [r ->]]]; reflexivity.
    - apply str_eqb_eq in H. inversion H; subst. reflexivity. }
  assert (Hskip : skip_alt (l ++ rest) = match rest with 124 :: r => Some r | _ => None end)
    by now apply skip_alt_app.
  assert (Helse : after_alt t varid rest
                    match skip_alt (l ++ rest) with None => Mneg | Some hs' => mc f t varid true (t_str t) hs' end).
  { rewrite Hskip. unfold after_alt. destruct Hr as [-> | [[r ->] | [r ->]]]; try reflexivity.
    exists f. split; [|reflexivity]. cbn in Hf. rewrite app_length in Hf. cbn in Hf. lia. }
  cbn [mc]. cbn [andb]. rewrite Hpct.
  unfold at_. cbn [app nth tl].
  rewrite (N.eqb_sym 124 c), (N.eqb_sym 32 c), (N.eqb_sym 0 c) in *.
  rewrite A124, A32, A0. cbn [orb].
  destruct n as [|d np]; [contradiction|].
  cbn [nth]. rewrite str_eqb_cons. destruct (d =? c) eqn:E.
  - cbn [andb]. apply N.eqb_eq in E. subst d.
    rewrite has_cons in Hn0. apply orb_false_elim in Hn0 as [_ Hn0].
    cbn in Hc. rewrite N.eqb_refl in Hc. cbn in Hc.
    apply mc_lit_go; try assumption. cbn in Hf. lia.
  - cbn [andb]. exact Helse.
Qed.

Lemma mc_lit t varid l f rest :
  wf_lit l = true -> tok_str_ok t ->
  (length (l ++ rest) < f)%nat -> alt_end rest ->
  starts_with (l ++ [32]) (t_str t) = false ->
  if str_eqb (t_str t) l then mc f t varid true (t_str t) (l ++ rest) = M1
  else after_alt t varid rest (mc f t varid true (t_str t) (l ++ rest)).
Proof. intros Hwf (Hne & Hn0 & _). now apply mc_lit_n. Qed.

(* ---------------------------------------------------------------- empty alternative *)
Lemma mc_empty_n t varid f rest n :
  n <> [] -> has 0 n = false -> at_ 0 n <> 32 -> word_end rest -> mc (S f) t varid true n rest = M0.
Proof.
  intros Hne Hn0 Hsp Hr.
  destruct n as [|d np]; [contradiction|].
  rewrite has_cons in Hn0. apply orb_false_elim in Hn0 as [Hd _].
  unfold at_ in Hsp. cbn in Hsp.
  destruct Hr as [-> | [r ->]]; cbn; unfold at_; cbn.
  - rewrite N.eqb_sym in Hd. rewrite Hd. reflexivity.
  - destruct (d =? 32) eqn:E; [apply N.eqb_eq in E; contradiction|]. reflexivity.
Qed.

Lemma mc_empty t varid f rest :
  tok_str_ok t -> word_end rest -> mc (S f) t varid true (t_str t) rest = M0.
Proof. intros (Hne & Hn0 & Hsp). now apply mc_empty_n. Qed.

(* ---------------------------------------------------------------- %cmd% alternative *)
Lemma mc_cmd t varid c f rest :
  (c = Cvarid -> varid <> 0) -> alt_end rest ->
  (length (cmd_text c ++ rest) < f)%nat ->
  if cmd_match varid c t then mc f t varid true (t_str t) (cmd_text c ++ rest) = M1
  else after_alt t varid rest (mc f t varid true (t_str t) (cmd_text c ++ rest)).
Proof.
  intros Hv Hr Hf.
  destruct f as [|f]; [cbn in Hf; lia|].
  assert (Hfin : forall ok : bool,
            if ok then match (if ok then @inl mres str M1 else match rest with 124 :: r => inr r | _ => inl Mneg end) with
                       | inl r => r | inr hs' => mc f t varid true (t_str t) hs' end = M1
            else after_alt t varid rest
                   match (if ok then @inl mres str M1 else match rest with 124 :: r => inr r | _ => inl Mneg end) with
                   | inl r => r | inr hs' => mc f t varid true (t_str t) hs' end).
  { intros [|]; [reflexivity|]. unfold after_alt.
    destruct Hr as [-> | [[r ->] | [r ->]]]; try reflexivity.
    exists f. split; [|reflexivity]. rewrite app_length in Hf. cbn in Hf. lia. }
  destruct c; cbn [cmd_text cmd_match app mc andb];
    unfold mc_percent, at_; cbn [tl nth skipn N.eqb Pos.eqb andb negb mem_N existsb orb].
  - (* any *) reflexivity.
  - exact (Hfin (isAssignmentOp t)).
  - exact (Hfin (isBoolean t)).
  - exact (Hfin (t_type t =? eChar)).
  - exact (Hfin (isComparisonOp t)).
  - exact (Hfin (isConstOp t)).
  - exact (Hfin (isName t)).
  - (* num: haystack[4] is the first character after the command *)
    assert (E : (nth 0 rest 0 =? 37) = false) by (destruct Hr as [-> | [[r ->] | [r ->]]]; reflexivity).
    rewrite E.
    exact (Hfin (isNumber t)).
  - exact (Hfin (isOp t)).
  - exact (Hfin ((t_type t =? eBitOp) && str_eqb (t_str t) [124])).
  - exact (Hfin ((t_type t =? eLogicalOp) && str_eqb (t_str t) [124; 124])).
  - exact (Hfin (t_type t =? eString)).
  - exact (Hfin (isName t && (t_varid t =? 0))).
  - exact (Hfin (negb (t_varid t =? 0))).
  - destruct (varid =? 0) eqn:E; [apply N.eqb_eq in E; now elim (Hv eq_refl)|].
    exact (Hfin (t_varid t =? varid)).
Qed.

(* ---------------------------------------------------------------- one alternative, all alternatives *)
Lemma mc_atom t varid a f rest :
  wf_atom a = true -> tok_str_ok t ->
  (forall l, a = ALit l -> starts_with (l ++ [32]) (t_str t) = false) ->
  (a = ACmd Cvarid -> varid <> 0) ->
  (length (atom_text a ++ rest) < f)%nat -> alt_end rest ->
  if atom_match varid a t then mc f t varid true (t_str t) (atom_text a ++ rest) = M1
  else after_alt t varid rest (mc f t varid true (t_str t) (atom_text a ++ rest)).
Proof.
  intros Hwf Hok Hc Hv Hf Hr. destruct a as [l | c]; cbn [atom_text atom_match].
  - apply mc_lit; try assumption. now apply Hc.
  - apply mc_cmd; try assumption. intros ->. now apply Hv.
Qed.

Lemma mc_alts t varid opt : forall atoms f rest,
  atoms <> [] -> forallb wf_atom atoms = true -> tok_str_ok t ->
  (forall l, In (ALit l) atoms -> starts_with (l ++ [32]) (t_str t) = false) ->
  (In (ACmd Cvarid) atoms -> varid <> 0) ->
  word_end rest -> (length (render_alts atoms opt ++ rest) < f)%nat ->
  mc f t varid true (t_str t) (render_alts atoms opt ++ rest) =
    if existsb (fun a => atom_match varid a t) atoms then M1 else if opt then M0 else Mneg.
Proof.
  induction atoms as [|a more IH]; intros f rest Hne Hwf Hok Hc Hv Hr Hf; [contradiction|].
  cbn [forallb] in Hwf. apply andb_prop in Hwf as [Hwa Hwm].
  assert (Hca : forall l, a = ALit l -> starts_with (l ++ [32]) (t_str t) = false)
    by (intros l ->; apply Hc; now left).
  assert (Hva : a = ACmd Cvarid -> varid <> 0) by (intros ->; apply Hv; now left).
  cbn [existsb].
  destruct more as [|b more].
  - cbn [render_alts existsb] in Hf |- *. rewrite orb_false_r. rewrite <- app_assoc.
    pose proof (mc_atom t varid a f ((if opt then [124] else []) ++ rest) Hwa Hok Hca Hva) as HA.
    rewrite <- app_assoc in Hf. specialize (HA Hf).
    assert (Hae : alt_end ((if opt then [124] else []) ++ rest)).
    { destruct opt; cbn; [right; right; eauto | now apply word_end_alt_end]. }
    specialize (HA Hae).
    destruct (atom_match varid a t); [exact HA|].
    destruct opt; cbn [app] in HA |- *.
    + destruct HA as (f' & Hf' & ->). destruct f' as [|f']; [lia|]. now apply mc_empty.
    + unfold after_alt in HA. destruct Hr as [-> | [r ->]]; exact HA.
  - change (render_alts (a :: b :: more) opt) with (atom_text a ++ 124 :: render_alts (b :: more) opt).
    change (render_alts (a :: b :: more) opt) with (atom_text a ++ 124 :: render_alts (b :: more) opt) in Hf.
    rewrite <- app_assoc. cbn [app].
    rewrite <- app_assoc in Hf. cbn [app] in Hf.
    pose proof (mc_atom t varid a f (124 :: render_alts (b :: more) opt ++ rest) Hwa Hok Hca Hva Hf) as HA.
    assert (Hae : alt_end (124 :: render_alts (b :: more) opt ++ rest)) by (right; right; eauto).
    specialize (HA Hae).
    destruct (atom_match varid a t); [exact HA|]. cbn [orb].
    destruct HA as (f' & Hf' & ->).
    apply IH; try assumption; try discriminate.
    + intros l Hl. apply Hc. now right.
    + intros Hl. apply Hv. now right.
Qed.

(* ---------------------------------------------------------------- words in the pattern text *)
Lemma first_word_app w rest : has 32 w = false -> word_end rest -> first_word (w ++ rest) = w.
Proof.
  induction w as [|c w IH]; intros H Hr.
  - destruct Hr as [-> | [r ->]]; reflexivity.
  - rewrite has_cons in H. apply orb_false_elim in H as [A B]. cbn. rewrite N.eqb_sym in A. rewrite A.
    now rewrite IH.
Qed.

Lemma drop_word_app w rest : has 32 w = false -> word_end rest -> drop_word (w ++ rest) = rest.
Proof.
  induction w as [|c w IH]; intros H Hr.
  - destruct Hr as [-> | [r ->]]; reflexivity.
  - rewrite has_cons in H. apply orb_false_elim in H as [A B]. cbn. rewrite N.eqb_sym in A. rewrite A.
    now apply IH.
Qed.

Lemma drop_spaces_pre pre s :
  (forall c, In c pre -> c = 32) -> at_ 0 s <> 32 -> drop_spaces (pre ++ s) = s.
Proof.
  induction pre as [|c pre IH]; intros Hp Hs.
  - cbn. destruct s as [|c s]; [reflexivity|]. unfold at_ in Hs. cbn in Hs.
    cbn. destruct c as [|q]; [reflexivity|].
    destruct (N.eq_dec (N.pos q) 32) as [E|E]; [contradiction|].
    destruct q as [q|q|]; try reflexivity;
      repeat (destruct q as [q|q|]; try reflexivity; try (exfalso; apply E; reflexivity)).
  - rewrite (Hp c (or_introl eq_refl)). cbn. apply IH; [|assumption]. intros d Hd. apply Hp. now right.
Qed.

Lemma cmd_text_props c : has 32 (cmd_text c) = false /\ has 0 (cmd_text c) = false /\ cmd_text c <> [].
Proof. destruct c; repeat split; try reflexivity; discriminate. Qed.

Lemma wf_lit_props l : wf_lit l = true -> has 32 l = false /\ has 0 l = false /\ l <> [].
Proof.
  unfold wf_lit. intros H. repeat (apply andb_prop in H as [H ?]).
  apply negb_true_iff in H1, H3. repeat split; try assumption.
  destruct l; [discriminate | discriminate].
Qed.

Lemma atom_text_props a : wf_atom a = true -> has 32 (atom_text a) = false /\ has 0 (atom_text a) = false /\ atom_text a <> [].
Proof. destruct a; cbn; [apply wf_lit_props | intros _; apply cmd_text_props]. Qed.

Lemma render_alts_props opt : forall atoms, atoms <> [] -> forallb wf_atom atoms = true ->
  has 32 (render_alts atoms opt) = false /\ has 0 (render_alts atoms opt) = false /\ render_alts atoms opt <> [].
Proof.
  induction atoms as [|a more IH]; intros Hne Hwf; [contradiction|].
  cbn [forallb] in Hwf. apply andb_prop in Hwf as [Ha Hm].
  destruct (atom_text_props a Ha) as (A1 & A2 & A3).
  destruct more as [|b more].
  - cbn [render_alts]. rewrite !has_app, A1, A2. destruct opt; repeat split; try reflexivity;
      destruct (atom_text a); try contradiction; discriminate.
  - change (render_alts (a :: b :: more) opt) with (atom_text a ++ 124 :: render_alts (b :: more) opt).
    destruct (IH ltac:(discriminate) Hm) as (B1 & B2 & B3).
    rewrite !has_app, !has_cons, A1, A2, B1, B2. repeat split; try reflexivity.
    destruct (atom_text a); try contradiction; discriminate.
Qed.

Lemma render_word_props w : wf_word w = true ->
  has 32 (render_word w) = false /\ has 0 (render_word w) = false /\ render_word w <> [].
Proof.
  destruct w as [cs | l | atoms opt]; cbn [wf_word render_word]; intros H.
  - repeat (apply andb_prop in H as [H ?]). apply negb_true_iff in H0, H1.
    rewrite !has_cons, !has_app, H0, H1. repeat split; try reflexivity. discriminate.
  - repeat (apply andb_prop in H as [H ?]). apply negb_true_iff in H0, H1, H2.
    rewrite !has_cons, H1, H2. repeat split; try reflexivity. discriminate.
  - repeat (apply andb_prop in H as [H ?]). apply render_alts_props; [|assumption].
    destruct atoms; [discriminate | discriminate].
Qed.

Lemma render_pat_cons w ws :
  render_pat (w :: ws) = render_word w ++ match ws with [] => [] | _ => 32 :: render_pat ws end.
Proof. destruct ws; cbn [render_pat]; [now rewrite app_nil_r | reflexivity]. Qed.

(* ---------------------------------------------------------------- [..] and !! words *)
Fixpoint count93 (s : str) : nat := match s with [] => O | x :: r => if x =? 93 then S (count93 r) else count93 r end.

Lemma set_scan_93 : forall w k, set_scan 93 w k = (false, (k + count93 w)%nat).
Proof.
  induction w as [|x w IH]; intros k; cbn [set_scan count93]; [now rewrite Nat.add_0_r|].
  destruct (x =? 93) eqn:E; rewrite IH; f_equal; lia.
Qed.

Lemma count93_mem cs : (1 <=? count93 cs)%nat = mem_N 93 cs.
Proof.
  induction cs as [|x cs IH]; [reflexivity|].
  change (mem_N 93 (x :: cs)) with ((93 =? x) || mem_N 93 cs). cbn [count93]. rewrite (N.eqb_sym 93 x).
  destruct (x =? 93); [reflexivity|]. exact IH.
Qed.

Lemma set_scan_other c : c <> 93 -> forall w k, fst (set_scan c (w ++ [93]) k) = mem_N c w.
Proof.
  intros Hc. induction w as [|x w IH]; intros k.
  - cbn [app set_scan]. rewrite N.eqb_refl. reflexivity.
  - change (mem_N c (x :: w)) with ((c =? x) || mem_N c w). cbn [app set_scan].
    destruct (x =? 93) eqn:E.
    + rewrite IH. apply N.eqb_eq in E. subst x.
      destruct (c =? 93) eqn:E2; [apply N.eqb_eq in E2; contradiction|]. reflexivity.
    + rewrite (N.eqb_sym c x). destruct (x =? c); [reflexivity|]. apply IH.
Qed.

Lemma set_scan_spec c cs :
  (let '(found, cnt) := set_scan c (cs ++ [93]) 0 in found || ((1 <? N.of_nat cnt) && (c =? 93))) = mem_N c cs.
Proof.
  destruct (N.eq_dec c 93) as [-> | Hc].
  - rewrite set_scan_93. cbn [orb Nat.add]. rewrite N.eqb_refl, andb_true_r.
    assert (count93 (cs ++ [93]) = S (count93 cs)).
    { induction cs as [|x cs IH]; [reflexivity|]. cbn [app count93]. destruct (x =? 93); now rewrite IH. }
    rewrite H. rewrite <- count93_mem.
    destruct (count93 cs); [reflexivity|]. cbn [Nat.leb].
    apply N.ltb_lt. lia.
  - pose proof (set_scan_other c Hc cs 0%nat) as H.
    destruct (set_scan c (cs ++ [93]) 0) as [found cnt]. cbn in H. subst found.
    destruct (c =? 93) eqn:E; [apply N.eqb_eq in E; contradiction|].
    now rewrite andb_false_r, orb_false_r.
Qed.

Lemma fwe_spec : forall l rest n,
  has 32 l = false -> word_end rest -> starts_with (l ++ [32]) n = false -> fwe (l ++ rest) n = str_eqb n l.
Proof.
  induction l as [|c l IH]; intros rest n H32 Hr Hc.
  - cbn [app]. destruct Hr as [-> | [r ->]]; destruct n as [|d n]; cbn [fwe].
    + symmetry. apply str_eqb_refl.
    + symmetry. apply str_eqb_cons_nil.
    + rewrite N.eqb_refl. symmetry. apply str_eqb_refl.
    + rewrite str_eqb_cons_nil. cbn [app starts_with] in Hc. rewrite andb_true_r in Hc. now rewrite Hc.
  - rewrite has_cons in H32. apply orb_false_elim in H32 as [A B]. rewrite N.eqb_sym in A.
    cbn [app]. destruct n as [|d n]; cbn [fwe].
    + rewrite str_eqb_nil_cons. exact A.
    + rewrite str_eqb_cons. rewrite (N.eqb_sym d c). destruct (c =? d) eqn:E; [|reflexivity].
      cbn [andb]. apply IH; [assumption|assumption|]. cbn [app starts_with] in Hc. rewrite E in Hc. exact Hc.
Qed.

(* ---------------------------------------------------------------- Token::Match *)
Definition tok_ok (ls : list str) (t : tk) : Prop :=
  tok_str_ok t /\ forall l, In l ls -> starts_with (l ++ [32]) (t_str t) = false.

Lemma tok_compat_ok ls t : tok_compat ls t = true -> tok_ok ls t.
Proof.
  unfold tok_compat. intros H. repeat (apply andb_prop in H as [H ?]).
  apply negb_true_iff in H1, H2. split; [repeat split|].
  - destruct (t_str t); [discriminate|discriminate].
  - assumption.
  - intro E. rewrite E in H1. discriminate.
  - intros l Hl. rewrite forallb_forall in H0. apply negb_true_iff. now apply H0.
Qed.

Lemma ml_S f varid p0 toks :
  ml (S f) varid p0 toks =
    let p := drop_spaces p0 in
    match p with
    | [] => Rtrue
    | _ =>
      let is_not := (at_ 0 p =? 33) && (at_ 1 p =? 33) && negb (at_ 2 p =? 0) in
      let next (toks' : list tk) : res :=
          match drop_word p with [] => Rtrue | p' => ml f varid p' toks' end in
      match toks with
      | [] => if is_not then ml f varid (drop_word p) []
              else if negb (at_ 0 p =? 124) && negb ((at_ 0 p =? 91) && mem_N 93 (first_word p)) &&
                      (last (first_word p) 0 =? 124)
                   then ml f varid (drop_word p) []
                   else Rfalse
      | t :: r =>
        if (at_ 0 p =? 91) && mem_N 93 (first_word p) then
          match t_str t with
          | [c] =>
            let '(found, cnt) := set_scan c (tl (first_word p)) 0 in
            if found || ((1 <? N.of_nat cnt) && (c =? 93)) then next r else Rfalse
          | _ => Rfalse
          end
        else if is_not then
          if fwe (skipn 2 p) (t_str t) then Rfalse else next r
        else
          match multi_compare t varid p with
          | M0 => ml f varid (drop_word p) toks
          | Mneg => Rfalse
          | M1 => next r
          | Mexc => Rexc
          | Mfuel => Rfuel
          end
      end
    end.
Proof. reflexivity. Qed.

Lemma at0_app w rest : w <> [] -> at_ 0 (w ++ rest) = at_ 0 w.
Proof. destruct w; [contradiction|reflexivity]. Qed.

Lemma has_at0 c w : w <> [] -> has c w = false -> at_ 0 w <> c.
Proof.
  destruct w as [|x w]; [contradiction|]. intros _ H. rewrite has_cons in H. apply orb_false_elim in H as [A _].
  unfold at_. cbn. intro E. subst. now rewrite N.eqb_refl in A.
Qed.

Lemma pat_lits_cons w ws l : In l (pat_lits ws) -> In l (pat_lits (w :: ws)).
Proof. unfold pat_lits. cbn [map List.concat]. intros H. apply in_or_app. now right. Qed.


Lemma last_app_ne (a b : str) d : b <> [] -> last (a ++ b) d = last b d.
Proof.
  intros Hb. induction a as [|x a IH]; [reflexivity|]. cbn [app].
  destruct (a ++ b) as [|n l] eqn:E; [destruct a; [contradiction|discriminate]|].
  cbn [last]. exact IH.
Qed.

Lemma last_not c l : l <> [] -> has c l = false -> last l 0 <> c.
Proof.
  induction l as [|x l IH]; intros Hne H; [contradiction|].
  rewrite has_cons in H. apply orb_false_elim in H as [A B].
  destruct l as [|y l]; [cbn; intro; subst; now rewrite N.eqb_refl in A|].
  change (last (x :: y :: l) 0) with (last (y :: l) 0). apply IH; [discriminate|assumption].
Qed.

Lemma atom_text_nobar a : wf_atom a = true -> has 124 (atom_text a) = false.
Proof.
  destruct a as [l|c]; cbn.
  - unfold wf_lit. intros H. repeat (apply andb_prop in H as [H ?]). now apply negb_true_iff in H2.
  - intros _. destruct c; reflexivity.
Qed.

Lemma render_alts_at0 opt atoms : atoms <> [] -> forallb wf_atom atoms = true ->
  at_ 0 (render_alts atoms opt) <> 124.
Proof.
  destruct atoms as [|a more]; [contradiction|]. intros _ H. cbn [forallb] in H. apply andb_prop in H as [Ha _].
  destruct (atom_text_props a Ha) as (_ & _ & Ane).
  destruct more; [cbn [render_alts]|change (render_alts (a :: a0 :: more) opt) with (atom_text a ++ 124 :: render_alts (a0 :: more) opt)];
    rewrite at0_app by assumption; apply has_at0; try assumption; now apply atom_text_nobar.
Qed.

Lemma render_alts_last opt : forall atoms, atoms <> [] -> forallb wf_atom atoms = true ->
  (last (render_alts atoms opt) 0 =? 124) = opt.
Proof.
  induction atoms as [|a more IH]; intros Hne H; [contradiction|].
  cbn [forallb] in H. apply andb_prop in H as [Ha Hm].
  destruct (atom_text_props a Ha) as (_ & _ & Ane).
  destruct more as [|b more].
  - cbn [render_alts]. destruct opt.
    + rewrite last_app_ne by discriminate. reflexivity.
    + rewrite app_nil_r. apply N.eqb_neq. apply last_not; [assumption|now apply atom_text_nobar].
  - change (render_alts (a :: b :: more) opt) with (atom_text a ++ 124 :: render_alts (b :: more) opt).
    rewrite last_app_ne by discriminate.
    destruct (render_alts_props opt (b :: more) ltac:(discriminate) Hm) as (_ & _ & Rne).
    change (124 :: render_alts (b :: more) opt) with ([124] ++ render_alts (b :: more) opt).
    rewrite last_app_ne by assumption. apply IH; [discriminate|assumption].
Qed.

Theorem ml_spec varid : forall p f toks pre,
  forallb wf_word p = true -> varid_ok varid p ->
  Forall (tok_ok (pat_lits p)) toks ->
  (forall c, In c pre -> c = 32) ->
  (length (pre ++ render_pat p) < f)%nat ->
  ml f varid (pre ++ render_pat p) toks = res_of_bool (interp varid p toks).
Proof.
  induction p as [|w ws IH]; intros f toks pre Hwf Hv Htoks Hpre Hf.
  - destruct f as [|f]; [cbn in Hf; lia|]. rewrite ml_S. cbn [render_pat]. rewrite app_nil_r.
    assert (drop_spaces pre = []) as ->.
    { clear -Hpre. induction pre as [|c pre IHp]; [reflexivity|]. rewrite (Hpre c (or_introl eq_refl)). cbn.
      apply IHp. intros d Hd. apply Hpre. now right. }
    reflexivity.
  - cbn [forallb] in Hwf. apply andb_prop in Hwf as [Hw Hws].
    pose proof (varid_ok_tail _ _ _ Hv) as Hv'.
    destruct (render_word_props w Hw) as (W32 & W0 & Wne).
    set (rest := match ws with [] => [] | _ => 32 :: render_pat ws end).
    assert (Hrest : word_end rest) by (unfold rest; destruct ws; [now left | right; eauto]).
    rewrite render_pat_cons in Hf |- *. fold rest in Hf |- *.
    destruct f as [|f]; [cbn in Hf; lia|].
    rewrite ml_S.
    assert (Hds : drop_spaces (pre ++ render_word w ++ rest) = render_word w ++ rest).
    { apply drop_spaces_pre; [assumption|]. rewrite at0_app by assumption. now apply has_at0. }
    cbv zeta. rewrite Hds.
    rewrite (first_word_app _ _ W32 Hrest), (drop_word_app _ _ W32 Hrest).
    assert (Htoks' : forall ts, Forall (tok_ok (pat_lits (w :: ws))) ts -> Forall (tok_ok (pat_lits ws)) ts).
    { intros ts. apply Forall_impl. intros t [A B]. split; [assumption|]. intros l Hl. apply B. now apply pat_lits_cons. }
    (* what happens after the word *)
    assert (Hlen : (length rest < f)%nat).
    { rewrite !app_length in Hf. destruct (render_word w); [contradiction|]. cbn in Hf. lia. }
    assert (Hgo : forall ts, Forall (tok_ok (pat_lits (w :: ws))) ts ->
                             ml f varid rest ts = res_of_bool (interp varid ws ts)).
    { intros ts Hts. unfold rest in *. destruct ws as [|w2 ws2].
      - apply (IH f ts []); try assumption; [now apply Htoks' | intros c []].
      - apply (IH f ts [32]); try assumption; [now apply Htoks' | intros c [<- | []]; reflexivity]. }
    assert (Hnext : forall ts, Forall (tok_ok (pat_lits (w :: ws))) ts ->
                               match rest with [] => Rtrue | n :: l => ml f varid (n :: l) ts end = res_of_bool (interp varid ws ts)).
    { intros ts Hts. pose proof (Hgo ts Hts) as HG. destruct rest eqn:Er; [|exact HG].
      unfold rest in Er. destruct ws; [reflexivity|discriminate]. }
    assert (Hnonnil : exists c0 s0, render_word w ++ rest = c0 :: s0).
    { destruct (render_word w) as [|c0 s0]; [contradiction|]. cbn. eauto. }
    destruct Hnonnil as (c0 & s0 & Ecs). rewrite Ecs. rewrite <- Ecs.
    destruct w as [cs | l | atoms opt].
    + (* [..] *)
      cbn [render_word] in *. cbn [wf_word] in Hw.
      change (at_ 0 ((91 :: cs ++ [93]) ++ rest)) with 91.
      cbn [N.eqb Pos.eqb andb].
      assert (mem_N 93 (91 :: cs ++ [93]) = true) as ->.
      { change (has 93 (91 :: cs ++ [93]) = true). rewrite has_cons, has_app. cbn. apply orb_true_r. }
      destruct toks as [|t r]; [reflexivity|].
      cbn [tl interp]. unfold set_match.
      destruct (t_str t) as [|c [|c2 n2]]; [reflexivity| |reflexivity].
      pose proof (set_scan_spec c cs) as HS.
      destruct (set_scan c (cs ++ [93]) 0) as [found cnt]. rewrite HS.
      destruct (mem_N c cs); [|reflexivity]. cbn [andb].
      apply Hnext. now inversion Htoks.
    + (* !! *)
      cbn [render_word] in *. cbn [wf_word] in Hw.
      repeat (apply andb_prop in Hw as [Hw ?]). apply negb_true_iff in H0, H1.
      assert (Hl2 : negb (at_ 2 ((33 :: 33 :: l) ++ rest) =? 0) = true).
      { destruct l as [|c l]; [discriminate|]. unfold at_. cbn. rewrite has_cons in H0.
        apply orb_false_elim in H0 as [A _]. rewrite N.eqb_sym in A. now rewrite A. }
      change (at_ 0 ((33 :: 33 :: l) ++ rest)) with 33.
      change (at_ 1 ((33 :: 33 :: l) ++ rest)) with 33.
      rewrite Hl2. cbn [N.eqb Pos.eqb andb].
      destruct toks as [|t r].
      * cbn [interp]. apply Hgo. constructor.
      * cbn [interp]. change (skipn 2 ((33 :: 33 :: l) ++ rest)) with (l ++ rest).
        inversion Htoks as [|? ? [Hok Hcompat] Hr']; subst.
        rewrite fwe_spec; [|assumption|assumption|].
        -- destruct (str_eqb (t_str t) l); [reflexivity|]. cbn [negb andb]. now apply Hnext.
        -- apply Hcompat. unfold pat_lits. cbn. now left.
    + (* alternatives *)
      cbn [render_word] in *. cbn [wf_word] in Hw.
      repeat (apply andb_prop in Hw as [Hw ?]).
      assert (Hane : atoms <> []) by (destruct atoms; discriminate).
      set (r0 := render_alts atoms opt) in *.
      assert (Hset : (at_ 0 (r0 ++ rest) =? 91) && mem_N 93 r0 = false).
      { rewrite at0_app by assumption. now apply negb_true_iff in H0. }
      assert (Hnot : (at_ 0 (r0 ++ rest) =? 33) && (at_ 1 (r0 ++ rest) =? 33) = false).
      { apply negb_true_iff in H. rewrite at0_app by assumption.
        destruct r0 as [|a [|b r1]]; [contradiction| |exact H].
        unfold at_. cbn. destruct Hrest as [-> | [r ->]]; cbn; now rewrite andb_false_r. }
      rewrite Hset, Hnot. cbn [andb].
      destruct toks as [|t r].
      { assert (Hbar : (at_ 0 (r0 ++ rest) =? 124) = false).
        { rewrite at0_app by assumption. apply N.eqb_neq. now apply render_alts_at0. }
        rewrite Hbar. unfold r0. rewrite (render_alts_last opt atoms Hane H1). cbn [negb andb interp].
        destruct opt; [|reflexivity]. apply Hgo. constructor. }
      inversion Htoks as [|? ? [Hok Hcompat] Hr']; subst.
      unfold multi_compare.
      rewrite (mc_alts t varid opt atoms _ rest Hane H1 Hok).
      * cbn [interp]. destruct (existsb (fun a => atom_match varid a t) atoms).
        -- now apply Hnext.
        -- destruct opt; [|reflexivity]. now apply Hgo.
      * intros l Hl. apply Hcompat. unfold pat_lits. cbn [map List.concat]. apply in_or_app. left.
        clear -Hl. induction atoms as [|a atoms IHa]; [contradiction|]. cbn.
        destruct Hl as [-> | Hl]; [now left|]. apply in_or_app. right. now apply IHa.
      * intros Hin. apply Hv. unfold uses_varid. cbn. apply orb_true_iff. left.
        apply existsb_exists. exists (ACmd Cvarid). now split.
      * assumption.
      * subst r0. apply Nat.lt_succ_diag_r.
Qed.
