(* Putting the pieces together at the level of pattern strings, simpleMatch, token hypotheses. *)
From CV Require Import Base.Bytes MC.Gen_TokTypes MC.Defs MC.CompiledProofs MC.CharProofs.
Require Import Lia.
Local Open Scope N_scope.

Theorem interp_chars_eq_interp varid p toks :
  forallb wf_word p = true -> varid_ok varid p ->
  Forall (fun t => tok_compat (pat_lits p) t = true) toks ->
  interp_chars varid (render_pat p) toks = res_of_bool (interp varid p toks).
Proof.
  intros Hwf Hv Ht. unfold interp_chars.
  apply (ml_spec varid p _ toks []); try assumption.
  - eapply Forall_impl; [|exact Ht]. intros t. apply tok_compat_ok.
  - intros c [].
  - cbn. lia.
Qed.

(* ---------------------------------------------------------------- decidable equality of ASTs *)
Lemma cmd_eqb_eq a b : cmd_eqb a b = true -> a = b.
Proof. destruct a, b; intro H; try reflexivity; vm_compute in H; discriminate. Qed.

Lemma atom_eqb_eq a b : atom_eqb a b = true -> a = b.
Proof.
  destruct a, b; cbn; intro H; try discriminate.
  - apply str_eqb_eq in H. now subst.
  - apply cmd_eqb_eq in H. now subst.
Qed.

Lemma list_eqb_eq {A} (e : A -> A -> bool) : (forall a b, e a b = true -> a = b) ->
  forall x y, list_eqb e x y = true -> x = y.
Proof.
  intros He. induction x as [|a x IH]; destruct y as [|b y]; cbn; intro H; try discriminate; [reflexivity|].
  apply andb_prop in H as [H1 H2]. f_equal; [now apply He | now apply IH].
Qed.

Lemma word_eqb_eq a b : word_eqb a b = true -> a = b.
Proof.
  destruct a, b; cbn; intro H; try discriminate.
  - apply str_eqb_eq in H. now subst.
  - apply str_eqb_eq in H. now subst.
  - apply andb_prop in H as [H1 H2]. apply (list_eqb_eq atom_eqb atom_eqb_eq) in H1.
    apply Bool.eqb_prop in H2. now subst.
Qed.

Lemma wf_src_inv s : wf_src s = true ->
  exists p, iparse s = Some p /\ cparse s = Some p /\ render_pat p = s /\
            forallb wf_word p = true.
Proof.
  unfold wf_src. destruct (iparse s) as [p|]; [|discriminate]. destruct (cparse s) as [q|]; [|discriminate].
  intro H. apply andb_prop in H as [H H3]. apply andb_prop in H as [H1 H2].
  unfold wf_pat in H1.
  apply (list_eqb_eq word_eqb word_eqb_eq) in H2. apply str_eqb_eq in H3. subst q.
  exists p. repeat split; assumption.
Qed.

Definition src_lits (s : str) : list str := match iparse s with Some p => pat_lits p | None => [] end.
Definition src_uses_varid (s : str) : bool := match iparse s with Some p => uses_varid p | None => false end.

(* Token::Match(tok, "<s>", varid): what the build compiles = what the interpreter computes *)
Theorem match_compiled_eq_interpreted s varid toks :
  wf_src s = true -> (src_uses_varid s = true -> varid <> 0) ->
  Forall (fun t => tk_inv t = true) toks ->
  Forall (fun t => tok_compat (src_lits s) t = true) toks ->
  compiled_str varid s toks = interp_chars varid s toks.
Proof.
  intros Hwf Hv Hinv Hc. destruct (wf_src_inv s Hwf) as (p & Hi & Hcp & Hr & Hw).
  unfold src_lits, src_uses_varid in *. rewrite Hi in *.
  unfold compiled_str. rewrite Hcp. rewrite <- Hr.
  rewrite interp_chars_eq_interp; try assumption.
  now rewrite compiled_eq_interp.
Qed.

(* ... and both are the documented word-level language of the parsed pattern *)
Theorem match_is_documented_language s varid toks :
  wf_src s = true -> (src_uses_varid s = true -> varid <> 0) ->
  Forall (fun t => tk_inv t = true) toks ->
  exists p, iparse s = Some p /\ compiled_str varid s toks = res_of_bool (interp varid p toks).
Proof.
  intros Hwf Hv Hinv. destruct (wf_src_inv s Hwf) as (p & Hi & Hcp & Hr & Hw).
  exists p. split; [assumption|]. unfold compiled_str. rewrite Hcp. f_equal.
  apply compiled_eq_interp; [|assumption]. unfold src_uses_varid in Hv. now rewrite Hi in Hv.
Qed.

(* findmatch with end token *)
Theorem findmatch_compiled_eq_interpreted s varid toks endi :
  wf_src s = true -> (src_uses_varid s = true -> varid <> 0) ->
  Forall (fun t => tk_inv t = true) toks ->
  Forall (fun t => tok_compat (src_lits s) t = true) toks ->
  exists p, cparse s = Some p /\
  find_from (compiled varid p) toks endi 0 =
  find_from (fun ts => match interp_chars varid s ts with Rtrue => true | _ => false end) toks endi 0.
Proof.
  intros Hwf Hv Hinv Hc. destruct (wf_src_inv s Hwf) as (p & Hi & Hcp & Hr & Hw).
  exists p. split; [assumption|]. apply find_from_ext. intros k.
  unfold src_lits, src_uses_varid in *. rewrite Hi in *.
  rewrite <- Hr. rewrite interp_chars_eq_interp; try assumption; [|now apply Forall_skipn].
  rewrite compiled_eq_interp; try assumption; [|now apply Forall_skipn].
  destruct (interp varid p (skipn k toks)); reflexivity.
Qed.

(* ---------------------------------------------------------------- real tokens: spaces only inside quoted literals *)
Lemma quote_free_compat : forall l n,
  has 34 l = false -> has 39 l = false -> space_after_quote n = true ->
  starts_with (l ++ [32]) n = false.
Proof.
  induction l as [|c l IH]; intros n H34 H39 Hs.
  - destruct n as [|d n]; [reflexivity|]. cbn [app starts_with]. cbn [space_after_quote] in Hs.
    destruct (d =? 32) eqn:E; [discriminate|].
    rewrite N.eqb_sym in E. now rewrite E.
  - destruct n as [|d n]; [reflexivity|].
    rewrite has_cons in H34, H39. apply orb_false_elim in H34 as [A34 B34]. apply orb_false_elim in H39 as [A39 B39].
    cbn [app starts_with]. destruct (c =? d) eqn:E; [|reflexivity]. cbn [andb].
    apply N.eqb_eq in E. subst d. cbn [space_after_quote] in Hs.
    destruct (c =? 32); [discriminate|]. rewrite (N.eqb_sym c 34), (N.eqb_sym c 39), A34, A39 in Hs.
    cbn [orb] in Hs. now apply IH.
Qed.

Theorem real_tokens_compat ls t :
  forallb (fun l => negb (has 34 l) && negb (has 39 l)) ls = true ->
  t_str t <> [] -> has 0 (t_str t) = false -> space_after_quote (t_str t) = true ->
  tok_compat ls t = true.
Proof.
  intros Hls Hne H0 Hs. unfold tok_compat. rewrite H0.
  destruct (t_str t) as [|d n] eqn:En; [contradiction|]. cbn [is_nil negb andb].
  assert (at_ 0 (d :: n) =? 32 = false) as ->.
  { unfold at_. cbn [nth]. cbn [space_after_quote] in Hs. destruct (d =? 32); [discriminate|reflexivity]. }
  cbn [negb andb]. apply forallb_forall. intros l Hl. rewrite forallb_forall in Hls.
  specialize (Hls l Hl). apply andb_prop in Hls as [A B]. apply negb_true_iff in A, B.
  apply negb_true_iff. now apply quote_free_compat.
Qed.

(* ---------------------------------------------------------------- simpleMatch *)
Lemma sm_spec : forall ws f toks,
  ws <> [] -> forallb (fun w => negb (is_nil w) && negb (has 32 w)) ws = true ->
  (length (join [32%N] ws) < f)%nat ->
  sm f (join [32] ws) toks = res_of_bool (simple ws toks).
Proof.
  induction ws as [|w ws IH]; intros f toks Hne Hwf Hf; [contradiction|].
  cbn [forallb] in Hwf. apply andb_prop in Hwf as [Hw Hws]. apply andb_prop in Hw as [Hw1 Hw2].
  apply negb_true_iff in Hw2.
  destruct f as [|f]; [lia|].
  set (rest := match ws with [] => [] | _ => 32 :: join [32] ws end).
  assert (Hj : join [32] (w :: ws) = w ++ rest).
  { unfold rest. destruct ws; cbn [join]; [now rewrite app_nil_r | reflexivity]. }
  assert (Hrest : word_end rest) by (unfold rest; destruct ws; [now left | right; eauto]).
  rewrite Hj in *.
  assert (Hlen : (length rest < f)%nat).
  { rewrite app_length in Hf. destruct w; [discriminate|]. cbn [length] in Hf. lia. }
  cbn [sm].
  destruct (w ++ rest) as [|c0 s0] eqn:E0; [destruct w; discriminate|]. rewrite <- E0.
  destruct toks as [|t r]; [reflexivity|].
  rewrite (first_word_app _ _ Hw2 Hrest), (drop_word_app _ _ Hw2 Hrest). cbn [simple].
  assert (str_eqb w (t_str t) = str_eqb (t_str t) w) as ->.
  { destruct (str_eqb (t_str t) w) eqn:E; [apply str_eqb_eq in E; subst; apply str_eqb_refl|].
    apply str_eqb_neq. intro. subst. now rewrite str_eqb_refl in E. }
  destruct (str_eqb (t_str t) w); [|reflexivity]. cbn [andb].
  unfold rest in *. destruct ws as [|w2 ws2]; [reflexivity|].
  apply IH; [discriminate|assumption|]. cbn [length] in Hlen. lia.
Qed.

Lemma compiled_plain varid : forall ws toks,
  Forall (fun t => tk_inv t = true) toks -> compiled varid (plain_pat ws) toks = simple ws toks.
Proof.
  induction ws as [|w ws IH]; intros toks Ht; [reflexivity|].
  destruct toks as [|t r]; [reflexivity|]. inversion Ht; subst.
  cbn [plain_pat map compiled simple existsb]. fold (plain_pat ws). rewrite orb_false_r.
  rewrite catom_match_eq; [|assumption|discriminate]. cbn [atom_match]. now rewrite IH.
Qed.

(* Token::simpleMatch(tok, "<s>"): compiled (through _compilePattern) = interpreted = plain word list *)
Theorem simplematch_compiled_eq_interpreted s toks varid :
  wf_simple s = true -> Forall (fun t => tk_inv t = true) toks ->
  compiled_str varid s toks = simple_chars s toks /\
  simple_chars s toks = res_of_bool (simple (split 32 s) toks).
Proof.
  unfold wf_simple. intros H Ht. repeat (apply andb_prop in H as [H ?]).
  destruct (cparse s) as [q|] eqn:Ec; [|discriminate].
  apply (list_eqb_eq word_eqb word_eqb_eq) in H0. apply str_eqb_eq in H1. subst q.
  assert (Hne : split 32 s <> []) by (destruct (split 32 s); [discriminate|discriminate]).
  assert (Hs : simple_chars s toks = res_of_bool (simple (split 32 s) toks)).
  { unfold simple_chars. destruct toks as [|t r].
    - destruct (split 32 s); [contradiction|reflexivity].
    - rewrite <- H1 at 1 2. apply sm_spec; try assumption. rewrite H1. lia. }
  split; [|assumption]. rewrite Hs. unfold compiled_str. rewrite Ec. f_equal. now apply compiled_plain.
Qed.

(* ---------------------------------------------------------------- update_property_info and the tokTypes table *)
(* every name in the table is expected to be a keyword of the language; links exist only on brackets *)
Definition kw_expected (s : str) : bool :=
  is_alpha_ (nth 0 s 0) && negb (str_eqb s [116;114;117;101]) && negb (str_eqb s [102;97;108;115;101]).
Definition link_possible (s : str) : bool :=
  (N.of_nat (length s) =? 1) && mem_N (nth 0 s 0) [60;62;40;41;91;93;123;125].

Definition upd_table_ok : bool :=
  forallb (fun e : str * list N =>
    let '(s, tys) := e in
    forallb (fun link : bool => negb link || negb (link_possible s) ||
      forallb (fun cpp : bool =>
        match upd_ttype s false link (kw_expected s) cpp true with Some ty => mem_N ty tys | None => false end)
      [true; false]) [true; false] &&
    match upd_ttype s false false (kw_expected s) false true with Some ty => mem_N ty tys | None => false end &&
    match upd_ttype s false false (kw_expected s) true true with Some ty => mem_N ty tys | None => false end)
  tokTypes_table.

Lemma upd_establishes_table : upd_table_ok = true.
Proof. vm_compute. reflexivity. Qed.

(* no key of the compiler's table is identifier-like: for names (keywords, types, variables,
   true/false) the compiled matcher compares the string only, like the interpreter, so tk_inv
   constrains the tokType of operators only *)
Lemma table_has_no_names : forallb (fun e : str * list N => negb (is_alpha_ (nth 0 (fst e) 0))) tokTypes_table = true.
Proof. vm_compute. reflexivity. Qed.

Lemma assoc_str_in k l v : assoc_str k l = Some v -> In (k, v) l.
Proof.
  induction l as [|[k' v'] l IH]; cbn; [discriminate|].
  destruct (str_eqb k k') eqn:E; [|intro; right; now apply IH].
  intro H. inversion H; subst. apply str_eqb_eq in E. subst. now left.
Qed.

Theorem names_satisfy_tk_inv t :
  t_str t <> [] -> is_alpha_ (nth 0 (t_str t) 0) = true ->
  ((t_varid t =? 0) || (t_type t =? eVariable)) = true -> tk_inv t = true.
Proof.
  intros Hne Ha Hv. unfold tk_inv. rewrite Hv.
  destruct (t_str t) as [|c r] eqn:En; [contradiction|]. cbn [is_nil negb andb].
  destruct (assoc_str (c :: r) tokTypes_table) as [tys|] eqn:E; [|reflexivity].
  apply assoc_str_in in E. pose proof table_has_no_names as H. rewrite forallb_forall in H.
  specialize (H _ E). cbn [fst] in H. rewrite Ha in H. discriminate.
Qed.
