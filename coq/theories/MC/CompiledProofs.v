(* compiled = interp (the documented word-level language) on the pattern AST, for every pattern
   (induction over the word list). *)
From CV Require Import Base.Bytes MC.Gen_TokTypes MC.Defs.
Require Import Lia.
Local Open Scope N_scope.

Lemma assoc_str_eq k k' l : str_eqb k k' = true -> assoc_str k l = assoc_str k' l.
Proof. intro H. apply str_eqb_eq in H. now subst. Qed.

Lemma eVariable_is_name : mem_N eVariable name_types = true.
Proof. vm_compute. reflexivity. Qed.

Lemma catom_match_eq varid a t :
  tk_inv t = true -> (a = ACmd Cvarid -> varid <> 0) ->
  catom_match varid a t = atom_match varid a t.
Proof.
  intros Hinv Hv. unfold tk_inv in Hinv.
  apply andb_prop in Hinv as [Hinv Htab]. apply andb_prop in Hinv as [_ Hvar].
  destruct a as [l | c]; cbn [catom_match atom_match].
  - destruct (str_eqb (t_str t) l) eqn:E.
    + rewrite (assoc_str_eq _ _ tokTypes_table E) in Htab.
      destruct (assoc_str l tokTypes_table); [rewrite Htab|]; reflexivity.
    + destruct (assoc_str l tokTypes_table); [apply andb_false_r|reflexivity].
  - destruct c; try reflexivity.
    cbn [cmd_match]. destruct (t_varid t =? varid) eqn:E; [|apply andb_false_r].
    rewrite andb_true_r. apply N.eqb_eq in E.
    apply orb_prop in Hvar as [Hz | Hty].
    + apply N.eqb_eq in Hz. exfalso. apply (Hv eq_refl). congruence.
    + apply N.eqb_eq in Hty. unfold isName. rewrite Hty. apply eVariable_is_name.
Qed.

Definition varid_ok (varid : N) (p : pat) : Prop := uses_varid p = true -> varid <> 0.

Lemma varid_ok_tail varid w ws : varid_ok varid (w :: ws) -> varid_ok varid ws.
Proof. unfold varid_ok, uses_varid. cbn. intros H E. apply H. rewrite E. apply orb_true_r. Qed.

Lemma varid_ok_atom varid atoms opt ws a :
  varid_ok varid (WAlts atoms opt :: ws) -> In a atoms -> a = ACmd Cvarid -> varid <> 0.
Proof.
  unfold varid_ok, uses_varid. cbn. intros H Hin Ha. apply H. apply orb_true_iff. left.
  apply existsb_exists. exists a. split; [assumption|]. now subst.
Qed.

Lemma existsb_ext_in {A} (f g : A -> bool) l : (forall x, In x l -> f x = g x) -> existsb f l = existsb g l.
Proof.
  induction l as [|x l IH]; intros H; [reflexivity|]. cbn.
  rewrite (H x (or_introl eq_refl)), IH; [reflexivity|]. intros y Hy. apply H. now right.
Qed.

Theorem compiled_eq_interp varid p toks :
  varid_ok varid p -> Forall (fun t => tk_inv t = true) toks ->
  compiled varid p toks = interp varid p toks.
Proof.
  revert toks. induction p as [|w ws IH]; intros toks Hv Htoks; [reflexivity|].
  pose proof (varid_ok_tail _ _ _ Hv) as Hv'.
  destruct w as [cs | l | atoms opt].
  - destruct toks as [|t r]; [reflexivity|]. cbn. inversion Htoks; subst. now rewrite IH.
  - destruct toks as [|t r]; cbn; [now apply IH|]. inversion Htoks; subst. now rewrite IH.
  - assert (Hex : forall t, tk_inv t = true ->
                existsb (fun a => catom_match varid a t) atoms = existsb (fun a => atom_match varid a t) atoms).
    { intros t Ht. apply existsb_ext_in. intros a Ha. apply catom_match_eq; [assumption|].
      now apply (varid_ok_atom varid atoms opt ws a). }
    destruct opt.
    + destruct toks as [|t r]; [cbn; now apply IH|].
      inversion Htoks; subst. cbn. rewrite Hex by assumption.
      destruct (existsb _ atoms); now apply IH.
    + destruct toks as [|t r]; [reflexivity|]. inversion Htoks; subst. cbn.
      rewrite Hex by assumption. destruct (existsb _ atoms); [now apply IH|reflexivity].
Qed.

(* findmatch loops: the same loop around either matcher *)
Lemma find_from_ext (m1 m2 : list tk -> bool) toks endi i :
  (forall k, m1 (skipn k toks) = m2 (skipn k toks)) ->
  find_from m1 toks endi i = find_from m2 toks endi i.
Proof.
  revert i. induction toks as [|t r IH]; intros i H; [reflexivity|]. cbn.
  destruct (match endi with Some e => Nat.eqb e i | None => false end); [reflexivity|].
  pose proof (H 0%nat) as H0. cbn [skipn] in H0. rewrite H0. destruct (m2 (t :: r)); [reflexivity|].
  apply IH. intros k. apply (H (S k)).
Qed.

Lemma Forall_skipn {A} (P : A -> Prop) k l : Forall P l -> Forall P (skipn k l).
Proof.
  revert l. induction k; intros l H; [assumption|]. destruct l; [constructor|]. cbn. apply IHk. now inversion H.
Qed.

Theorem find_compiled_eq_interp varid p toks endi :
  varid_ok varid p -> Forall (fun t => tk_inv t = true) toks ->
  find_from (compiled varid p) toks endi 0 = find_from (interp varid p) toks endi 0.
Proof.
  intros. apply find_from_ext. intros k. apply compiled_eq_interp; try assumption. now apply Forall_skipn.
Qed.

