(* C33  Token patterns: the interpreter (lib/token.cpp Token::Match, simpleMatch,
   multiCompareImpl, multiComparePercent, chrInFirstWord, firstWordEquals, findmatch),
   the match compiler (tools/matchcompiler.py _compilePattern/_compileCmd/
   _compileFindPattern) and the word-level pattern language of the documentation comment
   of Token::Match (lib/token.h).

   No proofs in this file.

   Conventions: a C string is a [list N] without NUL; reading the terminating NUL is
   [nth k s 0 = 0]. Reading past the NUL (undefined behaviour, only possible for malformed
   %cmd% words) also yields 0 here; the generators never produce such patterns. *)
From CV Require Import Base.Bytes MC.Gen_TokTypes.
Local Open Scope N_scope.

(* ------------------------------------------------------------------ tokens *)
(* What the matchers read of a Token: str(), varId(), tokType(). isName() is the flag
   memoised by tokType(t) (the only writer of fIsName, checked by the translator). *)
Record tk := mk_tk { t_str : str; t_varid : N; t_type : N }.

Definition isName (t : tk) : bool := mem_N (t_type t) name_types.
Definition isNumber (t : tk) : bool := t_type t =? eNumber.
Definition isBoolean (t : tk) : bool := t_type t =? eBoolean.
Definition isAssignmentOp (t : tk) : bool := t_type t =? eAssignmentOp.
Definition isComparisonOp (t : tk) : bool := t_type t =? eComparisonOp.
Definition isArithmeticalOp (t : tk) : bool := t_type t =? eArithmeticalOp.
Definition isConstOp (t : tk) : bool :=
  isArithmeticalOp t || (t_type t =? eLogicalOp) || (t_type t =? eComparisonOp) || (t_type t =? eBitOp).
Definition isOp (t : tk) : bool := isConstOp t || isAssignmentOp t || (t_type t =? eIncDecOp).

(* ------------------------------------------------------------------ pattern AST *)
Inductive cmd := Cany | Cassign | Cbool | Cchar | Ccomp | Ccop | Cname | Cnum | Cop | Cor | Coror
               | Cstr | Ctype | Cvar | Cvarid.

Definition all_cmds : list cmd :=
  [Cany; Cassign; Cbool; Cchar; Ccomp; Ccop; Cname; Cnum; Cop; Cor; Coror; Cstr; Ctype; Cvar; Cvarid].

Definition cmd_text (c : cmd) : str :=
  match c with
  | Cany => [37;97;110;121;37]
  | Cassign => [37;97;115;115;105;103;110;37]
  | Cbool => [37;98;111;111;108;37]
  | Cchar => [37;99;104;97;114;37]
  | Ccomp => [37;99;111;109;112;37]
  | Ccop => [37;99;111;112;37]
  | Cname => [37;110;97;109;101;37]
  | Cnum => [37;110;117;109;37]
  | Cop => [37;111;112;37]
  | Cor => [37;111;114;37]
  | Coror => [37;111;114;111;114;37]
  | Cstr => [37;115;116;114;37]
  | Ctype => [37;116;121;112;101;37]
  | Cvar => [37;118;97;114;37]
  | Cvarid => [37;118;97;114;105;100;37]
  end.

Inductive atom := ALit (l : str) | ACmd (c : cmd).

Inductive word :=
| WSet (cs : str)                       (* [abc]    : cs = the characters between the brackets *)
| WNot (l : str)                        (* !!l *)
| WAlts (atoms : list atom) (opt : bool). (* a|b|%c%  , opt = there is an empty alternative *)

Definition pat := list word.

(* ------------------------------------------------------------------ word-level language (spec) *)
(* the documented meaning of each %cmd% in terms of the token predicates; %varid% matches the
   token whose varId is the (non-zero) argument *)
Definition cmd_match (varid : N) (c : cmd) (t : tk) : bool :=
  match c with
  | Cany => true
  | Cassign => isAssignmentOp t
  | Cbool => isBoolean t
  | Cchar => t_type t =? eChar
  | Ccomp => isComparisonOp t
  | Ccop => isConstOp t
  | Cname => isName t
  | Cnum => isNumber t
  | Cop => isOp t
  | Cor => (t_type t =? eBitOp) && str_eqb (t_str t) [124]
  | Coror => (t_type t =? eLogicalOp) && str_eqb (t_str t) [124;124]
  | Cstr => t_type t =? eString
  | Ctype => isName t && (t_varid t =? 0)
  | Cvar => negb (t_varid t =? 0)
  | Cvarid => t_varid t =? varid
  end.

Definition atom_match (varid : N) (a : atom) (t : tk) : bool :=
  match a with
  | ALit l => str_eqb (t_str t) l
  | ACmd c => cmd_match varid c t
  end.

Definition set_match (cs : str) (t : tk) : bool :=
  match t_str t with
  | [c] => mem_N c cs
  | _ => false
  end.

(* The word-level pattern language of the documentation comment of Token::Match: one token per
   word; an optional word ("int|void|char|" = any of the strings or no token) that does not
   match is skipped; when the tokens are exhausted only !!x and optional words still succeed.
   (Since /repo 5f182d0 this is also what the interpreter does on "no token".) *)
Fixpoint interp (varid : N) (p : pat) (toks : list tk) : bool :=
  match p with
  | [] => true
  | w :: ws =>
    match toks with
    | [] => match w with WNot _ => interp varid ws [] | WAlts _ true => interp varid ws [] | _ => false end
    | t :: r =>
      match w with
      | WSet cs => set_match cs t && interp varid ws r
      | WNot l => negb (str_eqb (t_str t) l) && interp varid ws r
      | WAlts atoms opt =>
        if existsb (fun a => atom_match varid a t) atoms then interp varid ws r
        else if opt then interp varid ws toks else false
      end
    end
  end.

(* ------------------------------------------------------------------ the compiler *)
Fixpoint assoc_str (k : str) (l : list (str * list N)) : option (list N) :=
  match l with
  | [] => None
  | (k', v) :: r => if str_eqb k k' then Some v else assoc_str k r
  end.

(* _compileCmd on the text of one alternative. None = the compiler prints "unhandled" and
   returns None (the build then dies with a TypeError). *)
Definition find_cmd (s : str) : option cmd :=
  find (fun c => str_eqb s (cmd_text c)) all_cmds.

Definition compile_atom (s : str) : option atom :=
  match find_cmd s with
  | Some c => Some (ACmd c)
  | None => if (2 <? N.of_nat (length s)) && (nth 0 s 0 =? 37) then None else Some (ALit s)
  end.

Fixpoint map_opt {A B} (f : A -> option B) (l : list A) : option (list B) :=
  match l with
  | [] => Some []
  | x :: r => match f x, map_opt f r with Some y, Some ys => Some (y :: ys) | _, _ => None end
  end.

Definition is_nil {A} (l : list A) : bool := match l with [] => true | _ => false end.

Fixpoint index_of (c : N) (s : str) (i : nat) : option nat :=
  match s with
  | [] => None
  | x :: r => if x =? c then Some i else index_of c r (S i)
  end.

(* one (non-empty) word of pattern.split(' ') as _compilePattern classifies it *)
Definition cparse_word (w : str) : option word :=
  if (2 <? N.of_nat (length w)) && (nth 0 w 0 =? 91) && (last w 0 =? 93) then
    Some (WSet (removelast (tl w)))
  else match index_of 124 w 0 with
  | Some (S _) =>
      let alts := split 124 w in
      match map_opt compile_atom (filter (fun a => negb (is_nil a)) alts) with
      | Some atoms => Some (WAlts atoms (existsb is_nil alts))
      | None => None
      end
  | _ =>
      if (nth 0 w 0 =? 33) && (nth 1 w 0 =? 33) then Some (WNot (skipn 2 w))
      else match compile_atom w with Some a => Some (WAlts [a] false) | None => None end
  end.

Definition words (s : str) : list str := filter (fun w => negb (is_nil w)) (split 32 s).

Definition cparse (s : str) : option pat := map_opt cparse_word (words s).

(* the generated condition for one alternative *)
Definition catom_match (varid : N) (a : atom) (t : tk) : bool :=
  match a with
  | ALit l =>
    match assoc_str l tokTypes_table with
    | Some tys => mem_N (t_type t) tys && str_eqb (t_str t) l
    | None => str_eqb (t_str t) l
    end
  | ACmd Cvarid => isName t && (t_varid t =? varid)
  | ACmd c => cmd_match varid c t
  end.

(* the generated straight-line function match<N>(tok[, varid]) *)
Fixpoint compiled (varid : N) (p : pat) (toks : list tk) : bool :=
  match p with
  | [] => true
  | w :: ws =>
    match w with
    | WSet cs =>
      match toks with t :: r => set_match cs t && compiled varid ws r | [] => false end
    | WAlts atoms false =>
      match toks with t :: r => existsb (fun a => catom_match varid a t) atoms && compiled varid ws r | [] => false end
    | WAlts atoms true =>
      match toks with
      | t :: r => if existsb (fun a => catom_match varid a t) atoms then compiled varid ws r else compiled varid ws toks
      | [] => compiled varid ws []
      end
    | WNot l =>
      match toks with t :: r => negb (str_eqb (t_str t) l) && compiled varid ws r | [] => compiled varid ws [] end
    end
  end.

Inductive res := Rtrue | Rfalse | Rexc | Rfuel | Rcrash.
Definition res_of_bool (b : bool) : res := if b then Rtrue else Rfalse.

(* Token::Match / Token::simpleMatch call sites as the build compiles them (both through
   _compilePattern). Rcrash = matchcompiler.py itself fails on the pattern. *)
Definition compiled_str (varid : N) (s : str) (toks : list tk) : res :=
  match cparse s with
  | Some p => res_of_bool (compiled varid p toks)
  | None => Rcrash
  end.

(* ------------------------------------------------------------------ the interpreter, character level *)
Inductive mres := M1 | M0 | Mneg | Mexc | Mfuel.

Definition at_ (k : nat) (s : str) : N := nth k s 0.

(* multiComparePercent: [hs] starts at the '%'. inl = returned value (<2), inr = 0xFFFF with the
   advanced haystack (just after the '|'). *)
Definition mc_percent (t : tk) (hs : str) (varid : N) : mres + str :=
  let h := tl hs in
  let fin (h' : str) (ok : bool) : mres + str :=
      if ok then inl M1 else match h' with 124 :: r => inr r | _ => inl Mneg end in
  let c0 := at_ 0 h in
  if c0 =? 118 then
    if at_ 3 h =? 37 then fin (skipn 4 h) (negb (t_varid t =? 0))
    else if varid =? 0 then inl Mexc else fin (skipn 6 h) (t_varid t =? varid)
  else if c0 =? 116 then fin (skipn 5 h) (isName t && (t_varid t =? 0))
  else if c0 =? 97 then
    if at_ 3 h =? 37 then inl M1 else fin (skipn 7 h) (isAssignmentOp t)
  else if c0 =? 110 then
    if at_ 4 h =? 37 then fin (skipn 5 h) (isName t) else fin (skipn 4 h) (isNumber t)
  else if c0 =? 99 then
    let h1 := tl h in
    if at_ 0 h1 =? 104 then fin (skipn 4 h1) (t_type t =? eChar)
    else if at_ 1 h1 =? 112 then fin (skipn 3 h1) (isConstOp t)
    else fin (skipn 4 h1) (isComparisonOp t)
  else if c0 =? 115 then fin (skipn 4 h) (t_type t =? eString)
  else if c0 =? 98 then fin (skipn 5 h) (isBoolean t)
  else if c0 =? 111 then
    let h1 := tl h in
    if at_ 1 h1 =? 37 then
      if at_ 0 h1 =? 112 then fin (skipn 2 h1) (isOp t)
      else fin (skipn 2 h1) ((t_type t =? eBitOp) && str_eqb (t_str t) [124])
    else fin (skipn 4 h1) ((t_type t =? eLogicalOp) && str_eqb (t_str t) [124;124])
  else inl Mexc.

(* the inner do-while of multiCompareImpl, entered after the first ++haystack *)
Fixpoint skip_alt (hs : str) : option str :=
  match hs with
  | [] => None
  | c :: r => if c =? 32 then None else if c =? 124 then Some r else skip_alt r
  end.

(* multiCompareImpl: [start] = (needlePointer == needle), [np] = rest of the needle *)
Fixpoint mc (fuel : nat) (t : tk) (varid : N) (start : bool) (np hs : str) : mres :=
  match fuel with
  | O => Mfuel
  | S f =>
    if start && (at_ 0 hs =? 37) && negb (mem_N (at_ 1 hs) [124; 0; 32; 61]) then
      match mc_percent t hs varid with
      | inl r => r
      | inr hs' => mc f t varid true (t_str t) hs'
      end
    else if at_ 0 hs =? 124 then
      match np with
      | [] => M1
      | _ => mc f t varid true (t_str t) (tl hs)
      end
    else if at_ 0 np =? at_ 0 hs then
      match np with
      | [] => M1
      | _ :: np' => mc f t varid false np' (tl hs)
      end
    else if (at_ 0 hs =? 32) || (at_ 0 hs =? 0) then
      if start then M0 else match np with [] => M1 | _ => Mneg end
    else
      match skip_alt (tl hs) with
      | None => Mneg
      | Some hs' => mc f t varid true (t_str t) hs'
      end
  end.

Definition multi_compare (t : tk) (varid : N) (hs : str) : mres :=
  mc (S (length hs)) t varid true (t_str t) hs.

Fixpoint drop_spaces (s : str) : str :=
  match s with 32 :: r => drop_spaces r | _ => s end.
Fixpoint drop_word (s : str) : str :=
  match s with [] => [] | c :: r => if c =? 32 then s else drop_word r end.
Fixpoint first_word (s : str) : str :=
  match s with [] => [] | c :: r => if c =? 32 then [] else c :: first_word r end.

(* the scan of a [..] word: found?, number of ']' seen before stopping *)
Fixpoint set_scan (c : N) (w : str) (count : nat) : bool * nat :=
  match w with
  | [] => (false, count)
  | x :: r => if x =? 93 then set_scan c r (S count)
              else if x =? c then (true, count) else set_scan c r count
  end.

(* Token::firstWordEquals(s, word) *)
Fixpoint fwe (s word : str) : bool :=
  match s, word with
  | [], [] => true
  | c :: _, [] => c =? 32
  | [], _ :: _ => false
  | c :: s', d :: w' => if c =? d then fwe s' w' else false
  end.

(* Token::Match. After a word is accepted the code does p = strchr(p,' '); p has stayed
   inside the current word in every branch, so that is [drop_word] of the word start. *)
Fixpoint ml (fuel : nat) (varid : N) (p0 : str) (toks : list tk) : res :=
  match fuel with
  | O => Rfuel
  | S f =>
    let p := drop_spaces p0 in
    match p with
    | [] => Rtrue
    | _ =>
      let is_not := (at_ 0 p =? 33) && (at_ 1 p =? 33) && negb (at_ 2 p =? 0) in
      let next (toks' : list tk) : res :=
          match drop_word p with [] => Rtrue | p' => ml f varid p' toks' end in
      match toks with
      | [] => if is_not then ml f varid (drop_word p) []
              else if negb (at_ 0 p =? 124) && negb ((at_ 0 p =? 91) && mem_N 93 (first_word p)) &&
                      (last (first_word p) 0 =? 124)
                   then ml f varid (drop_word p) []   (* "a|b|": no token is accepted *)
                   else Rfalse
      | t :: r =>
        if (at_ 0 p =? 91) && mem_N 93 (first_word p) then
          match t_str t with
          | [c] =>
            let '(found, cnt) := set_scan c (tl (first_word p)) 0 in
            if found || ((1 <? N.of_nat cnt) && (c =? 93)) then next r else Rfalse
          | _ => Rfalse
          end
        else if is_not then
          if fwe (skipn 2 p) (t_str t) then Rfalse else next r
        else
          match multi_compare t varid p with
          | M0 => ml f varid (drop_word p) toks
          | Mneg => Rfalse
          | M1 => next r
          | Mexc => Rexc
          | Mfuel => Rfuel
          end
      end
    end
  end.

Definition interp_chars (varid : N) (s : str) (toks : list tk) : res :=
  ml (S (length s)) varid s toks.

(* Token::simpleMatch(tok, pattern, strlen(pattern)) *)
Fixpoint sm (fuel : nat) (cur : str) (toks : list tk) : res :=
  match fuel with
  | O => Rfuel
  | S f =>
    match cur with
    | [] => Rtrue
    | _ =>
      match toks with
      | [] => Rfalse
      | t :: r =>
        if str_eqb (first_word cur) (t_str t) then
          match drop_word cur with
          | [] => Rtrue
          | _ :: cur' => sm f cur' r
          end
        else Rfalse
      end
    end
  end.

Definition simple_chars (s : str) (toks : list tk) : res :=
  match toks with
  | [] => Rfalse
  | _ => sm (S (length s)) s toks
  end.

(* word-level simpleMatch: the pattern is a list of plain words *)
Fixpoint simple (ws : list str) (toks : list tk) : bool :=
  match ws with
  | [] => true
  | w :: ws' => match toks with t :: r => str_eqb (t_str t) w && simple ws' r | [] => false end
  end.

(* findmatch / findsimplematch loops (interpreter: findmatchImpl; compiler:
   _compileFindPattern): first position i < end whose tail matches. [endi] = position of
   the end token in the list (None = nullptr / not in the list). *)
Fixpoint find_from (m : list tk -> bool) (toks : list tk) (endi : option nat) (i : nat) : option nat :=
  match toks with
  | [] => None
  | _ :: r =>
    if (match endi with Some e => Nat.eqb e i | None => false end) then None
    else if m toks then Some i else find_from m r endi (S i)
  end.

(* ------------------------------------------------------------------ parsing as the interpreter reads a word *)
Definition has (c : N) (s : str) : bool := mem_N c s.

Definition wf_lit (l : str) : bool :=
  negb (is_nil l) && negb (has 32 l) && negb (has 124 l) && negb (has 0 l) &&
  (negb (at_ 0 l =? 37) || str_eqb l [37] || str_eqb l [37;61]).

Definition iparse_atom (s : str) : option atom :=
  match find_cmd s with
  | Some c => Some (ACmd c)
  | None => if wf_lit s then Some (ALit s) else None
  end.

Fixpoint split_last {A} (l : list A) : option (list A * A) :=
  match l with
  | [] => None
  | [x] => Some ([], x)
  | x :: r => match split_last r with Some (i, z) => Some (x :: i, z) | None => None end
  end.

(* the fragment of words on which the interpreter's scan has a word-level meaning *)
Definition iparse_word (w : str) : option word :=
  if (at_ 0 w =? 91) && has 93 w then
    if (2 <? N.of_nat (length w)) && (last w 0 =? 93) then Some (WSet (removelast (tl w))) else None
  else if (at_ 0 w =? 33) && (at_ 1 w =? 33) then
    let l := skipn 2 w in
    if negb (is_nil l) && negb (has 124 l) then Some (WNot l) else None
  else
    let alts := split 124 w in
    match split_last alts with
    | None => None
    | Some (init, z) =>
      if is_nil z then
        if is_nil init then None
        else match map_opt iparse_atom init with Some atoms => Some (WAlts atoms true) | None => None end
      else match map_opt iparse_atom alts with Some atoms => Some (WAlts atoms false) | None => None end
    end.

Definition iparse (s : str) : option pat := map_opt iparse_word (words s).

(* ------------------------------------------------------------------ well-formedness *)
Definition uses_varid (p : pat) : bool :=
  existsb (fun w => match w with WAlts atoms _ => existsb (fun a => match a with ACmd Cvarid => true | _ => false end) atoms | _ => false end) p.

(* canonical text of a pattern: words separated by single spaces *)
Definition atom_text (a : atom) : str := match a with ALit l => l | ACmd c => cmd_text c end.
Fixpoint render_alts (atoms : list atom) (opt : bool) : str :=
  match atoms with
  | [] => []
  | [a] => atom_text a ++ (if opt then [124] else [])
  | a :: r => atom_text a ++ 124 :: render_alts r opt
  end.
Definition render_word (w : word) : str :=
  match w with
  | WSet cs => 91 :: cs ++ [93]
  | WNot l => 33 :: 33 :: l
  | WAlts atoms opt => render_alts atoms opt
  end.
Fixpoint render_pat (p : pat) : str :=
  match p with
  | [] => []
  | [w] => render_word w
  | w :: ws => render_word w ++ 32 :: render_pat ws
  end.

Definition wf_atom (a : atom) : bool := match a with ALit l => wf_lit l | ACmd _ => true end.
Definition wf_word (w : word) : bool :=
  match w with
  | WSet cs => negb (is_nil cs) && negb (has 32 cs) && negb (has 0 cs)
  | WNot l => negb (is_nil l) && negb (has 32 l) && negb (has 0 l) && negb (has 124 l)
  | WAlts atoms opt =>
    let r := render_alts atoms opt in
    negb (is_nil atoms) && forallb wf_atom atoms &&
    negb ((at_ 0 r =? 91) && has 93 r) && negb ((at_ 0 r =? 33) && (at_ 1 r =? 33))
  end.

Definition wf_pat (p : pat) : bool := forallb wf_word p.

Definition cmd_eqb (a b : cmd) : bool := str_eqb (cmd_text a) (cmd_text b).
Definition atom_eqb (a b : atom) : bool :=
  match a, b with
  | ALit x, ALit y => str_eqb x y
  | ACmd x, ACmd y => cmd_eqb x y
  | _, _ => false
  end.
Fixpoint list_eqb {A} (e : A -> A -> bool) (x y : list A) : bool :=
  match x, y with
  | [], [] => true
  | a :: x', b :: y' => e a b && list_eqb e x' y'
  | _, _ => false
  end.
Definition word_eqb (a b : word) : bool :=
  match a, b with
  | WSet x, WSet y => str_eqb x y
  | WNot x, WNot y => str_eqb x y
  | WAlts x o, WAlts y o' => list_eqb atom_eqb x y && Bool.eqb o o'
  | _, _ => false
  end.

(* a Token::Match / findmatch pattern literal of the source: the interpreter's and the
   compiler's reading exist and coincide, the words are well formed and the pattern
   is written with single spaces (it is the canonical text of its reading) *)
Definition wf_src (s : str) : bool :=
  match iparse s, cparse s with
  | Some p, Some q => wf_pat p && list_eqb word_eqb p q && str_eqb (render_pat p) s
  | _, _ => false
  end.

(* a Token::simpleMatch / findsimplematch pattern literal: single spaces, at least one word,
   and the compiler reads every word as one plain literal *)
Definition plain_pat (ws : list str) : pat := map (fun w => WAlts [ALit w] false) ws.
Definition wf_simple (s : str) : bool :=
  let ws := split 32 s in
  negb (is_nil ws) && forallb (fun w => negb (is_nil w) && negb (has 32 w)) ws && str_eqb (join [32] ws) s &&
  match cparse s with Some q => list_eqb word_eqb q (plain_pat ws) | None => false end.

(* what the character-level scan needs of a token, relative to the literals of the pattern:
   str() is not empty, has no NUL, does not start with a space and is not of the form
   <literal of the pattern> ' ' <more> *)
Definition pat_lits (p : pat) : list str :=
  List.concat (map (fun w => match w with
                             | WSet _ => []
                             | WNot l => [l]
                             | WAlts atoms _ => List.concat (map (fun a => match a with ALit l => [l] | ACmd _ => [] end) atoms)
                             end) p).
Definition tok_compat (ls : list str) (t : tk) : bool :=
  negb (is_nil (t_str t)) && negb (has 0 (t_str t)) && negb (at_ 0 (t_str t) =? 32) &&
  forallb (fun l => negb (starts_with (l ++ [32]) (t_str t))) ls.

(* ------------------------------------------------------------------ token invariants *)
(* what the equivalence proof needs of a token:
   - str() is not empty;
   - a non-zero varId implies tokType eVariable (the assertion at the end of update_property_info);
   - a token whose str() is a key of the compiler's tokTypes table has one of the tabulated types. *)
Definition tk_inv (t : tk) : bool :=
  negb (is_nil (t_str t)) &&
  ((t_varid t =? 0) || (t_type t =? eVariable)) &&
  match assoc_str (t_str t) tokTypes_table with
  | Some tys => mem_N (t_type t) tys
  | None => true
  end.

(* what the character-level scan needs: a space inside str() comes after a quote character
   (only string and character literals contain spaces) *)
Fixpoint space_after_quote (s : str) : bool :=
  match s with
  | [] => true
  | c :: r => if c =? 32 then false else if (c =? 34) || (c =? 39) then true else space_after_quote r
  end.

(* ------------------------------------------------------------------ Token::update_property_info *)
Definition is_alpha_ (c : N) : bool := is_alpha c || (c =? 95) || (c =? 36).
Definition is_prefix_lit (s : str) (q : N) (p : str) : bool :=
  (N.of_nat (length p) + 2 <=? N.of_nat (length s)) && (last s 0 =? q) &&
  (nth (length p) s 0 =? q) && starts_with p s.
Definition is_strchar_lit (s : str) (q : N) : bool :=
  negb (is_nil s) && (last s 0 =? q) &&
  existsb (is_prefix_lit s q) [[]; [117;56]; [117]; [85]; [76]].
Definition is_number_like (s : str) : bool :=
  is_digit (nth 0 s 0) ||
  ((1 <? N.of_nat (length s)) && ((nth 0 s 0 =? 45) || (nth 0 s 0 =? 43)) && is_digit (nth 1 s 0)).
Definition is_std_type (s : str) : bool :=
  (3 <=? N.of_nat (length s)) && (N.of_nat (length s) <=? 7) && existsb (str_eqb s) std_types.

(* tokType after update_property_info as a function of str, varId != 0, link != nullptr,
   mList.isKeyword(str), mIsCpp and (isInt||isFloat)&&no '_' for number-like strings.
   None = InternalError (varid on a bool literal in C++). *)
Definition upd_ttype (s : str) (varid_nz link iskw cpp numok : bool) : option N :=
  if is_nil s then Some eNone
  else if str_eqb s [116;114;117;101] || str_eqb s [102;97;108;115;101] then
    if varid_nz then (if cpp then None else Some eVariable) else Some eBoolean
  else if is_strchar_lit s 34 then Some eString
  else if is_strchar_lit s 39 then Some eChar
  else if is_alpha_ (nth 0 s 0) then
    if varid_nz then Some eVariable
    else if iskw then Some (if is_std_type s then eType else eKeyword)
    else if str_eqb s [97;115;109] then Some eKeyword
    else Some (if is_std_type s then eType else eName)
  else if is_number_like s then Some (if numok then eNumber else eLiteral)
  else Some (upd_op s link).
