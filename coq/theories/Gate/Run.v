(* Entry point of the extracted executable for C27 *)
From CV Require Import Base.Bytes Addon.Defs Gate.Defs Gate.Gen_Severities.
Local Open Scope N_scope.

Definition BAD : list str := [[66]].
Definition tag_is (t name : str) : bool := str_eqb t name.

Definition nth_bit (mask : str) (n : nat) : bool :=
  match nth_error mask n with Some c => c =? 49 | None => false end.
Definition sev_index (s : sev) : nat :=
  match s with
  | SNone => 0 | SError => 1 | SWarning => 2 | SStyle => 3 | SPerformance => 4
  | SPortability => 5 | SInformation => 6 | SDebug => 7 | SInternal => 8
  end.
Definition opts_of (mask inc : str) : opts := mkOpts (fun s => nth_bit mask (sev_index s)) (bool_of_str inc).

Definition severities_of (id : str) : list sev :=
  flat_map (fun e => if str_eqb (fst (fst e)) id then [snd (fst e)] else []) listed.

Fixpoint nodup_sev (l : list sev) : list sev :=
  match l with
  | [] => []
  | x :: r => if existsb (sev_eqb x) r then nodup_sev r else x :: nodup_sev r
  end.

(* tags:
   "isenabled" mask inc cond defarg vinc check   -> Settings::isEnabled(value, check)
   "gate"      mask inc severity inconclusive     -> gate on a candidate without value flags
   "idsev"     id                                 -> distinct severities --errorlist gives the id
   "count"                                        -> number of listed messages *)
Definition run (fields : list str) : list str :=
  match fields with
  | [] => BAD
  | tag :: args =>
      if tag_is tag [105;115;101;110;97;98;108;101;100] then
        match args with
        | [mask; inc; c; d; vi; chk] =>
            [str_of_bool (is_enabled_value (opts_of mask inc) (mkV (bool_of_str c) (bool_of_str d) (bool_of_str vi)) (bool_of_str chk))]
        | _ => BAD
        end
      else if tag_is tag [103;97;116;101] then
        match args with
        | [mask; inc; sv; ci] =>
            [str_of_bool (gate (opts_of mask inc) (mkCand (sev_of_string sv) (bool_of_str ci) None []))]
        | _ => BAD
        end
      else if tag_is tag [105;100;115;101;118] then
        match args with
        | [i] => map string_of_sev (nodup_sev (severities_of i))
        | _ => BAD
        end
      else if tag_is tag [99;111;117;110;116] then [dec_of_N (N.of_nat (length listed))]
      else BAD
  end.
