From CV Require Import Base.Bytes Addon.Defs Gate.Defs.
Local Open Scope N_scope.

Lemma with_error_mono a b s :
  (forall s, a s = true -> b s = true) -> with_error a s = true -> with_error b s = true.
Proof. intros H. destruct s; cbn; auto. Qed.

(* soundness: what passes the gate has an enabled severity (error always is) and is inconclusive
   only when inconclusive findings are enabled; condition/default-argument based value findings
   need `warning` *)
Theorem gate_sound o c :
  gate o c = true ->
  (c_sev c = SError \/ sev_on o (c_sev c) = true)
  /\ (c_inconclusive c = true -> inconclusive_on o = true)
  /\ (forall v, c_value c = Some v ->
        ((v_condition v = true \/ v_defaultArg v = true) -> sev_on o SWarning = true)
        /\ (v_inconclusive v = true -> inconclusive_on o = true)).
Proof.
  unfold gate. intros H. apply andb_true_iff in H. destruct H as [H Hv].
  apply andb_true_iff in H. destruct H as [Hs Hi]. split; [|split].
  - destruct (c_sev c); cbn in Hs; auto.
  - intros E. rewrite E in Hi. cbn in Hi. exact Hi.
  - intros v E. rewrite E in Hv. unfold is_enabled_value in Hv.
    destruct (sev_on o SWarning) eqn:W; cbn [negb andb] in Hv.
    + split; [auto|]. intros I.
      destruct (inconclusive_on o); [reflexivity|]. cbn [negb andb] in Hv.
      rewrite I, orb_true_r in Hv. discriminate.
    + destruct (v_condition v || v_defaultArg v) eqn:CD; [discriminate|].
      apply orb_false_iff in CD. destruct CD as [C D]. split.
      * intros [X|X]; congruence.
      * intros I. destruct (inconclusive_on o); [reflexivity|]. cbn [negb andb] in Hv.
        rewrite I, orb_true_r in Hv. discriminate.
Qed.

Lemma is_enabled_value_mono a b v i :
  opts_le a b -> is_enabled_value a v i = true -> is_enabled_value b v i = true.
Proof.
  intros [Hs Hi]. unfold is_enabled_value.
  destruct (sev_on a SWarning) eqn:Wa; cbn [negb andb].
  - rewrite (Hs _ Wa). cbn [negb andb].
    destruct (inconclusive_on a) eqn:Ia; cbn [negb andb].
    + rewrite (Hi eq_refl). reflexivity.
    + destruct (i || v_inconclusive v); [discriminate|]. intros _. destruct (inconclusive_on b); reflexivity.
  - destruct (v_condition v || v_defaultArg v) eqn:CD; [discriminate|].
    rewrite andb_false_r.
    destruct (inconclusive_on a) eqn:Ia; cbn [negb andb].
    + rewrite (Hi eq_refl). reflexivity.
    + destruct (i || v_inconclusive v); [discriminate|]. intros _. rewrite andb_false_r. reflexivity.
Qed.

(* monotone: enabling more never closes the gate *)
Theorem gate_monotone a b c : opts_le a b -> gate a c = true -> gate b c = true.
Proof.
  intros L H. pose proof L as [Hs Hi]. unfold gate in *.
  apply andb_true_iff in H. destruct H as [H Hv]. apply andb_true_iff in H. destruct H as [H1 H2].
  apply andb_true_iff. split; [apply andb_true_iff; split|].
  - exact (with_error_mono _ _ _ Hs H1).
  - destruct (c_inconclusive c); cbn in *; auto.
  - destruct (c_value c) as [v|]; [|reflexivity]. exact (is_enabled_value_mono _ _ _ _ L Hv).
Qed.

(* sub-multiset with identical rendering: report S is a sublist of report S' (same elements, same
   order, the candidates themselves -- text included -- untouched) *)
Inductive sublist {A} : list A -> list A -> Prop :=
| sub_nil : sublist [] []
| sub_skip x l l' : sublist l l' -> sublist l (x :: l')
| sub_keep x l l' : sublist l l' -> sublist (x :: l) (x :: l').

Theorem report_monotone a b cands : opts_le a b -> sublist (report a cands) (report b cands).
Proof.
  intros L. unfold report. induction cands as [|c r IH]; cbn [filter]; [constructor|].
  destruct (gate a c) eqn:Ga.
  - rewrite (gate_monotone _ _ _ L Ga). apply sub_keep. exact IH.
  - destruct (gate b c); [apply sub_skip|]; exact IH.
Qed.

Lemma sublist_count {A} (p : A -> bool) l l' : sublist l l' -> (length (filter p l) <= length (filter p l'))%nat.
Proof. induction 1; cbn [filter]; try destruct (p x); cbn [length]; lia. Qed.

(* hence, as multisets: every candidate occurs in report S' at least as often as in report S *)
Theorem report_submultiset a b cands (p : cand -> bool) :
  opts_le a b -> (length (filter p (report a cands)) <= length (filter p (report b cands)))%nat.
Proof. intros L. apply sublist_count. exact (report_monotone a b cands L). Qed.

Lemma opts_le_all a : opts_le a opts_all.
Proof. split; intros; reflexivity. Qed.

Lemma filter_filter_implies {A} (p q : A -> bool) l :
  (forall x, p x = true -> q x = true) -> filter p (filter q l) = filter p l.
Proof.
  intros H. induction l as [|x r IH]; cbn [filter]; [reflexivity|].
  destruct (q x) eqn:Q; cbn [filter].
  - destruct (p x); rewrite IH; reflexivity.
  - destruct (p x) eqn:P; [rewrite (H _ P) in Q; discriminate|exact IH].
Qed.

(* the report under S is the gate of S applied to the report with everything enabled *)
Theorem report_is_filter_of_all o cands : report o cands = filter (gate o) (report opts_all cands).
Proof.
  unfold report. symmetry. apply filter_filter_implies.
  intros c H. exact (gate_monotone _ _ _ (opts_le_all o) H).
Qed.

Theorem report_sound o cands c : In c (report o cands) -> In c cands /\ gate o c = true.
Proof. unfold report. intros H. apply filter_In in H. exact H. Qed.
