(* C27  Severity and certainty options gate findings monotonically.
   Model of the gate: lib/settings.cpp Settings::isEnabled(const ValueFlow::Value*, bool), the
   per-check `mSettings->severity.isEnabled(sev)` / `certainty.isEnabled(inconclusive)` guards and
   the shape `report S = filter (gate S) candidates`.  Executable definitions only. *)
From CV Require Import Base.Bytes Addon.Defs.
Local Open Scope N_scope.

(* an option set: enabled severities (SimpleEnableGroup<Severity>) and the inconclusive certainty *)
Record opts := mkOpts { sev_on : sev -> bool; inconclusive_on : bool }.

(* Settings::addEnabled / applyEnabled keep `error` enabled ("FIXME: hack to make sure...") *)
Definition with_error (f : sev -> bool) : sev -> bool :=
  fun s => match s with SError => true | _ => f s end.

(* value-flow based candidates carry the flags Settings::isEnabled(value, inconclusive) reads *)
Record vflags := mkV { v_condition : bool; v_defaultArg : bool; v_inconclusive : bool }.

(* Settings::isEnabled(const ValueFlow::Value *value, bool inconclusiveCheck) *)
Definition is_enabled_value (o : opts) (v : vflags) (inconclusiveCheck : bool) : bool :=
  if negb (sev_on o SWarning) && (v_condition v || v_defaultArg v) then false
  else if negb (inconclusive_on o) && (inconclusiveCheck || v_inconclusive v) then false
  else true.

(* a candidate finding: the severity and certainty it is rendered with, optional value flags, and
   its rendered text (never inspected by the gate) *)
Record cand := mkCand { c_sev : sev; c_inconclusive : bool; c_value : option vflags; c_text : str }.

Definition gate (o : opts) (c : cand) : bool :=
  with_error (sev_on o) (c_sev c)
  && (negb (c_inconclusive c) || inconclusive_on o)
  && match c_value c with
     | None => true
     | Some v => is_enabled_value o v (c_inconclusive c)
     end.

Definition report (o : opts) (cands : list cand) : list cand := filter (gate o) cands.

(* S is included in S' *)
Definition opts_le (a b : opts) : Prop :=
  (forall s, sev_on a s = true -> sev_on b s = true) /\ (inconclusive_on a = true -> inconclusive_on b = true).

(* everything on *)
Definition opts_all : opts := mkOpts (fun _ => true) true.
