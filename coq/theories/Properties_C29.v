(* C29  Output is deterministic across runs.
   Statements only; every proof is `exact <lemma>`.
   (i)   the analysed file list does not depend on the order in which directories are enumerated
         (C31's model of FileLister, Path/Defs.v; the enumeration order is the tree parameter);
   (ii)  canon_ids (Det/Defs.v), the comparator of dump files used by the check, identifies exactly
         the documents that are equal up to an injective renaming of element ids;
   (iii) several jobs: every arrival order of the same worker streams forwards the same multiset
         of rendered findings (C15's model of Executor::hasToLog, Par/Defs.v). *)
From CV Require Import Base.Bytes Base.Glob Supp.Defs Path.Defs Path.ListProofs Par.Defs Par.MergeProofs Det.Defs Det.Proofs.
From Coq Require Import Permutation.

(* (i) perm_tree: the same directory tree with the entries of every directory permuted *)
Theorem C29_file_order_independent ign acc path t1 t2 :
  perm_tree t1 t2 -> list_files ign acc path t1 = list_files ign acc path t2.
Proof. exact (list_files_order_independent ign acc path t1 t2). Qed.
Print Assumptions C29_file_order_independent.

(* (ii) renaming the ids by any map that is injective on the ids that occur does not change the
   canonical form ... *)
Theorem C29_canon_ids_invariant rho d :
  (forall a b, In a (ids d) -> In b (ids d) -> rho a = rho b -> a = b) ->
  canon_ids (rename rho d) = canon_ids d.
Proof. exact (canon_ids_invariant rho d). Qed.
Print Assumptions C29_canon_ids_invariant.

(* ... the canonical form is itself such a renaming of the document ... *)
Theorem C29_canon_ids_is_rename d :
  exists sigma, (forall a b, In a (ids d) -> In b (ids d) -> sigma a = sigma b -> a = b)
                /\ canon_ids d = rename sigma d.
Proof. exact (canon_ids_is_rename d). Qed.
Print Assumptions C29_canon_ids_is_rename.

(* ... and two documents with the same canonical form differ by an injective renaming only: comparing
   canonical forms is exactly "identical up to renaming of element ids" *)
Theorem C29_canon_ids_complete d d' :
  canon_ids d = canon_ids d' ->
  exists rho, (forall a b, In a (ids d) -> In b (ids d) -> rho a = rho b -> a = b) /\ d' = rename rho d.
Proof. exact (canon_ids_complete d d'). Qed.
Print Assumptions C29_canon_ids_complete.

(* the boolean comparison the extracted executable answers with is equality of documents *)
Theorem C29_doc_eqb_eq a b : doc_eqb a b = true <-> a = b.
Proof. exact (doc_eqb_eq a b). Qed.
Print Assumptions C29_doc_eqb_eq.

(* (iii) text output of a multi-job run, any two interleavings of the workers' findings *)
Theorem C29_multijob_multiset pm ed (streams : list (list pmsg)) r1 r2 st s1 out1 :
  interleave streams r1 -> interleave streams r2 ->
  log_run pm ed st r1 = Some (s1, out1) ->
  exists s2 out2, log_run pm ed st r2 = Some (s2, out2) /\ h_nomsg s1 = h_nomsg s2
                  /\ Permutation (map (fun m => (p_internal m, p_text m)) (filter (fun m => negb (p_internal m)) out1))
                                 (map (fun m => (p_internal m, p_text m)) (filter (fun m => negb (p_internal m)) out2)).
Proof. exact (merge_texts pm ed streams r1 r2 st s1 out1). Qed.
Print Assumptions C29_multijob_multiset.

(* premises inhabited / non-vacuity *)
Local Open Scope N_scope.
Example C29_canon_example :
  canon_ids [I 500; T [97]; I 7; I 500] = [I 0; T [97]; I 1; I 0]
  /\ canon_ids [I 9; T [97]; I 3; I 9] = [I 0; T [97]; I 1; I 0]
  /\ canon_ids [I 9; T [97]; I 3; I 3] <> canon_ids [I 9; T [97]; I 3; I 9].
Proof. vm_compute. repeat split; try reflexivity. discriminate. Qed.
