(* C22  Whole-program results do not depend on how summaries are stored.
   Model: Ctu/Defs.v.  `nm` = the element names used by writers and readers (regenerated from
   lib/ctu.cpp into Ctu/Gen_Names.v); nm_ok nm = each writer's name is its reader's name and the two
   call readers are distinct.  C22_current_* instantiate the theorems with the regenerated names:
   C22_current_names_ok stops checking when a writer and its reader diverge again. *)
From CV Require Import Base.Bytes Ctu.Defs Ctu.XmlProofs Ctu.RoundTrip Ctu.PathProofs Ctu.Witness Ctu.Gen_Names Ctu.Current.
Require Import Permutation.
Local Open Scope N_scope.

(* --- ErrorLogger::toxml then tinyxml2 decoding, for EVERY byte string: succeeds, result is `lossy s` *)
Theorem C22_toxml_decode : forall s, decode (toxml s) = Some (lossy s).
Proof. exact decode_toxml. Qed.

(* ... and nothing is lost exactly on TAB, LF, CR and 0x20..0x7f *)
Theorem C22_toxml_lossless_iff : forall s, lossy s = s <-> safe_str s = true.
Proof. intro s. split; [apply lossy_fixed_safe|apply lossy_safe]. Qed.

(* --- summaries come back unchanged (full statement: any names with writer = reader) *)
Theorem C22_ctu_roundtrip : forall nm c, nm_ok nm -> safe_ctu c = true -> load_ctu nm (ctu_to_xml nm c) = c.
Proof. exact ctu_roundtrip. Qed.

Theorem C22_unsafe_usage_roundtrip : forall nm l, n_uu_w nm = n_uu_r nm -> forallb safe_uu l = true ->
    load_uus nm (uus_to_xml nm l) = l.
Proof. exact uus_roundtrip. Qed.

Theorem C22_bufferoverrun_roundtrip : forall nm a p, n_uu_w nm = n_uu_r nm ->
    forallb safe_uu a = true -> forallb safe_uu p = true -> load_buf nm (buf_to_xml nm a p) = (a, p).
Proof. exact buf_roundtrip. Qed.

Theorem C22_odr_roundtrip : forall l, forallb safe_nl l = true -> load_odr (map nl_to_xml l) = l.
Proof. exact odr_roundtrip. Qed.

Theorem C22_unusedfn_roundtrip : forall src u, safe_ui u = true -> load_unused src (unused_to_xml u) = u.
Proof. exact unused_roundtrip. Qed.

(* --- the property on the model: findings from stored-and-reloaded summaries = findings from the summaries *)
Theorem C22_wp_storage_independent : forall nm depth warn l, nm_ok nm -> forallb safe_fsum l = true ->
    whole_program depth warn (map (fun s => load nm (store nm s)) l) = whole_program depth warn l.
Proof. exact wp_storage_independent. Qed.

(* --- the code that exists: the names regenerated from lib/ctu.cpp satisfy nm_ok, unconditionally *)
Theorem C22_current_names_ok : nm_ok gen_names.
Proof. exact current_names_ok. Qed.

Theorem C22_current_ctu_roundtrip : forall c, safe_ctu c = true -> load_ctu gen_names (ctu_to_xml gen_names c) = c.
Proof. exact current_ctu_roundtrip. Qed.

Theorem C22_current_wp_storage_independent : forall depth warn l, forallb safe_fsum l = true ->
    whole_program depth warn (map (fun s => load gen_names (store gen_names s)) l) = whole_program depth warn l.
Proof. exact current_wp_storage_independent. Qed.

(* --- a file analysed under several preprocessor configurations: one block per configuration and check is stored,
   every block comes back, and the findings are those of all configurations together *)
Theorem C22_ctu_blocks_roundtrip : forall nm cs, nm_ok nm -> forallb safe_ctu cs = true ->
    load_ctu_blocks nm (map (ctu_to_xml nm) cs) = ctu_merge cs.
Proof. exact ctu_blocks_roundtrip. Qed.

Theorem C22_current_wp_storage_independent_multicfg : forall depth warn (files : list (list fsum)),
    forallb (forallb safe_fsum) files = true ->
    whole_program depth warn (concat (map (fun cfgs => load_file gen_names (store_file gen_names cfgs)) files))
    = whole_program depth warn (concat files).
Proof. exact current_wp_storage_independent_multicfg. Qed.

(* --- ids / argument names are written through toxml (fix cf4f724): for EVERY byte string the attribute is well
   formed, and on the lossless domain (double quote and ampersand included) it is read back unchanged *)
Theorem C22_current_ids_escaped : ids_escb gen_names = true.
Proof. exact current_ids_escaped. Qed.

Theorem C22_current_id_wellformed : forall s,
    raw_ok (wr (e_callid gen_names) s) = true /\ raw_ok (wr (e_ncmyid gen_names) s) = true /\
    raw_ok (wr (e_uumyid gen_names) s) = true /\ raw_ok (wr (e_uuarg gen_names) s) = true.
Proof. exact current_id_wellformed. Qed.

Theorem C22_current_id_roundtrip : forall s, safe_str s = true ->
    dec (wr (e_callid gen_names) s) = s /\ dec (wr (e_ncmyid gen_names) s) = s /\
    dec (wr (e_uumyid gen_names) s) = s /\ dec (wr (e_uuarg gen_names) s) = s.
Proof. exact current_id_roundtrip. Qed.

(* --- the names of the code before fix 7d88646 (NestedCall written as <function-call>): exactly the nested calls are lost *)
Theorem C22_ctu_roundtrip_nonnested_partial : forall nm c, nm_nested_as_fc nm -> forallb safe_fc (c_fcs c) = true ->
    load_ctu nm (ctu_to_xml nm c) = mkCtu (c_fcs c) [].
Proof. exact ctu_roundtrip_drops_nested. Qed.

Theorem C22_old_names_ctu_roundtrip_refuted :
  exists c, safe_ctu c = true /\ load_ctu names_unfixed (ctu_to_xml names_unfixed c) <> c.
Proof. exists w_ctu. split; [reflexivity|vm_compute; discriminate]. Qed.

Theorem C22_old_names_wp_storage_refuted :
  exists l, forallb safe_fsum l = true /\
            whole_program 2 true (map (fun s => load names_unfixed (store names_unfixed s)) l) = [] /\
            length (whole_program 2 true l) = 1%nat.
Proof. exists w_files. split; [reflexivity|split; vm_compute; reflexivity]. Qed.

(* --- the path search is bounded reachability in the call summaries *)
Theorem C22_find_path_reach : forall d c acc id argnr,
    find_path d c acc id argnr <> None <-> reach c acc d id argnr.
Proof. exact find_path_reach. Qed.

Theorem C22_find_path_chain : forall d c acc id argnr p,
    find_path d c acc id argnr = Some p -> chain c acc id argnr p /\ (1 <= length p <= d)%nat.
Proof. exact find_path_chain. Qed.

(* --- order of the per-file summaries: which unsafe usages get a path is invariant (the path chosen is not) *)
Theorem C22_wp_perm_partial : forall l l' iv u pre post w d, Permutation l l' ->
    (get_error_path iv u (merged_ctu l) pre post w d <> None <-> get_error_path iv u (merged_ctu l') pre post w d <> None).
Proof. exact get_error_path_perm. Qed.

Print Assumptions C22_toxml_decode.
Print Assumptions C22_toxml_lossless_iff.
Print Assumptions C22_ctu_roundtrip.
Print Assumptions C22_unsafe_usage_roundtrip.
Print Assumptions C22_bufferoverrun_roundtrip.
Print Assumptions C22_odr_roundtrip.
Print Assumptions C22_unusedfn_roundtrip.
Print Assumptions C22_wp_storage_independent.
Print Assumptions C22_current_names_ok.
Print Assumptions C22_current_ctu_roundtrip.
Print Assumptions C22_current_wp_storage_independent.
Print Assumptions C22_ctu_blocks_roundtrip.
Print Assumptions C22_current_wp_storage_independent_multicfg.
Print Assumptions C22_current_ids_escaped.
Print Assumptions C22_current_id_wellformed.
Print Assumptions C22_current_id_roundtrip.
Print Assumptions C22_ctu_roundtrip_nonnested_partial.
Print Assumptions C22_old_names_ctu_roundtrip_refuted.
Print Assumptions C22_old_names_wp_storage_refuted.
Print Assumptions C22_find_path_reach.
Print Assumptions C22_find_path_chain.
Print Assumptions C22_wp_perm_partial.

(* --- the premises are inhabited *)
Example nm_ok_inhabited : nm_ok names_fixed.
Proof. exact names_fixed_ok. Qed.
Example nested_as_fc_inhabited : nm_nested_as_fc names_unfixed.
Proof. exact names_unfixed_nested_as_fc. Qed.
Example safe_ctu_inhabited : safe_ctu w_ctu = true.
Proof. reflexivity. Qed.
Example safe_fsum_inhabited : forallb safe_fsum w_files = true.
Proof. reflexivity. Qed.
(* with the repaired names the witness keeps its finding *)
Example witness_fixed : length (whole_program 2 true (map (fun s => load names_fixed (store names_fixed s)) w_files)) = 1%nat.
Proof. vm_compute. reflexivity. Qed.
Example reach_inhabited : reach (merged_ctu w_files) (fc_accepts INull false 0) 2 w_id_g 1.
Proof.
  eapply reach_nc with (n := w_nc); [vm_compute; tauto|reflexivity|reflexivity|].
  eapply reach_fc with (f := w_fc); [vm_compute; tauto|reflexivity|reflexivity|reflexivity].
Qed.
(* before cf4f724 a double quote in an id broke the attribute *)
Example old_id_not_wellformed : raw_ok (wr (e_callid names_unfixed) [104;34;120;46;104]) = false.
Proof. reflexivity. Qed.
Example safe_str_with_quote : safe_str [104;34;120;46;104;38] = true.
Proof. reflexivity. Qed.
Example multicfg_inhabited : forallb (forallb safe_fsum) [w_files; w_files] = true.
Proof. reflexivity. Qed.
Example permutation_inhabited : Permutation w_files (rev w_files).
Proof. apply Permutation_rev. Qed.
(* why C22_wp_perm_partial is not stated for the findings themselves: the first matching call wins *)
Example path_depends_on_order :
  let f2 := mkFC w_id_g 1 [103] (mkLoc w_a 9 1) [48] 0 0 0 false [] in
  let s1 := mkFS w_a (mkCtu [w_fc; f2] []) [] [] [] [] [] in
  let s2 := mkFS w_b (mkCtu [mkFC w_id_g 1 [103] (mkLoc w_b 7 1) [48] 0 0 0 false []] []) [] [] [] [] [] in
  find_path 2 (merged_ctu [s1; s2]) (fc_accepts INull false 0) w_id_g 1 <>
  find_path 2 (merged_ctu [s2; s1]) (fc_accepts INull false 0) w_id_g 1.
Proof. vm_compute. discriminate. Qed.
