(* Entry point of the extracted executable for C35. *)
From CV Require Import Base.Bytes Clang.Defs.
Local Open Scope N_scope.

Definition BAD : list str := [[66]].
Definition nd (s : str) : N := match N_of_dec s with Some z => z | None => 0 end.
Definition str_of_on (o : option N) : str := match o with Some n => dec_of_N n | None => [] end.

(* ops as triples: kind ("V" "F" "E" "S" "R"), address, token *)
Fixpoint take_cops (l : list str) : option (list cop) :=
  match l with
  | [] => Some []
  | k :: a :: t :: r =>
      match take_cops r with
      | Some ops =>
          match k with
          | [86] => Some (CVar (nd a) (nd t) :: ops)
          | [70] => Some (CFunc (nd a) (nd t) :: ops)
          | [69] => Some (CEnum (nd a) (nd t) :: ops)
          | [83] => Some (CScope (nd a) :: ops)
          | [82] => Some (CRef (nd a) (nd t) :: ops)
          | _ => None
          end
      | None => None
      end
  | _ => None
  end.

Definition tok_out (s : cst) (i : N) : list str :=
  let ti := c_tok s i in
  [dec_of_N (ti_varid ti); str_of_on (ti_var ti); str_of_on (ti_func ti); str_of_on (ti_enum ti)].

Definition pending_count (s : cst) : N :=
  N.of_nat (length (flat_map snd (c_pending s))).

(* tag "decl": n, ops -> per token varId var func enum, then mVarId and the number of waiting tokens *)
Definition run (fields : list str) : list str :=
  match fields with
  | tag :: n :: r =>
      if str_eqb tag [100;101;99;108] then
        match take_cops r with
        | Some ops =>
            let s := run_cops ops in
            flat_map (tok_out s) (map N.of_nat (seq 0 (N.to_nat (nd n))))
              ++ [dec_of_N (c_vid s); dec_of_N (pending_count s)]
        | None => BAD
        end
      else BAD
  | _ => BAD
  end.
