(* clangimport::Data over whole op sequences: with a fresh token per op (as the import creates
   them) every reference ends bound to the first declaration of its address, wherever that
   declaration stands, or is still waiting when there is none (C35 refs_resolved). *)
From CV Require Import Base.Bytes Clang.Defs Clang.Proofs.
Require Import Lia ZifyBool.
Local Open Scope N_scope.

Definition tok_of (o : cop) : list N :=
  match o with CVar _ d | CFunc _ d | CEnum _ d => [d] | CScope _ => [] | CRef _ t => [t] end.
(* every op has its own token *)
Definition fresh (ops : list cop) : Prop := NoDup (flat_map tok_of ops).

Definition pend (a t : N) (s : cst) : Prop := exists toks, lookup a (c_pending s) = Some toks /\ In t toks.

(* ---- frames: which tokens a step can write *)
Lemma apply_ref_other d f t x : x <> t -> apply_ref d f t x = f x.
Proof. intros H. destruct d; cbn; unfold set_tok; try reflexivity; replace (x =? t) with false by lia; reflexivity. Qed.

Lemma do_ref_other a t s x : x <> t -> c_tok (do_ref a t s) x = c_tok s x.
Proof. intros H. unfold do_ref. destruct (lookup a (c_decls s)); cbn; [apply apply_ref_other; exact H | reflexivity]. Qed.

Lemma fold_ref_other a x : forall toks s, ~ In x toks ->
  c_tok (fold_left (fun st t => do_ref a t st) toks s) x = c_tok s x.
Proof.
  induction toks as [|t r IH]; intros s H; cbn; [reflexivity|].
  rewrite IH by (intros Hin; apply H; right; exact Hin). apply do_ref_other. intros ->. apply H. left. reflexivity.
Qed.

Lemma flush_other a s x : (forall toks, lookup a (c_pending s) = Some toks -> ~ In x toks) ->
  c_tok (flush a s) x = c_tok s x.
Proof.
  intros H. unfold flush. destruct (lookup a (c_pending s)) as [toks|] eqn:E; [|reflexivity].
  cbn. apply fold_ref_other. apply H. reflexivity.
Qed.

Definition addr_of (o : cop) : N :=
  match o with CVar a _ | CFunc a _ | CEnum a _ | CScope a | CRef a _ => a end.

Lemma step_other s o x :
  ~ In x (tok_of o) -> (forall toks, lookup (addr_of o) (c_pending s) = Some toks -> ~ In x toks) ->
  c_tok (step s o) x = c_tok s x.
Proof.
  intros Hx Hp. destruct o as [a d|a d|a d|a|a t]; cbn [step addr_of tok_of] in *.
  - unfold do_var. rewrite flush_other by exact Hp. cbn. unfold set_tok. replace (x =? d) with false; [reflexivity|]. symmetry. apply N.eqb_neq. intros ->. apply Hx. left. reflexivity.
  - unfold do_func. rewrite flush_other by exact Hp. cbn. unfold set_tok. replace (x =? d) with false; [reflexivity|]. symmetry. apply N.eqb_neq. intros ->. apply Hx. left. reflexivity.
  - unfold do_enum. rewrite flush_other by exact Hp. cbn. unfold set_tok. replace (x =? d) with false; [reflexivity|]. symmetry. apply N.eqb_neq. intros ->. apply Hx. left. reflexivity.
  - reflexivity.
  - apply do_ref_other. intros ->. apply Hx. left. reflexivity.
Qed.

(* bound depends on the token and, for a variable, on the name token only *)
Lemma bound_agree d f g t :
  g t = f t -> (forall v, d = DVar v -> g v = f v) -> bound d f t -> bound d g t.
Proof.
  intros Ht Hv. destruct d as [v|fn|e|]; cbn; rewrite ?Ht; try tauto.
  rewrite (Hv v eq_refl). tauto.
Qed.

(* ---- the waiting lists after a step *)
Lemma lookup_remove_key_other {A} a a' (l : list (N * A)) : a' <> a -> lookup a' (remove_key a l) = lookup a' l.
Proof.
  intros H. induction l as [|[k v] l IH]; cbn; [reflexivity|].
  destruct (k =? a) eqn:E.
  - rewrite IH. replace (k =? a') with false by lia. reflexivity.
  - cbn. rewrite IH. reflexivity.
Qed.

Lemma flush_pending a s d a' :
  lookup a (c_decls s) = Some d ->
  lookup a' (c_pending (flush a s)) = if a' =? a then None else lookup a' (c_pending s).
Proof.
  intros Hd. unfold flush. destruct (lookup a (c_pending s)) as [toks|] eqn:E.
  - cbn. destruct (fold_ref_bound a d toks s Hd) as (_ & _ & C0). cbn zeta in C0. rewrite C0.
    destruct (a' =? a) eqn:Ea.
    + apply N.eqb_eq in Ea. subst. apply lookup_remove_key.
    + apply lookup_remove_key_other. lia.
  - destruct (a' =? a) eqn:Ea; [|reflexivity]. apply N.eqb_eq in Ea. subst. exact E.
Qed.

Lemma emplace_some a d l : exists d', lookup a (emplace a d l) = Some d'.
Proof. rewrite lookup_emplace, N.eqb_refl. destruct (lookup a l); eauto. Qed.

(* a step never invents a waiting token: they come from the old lists or are the step's own reference *)
Lemma step_pending s o a' toks :
  lookup a' (c_pending (step s o)) = Some toks ->
  forall t, In t toks ->
    (exists toks0, lookup a' (c_pending s) = Some toks0 /\ In t toks0) \/ o = CRef a' t.
Proof.
  destruct o as [a d|a d|a d|a|a t0]; cbn [step].
  - unfold do_var. destruct (emplace_some a (DVar d) (c_decls s)) as [d' Hd'].
    rewrite (flush_pending a _ d' a') by exact Hd'. cbn. destruct (a' =? a); [discriminate|]. eauto.
  - unfold do_func. destruct (emplace_some a (DFunc d) (c_decls s)) as [d' Hd'].
    rewrite (flush_pending a _ d' a') by exact Hd'. cbn. destruct (a' =? a); [discriminate|]. eauto.
  - unfold do_enum. destruct (emplace_some a (DEnum d) (c_decls s)) as [d' Hd'].
    rewrite (flush_pending a _ d' a') by exact Hd'. cbn. destruct (a' =? a); [discriminate|]. eauto.
  - cbn. eauto.
  - unfold do_ref. destruct (lookup a (c_decls s)); cbn; [eauto|].
    destruct (a =? a') eqn:Ea.
    + apply N.eqb_eq in Ea. subst a'. intros [= <-] t Hin. apply in_app_or in Hin. destruct Hin as [Hin|[<-|[]]].
      * left. destruct (lookup a (c_pending s)) as [l|]; [eauto | contradiction].
      * right. reflexivity.
    + rewrite lookup_remove_key_other by lia. eauto.
Qed.

(* a waiting token keeps waiting unless the step declares its address *)
Lemma step_keeps_pending s o a t :
  pend a t s -> (forall d, decl_of o = Some (a, d) -> d = DScope) -> pend a t (step s o).
Proof.
  intros (toks & Hl & Hin) Hnd. unfold pend.
  destruct o as [a0 d|a0 d|a0 d|a0|a0 t0]; cbn [step decl_of] in *.
  - assert (a0 <> a) by (intros ->; specialize (Hnd _ eq_refl); discriminate).
    unfold do_var. destruct (emplace_some a0 (DVar d) (c_decls s)) as [d' Hd'].
    rewrite (flush_pending a0 _ d' a) by exact Hd'. cbn. replace (a =? a0) with false by lia. eauto.
  - assert (a0 <> a) by (intros ->; specialize (Hnd _ eq_refl); discriminate).
    unfold do_func. destruct (emplace_some a0 (DFunc d) (c_decls s)) as [d' Hd'].
    rewrite (flush_pending a0 _ d' a) by exact Hd'. cbn. replace (a =? a0) with false by lia. eauto.
  - assert (a0 <> a) by (intros ->; specialize (Hnd _ eq_refl); discriminate).
    unfold do_enum. destruct (emplace_some a0 (DEnum d) (c_decls s)) as [d' Hd'].
    rewrite (flush_pending a0 _ d' a) by exact Hd'. cbn. replace (a =? a0) with false by lia. eauto.
  - cbn. eauto.
  - unfold do_ref. destruct (lookup a0 (c_decls s)); cbn; [eauto|].
    destruct (a0 =? a) eqn:Ea.
    + apply N.eqb_eq in Ea. subst a0. rewrite Hl. eexists. split; [reflexivity|]. apply in_or_app. left. exact Hin.
    + rewrite lookup_remove_key_other by lia. eauto.
Qed.

Lemma nodup_app_inv {A} (l1 l2 : list A) :
  NoDup (l1 ++ l2) -> NoDup l1 /\ NoDup l2 /\ forall x, In x l1 -> ~ In x l2.
Proof.
  induction l1 as [|a l1 IH]; cbn; intros H.
  - split; [constructor|]. split; [exact H | tauto].
  - inversion H as [|? ? Hn Hnd]; subst. destruct (IH Hnd) as (A1 & A2 & A3).
    split; [constructor; [intros Hin; apply Hn; apply in_or_app; left; exact Hin | exact A1]|].
    split; [exact A2|]. intros x [<-|Hx]; [intros Hin; apply Hn; apply in_or_app; right; exact Hin | apply A3; exact Hx].
Qed.

(* ---- first_decl and freshness on ops ++ [o] *)
Lemma first_decl_app a ops o :
  first_decl a (ops ++ [o]) =
  match first_decl a ops with
  | Some d => Some d
  | None => match decl_of o with Some (a', d) => if a' =? a then Some d else None | None => None end
  end.
Proof.
  induction ops as [|x r IH]; cbn.
  - destruct (decl_of o) as [[a' d]|]; [destruct (a' =? a)|]; reflexivity.
  - destruct (decl_of x) as [[a' d]|]; [destruct (a' =? a); [reflexivity|]|]; exact IH.
Qed.

Lemma fresh_app ops o : fresh (ops ++ [o]) ->
  fresh ops /\ forall x o', In o' ops -> In x (tok_of o') -> ~ In x (tok_of o).
Proof.
  unfold fresh. rewrite flat_map_app. cbn. rewrite app_nil_r. intros H.
  destruct (nodup_app_inv _ _ H) as (A1 & _ & A3). split; [exact A1|].
  intros x o' Hin Hx. apply A3. apply in_flat_map. eauto.
Qed.

Lemma fresh_tok_unique ops : fresh ops ->
  forall o1 o2 x, In o1 ops -> In o2 ops -> In x (tok_of o1) -> In x (tok_of o2) -> o1 = o2.
Proof.
  unfold fresh. induction ops as [|o r IH]; intros H o1 o2 x H1 H2 X1 X2; [contradiction|].
  cbn in H. destruct (nodup_app_inv _ _ H) as (_ & Hr & Hsep0).
  assert (Hsep : forall y o', In o' r -> In y (tok_of o') -> ~ In y (tok_of o)).
  { intros y o' Hin Hy Hyo. apply (Hsep0 y Hyo). apply in_flat_map. eauto. }
  destruct H1 as [<-|H1], H2 as [<-|H2].
  - reflexivity.
  - exfalso. eapply Hsep; eauto.
  - exfalso. eapply Hsep; eauto.
  - eapply IH; eauto.
Qed.

Lemma first_decl_in a ops d : first_decl a ops = Some d -> exists o, In o ops /\ decl_of o = Some (a, d).
Proof.
  induction ops as [|x r IH]; cbn; [discriminate|].
  destruct (decl_of x) as [[a' d']|] eqn:E.
  - destruct (a' =? a) eqn:Ea.
    + intros [= <-]. apply N.eqb_eq in Ea. subst. exists x. split; [left; reflexivity | exact E].
    + intros H. destruct (IH H) as (o & Hin & Ho). exists o. split; [right; exact Hin | exact Ho].
  - intros H. destruct (IH H) as (o & Hin & Ho). exists o. split; [right; exact Hin | exact Ho].
Qed.

Lemma dk_eq_scope d : d = DScope \/ d <> DScope.
Proof. destruct d; [right | right | right | left]; congruence. Qed.

(* ---- the invariant over a sequence *)
Definition resolved (ops : list cop) (s : cst) : Prop :=
  (forall a t, In (CRef a t) ops ->
     match first_decl a ops with
     | Some d => bound d (c_tok s) t
     | None => pend a t s
     end) /\
  (forall a toks, lookup a (c_pending s) = Some toks -> forall t, In t toks -> In (CRef a t) ops).

Lemma resolved_step ops o :
  fresh (ops ++ [o]) -> resolved ops (run_cops ops) -> resolved (ops ++ [o]) (run_cops (ops ++ [o])).
Proof.
  intros Hf [J1 J2]. destruct (fresh_app ops o Hf) as [Hfo Hsep].
  assert (Hrun : run_cops (ops ++ [o]) = step (run_cops ops) o) by (unfold run_cops; rewrite fold_left_app; reflexivity).
  rewrite Hrun. set (s := run_cops ops) in *.
  assert (Hdec : forall a, lookup a (c_decls s) = first_decl a ops) by (intros a; apply decl_first_wins).
  assert (J2' : forall a toks, lookup a (c_pending (step s o)) = Some toks -> forall t, In t toks -> In (CRef a t) (ops ++ [o])).
  { intros a toks Hl t Hin. destruct (step_pending s o a toks Hl t Hin) as [(toks0 & Hl0 & Hin0)| ->].
    - apply in_or_app. left. eapply J2; eauto.
    - apply in_or_app. right. left. reflexivity. }
  split; [|exact J2'].
  intros a t Hin. rewrite first_decl_app. apply in_app_or in Hin. destruct Hin as [Hin|[Ho|[]]].
  - (* an earlier reference *)
    specialize (J1 a t Hin).
    assert (Htno : ~ In t (tok_of o)) by (apply (Hsep t (CRef a t) Hin); left; reflexivity).
    destruct (first_decl a ops) as [d|] eqn:Efd.
    + (* already declared: the step leaves t and the name token alone, or rebinds t to the same declaration *)
      destruct (lookup (addr_of o) (c_pending s)) as [toks|] eqn:Ep.
      * destruct (in_dec N.eq_dec t toks) as [Hint|Hnot].
        { (* t waits for the address of o: only in the scope-declared case; then o's address is a *)
          pose proof (J2 _ _ Ep t Hint) as Hr.
          assert (Ea : CRef (addr_of o) t = CRef a t) by (eapply (fresh_tok_unique ops Hfo); eauto; left; reflexivity).
          injection Ea as Ea.
          destruct (decl_of o) as [[a0 d0]|] eqn:Edo.
          - destruct (dk_eq_scope d0) as [->|Hns].
            + (* a scope declaration: no token changes *)
              destruct o; cbn in Edo; try discriminate. cbn [step]. exact J1.
            + assert (a0 = a) by (destruct o; cbn in Edo, Ea; congruence). subst a0.
              destruct (decl_step_resolves_waiting s o a d0 toks Edo Hns) as (d' & Hd' & _ & Hb & _).
              { rewrite <- Ea. exact Ep. }
              assert (d' = d).
              { rewrite step_decls, Edo, lookup_emplace, Hdec, Efd in Hd'. congruence. }
              subst d'. apply Hb. exact Hint.
          - (* o is a reference *)
            destruct o as [| | | |a0 t0]; cbn in Edo; try discriminate. cbn [step].
            eapply bound_agree; [| |exact J1].
            + apply do_ref_other. intros ->. apply Htno. left. reflexivity.
            + intros v ->. apply do_ref_other. intros ->.
              destruct (first_decl_in _ _ _ Efd) as (ov & Hov & Hdv).
              assert (ov = CRef a0 t0 -> False) by (intros ->; discriminate).
              apply (Hsep t0 ov Hov); [destruct ov; cbn in Hdv; try discriminate; injection Hdv as _ <-; left; reflexivity | left; reflexivity]. }
        { eapply bound_agree; [| |exact J1].
          - apply step_other; [exact Htno|]. intros toks' E'. rewrite Ep in E'. injection E' as <-. exact Hnot.
          - intros v ->. destruct (first_decl_in _ _ _ Efd) as (ov & Hov & Hdv).
            assert (Hvt : In v (tok_of ov)) by (destruct ov; cbn in Hdv; try discriminate; injection Hdv as _ <-; left; reflexivity).
            apply step_other.
            + apply (Hsep v ov Hov Hvt).
            + intros toks' E' Hv. rewrite Ep in E'. injection E' as <-.
              pose proof (J2 _ _ Ep v Hv) as Hr.
              assert (ov = CRef (addr_of o) v) by (eapply (fresh_tok_unique ops Hfo); eauto; left; reflexivity).
              subst ov. discriminate. }
      * eapply bound_agree; [| |exact J1].
        { apply step_other; [exact Htno|]. intros toks' E'. rewrite Ep in E'. discriminate. }
        { intros v ->. destruct (first_decl_in _ _ _ Efd) as (ov & Hov & Hdv).
          assert (Hvt : In v (tok_of ov)) by (destruct ov; cbn in Hdv; try discriminate; injection Hdv as _ <-; left; reflexivity).
          apply step_other; [apply (Hsep v ov Hov Hvt)|]. intros toks' E'. rewrite Ep in E'. discriminate. }
    + (* not declared so far: t waits *)
      destruct (decl_of o) as [[a0 d0]|] eqn:Edo.
      * destruct (a0 =? a) eqn:Ea.
        { apply N.eqb_eq in Ea. subst a0. destruct (dk_eq_scope d0) as [->|Hns]; [exact I|].
          destruct J1 as (toks & Hl & Hint).
          destruct (decl_step_resolves_waiting s o a d0 toks Edo Hns Hl) as (d' & Hd' & Hfirst & Hb & _).
          rewrite (Hfirst (eq_trans (Hdec a) Efd)) in Hb. apply Hb. exact Hint. }
        { apply step_keeps_pending; [exact J1|]. intros d Hd. rewrite Edo in Hd. injection Hd as -> _. lia. }
      * apply step_keeps_pending; [exact J1|]. intros d Hd. rewrite Edo in Hd. discriminate.
  - (* the step is this reference *)
    subst o. cbn [decl_of]. destruct (first_decl a ops) as [d|] eqn:Efd.
    + cbn [step]. apply ref_after_decl. rewrite Hdec. exact Efd.
    + cbn [step]. destruct (ref_before_decl a t s (eq_trans (Hdec a) Efd)) as [Hp _]. exact Hp.
Qed.

Lemma resolved_run : forall ops, fresh ops -> resolved ops (run_cops ops).
Proof.
  intros ops. induction ops as [|o ops IH] using rev_ind; intros Hf.
  - split; [intros a t []|]. intros a toks H. discriminate.
  - apply resolved_step; [exact Hf|]. apply IH. apply (fresh_app ops o Hf).
Qed.

(* refs_resolved: for every op sequence with a fresh token per op and every reference in it,
   at the end the reference carries the FIRST declaration of its address - whether that
   declaration stands before or after the reference - and is still waiting when the address is
   never declared *)
Theorem refs_resolved ops a t :
  fresh ops -> In (CRef a t) ops ->
  match first_decl a ops with
  | Some d => bound d (c_tok (run_cops ops)) t
  | None => pend a t (run_cops ops)
  end.
Proof. intros Hf Hin. exact (proj1 (resolved_run ops Hf) a t Hin). Qed.
