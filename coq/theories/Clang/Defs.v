(* C35  Clang-AST import: the declaration map of lib/clangimport.cpp (clangimport::Data).

   Code modelled:
     Data::mDeclMap (std::map, emplace = first declaration of an address wins)  -> c_decls / lookup / emplace
     Data::mNotFound (references seen before their declaration)                 -> c_pending
     Data::enumDecl / funcDecl / scopeDecl / varDecl (++mVarId)                 -> do_enum / do_func / do_scope / do_var
     Data::ref, Decl::ref, Data::notFound                                       -> do_ref / apply_ref / flush
   Tokens are positions (N); an Enumerator / Function / Variable is named by its name token.
   Not modelled: the reconstruction of the token list from the AST (the AstNode::createTokens family),
   types, scopes.  No proofs in this file. *)
From CV Require Import Base.Bytes.
Local Open Scope N_scope.

(* Data::Decl *)
Inductive dk := DVar (def : N) | DFunc (def : N) | DEnum (def : N) | DScope.

Inductive cop :=
| CVar (a d : N)     (* varDecl(addr, def, var) *)
| CFunc (a d : N)    (* funcDecl(addr, nameToken, function) *)
| CEnum (a d : N)    (* enumDecl(addr, nameToken, enumerator) *)
| CScope (a : N)     (* scopeDecl(addr, scope) *)
| CRef (a t : N).    (* ref(addr, tok) *)

(* what the import writes on a token *)
Record tokinfo := mkTI { ti_varid : N; ti_var : option N; ti_func : option N; ti_enum : option N }.
Definition ti_none : tokinfo := mkTI 0 None None None.

Record cst := mkC {
  c_decls : list (N * dk);          (* insertion order; an address occurs at most once *)
  c_pending : list (N * list N);    (* mNotFound: address -> tokens, in push order *)
  c_tok : N -> tokinfo;
  c_vid : N                         (* mVarId *)
}.
Definition c_init : cst := mkC [] [] (fun _ => ti_none) 0.

Fixpoint lookup {A} (a : N) (l : list (N * A)) : option A :=
  match l with
  | [] => None
  | (k, v) :: r => if k =? a then Some v else lookup a r
  end.
Fixpoint remove_key {A} (a : N) (l : list (N * A)) : list (N * A) :=
  match l with
  | [] => []
  | (k, v) :: r => if k =? a then remove_key a r else (k, v) :: remove_key a r
  end.

(* std::map::emplace: no effect when the key exists *)
Definition emplace (a : N) (d : dk) (l : list (N * dk)) : list (N * dk) :=
  match lookup a l with Some _ => l | None => l ++ [(a, d)] end.

Definition set_tok (f : N -> tokinfo) (t : N) (v : tokinfo) : N -> tokinfo :=
  fun x => if x =? t then v else f x.

(* Decl::ref(tok) *)
Definition apply_ref (d : dk) (f : N -> tokinfo) (t : N) : N -> tokinfo :=
  match d with
  | DEnum e => set_tok f t (mkTI (ti_varid (f t)) (ti_var (f t)) (ti_func (f t)) (Some e))
  | DFunc g => set_tok f t (mkTI (ti_varid (f t)) (ti_var (f t)) (Some g) (ti_enum (f t)))
  | DVar v => set_tok f t (mkTI (ti_varid (f v)) (Some v) (ti_func (f t)) (ti_enum (f t)))   (* var->declarationId() = varId of its name token *)
  | DScope => f
  end.

(* Data::ref(addr, tok) *)
Definition do_ref (a t : N) (s : cst) : cst :=
  match lookup a (c_decls s) with
  | Some d => mkC (c_decls s) (c_pending s) (apply_ref d (c_tok s) t) (c_vid s)
  | None =>
      let old := match lookup a (c_pending s) with Some l => l | None => [] end in
      mkC (c_decls s) ((a, old ++ [t]) :: remove_key a (c_pending s)) (c_tok s) (c_vid s)
  end.

(* Data::notFound(addr): re-run ref for the waiting tokens, then forget them *)
Definition flush (a : N) (s : cst) : cst :=
  match lookup a (c_pending s) with
  | Some toks =>
      let s' := fold_left (fun st t => do_ref a t st) toks s in
      mkC (c_decls s') (remove_key a (c_pending s')) (c_tok s') (c_vid s')
  | None => s
  end.

Definition do_enum (a d : N) (s : cst) : cst :=
  let f := c_tok s in
  flush a (mkC (emplace a (DEnum d) (c_decls s)) (c_pending s)
               (set_tok f d (mkTI (ti_varid (f d)) (ti_var (f d)) (ti_func (f d)) (Some d))) (c_vid s)).
Definition do_func (a d : N) (s : cst) : cst :=
  let f := c_tok s in
  flush a (mkC (emplace a (DFunc d) (c_decls s)) (c_pending s)
               (set_tok f d (mkTI (ti_varid (f d)) (ti_var (f d)) (Some d) (ti_enum (f d)))) (c_vid s)).
Definition do_scope (a : N) (s : cst) : cst :=
  mkC (emplace a DScope (c_decls s)) (c_pending s) (c_tok s) (c_vid s).
Definition do_var (a d : N) (s : cst) : cst :=
  let f := c_tok s in
  let id := c_vid s + 1 in
  flush a (mkC (emplace a (DVar d) (c_decls s)) (c_pending s)
               (set_tok f d (mkTI id (Some d) (ti_func (f d)) (ti_enum (f d)))) id).

Definition step (s : cst) (o : cop) : cst :=
  match o with
  | CVar a d => do_var a d s
  | CFunc a d => do_func a d s
  | CEnum a d => do_enum a d s
  | CScope a => do_scope a s
  | CRef a t => do_ref a t s
  end.
Definition run_cops (ops : list cop) : cst := fold_left step ops c_init.
