(* clangimport::Data: the declaration map keeps the first declaration of an address, references
   bind to it whether they come before or after it, mVarId counts the variable declarations. *)
From CV Require Import Base.Bytes Clang.Defs.
Require Import Lia ZifyBool.
Local Open Scope N_scope.

(* the declaration an op registers *)
Definition decl_of (o : cop) : option (N * dk) :=
  match o with
  | CVar a d => Some (a, DVar d) | CFunc a d => Some (a, DFunc d) | CEnum a d => Some (a, DEnum d)
  | CScope a => Some (a, DScope) | CRef _ _ => None
  end.

(* the first declaration of address a in the sequence *)
Fixpoint first_decl (a : N) (ops : list cop) : option dk :=
  match ops with
  | [] => None
  | o :: r => match decl_of o with
              | Some (a', d) => if a' =? a then Some d else first_decl a r
              | None => first_decl a r
              end
  end.

Fixpoint count_vars (ops : list cop) : N :=
  match ops with
  | [] => 0
  | CVar _ _ :: r => 1 + count_vars r
  | _ :: r => count_vars r
  end.

Lemma lookup_app {A} a (l1 l2 : list (N * A)) :
  lookup a (l1 ++ l2) = match lookup a l1 with Some v => Some v | None => lookup a l2 end.
Proof. induction l1 as [|[k v] l1 IH]; cbn; [reflexivity|]. destruct (k =? a); [reflexivity | exact IH]. Qed.

Lemma lookup_emplace a a' d l :
  lookup a (emplace a' d l) =
  match lookup a l with Some v => Some v | None => if a' =? a then Some d else None end.
Proof.
  unfold emplace. destruct (lookup a' l) eqn:E.
  - destruct (lookup a l) eqn:E2; [reflexivity|]. destruct (a' =? a) eqn:Ea; [|reflexivity].
    apply N.eqb_eq in Ea. subst. congruence.
  - rewrite lookup_app. cbn. destruct (lookup a l); [reflexivity|]. destruct (a' =? a); reflexivity.
Qed.

(* ---- do_ref and flush leave the declarations and the counter alone *)
Lemma do_ref_decls a t s : c_decls (do_ref a t s) = c_decls s /\ c_vid (do_ref a t s) = c_vid s.
Proof. unfold do_ref. destruct (lookup a (c_decls s)); split; reflexivity. Qed.

Lemma fold_ref_decls a : forall toks s,
  c_decls (fold_left (fun st t => do_ref a t st) toks s) = c_decls s /\
  c_vid (fold_left (fun st t => do_ref a t st) toks s) = c_vid s.
Proof.
  induction toks as [|t r IH]; intros s; cbn; [split; reflexivity|].
  destruct (IH (do_ref a t s)) as [A B]. destruct (do_ref_decls a t s) as [C D]. split; congruence.
Qed.

Lemma flush_decls a s : c_decls (flush a s) = c_decls s /\ c_vid (flush a s) = c_vid s.
Proof.
  unfold flush. destruct (lookup a (c_pending s)) as [toks|]; [|split; reflexivity].
  cbn. apply fold_ref_decls.
Qed.

Lemma step_decls s o :
  c_decls (step s o) = match decl_of o with Some (a, d) => emplace a d (c_decls s) | None => c_decls s end.
Proof.
  destruct o as [a d|a d|a d|a|a t]; cbn [step decl_of].
  - unfold do_var. rewrite (proj1 (flush_decls _ _)). reflexivity.
  - unfold do_func. rewrite (proj1 (flush_decls _ _)). reflexivity.
  - unfold do_enum. rewrite (proj1 (flush_decls _ _)). reflexivity.
  - reflexivity.
  - apply do_ref_decls.
Qed.

Lemma run_decls : forall ops s a,
  lookup a (c_decls (fold_left step ops s)) =
  match lookup a (c_decls s) with Some v => Some v | None => first_decl a ops end.
Proof.
  induction ops as [|o r IH]; intros s a; cbn [fold_left first_decl].
  - destruct (lookup a (c_decls s)); reflexivity.
  - rewrite IH, step_decls. destruct (decl_of o) as [[a' d]|].
    + rewrite lookup_emplace. destruct (lookup a (c_decls s)); [reflexivity|].
      destruct (a' =? a); reflexivity.
    + reflexivity.
Qed.

(* the map holds, for every address, its first declaration in the sequence (emplace never overwrites) *)
Theorem decl_first_wins ops a : lookup a (c_decls (run_cops ops)) = first_decl a ops.
Proof. unfold run_cops. rewrite run_decls. reflexivity. Qed.

Lemma step_vid s o : c_vid (step s o) = match o with CVar _ _ => c_vid s + 1 | _ => c_vid s end.
Proof.
  destruct o as [a d|a d|a d|a|a t]; cbn [step].
  - unfold do_var. rewrite (proj2 (flush_decls _ _)). reflexivity.
  - unfold do_func. rewrite (proj2 (flush_decls _ _)). reflexivity.
  - unfold do_enum. rewrite (proj2 (flush_decls _ _)). reflexivity.
  - reflexivity.
  - apply do_ref_decls.
Qed.

Lemma run_vid : forall ops s, c_vid (fold_left step ops s) = c_vid s + count_vars ops.
Proof.
  induction ops as [|o r IH]; intros s; cbn [fold_left count_vars]; [lia|].
  rewrite IH, step_vid. destruct o; lia.
Qed.

Theorem varid_counter ops : c_vid (run_cops ops) = count_vars ops.
Proof. unfold run_cops. rewrite run_vid. reflexivity. Qed.

(* ---- binding *)
(* token t carries declaration d *)
Definition bound (d : dk) (f : N -> tokinfo) (t : N) : Prop :=
  match d with
  | DVar v => ti_var (f t) = Some v /\ ti_varid (f t) = ti_varid (f v)
  | DFunc g => ti_func (f t) = Some g
  | DEnum e => ti_enum (f t) = Some e
  | DScope => True
  end.

Lemma apply_ref_bound d f t : bound d (apply_ref d f t) t.
Proof.
  destruct d as [v|g|e|]; cbn; unfold set_tok; rewrite ?N.eqb_refl; cbn; try tauto.
  split; [reflexivity|]. destruct (v =? t); reflexivity.
Qed.

Lemma apply_ref_keeps d f t t' : bound d f t' -> bound d (apply_ref d f t) t'.
Proof.
  destruct d as [v|g|e|]; cbn; unfold set_tok; try tauto.
  - intros [A B]. destruct (t' =? t) eqn:E; cbn.
    + split; [reflexivity|]. destruct (v =? t); reflexivity.
    + split; [exact A|]. rewrite B. destruct (v =? t); reflexivity.
  - intros A. destruct (t' =? t); cbn; [reflexivity | exact A].
  - intros A. destruct (t' =? t); cbn; [reflexivity | exact A].
Qed.

(* a reference to a declared address binds to the declaration in the map *)
Theorem ref_after_decl a t s d :
  lookup a (c_decls s) = Some d ->
  bound d (c_tok (do_ref a t s)) t /\ c_pending (do_ref a t s) = c_pending s.
Proof. intros H. unfold do_ref. rewrite H. cbn. split; [apply apply_ref_bound | reflexivity]. Qed.

(* a reference to an address that is not declared yet waits in mNotFound and changes no token *)
Theorem ref_before_decl a t s :
  lookup a (c_decls s) = None ->
  (exists toks, lookup a (c_pending (do_ref a t s)) = Some toks /\ In t toks) /\
  c_tok (do_ref a t s) = c_tok s.
Proof.
  intros H. unfold do_ref. rewrite H. cbn. rewrite N.eqb_refl. split; [|reflexivity].
  eexists. split; [reflexivity|]. apply in_or_app. right. left. reflexivity.
Qed.

Lemma fold_ref_bound a d : forall toks s,
  lookup a (c_decls s) = Some d ->
  let s' := fold_left (fun st t => do_ref a t st) toks s in
  (forall t, In t toks -> bound d (c_tok s') t) /\
  (forall t, bound d (c_tok s) t -> bound d (c_tok s') t) /\
  c_pending s' = c_pending s.
Proof.
  induction toks as [|t r IH]; intros s H; cbn [fold_left].
  - cbn. split; [tauto|]. split; [tauto | reflexivity].
  - assert (H1 : lookup a (c_decls (do_ref a t s)) = Some d) by (rewrite (proj1 (do_ref_decls a t s)); exact H).
    destruct (IH (do_ref a t s) H1) as (A & B & C0). cbn zeta in *.
    destruct (ref_after_decl a t s d H) as [Bt Pt].
    split; [|split].
    + intros t' [<-|Hin]; [apply B; exact Bt | apply A; exact Hin].
    + intros t' Hb. apply B. unfold do_ref. rewrite H. cbn. apply apply_ref_keeps. exact Hb.
    + rewrite C0. exact Pt.
Qed.

Lemma lookup_remove_key {A} a (l : list (N * A)) : lookup a (remove_key a l) = None.
Proof. induction l as [|[k v] l IH]; cbn; [reflexivity|]. destruct (k =? a) eqn:E; [exact IH|]. cbn. rewrite E. exact IH. Qed.

(* notFound(addr): every waiting reference of the address is bound to the declaration the map
   holds for it (the first one), and nothing waits for that address afterwards *)
Theorem flush_binds a s d toks :
  lookup a (c_decls s) = Some d -> lookup a (c_pending s) = Some toks ->
  (forall t, In t toks -> bound d (c_tok (flush a s)) t) /\
  (forall t, bound d (c_tok s) t -> bound d (c_tok (flush a s)) t) /\
  lookup a (c_pending (flush a s)) = None.
Proof.
  intros Hd Hp. unfold flush. rewrite Hp. cbn [c_tok c_pending].
  destruct (fold_ref_bound a d toks s Hd) as (A & B & C0). cbn zeta in *.
  split; [exact A|]. split; [exact B|]. apply lookup_remove_key.
Qed.

(* a declaration step: afterwards the map has a declaration for the address, and all references
   that were waiting for it carry that declaration *)
Theorem decl_step_resolves_waiting s o a d0 toks :
  decl_of o = Some (a, d0) -> d0 <> DScope ->
  lookup a (c_pending s) = Some toks ->
  exists d, lookup a (c_decls (step s o)) = Some d /\
            (lookup a (c_decls s) = None -> d = d0) /\
            (forall t, In t toks -> bound d (c_tok (step s o)) t) /\
            lookup a (c_pending (step s o)) = None.
Proof.
  intros Ho Hns Hp.
  assert (Hl : exists d, lookup a (emplace a d0 (c_decls s)) = Some d /\ (lookup a (c_decls s) = None -> d = d0)).
  { rewrite lookup_emplace, N.eqb_refl. destruct (lookup a (c_decls s)) as [d|]; eauto. exists d; split; [reflexivity | discriminate]. }
  destruct Hl as (d & Hl & Hfirst). exists d.
  destruct o as [a' d'|a' d'|a' d'|a'|a' t']; cbn in Ho; try discriminate; injection Ho as -> <-; cbn [step].
  - unfold do_var. set (s1 := mkC _ _ _ _).
    destruct (flush_binds a s1 d toks Hl Hp) as (A & _ & C0).
    split; [rewrite (proj1 (flush_decls a s1)); exact Hl|]. split; [exact Hfirst|]. split; [exact A | exact C0].
  - unfold do_func. set (s1 := mkC _ _ _ _).
    destruct (flush_binds a s1 d toks Hl Hp) as (A & _ & C0).
    split; [rewrite (proj1 (flush_decls a s1)); exact Hl|]. split; [exact Hfirst|]. split; [exact A | exact C0].
  - unfold do_enum. set (s1 := mkC _ _ _ _).
    destruct (flush_binds a s1 d toks Hl Hp) as (A & _ & C0).
    split; [rewrite (proj1 (flush_decls a s1)); exact Hl|]. split; [exact Hfirst|]. split; [exact A | exact C0].
  - congruence.
Qed.

(* varDecl gives the name token the next id (when that token is not itself a waiting reference) *)
Theorem var_decl_id s a d :
  lookup a (c_pending s) = None -> ti_varid (c_tok (do_var a d s) d) = c_vid s + 1.
Proof.
  intros H. unfold do_var, flush. cbn [c_pending]. rewrite H. cbn. unfold set_tok. rewrite N.eqb_refl. reflexivity.
Qed.
