(* C18  Incremental analysis is transparent across edit histories.
   Statements only; every proof is `exact <lemma>`. *)
From CV Require Import Base.Bytes Cache.Defs Cache.Proofs Cache.DecProofs Cache.Gen_KeyFields Cache.KeyProofs.
Local Open Scope N_scope.

(* Any history of edits (add, remove, rename, touch, modify; sources and headers
   alike, they are all files of the file system) and runs sharing one build dir:
   every run reports exactly what a run without a build dir reports on the
   current files, PROVIDED
   - faithful_key: equal key data implies equal analysis results,
   - H (std::hash) does not collide on the key data D that occur in the history,
   - in every run each source file finds its own cache file (lookup_okb). *)
Theorem C18_cache_transparent_under_faithful_key
  (opts msg summ content : Type) (lm : lookup_mode) (H : str -> N) (keydata : opts -> ustate -> str)
  (analyze : opts -> ustate -> list msg * summ) (is_internal : msg -> bool)
  (wp : opts -> list (str * summ) -> list msg) (view : opts -> fsys content -> str -> ustate)
  (D : str -> Prop) :
  (forall a b, D a -> D b -> H a = H b -> a = b) ->
  (forall o u o' u', keydata o u = keydata o' u' -> analyze o u = analyze o' u') ->
  forall h fs,
    Forall D (keys_of opts content keydata view h fs) -> runs_ok opts content lm h = true ->
    exec opts msg summ content lm H keydata analyze is_internal wp view h fs [] =
    exec_fresh opts msg summ content analyze wp view h fs.
Proof.
  intros Hc Hf h fs. exact (cache_transparent_from_empty opts msg summ content lm H keydata analyze is_internal wp view D Hc Hf h fs).
Qed.
Print Assumptions C18_cache_transparent_under_faithful_key.

(* ---- positive obligations on the key of the CURRENT source (Gen_KeyFields.v is
   regenerated from /repo on every run; each of these breaks if the repair is undone) *)

(* locations are hashed in full: ' ' line ':' col '\n' in decimal (fix c6c15b8) *)
Theorem C18_loc_enc_is_full : loc_enc = LocDec.
Proof. reflexivity. Qed.
Print Assumptions C18_loc_enc_is_full.

(* the decimal location record, followed by anything, determines line, column and the rest *)
Theorem C18_location_record_injective l c r l' c' r' :
  enc_loc loc_enc l c ++ r = enc_loc loc_enc l' c' ++ r' -> l = l' /\ c = c' /\ r = r'.
Proof. exact (enc_loc_dec_inj l c r l' c' r'). Qed.
Print Assumptions C18_location_record_injective.

(* faithful_key for locations: two units with the same token texts and the same hash
   data have the same locations - no move by any number of lines or columns is invisible *)
Theorem C18_locations_reach_the_key hp ti p ts ts' :
  map text ts = map text ts' ->
  hashdata loc_enc hp ti (mkU p ts []) = hashdata loc_enc hp ti (mkU p ts' []) -> ts = ts'.
Proof. exact (hashdata_dec_locations hp ti p ts ts'). Qed.
Print Assumptions C18_locations_reach_the_key.

(* the same as a status for either encoding the translator can emit (LocChar: a
   256-line / 256-column move is invisible; LocDec: the statement above) *)
Theorem C18_key_location_status : loc_status loc_enc.
Proof. exact (loc_status_all loc_enc). Qed.
Print Assumptions C18_key_location_status.

(* files.txt: an exact match wins (fix f7cef37), so every listed file finds the line
   written for it - for every list of distinct files *)
Theorem C18_lookup_is_exact_first : lookup_mode_ = ExactThenSuffix.
Proof. reflexivity. Qed.
Print Assumptions C18_lookup_is_exact_first.

Theorem C18_each_file_finds_its_own_line files :
  NoDup files ->
  map (lookup_af lookup_mode_ (files_txt files)) files = map fst (files_txt files).
Proof. exact (exact_lookup_own_line files). Qed.
Print Assumptions C18_each_file_finds_its_own_line.

(* paths reach the key (fix 0208336) *)
Theorem C18_source_path_is_streamed : mem_field F_filePath key_fields = true.
Proof. vm_compute. reflexivity. Qed.
Print Assumptions C18_source_path_is_streamed.

(* two units that differ at most in the path they were given (same options, tokens,
   headers) and have the same key data have the same path: a renamed or moved source
   file never reuses the entry of the old path *)
Theorem C18_source_path_reaches_the_key o p q ts hs :
  code_keydata o (mkU p ts hs) = code_keydata o (mkU q ts hs) -> p = q.
Proof. exact (code_keydata_path_visible o p q ts hs). Qed.
Print Assumptions C18_source_path_reaches_the_key.

Theorem C18_header_paths_are_hashed : hdr_path_in_key = true.
Proof. reflexivity. Qed.
Print Assumptions C18_header_paths_are_hashed.

(* the same header text found under another path gives other hash data *)
Theorem C18_header_path_reaches_the_key ti p ts hp hq hts hs :
  hashdata loc_enc hdr_path_in_key ti (mkU p ts ((hp, hts) :: hs)) =
  hashdata loc_enc hdr_path_in_key ti (mkU p ts ((hq, hts) :: hs)) -> hp = hq.
Proof. exact (hashdata_hdrpath_visible loc_enc ti p ts hp hq hts hs). Qed.
Print Assumptions C18_header_path_reaches_the_key.

(* what an omitted path means (the state before 0208336): invisible to the key *)
Theorem C18_omitted_paths_are_invisible e ti p q ts hp hq hts hs :
  hashdata e false ti (mkU p ts ((hp, hts) :: hs)) = hashdata e false ti (mkU q ts ((hq, hts) :: hs)).
Proof. exact (hashdata_hdrpath_blind e ti q ts hp hq hts hs). Qed.
Print Assumptions C18_omitted_paths_are_invisible.

(* why the fix was needed: under the former endsWith-first lookup x.c and d/x.c share x.a1,
   under the current one they do not *)
Theorem C18_suffix_first_lookup_clashes :
  exists files, NoDup files /\ lookup_okb SuffixFirst files = false /\
    lookup_af SuffixFirst (files_txt files) (nth 0 files []) = lookup_af SuffixFirst (files_txt files) (nth 1 files []).
Proof.
  exists [[120;46;99]; [100;47;120;46;99]].
  split; [repeat constructor; cbn; intuition discriminate|]. split; vm_compute; reflexivity.
Qed.
Print Assumptions C18_suffix_first_lookup_clashes.

(* non-vacuity: the premises are inhabited *)
Example C18_lookup_ok_example : lookup_okb lookup_mode_ [[120;46;99]; [100;47;120;46;99]; [105;111;46;99]; [115;116;100;105;111;46;99]] = true.
Proof. vm_compute. reflexivity. Qed.
Example C18_premises_inhabited :
  exists (H : str -> N) (keydata : unit -> ustate -> str) (analyze : unit -> ustate -> list N * N) (D : str -> Prop),
    (forall a b, D a -> D b -> H a = H b -> a = b) /\
    (forall o u o' u', keydata o u = keydata o' u' -> analyze o u = analyze o' u').
Proof.
  exists (fun s => N.of_nat (length s)), (fun _ u => u_path u), (fun _ u => (u_path u, 0)), (fun s => s = []).
  split; [intros a b -> ->; reflexivity | intros o u o' u' E; now rewrite E].
Qed.
