(* C18  Incremental analysis is transparent across edit histories.
   Statements only; every proof is `exact <lemma>`. *)
From CV Require Import Base.Bytes Cache.Defs Cache.Proofs Cache.Gen_KeyFields Cache.KeyProofs.
Local Open Scope N_scope.

(* Any history of edits (add, remove, rename, touch, modify; sources and headers
   alike, they are all files of the file system) and runs sharing one build dir:
   every run reports exactly what a run without a build dir reports on the
   current files, PROVIDED
   - faithful_key: equal key data implies equal analysis results,
   - H (std::hash) does not collide on the key data D that occur in the history,
   - in every run each source file finds its own cache file (lookup_okb). *)
Theorem C18_cache_transparent_under_faithful_key
  (opts msg summ content : Type) (lm : lookup_mode) (H : str -> N) (keydata : opts -> ustate -> str)
  (analyze : opts -> ustate -> list msg * summ) (is_internal : msg -> bool)
  (wp : opts -> list (str * summ) -> list msg) (view : opts -> fsys content -> str -> ustate)
  (D : str -> Prop) :
  (forall a b, D a -> D b -> H a = H b -> a = b) ->
  (forall o u o' u', keydata o u = keydata o' u' -> analyze o u = analyze o' u') ->
  forall h fs,
    Forall D (keys_of opts content keydata view h fs) -> runs_ok opts content lm h = true ->
    exec opts msg summ content lm H keydata analyze is_internal wp view h fs [] =
    exec_fresh opts msg summ content analyze wp view h fs.
Proof.
  intros Hc Hf h fs. exact (cache_transparent_from_empty opts msg summ content lm H keydata analyze is_internal wp view D Hc Hf h fs).
Qed.
Print Assumptions C18_cache_transparent_under_faithful_key.

(* What the key of the CURRENT source does with token locations (loc_enc is
   regenerated from Preprocessor::calculateHash on every run):
   LocChar - moving every token down by 256 lines, or right by 256 columns,
             leaves the hash data of every unit unchanged: faithful_key is refuted
             for any analysis that reports line numbers;
   LocDec  - the location record has a length determined by the digits. *)
Theorem C18_key_location_status : loc_status loc_enc.
Proof. exact (loc_status_all loc_enc). Qed.
Print Assumptions C18_key_location_status.

(* faithful_key refuted outright while the defect is there: two units whose
   tokens sit on different lines have the same hash data *)
Theorem C18_faithful_key_refuted_for_LocChar :
  exists ti p ts ts', ts <> ts' /\ map (fun t => fst (fst t)) ts = map (fun t => fst (fst t)) ts' /\
    hashdata LocChar false ti (mkU p ts []) = hashdata LocChar false ti (mkU p ts' []).
Proof.
  exists [], [97], [([120], 1, 1)], [([120], 257, 1)].
  split; [discriminate|]. split; reflexivity.
Qed.
Print Assumptions C18_faithful_key_refuted_for_LocChar.

(* the path of the source file is invisible to the key while toolinfo omits it *)
Theorem C18_key_blind_to_source_path_while_omitted o p q ts hs :
  mem_field F_filePath key_fields = false ->
  code_keydata o (mkU p ts hs) = code_keydata o (mkU q ts hs).
Proof. exact (code_keydata_path_blind o p q ts hs). Qed.
Print Assumptions C18_key_blind_to_source_path_while_omitted.

(* header paths are invisible while the header loop does not append them (hdr_path_in_key = false) *)
Theorem C18_key_blind_to_header_path_while_omitted e ti p ts hp hq hts hs :
  hashdata e false ti (mkU p ts ((hp, hts) :: hs)) = hashdata e false ti (mkU p ts ((hq, hts) :: hs)).
Proof. exact (hashdata_hdrpath_blind e ti p ts hp hq hts hs). Qed.
Print Assumptions C18_key_blind_to_header_path_while_omitted.

(* files.txt: the endsWith-first lookup (SuffixFirst, the current source) is not unique - x.c and d/x.c share x.a1 *)
Theorem C18_files_txt_suffix_clash_refuted :
  exists files, NoDup files /\ lookup_okb SuffixFirst files = false /\
    lookup_af SuffixFirst (files_txt files) (nth 0 files []) = lookup_af SuffixFirst (files_txt files) (nth 1 files []).
Proof.
  exists [[120;46;99]; [100;47;120;46;99]].
  split; [repeat constructor; cbn; intuition discriminate|]. split; vm_compute; reflexivity.
Qed.
Print Assumptions C18_files_txt_suffix_clash_refuted.

(* non-vacuity: the premises are inhabited *)
Example C18_lookup_ok_example : lookup_okb SuffixFirst [[97;46;99]; [98;47;100;46;99]; [99;46;99]] = true.
Proof. vm_compute. reflexivity. Qed.
Example C18_premises_inhabited :
  exists (H : str -> N) (keydata : unit -> ustate -> str) (analyze : unit -> ustate -> list N * N) (D : str -> Prop),
    (forall a b, D a -> D b -> H a = H b -> a = b) /\
    (forall o u o' u', keydata o u = keydata o' u' -> analyze o u = analyze o' u').
Proof.
  exists (fun s => N.of_nat (length s)), (fun _ u => u_path u), (fun _ u => (u_path u, 0)), (fun s => s = []).
  split; [intros a b -> ->; reflexivity | intros o u o' u' E; now rewrite E].
Qed.
