(* C12: which configurations cppcheck analyses.
   Model of lib/preprocessor.cpp  getConfigs (static) / cfg / hasDefine / isUndefined /
   getConfigsElseIsFalse / gotoEndIf / readcondition (for `defined(m)` and `!defined(m)`),
   Preprocessor::getConfigs, createDUI + the defines loop of simplecpp::preprocess (which
   macros a configuration defines), and of lib/cppcheck.cpp checkInternal's configuration
   loop (Settings::getMaxConfigs, --force, merging userDefines, the cut at maxConfigs).
   Definitions only.

   A configuration item is (m,true) for the string "m=m" and (m,false) for "m";
   a configuration is the list of its items in the order of std::set<std::string>
   (byte-wise order of the rendered strings), `ret` likewise. *)
From CV Require Import Base.Bytes PP.Cond.
Local Open Scope N_scope.

(* ---- guards of the property's family *)
Inductive gkind := KIfdef | KIfndef | KIfDef | KIfNDef.
(* #ifdef m | #ifndef m | #if defined(m) (#elif defined(m)) | #if !defined(m) (#elif !defined(m)) *)
Notation guard := (gkind * str)%type.

Definition positive_kind (k : gkind) : bool :=
  match k with KIfdef | KIfDef => true | _ => false end.

Definition mem_str (m : str) (l : list str) : bool := existsb (str_eqb m) l.

(* truth of a guard when exactly the macros of S are defined *)
Definition guard_holds (S : list str) (g : guard) : bool :=
  if positive_kind (fst g) then mem_str (snd g) S else negb (mem_str (snd g) S).
Definition ev_guard (S : list str) (g : guard) : option bool := Some (guard_holds S g).

(* ---- configuration strings *)
Notation item := (str * bool)%type.
Definition cfg := list item.

Definition render_item (i : item) : str := if snd i then fst i ++ [61] ++ fst i else fst i.
Definition render_cfg (c : cfg) : str := join [59] (map render_item c).

Definition item_eq_dec (a b : item) : {a = b} + {a <> b}.
Proof. decide equality. apply Bool.bool_dec. apply (list_eq_dec N.eq_dec). Defined.
Definition cfg_eq_dec (a b : cfg) : {a = b} + {a <> b} := list_eq_dec item_eq_dec a b.

(* std::string operator< : lexicographic on unsigned bytes *)
Fixpoint str_ltb (a b : str) : bool :=
  match a, b with
  | _, [] => false
  | [], _ :: _ => true
  | x :: a', y :: b' => if x <? y then true else if y <? x then false else str_ltb a' b'
  end.

(* std::set<std::string>::insert / erase / find on rendered strings *)
Section SetOps.
Context {A : Type} (dec : forall a b : A, {a = b} + {a <> b}) (key : A -> str).
Fixpoint set_ins (x : A) (l : list A) : list A :=
  match l with
  | [] => [x]
  | y :: l' => if dec x y then l
               else if str_ltb (key x) (key y) then x :: l
               else y :: set_ins x l'
  end.
Definition set_mem (x : A) (l : list A) : bool := existsb (fun y => if dec x y then true else false) l.
Definition set_del (x : A) (l : list A) : list A := filter (fun y => if dec x y then false else true) l.
End SetOps.

Definition ret_ins := set_ins cfg_eq_dec render_cfg.
Definition ret_mem := set_mem cfg_eq_dec.
Definition ret_del := set_del cfg_eq_dec.

(* hasDefine(userDefines, c): the name of c is one of the -D names ("" -> false) *)
Definition has_define (userD : list str) (c : option item) : bool :=
  match c with None => false | Some i => mem_str (fst i) userD end.

(* cfg(configs, userDefines): set of the non-empty entries not fixed by -D, joined *)
Definition cfg_of (configs : list (option item)) (userD : list str) : cfg :=
  fold_right (fun c acc => match c with
                           | None => acc
                           | Some i => if mem_str (fst i) userD then acc else set_ins item_eq_dec render_item i acc
                           end) [] configs.

(* the configuration string a guard contributes; "" (None) when -U forbids it *)
Definition config_of (userU : list str) (g : guard) : option item :=
  if mem_str (snd g) userU then None else Some (snd g, positive_kind (fst g)).

Record state := mkState {
  cif : list (option item);     (* configs_if, top first *)
  cifn : list (option item);    (* configs_ifndef, top first *)
  ret : list cfg;
  skip : option nat             (* inside gotoEndIf: number of open nested #if *)
}.

Definition step_if (userD userU : list str) (g : guard) (s : state) : state :=
  let config := config_of userU g in
  let is_ifndef := match fst g with KIfndef => true | _ => false end in
  (* "check if config already exists in the ret set, but as a more general or more specific version" *)
  let other : option cfg :=
    if is_ifndef then None
    else match config with
         | Some (m, v) => Some [(m, negb v)]
         | None => None                         (* config2 = "=" is never in ret *)
         end in
  let has_eq := match config with Some (_, true) => true | _ => false end in
  let hit := match other with Some o => ret_mem o (ret s) | None => false end in
  if hit && has_eq then s                       (* `continue`: nothing is pushed *)
  else
    let ret1 := if hit then match other with Some o => ret_del o (ret s) | None => ret s end else ret s in
    let cif' := (if is_ifndef then None else config) :: cif s in
    let cifn' := (if is_ifndef then config else None) :: cifn s in
    mkState cif' cifn' (ret_ins (cfg_of cif' userD) ret1) None.

Definition step_else (userD userU : list str) (elif : option guard) (s : state) : state :=
  if existsb (has_define userD) (cif s) then mkState (cif s) (cifn s) (ret s) (Some O)   (* gotoEndIf *)
  else
    let cif1 := tl (cif s) in
    match elif with
    | Some g =>
        let cif' := config_of userU g :: cif1 in
        mkState cif' (cifn s) (ret_ins (cfg_of cif' userD) (ret s)) None
    | None =>
        match cifn s with
        | [] => mkState cif1 (cifn s) (ret s) None
        | cand :: _ =>
            let candcfg : cfg := match cand with None => [] | Some i => [i] end in
            if ret_mem candcfg (ret s) then mkState cif1 (cifn s) (ret s) None
            else
              let ret1 := match cand with
                          | Some (m, _) => ret_del [(m, true)] (ret s)
                          | None => ret s
                          end in
              let cif' := cand :: cif1 in
              mkState cif' (cifn s) (ret_ins (cfg_of cif' userD) ret1) None
        end
    end.

Definition step_endif (s : state) : state :=
  mkState (tl (cif s)) (tl (cifn s)) (ret s) None.

Definition step (userD userU : list str) (s : state) (d : dir guard) : state :=
  match skip s with
  | Some n =>
      match d with
      | DIf _ => mkState (cif s) (cifn s) (ret s) (Some (S n))
      | DEndif => match n with
                  | O => step_endif s
                  | S n' => mkState (cif s) (cifn s) (ret s) (Some n')
                  end
      | _ => s
      end
  | None =>
      match d with
      | DIf g => step_if userD userU g s
      | DElif g => step_else userD userU (Some g) s
      | DElse => step_else userD userU None s
      | DEndif => step_endif s
      | DLine _ => s
      end
  end.

Definition init_state : state := mkState [] [] [[]] None.

Definition get_configs (userD userU : list str) (ds : list (dir guard)) : list cfg :=
  ret (fold_left (step userD userU) ds init_state).

(* ---- checkInternal *)
Definition MAXCONFIGS_DEFAULT : N := 12.
(* Settings::getMaxConfigs; None = --force (0x7fffffff) *)
Definition eff_max (force : bool) (opt : option N) (userD : list str) : option N :=
  if force then None
  else match opt with
       | Some k => Some k
       | None => match userD with [] => Some MAXCONFIGS_DEFAULT | _ => Some 1 end
       end.

Definition configurations (mx : option N) (userD userU : list str) (ds : list (dir guard)) : list cfg :=
  match mx with
  | Some k => if 1 <? k then get_configs userD userU ds else [[]]   (* {userDefines}: merged below *)
  | None => get_configs userD userU ds
  end.

Definition select (mx : option N) (cs : list cfg) : list cfg :=
  match mx with None => cs | Some k => firstn (N.to_nat k) cs end.

Definition analysed (force : bool) (opt : option N) (userD userU : list str) (ds : list (dir guard)) : list cfg :=
  let mx := eff_max force opt userD in
  select mx (configurations mx userD userU ds).

(* macros defined while preprocessing configuration c: createDUI puts the -D names and the
   items of c into dui.defines; simplecpp::preprocess skips every name that is in dui.undefined *)
Definition dui_defs (userD userU : list str) (c : cfg) : list str :=
  filter (fun m => negb (mem_str m userU)) (userD ++ map fst c).

(* the "Checking f: <cfg>..." string: userDefines (each NAME=1) then the items *)
Definition render_user (userD : list str) : list str := map (fun m => m ++ [61; 49]) userD.
Definition render_current (userD : list str) (c : cfg) : str :=
  join [59] (render_user userD ++ map render_item c).

(* lines kept under configuration c *)
Definition kept (userD userU : list str) (ds : list (dir guard)) (c : cfg) : list N :=
  match cond_file guard (ev_guard (dui_defs userD userU c)) ds with
  | Ok out => out
  | _ => []
  end.

Definition covered_ids (force : bool) (opt : option N) (userD userU : list str) (ds : list (dir guard)) : list N :=
  flat_map (kept userD userU ds) (analysed force opt userD userU ds).

(* ---- specification side: the family of files the coverage theorem speaks about *)
Fixpoint macros (f : forest guard) : list str :=
  match f with
  | FNil => []
  | FCode _ n => macros n
  | FGroup g b t n => snd g :: macros b ++ macros_tail t ++ macros n
  end
with macros_tail (t : tail guard) : list str :=
  match t with
  | TEnd => []
  | TElse b => macros b
  | TElif g b t' => snd g :: macros b ++ macros_tail t'
  end.

(* `okf k f`: f is a sequence of lines and groups `#ifdef/#if defined(m)/#ifndef m ... [#else ...] #endif`
   (no #elif, negation spelled #ifndef) in which an #ifdef/#if defined group has an #else
   branch only where it is not nested inside the body of another group (k = 0 counts the
   enclosing bodies; the #else branch of such a top-level group counts as top level again) *)
Fixpoint okf (k : nat) (f : forest guard) : Prop :=
  match f with
  | FNil => True
  | FCode _ n => okf k n
  | FGroup g b t n =>
      fst g <> KIfNDef /\ okf (S k) b /\
      match t with
      | TEnd => True
      | TElse eb => if positive_kind (fst g) then k = O /\ okf O eb else okf (S k) eb
      | TElif _ _ _ => False
      end /\ okf k n
  end.

(* the full family of the property: any nesting, any sibling order, #else anywhere *)
Fixpoint in_family (f : forest guard) : Prop :=
  match f with
  | FNil => True
  | FCode _ n => in_family n
  | FGroup g b t n =>
      in_family b /\
      match t with
      | TEnd => True
      | TElse eb => in_family eb
      | TElif _ _ _ => False
      end /\ in_family n
  end.
