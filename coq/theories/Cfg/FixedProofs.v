(* C12: the model with both proposed repairs (Cfg/Fixed.v, fxA = fxB = true) covers every line of every tree of the
   property's family (#ifdef / #ifndef / #if defined() / #if !defined(), #else anywhere, any depth and sibling order,
   distinct macros).  Hence a line that getConfigs leaves uncovered is one that only the repairs reach: the
   attribution of uncovered lines to the two known causes made by tools/props/c12.py is exhaustive. *)
From CV Require Import Base.Bytes PP.Cond PP.CondProofs Cfg.Defs Cfg.Fixed Cfg.Proofs.
Local Open Scope N_scope.

Definition stepf := step_f true true [] [].
Definition run0f (s : state) (ds : list (dir guard)) : state := fold_left stepf ds s.
Lemma run0f_cons s d ds : run0f s (d :: ds) = run0f (stepf s d) ds.
Proof. reflexivity. Qed.

Lemma stepf_line cf cfn rt id : stepf (st0 cf cfn rt) (DLine id) = st0 cf cfn rt.
Proof. reflexivity. Qed.
Lemma stepf_endif_eq cf cfn rt a b : stepf (st0 (a :: cf) (b :: cfn) rt) DEndif = st0 cf cfn rt.
Proof. reflexivity. Qed.

Lemma stepf_if_pos kd m cf cfn rt :
  positive_kind kd = true -> ~ retP rt m ->
  stepf (st0 cf cfn rt) (DIf (kd, m)) =
  st0 (Some (m, true) :: cf) (None :: cfn) (ret_ins (cfg_of (Some (m, true) :: cf) []) rt).
Proof.
  intros Hk Hr. unfold stepf, step_f, st0, step_if_f, config_of. cbn [skip fst snd ret cif cifn].
  rewrite mem_str_nil, Hk.
  assert (X : ret_mem [(m, negb true)] rt = false).
  { apply set_mem_false. intros H. apply Hr. exists [(m, negb true)]. split; [exact H|now left]. }
  destruct kd; try discriminate; rewrite X; reflexivity.
Qed.

Lemma stepf_if_ndef kd m cf cfn rt :
  positive_kind kd = false -> ~ retP rt m ->
  stepf (st0 cf cfn rt) (DIf (kd, m)) =
  st0 (None :: cf) (Some (m, false) :: cfn) (ret_ins (cfg_of cf []) rt).
Proof.
  intros Hk Hr. unfold stepf, step_f, st0, step_if_f, config_of. cbn [skip fst snd ret cif cifn].
  rewrite mem_str_nil, Hk.
  assert (X : ret_mem [(m, negb false)] rt = false).
  { apply set_mem_false. intros H. apply Hr. exists [(m, negb false)]. split; [exact H|now left]. }
  destruct kd; try discriminate; rewrite ?X; reflexivity.
Qed.

Lemma stepf_else_ndef m cf cfn rt :
  ~ retP rt m ->
  stepf (st0 (None :: cf) (Some (m, false) :: cfn) rt) DElse =
  st0 (Some (m, false) :: cf) (Some (m, false) :: cfn) (ret_ins (cfg_of (Some (m, false) :: cf) []) rt).
Proof.
  intros Hr. unfold stepf, step_f, st0, step_else_f. cbn [skip fst snd ret cif cifn tl].
  rewrite no_define_nil. cbn -[ret_mem ret_ins ret_del cfg_of].
  match goal with |- context [if ?b then _ else _] => assert (X : b = false) end.
  { apply set_mem_false. intros H. apply Hr. exists [(m, false)]. split; [exact H|now left]. }
  rewrite X. unfold ret_del. rewrite set_del_id; [reflexivity|].
  intros H. apply Hr. exists [(m, true)]. split; [exact H|now left].
Qed.

Lemma stepf_else_pos i cf cfn rt :
  In [] rt ->
  stepf (st0 (Some i :: cf) (None :: cfn) rt) DElse = st0 (None :: cf) (None :: cfn) rt.
Proof.
  intros H. unfold stepf, step_f, st0, step_else_f. cbn [skip fst snd ret cif cifn tl].
  rewrite no_define_nil. cbn -[ret_mem ret_ins ret_del cfg_of].
  match goal with |- context [if ?b then _ else _] => assert (X : b = true) by (now apply set_mem_true) end.
  now rewrite X.
Qed.

Definition Covf (f : forest guard) : Prop :=
  forall cf cfn rt rest,
   in_family f -> NoDup (macros f) ->
   (forall m, In m (macros f) -> ~ cifP cf m) ->
   (forall m, In m (macros f) -> ~ retP rt m) ->
   In [] rt -> ctx_cov cf rt ->
   exists rt',
     run0f (st0 cf cfn rt) (flatten guard f ++ rest) = run0f (st0 cf cfn rt') rest /\
     incl rt rt' /\
     (forall m, retP rt' m -> retP rt m \/ cifP cf m \/ In m (macros f)) /\
     (forall id, In id (ids guard f) -> exists c, In c rt' /\ In id (keepS (map fst c) f) /\
          (forall m, cifP cf m -> In m (map fst c)) /\
          (forall m, In m (map fst c) -> cifP cf m \/ In m (macros f))).

Lemma covf_pos_end kd m b n :
  positive_kind kd = true -> Covf b -> Covf n -> Covf (FGroup (kd, m) b TEnd n).
Proof.
  intros P IHb IHn cf cfn rt rest OK ND DC DR E0 CC.
  cbn [in_family] in OK. destruct OK as [OKb [_ OKn]].
  change (macros (FGroup (kd, m) b TEnd n)) with (m :: macros b ++ [] ++ macros n) in *.
  destruct (nodup_group m (macros b) [] (macros n) ND) as [Mb [_ [Mn [Nb [_ [Nn [_ [Dbn _]]]]]]]].
  set (cf1 := Some (m, true) :: cf).
  set (rt1 := ret_ins (cfg_of cf1 []) rt).
  assert (Rm : ~ retP rt m) by (apply DR; now left).
  assert (Cm : ~ cifP cf m) by (apply DC; now left).
  (* body *)
  destruct (IHb cf1 (None :: cfn) rt1 (DEndif :: flatten guard n ++ rest)) as [rt2 [R2 [I2 [N2 C2]]]].
  { exact OKb. } { exact Nb. }
  { intros x Hx Hc. apply cifP_some in Hc. destruct Hc as [->|Hc]; [now apply Mb|].
    apply (DC x); [right; apply in_or_app; now left|exact Hc]. }
  { intros x Hx Hr. apply retP_ins in Hr. destruct Hr as [Hr|Hr].
    - apply defs_cfg_of in Hr. apply cifP_some in Hr. destruct Hr as [->|Hc]; [now apply Mb|].
      apply (DC x); [right; apply in_or_app; now left|exact Hc].
    - apply (DR x); [right; apply in_or_app; now left|exact Hr]. }
  { apply incl_ins, E0. } { apply ctx_cov_ins. }
  (* next *)
  destruct (IHn cf cfn rt2 rest) as [rt3 [R3 [I3 [N3 C3]]]].
  { exact OKn. } { exact Nn. }
  { intros x Hx. apply DC. right. apply in_or_app. now right. }
  { intros x Hx Hr. destruct (N2 x Hr) as [Hr1|[Hc|Hb]].
    - apply retP_ins in Hr1. destruct Hr1 as [Hr1|Hr1].
      + apply defs_cfg_of in Hr1. apply cifP_some in Hr1. destruct Hr1 as [->|Hc]; [now apply Mn|].
        apply (DC x); [right; apply in_or_app; now right|exact Hc].
      + apply (DR x); [right; apply in_or_app; now right|exact Hr1].
    - apply cifP_some in Hc. destruct Hc as [->|Hc]; [now apply Mn|].
      apply (DC x); [right; apply in_or_app; now right|exact Hc].
    - now apply (Dbn x Hb). }
  { apply I2, incl_ins, E0. } { eapply ctx_cov_incl; [|exact CC]. intros x Hx. apply I2, incl_ins, Hx. }
  exists rt3. split; [|split; [|split]].
  - rewrite fl_group, fl_end. cbn [app]. rewrite run0f_cons.
    change (st0 cf cfn rt) with (st0 cf cfn rt). rewrite (stepf_if_pos kd m cf cfn rt P Rm).
    fold cf1. fold rt1. rewrite <- !app_assoc. cbn [app]. rewrite R2.
    rewrite run0f_cons. unfold cf1. rewrite stepf_endif_eq. exact R3.
  - intros x Hx. apply I3, I2, incl_ins, Hx.
  - intros x Hr. destruct (N3 x Hr) as [Hr2|[Hc|Hn]].
    + destruct (N2 x Hr2) as [Hr1|[Hc|Hb]].
      * apply retP_ins in Hr1. destruct Hr1 as [Hr1|Hr1]; [|now left].
        apply defs_cfg_of in Hr1. apply cifP_some in Hr1. destruct Hr1 as [->|Hc]; [right; right; now left|right; now left].
      * apply cifP_some in Hc. destruct Hc as [->|Hc]; [right; right; now left|right; now left].
      * right; right; right. apply in_or_app; now left.
    + right; now left.
    + right; right; right. apply in_or_app; now right.
  - intros id Hid. rewrite id_group, id_end in Hid. cbn [app] in Hid.
    apply in_app_or in Hid. destruct Hid as [Hid|Hid].
    + destruct (C2 id Hid) as [c [Hc [Hk [Ha Hb]]]].
      exists c. split; [apply I3, Hc|]. split; [|split].
      * rewrite ks_group. apply in_or_app. left.
        rewrite (guard_pos_true _ kd m P); [exact Hk|]. apply Ha. apply cifP_some. now left.
      * intros x Hx. apply Ha. apply cifP_some. now right.
      * intros x Hx. destruct (Hb x Hx) as [H1|H1].
        -- apply cifP_some in H1. destruct H1 as [->|H1]; [right; now left|now left].
        -- right. right. apply in_or_app. now left.
    + destruct (C3 id Hid) as [c [Hc [Hk [Ha Hb]]]].
      exists c. split; [exact Hc|]. split; [|split].
      * rewrite ks_group. apply in_or_app. now right.
      * exact Ha.
      * intros x Hx. destruct (Hb x Hx) as [H1|H1]; [now left|]. right. right. apply in_or_app. now right.
Qed.

Lemma covf_ndef_end kd m b n :
  positive_kind kd = false -> Covf b -> Covf n -> Covf (FGroup (kd, m) b TEnd n).
Proof.
  intros P IHb IHn cf cfn rt rest OK ND DC DR E0 CC.
  cbn [in_family] in OK. destruct OK as [OKb [_ OKn]].
  change (macros (FGroup (kd, m) b TEnd n)) with (m :: macros b ++ [] ++ macros n) in *.
  destruct (nodup_group m (macros b) [] (macros n) ND) as [Mb [_ [Mn [Nb [_ [Nn [_ [Dbn _]]]]]]]].
  set (cf1 := @None item :: cf).
  set (rt1 := ret_ins (cfg_of cf []) rt).
  assert (Rm : ~ retP rt m) by (apply DR; now left).
  assert (Cm : ~ cifP cf m) by (apply DC; now left).
  destruct (IHb cf1 (Some (m, false) :: cfn) rt1 (DEndif :: flatten guard n ++ rest)) as [rt2 [R2 [I2 [N2 C2]]]].
  { exact OKb. } { exact Nb. }
  { intros x Hx Hc. apply (proj1 (cifP_none cf _)) in Hc.
    apply (DC x); [right; apply in_or_app; now left|exact Hc]. }
  { intros x Hx Hr. apply retP_ins in Hr. destruct Hr as [Hr|Hr].
    - apply defs_cfg_of in Hr. apply (DC x); [right; apply in_or_app; now left|exact Hr].
    - apply (DR x); [right; apply in_or_app; now left|exact Hr]. }
  { apply incl_ins, E0. } { exact (ctx_cov_ins cf1 rt). }
  destruct (IHn cf cfn rt2 rest) as [rt3 [R3 [I3 [N3 C3]]]].
  { exact OKn. } { exact Nn. }
  { intros x Hx. apply DC. right. apply in_or_app. now right. }
  { intros x Hx Hr. destruct (N2 x Hr) as [Hr1|[Hc|Hb]].
    - apply retP_ins in Hr1. destruct Hr1 as [Hr1|Hr1].
      + apply defs_cfg_of in Hr1. apply (DC x); [right; apply in_or_app; now right|exact Hr1].
      + apply (DR x); [right; apply in_or_app; now right|exact Hr1].
    - apply (proj1 (cifP_none cf _)) in Hc. apply (DC x); [right; apply in_or_app; now right|exact Hc].
    - now apply (Dbn x Hb). }
  { apply I2, incl_ins, E0. } { eapply ctx_cov_incl; [|exact CC]. intros x Hx. apply I2, incl_ins, Hx. }
  exists rt3. split; [|split; [|split]].
  - rewrite fl_group, fl_end. cbn [app]. rewrite run0f_cons.
    rewrite (stepf_if_ndef kd m cf cfn rt P Rm).
    fold cf1. fold rt1. rewrite <- !app_assoc. cbn [app]. rewrite R2.
    rewrite run0f_cons. unfold cf1. rewrite stepf_endif_eq. exact R3.
  - intros x Hx. apply I3, I2, incl_ins, Hx.
  - intros x Hr. destruct (N3 x Hr) as [Hr2|[Hc|Hn]].
    + destruct (N2 x Hr2) as [Hr1|[Hc|Hb]].
      * apply retP_ins in Hr1. destruct Hr1 as [Hr1|Hr1]; [|now left].
        apply defs_cfg_of in Hr1. right; now left.
      * apply (proj1 (cifP_none cf _)) in Hc. right; now left.
      * right; right; right. apply in_or_app; now left.
    + right; now left.
    + right; right; right. apply in_or_app; now right.
  - intros id Hid. rewrite id_group, id_end in Hid. cbn [app] in Hid.
    apply in_app_or in Hid. destruct Hid as [Hid|Hid].
    + destruct (C2 id Hid) as [c [Hc [Hk [Ha Hb]]]].
      exists c. split; [apply I3, Hc|]. split; [|split].
      * rewrite ks_group. apply in_or_app. left.
        rewrite (guard_neg_true _ kd m P); [exact Hk|].
        intros X. destruct (Hb m X) as [H1|H1]; [apply (proj1 (cifP_none cf _)) in H1; now apply Cm|now apply Mb].
      * intros x Hx. apply Ha. now apply (proj2 (cifP_none cf x)).
      * intros x Hx. destruct (Hb x Hx) as [H1|H1].
        -- apply (proj1 (cifP_none cf _)) in H1. now left.
        -- right. right. apply in_or_app. now left.
    + destruct (C3 id Hid) as [c [Hc [Hk [Ha Hb]]]].
      exists c. split; [exact Hc|]. split; [|split].
      * rewrite ks_group. apply in_or_app. now right.
      * exact Ha.
      * intros x Hx. destruct (Hb x Hx) as [H1|H1]; [now left|]. right. right. apply in_or_app. now right.
Qed.

Lemma covf_ndef_else kd m b eb n :
  positive_kind kd = false -> Covf b -> Covf eb -> Covf n -> Covf (FGroup (kd, m) b (TElse eb) n).
Proof.
  intros P IHb IHe IHn cf cfn rt rest OK ND DC DR E0 CC.
  cbn [in_family] in OK. destruct OK as [OKb [OKe OKn]].
  change (macros (FGroup (kd, m) b (TElse eb) n)) with (m :: macros b ++ macros eb ++ macros n) in *.
  destruct (nodup_group m (macros b) (macros eb) (macros n) ND) as [Mb [Me [Mn [Nb [Ne [Nn [Dbe [Dbn Den]]]]]]]].
  set (cf1 := @None item :: cf).
  set (cfn1 := Some (m, false) :: cfn).
  set (rt1 := ret_ins (cfg_of cf []) rt).
  assert (Rm : ~ retP rt m) by (apply DR; now left).
  assert (Cm : ~ cifP cf m) by (apply DC; now left).
  assert (inB : forall x, In x (macros b) -> In x (m :: macros b ++ macros eb ++ macros n))
    by (intros; right; apply in_or_app; now left).
  assert (inE : forall x, In x (macros eb) -> In x (m :: macros b ++ macros eb ++ macros n))
    by (intros; right; apply in_or_app; right; apply in_or_app; now left).
  assert (inN : forall x, In x (macros n) -> In x (m :: macros b ++ macros eb ++ macros n))
    by (intros; right; apply in_or_app; right; apply in_or_app; now right).
  (* body *)
  destruct (IHb cf1 cfn1 rt1 (DElse :: flatten guard eb ++ DEndif :: flatten guard n ++ rest))
    as [rt2 [R2 [I2 [N2 C2]]]].
  { exact OKb. } { exact Nb. }
  { intros x Hx Hc. apply (proj1 (cifP_none cf _)) in Hc. apply (DC x); auto. }
  { intros x Hx Hr. apply retP_ins in Hr. destruct Hr as [Hr|Hr].
    - apply defs_cfg_of in Hr. apply (DC x); auto.
    - apply (DR x); auto. }
  { apply incl_ins, E0. } { exact (ctx_cov_ins cf1 rt). }
  (* what rt2 mentions *)
  assert (N2' : forall x, retP rt2 x -> retP rt x \/ cifP cf x \/ In x (macros b)).
  { intros x Hr. destruct (N2 x Hr) as [Hr1|[Hc|Hb]].
    - apply retP_ins in Hr1. destruct Hr1 as [Hr1|Hr1]; [|now left].
      apply defs_cfg_of in Hr1. right; now left.
    - apply (proj1 (cifP_none cf _)) in Hc. right; now left.
    - right; now right. }
  assert (Rm2 : ~ retP rt2 m).
  { intros Hr. destruct (N2' m Hr) as [H|[H|H]]; auto. }
  set (cf2 := Some (m, false) :: cf).
  set (rt3 := ret_ins (cfg_of cf2 []) rt2).
  (* else body *)
  destruct (IHe cf2 cfn1 rt3 (DEndif :: flatten guard n ++ rest)) as [rt4 [R4 [I4 [N4 C4]]]].
  { exact OKe. } { exact Ne. }
  { intros x Hx Hc. apply cifP_some in Hc. destruct Hc as [->|Hc]; [now apply Me|]. apply (DC x); auto. }
  { intros x Hx Hr. apply retP_ins in Hr. destruct Hr as [Hr|Hr].
    - apply defs_cfg_of in Hr. apply cifP_some in Hr. destruct Hr as [->|Hc]; [now apply Me|]. apply (DC x); auto.
    - destruct (N2' x Hr) as [H|[H|H]].
      + apply (DR x); auto.
      + apply (DC x); auto.
      + now apply (Dbe x H). }
  { apply incl_ins, I2, incl_ins, E0. } { apply ctx_cov_ins. }
  assert (N4' : forall x, retP rt4 x -> retP rt x \/ cifP cf x \/ x = m \/ In x (macros b) \/ In x (macros eb)).
  { intros x Hr. destruct (N4 x Hr) as [Hr1|[Hc|Hb]].
    - apply retP_ins in Hr1. destruct Hr1 as [Hr1|Hr1].
      + apply defs_cfg_of in Hr1. apply cifP_some in Hr1. destruct Hr1 as [->|Hc]; [right; right; now left|right; now left].
      + destruct (N2' x Hr1) as [H|[H|H]]; [now left|right; now left|right; right; right; now left].
    - apply cifP_some in Hc. destruct Hc as [->|Hc]; [right; right; now left|right; now left].
    - right; right; right; now right. }
  (* next *)
  destruct (IHn cf cfn rt4 rest) as [rt5 [R5 [I5 [N5 C5]]]].
  { exact OKn. } { exact Nn. }
  { intros x Hx. apply DC. auto. }
  { intros x Hx Hr. destruct (N4' x Hr) as [H|[H|[->|[H|H]]]].
    - apply (DR x); auto.
    - apply (DC x); auto.
    - now apply Mn.
    - now apply (Dbn x H).
    - now apply (Den x H). }
  { apply I4, incl_ins, I2, incl_ins, E0. }
  { eapply ctx_cov_incl; [|exact CC]. intros x Hx. apply I4, incl_ins, I2, incl_ins, Hx. }
  exists rt5. split; [|split; [|split]].
  - rewrite fl_group, fl_else. cbn [app]. rewrite run0f_cons.
    rewrite (stepf_if_ndef kd m cf cfn rt P Rm).
    fold cf1. fold cfn1. fold rt1. rewrite <- !app_assoc. cbn [app]. rewrite <- !app_assoc. cbn [app]. rewrite R2.
    rewrite run0f_cons. unfold cf1, cfn1. rewrite (stepf_else_ndef m cf cfn rt2 Rm2).
    fold cf2. fold cfn1. fold rt3. rewrite R4.
    rewrite run0f_cons. unfold cf2, cfn1. rewrite stepf_endif_eq. exact R5.
  - intros x Hx. apply I5, I4, incl_ins, I2, incl_ins, Hx.
  - intros x Hr. destruct (N5 x Hr) as [Hr2|[Hc|Hn]].
    + destruct (N4' x Hr2) as [H|[H|[->|[H|H]]]]; [now left|right; now left|right; right; now left| |];
        right; right; auto.
    + right; now left.
    + right; right; auto.
  - intros id Hid. rewrite id_group, id_else in Hid.
    apply in_app_or in Hid. destruct Hid as [Hid|Hid]; [|apply in_app_or in Hid; destruct Hid as [Hid|Hid]].
    + destruct (C2 id Hid) as [c [Hc [Hk [Ha Hb]]]].
      exists c. split; [apply I5, I4, incl_ins, Hc|]. split; [|split].
      * rewrite ks_group. apply in_or_app. left.
        rewrite (guard_neg_true _ kd m P); [exact Hk|].
        intros X. destruct (Hb m X) as [H1|H1]; [apply (proj1 (cifP_none cf _)) in H1; now apply Cm|now apply Mb].
      * intros x Hx. apply Ha. now apply (proj2 (cifP_none cf x)).
      * intros x Hx. destruct (Hb x Hx) as [H1|H1].
        -- apply (proj1 (cifP_none cf _)) in H1. now left.
        -- right. auto.
    + destruct (C4 id Hid) as [c [Hc [Hk [Ha Hb]]]].
      exists c. split; [apply I5, Hc|]. split; [|split].
      * rewrite ks_group. apply in_or_app. left.
        rewrite (guard_neg_false _ kd m P); [rewrite ks_else; exact Hk|].
        apply Ha. apply cifP_some. now left.
      * intros x Hx. apply Ha. apply cifP_some. now right.
      * intros x Hx. destruct (Hb x Hx) as [H1|H1].
        -- apply cifP_some in H1. destruct H1 as [->|H1]; [right; now left|now left].
        -- right. auto.
    + destruct (C5 id Hid) as [c [Hc [Hk [Ha Hb]]]].
      exists c. split; [exact Hc|]. split; [|split].
      * rewrite ks_group. apply in_or_app. now right.
      * exact Ha.
      * intros x Hx. destruct (Hb x Hx) as [H1|H1]; [now left|]. right. auto.
Qed.

(* case: #ifdef m / #if defined(m)  body  #else  ebody  #endif  next, at ANY depth (repair A keeps the stacks in step) *)
Lemma covf_pos_else kd m b eb n :
  positive_kind kd = true -> Covf b -> Covf eb -> Covf n -> Covf (FGroup (kd, m) b (TElse eb) n).
Proof.
  intros P IHb IHe IHn cf cfn rt rest OK ND DC DR E0 CC.
  cbn [in_family] in OK. destruct OK as [OKb [OKe OKn]].
  change (macros (FGroup (kd, m) b (TElse eb) n)) with (m :: macros b ++ macros eb ++ macros n) in *.
  destruct (nodup_group m (macros b) (macros eb) (macros n) ND) as [Mb [Me [Mn [Nb [Ne [Nn [Dbe [Dbn Den]]]]]]]].
  set (cf1 := Some (m, true) :: cf).
  set (cfn1 := @None item :: cfn).
  set (rt1 := ret_ins (cfg_of cf1 []) rt).
  assert (Rm : ~ retP rt m) by (apply DR; now left).
  assert (Cm : ~ cifP cf m) by (apply DC; now left).
  assert (inB : forall x, In x (macros b) -> In x (m :: macros b ++ macros eb ++ macros n))
    by (intros; right; apply in_or_app; now left).
  assert (inE : forall x, In x (macros eb) -> In x (m :: macros b ++ macros eb ++ macros n))
    by (intros; right; apply in_or_app; right; apply in_or_app; now left).
  assert (inN : forall x, In x (macros n) -> In x (m :: macros b ++ macros eb ++ macros n))
    by (intros; right; apply in_or_app; right; apply in_or_app; now right).
  destruct (IHb cf1 cfn1 rt1 (DElse :: flatten guard eb ++ DEndif :: flatten guard n ++ rest))
    as [rt2 [R2 [I2 [N2 C2]]]].
  { exact OKb. } { exact Nb. }
  { intros x Hx Hc. apply cifP_some in Hc. destruct Hc as [->|Hc]; [now apply Mb|]. apply (DC x); auto. }
  { intros x Hx Hr. apply retP_ins in Hr. destruct Hr as [Hr|Hr].
    - apply defs_cfg_of in Hr. apply cifP_some in Hr. destruct Hr as [->|Hc]; [now apply Mb|]. apply (DC x); auto.
    - apply (DR x); auto. }
  { apply incl_ins, E0. } { apply ctx_cov_ins. }
  assert (N2' : forall x, retP rt2 x -> retP rt x \/ cifP cf x \/ x = m \/ In x (macros b)).
  { intros x Hr. destruct (N2 x Hr) as [Hr1|[Hc|Hb]].
    - apply retP_ins in Hr1. destruct Hr1 as [Hr1|Hr1]; [|now left].
      apply defs_cfg_of in Hr1. apply cifP_some in Hr1. destruct Hr1 as [->|Hc]; [right; right; now left|right; now left].
    - apply cifP_some in Hc. destruct Hc as [->|Hc]; [right; right; now left|right; now left].
    - right; right; now right. }
  assert (E2 : In [] rt2) by (apply I2, incl_ins, E0).
  set (cf2 := @None item :: cf).
  destruct (IHe cf2 cfn1 rt2 (DEndif :: flatten guard n ++ rest)) as [rt3 [R3 [I3 [N3 C3]]]].
  { exact OKe. } { exact Ne. }
  { intros x Hx Hc. apply (proj1 (cifP_none cf _)) in Hc. apply (DC x); auto. }
  { intros x Hx Hr. destruct (N2' x Hr) as [H|[H|[->|H]]].
    - apply (DR x); auto.
    - apply (DC x); auto.
    - now apply Me.
    - now apply (Dbe x H). }
  { exact E2. }
  { destruct CC as [c0 [H1 H2]]. exists c0. split; [apply I2, incl_ins, H1|].
    intros x. rewrite <- H2. apply cifP_none. }
  assert (N3' : forall x, retP rt3 x -> retP rt x \/ cifP cf x \/ x = m \/ In x (macros b) \/ In x (macros eb)).
  { intros x Hr. destruct (N3 x Hr) as [Hr1|[Hc|Hb]].
    - destruct (N2' x Hr1) as [H|[H|[H|H]]]; auto.
    - apply (proj1 (cifP_none cf _)) in Hc. auto.
    - auto 6. }
  destruct (IHn cf cfn rt3 rest) as [rt4 [R4 [I4 [N4 C4]]]].
  { exact OKn. } { exact Nn. }
  { intros x Hx. apply DC. auto. }
  { intros x Hx Hr. destruct (N3' x Hr) as [H|[H|[->|[H|H]]]].
    - apply (DR x); auto.
    - apply (DC x); auto.
    - now apply Mn.
    - now apply (Dbn x H).
    - now apply (Den x H). }
  { apply I3, E2. }
  { eapply ctx_cov_incl; [|exact CC]. intros x Hx. apply I3, I2, incl_ins, Hx. }
  exists rt4. split; [|split; [|split]].
  - rewrite fl_group, fl_else. cbn [app]. rewrite run0f_cons.
    rewrite (stepf_if_pos kd m cf cfn rt P Rm).
    fold cf1. fold cfn1. fold rt1. rewrite <- !app_assoc. cbn [app]. rewrite <- !app_assoc. cbn [app]. rewrite R2.
    rewrite run0f_cons. unfold cf1, cfn1. rewrite (stepf_else_pos (m, true) cf cfn rt2 E2).
    fold cf2. fold cfn1. rewrite R3.
    rewrite run0f_cons. unfold cf2, cfn1. rewrite stepf_endif_eq. exact R4.
  - intros x Hx. apply I4, I3, I2, incl_ins, Hx.
  - intros x Hr. destruct (N4 x Hr) as [Hr2|[Hc|Hn]].
    + destruct (N3' x Hr2) as [H|[H|[->|[H|H]]]]; [now left|right; now left|right; right; now left| |];
        right; right; auto.
    + right; now left.
    + right; right; auto.
  - intros id Hid. rewrite id_group, id_else in Hid.
    apply in_app_or in Hid. destruct Hid as [Hid|Hid]; [|apply in_app_or in Hid; destruct Hid as [Hid|Hid]].
    + destruct (C2 id Hid) as [c [Hc [Hk [Ha Hb]]]].
      exists c. split; [apply I4, I3, Hc|]. split; [|split].
      * rewrite ks_group. apply in_or_app. left.
        rewrite (guard_pos_true _ kd m P); [exact Hk|]. apply Ha. apply cifP_some. now left.
      * intros x Hx. apply Ha. apply cifP_some. now right.
      * intros x Hx. destruct (Hb x Hx) as [H1|H1].
        -- apply cifP_some in H1. destruct H1 as [->|H1]; [right; now left|now left].
        -- right. auto.
    + destruct (C3 id Hid) as [c [Hc [Hk [Ha Hb]]]].
      exists c. split; [apply I4, Hc|]. split; [|split].
      * rewrite ks_group. apply in_or_app. left.
        rewrite (guard_pos_false _ kd m P); [rewrite ks_else; exact Hk|].
        intros X. destruct (Hb m X) as [H1|H1]; [apply (proj1 (cifP_none cf _)) in H1; now apply Cm|now apply Me].
      * intros x Hx. apply Ha. now apply (proj2 (cifP_none cf x)).
      * intros x Hx. destruct (Hb x Hx) as [H1|H1].
        -- apply (proj1 (cifP_none cf _)) in H1. now left.
        -- right. auto.
    + destruct (C4 id Hid) as [c [Hc [Hk [Ha Hb]]]].
      exists c. split; [exact Hc|]. split; [|split].
      * rewrite ks_group. apply in_or_app. now right.
      * exact Ha.
      * intros x Hx. destruct (Hb x Hx) as [H1|H1]; [now left|]. right. auto.
Qed.

Lemma covf_all : forall f, Covf f.
Proof.
  apply (forest_mut guard Covf (fun t => match t with TElse eb => Covf eb | _ => True end)).
  - intros cf cfn rt rest OK ND DC DR E0 CC. exists rt. split; [reflexivity|].
    split; [apply incl_refl|]. split; [intros; now left|]. intros id [].
  - intros id n IHn cf cfn rt rest OK ND DC DR E0 CC.
    destruct (IHn cf cfn rt rest OK ND DC DR E0 CC) as [rt' [R [I [Nm C]]]].
    exists rt'. split; [|split; [exact I|split; [exact Nm|]]].
    + rewrite fl_code. cbn [app]. rewrite run0f_cons, stepf_line. exact R.
    + intros id' Hid. rewrite id_code in Hid. destruct Hid as [<-|Hid].
      * destruct CC as [c0 [H1 H2]]. exists c0. split; [apply I, H1|]. split; [rewrite ks_code; now left|].
        split; [intros m Hm; now apply H2|intros m Hm; left; now apply H2].
      * destruct (C id' Hid) as [c [Hc [Hk [Ha Hb]]]]. exists c. split; [exact Hc|].
        split; [rewrite ks_code; now right|]. split; [exact Ha|exact Hb].
  - intros [kd m] b IHb t IHt n IHn. destruct t as [|eb|g' b' t'].
    + destruct kd; [now apply covf_pos_end|now apply covf_ndef_end|now apply covf_pos_end|now apply covf_ndef_end].
    + destruct kd; [now apply covf_pos_else|now apply covf_ndef_else|now apply covf_pos_else|now apply covf_ndef_else].
    + intros cf cfn rt rest OK. exfalso. cbn in OK. tauto.
  - exact I.
  - intros b Hb. exact Hb.
  - intros; exact I.
Qed.

Lemma get_configs_f_run0 ds : get_configs_f true true [] [] ds = ret (run0f (st0 [] [] [[]]) ds).
Proof. reflexivity. Qed.

(* with both repairs every line of every tree of the property's family is covered *)
Theorem fixed_configs_cover f :
  in_family f -> NoDup (macros f) ->
  forall id, In id (ids guard f) ->
  exists c l, In c (get_configs_f true true [] [] (flatten guard f)) /\
              keep guard (ev_guard (dui_defs [] [] c)) f = Some l /\ In id l.
Proof.
  intros OK ND id Hid.
  destruct (covf_all f [] [] [[]] [] OK ND) as [rt' [R [I [Nm C]]]].
  - intros m _ H. now apply cifP_nil in H.
  - intros m _ [c [[<-|[]] H]]. destruct H.
  - now left.
  - exists []. split; [now left|]. intros m. split; [intros H; now apply cifP_nil in H|intros []].
  - destruct (C id Hid) as [c [Hc [Hk _]]].
    exists c, (keepS (map fst c) f). split; [|split].
    + rewrite get_configs_f_run0. rewrite app_nil_r in R. rewrite R. exact Hc.
    + rewrite dui_defs_nil. apply (proj1 (keep_keepS (map fst c))).
    + exact Hk.
Qed.

(* the attribution is exhaustive: a line the real getConfigs leaves uncovered is covered once both repairs are on *)
Definition covered_by (cs : list cfg) (f : forest guard) (id : N) : Prop :=
  exists c l, In c cs /\ keep guard (ev_guard (dui_defs [] [] c)) f = Some l /\ In id l.

Theorem uncovered_explained f id :
  in_family f -> NoDup (macros f) -> In id (ids guard f) ->
  ~ covered_by (get_configs [] [] (flatten guard f)) f id ->
  covered_by (get_configs_f true true [] [] (flatten guard f)) f id /\
  get_configs_f true true [] [] (flatten guard f) <> get_configs [] [] (flatten guard f).
Proof.
  intros OK ND Hid U. pose proof (fixed_configs_cover f OK ND id Hid) as C.
  split; [exact C|]. intros E. apply U. unfold covered_by. now rewrite <- E.
Qed.

(* with both switches off Fixed.v is the model of the code *)
Lemma step_f_off uD uU s d : step_f false false uD uU s d = step uD uU s d.
Proof.
  unfold step_f, step. destruct (skip s); [reflexivity|].
  destruct d as [[k m]|[k m]| | |i]; try reflexivity.
  unfold step_if_f, step_if. cbn [fst snd andb]. destruct k; reflexivity.
Qed.

Lemma get_configs_f_off uD uU ds : get_configs_f false false uD uU ds = get_configs uD uU ds.
Proof.
  unfold get_configs_f, get_configs. generalize init_state. induction ds as [|d ds IH]; intros s; [reflexivity|].
  cbn [fold_left]. rewrite step_f_off. apply IH.
Qed.
