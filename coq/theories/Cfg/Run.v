(* Entry point of the extracted executable for C12. *)
From CV Require Import Base.Bytes PP.Cond Cfg.Defs Cfg.Fixed.
Local Open Scope N_scope.

Definition nd (s : str) : N := match N_of_dec s with Some z => z | None => 0 end.

Definition names_of (s : str) : list str := filter (fun x => match x with [] => false | _ => true end) (split 59 s).

(* one directive per field: first byte = kind, rest = macro name / line id *)
Definition dir_of (f : str) : option (dir guard) :=
  match f with
  | 100 :: m => Some (DIf (KIfdef, m))      (* d  #ifdef m *)
  | 110 :: m => Some (DIf (KIfndef, m))     (* n  #ifndef m *)
  | 68 :: m => Some (DIf (KIfDef, m))       (* D  #if defined(m) *)
  | 78 :: m => Some (DIf (KIfNDef, m))      (* N  #if !defined(m) *)
  | 69 :: m => Some (DElif (KIfDef, m))     (* E  #elif defined(m) *)
  | 70 :: m => Some (DElif (KIfNDef, m))    (* F  #elif !defined(m) *)
  | [101] => Some DElse                     (* e *)
  | [120] => Some DEndif                    (* x *)
  | 99 :: i => Some (DLine (nd i))          (* c  code line with planted finding i *)
  | _ => None
  end.

Fixpoint dirs_of (l : list str) : option (list (dir guard)) :=
  match l with
  | [] => Some []
  | f :: r => match dir_of f, dirs_of r with
              | Some d, Some ds => Some (d :: ds)
              | _, _ => None
              end
  end.

Definition BAD : list str := [[66]].

(* names defined by a configuration string "A=A;B" *)
Definition name_of_def (d : str) : str := match split 61 d with n :: _ => n | [] => [] end.
Definition parse_cfg (s : str) : list str := map name_of_def (names_of s).

Definition kept_under (defs : list str) (ds : list (dir guard)) : list N :=
  match cond_file guard (ev_guard defs) ds with Ok out => out | _ => [] end.

Definition memN (x : N) (l : list N) : bool := existsb (N.eqb x) l.

Fixpoint all_lines (ds : list (dir guard)) : list N :=
  match ds with
  | [] => []
  | DLine i :: r => i :: all_lines r
  | _ :: r => all_lines r
  end.

Definition opt_of (s : str) : option N := match s with [] => None | _ => N_of_dec s end.

Definition run (fields : list str) : list str :=
  match fields with
  | tag :: userD :: userU :: rest =>
      let uD := names_of userD in
      let uU := names_of userU in
      if str_eqb tag [99;111;110;102;105;103;115] (* "configs" *) then
        match dirs_of rest with
        | Some ds => map render_cfg (get_configs uD uU ds)
        | None => BAD
        end
      else if str_eqb tag [101;50;101] (* "e2e"  opt force dirs *) then
        match rest with
        | opt :: force :: rest' =>
            match dirs_of rest' with
            | Some ds =>
                let f := bool_of_str force in
                let o := opt_of opt in
                map (render_current uD) (analysed f o uD uU ds) ++ [[124]] ++
                map dec_of_N (covered_ids f o uD uU ds)
            | None => BAD
            end
        | _ => BAD
        end
      else if str_eqb tag [117;110;99;111;118] (* "uncov"  n cfg1..cfgn dirs : lines kept under none of the given strings *) then
        match rest with
        | n :: rest' =>
            let k := N.to_nat (nd n) in
            let cfgs := firstn k rest' in
            match dirs_of (skipn k rest') with
            | Some ds =>
                let cov := flat_map (fun c => kept_under (filter (fun m => negb (mem_str m uU)) (uD ++ parse_cfg c)) ds) cfgs in
                map dec_of_N (filter (fun i => negb (memN i cov)) (all_lines ds))
            | None => BAD
            end
        | _ => BAD
        end
      else if str_eqb tag [102;105;120] (* "fix"  a b dirs : lines uncovered by the repaired model's configurations *) then
        match rest with
        | fa :: fb :: rest' =>
            match dirs_of rest' with
            | Some ds =>
                let cs := get_configs_f (bool_of_str fa) (bool_of_str fb) uD uU ds in
                let cov := flat_map (fun c => kept_under (dui_defs uD uU c) ds) cs in
                map dec_of_N (filter (fun i => negb (memN i cov)) (all_lines ds))
            | None => BAD
            end
        | _ => BAD
        end
      else BAD
  | _ => BAD
  end.
