(* C12: the model of getConfigs with the two PROPOSED repairs switched on individually
   (proposed_fixes/C12-*.patch). Not part of any theorem: used by the check only to name the
   cause of an uncovered line (a line that becomes covered when repair A / B is on). *)
From CV Require Import Base.Bytes PP.Cond Cfg.Defs.
Local Open Scope N_scope.

Section Fixed.
Variables (fxA fxB : bool).
(* A: `#else` of a group that re-inserts nothing keeps configs_if in step (pushes "")
   B: `#if !defined(m)` is stacked like `#ifndef m` *)

Definition step_if_f (userD userU : list str) (g : guard) (s : state) : state :=
  let config := config_of userU g in
  let is_ifndef := match fst g with KIfndef => true | _ => false end in
  let as_ifndef := is_ifndef || (fxB && match fst g, config with KIfNDef, Some _ => true | _, _ => false end) in
  let other : option cfg :=
    if is_ifndef then None
    else match config with
         | Some (m, v) => Some [(m, negb v)]
         | None => None
         end in
  let has_eq := match config with Some (_, true) => true | _ => false end in
  let hit := match other with Some o => ret_mem o (ret s) | None => false end in
  if hit && has_eq then s
  else
    let ret1 := if hit then match other with Some o => ret_del o (ret s) | None => ret s end else ret s in
    let cif' := (if as_ifndef then None else config) :: cif s in
    let cifn' := (if as_ifndef then config else None) :: cifn s in
    mkState cif' cifn' (ret_ins (cfg_of cif' userD) ret1) None.

Definition step_else_f (userD userU : list str) (elif : option guard) (s : state) : state :=
  if existsb (has_define userD) (cif s) then mkState (cif s) (cifn s) (ret s) (Some O)
  else
    let cif1 := tl (cif s) in
    match elif with
    | Some g =>
        let cif' := config_of userU g :: cif1 in
        mkState cif' (cifn s) (ret_ins (cfg_of cif' userD) (ret s)) None
    | None =>
        match cifn s with
        | [] => mkState (if fxA then None :: cif1 else cif1) (cifn s) (ret s) None
        | cand :: _ =>
            let candcfg : cfg := match cand with None => [] | Some i => [i] end in
            if ret_mem candcfg (ret s) then mkState (if fxA then None :: cif1 else cif1) (cifn s) (ret s) None
            else
              let ret1 := match cand with
                          | Some (m, _) => ret_del [(m, true)] (ret s)
                          | None => ret s
                          end in
              let cif' := cand :: cif1 in
              mkState cif' (cifn s) (ret_ins (cfg_of cif' userD) ret1) None
        end
    end.

Definition step_f (userD userU : list str) (s : state) (d : dir guard) : state :=
  match skip s with
  | Some n =>
      match d with
      | DIf _ => mkState (cif s) (cifn s) (ret s) (Some (S n))
      | DEndif => match n with
                  | O => step_endif s
                  | S n' => mkState (cif s) (cifn s) (ret s) (Some n')
                  end
      | _ => s
      end
  | None =>
      match d with
      | DIf g => step_if_f userD userU g s
      | DElif g => step_else_f userD userU (Some g) s
      | DElse => step_else_f userD userU None s
      | DEndif => step_endif s
      | DLine _ => s
      end
  end.

Definition get_configs_f (userD userU : list str) (ds : list (dir guard)) : list cfg :=
  ret (fold_left (step_f userD userU) ds init_state).
End Fixed.
